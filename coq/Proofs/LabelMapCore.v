(* Proofs.LabelMap: consistency of the proofreading machine (Model.LabelMap). *)
From DV Require Import Base.Prelude Model.Index Model.LabelMap Proofs.Index.
From Coq Require Import ZifyN ZifyNat ZifyBool.
Ltac Zify.zify_post_hook ::= Z.div_mod_to_equations.
Local Open Scope N_scope.

Local Notation Naget_aset_eq := (aget_aset_eq N.eqb N.eqb_eq).
Local Notation Naget_aset_ne := (aget_aset_ne N.eqb N.eqb_eq).
Local Notation Naget_adel_eq := (aget_adel_eq N.eqb).
Local Notation Naget_adel_ne := (aget_adel_ne N.eqb N.eqb_eq).

(* ---------- what the stored voxels and the mapping say ---------- *)
Definition vcount (st : fstate) (b s : N) : N :=
  match aget N.eqb b (f_vox st) with Some arr => countN arr s | None => 0 end.
Definition icnt (st : fstate) (l b s : N) : N :=
  match get_idx st l with Some i => cnt i b s | None => 0 end.

(* Consistent: every body's index holds, per block and supervoxel, exactly the number of stored
   voxels of that supervoxel, for the supervoxels the mapping assigns to the body; there is no
   body 0 (a stored supervoxel never maps to 0); stored indices have unique keys, no zero count
   and are not empty. *)
Record Consistent (st : fstate) : Prop := {
  c_cnt : forall l b s, icnt st l b s =
                        if negb (s =? 0) && (mapped (f_map st) s =? l) then vcount st b s else 0;
  c_zero : get_idx st 0 = None;
  c_wf : forall l i, get_idx st l = Some i -> Wf i /\ i <> [];
}.

Theorem consistent_init : Consistent f_empty.
Proof.
  split.
  - intros l b s. unfold icnt, vcount, get_idx; simpl. now destruct (negb (s =? 0) && (mapped [] s =? l)).
  - reflexivity.
  - intros l i H. discriminate.
Qed.

(* ---------- small facts ---------- *)
Lemma N_eqb_neq a b : a <> b -> (a =? b) = false.
Proof. intro H. now apply N.eqb_neq. Qed.

Lemma sv_in_supervoxels i s : memN s (supervoxels i) = sv_in i s.
Proof.
  unfold supervoxels, sv_in.
  destruct (memN s (nodupN (map ksv i))) eqn:E.
  - apply memN_In in E. apply (proj1 (nodupN_In _ _)) in E. apply in_map_iff in E as [e [He Hin]].
    symmetry. apply existsb_exists. exists e. split; [exact Hin | subst; apply N.eqb_refl].
  - symmetry. destruct (existsb (fun e => ksv e =? s) i) eqn:F; [|reflexivity].
    apply existsb_exists in F as [e [Hin He]]. apply N.eqb_eq in He.
    assert (memN s (nodupN (map ksv i)) = true) as C; [|congruence].
    apply memN_In. apply (proj2 (nodupN_In _ _)). apply in_map_iff. now exists e.
Qed.

Lemma cnt_pos_in i b s : 0 < cnt i b s -> sv_in i s = true.
Proof.
  unfold cnt. destruct (aget key_eqb (b, s) i) eqn:E; [|lia]. intros _.
  apply (aget_Some_in key_eqb key_eqb_eq) in E. unfold sv_in. apply existsb_exists.
  exists ((b, s), n). split; [exact E | apply N.eqb_refl].
Qed.

Lemma sv_in_pos i s : Wf i -> sv_in i s = true -> exists b, 0 < cnt i b s.
Proof.
  intros [ND P] H. unfold sv_in in H. apply existsb_exists in H as [[[b s'] c] [Hin He]].
  unfold ksv in He; simpl in He. apply N.eqb_eq in He; subst s'. exists b.
  unfold cnt. rewrite (in_aget_nodup key_eqb key_eqb_eq (b, s) c i ND Hin).
  rewrite Forall_forall in P. apply (P _ Hin).
Qed.

Lemma mapped_set_all m svs l s : mapped (set_all m svs l) s = if memN s svs then l else mapped m s.
Proof.
  unfold set_all. revert m. induction svs as [|a r IH]; intro m; simpl; [reflexivity|].
  rewrite IH. destruct (memN s r) eqn:E; [now rewrite orb_true_r|]. rewrite orb_false_r.
  unfold mapped. destruct (s =? a) eqn:Ea.
  - apply N.eqb_eq in Ea; subst. now rewrite Naget_aset_eq.
  - rewrite Naget_aset_ne; [reflexivity|]. intro H; subst. now rewrite N.eqb_refl in Ea.
Qed.

Lemma mapped_aset m k v s : mapped (aset N.eqb k v m) s = if s =? k then v else mapped m s.
Proof.
  unfold mapped. destruct (s =? k) eqn:E.
  - apply N.eqb_eq in E; subst. now rewrite Naget_aset_eq.
  - rewrite Naget_aset_ne; [reflexivity|]. intro H; subst. now rewrite N.eqb_refl in E.
Qed.

Lemma aget_del_all {V} (ms : list N) (ix : list (N * V)) k :
  aget N.eqb k (fold_left (fun ix l => adel N.eqb l ix) ms ix) = if memN k ms then None else aget N.eqb k ix.
Proof.
  revert ix. induction ms as [|a r IH]; intro ix; simpl; [reflexivity|].
  rewrite IH. destruct (memN k r); [now rewrite orb_true_r|]. rewrite orb_false_r.
  destruct (k =? a) eqn:E.
  - apply N.eqb_eq in E; subst. apply Naget_adel_eq.
  - apply Naget_adel_ne. intro H; subst. now rewrite N.eqb_refl in E.
Qed.

Lemma aget_aset_N {V} k v (m : list (N * V)) k' :
  aget N.eqb k' (aset N.eqb k v m) = if k' =? k then Some v else aget N.eqb k' m.
Proof.
  destruct (k' =? k) eqn:E.
  - apply N.eqb_eq in E; subst. apply Naget_aset_eq.
  - apply Naget_aset_ne. intro H; subst. now rewrite N.eqb_refl in E.
Qed.

Lemma aget_adel_N {V} k (m : list (N * V)) k' :
  aget N.eqb k' (adel N.eqb k m) = if k' =? k then None else aget N.eqb k' m.
Proof.
  destruct (k' =? k) eqn:E.
  - apply N.eqb_eq in E; subst. apply Naget_adel_eq.
  - apply Naget_adel_ne. intro H; subst. now rewrite N.eqb_refl in E.
Qed.

(* a consistent index only holds supervoxels mapped to its label, with the stored counts *)
Lemma consistent_cnt st l i b s :
  Consistent st -> get_idx st l = Some i ->
  cnt i b s = if negb (s =? 0) && (mapped (f_map st) s =? l) then vcount st b s else 0.
Proof. intros C H. pose proof (c_cnt st C l b s) as E. unfold icnt in E. now rewrite H in E. Qed.

Lemma consistent_sv_in st l i s :
  Consistent st -> get_idx st l = Some i -> sv_in i s = true -> s <> 0 /\ mapped (f_map st) s = l.
Proof.
  intros C H Hs. destruct (c_wf st C l i H) as [W _]. destruct (sv_in_pos i s W Hs) as [b Hb].
  rewrite (consistent_cnt st l i b s C H) in Hb.
  destruct (s =? 0) eqn:E0; simpl in Hb; [lia|].
  destruct (mapped (f_map st) s =? l) eqn:El; [|lia].
  split; [now apply N.eqb_neq | now apply N.eqb_eq].
Qed.

Lemma consistent_no_idx st l b s :
  Consistent st -> get_idx st l = None -> s <> 0 -> mapped (f_map st) s = l -> vcount st b s = 0.
Proof.
  intros C H Hs Hm. pose proof (c_cnt st C l b s) as E. unfold icnt in E. rewrite H in E.
  rewrite Hm, N.eqb_refl, (N_eqb_neq _ _ Hs) in E. simpl in E. lia.
Qed.

(* boolean tests to propositions, then arithmetic / congruence *)
Ltac bprop :=
  repeat match goal with
         | H : (_ =? _) = true |- _ => apply N.eqb_eq in H
         | H : (_ =? _) = false |- _ => apply N.eqb_neq in H
         | H : negb _ = true |- _ => apply negb_true_iff in H
         | H : negb _ = false |- _ => apply negb_false_iff in H
         | H : _ && _ = true |- _ => apply andb_true_iff in H; destruct H
         | H : _ || _ = false |- _ => apply orb_false_iff in H; destruct H
         end.

Ltac ifs := repeat match goal with |- context[if ?c then _ else _] => destruct c end; try reflexivity.

(* ---------- cleave ---------- *)
Lemma filter_nonempty {A} (p : A -> bool) (l : list A) x : In x l -> p x = true -> filter p l <> [].
Proof.
  intros Hin Hp E. assert (In x (filter p l)) as H by (apply filter_In; auto). rewrite E in H. destruct H.
Qed.

Lemma forallb_false_ex {A} (f : A -> bool) (l : list A) : forallb f l = false -> exists x, In x l /\ f x = false.
Proof.
  induction l as [|a r IH]; simpl; [discriminate|].
  destruct (f a) eqn:E; simpl; intro H.
  - destruct (IH H) as [x [Hx Hf]]. exists x. auto.
  - exists a. auto.
Qed.

Lemma sv_in_entry i s : sv_in i s = true -> exists e, In e i /\ ksv e = s.
Proof.
  unfold sv_in. intro H. apply existsb_exists in H as [e [Hin He]]. apply N.eqb_eq in He. now exists e.
Qed.

Theorem consistent_cleave fx st body svs newl st' :
  Consistent st -> fx_reject fx = true ->
  newl <> 0 -> get_idx st newl = None ->
  (forall s, mapped (f_map st) s = newl -> s = newl) -> (forall b, vcount st b newl = 0) ->
  f_cleave fx st body svs newl = Ok st' -> Consistent st'.
Proof.
  intros C Hrej Hn0 Hni Hfresh Hnv. unfold f_cleave. rewrite Hrej.
  destruct (get_idx st body) as [idx|] eqn:Hb; [|discriminate].
  destruct (negb (nodupb svs) || negb (forallb (sv_in idx) svs)) eqn:G1; [discriminate|].
  destruct (forallb (fun s => memN s svs) (supervoxels idx)) eqn:G2; [discriminate|].
  destruct svs as [|s0 svr] eqn:Esv; [discriminate|]. rewrite <- Esv in *.
  pose proof (idx_cleave_spec idx svs) as SP. unfold idx_cleave in *.
  set (c := filter (fun e => memN (ksv e) svs) idx) in *.
  set (r := filter (fun e => negb (memN (ksv e) svs)) idx) in *.
  destruct SP as (Hc & Hr & Hsc & Hsr & _ & _ & _ & Hw).
  intro E. apply Ok_inj in E. subst st'.
  apply orb_false_iff in G1 as [_ G1]. apply negb_false_iff in G1. rewrite forallb_forall in G1.
  assert (body <> newl) as Hbn by (intro; subst; congruence).
  assert (body <> 0) as Hb0 by (intro; subst; rewrite (c_zero st C) in Hb; discriminate).
  destruct (c_wf st C body idx Hb) as [Widx _]. destruct (Hw Widx) as [Wc Wr].
  assert (forall s, memN s svs = true -> s <> 0 /\ mapped (f_map st) s = body) as Hsvs.
  { intros s Hs. apply memN_In in Hs. apply (consistent_sv_in st body idx s C Hb). now apply G1. }
  split.
  - (* counts *)
    intros l b s. unfold icnt, get_idx, vcount; simpl.
    rewrite aget_aset_N. rewrite mapped_aset, mapped_set_all.
    pose proof (consistent_cnt st body idx b s C Hb) as Ci.
    pose proof (c_cnt st C l b s) as Cl. unfold icnt, get_idx, vcount in *.
    destruct (l =? body) eqn:Elb.
    + apply N.eqb_eq in Elb; subst l. rewrite Hr.
      destruct (s =? newl) eqn:Esn.
      * apply N.eqb_eq in Esn; subst s. specialize (Hnv b). unfold vcount in Hnv.
        rewrite (N_eqb_neq 0 body) by congruence. rewrite andb_false_r.
        destruct (memN newl svs); [reflexivity|]. rewrite Ci, Hnv. now destruct (negb (newl =? 0) && _).
      * destruct (memN s svs) eqn:Ems.
        -- rewrite (N_eqb_neq newl body) by congruence. now rewrite andb_false_r.
        -- exact Ci.
    + rewrite aget_aset_N. destruct (l =? newl) eqn:Eln.
      * apply N.eqb_eq in Eln; subst l. rewrite Hc.
        destruct (s =? newl) eqn:Esn.
        -- apply N.eqb_eq in Esn; subst s. specialize (Hnv b). unfold vcount in Hnv.
           rewrite (N_eqb_neq 0 newl) by congruence. rewrite andb_false_r.
           destruct (memN newl svs); [|reflexivity]. rewrite Ci, Hnv. now destruct (negb (newl =? 0) && _).
        -- destruct (memN s svs) eqn:Ems.
           ++ destruct (Hsvs s Ems) as [Hs0 Hsm]. rewrite N.eqb_refl, (N_eqb_neq s 0 Hs0). simpl.
              rewrite Ci, Hsm, N.eqb_refl, (N_eqb_neq s 0 Hs0). reflexivity.
           ++ destruct (mapped (f_map st) s =? newl) eqn:Em; [|now rewrite andb_false_r].
              apply N.eqb_eq in Em. apply Hfresh in Em. subst. now rewrite N.eqb_refl in Esn.
      * rewrite Cl. destruct (s =? newl) eqn:Esn.
        -- apply N.eqb_eq in Esn; subst s. specialize (Hnv b). unfold vcount in Hnv. rewrite Hnv.
           now destruct (negb (newl =? 0) && (mapped (f_map st) newl =? l)), (negb (newl =? 0) && (0 =? l)).
        -- destruct (memN s svs) eqn:Ems; [|reflexivity].
           destruct (Hsvs s Ems) as [Hs0 Hsm]. rewrite Hsm.
           rewrite (N.eqb_sym newl l), Eln, (N.eqb_sym body l), Elb. now rewrite !andb_false_r.
  - (* no body 0 *)
    unfold get_idx; simpl. rewrite !aget_aset_N.
    rewrite (N_eqb_neq 0 body) by congruence. rewrite (N_eqb_neq 0 newl) by congruence. apply (c_zero st C).
  - (* stored indices are well formed and not empty *)
    intros l i. unfold get_idx; simpl. rewrite !aget_aset_N.
    destruct (l =? body) eqn:Elb.
    + intro H; inversion H; subst i. split; [exact Wr|].
      destruct (forallb_false_ex _ _ G2) as [x [Hx Hf]].
      assert (sv_in idx x = true) as Hin by (rewrite <- sv_in_supervoxels; now apply memN_In).
      destruct (sv_in_entry idx x Hin) as [e [He Hk]].
      apply (filter_nonempty _ idx e He). now rewrite Hk, Hf.
    + destruct (l =? newl) eqn:Eln.
      * intro H; inversion H; subst i. split; [exact Wc|].
        assert (In s0 svs) as Hs0 by (rewrite Esv; now left).
        destruct (sv_in_entry idx s0 (G1 s0 Hs0)) as [e [He Hk]].
        apply (filter_nonempty _ idx e He). rewrite Hk. now apply memN_In.
      * apply (c_wf st C).
Qed.

(* ---------- renumber ---------- *)
Theorem consistent_renumber fx st old new st' :
  Consistent st -> fx_renumber fx = true -> new <> 0 ->
  f_renumber fx st old new = Ok st' -> Consistent st'.
Proof.
  intros C Hfx Hn0. unfold f_renumber. rewrite Hfx. simpl.
  destruct (fx_reject fx && ((new =? 0) || (old =? 0))); [discriminate|].
  destruct (ahas N.eqb new (f_idx st)) eqn:Hni; [discriminate|].
  destruct (match aget N.eqb new (f_map st) with Some l => negb (l =? 0) | None => false end) eqn:Hnm; [discriminate|].
  destruct (get_idx st old) as [idx|] eqn:Ho; [|discriminate].
  intro E. apply Ok_inj in E. subst st'.
  assert (get_idx st new = None) as Hni'.
  { unfold ahas in Hni. unfold get_idx. destruct (aget N.eqb new (f_idx st)); [discriminate | reflexivity]. }
  assert (old <> new) as Hon by (intro; subst; congruence).
  assert (old <> 0) as Ho0 by (intro; subst; rewrite (c_zero st C) in Ho; discriminate).
  assert (mapped (f_map st) new = new \/ mapped (f_map st) new = 0) as Hmn.
  { unfold mapped. destruct (aget N.eqb new (f_map st)); [|now left].
    apply negb_false_iff in Hnm. apply N.eqb_eq in Hnm. now right. }
  assert (forall b, vcount st b new = 0) as Hnv.
  { intro b. destruct Hmn as [Hm|Hm].
    - now apply (consistent_no_idx st new b new C Hni' Hn0 Hm).
    - now apply (consistent_no_idx st 0 b new C (c_zero st C) Hn0 Hm). }
  assert (forall s, sv_in idx s = true -> s <> 0 /\ mapped (f_map st) s = old) as Hsvs.
  { intros s Hs. now apply (consistent_sv_in st old idx s C Ho). }
  assert (forall b s, sv_in idx s = false -> s <> 0 -> mapped (f_map st) s = old -> vcount st b s = 0) as Hout.
  { intros b s Hs Hs0 Hm. pose proof (consistent_cnt st old idx b s C Ho) as Ci.
    rewrite Hm, N.eqb_refl, (N_eqb_neq s 0 Hs0) in Ci. simpl in Ci.
    destruct (N.eq_dec (vcount st b s) 0) as [|Hp]; [assumption|].
    assert (sv_in idx s = true) by (apply (cnt_pos_in idx b s); lia). congruence. }
  destruct (c_wf st C old idx Ho) as [Widx Hne].
  split.
  - intros l b s. unfold icnt, get_idx, vcount; simpl.
    rewrite aget_adel_N, aget_aset_N, mapped_aset, mapped_set_all, sv_in_supervoxels.
    change (match aget N.eqb b (f_vox st) with Some arr => countN arr s | None => 0 end) with (vcount st b s).
    pose proof (c_cnt st C l b s) as Cl. unfold icnt, get_idx in Cl.
    pose proof (consistent_cnt st old idx b s C Ho) as Ci.
    destruct (s =? new) eqn:Esn; cbv iota.
    + apply N.eqb_eq in Esn; subst s. rewrite (Hnv b) in *.
      destruct (l =? old); [now ifs|].
      destruct (l =? new).
      * rewrite Ci. now ifs.
      * rewrite Cl. now ifs.
    + destruct (sv_in idx s) eqn:Esv; cbv iota.
      * destruct (Hsvs s Esv) as [Hs0 Hsm].
        destruct (l =? old) eqn:Elo.
        { apply N.eqb_eq in Elo; subst l. rewrite (N_eqb_neq new old) by congruence. now rewrite andb_false_r. }
        destruct (l =? new) eqn:Eln.
        { apply N.eqb_eq in Eln; subst l. rewrite N.eqb_refl, Ci, Hsm, N.eqb_refl. reflexivity. }
        rewrite Cl, Hsm. rewrite (N.eqb_sym old l), Elo, (N.eqb_sym new l), Eln. reflexivity.
      * destruct (l =? old) eqn:Elo.
        { apply N.eqb_eq in Elo; subst l.
          destruct (s =? 0) eqn:Es0; [reflexivity|]. simpl.
          destruct (mapped (f_map st) s =? old) eqn:Em; [|reflexivity].
          apply N.eqb_neq in Es0. apply N.eqb_eq in Em. symmetry. now apply Hout. }
        destruct (l =? new) eqn:Eln.
        { apply N.eqb_eq in Eln; subst l. rewrite Ci.
          destruct (s =? 0) eqn:Es0; [reflexivity|]. simpl. apply N.eqb_neq in Es0.
          destruct (mapped (f_map st) s =? old) eqn:Em.
          - apply N.eqb_eq in Em. rewrite (Hout b s Esv Es0 Em). now destruct (mapped (f_map st) s =? new).
          - destruct (mapped (f_map st) s =? new) eqn:Em2; [|reflexivity].
            apply N.eqb_eq in Em2. symmetry. now apply (consistent_no_idx st new b s C Hni' Es0 Em2). }
        exact Cl.
  - unfold get_idx; simpl. rewrite aget_adel_N, aget_aset_N.
    rewrite (N_eqb_neq 0 old) by congruence. rewrite (N_eqb_neq 0 new) by congruence. apply (c_zero st C).
  - intros l i. unfold get_idx; simpl. rewrite aget_adel_N, aget_aset_N.
    destruct (l =? old); [discriminate|]. destruct (l =? new).
    + intro H; inversion H; subst. now split.
    + apply (c_wf st C).
Qed.

(* ---------- merge ---------- *)
Definition sumcnt (l : list index) (b s : N) : N := fold_right (fun i acc => cnt i b s + acc) 0 l.

Lemma idx_add_all_spec l : forall acc r,
  idx_add_all acc l = Ok r ->
  (forall b s, cnt r b s = cnt acc b s + sumcnt l b s) /\ (Wf acc -> Forall Wf l -> Wf r).
Proof.
  induction l as [|i l IH]; intros acc r H; simpl in H.
  - apply Ok_inj in H; subst. split; [intros; simpl; lia | auto].
  - destruct (idx_add acc i) as [a| |] eqn:E; simpl in H; try discriminate.
    destruct (IH a r H) as [H1 H2]. split.
    + intros b s. rewrite H1, (idx_add_cnt acc i a E). simpl. lia.
    + intros Wa Wl. inversion Wl; subst. apply H2; [|assumption]. now apply (idx_add_wf acc i a E).
Qed.

Lemma all_idx_spec st ms : forall midxs,
  all_idx st ms = Some midxs -> Forall2 (fun l i => get_idx st l = Some i) ms midxs.
Proof.
  induction ms as [|l r IH]; intros midxs H; simpl in H.
  - inversion H. constructor.
  - destruct (get_idx st l) as [i|] eqn:E; [|discriminate].
    destruct (num_voxels i =? 0); [discriminate|].
    destruct (all_idx st r) as [is|] eqn:E2; [|discriminate].
    inversion H; subst. constructor; [exact E | now apply IH].
Qed.

Lemma sumcnt_consistent st ms midxs b s :
  Consistent st -> NoDup ms -> Forall2 (fun l i => get_idx st l = Some i) ms midxs ->
  sumcnt midxs b s = if negb (s =? 0) && memN (mapped (f_map st) s) ms then vcount st b s else 0.
Proof.
  intros C ND F. induction F as [|l i ms' midxs' Hl F IH]; simpl.
  - now rewrite andb_false_r.
  - inversion ND as [|? ? Hn ND']; subst. rewrite (IH ND'), (consistent_cnt st l i b s C Hl).
    destruct (s =? 0); simpl; [reflexivity|].
    destruct (mapped (f_map st) s =? l) eqn:E; simpl.
    + apply N.eqb_eq in E. rewrite E in *.
      destruct (memN l ms') eqn:M; [apply memN_In in M; contradiction | lia].
    + lia.
Qed.

Lemma Forall2_Forall_wf st ms midxs :
  Consistent st -> Forall2 (fun l i => get_idx st l = Some i) ms midxs -> Forall Wf midxs.
Proof.
  intros C F. induction F; constructor; [|assumption]. now destruct (c_wf st C _ _ H).
Qed.

Lemma Wf_nil : Wf []. Proof. split; constructor. Qed.

Theorem consistent_merge fx st target merged st' :
  Consistent st -> ~ In target merged -> f_merge fx st target merged = Ok st' -> Consistent st'.
Proof.
  intros C Hnt. unfold f_merge.
  set (ms := nodupN merged).
  assert (NoDup ms) as NDms by apply nodupN_NoDup.
  assert (memN target ms = false) as Htm.
  { destruct (memN target ms) eqn:E; [|reflexivity]. apply memN_In in E.
    apply (proj1 (nodupN_In _ _)) in E. contradiction. }
  destruct ms as [|m0 msr] eqn:Ems; [discriminate|]. rewrite <- Ems in *.
  destruct (fx_reject fx && memN target ms); [discriminate|].
  destruct (all_idx st ms) as [midxs|] eqn:Ha; [|discriminate].
  destruct (get_idx st target) as [tidx|] eqn:Ht; [|discriminate].
  destruct (idx_add_all [] midxs) as [mergeIdx| |] eqn:Em; try discriminate.
  destruct (num_voxels mergeIdx =? 0); [discriminate|].
  destruct (idx_add tidx mergeIdx) as [t'| |] eqn:Eadd; try discriminate.
  intro E. apply Ok_inj in E. subst st'.
  pose proof (all_idx_spec st ms midxs Ha) as F2.
  destruct (idx_add_all_spec midxs [] mergeIdx Em) as [Hcm Hwm].
  pose proof (Hwm Wf_nil (Forall2_Forall_wf st ms midxs C F2)) as Wm.
  destruct (c_wf st C target tidx Ht) as [Wt Hne].
  assert (forall b s, cnt mergeIdx b s =
                      if negb (s =? 0) && memN (mapped (f_map st) s) ms then vcount st b s else 0) as Hmc.
  { intros b s. rewrite Hcm. unfold cnt at 1; simpl. now apply sumcnt_consistent. }
  assert (forall s, sv_in mergeIdx s = true -> s <> 0 /\ memN (mapped (f_map st) s) ms = true) as Hin.
  { intros s Hs. destruct (sv_in_pos mergeIdx s Wm Hs) as [b Hb]. rewrite Hmc in Hb.
    destruct (s =? 0) eqn:E0; simpl in Hb; [lia|]. apply N.eqb_neq in E0.
    destruct (memN (mapped (f_map st) s) ms); [auto | lia]. }
  assert (forall b s, sv_in mergeIdx s = false -> cnt mergeIdx b s = 0) as Hout.
  { intros b s Hs. destruct (N.eq_dec (cnt mergeIdx b s) 0) as [|Hp]; [assumption|].
    assert (sv_in mergeIdx s = true) by (apply (cnt_pos_in mergeIdx b s); lia). congruence. }
  assert (target <> 0) as Ht0 by (intro; subst; rewrite (c_zero st C) in Ht; discriminate).
  assert (memN 0 ms = false) as H0m.
  { destruct (memN 0 ms) eqn:E; [|reflexivity]. apply memN_In in E.
    clear - C F2 E. induction F2; [destruct E|]. destruct E as [E|E]; [subst; rewrite (c_zero st C) in H; discriminate | auto]. }
  split.
  - intros l b s. unfold icnt, get_idx, vcount; simpl.
    rewrite aget_del_all, aget_aset_N, mapped_set_all, sv_in_supervoxels.
    change (match aget N.eqb b (f_vox st) with Some arr => countN arr s | None => 0 end) with (vcount st b s).
    pose proof (c_cnt st C l b s) as Cl. unfold icnt, get_idx in Cl.
    pose proof (consistent_cnt st target tidx b s C Ht) as Ct.
    pose proof (Hmc b s) as Cm.
    destruct (sv_in mergeIdx s) eqn:Esv; cbv iota.
    + destruct (Hin s Esv) as [Hs0 HM]. rewrite (N_eqb_neq s 0 Hs0) in *. simpl in *. rewrite HM in Cm.
      destruct (memN l ms) eqn:Elm.
      * assert (target <> l) by (intro; subst; congruence). now rewrite (N_eqb_neq target l).
      * destruct (l =? target) eqn:Elt.
        -- apply N.eqb_eq in Elt; subst l. rewrite N.eqb_refl. rewrite (idx_add_cnt tidx mergeIdx t' Eadd), Ct, Cm.
           destruct (mapped (f_map st) s =? target) eqn:Emt; [|lia].
           apply N.eqb_eq in Emt. rewrite Emt in HM. congruence.
        -- rewrite (N.eqb_sym target l), Elt, Cl.
           destruct (mapped (f_map st) s =? l) eqn:Eml; [|reflexivity].
           apply N.eqb_eq in Eml. rewrite Eml in HM. congruence.
    + pose proof (Hout b s Esv) as Z. rewrite Z in Cm.
      destruct (memN l ms) eqn:Elm.
      * destruct (s =? 0); simpl in *; [reflexivity|].
        destruct (mapped (f_map st) s =? l) eqn:Eml; [|reflexivity].
        apply N.eqb_eq in Eml. rewrite Eml, Elm in Cm. exact Cm.
      * destruct (l =? target) eqn:Elt.
        -- apply N.eqb_eq in Elt; subst l. rewrite (idx_add_cnt tidx mergeIdx t' Eadd), Ct, Z. lia.
        -- exact Cl.
  - unfold get_idx; simpl. rewrite aget_del_all, aget_aset_N, H0m.
    rewrite (N_eqb_neq 0 target) by congruence. apply (c_zero st C).
  - intros l i. unfold get_idx; simpl. rewrite aget_del_all, aget_aset_N.
    destruct (memN l ms); [discriminate|]. destruct (l =? target).
    + intro H; inversion H; subst i. split; [now apply (idx_add_wf tidx mergeIdx t' Eadd)|].
      unfold idx_add in Eadd. destruct (existsb _ mergeIdx); [discriminate|]. apply Ok_inj in Eadd. subst t'.
      destruct tidx; [congruence | discriminate].
    + apply (c_wf st C).
Qed.

(* ---------- voxel writes: POST raw?mutate=true, POST blocks / raw ---------- *)
Lemma aget_put_blocks blocks : forall vx b,
  NoDup (map fst blocks) ->
  aget N.eqb b (put_blocks vx blocks) = match aget N.eqb b blocks with Some a => Some a | None => aget N.eqb b vx end.
Proof.
  unfold put_blocks. induction blocks as [|[b0 a0] r IH]; intros vx b ND; simpl; [reflexivity|].
  inversion ND as [|? ? Hn ND']; subst. rewrite (IH _ b ND'), aget_aset_N.
  destruct (b =? b0) eqn:E; [|reflexivity]. apply N.eqb_eq in E; subst b0.
  now rewrite (proj2 (aget_None_notin N.eqb N.eqb_eq b r) Hn).
Qed.

Lemma aget_block_changes st mutate blocks b :
  aget N.eqb b (block_changes st mutate blocks) =
  match aget N.eqb b blocks with
  | Some a => Some (calc_num_labels a (if mutate then aget N.eqb b (f_vox st) else None))
  | None => None
  end.
Proof.
  unfold block_changes. induction blocks as [|[b0 a0] r IH]; simpl; [reflexivity|].
  destruct (b =? b0) eqn:E; [apply N.eqb_eq in E; now subst | exact IH].
Qed.

Lemma keys_block_changes st mutate blocks : map fst (block_changes st mutate blocks) = map fst blocks.
Proof. unfold block_changes. rewrite map_map. reflexivity. Qed.

(* the labels aggregateBlockChanges visits, with the supervoxels it resolved to each *)
Definition lstep (mapf : N -> N) (ls : list (N * list N)) (sb : N * list (N * Z)) : list (N * list N) :=
  let l := mapf (fst sb) in
  let old := match aget N.eqb l ls with Some m => m | None => [] end in
  aset N.eqb l (if l =? 0 then old else old ++ [fst sb]) ls.

Definition linv (mapf : N -> N) (ls : list (N * list N)) (P : list N) : Prop :=
  NoDup (map fst ls) /\
  (forall l, ahas N.eqb l ls = existsb (fun s => mapf s =? l) P) /\
  (forall l m s, aget N.eqb l ls = Some m -> l <> 0 -> (In s m <-> In s P /\ mapf s = l)).

Lemma linv_step mapf ls P sb : linv mapf ls P -> linv mapf (lstep mapf ls sb) (P ++ [fst sb]).
Proof.
  intros (ND & Hk & Hm). unfold lstep. set (l0 := mapf (fst sb)). split; [|split].
  - now apply (nodup_aset N.eqb N.eqb_eq).
  - intro l. rewrite ahas_aset, Hk, existsb_app. simpl. rewrite orb_false_r. fold l0.
    now rewrite (N.eqb_sym l0 l).
  - intros l m s. rewrite aget_aset_N. destruct (l =? l0) eqn:E.
    + apply N.eqb_eq in E; subst l. intros H Hl0. inversion H; subst m. clear H.
      rewrite (N_eqb_neq _ _ Hl0). rewrite !in_app_iff. simpl.
      destruct (aget N.eqb l0 ls) as [m0|] eqn:A.
      * rewrite (Hm l0 m0 s A Hl0). split.
        -- intros [[H1 H2]|[H|[]]]; [auto | subst; auto].
        -- intros [[H1|[H1|[]]] H2]; [auto | subst; auto].
      * split.
        -- intros [[]|[H|[]]]. subst; auto.
        -- intros [[H1|[H1|[]]] H2]; [|subst; auto].
           exfalso. specialize (Hk l0). unfold ahas in Hk. rewrite A in Hk.
           symmetry in Hk. assert (existsb (fun s0 => mapf s0 =? l0) P = true) as C; [|congruence].
           apply existsb_exists. exists s. split; [exact H1 | now apply N.eqb_eq].
    + intros H Hl. rewrite (Hm l m s H Hl). rewrite in_app_iff. simpl. split; [tauto|].
      intros [[H1|[H1|[]]] H2]; [auto|]. exfalso. subst s. unfold l0 in E. rewrite H2, N.eqb_refl in E. discriminate.
Qed.

Lemma agg_labels_spec mapf svc : linv mapf (agg_labels mapf svc) (map fst svc).
Proof.
  unfold agg_labels.
  assert (forall svc ls P, linv mapf ls P -> linv mapf (fold_left (lstep mapf) svc ls) (P ++ map fst svc)) as G.
  { clear svc. induction svc as [|sb r IH]; intros ls P H; simpl.
    - now rewrite app_nil_r.
    - change (P ++ fst sb :: map fst r) with (P ++ [fst sb] ++ map fst r). rewrite app_assoc.
      apply IH. now apply linv_step. }
  apply (G svc [] []). split; [constructor | split; [reflexivity | intros l m s H; discriminate]].
Qed.

Lemma aget_put_idx ix l oi l' : aget N.eqb l' (put_idx ix l oi) = if l' =? l then oi else aget N.eqb l' ix.
Proof. unfold put_idx. destruct oi; [apply aget_aset_N | apply aget_adel_N]. Qed.

(* the index a label ends up with after ChangeLabelIndex (an error leaves it as it was) *)
Definition lab_result (mo : bool) (ix : list (N * index)) (svc : changes) (l : N) (m : list N) : option index :=
  match change_label_index l (aget N.eqb l ix) svc (if mo && negb (l =? 0) then Some m else None) with
  | Ok oi => oi
  | _ => aget N.eqb l ix
  end.

Lemma apply_labels_get mo svc ls : forall ix l,
  NoDup (map fst ls) ->
  aget N.eqb l (fold_left (fun ix lm =>
                   match change_label_index (fst lm) (aget N.eqb (fst lm) ix) svc
                                            (if mo && negb (fst lm =? 0) then Some (snd lm) else None) with
                   | Ok oi => put_idx ix (fst lm) oi
                   | _ => ix
                   end) ls ix)
  = match aget N.eqb l ls with Some m => lab_result mo ix svc l m | None => aget N.eqb l ix end.
Proof.
  induction ls as [|[l0 m0] r IH]; intros ix l ND; simpl; [reflexivity|].
  inversion ND as [|? ? Hn ND']; subst. rewrite (IH _ l ND').
  destruct (l =? l0) eqn:E.
  - apply N.eqb_eq in E; subst l0. rewrite (proj2 (aget_None_notin N.eqb N.eqb_eq l r) Hn).
    unfold lab_result.
    destruct (change_label_index l (aget N.eqb l ix) svc _) as [oi| |]; [|reflexivity|reflexivity].
    now rewrite aget_put_idx, N.eqb_refl.
  - assert (aget N.eqb l (match change_label_index l0 (aget N.eqb l0 ix) svc
                                  (if mo && negb (l0 =? 0) then Some m0 else None) with
                          | Ok oi => put_idx ix l0 oi | _ => ix end) = aget N.eqb l ix) as Same.
    { destruct (change_label_index l0 _ svc _); [|reflexivity|reflexivity]. now rewrite aget_put_idx, E. }
    destruct (aget N.eqb l r) as [m|]; [|exact Same].
    unfold lab_result. now rewrite Same.
Qed.

Section Write.
  Variable fx : fixes.
  Variable st : fstate.
  Variable mutate : bool.
  Variable blocks : list (N * list N).
  Hypothesis C : Consistent st.
  Hypothesis Hfx : fx_members fx = true.
  Hypothesis NDb : NoDup (map fst blocks).
  Hypothesis Hfresh : mutate = false -> forall b a, In (b, a) blocks -> aget N.eqb b (f_vox st) = None.
  Hypothesis Hlen : forall b a, In (b, a) blocks -> N.of_nat (length a) < 2 ^ 31.
  Hypothesis Hlen0 : forall b a, aget N.eqb b (f_vox st) = Some a -> N.of_nat (length a) < 2 ^ 31.
  Hypothesis Hlive : forall b a s, In (b, a) blocks -> 0 < occ a s -> s <> 0 -> mapped (f_map st) s <> 0.

  Let mp := mapped (f_map st).
  Let prev (b : N) := if mutate then aget N.eqb b (f_vox st) else None.
  Let chs := block_changes st mutate blocks.
  Let svc := agg_changes chs.
  Let ls := agg_labels mp svc.
  Let st' := f_write fx mp st mutate blocks.

  Lemma w_in_blocks b a : aget N.eqb b blocks = Some a <-> In (b, a) blocks.
  Proof.
    split; [apply (aget_Some_in N.eqb N.eqb_eq) | apply (in_aget_nodup N.eqb N.eqb_eq); exact NDb].
  Qed.

  Lemma w_prev b a s : In (b, a) blocks -> occo (prev b) s = vcount st b s.
  Proof.
    intro Hin. unfold prev, vcount. destruct mutate eqn:M.
    - destruct (aget N.eqb b (f_vox st)); reflexivity.
    - rewrite (Hfresh eq_refl b a Hin). reflexivity.
  Qed.

  Lemma w_vcount_bound b s : vcount st b s < 2 ^ 31.
  Proof.
    unfold vcount. destruct (aget N.eqb b (f_vox st)) as [a|] eqn:A; [|reflexivity].
    pose proof (Hlen0 b a A). pose proof (occ_le_length a s). change (countN a s) with (occ a s). lia.
  Qed.

  Lemma w_cwf : CWf svc.
  Proof. unfold svc. rewrite agg_changes_fold. apply cwf_fold_blocks, cwf_nil. Qed.

  Lemma w_chs_in b ds : In (b, ds) chs -> exists a, In (b, a) blocks /\ ds = calc_num_labels a (prev b).
  Proof.
    unfold chs, block_changes. intro H. apply in_map_iff in H as [[b' a] [E Hin]]. simpl in E.
    inversion E; subst. exists a. split; [exact Hin | reflexivity].
  Qed.

  Lemma w_dl s b : dl svc s b = delta_at chs s b.
  Proof.
    unfold svc. rewrite agg_changes_fold, dl_fold_blocks.
    - unfold dl at 1; simpl. unfold zget; simpl. lia.
    - unfold chs. rewrite keys_block_changes. exact NDb.
    - intros b' ds Hin. destruct (w_chs_in b' ds Hin) as [a [_ ->]]. apply calc_num_labels_nodup.
  Qed.

  Lemma w_delta s b : s <> 0 ->
    delta_at chs s b = match aget N.eqb b blocks with
                       | Some a => (Z.of_N (occ a s) - Z.of_N (vcount st b s))%Z
                       | None => 0%Z
                       end.
  Proof.
    intro Hs. unfold delta_at, chs. rewrite aget_block_changes.
    destruct (aget N.eqb b blocks) as [a|] eqn:A; [|reflexivity].
    rewrite calc_num_labels_spec, (N_eqb_neq s 0 Hs). fold (prev b).
    now rewrite (w_prev b a s (proj1 (w_in_blocks b a) A)).
  Qed.

  Lemma w_vcount' b s :
    vcount st' b s = match aget N.eqb b blocks with Some a => occ a s | None => vcount st b s end.
  Proof.
    unfold vcount, st', f_write; simpl. rewrite (aget_put_blocks blocks _ b NDb).
    now destruct (aget N.eqb b blocks).
  Qed.

  Lemma w_vcount_delta b s : s <> 0 -> Z.of_N (vcount st' b s) = (Z.of_N (vcount st b s) + dl svc s b)%Z.
  Proof.
    intro Hs. rewrite w_vcount', w_dl, (w_delta s b Hs). destruct (aget N.eqb b blocks); lia.
  Qed.

  Lemma w_has s : ahas N.eqb s svc = true ->
    s <> 0 /\ mp s <> 0 /\ exists b a, In (b, a) blocks /\ (0 < occ a s \/ 0 < vcount st b s).
  Proof.
    unfold svc. rewrite agg_changes_fold, has_fold_blocks. unfold ahas at 1; simpl.
    intro H. apply existsb_exists in H as [[b ds] [Hin Hh]]. simpl in Hh.
    destruct (w_chs_in b ds Hin) as [a [Hb ->]]. rewrite calc_num_labels_has in Hh.
    apply andb_true_iff in Hh as [H0 Hp]. apply negb_true_iff in H0. apply N.eqb_neq in H0.
    rewrite (w_prev b a s Hb) in Hp.
    assert (0 < occ a s \/ 0 < vcount st b s) as Hp'.
    { apply orb_true_iff in Hp as [Hp|Hp]; apply N.ltb_lt in Hp; auto. }
    split; [exact H0|]. split; [|now exists b, a].
    destruct Hp' as [Hp'|Hp']; [now apply (Hlive b a s Hb)|].
    intro Hm. pose proof (consistent_no_idx st 0 b s C (c_zero st C) H0 Hm). lia.
  Qed.

  Lemma w_nohas s b : ahas N.eqb s svc = false -> dl svc s b = 0%Z.
  Proof. unfold ahas, dl. now destruct (aget N.eqb s svc). Qed.

  Lemma w_linv : linv mp ls (map fst svc).
  Proof. apply agg_labels_spec. Qed.

  Lemma w_in_keys s : In s (map fst svc) <-> ahas N.eqb s svc = true.
  Proof.
    unfold ahas. destruct (aget N.eqb s svc) eqn:A.
    - split; [reflexivity|]. intros _. apply (aget_Some_in N.eqb N.eqb_eq) in A. apply in_map_iff. now exists (s, l).
    - split; [|discriminate]. intro H. apply (aget_None_notin N.eqb N.eqb_eq) in A. contradiction.
  Qed.

  Lemma w_label_has l : ahas N.eqb l ls = true -> l <> 0 /\ exists s, ahas N.eqb s svc = true /\ mp s = l.
  Proof.
    destruct w_linv as (_ & Hk & _). rewrite Hk. intro H. apply existsb_exists in H as [s [Hin E]].
    apply N.eqb_eq in E. apply w_in_keys in Hin. destruct (w_has s Hin) as (_ & Hm & _).
    split; [congruence | now exists s].
  Qed.

  Lemma w_label_nohas l s : ahas N.eqb l ls = false -> mp s = l -> ahas N.eqb s svc = false.
  Proof.
    destruct w_linv as (_ & Hk & _). rewrite Hk. intros H Hm.
    destruct (ahas N.eqb s svc) eqn:A; [|reflexivity]. apply w_in_keys in A.
    assert (existsb (fun s0 => mp s0 =? l) (map fst svc) = true) as X; [|congruence].
    apply existsb_exists. exists s. split; [exact A | now apply N.eqb_eq].
  Qed.

  Let idx0 (l : N) : index := match get_idx st l with Some i => i | None => [] end.

  Lemma w_idx0_wf l : Wf (idx0 l).
  Proof. unfold idx0. destruct (get_idx st l) eqn:G; [apply (c_wf st C l i G) | apply Wf_nil]. Qed.

  Lemma w_idx0_cnt l b s :
    cnt (idx0 l) b s = if negb (s =? 0) && (mp s =? l) then vcount st b s else 0.
  Proof.
    pose proof (c_cnt st C l b s) as E. unfold icnt in E. unfold idx0.
    destruct (get_idx st l); [exact E|]. unfold cnt; simpl. exact E.
  Qed.

  Lemma w_idx0_sv l s : sv_in (idx0 l) s = true -> s <> 0 /\ mp s = l.
  Proof.
    unfold idx0. destruct (get_idx st l) eqn:G; [apply (consistent_sv_in st l i s C G) | discriminate].
  Qed.

  Lemma w_label l m : aget N.eqb l ls = Some m ->
    l <> 0 /\
    exists idx', modify_blocks l (idx0 l) svc (Some m) = Ok idx' /\ Wf idx' /\
      forall b s, cnt idx' b s = if negb (s =? 0) && (mp s =? l) then vcount st' b s else 0.
  Proof.
    intro A.
    assert (ahas N.eqb l ls = true) as Hl by (unfold ahas; now rewrite A).
    destruct (w_label_has l Hl) as [Hl0 _]. split; [exact Hl0|].
    destruct w_linv as (_ & _ & Hm). specialize (Hm l m).
    set (acc := accepts l (idx0 l) (Some m)).
    assert (forall s, acc s = true -> s <> 0 /\ mp s = l) as B1.
    { intros s Ha. unfold acc, accepts in Ha. apply orb_true_iff in Ha as [Ha|Ha].
      - rewrite sv_in_supervoxels in Ha. now apply w_idx0_sv.
      - apply memN_In in Ha. apply (Hm s A Hl0) in Ha as [Hk Hs]. split; [|exact Hs].
        apply w_in_keys in Hk. now destruct (w_has s Hk). }
    assert (forall s, ahas N.eqb s svc = true -> mp s = l -> acc s = true) as B2.
    { intros s Hk Hs. unfold acc, accepts. apply orb_true_iff. right. apply memN_In.
      apply (Hm s A Hl0). split; [now apply w_in_keys | exact Hs]. }
    assert (forall s b d, In (s, b, d) (flat_changes acc svc) ->
              (- 2 ^ 31 <= d < 2 ^ 31)%Z /\ (0 <= Z.of_N (cnt (idx0 l) b s) + d < 2 ^ 32)%Z /\
              ((0 < Z.of_N (cnt (idx0 l) b s) + d)%Z \/ 0 < cnt (idx0 l) b s)) as Pre.
    { intros s b d Hin.
      destruct (in_flat_changes acc svc s b d Hin) as [Ha Hk].
      destruct (B1 s Ha) as [Hs0 Hsl].
      pose proof (in_flat_changes_dl acc svc s b d w_cwf Hin) as Hd.
      pose proof (in_flat_changes_bkeys acc svc s b d Hin (proj1 w_cwf)) as Hb.
      unfold svc in Hb. rewrite agg_changes_fold in Hb. apply bkeys_fold_blocks in Hb as [[]|[ds [Hc Hh]]].
      destruct (w_chs_in b ds Hc) as [a [Hba ->]]. rewrite calc_num_labels_has in Hh.
      apply andb_true_iff in Hh as [_ Hp]. rewrite (w_prev b a s Hba) in Hp.
      rewrite w_dl, (w_delta s b Hs0), (proj2 (w_in_blocks b a) Hba) in Hd.
      rewrite w_idx0_cnt, Hsl, N.eqb_refl, (N_eqb_neq s 0 Hs0). cbn [negb andb].
      pose proof (Hlen b a Hba). pose proof (occ_le_length a s). pose proof (w_vcount_bound b s).
      assert (0 < occ a s \/ 0 < vcount st b s) as Hp'.
      { apply orb_true_iff in Hp as [Hp|Hp]; apply N.ltb_lt in Hp; auto. }
      rewrite two31, two32. change (2 ^ 31) with 2147483648 in *. subst d. lia. }
    assert (NoDup (map fst (flat_changes acc svc))) as NDf by (apply nodup_flat, w_cwf).
    destruct (modify_blocks_spec l (idx0 l) svc (Some m) NDf) as [idx' [E Hc]].
    { intros s b d Hin. destruct (Pre s b d Hin) as (P1 & P2 & _). auto. }
    exists idx'. split; [exact E|]. split.
    - rewrite modify_blocks_flat in E. apply (apply_flat_wf _ (idx0 l) idx' (w_idx0_wf l) NDf Pre E).
    - intros b s. specialize (Hc b s). fold acc in Hc. rewrite (dsum_flat acc svc s b w_cwf) in Hc.
      rewrite w_idx0_cnt in Hc.
      destruct (negb (s =? 0) && (mp s =? l)) eqn:Cond.
      + apply andb_true_iff in Cond as [Hs0 Hsl]. apply negb_true_iff in Hs0.
        apply N.eqb_neq in Hs0. apply N.eqb_eq in Hsl.
        pose proof (w_vcount_delta b s Hs0) as Hv.
        destruct (ahas N.eqb s svc) eqn:Hk.
        * rewrite (B2 s Hk Hsl) in Hc. lia.
        * rewrite (w_nohas s b Hk) in *. destruct (acc s); lia.
      + destruct (acc s) eqn:Ha; [|lia].
        destruct (B1 s Ha) as [Hs0 Hsl]. rewrite Hsl, N.eqb_refl, (N_eqb_neq s 0 Hs0) in Cond. discriminate.
  Qed.

  Lemma w_get_idx l :
    get_idx st' l = match aget N.eqb l ls with
                    | Some m => lab_result true (f_idx st) svc l m
                    | None => get_idx st l
                    end.
  Proof.
    unfold get_idx, st', f_write, apply_label_changes; simpl. rewrite Hfx.
    apply (apply_labels_get true svc ls (f_idx st) l). apply w_linv.
  Qed.

  Lemma w_lab_result l m idx' :
    l <> 0 -> modify_blocks l (idx0 l) svc (Some m) = Ok idx' ->
    lab_result true (f_idx st) svc l m = match idx' with [] => None | _ => Some idx' end.
  Proof.
    intros Hl E. unfold lab_result, change_label_index. rewrite (N_eqb_neq l 0 Hl). cbn [negb andb].
    fold (get_idx st l). fold (idx0 l). now rewrite E.
  Qed.

  Theorem consistent_write : Consistent st'.
  Proof.
    split.
    - intros l b s. unfold icnt. rewrite w_get_idx.
      change (mapped (f_map st') s) with (mp s).
      destruct (aget N.eqb l ls) as [m|] eqn:A.
      + destruct (w_label l m A) as (Hl0 & idx' & E & _ & Hc).
        rewrite (w_lab_result l m idx' Hl0 E). rewrite <- Hc. now destruct idx'.
      + pose proof (c_cnt st C l b s) as E. unfold icnt in E. fold mp in E. rewrite E.
        destruct (negb (s =? 0) && (mp s =? l)) eqn:Cond; [|reflexivity].
        apply andb_true_iff in Cond as [Hs0 Hsl]. apply negb_true_iff in Hs0.
        apply N.eqb_neq in Hs0. apply N.eqb_eq in Hsl.
        assert (ahas N.eqb l ls = false) as Hn by (unfold ahas; now rewrite A).
        pose proof (w_vcount_delta b s Hs0) as Hv.
        rewrite (w_nohas s b (w_label_nohas l s Hn Hsl)) in Hv. lia.
    - rewrite w_get_idx. destruct (aget N.eqb 0 ls) as [m|] eqn:A; [|apply (c_zero st C)].
      destruct (w_label 0 m A) as [H _]. congruence.
    - intros l i. rewrite w_get_idx. destruct (aget N.eqb l ls) as [m|] eqn:A; [|apply (c_wf st C)].
      destruct (w_label l m A) as (Hl0 & idx' & E & W & _).
      rewrite (w_lab_result l m idx' Hl0 E). destruct idx' as [|e r]; [discriminate|].
      intro H. inversion H; subst. split; [exact W | discriminate].
  Qed.

  (* blocks and mapping entries never disappear *)
  Lemma write_keys_grow k : aget N.eqb k (f_vox st') = None -> aget N.eqb k (f_vox st) = None.
  Proof.
    unfold st', f_write; simpl. rewrite (aget_put_blocks blocks _ k NDb).
    now destruct (aget N.eqb k blocks).
  Qed.
End Write.

(* ---------- split-supervoxel ---------- *)
Lemma count_masked_le arr : forall mask sv, count_masked arr mask sv <= occ arr sv.
Proof.
  induction arr as [|l r IH]; intros mask sv; cbn [count_masked]; [rewrite occ_nil; lia|].
  rewrite occ_cons. specialize (IH (match mask with _ :: t => t | [] => [] end) sv).
  destruct (l =? sv); cbn [andb]; [destruct (match mask with b :: _ => b | [] => false end)|]; lia.
Qed.

Lemma occ_relabel_sv arr : forall mask sv split remain s,
  split <> sv -> remain <> sv -> split <> remain ->
  occ (relabel_sv arr mask sv split remain) s =
  if s =? sv then 0
  else if s =? split then occ arr split + count_masked arr mask sv
  else if s =? remain then occ arr remain + (occ arr sv - count_masked arr mask sv)
  else occ arr s.
Proof.
  induction arr as [|l r IH]; intros mask sv split remain s H1 H2 H3.
  - cbn [relabel_sv count_masked]. rewrite !occ_nil. now destruct (s =? sv), (s =? split), (s =? remain).
  - cbn [relabel_sv count_masked]. rewrite !occ_cons.
    rewrite (IH (match mask with _ :: t => t | [] => [] end) sv split remain s H1 H2 H3).
    pose proof (count_masked_le r (match mask with _ :: t => t | [] => [] end) sv) as Le.
    set (m := match mask with b :: _ => b | [] => false end).
    set (cm := count_masked r (match mask with _ :: t => t | [] => [] end) sv) in *.
    clearbody cm m. clear IH.
    destruct (l =? sv) eqn:Els.
    + apply N.eqb_eq in Els; subst l. cbn [andb].
      rewrite (N_eqb_neq sv split) by congruence. rewrite (N_eqb_neq sv remain) by congruence.
      destruct m.
      * destruct (s =? sv) eqn:E1; [apply N.eqb_eq in E1; subst; now rewrite (N_eqb_neq split sv H1)|].
        destruct (split =? s) eqn:E2.
        -- apply N.eqb_eq in E2; subst s. rewrite N.eqb_refl. lia.
        -- rewrite (N.eqb_sym s split), E2, ?(N.eqb_sym sv s), ?E1. destruct (s =? remain); lia.
      * destruct (s =? sv) eqn:E1; [apply N.eqb_eq in E1; subst; now rewrite (N_eqb_neq remain sv H2)|].
        destruct (remain =? s) eqn:E2.
        -- apply N.eqb_eq in E2; subst s. rewrite N.eqb_refl. rewrite (N_eqb_neq remain split) by congruence. lia.
        -- rewrite (N.eqb_sym s remain), E2, ?(N.eqb_sym sv s), ?E1. destruct (s =? split); lia.
    + cbn [andb]. destruct (s =? sv) eqn:E1.
      * apply N.eqb_eq in E1; subst s. now rewrite Els.
      * destruct (l =? s) eqn:E4; destruct (s =? split) eqn:E2; destruct (s =? remain) eqn:E3; bprop; subst;
          rewrite ?N.eqb_refl; rewrite ?(N_eqb_neq _ _ H3); try lia;
          repeat match goal with |- context[if ?c then _ else _] => destruct c eqn:? end; bprop; subst; try congruence; lia.
Qed.

Definition mask_of (masks : list (N * list bool)) (b : N) : list bool :=
  match aget N.eqb b masks with Some m => m | None => [] end.

Lemma split_sv_blocks_spec sv split remain masks idx' : forall blks vx vx',
  NoDup blks ->
  split_sv_blocks vx blks sv split remain masks idx' = Some vx' ->
  (forall b, aget N.eqb b vx' =
             if memN b blks
             then match aget N.eqb b vx with
                  | Some arr => Some (relabel_sv arr (mask_of masks b) sv split remain)
                  | None => None
                  end
             else aget N.eqb b vx) /\
  (forall b arr, In b blks -> aget N.eqb b vx = Some arr ->
     occ arr sv - count_masked arr (mask_of masks b) sv = cnt idx' b remain /\
     count_masked arr (mask_of masks b) sv = cnt idx' b split).
Proof.
  induction blks as [|b0 r IH]; intros vx vx' ND H; cbn [split_sv_blocks] in H.
  - inversion H; subst. split; [reflexivity | intros b arr []].
  - inversion ND as [|? ? Hn ND']; subst. fold (mask_of masks b0) in H.
    destruct (aget N.eqb b0 vx) as [arr0|] eqn:A0.
    + change (countN arr0 sv) with (occ arr0 sv) in H.
      destruct ((occ arr0 sv - count_masked arr0 (mask_of masks b0) sv =? cnt idx' b0 remain) &&
                (count_masked arr0 (mask_of masks b0) sv =? cnt idx' b0 split)) eqn:Chk; [|discriminate].
      apply andb_true_iff in Chk as [Ck1 Ck2]. apply N.eqb_eq in Ck1, Ck2.
      destruct (IH _ vx' ND' H) as [G1 G2]. split.
      * intro b. rewrite G1. cbn [memN existsb]. fold (memN b r). rewrite aget_aset_N.
        destruct (b =? b0) eqn:E.
        -- apply N.eqb_eq in E; subst b. rewrite A0.
           destruct (memN b0 r) eqn:M; [apply memN_In in M; contradiction | reflexivity].
        -- cbn [orb]. reflexivity.
      * intros b arr [<-|Hin] Ha.
        -- rewrite A0 in Ha. inversion Ha; subst. auto.
        -- apply (G2 b arr Hin). rewrite aget_aset_N.
           destruct (b =? b0) eqn:E; [apply N.eqb_eq in E; subst; contradiction | exact Ha].
    + destruct (IH _ vx' ND' H) as [G1 G2]. split.
      * intro b. rewrite G1. cbn [memN existsb]. fold (memN b r).
        destruct (b =? b0) eqn:E; [|reflexivity]. apply N.eqb_eq in E; subst b. rewrite A0.
        cbn [orb]. now destruct (memN b0 r).
      * intros b arr [<-|Hin] Ha; [congruence | now apply (G2 b arr Hin)].
Qed.

Lemma sv_blocks_spec idx sv : Wf idx ->
  NoDup (sv_blocks idx sv) /\ forall b, In b (sv_blocks idx sv) <-> 0 < cnt idx b sv.
Proof.
  intros [ND P]. rewrite Forall_forall in P. split.
  - unfold sv_blocks. clear P. unfold keys_of in ND. induction idx as [|[[b s] c] r IH]; simpl; [constructor|].
    inversion ND as [|? ? Hn ND']; subst. unfold ksv at 1; simpl. destruct (s =? sv) eqn:E; [|auto].
    apply N.eqb_eq in E; subst s. simpl. constructor; [|auto].
    intro Hin. apply in_map_iff in Hin as [[[b' s'] c'] [Hb Hin]]. unfold kblock in Hb; simpl in Hb; subst b'.
    apply filter_In in Hin as [Hin Hs]. unfold ksv in Hs; simpl in Hs. apply N.eqb_eq in Hs; subst s'.
    apply Hn. apply in_map_iff. now exists ((b, sv), c').
  - intro b. unfold sv_blocks. rewrite in_map_iff. split.
    + intros [[[b' s'] c] [Hb Hin]]. unfold kblock in Hb; simpl in Hb; subst b'.
      apply filter_In in Hin as [Hin Hs]. unfold ksv in Hs; simpl in Hs. apply N.eqb_eq in Hs; subst s'.
      unfold cnt. rewrite (in_aget_nodup key_eqb key_eqb_eq (b, sv) c idx ND Hin). apply (P _ Hin).
    + intro Hp. unfold cnt in Hp. destruct (aget key_eqb (b, sv) idx) as [c|] eqn:A; [|lia].
      apply (aget_Some_in key_eqb key_eqb_eq) in A. exists ((b, sv), c). split; [reflexivity|].
      apply filter_In. split; [exact A | apply N.eqb_refl].
Qed.

Lemma cnt_head (e : key * N) (r : index) : cnt (e :: r) (kblock e) (ksv e) = snd e.
Proof.
  destruct e as [[b s] c]. unfold cnt, kblock, ksv; simpl. unfold key_eqb at 1; simpl. now rewrite !N.eqb_refl.
Qed.

Lemma sv_in_head (e : key * N) (r : index) : sv_in (e :: r) (ksv e) = true.
Proof. unfold sv_in; simpl. now rewrite N.eqb_refl. Qed.

Theorem consistent_splitsv st sv split remain masks rl st' :
  Consistent st ->
  sv <> 0 -> split <> 0 -> remain <> 0 -> split <> remain -> split <> sv -> remain <> sv ->
  (forall b, vcount st b split = 0) -> (forall b, vcount st b remain = 0) ->
  (forall b n, aget N.eqb b rl = Some n -> 0 < n < 2 ^ 32) ->
  (forall b a, aget N.eqb b (f_vox st) = Some a -> N.of_nat (length a) < 2 ^ 32) ->
  f_splitsv st sv split remain masks rl = Ok st' -> Consistent st'.
Proof.
  intros C Hsv0 Hsp0 Hre0 Hsr Hss Hrs Vs Vr Hrl Hlen. unfold f_splitsv.
  set (label := mapped (f_map st) sv).
  destruct (get_idx st label) as [idx|] eqn:Hi; [|discriminate].
  destruct (sv_count idx sv <? sumN (map snd rl)); [discriminate|].
  destruct (split_sv_index idx sv split remain rl) as [idx'| |] eqn:Es; try discriminate.
  destruct (split_sv_blocks (f_vox st) (sv_blocks idx sv) sv split remain masks idx') as [vx'|] eqn:Eb; [|discriminate].
  intro E. apply Ok_inj in E. subst st'.
  assert (label <> 0) as Hl0 by (intro X; rewrite X, (c_zero st C) in Hi; discriminate).
  destruct (c_wf st C label idx Hi) as [W Hne].
  assert (forall b s, cnt idx b s = if negb (s =? 0) && (mapped (f_map st) s =? label) then vcount st b s else 0) as Ci
      by (intros; now apply consistent_cnt).
  assert (forall b s, vcount st b s < 2 ^ 32) as Vb.
  { intros b s. unfold vcount. destruct (aget N.eqb b (f_vox st)) as [a|] eqn:A; [|reflexivity].
    pose proof (Hlen b a A). pose proof (occ_le_length a s). change (countN a s) with (occ a s). lia. }
  assert (forall x, (forall b, vcount st b x = 0) -> sv_in idx x = false) as Fresh.
  { intros x Hx. destruct (sv_in idx x) eqn:S; [|reflexivity].
    destruct (sv_in_pos idx x W S) as [b Hb]. rewrite Ci in Hb. rewrite (Hx b) in Hb.
    destruct (negb (x =? 0) && (mapped (f_map st) x =? label)); lia. }
  destruct (split_sv_index_spec idx sv split remain rl idx' W Hsr Hss Hrs (Fresh split Vs) (Fresh remain Vr) Hrl)
    as (W' & Hle & Hc'); [|exact Es|].
  { intros b s. rewrite Ci. destruct (negb (s =? 0) && (mapped (f_map st) s =? label)); [apply Vb | reflexivity]. }
  destruct (sv_blocks_spec idx sv W) as [NDk Hk].
  destruct (split_sv_blocks_spec sv split remain masks idx' _ _ _ NDk Eb) as [Gv Gc].
  assert (forall b, cnt idx b sv = vcount st b sv) as Csv.
  { intro b. rewrite Ci. fold label. now rewrite N.eqb_refl, (N_eqb_neq sv 0 Hsv0). }
  (* the new voxel counts *)
  set (stn := {| f_vox := vx';
                 f_map := aset N.eqb sv 0 (aset N.eqb remain label (aset N.eqb split label (f_map st)));
                 f_idx := aset N.eqb label idx' (f_idx st) |}).
  assert (forall b s, vcount stn b s =
            if 0 <? cnt idx b sv
            then (if s =? sv then 0 else if s =? split then cnt idx' b split
                  else if s =? remain then cnt idx' b remain else vcount st b s)
            else vcount st b s) as Vn.
  { intros b s. unfold vcount at 1, stn; simpl. rewrite Gv.
    destruct (0 <? cnt idx b sv) eqn:Pz.
    - apply N.ltb_lt in Pz. assert (memN b (sv_blocks idx sv) = true) as M by (apply memN_In; now apply Hk).
      rewrite M. rewrite Csv in Pz. unfold vcount in Pz.
      destruct (aget N.eqb b (f_vox st)) as [arr|] eqn:A; [|lia].
      destruct (Gc b arr (proj2 (Hk b) ltac:(rewrite Csv; unfold vcount; rewrite A; exact Pz)) A) as [G1 G2].
      change (countN (relabel_sv arr (mask_of masks b) sv split remain) s)
        with (occ (relabel_sv arr (mask_of masks b) sv split remain) s).
      rewrite (occ_relabel_sv arr (mask_of masks b) sv split remain s Hss Hrs Hsr).
      pose proof (Vs b) as Z1. pose proof (Vr b) as Z2. unfold vcount in Z1, Z2. rewrite A in Z1, Z2.
      change (countN arr split) with (occ arr split) in Z1. change (countN arr remain) with (occ arr remain) in Z2.
      unfold vcount. rewrite A. change (countN arr s) with (occ arr s).
      destruct (s =? sv); [reflexivity|]. destruct (s =? split); [lia|]. destruct (s =? remain); [lia | reflexivity].
    - apply N.ltb_ge in Pz. assert (memN b (sv_blocks idx sv) = false) as M.
      { destruct (memN b (sv_blocks idx sv)) eqn:M; [|reflexivity]. apply memN_In in M. apply Hk in M. lia. }
      rewrite M. reflexivity. }
  assert (forall s, mapped (f_map stn) s =
                    if s =? sv then 0 else if s =? remain then label else if s =? split then label
                    else mapped (f_map st) s) as Mn.
  { intro s. unfold stn; simpl. now rewrite !mapped_aset. }
  split.
  - intros l b s. unfold icnt, get_idx. fold stn. rewrite Vn, Mn.
    change (f_idx stn) with (aset N.eqb label idx' (f_idx st)). rewrite aget_aset_N.
    pose proof (c_cnt st C l b s) as Cl. unfold icnt, get_idx in Cl.
    pose proof (Hc' b s) as Hs. unfold split_formula in Hs.
    pose proof (Vs b) as Z1. pose proof (Vr b) as Z2.
    destruct (l =? label) eqn:El.
    + apply N.eqb_eq in El; subst l. rewrite Hs. clear Hs.
      destruct (0 <? cnt idx b sv) eqn:Pz.
      * destruct (s =? sv) eqn:E1.
        { apply N.eqb_eq in E1; subst s. rewrite (N_eqb_neq 0 label) by congruence. now rewrite andb_false_r. }
        destruct (s =? remain) eqn:E3.
        { apply N.eqb_eq in E3; subst s. rewrite N.eqb_refl, (N_eqb_neq remain 0 Hre0).
          rewrite (N_eqb_neq remain split) by congruence. cbn [negb andb].
          rewrite (Hc' b remain). rewrite Pz. unfold split_formula.
          rewrite (N_eqb_neq remain sv Hrs), (N_eqb_neq remain split) by congruence. now rewrite N.eqb_refl. }
        destruct (s =? split) eqn:E2.
        { apply N.eqb_eq in E2; subst s. rewrite N.eqb_refl, (N_eqb_neq split 0 Hsp0). cbn [negb andb].
          rewrite (Hc' b split). rewrite Pz. unfold split_formula.
          now rewrite (N_eqb_neq split sv Hss), N.eqb_refl. }
        apply Ci.
      * rewrite Ci. apply N.ltb_ge in Pz. rewrite Csv in Pz.
        destruct (s =? sv) eqn:E1.
        { apply N.eqb_eq in E1; subst s. rewrite (N_eqb_neq 0 label) by congruence.
          rewrite andb_false_r. fold label. rewrite N.eqb_refl, (N_eqb_neq sv 0 Hsv0). cbn [negb andb]. lia. }
        destruct (s =? remain) eqn:E3.
        { apply N.eqb_eq in E3; subst s. rewrite Z2. now ifs. }
        destruct (s =? split) eqn:E2.
        { apply N.eqb_eq in E2; subst s. rewrite Z1. now ifs. }
        reflexivity.
    + rewrite Cl. clear Hs.
      assert (forall x, vcount st b x = 0 ->
                (if negb (x =? 0) && (mapped (f_map st) x =? l) then vcount st b x else 0) = 0) as Zero
          by (intros x Hx; rewrite Hx; now ifs).
      destruct (s =? sv) eqn:E1.
      * apply N.eqb_eq in E1; subst s. fold label. rewrite (N.eqb_sym label l), El, andb_false_r.
        rewrite <- Csv. destruct (0 <? cnt idx b sv) eqn:Pz; [now ifs|]. apply N.ltb_ge in Pz. ifs; lia.
      * destruct (s =? remain) eqn:E3.
        { apply N.eqb_eq in E3; subst s. rewrite (Zero remain Z2). rewrite (N.eqb_sym label l), El, andb_false_r. now ifs. }
        destruct (s =? split) eqn:E2.
        { apply N.eqb_eq in E2; subst s. rewrite (Zero split Z1). rewrite (N.eqb_sym label l), El, andb_false_r. now ifs. }
        now ifs.
  - unfold get_idx; simpl. rewrite aget_aset_N, (N_eqb_neq 0 label) by congruence. apply (c_zero st C).
  - intros l i. unfold get_idx; simpl. rewrite aget_aset_N. destruct (l =? label); [|apply (c_wf st C)].
    intro H; inversion H; subst i. split; [exact W'|]. intro Hnil.
    destruct idx as [|e r]; [congruence|].
    destruct W as [NDi Pi]. inversion Pi as [|? ? Hc0 _]; subst.
    set (b := kblock e) in *. set (s := ksv e) in *. set (c := snd e) in *.
    pose proof (cnt_head e r) as Hcs. fold b s c in Hcs.
    pose proof (Hc' b s) as X. pose proof (Hc' b split) as Xs. pose proof (Hc' b remain) as Xr.
    unfold cnt at 1 in X. unfold cnt at 1 in Xs. unfold cnt at 1 in Xr. simpl aget in X, Xs, Xr. unfold split_formula in *.
    pose proof (Hle b) as Hleb.
    destruct (s =? sv) eqn:E1.
    + apply N.eqb_eq in E1. rewrite E1 in Hcs. rewrite Hcs in X, Xs, Xr, Hleb.
      assert ((0 <? c) = true) as Pz by (apply N.ltb_lt; lia). rewrite Pz in Xs, Xr.
      rewrite (N_eqb_neq split sv Hss), N.eqb_refl in Xs.
      rewrite (N_eqb_neq remain sv Hrs), (N_eqb_neq remain split), N.eqb_refl in Xr by congruence.
      specialize (Hleb ltac:(lia)). lia.
    + pose proof (sv_in_head e r) as Sin. fold s in Sin.
      assert (s <> split) as N1 by (intro Q; rewrite Q, (Fresh split Vs) in Sin; discriminate).
      assert (s <> remain) as N2 by (intro Q; rewrite Q, (Fresh remain Vr) in Sin; discriminate).
      rewrite Hcs, (N_eqb_neq s split N1), (N_eqb_neq s remain N2) in X. destruct (0 <? cnt _ b sv); lia.
Qed.

(* ---------- stored blocks and mapping entries never disappear ---------- *)
Definition grows {V} (m m' : list (N * V)) : Prop := forall k, aget N.eqb k m' = None -> aget N.eqb k m = None.

Lemma grows_refl {V} (m : list (N * V)) : grows m m. Proof. intros k H; exact H. Qed.
Lemma grows_trans {V} (a b c : list (N * V)) : grows a b -> grows b c -> grows a c.
Proof. intros H1 H2 k H. apply H1, H2, H. Qed.
Lemma grows_aset {V} k (v : V) m : grows m (aset N.eqb k v m).
Proof. intros k' H. rewrite aget_aset_N in H. now destruct (k' =? k). Qed.

Lemma grows_fold {V W} (f : list (N * V) -> W -> list (N * V)) l : forall m,
  (forall m x, grows m (f m x)) -> grows m (fold_left f l m).
Proof.
  induction l as [|x r IH]; intros m H; simpl; [apply grows_refl|].
  eapply grows_trans; [apply H | apply IH, H].
Qed.

Lemma grows_put_blocks vx blocks : grows vx (put_blocks vx blocks).
Proof. unfold put_blocks. apply grows_fold. intros m x. apply grows_aset. Qed.

Lemma grows_set_all m svs l : grows m (set_all m svs l).
Proof. unfold set_all. apply grows_fold. intros m' x. apply grows_aset. Qed.

Lemma grows_split_sv_blocks sv split remain masks idx' : forall blks vx vx',
  split_sv_blocks vx blks sv split remain masks idx' = Some vx' -> grows vx vx'.
Proof.
  induction blks as [|b r IH]; intros vx vx' H; cbn [split_sv_blocks] in H.
  - inversion H. apply grows_refl.
  - destruct (aget N.eqb b vx) as [arr|]; [|now apply IH].
    match type of H with (if ?c then _ else _) = _ => destruct c end; [|discriminate].
    eapply grows_trans; [apply grows_aset | apply (IH _ _ H)].
Qed.

Theorem fstep_grows fx aggl st o st' :
  fstep fx aggl st o = Ok st' -> grows (f_vox st) (f_vox st') /\ grows (f_map st) (f_map st').
Proof.
  destruct o; simpl; intro H.
  - apply Ok_inj in H; subst. split; [apply grows_put_blocks | apply grows_refl].
  - apply Ok_inj in H; subst. split; [apply grows_put_blocks | apply grows_refl].
  - apply Ok_inj in H; subst. split; [apply grows_put_blocks | apply grows_refl].
  - apply Ok_inj in H; subst. split; apply grows_refl.
  - apply Ok_inj in H; subst. split; [apply grows_refl|]. cbn [f_vox f_map]. apply grows_fold. intros m x. apply grows_aset.
  - unfold f_merge in H. destruct (nodupN merged); [discriminate|].
    destruct (fx_reject fx && memN target (n :: l)); [discriminate|].
    destruct (all_idx st (n :: l)); [|discriminate]. destruct (get_idx st target); [|discriminate].
    destruct (idx_add_all [] l0) as [mi| |]; try discriminate. destruct (num_voxels mi =? 0); [discriminate|].
    destruct (idx_add i mi); try discriminate. apply Ok_inj in H; subst. cbn [f_vox f_map].
    split; [apply grows_refl | apply grows_set_all].
  - unfold f_cleave in H. destruct (get_idx st body); [|discriminate].
    destruct (negb (nodupb svs) || negb (forallb (sv_in i) svs)); [discriminate|].
    destruct (forallb (fun s => memN s svs) (supervoxels i)); [discriminate|].
    destruct svs.
    { destruct (fx_reject fx); [discriminate|]. apply Ok_inj in H; subst. split; apply grows_refl. }
    destruct (idx_cleave i (n :: svs)) as [[[? ?] ?] ?].
    apply Ok_inj in H; subst. cbn [f_vox f_map]. split; [apply grows_refl|].
    eapply grows_trans; [apply grows_set_all | apply grows_aset].
  - unfold f_splitsv in H. destruct (get_idx st (mapped (f_map st) sv)); [|discriminate].
    destruct (sv_count i sv <? sumN (map snd rl)); [discriminate|].
    destruct (split_sv_index i sv split remain rl) as [i'| |]; try discriminate.
    destruct (split_sv_blocks (f_vox st) (sv_blocks i sv) sv split remain masks i') as [vx'|] eqn:E; [|discriminate].
    apply Ok_inj in H; subst. cbn [f_vox f_map]. split; [eapply grows_split_sv_blocks; eauto|].
    eapply grows_trans; [apply grows_aset|]. eapply grows_trans; apply grows_aset.
  - unfold f_renumber in H. destruct (fx_reject fx && ((new =? 0) || (old =? 0))); [discriminate|].
    destruct (ahas N.eqb new (f_idx st)); [discriminate|].
    match type of H with (if ?c then _ else _) = _ => destruct c end; [discriminate|].
    destruct (get_idx st old); [|discriminate]. apply Ok_inj in H; subst. cbn [f_vox f_map].
    split; [apply grows_refl|]. eapply grows_trans; [apply grows_set_all | apply grows_aset].
  - unfold f_split in H. destruct (get_idx st body); [|discriminate].
    match type of H with (if ?c then _ else _) = _ => destruct c end; [discriminate|].
    destruct (block_splits (f_vox st) masks sm); [|discriminate].
    match type of H with (if ?c then _ else _) = _ => destruct c end; [discriminate|].
    destruct (split_index i l sm) as [[ri si]| |]; try discriminate.
    apply Ok_inj in H; subst. cbn [f_vox f_map]. split.
    + apply grows_fold. intros m b. destruct (aget N.eqb b m); [apply grows_aset | apply grows_refl].
    + apply grows_fold. intros m e. eapply grows_trans; [apply grows_aset|].
      eapply grows_trans; apply grows_aset.
Qed.

(* ---------- every stored block array has the block volume as length ---------- *)
Definition Sized (n : nat) (st : fstate) : Prop := forall b a, aget N.eqb b (f_vox st) = Some a -> length a = n.

Lemma length_relabel_sv arr : forall mask sv split remain, length (relabel_sv arr mask sv split remain) = length arr.
Proof. induction arr as [|l r IH]; intros; cbn [relabel_sv length]; [reflexivity | now rewrite IH]. Qed.

Lemma length_relabel_split arr : forall mask sm, length (relabel_split arr mask sm) = length arr.
Proof. induction arr as [|l r IH]; intros; cbn [relabel_split length]; [reflexivity | now rewrite IH]. Qed.

Definition SizedV (n : nat) (vx : list (N * list N)) : Prop := forall b a, aget N.eqb b vx = Some a -> length a = n.

Lemma sizedv_aset n vx b a : SizedV n vx -> length a = n -> SizedV n (aset N.eqb b a vx).
Proof.
  intros H Ha b' a'. rewrite aget_aset_N. destruct (b' =? b); [intro E; inversion E; now subst | apply H].
Qed.

Lemma sizedv_put_blocks n blocks : forall vx,
  SizedV n vx -> (forall b a, In (b, a) blocks -> length a = n) -> SizedV n (put_blocks vx blocks).
Proof.
  unfold put_blocks. induction blocks as [|[b a] r IH]; intros vx H Hb; simpl; [exact H|].
  apply IH; [apply sizedv_aset; [exact H | apply (Hb b a); now left] | intros; eapply Hb; right; eassumption].
Qed.

Lemma sizedv_split_sv_blocks n sv split remain masks idx' : forall blks vx vx',
  SizedV n vx -> split_sv_blocks vx blks sv split remain masks idx' = Some vx' -> SizedV n vx'.
Proof.
  induction blks as [|b r IH]; intros vx vx' S H; cbn [split_sv_blocks] in H.
  - inversion H; now subst.
  - destruct (aget N.eqb b vx) as [arr|] eqn:A; [|now apply (IH vx)].
    match type of H with (if ?c then _ else _) = _ => destruct c end; [|discriminate].
    apply (IH _ vx' (sizedv_aset n vx b _ S ltac:(rewrite length_relabel_sv; apply (S b arr A))) H).
Qed.

(* ---------- index and mapping ingest: "data consistent with the voxels", made precise ---------- *)
(* POST index/<l>: the posted index holds, per block and supervoxel, the stored voxel count of the
   supervoxels mapped to l (an empty post deletes: then no stored voxel may map to l). *)
Theorem consistent_putindex st l oi :
  Consistent st -> l <> 0 ->
  match oi with
  | Some i => Wf i /\ i <> [] /\
              forall b s, cnt i b s = if negb (s =? 0) && (mapped (f_map st) s =? l) then vcount st b s else 0
  | None => forall b s, s <> 0 -> mapped (f_map st) s = l -> vcount st b s = 0
  end ->
  Consistent {| f_vox := f_vox st; f_map := f_map st; f_idx := put_idx (f_idx st) l oi |}.
Proof.
  intros C Hl H. split.
  - intros l' b s. unfold icnt, get_idx; cbn [f_idx f_map]. rewrite aget_put_idx.
    change (vcount {| f_vox := f_vox st; f_map := f_map st; f_idx := put_idx (f_idx st) l oi |} b s) with (vcount st b s).
    destruct (l' =? l) eqn:E; [|apply (c_cnt st C)]. apply N.eqb_eq in E; subst l'.
    destruct oi as [i|].
    + destruct H as (_ & _ & Hc). apply Hc.
    + destruct (s =? 0) eqn:E0; [reflexivity|]. cbn [negb andb].
      destruct (mapped (f_map st) s =? l) eqn:Em; [|reflexivity].
      apply N.eqb_neq in E0. apply N.eqb_eq in Em. symmetry. now apply H.
  - unfold get_idx; cbn [f_idx]. rewrite aget_put_idx, (N_eqb_neq 0 l) by congruence. apply (c_zero st C).
  - intros l' i'. unfold get_idx; cbn [f_idx]. rewrite aget_put_idx. destruct (l' =? l); [|apply (c_wf st C)].
    destruct oi as [i|]; [|discriminate]. intro E; inversion E; subst. destruct H as (W & Hn & _). now split.
Qed.

(* POST mappings: every supervoxel that has stored voxels keeps its body (the documented use:
   mappings of supervoxels are loaded before, or together with, the indices that agree with them) *)
Theorem consistent_putmappings st pairs :
  Consistent st ->
  let fm' := fold_left (fun m p => aset N.eqb (fst p) (snd p) m) pairs (f_map st) in
  (forall s b, 0 < vcount st b s -> mapped fm' s = mapped (f_map st) s) ->
  Consistent {| f_vox := f_vox st; f_map := fm'; f_idx := f_idx st |}.
Proof.
  intros C fm' H. split.
  - intros l b s. unfold icnt, get_idx; cbn [f_idx f_map].
    change (vcount {| f_vox := f_vox st; f_map := fm'; f_idx := f_idx st |} b s) with (vcount st b s).
    pose proof (c_cnt st C l b s) as E. unfold icnt, get_idx in E. rewrite E.
    destruct (N.eq_dec (vcount st b s) 0) as [Z|Z].
    + rewrite Z. now ifs.
    + rewrite (H s b) by lia. reflexivity.
  - apply (c_zero st C).
  - apply (c_wf st C).
Qed.

