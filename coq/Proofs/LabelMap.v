(* Proofs.LabelMap: the step theorems of the proofreading machine (Model.LabelMap).
   Proofs.LabelMapCore holds Consistent and the per-operation theorems (cleave, renumber, merge,
   writes, split-supervoxel, index / mapping ingest), Proofs.LabelMapSplit the body split; both are
   re-exported here. *)
From DV Require Import Base.Prelude Model.Index Model.LabelMap Proofs.Index.
From DV Require Export Proofs.LabelMapCore Proofs.LabelMapSplit.
From Coq Require Import ZifyN ZifyNat ZifyBool.
Ltac Zify.zify_post_hook ::= Z.div_mod_to_equations.
Local Open Scope N_scope.

(* ---------- the documented contracts, as guards ---------- *)
Definition live_blocks_ok (st : fstate) (blocks : list (N * list N)) : Prop :=
  forall b a s, In (b, a) blocks -> 0 < occ a s -> s <> 0 -> mapped (f_map st) s <> 0.

Definition op_guard (fx : fixes) (n : nat) (st : fstate) (o : op) : Prop :=
  match o with
  | OIngest blocks =>
    (* POST blocks / POST raw: only onto blocks not yet written; labels are live or unused ids *)
    fx_members fx = true /\ NoDup (map fst blocks) /\
    (forall b a, In (b, a) blocks -> aget N.eqb b (f_vox st) = None /\ length a = n) /\ live_blocks_ok st blocks
  | OWrite blocks =>
    fx_members fx = true /\ NoDup (map fst blocks) /\
    (forall b a, In (b, a) blocks -> length a = n) /\ live_blocks_ok st blocks
  | OMerge t ms => ~ In t ms
  | OCleave b svs newl =>
    (* the cleaved body gets an id never used before *)
    fx_reject fx = true /\ newl <> 0 /\ get_idx st newl = None /\ (forall s, mapped (f_map st) s = newl -> s = newl) /\
    (forall b', vcount st b' newl = 0)
  | OSplitSV sv split remain masks rl =>
    sv <> 0 /\ fresh_sv st split /\ fresh_sv st remain /\ split <> remain /\ split <> sv /\ remain <> sv /\
    (forall b k, aget N.eqb b rl = Some k -> 0 < k < 2 ^ 32)
  | ORenumber a b => fx_renumber fx = true /\ b <> 0
  | OPutIndex l oi =>
    (* POST index / indices: the posted index is the scan of the stored voxels mapped to l *)
    l <> 0 /\
    match oi with
    | Some i => Wf i /\ i <> [] /\
                forall b s, cnt i b s = if negb (s =? 0) && (mapped (f_map st) s =? l) then vcount st b s else 0
    | None => forall b s, s <> 0 -> mapped (f_map st) s = l -> vcount st b s = 0
    end
  | OPutMappings pairs =>
    (* POST mappings: supervoxels that have stored voxels keep their body *)
    forall s b, 0 < vcount st b s ->
      mapped (fold_left (fun m p => aset N.eqb (fst p) (snd p) m) pairs (f_map st)) s = mapped (f_map st) s
  | OSplit body newl masks sm =>
    (* SplitLabels: the new body id is unused; one mask per block; the supervoxels of the split map
       belong to the body and get pairwise distinct, unused split / remain ids; the split volume
       covers at least one voxel of one of them *)
    split_guard st body newl masks sm
  | OStore _ => False
  end.

Definition Inv (n : nat) (st : fstate) : Prop := Consistent st /\ Sized n st.

Theorem consistent_step fx n st o st' :
  N.of_nat n < 2 ^ 31 -> Inv n st -> op_guard fx n st o ->
  fstep fx (mapped (f_map st)) st o = Ok st' -> Inv n st'.
Proof.
  intros Hn [C S] G H.
  assert (forall b a, aget N.eqb b (f_vox st) = Some a -> N.of_nat (length a) < 2 ^ 31) as Hl0
      by (intros b a A; now rewrite (S b a A)).
  destruct o; simpl in H, G; try contradiction.
  - destruct G as (Hfx & ND & Hb & Hlive). apply Ok_inj in H; subst st'. split.
    + apply consistent_write; try assumption.
      * intros _ b a Hin. apply (Hb b a Hin).
      * intros b a Hin. now rewrite (proj2 (Hb b a Hin)).
    + unfold Sized, f_write; cbn [f_vox]. apply sizedv_put_blocks; [exact S | intros b a Hin; apply (Hb b a Hin)].
  - destruct G as (Hfx & ND & Hb & Hlive). apply Ok_inj in H; subst st'. split.
    + apply consistent_write; try assumption.
      * discriminate.
      * intros b a Hin. now rewrite (Hb b a Hin).
    + unfold Sized, f_write; cbn [f_vox]. apply sizedv_put_blocks; [exact S | exact Hb].
  - destruct G as [Hl G]. apply Ok_inj in H; subst st'. split; [now apply consistent_putindex | exact S].
  - apply Ok_inj in H; subst st'. split; [now apply consistent_putmappings | exact S].
  - split; [eapply consistent_merge; eauto|].
    unfold f_merge in H. destruct (nodupN merged); [discriminate|].
    destruct (fx_reject fx && memN target (n0 :: l)); [discriminate|].
    destruct (all_idx st (n0 :: l)); [|discriminate]. destruct (get_idx st target); [|discriminate].
    destruct (idx_add_all [] l0) as [mi| |]; try discriminate. destruct (num_voxels mi =? 0); [discriminate|].
    destruct (idx_add i mi); try discriminate. apply Ok_inj in H; subst. exact S.
  - destruct G as (G0 & G1 & G2 & G3 & G4). split; [eapply consistent_cleave; eauto|].
    unfold f_cleave in H. rewrite G0 in H. destruct (get_idx st body); [|discriminate].
    destruct (negb (nodupb svs) || negb (forallb (sv_in i) svs)); [discriminate|].
    destruct (forallb (fun s => memN s svs) (supervoxels i)); [discriminate|].
    destruct svs; [discriminate|]. destruct (idx_cleave i (n0 :: svs)) as [[[? ?] ?] ?].
    apply Ok_inj in H; subst. exact S.
  - destruct G as (G1 & [G2 G2'] & [G3 G3'] & G4 & G5 & G6 & G7). split.
    + apply (consistent_splitsv st sv split remain masks rl st' C G1 G2 G3 G4 G5 G6 G2' G3' G7); [|exact H].
      intros b a A. rewrite (S b a A). lia.
    + unfold f_splitsv in H. destruct (get_idx st (mapped (f_map st) sv)); [|discriminate].
      destruct (sv_count i sv <? sumN (map snd rl)); [discriminate|].
      destruct (split_sv_index i sv split remain rl) as [i'| |]; try discriminate.
      destruct (split_sv_blocks (f_vox st) (sv_blocks i sv) sv split remain masks i') as [vx'|] eqn:E; [|discriminate].
      apply Ok_inj in H; subst. unfold Sized; cbn [f_vox]. eapply sizedv_split_sv_blocks; eauto.
  - destruct G as (G1 & G2). split; [eapply consistent_renumber; eauto|].
    unfold f_renumber in H. destruct (fx_reject fx && ((new =? 0) || (old =? 0))); [discriminate|].
    destruct (ahas N.eqb new (f_idx st)); [discriminate|].
    match type of H with (if ?c then _ else _) = _ => destruct c end; [discriminate|].
    destruct (get_idx st old); [|discriminate]. apply Ok_inj in H; subst. exact S.
  - split; [eapply consistent_split; eauto | eapply sized_split; eauto].
Qed.

(* The operation not closed as a single step: OStore (POST ingest-supervoxels) stores voxels without
   indexing, so the state after it is inconsistent by design until the indices follow; the bulk
   load onto an empty instance is closed below as a run (offline_ingest_consistent); the two-phase
   statement for a populated instance (store, then POST indices of the scan, restores Inv) is not
   proved.  OSplit (SplitLabels) is covered by consistent_step under split_guard
   (Proofs.LabelMapSplit). *)
Theorem consistent_step_partial fx n st o st' :
  N.of_nat n < 2 ^ 31 -> Inv n st ->
  match o with
  | OStore _ => Inv n st'
  | _ => op_guard fx n st o
  end ->
  fstep fx (mapped (f_map st)) st o = Ok st' -> Inv n st'.
Proof.
  intros Hn I G H. destruct o; try exact G; eapply consistent_step; eauto.
Qed.

(* ---------- the bulk load: scanned indices ---------- *)
(* the state an offline ingest produces when the client posts exactly the scan *)
Lemma aget_scan_index vx fm l : NoDup (map fst vx) -> forall b s,
  aget key_eqb (b, s) (scan_index vx fm l) =
  match aget N.eqb b vx with
  | Some arr => if negb (s =? 0) && (mapped fm s =? l) && (0 <? occ arr s) then Some (occ arr s) else None
  | None => None
  end.
Proof.
  unfold scan_index. induction vx as [|[b0 arr] r IH]; intros ND b s; simpl; [reflexivity|].
  inversion ND as [|? ? Hn ND']; subst. rewrite (aget_app key_eqb), (IH ND').
  set (P := fun x => negb (x =? 0) && (mapped fm x =? l)).
  assert (forall L, NoDup L ->
            aget key_eqb (b, s) (map (fun x => ((b0, x), countN arr x)) (filter P L)) =
            if (b =? b0) && P s && memN s L then Some (occ arr s) else None) as A.
  { induction L as [|x t IHt]; intro NDL; simpl; [now rewrite andb_false_r|].
    inversion NDL as [|? ? Hx NDt]; subst. destruct (P x) eqn:Px; simpl.
    - unfold key_eqb at 1; simpl. destruct (b =? b0) eqn:Eb; simpl; [|exact (IHt NDt)].
      destruct (s =? x) eqn:Es.
      + apply N.eqb_eq in Es; subst x. rewrite Px. reflexivity.
      + rewrite (IHt NDt). reflexivity.
    - rewrite (IHt NDt). destruct (s =? x) eqn:Es; [|reflexivity].
      apply N.eqb_eq in Es; subst x. rewrite Px. simpl. now rewrite !andb_false_r.
  }
  rewrite (A (nodupN arr) (nodupN_NoDup arr)). fold (P s).
  destruct (b =? b0) eqn:Eb.
  - apply N.eqb_eq in Eb; subst b0. simpl.
    assert (memN s (nodupN arr) = (0 <? occ arr s)) as M.
    { destruct (0 <? occ arr s) eqn:Z.
      - apply N.ltb_lt in Z. apply memN_In. apply (proj2 (nodupN_In _ _)).
        clear - Z. induction arr as [|x t IHt]; [rewrite occ_nil in Z; lia|]. rewrite occ_cons in Z.
        destruct (x =? s) eqn:E; [apply N.eqb_eq in E; subst; now left | right; auto].
      - apply N.ltb_ge in Z. destruct (memN s (nodupN arr)) eqn:M; [|reflexivity].
        apply memN_In in M. apply (proj1 (nodupN_In _ _)) in M. exfalso.
        clear - Z M. induction arr as [|x t IHt]; [destruct M|]. rewrite occ_cons in Z.
        destruct M as [->|M]; [rewrite N.eqb_refl in Z; lia|]. destruct (x =? s); [lia | auto]. }
    rewrite M. destruct (P s && (0 <? occ arr s)); [reflexivity|].
    now rewrite (proj2 (aget_None_notin N.eqb N.eqb_eq b r) Hn).
  - simpl. reflexivity.
Qed.

Lemma cnt_scan_index vx fm l b s : NoDup (map fst vx) ->
  cnt (scan_index vx fm l) b s =
  if negb (s =? 0) && (mapped fm s =? l)
  then match aget N.eqb b vx with Some arr => occ arr s | None => 0 end else 0.
Proof.
  intro ND. unfold cnt. rewrite (aget_scan_index vx fm l ND b s).
  destruct (aget N.eqb b vx) as [arr|]; [|now ifs].
  destruct (negb (s =? 0) && (mapped fm s =? l)); cbn [andb]; [|reflexivity].
  destruct (0 <? occ arr s) eqn:Z; [reflexivity | apply N.ltb_ge in Z; lia].
Qed.

Lemma in_nodupN_occ arr s : In s (nodupN arr) -> 0 < occ arr s.
Proof.
  intro H. apply (proj1 (nodupN_In _ _)) in H. induction arr as [|x t IH]; [destruct H|].
  rewrite occ_cons. destruct H as [->|H]; [rewrite N.eqb_refl; lia | specialize (IH H); destruct (x =? s); lia].
Qed.

Lemma wf_scan_index vx fm l : NoDup (map fst vx) -> Wf (scan_index vx fm l).
Proof.
  intro ND. unfold scan_index. split.
  - unfold keys_of. induction vx as [|[b arr] r IH]; simpl; [constructor|].
    inversion ND as [|? ? Hn ND']; subst. rewrite map_app. apply NoDup_app_intro.
    + rewrite map_map. simpl.
      pose proof (nodupN_NoDup arr) as Na.
      induction (nodupN arr) as [|x t IHt]; simpl; [constructor|]. inversion Na; subst.
      destruct (negb (x =? 0) && (mapped fm x =? l)); simpl; [|auto]. constructor; [|auto].
      intro H. apply in_map_iff in H as [y [E Hy]]. inversion E; subst. apply filter_In in Hy as [Hy _]. contradiction.
    + now apply IH.
    + intros [b' s] H1 H2. apply in_map_iff in H1 as [[k c] [E H1]]. simpl in E; subst k.
      apply in_map_iff in H1 as [s' [E _]]. inversion E; subst.
      apply in_map_iff in H2 as [[k c2] [E2 H2]]. simpl in E2; subst k.
      apply in_flat_map in H2 as [[b2 arr2] [Hin H2]]. simpl in H2.
      apply in_map_iff in H2 as [s2 [E2 _]]. inversion E2; subst.
      apply Hn. apply in_map_iff. now exists (b', arr2).
  - apply Forall_forall. intros e He. apply in_flat_map in He as [[b arr] [_ He]]. simpl in He.
    apply in_map_iff in He as [s [E Hs]]. subst e. simpl. apply filter_In in Hs as [Hs _].
    change (countN arr s) with (occ arr s). now apply in_nodupN_occ.
Qed.

Lemma aget_map_fun {V} (f : N -> V) L l :
  aget N.eqb l (map (fun x => (x, f x)) L) = if memN l L then Some (f l) else None.
Proof.
  induction L as [|x t IH]; simpl; [reflexivity|]. destruct (l =? x) eqn:E; simpl.
  - apply N.eqb_eq in E; now subst.
  - exact IH.
Qed.

Lemma in_scan_bodies vx fm l :
  In l (scan_bodies vx fm) <-> exists b arr s, In (b, arr) vx /\ In s arr /\ s <> 0 /\ mapped fm s = l.
Proof.
  unfold scan_bodies. rewrite nodupN_In, in_flat_map. split.
  - intros [[b arr] [Hin H]]. simpl in H. apply in_map_iff in H as [s [E Hs]].
    apply filter_In in Hs as [Hs H0]. apply negb_true_iff in H0. apply N.eqb_neq in H0.
    exists b, arr, s. repeat split; auto. now apply (proj1 (nodupN_In _ _)).
  - intros (b & arr & s & Hin & Hs & H0 & Hm). exists (b, arr). split; [exact Hin|]. simpl.
    apply in_map_iff. exists s. split; [exact Hm|]. apply filter_In. split.
    + now apply (proj2 (nodupN_In _ _)).
    + apply negb_true_iff. now apply N.eqb_neq.
Qed.

(* a state whose index table is exactly what a scan of its voxels and mapping gives is consistent,
   for every layout of the voxels. *)
Theorem scanned_consistent st :
  NoDup (map fst (f_vox st)) ->
  (forall b arr s, In (b, arr) (f_vox st) -> In s arr -> s <> 0 -> mapped (f_map st) s <> 0) ->
  (forall l, get_idx st l = if memN l (scan_bodies (f_vox st) (f_map st))
                            then Some (scan_index (f_vox st) (f_map st) l) else None) ->
  Consistent st.
Proof.
  destruct st as [vx fm ix]; cbn [f_vox f_map]. intros ND Hlive G.
  split.
  - intros l b s. unfold icnt. rewrite G. unfold vcount; cbn [f_vox f_map].
    destruct (memN l (scan_bodies vx fm)) eqn:M.
    + apply (cnt_scan_index vx fm l b s ND).
    + destruct (negb (s =? 0) && (mapped fm s =? l)) eqn:Cond; [|reflexivity].
      apply andb_true_iff in Cond as [H0 Hm]. apply negb_true_iff in H0. apply N.eqb_neq in H0. apply N.eqb_eq in Hm.
      destruct (aget N.eqb b vx) as [arr|] eqn:A; [|reflexivity].
      destruct (N.eq_dec (countN arr s) 0) as [Z|Z]; [now rewrite Z|]. exfalso.
      assert (memN l (scan_bodies vx fm) = true) as X; [|congruence].
      apply memN_In. apply in_scan_bodies. exists b, arr, s. split; [now apply (aget_Some_in N.eqb N.eqb_eq)|].
      split; [|now split]. change (countN arr s) with (occ arr s) in Z.
      clear - Z. induction arr as [|x t IH]; [rewrite occ_nil in Z; lia|]. rewrite occ_cons in Z.
      destruct (x =? s) eqn:E; [apply N.eqb_eq in E; subst; now left | right; auto].
  - rewrite G. destruct (memN 0 (scan_bodies vx fm)) eqn:M; [|reflexivity].
    apply memN_In in M. apply in_scan_bodies in M as (b & arr & s & Hin & Hs & H0 & Hm).
    exfalso. now apply (Hlive b arr s Hin Hs H0).
  - intros l i. rewrite G. destruct (memN l (scan_bodies vx fm)) eqn:M; [|discriminate].
    intro E; inversion E; subst i. split; [now apply wf_scan_index|].
    apply memN_In in M. apply in_scan_bodies in M as (b & arr & s & Hin & Hs & H0 & Hm).
    intro Hnil. pose proof (cnt_scan_index vx fm l b s ND) as Cc. rewrite Hnil in Cc.
    rewrite Hm, N.eqb_refl, (N_eqb_neq s 0 H0) in Cc. cbn [negb andb] in Cc.
    rewrite (in_aget_nodup N.eqb N.eqb_eq b arr vx ND Hin) in Cc. unfold cnt in Cc; simpl in Cc.
    assert (0 < occ arr s) by (apply in_nodupN_occ; now apply (proj2 (nodupN_In _ _))). lia.
Qed.

Theorem offline_consistent vx fm :
  NoDup (map fst vx) ->
  (forall b arr s, In (b, arr) vx -> In s arr -> s <> 0 -> mapped fm s <> 0) ->
  Consistent (offline_state vx fm).
Proof.
  intros ND Hlive. apply scanned_consistent; cbn [offline_state f_vox f_map]; auto.
  intro l. unfold get_idx, offline_state; cbn [f_idx]. apply (aget_map_fun (scan_index vx fm)).
Qed.

(* ---------- the bulk load as a run of the machine ---------- *)
Lemma nodup_put_blocks blocks : forall vx, NoDup (map fst vx) -> NoDup (map fst (put_blocks vx blocks)).
Proof.
  unfold put_blocks. induction blocks as [|ba r IH]; intros vx ND; simpl; [exact ND|].
  apply IH. now apply (nodup_aset N.eqb N.eqb_eq).
Qed.

Lemma aget_fold_aset_fun {V} (f : N -> V) L : forall ix l,
  aget N.eqb l (fold_left (fun ix x => aset N.eqb x (f x) ix) L ix) =
  if memN l L then Some (f l) else aget N.eqb l ix.
Proof.
  induction L as [|x t IH]; intros ix l; simpl; [reflexivity|]. rewrite IH, aget_aset_N.
  destruct (l =? x) eqn:E; simpl.
  - apply N.eqb_eq in E; subst. now destruct (memN x t).
  - reflexivity.
Qed.

Lemma fsteps_putindex fx (f : N -> index) L : forall st,
  fsteps fx st (map (fun l => OPutIndex l (Some (f l))) L) =
  Ok {| f_vox := f_vox st; f_map := f_map st;
        f_idx := fold_left (fun ix x => aset N.eqb x (f x) ix) L (f_idx st) |}.
Proof.
  induction L as [|x t IH]; intro st; simpl; [now destruct st|].
  rewrite IH. reflexivity.
Qed.

(* POST ingest-supervoxels of the blocks, POST mappings of the agglomeration, POST indices of the
   scanned indices, onto an empty instance: accepted, and the state reached is consistent -- the
   only condition is that no stored supervoxel is mapped to body 0. *)
Theorem offline_ingest_consistent fx blocks pairs :
  let vx := put_blocks [] blocks in
  let fm := fold_left (fun m p => aset N.eqb (fst p) (snd p) m) pairs [] in
  (forall b arr s, In (b, arr) vx -> In s arr -> s <> 0 -> mapped fm s <> 0) ->
  exists st', fsteps fx f_empty (offline_ops blocks pairs) = Ok st' /\
              f_vox st' = vx /\ f_map st' = fm /\ Consistent st'.
Proof.
  intros vx fm Hlive. unfold offline_ops. fold vx fm.
  cbn [fsteps fstep res_bind f_empty f_vox f_map f_idx]. fold vx fm.
  rewrite fsteps_putindex. cbn [f_vox f_map f_idx].
  eexists. split; [reflexivity|]. split; [reflexivity|]. split; [reflexivity|].
  apply scanned_consistent; cbn [f_vox f_map].
  - apply nodup_put_blocks. constructor.
  - exact Hlive.
  - intro l. unfold get_idx; cbn [f_idx]. rewrite aget_fold_aset_fun. reflexivity.
Qed.
