(* Proofs.KV: the sorted store, iterator scans as filters, and instance isolation. *)
From DV Require Import Base.Prelude Base.Int Base.Lex Gen.Consts Model.Keys Model.KV Proofs.Keys.
From Coq Require Import Sorting.Sorted.
From Coq Require Import ZifyN ZifyNat ZifyBool.
Local Open Scope N_scope.

Definition key_lt (a b : kv) : Prop := lex_lt (fst a) (fst b).
Definition sorted (s : store) : Prop := StronglySorted key_lt s.

Lemma sorted_nil : sorted []. Proof. constructor. Qed.

Lemma sorted_inv a s : sorted (a :: s) -> sorted s /\ Forall (key_lt a) s.
Proof. intro H. inversion H; subst. auto. Qed.

(* ---- generic list facts ---- *)
Lemma filter_all {A} (f : A -> bool) l : Forall (fun x => f x = true) l -> filter f l = l.
Proof. induction 1; simpl; [reflexivity|]. rewrite H. now f_equal. Qed.

Lemma filter_none {A} (f : A -> bool) l : Forall (fun x => f x = false) l -> filter f l = [].
Proof. induction 1; simpl; [reflexivity|]. now rewrite H. Qed.

Lemma filter_filter_impl {A} (f g : A -> bool) l :
  (forall x, f x = true -> g x = true) -> filter f (filter g l) = filter f l.
Proof.
  intro H. induction l as [|x l IH]; simpl; [reflexivity|].
  destruct (g x) eqn:G; simpl.
  - destruct (f x); now rewrite IH.
  - destruct (f x) eqn:F; [apply H in F; congruence|exact IH].
Qed.

Lemma filter_ext_in' {A} (f g : A -> bool) l :
  (forall x, In x l -> f x = g x) -> filter f l = filter g l.
Proof. apply filter_ext_in. Qed.

Lemma sorted_filter f s : sorted s -> sorted (filter f s).
Proof.
  induction 1 as [|a s Hs IH Ha]; simpl; [constructor|].
  destruct (f a); [|exact IH]. constructor; [exact IH|].
  apply Forall_forall. intros x Hx. apply filter_In in Hx as [Hx _].
  rewrite Forall_forall in Ha. auto.
Qed.

(* ---- iterator idioms are filters on a sorted store ---- *)
Lemma seek_filter lo s : sorted s -> seek lo s = filter (fun e => lex_leb lo (fst e)) s.
Proof.
  unfold seek. induction 1 as [|a s Hs IH Ha]; simpl; [reflexivity|].
  unfold lex_ltb, lex_leb. rewrite (lex_compare_antisym (fst a) lo).
  destruct (lex_compare (fst a) lo) eqn:E; simpl.
  - f_equal. symmetry. apply filter_all. apply Forall_forall. intros x Hx.
    rewrite Forall_forall in Ha. specialize (Ha x Hx). unfold key_lt, lex_lt in Ha.
    apply lex_compare_eq in E. rewrite <- E. rewrite Ha. reflexivity.
  - exact IH.
  - f_equal. symmetry. apply filter_all. apply Forall_forall. intros x Hx.
    rewrite Forall_forall in Ha. specialize (Ha x Hx). unfold key_lt, lex_lt in Ha.
    apply lex_gt_lt in E.
    rewrite (lex_compare_lt_trans _ _ _ E Ha). reflexivity.
Qed.

Lemma take_le_filter hi s : sorted s ->
  take_while (fun e => lex_leb (fst e) hi) s = filter (fun e => lex_leb (fst e) hi) s.
Proof.
  induction 1 as [|a s Hs IH Ha]; simpl; [reflexivity|].
  destruct (lex_leb (fst a) hi) eqn:E; [now f_equal|].
  symmetry. apply filter_none. apply Forall_forall. intros x Hx.
  rewrite Forall_forall in Ha. specialize (Ha x Hx). unfold key_lt in Ha.
  destruct (lex_leb (fst x) hi) eqn:E2; [|reflexivity].
  apply lex_leb_le in E2. pose proof (lex_lt_le_trans _ _ _ Ha E2) as L.
  unfold lex_leb in E. unfold lex_lt in L. rewrite L in E. discriminate.
Qed.

Lemma scan_filter lo hi s : sorted s -> scan lo hi s = filter (fun e => in_rangeb lo hi (fst e)) s.
Proof.
  intro H. unfold scan. rewrite seek_filter by assumption.
  rewrite take_le_filter by now apply sorted_filter.
  clear H. induction s as [|a s IH]; simpl; [reflexivity|]. unfold in_rangeb.
  destruct (lex_leb lo (fst a)); simpl; [destruct (lex_leb (fst a) hi); now rewrite IH|exact IH].
Qed.

(* a key at or after p that does not start with p sorts after every key that does *)
Lemma past_prefix p a x : lex_le p a -> ~ is_prefix p a -> lex_lt (p ++ x) a.
Proof.
  unfold lex_le, lex_lt. revert a; induction p as [|u p IH]; intros a L NP.
  - exfalso. apply NP. now exists a.
  - destruct a as [|w a]; simpl in *; [congruence|].
    destruct (u ?= w) eqn:E; try reflexivity; try congruence.
    apply N.compare_eq in E. subst w. apply IH; [exact L|].
    intros [r Hr]. apply NP. exists r. simpl. now rewrite Hr.
Qed.

Lemma prefixb_le p a : prefixb p a = true -> lex_leb p a = true.
Proof. intro H. apply prefixb_is_prefix in H as [r ->]. apply lex_leb_le. apply lex_prefix_le. Qed.

Lemma take_prefix_filter p s : sorted s -> Forall (fun e => lex_leb p (fst e) = true) s ->
  take_while (fun e => prefixb p (fst e)) s = filter (fun e => prefixb p (fst e)) s.
Proof.
  induction 1 as [|a s Hs IH Ha]; intro Hge; simpl; [reflexivity|].
  inversion Hge; subst.
  destruct (prefixb p (fst a)) eqn:E; [f_equal; now apply IH|].
  symmetry. apply filter_none. apply Forall_forall. intros x Hx.
  rewrite Forall_forall in Ha. specialize (Ha x Hx). unfold key_lt in Ha.
  destruct (prefixb p (fst x)) eqn:E2; [|reflexivity]. exfalso.
  apply prefixb_is_prefix in E2 as [r Hr].
  assert (NP : ~ is_prefix p (fst a)) by (rewrite <- prefixb_is_prefix; congruence).
  apply lex_leb_le in H1. pose proof (past_prefix p (fst a) r H1 NP) as L.
  rewrite <- Hr in L. unfold lex_lt in *. rewrite lex_compare_antisym, L in Ha. discriminate.
Qed.

Lemma prefix_scan_filter p s : sorted s ->
  take_while (fun e => prefixb p (fst e)) (seek p s) = filter (fun e => prefixb p (fst e)) s.
Proof.
  intro H. rewrite seek_filter by assumption.
  rewrite take_prefix_filter.
  - apply filter_filter_impl. intros x. apply prefixb_le.
  - now apply sorted_filter.
  - apply Forall_forall. intros x Hx. now apply filter_In in Hx as [_ Hx].
Qed.

Lemma get_key_versions_filter i tk s : sorted s ->
  get_key_versions i tk s = map fst (filter (fun e => prefixb (unversioned_prefix i tk) (fst e)) s).
Proof. intro H. unfold get_key_versions. now rewrite prefix_scan_filter. Qed.

(* ---- writes ---- *)
Lemma kv_set_sorted k v s : sorted s -> sorted (kv_set k v s).
Proof.
  induction 1 as [|[k' v'] s Hs IH Ha]; simpl; [repeat constructor|].
  destruct (lex_compare k k') eqn:E.
  - apply lex_compare_eq in E. subst. constructor; [exact Hs|exact Ha].
  - constructor; [now constructor|]. constructor; [exact E|].
    apply Forall_forall. intros x Hx. rewrite Forall_forall in Ha. specialize (Ha x Hx).
    unfold key_lt, lex_lt in *. simpl in *. eapply lex_compare_lt_trans; eauto.
  - constructor; [exact IH|].
    assert (G : forall x, In x (kv_set k v s) -> x = (k, v) \/ In x s).
    { clear. induction s as [|[k2 v2] s IH]; simpl; intros x Hx.
      - destruct Hx as [<-|[]]. now left.
      - destruct (lex_compare k k2); simpl in Hx.
        + destruct Hx as [<-|Hx]; auto.
        + destruct Hx as [<-|[<-|Hx]]; auto.
        + destruct Hx as [<-|Hx]; auto. apply IH in Hx as [->|Hx]; auto. }
    apply Forall_forall. intros x Hx. apply G in Hx as [->|Hx].
    + unfold key_lt, lex_lt. simpl. now apply lex_gt_lt.
    + rewrite Forall_forall in Ha. auto.
Qed.

Lemma kv_del_subset k s x : In x (kv_del k s) -> In x s.
Proof.
  induction s as [|[k2 v2] s IH]; simpl; [auto|].
  destruct (lex_compare k k2); simpl; auto. intros [<-|H]; auto.
Qed.

Lemma kv_del_sorted k s : sorted s -> sorted (kv_del k s).
Proof.
  induction 1 as [|[k' v'] s Hs IH Ha]; simpl; [constructor|].
  destruct (lex_compare k k'); [exact Hs|now constructor|].
  constructor; [exact IH|]. apply Forall_forall. intros x Hx.
  apply kv_del_subset in Hx. rewrite Forall_forall in Ha. auto.
Qed.

(* a write leaves every filter that rejects the written key unchanged (any list) *)
Lemma filter_kv_set (P : bytes -> bool) k v s :
  P k = false -> filter (fun e => P (fst e)) (kv_set k v s) = filter (fun e => P (fst e)) s.
Proof.
  intro H. induction s as [|[k' v'] s IH]; simpl; [now rewrite H|].
  destruct (lex_compare k k') eqn:E; simpl.
  - apply lex_compare_eq in E. subst. now rewrite H.
  - now rewrite H.
  - now rewrite IH.
Qed.

Lemma filter_kv_del (P : bytes -> bool) k s :
  P k = false -> filter (fun e => P (fst e)) (kv_del k s) = filter (fun e => P (fst e)) s.
Proof.
  intro H. induction s as [|[k' v'] s IH]; simpl; [reflexivity|].
  destruct (lex_compare k k') eqn:E; simpl.
  - apply lex_compare_eq in E. subst. now rewrite H.
  - reflexivity.
  - now rewrite IH.
Qed.

(* deleting a key removes exactly it from a sorted store *)
Lemma kv_del_filter k s : sorted s -> kv_del k s = filter (fun e => negb (bytes_eqb (fst e) k)) s.
Proof.
  induction 1 as [|[k' v'] s Hs IH Ha]; simpl; [reflexivity|].
  destruct (lex_compare k k') eqn:E.
  - apply lex_compare_eq in E. subst. rewrite (proj2 (bytes_eqb_eq k' k') eq_refl). simpl.
    symmetry. apply filter_all. apply Forall_forall. intros x Hx.
    rewrite Forall_forall in Ha. specialize (Ha x Hx). unfold key_lt, lex_lt in Ha. simpl in Ha.
    apply negb_true_iff. destruct (bytes_eqb (fst x) k') eqn:B; [|reflexivity].
    apply bytes_eqb_eq in B. rewrite B, lex_compare_refl in Ha. discriminate.
  - destruct (bytes_eqb k' k) eqn:B.
    + apply bytes_eqb_eq in B. subst. rewrite lex_compare_refl in E. discriminate.
    + simpl. f_equal. symmetry. apply filter_all. apply Forall_forall. intros x Hx.
      rewrite Forall_forall in Ha. specialize (Ha x Hx). unfold key_lt, lex_lt in Ha. simpl in Ha.
      apply negb_true_iff. destruct (bytes_eqb (fst x) k) eqn:B2; [|reflexivity].
      apply bytes_eqb_eq in B2. subst k.
      rewrite (lex_compare_antisym k' (fst x)), Ha in E. discriminate.
  - destruct (bytes_eqb k' k) eqn:B.
    + apply bytes_eqb_eq in B. subst. rewrite lex_compare_refl in E. discriminate.
    + simpl. now rewrite IH.
Qed.

Lemma delete_list_filter (P : bytes -> bool) (l : list kv) s :
  Forall (fun e => P (fst e) = false) l ->
  filter (fun e => P (fst e)) (fold_left (fun acc e => kv_del (fst e) acc) l s) = filter (fun e => P (fst e)) s.
Proof.
  revert s; induction l as [|e l IH]; intros s H; simpl; [reflexivity|].
  inversion H; subst. rewrite IH by assumption. now apply filter_kv_del.
Qed.

Lemma delete_list_sorted (l : list kv) s : sorted s -> sorted (fold_left (fun acc e => kv_del (fst e) acc) l s).
Proof. revert s; induction l as [|e l IH]; intros s H; simpl; [exact H|]. apply IH. now apply kv_del_sorted. Qed.

Lemma delete_scan_sorted r s : sorted s -> sorted (delete_scan r s).
Proof. apply delete_list_sorted. Qed.

(* DeleteAll leaves every filter disjoint from its interval unchanged *)
Lemma delete_scan_filter (P : bytes -> bool) r s : sorted s ->
  (forall k, P k = true -> in_rangeb (fst r) (snd r) k = false) ->
  filter (fun e => P (fst e)) (delete_scan r s) = filter (fun e => P (fst e)) s.
Proof.
  intros Hs H. unfold delete_scan. apply delete_list_filter.
  rewrite scan_filter by assumption. apply Forall_forall. intros x Hx.
  apply filter_In in Hx as [_ Hx]. destruct (P (fst x)) eqn:E; [|reflexivity].
  apply H in E. congruence.
Qed.

(* ... and removes everything inside it *)
Lemma delete_list_removes (l : list kv) s e :
  sorted s -> In e l -> ~ In (fst e) (map fst (fold_left (fun acc x => kv_del (fst x) acc) l s)).
Proof.
  revert s; induction l as [|a l IH]; intros s Hs Hin; [contradiction|]. simpl.
  destruct Hin as [->|Hin].
  - intro C. apply in_map_iff in C as [y [Hy1 Hy2]].
    assert (In y (kv_del (fst e) s)).
    { clear -Hy2. revert Hy2. generalize (kv_del (fst e) s). induction l as [|b l IH]; simpl; auto.
      intros s0 H. apply IH in H. now apply kv_del_subset in H. }
    rewrite kv_del_filter in H by assumption. apply filter_In in H as [_ H].
    rewrite Hy1, (proj2 (bytes_eqb_eq _ _) eq_refl) in H. discriminate.
  - apply IH; [now apply kv_del_sorted|exact Hin].
Qed.

Lemma delete_scan_complete r s k : sorted s ->
  in_rangeb (fst r) (snd r) k = true -> ~ In k (map fst (delete_scan r s)).
Proof.
  intros Hs Hr C. unfold delete_scan in C.
  assert (Hk : In k (map fst s)).
  { apply in_map_iff in C as [y [Hy1 Hy2]]. apply in_map_iff. exists y. split; auto.
    clear -Hy2. revert Hy2. generalize (scan (fst r) (snd r) s) as l. intro l. revert s.
    induction l as [|b l IH]; simpl; auto. intros s H. apply IH in H. now apply kv_del_subset in H. }
  apply in_map_iff in Hk as [e [He1 He2]]. subst k.
  apply (delete_list_removes (scan (fst r) (snd r) s) s e Hs); [|exact C].
  rewrite scan_filter by assumption. apply filter_In. auto.
Qed.

(* ---- well-formed stores: whatever is stored under the data prefix is a full data key ---- *)
Definition key_wf (k : bytes) : Prop :=
  match k with
  | p :: _ => p = n_dataKeyPrefix -> (14 <= length k)%nat
  | [] => True
  end.
Definition store_wf (s : store) : Prop := Forall (fun e => key_wf (fst e)) s.

Lemma store_wf_subset s s' : (forall x, In x s' -> In x s) -> store_wf s -> store_wf s'.
Proof. unfold store_wf. rewrite !Forall_forall. auto. Qed.

Lemma kv_set_in k v s x : In x (kv_set k v s) -> x = (k, v) \/ In x s.
Proof.
  induction s as [|[k2 v2] s IH]; simpl; intros Hx.
  - destruct Hx as [<-|[]]. now left.
  - destruct (lex_compare k k2); simpl in Hx.
    + destruct Hx as [<-|Hx]; auto.
    + destruct Hx as [<-|[<-|Hx]]; auto.
    + destruct Hx as [<-|Hx]; auto. apply IH in Hx as [->|Hx]; auto.
Qed.

Lemma kv_set_wf k v s : key_wf k -> store_wf s -> store_wf (kv_set k v s).
Proof.
  unfold store_wf. rewrite !Forall_forall. intros Hk Hs x Hx.
  apply kv_set_in in Hx as [->|Hx]; auto.
Qed.

Lemma kv_del_wf k s : store_wf s -> store_wf (kv_del k s).
Proof. apply store_wf_subset. intros x. apply kv_del_subset. Qed.

Lemma delete_list_wf (l : list kv) s : store_wf s -> store_wf (fold_left (fun acc e => kv_del (fst e) acc) l s).
Proof. revert s; induction l; simpl; auto. intros s H. apply IHl. now apply kv_del_wf. Qed.

Lemma data_key_wf i tk v c m : key_wf (data_key i tk v c m).
Proof.
  pose proof (data_key_length i tk v c m) as L.
  destruct (data_key i tk v c m) as [|p r] eqn:E; [exact I|]. unfold key_wf. intros _. rewrite L. lia.
Qed.

(* ---- keys of one instance ---- *)
Lemma key_head_app_inj i j x y :
  id_ok i -> id_ok j -> key_head i ++ x = key_head j ++ y -> i = j.
Proof.
  intros Hi Hj E. apply (f_equal (firstn 5)) in E.
  rewrite !firstn_app, !key_head_length, Nat.sub_diag, !firstn_O, !app_nil_r in E.
  rewrite !firstn_all2 in E by (rewrite key_head_length; lia). unfold key_head in E.
  apply (f_equal (@tl _)) in E. cbn [tl] in E. now apply iid_bytes_inj.
Qed.

Lemma of_instance_data_key i j tk v c m :
  id_ok i -> id_ok j -> of_instance i (data_key j tk v c m) = (i =? j).
Proof.
  intros Hi Hj. unfold of_instance.
  destruct (N.eqb_spec i j) as [->|NE].
  - apply prefixb_is_prefix. rewrite data_key_split. now exists (tk ++ key_suffix v c m).
  - destruct (prefixb _ _) eqn:E; [|reflexivity]. exfalso.
    apply prefixb_is_prefix in E as [r Hr]. rewrite data_key_split in Hr.
    fold (key_head i) in Hr. apply NE. symmetry. eapply key_head_app_inj; eauto.
Qed.

Lemma of_instance_head i k : of_instance i k = true -> exists r, k = key_head i ++ r.
Proof. intro H. apply prefixb_is_prefix in H. exact H. Qed.

Lemma head_vs_ext i j r : id_ok i -> id_ok j -> i <> j ->
  lex_compare (key_head i) (key_head j ++ r) = (i ?= j).
Proof.
  intros Hi Hj NE. unfold key_head. cbn [app]. rewrite lex_compare_cons.
  rewrite <- (app_nil_r (iid_bytes i)).
  rewrite lex_compare_app_eqlen by now rewrite !iid_bytes_length.
  rewrite iid_compare by assumption.
  destruct (i ?= j) eqn:E; try reflexivity. apply N.compare_eq in E. contradiction.
Qed.

(* the repaired instance range holds the well-formed keys of instance i and no others, for every id *)
Lemma max_id_eq : n_MaxInstanceID = 2 ^ 32 - 1. Proof. reflexivity. Qed.

Lemma key_range_fixed_other i j k :
  id_ok i -> id_ok j -> i <> j -> key_wf k -> of_instance j k = true ->
  in_rangeb (fst (key_range_fixed i)) (snd (key_range_fixed i)) k = false.
Proof.
  intros Hi Hj NE W O. apply of_instance_head in O as [r ->].
  destruct (in_rangeb _ _ _) eqn:R; [|reflexivity]. exfalso.
  apply in_rangeb_in_range in R as [R1 R2]. unfold key_range_fixed in *.
  destruct (N.eqb_spec i n_MaxInstanceID) as [->|NM]; cbn [fst snd] in *.
  - fold (key_head n_MaxInstanceID) in R1. unfold lex_le in R1. rewrite head_vs_ext in R1 by auto.
    apply R1. apply N.compare_gt_iff. unfold id_ok in Hj. rewrite max_id_eq in *. lia.
  - rewrite key_range_eq in *. cbn [fst snd] in *.
    assert (Hlt : i < 2 ^ 32 - 1) by (unfold id_ok in Hi; rewrite max_id_eq in NM; lia).
    rewrite id_succ_lt_max in R2 by assumption.
    unfold lex_le in R1, R2. rewrite head_vs_ext in R1 by auto.
    destruct (N.eq_dec j (i + 1)) as [->|N2].
    + (* the bare 5-byte head of the next instance is not a well-formed key *)
      assert (r = []).
      { rewrite <- (app_nil_r (key_head (i + 1))) in R2 at 2. rewrite lex_compare_app_same in R2.
        destruct r; [reflexivity|simpl in R2; congruence]. }
      subst r. rewrite app_nil_r in W. unfold key_wf, key_head in W.
      specialize (W eq_refl). cbn [length] in W. rewrite iid_bytes_length in W. lia.
    + assert (id_ok (i + 1)) by (unfold id_ok; lia).
      rewrite lex_compare_antisym, head_vs_ext in R2 by auto.
      rewrite N.compare_gt_iff in R1.
      destruct (i + 1 ?= j) eqn:E; simpl in R2; try congruence.
      * apply N.compare_eq in E. congruence.
      * rewrite N.compare_gt_iff in E. lia.
Qed.

Lemma key_range_fixed_own i k :
  id_ok i -> of_instance i k = true ->
  in_rangeb (fst (key_range_fixed i)) (snd (key_range_fixed i)) k = true.
Proof.
  intros Hi O. apply of_instance_head in O as [r ->]. apply in_rangeb_in_range.
  unfold key_range_fixed. destruct (N.eqb_spec i n_MaxInstanceID) as [->|NM]; cbn [fst snd].
  - split; [apply lex_prefix_le|]. unfold lex_le, key_head. simpl. discriminate.
  - rewrite key_range_eq. cbn [fst snd]. split; [apply lex_prefix_le|].
    assert (Hlt : i < 2 ^ 32 - 1) by (unfold id_ok in Hi; rewrite max_id_eq in NM; lia).
    rewrite id_succ_lt_max by assumption.
    assert (id_ok (i + 1)) by (unfold id_ok; lia).
    unfold lex_le. rewrite lex_compare_antisym, head_vs_ext by (auto; lia).
    replace (i + 1 ?= i) with Gt by (symmetry; apply N.compare_gt_iff; lia). simpl. discriminate.
Qed.

(* the versioned DeleteAll interval lies inside the instance's key space *)
Lemma delete_all_versioned_other i j k :
  id_ok i -> id_ok j -> i <> j -> of_instance j k = true ->
  in_rangeb (fst (delete_all_range_versioned i)) (snd (delete_all_range_versioned i)) k = false.
Proof.
  intros Hi Hj NE O. apply of_instance_head in O as [r ->].
  destruct (in_rangeb _ _ _) eqn:R; [|reflexivity]. exfalso.
  apply in_rangeb_in_range in R as [R1 R2]. unfold delete_all_range_versioned in *. cbn [fst snd] in *.
  rewrite min_version_key_eq in R1. rewrite max_version_key_eq in R2.
  rewrite data_key_split in R1, R2. unfold lex_le in *.
  unfold key_head in R1, R2. cbn [app] in R1, R2. rewrite !lex_compare_cons in R1, R2.
  rewrite (lex_compare_app_eqlen (iid_bytes i) (iid_bytes j)) in R1 by now rewrite !iid_bytes_length.
  rewrite (lex_compare_app_eqlen (iid_bytes j) (iid_bytes i)) in R2 by now rewrite !iid_bytes_length.
  rewrite !iid_compare in R1, R2 by assumption.
  rewrite (N.compare_antisym i j) in R2.
  destruct (i ?= j) eqn:E; simpl in *; try congruence.
  apply N.compare_eq in E. contradiction.
Qed.

(* ---- the effect of each operation on another instance's keys ---- *)
Section Isolation.
Variables iA iB : N.
Hypothesis HA : id_ok iA.
Hypothesis HB : id_ok iB.
Hypothesis NE : iA <> iB.

Let PB (k : bytes) : bool := of_instance iB k.

Lemma PB_data_key tk v c m : PB (data_key iA tk v c m) = false.
Proof. unfold PB. rewrite of_instance_data_key by assumption. apply N.eqb_neq. congruence. Qed.

Definition sel (P : bytes -> bool) (s : store) : store := filter (fun e => P (fst e)) s.

Lemma put_other cx tk v s : cx_instance cx = iA ->
  sel PB (put cx tk v s) = sel PB s.
Proof.
  intros E. unfold put, sel, tombstone_key, construct_data_key. rewrite E.
  rewrite filter_kv_del by apply PB_data_key. now rewrite filter_kv_set by apply PB_data_key.
Qed.

Lemma delete_other cx tk s : cx_instance cx = iA ->
  sel PB (delete cx tk s) = sel PB s.
Proof.
  intros E. unfold delete, sel, tombstone_key, construct_data_key. rewrite E.
  rewrite filter_kv_set by apply PB_data_key. now rewrite filter_kv_del by apply PB_data_key.
Qed.

Lemma put_inv cx tk v s : sorted s /\ store_wf s -> sorted (put cx tk v s) /\ store_wf (put cx tk v s).
Proof.
  intros [H1 H2]. unfold put. split.
  - apply kv_del_sorted. now apply kv_set_sorted.
  - apply kv_del_wf. apply kv_set_wf; [apply data_key_wf|exact H2].
Qed.

Lemma delete_inv cx tk s : sorted s /\ store_wf s -> sorted (delete cx tk s) /\ store_wf (delete cx tk s).
Proof.
  intros [H1 H2]. unfold delete. split.
  - apply kv_set_sorted. now apply kv_del_sorted.
  - apply kv_set_wf; [apply data_key_wf|]. now apply kv_del_wf.
Qed.

Lemma delete_scan_inv r s : sorted s /\ store_wf s -> sorted (delete_scan r s) /\ store_wf (delete_scan r s).
Proof. intros [H1 H2]. split; [now apply delete_scan_sorted|now apply delete_list_wf]. Qed.

Lemma filter_wf_ext (P Q : bytes -> bool) s :
  store_wf s -> (forall k, key_wf k -> P k = Q k) -> sel P s = sel Q s.
Proof.
  intros W H. unfold sel. apply filter_ext_in. intros x Hx.
  unfold store_wf in W. rewrite Forall_forall in W. auto.
Qed.

Lemma delete_instance_other s : sorted s -> store_wf s ->
  sel PB (delete_data_instance iA s) = sel PB s.
Proof.
  intros Hs W. unfold delete_data_instance, delete_all_unversioned.
  (* restrict PB to well-formed keys so that the bare head of instance iA+1 is not an issue *)
  set (PB' := fun k => PB k && match k with p :: _ => negb (p =? n_dataKeyPrefix) || Nat.leb 14 (length k) | [] => true end).
  assert (EQ : forall t, store_wf t -> sel PB t = sel PB' t).
  { intros t Wt. apply filter_wf_ext; [exact Wt|]. intros k Hk. unfold PB'.
    destruct k as [|p k]; [symmetry; apply andb_true_r|]. unfold key_wf in Hk.
    destruct (N.eqb_spec p n_dataKeyPrefix) as [->|NP]; cbn [negb orb].
    - specialize (Hk eq_refl). replace (Nat.leb 14 (length (n_dataKeyPrefix :: k))) with true
        by (symmetry; apply Nat.leb_le; exact Hk). symmetry; apply andb_true_r.
    - symmetry; apply andb_true_r. }
  rewrite EQ by now apply delete_list_wf. rewrite (EQ s W).
  apply delete_scan_filter; [exact Hs|].
  intros k Hk. unfold PB' in Hk. apply andb_true_iff in Hk as [Hk1 Hk2].
  apply (key_range_fixed_other iA iB); auto.
  unfold key_wf. destruct k as [|p k]; [exact I|]. intros ->.
  rewrite N.eqb_refl in Hk2. cbn [negb orb] in Hk2. now apply Nat.leb_le in Hk2.
Qed.

Lemma delete_all_versioned_other_inst s : sorted s ->
  sel PB (delete_all_versioned iA s) = sel PB s.
Proof.
  intros Hs. unfold delete_all_versioned. apply delete_scan_filter; [exact Hs|].
  intros k Hk. now apply (delete_all_versioned_other iA iB).
Qed.

Lemma batch_other l s : sorted s /\ store_wf s ->
  let f := (fun acc '(v, c, tk, ov) =>
                 let cx := {| cx_instance := iA; cx_version := v; cx_client := c |} in
                 match ov with Some value => put cx tk value acc | None => delete cx tk acc end) in
  sel PB (fold_left f l s) = sel PB s /\ (sorted (fold_left f l s) /\ store_wf (fold_left f l s)).
Proof.
  revert s; induction l as [|[[[v c] tk] ov] l IH]; intros s Inv; simpl; [auto|].
  destruct ov as [value|].
  - destruct (IH (put {| cx_instance := iA; cx_version := v; cx_client := c |} tk value s)) as [E I'];
      [now apply put_inv|]. split; [|exact I']. simpl in E. rewrite E. now apply put_other.
  - destruct (IH (delete {| cx_instance := iA; cx_version := v; cx_client := c |} tk s)) as [E I'];
      [now apply delete_inv|]. split; [|exact I']. simpl in E. rewrite E. now apply delete_other.
Qed.

Lemma apply_iop_other o s : sorted s /\ store_wf s ->
  sel PB (apply_iop iA o s) = sel PB s /\ (sorted (apply_iop iA o s) /\ store_wf (apply_iop iA o s)).
Proof.
  intros Inv. destruct o as [v c tk value|v c tk| | |l]; cbn [apply_iop].
  - split; [now apply put_other|now apply put_inv].
  - split; [now apply delete_other|now apply delete_inv].
  - split; [apply delete_all_versioned_other_inst; tauto|now apply delete_scan_inv].
  - split; [apply delete_instance_other; tauto|now apply delete_scan_inv].
  - now apply batch_other.
Qed.

Lemma apply_iops_other ops s : sorted s /\ store_wf s ->
  sel PB (apply_iops iA ops s) = sel PB s /\ (sorted (apply_iops iA ops s) /\ store_wf (apply_iops iA ops s)).
Proof.
  unfold apply_iops. revert s; induction ops as [|o ops IH]; intros s Inv; simpl; [auto|].
  destruct (apply_iop_other o s Inv) as [E I']. destruct (IH _ I') as [E2 I2].
  split; [congruence|exact I2].
Qed.

End Isolation.

Lemma apply_iop_inv i o s : id_ok i -> sorted s /\ store_wf s ->
  sorted (apply_iop i o s) /\ store_wf (apply_iop i o s).
Proof.
  intros Hi Inv. destruct (N.eq_dec i 0) as [->|NZ].
  - apply (apply_iop_other 0 1 Hi ltac:(unfold id_ok; reflexivity) ltac:(discriminate) o s Inv).
  - apply (apply_iop_other i 0 Hi ltac:(unfold id_ok; reflexivity) NZ o s Inv).
Qed.

(* everything a request to instance B can look at is a function of B's slice *)
Lemma instance_slice_sel i s : instance_slice i s = sel (of_instance i) s.
Proof. reflexivity. Qed.

Lemma prefix_of_instance i tk k : prefixb (unversioned_prefix i tk) k = true -> of_instance i k = true.
Proof.
  intro H. apply prefixb_is_prefix in H as [r ->]. apply prefixb_is_prefix.
  rewrite unversioned_prefix_eq. exists (tk ++ r). now rewrite <- app_assoc.
Qed.

Lemma get_key_versions_slice i tk s : sorted s ->
  get_key_versions i tk s = get_key_versions i tk (instance_slice i s).
Proof.
  intro H. rewrite !get_key_versions_filter by (auto; now apply sorted_filter).
  unfold instance_slice. f_equal. symmetry. apply filter_filter_impl.
  intros x. apply prefix_of_instance.
Qed.

Lemma kv_get_find k s : sorted s ->
  kv_get k s = option_map snd (find (fun e => bytes_eqb (fst e) k) s).
Proof.
  induction 1 as [|[k' v'] s Hs IH Ha]; simpl; [reflexivity|].
  destruct (lex_compare k k') eqn:E.
  - apply lex_compare_eq in E. subst. now rewrite (proj2 (bytes_eqb_eq k' k') eq_refl).
  - destruct (bytes_eqb k' k) eqn:B.
    + apply bytes_eqb_eq in B. subst. rewrite lex_compare_refl in E. discriminate.
    + simpl. destruct (find (fun e : bytes * bytes => bytes_eqb (fst e) k) s) eqn:F; [|reflexivity]. exfalso.
      apply find_some in F as [F1 F2]. apply bytes_eqb_eq in F2.
      rewrite Forall_forall in Ha. specialize (Ha _ F1). unfold key_lt, lex_lt in Ha. simpl in Ha.
      rewrite F2 in Ha. rewrite lex_compare_antisym, Ha in E. discriminate.
  - destruct (bytes_eqb k' k) eqn:B.
    + apply bytes_eqb_eq in B. subst. rewrite lex_compare_refl in E. discriminate.
    + exact IH.
Qed.

Lemma find_filter {A} (f g : A -> bool) l :
  (forall x, f x = true -> g x = true) -> find f (filter g l) = find f l.
Proof.
  intro H. induction l as [|x l IH]; simpl; [reflexivity|].
  destruct (g x) eqn:G; simpl.
  - destruct (f x); [reflexivity|exact IH].
  - destruct (f x) eqn:F; [apply H in F; congruence|exact IH].
Qed.

Lemma kv_get_slice i k s : sorted s -> of_instance i k = true ->
  kv_get k s = kv_get k (instance_slice i s).
Proof.
  intros H O. rewrite !kv_get_find by (auto; now apply sorted_filter).
  unfold instance_slice. f_equal. symmetry. apply find_filter.
  intros x Hx. apply bytes_eqb_eq in Hx. now rewrite Hx.
Qed.

Lemma scan_slice i lo hi s : sorted s ->
  (forall k, in_rangeb lo hi k = true -> of_instance i k = true) ->
  scan lo hi s = scan lo hi (instance_slice i s).
Proof.
  intros H R. rewrite !scan_filter by (auto; now apply sorted_filter).
  unfold instance_slice. symmetry. apply filter_filter_impl. intros x. apply R.
Qed.

(* ---- instance deletion is complete (repaired range), for every id ---- *)
Lemma delete_data_instance_complete i s : id_ok i -> sorted s ->
  instance_slice i (delete_data_instance i s) = [].
Proof.
  intros Hi Hs. unfold instance_slice. apply filter_none. apply Forall_forall. intros x Hx.
  destruct (of_instance i (fst x)) eqn:O; [|reflexivity]. exfalso.
  apply (delete_scan_complete (delete_all_range_unversioned_fixed i) s (fst x) Hs).
  - now apply key_range_fixed_own.
  - now apply in_map.
Qed.

(* without C06-3-fix nothing of instance 2^32-1 is deleted *)
Lemma scan_empty_range lo hi s : lex_lt hi lo -> sorted s -> scan lo hi s = [].
Proof.
  intros L Hs. rewrite scan_filter by assumption. apply filter_none. apply Forall_forall. intros x _.
  destruct (in_rangeb lo hi (fst x)) eqn:R; [|reflexivity]. exfalso.
  apply in_rangeb_in_range in R as [R1 R2].
  apply (lex_lt_not_le _ _ L). eapply lex_le_trans; eauto.
Qed.

Lemma delete_data_instance_wrapping_max s : sorted s ->
  delete_data_instance_wrapping (2 ^ 32 - 1) s = s.
Proof.
  intro Hs. unfold delete_data_instance_wrapping, delete_scan.
  rewrite scan_empty_range; [reflexivity| |exact Hs]. vm_compute. reflexivity.
Qed.

(* ---- exact point reads ---- *)
Definition entries_of (i : N) (tk : bytes) (s : store) : list bytes :=
  map fst (filter (fun e => prefixb (unversioned_prefix i tk) (fst e)
                            && Nat.eqb (length (fst e)) (length (unversioned_prefix i tk) + suffix_size)) s).

Lemma get_key_versions_exact_spec i tk s : sorted s ->
  get_key_versions_exact i tk s = entries_of i tk s.
Proof.
  intro H. unfold get_key_versions_exact, entries_of. rewrite get_key_versions_filter by assumption.
  generalize (unversioned_prefix i tk) as p. intro p. clear H.
  induction s as [|[k v] s IH]; [reflexivity|]. cbn [filter map fst].
  destruct (prefixb p k); cbn [andb filter map fst]; [|exact IH].
  destruct (Nat.eqb (length k) (length p + suffix_size)); cbn [map]; now rewrite IH.
Qed.

Lemma app_eq_len {A} (a b x y : list A) : length a = length b -> a ++ x = b ++ y -> a = b.
Proof.
  revert b; induction a as [|u a IH]; destruct b as [|w b]; simpl; intros L E; try discriminate; auto.
  inversion E; subst. f_equal. apply IH; auto.
Qed.

(* a key counted by the exact scan is an entry of precisely this TKey *)
Lemma exact_entry_is_own i tk i' tk' v c m :
  id_ok i -> id_ok i' ->
  prefixb (unversioned_prefix i tk) (data_key i' tk' v c m) = true ->
  length (data_key i' tk' v c m) = (length (unversioned_prefix i tk) + suffix_size)%nat ->
  i' = i /\ tk' = tk.
Proof.
  intros Hi Hi' P L.
  pose proof (prefix_of_instance _ _ _ P) as O. rewrite of_instance_data_key in O by assumption.
  apply N.eqb_eq in O. subst i'. split; [reflexivity|].
  apply prefixb_is_prefix in P as [r Hr].
  rewrite data_key_split, unversioned_prefix_eq, <- app_assoc in Hr.
  apply app_inv_head in Hr.
  rewrite data_key_length, unversioned_prefix_eq, app_length, key_head_length, suffix_size_eq in L.
  assert (length tk' = length tk) by lia.
  eapply app_eq_len; eauto.
Qed.

Lemma own_entry_is_exact i tk v c m :
  prefixb (unversioned_prefix i tk) (data_key i tk v c m) = true /\
  length (data_key i tk v c m) = (length (unversioned_prefix i tk) + suffix_size)%nat.
Proof.
  split.
  - apply prefixb_is_prefix. rewrite data_key_split, unversioned_prefix_eq.
    exists (key_suffix v c m). now rewrite app_assoc.
  - rewrite data_key_length, unversioned_prefix_eq, app_length, key_head_length, suffix_size_eq. lia.
Qed.

(* for prefix-free neighbours the repair changes nothing *)
Lemma exact_noop i tk s :
  sorted s ->
  (forall k, In k (map fst s) -> prefixb (unversioned_prefix i tk) k = true ->
             exists v c m, k = data_key i tk v c m) ->
  get_key_versions_exact i tk s = get_key_versions i tk s.
Proof.
  intros Hs H. unfold get_key_versions_exact. apply filter_all. apply Forall_forall. intros k Hk.
  rewrite get_key_versions_filter in Hk by assumption.
  apply in_map_iff in Hk as [e [<- He]]. apply filter_In in He as [He1 He2].
  destruct (H (fst e)) as (v & c & m & E); [now apply in_map|exact He2|].
  rewrite E. apply Nat.eqb_eq. apply own_entry_is_exact.
Qed.

(* ---- instance ids ---- *)
Lemma new_instance_id_first fuel next taken :
  (forall t, In t taken -> t <> next) ->
  new_instance_id (S fuel) next taken = Some (next, id_succ next).
Proof.
  intro H. simpl. destruct (existsb (N.eqb next) taken) eqn:E; [|reflexivity]. exfalso.
  apply existsb_exists in E as [t [Ht E]]. apply N.eqb_eq in E. subst t. now apply (H next).
Qed.

(* invariant of the manager while the counter has not wrapped *)
Definition mgr_inv (m : mgr) : Prop :=
  m_next m < 2 ^ 32 /\
  (forall t, In t (m_taken m) -> t < m_next m) /\
  (sorted (m_store m) /\ store_wf (m_store m)) /\
  (forall j, id_ok j -> m_next m <= j -> instance_slice j (m_store m) = []).

Lemma sel_of_instance_nil_put j cx tk v s :
  id_ok j -> id_ok (cx_instance cx) -> cx_instance cx <> j ->
  instance_slice j (put cx tk v s) = instance_slice j s.
Proof. intros. rewrite !instance_slice_sel. apply (put_other (cx_instance cx) j); auto. Qed.

Lemma mgr_step_inv m o m' :
  mgr_inv m -> mgr_step m o = Some m' -> m_next m' <> 0 -> mgr_inv m'.
Proof.
  intros (Hn & Ht & Hinv & He) St NZ. destruct o as [|i op|live]; cbn [mgr_step] in St.
  - rewrite new_instance_id_first in St by (intros t Ht' ->; apply Ht in Ht'; lia).
    inversion St; subst; clear St. cbn [m_next m_taken m_store] in *.
    assert (L : m_next m < 2 ^ 32 - 1).
    { destruct (N.eq_dec (m_next m) (2 ^ 32 - 1)) as [E|E]; [|lia].
      exfalso. apply NZ. rewrite E. reflexivity. }
    rewrite id_succ_lt_max in * by assumption.
    unfold mgr_inv; cbn [m_next m_taken m_store]. repeat split; try tauto.
    + lia.
    + intros t [<-|H]; [lia|]. apply Ht in H. lia.
    + intros j Hj Hle. apply He; [exact Hj|lia].
  - destruct (existsb (N.eqb i) (m_taken m)) eqn:E; [|discriminate].
    inversion St; subst; clear St. cbn [m_next m_taken m_store] in *.
    apply existsb_exists in E as [t [Ht' E]]. apply N.eqb_eq in E. subst t.
    pose proof (Ht i Ht') as Hi.
    assert (id_ok i) by (unfold id_ok; lia).
    unfold mgr_inv; cbn [m_next m_taken m_store]. repeat split; try tauto.
    + now apply apply_iop_inv.
    + now apply apply_iop_inv.
    + intros j Hj Hle. rewrite instance_slice_sel.
      destruct (apply_iop_other i j H Hj ltac:(lia) op (m_store m) Hinv) as [E _].
      etransitivity; [exact E|]. now apply He.
  - destruct (forallb (fun i0 => existsb (N.eqb i0) (m_taken m)) live) eqn:E; [|discriminate].
    inversion St; subst; clear St. cbn [m_next m_taken m_store] in *.
    unfold mgr_inv; cbn [m_next m_taken m_store]. repeat split; try tauto.
    intros t Hl. rewrite forallb_forall in E. specialize (E t Hl).
    apply existsb_exists in E as [t' [Ht' E]]. apply N.eqb_eq in E. subst t'. now apply Ht.
Qed.

(* the recomputed counter of seeded change C06-r2m1 hands out the id of an instance whose deletion
   was interrupted, and with it that instance's keys *)
Lemma restart_recomputed_witness :
  let m0 := {| m_next := 1; m_taken := []; m_store := [] |} in
  exists m1 m2 m3,
    mgr_run m0 [MNew; MNew; MOp 2 (IPut 1 0 [177; 1; 97; 0] [7])] = Some m1 /\
    mgr_step (restart_recomputed m1 [1]) MNew = Some m2 /\ instance_slice 2 (m_store m2) <> [] /\
    mgr_run m1 [MRestart [1]; MNew] = Some m3 /\ m_taken m3 = [3; 1] /\ instance_slice 3 (m_store m3) = [].
Proof. vm_compute. eexists _, _, _. repeat split; discriminate. Qed.

Lemma mgr_new_fresh m m' :
  mgr_inv m -> mgr_step m MNew = Some m' ->
  exists id, m_taken m' = id :: m_taken m /\ id = m_next m /\
             (forall t, In t (m_taken m) -> t < id) /\
             instance_slice id (m_store m') = [].
Proof.
  intros (Hn & Ht & Hinv & He) St. cbn [mgr_step] in St.
  rewrite new_instance_id_first in St by (intros t Ht' ->; apply Ht in Ht'; lia).
  inversion St; subst; clear St. cbn [m_next m_taken m_store].
  exists (m_next m). repeat split; auto. apply He; [exact Hn|lia].
Qed.

Lemma mgr_run_inv ops : forall m m',
  mgr_inv m -> mgr_run m ops = Some m' ->
  (forall k mk, mgr_run m (firstn k ops) = Some mk -> m_next mk <> 0 \/ k = 0%nat) ->
  mgr_inv m'.
Proof.
  induction ops as [|o ops IH]; intros m m' I R NW; simpl in R.
  - now inversion R; subst.
  - destruct (mgr_step m o) as [m1|] eqn:St; [|discriminate].
    assert (I1 : mgr_inv m1).
    { eapply mgr_step_inv; eauto. destruct (NW 1%nat m1) as [H|H]; [simpl; now rewrite St|exact H|discriminate]. }
    apply (IH m1 m' I1 R). intros k mk Hk.
    destruct k as [|k]; [now right|]. left.
    destruct (NW (S (S k)) mk) as [H|H]; [simpl; rewrite St; exact Hk|exact H|discriminate].
Qed.

(* ---- what the code did before the repairs (witnesses, replayed on the real code by the driver) ---- *)
Definition wit_key (i : N) (n : N) : bytes := construct_data_key i 1 0 (new_tkey 187 (be_enc 8 n)).
Definition wit_store : store :=
  [(wit_key 1 1, [11]); (wit_key 1 8, [12]); (wit_key 2 1, [21]); (wit_key 2 8, [22])].

(* DeleteAll queued the iterator's key buffer: dropping instance 1 removes both entries of
   instance 2 and keeps both entries of instance 1 *)
Lemma delete_all_aliased_witness :
  sorted wit_store /\
  delete_all_aliased (delete_all_range_unversioned_fixed 1) wit_store
    = Some [(wit_key 1 1, [11]); (wit_key 1 8, [12])] /\
  delete_data_instance 1 wit_store = [(wit_key 2 1, [21]); (wit_key 2 8, [22])].
Proof.
  split; [|split; vm_compute; reflexivity].
  repeat constructor; vm_compute; reflexivity.
Qed.

(* getKeyVersions is a prefix scan: a read of keyvalue key "a" also sees the entry of "a\000b" *)
Definition wit_nul_store : store :=
  [(construct_data_key 1 1 0 (kv_tkey [97]), [65]); (construct_data_key 1 1 0 (kv_tkey [97; 0; 98]), [66])].
Lemma get_key_versions_inexact_witness :
  sorted wit_nul_store /\
  get_key_versions 1 (kv_tkey [97]) wit_nul_store
    = [construct_data_key 1 1 0 (kv_tkey [97]); construct_data_key 1 1 0 (kv_tkey [97; 0; 98])] /\
  get_key_versions_exact 1 (kv_tkey [97]) wit_nul_store = [construct_data_key 1 1 0 (kv_tkey [97])].
Proof.
  split; [|split; vm_compute; reflexivity].
  repeat constructor; vm_compute; reflexivity.
Qed.

(* the id counter is a uint32: after 2^32-1 comes 0 *)
Lemma new_instance_id_wraps :
  new_instance_id 1 (2 ^ 32 - 1) [] = Some (2 ^ 32 - 1, 0) /\ new_instance_id 1 0 [] = Some (0, 1).
Proof. split; reflexivity. Qed.
