(* Proofs.Heads: the branch-head cache of the repaired code equals, for every history of requests
   (refused ones included), the cache a restart builds from the persisted image. *)
From DV Require Import Base.Prelude Model.Persist Model.Heads Proofs.Persist Proofs.Restart.
From Coq Require Import ZifyN ZifyNat ZifyBool.
Local Open Scope N_scope.

(* ---- association lists ---- *)
Lemma paget_aset {V} k (v : V) m k' : aget k' (aset k v m) = if k' =? k then Some v else aget k' m.
Proof.
  induction m as [|[k0 v0] r IH]; cbn [aset aget].
  - reflexivity.
  - destruct (k <? k0) eqn:E1; [cbn [aget]; reflexivity|].
    destruct (k =? k0) eqn:E2.
    + apply N.eqb_eq in E2. subst k0. cbn [aget]. destruct (k' =? k); reflexivity.
    + cbn [aget]. rewrite IH. destruct (k' =? k0) eqn:E3; [|reflexivity].
      apply N.eqb_eq in E3. subst k0. destruct (k' =? k) eqn:E4; [|reflexivity].
      apply N.eqb_eq in E4. subst k'. now rewrite N.eqb_refl in E2.
Qed.

Lemma paget_adel {V} k (m : list (N * V)) k' : aget k' (adel k m) = if k' =? k then None else aget k' m.
Proof.
  induction m as [|[k0 v0] r IH]; cbn [adel aget].
  - now destruct (k' =? k).
  - destruct (k =? k0) eqn:E2.
    + apply N.eqb_eq in E2. subst k0. rewrite IH. destruct (k' =? k); reflexivity.
    + cbn [aget]. rewrite IH. destruct (k' =? k0) eqn:E3; [|reflexivity].
      apply N.eqb_eq in E3. subst k0. destruct (k' =? k) eqn:E4; [|reflexivity].
      apply N.eqb_eq in E4. subst k'. now rewrite N.eqb_refl in E2.
Qed.

Lemma aget_map_vals {V W} (f : V -> W) (m : list (N * V)) k :
  aget k (map (fun kv => (fst kv, f (snd kv))) m) = option_map f (aget k m).
Proof. induction m as [|[k0 v0] r IH]; cbn; [reflexivity|]. destruct (k =? k0); [reflexivity|exact IH]. Qed.

(* ---- max_heads, branch by branch ---- *)
Definition hG (br : N) (acc : option N) (vn : N * pnode) : option N :=
  if pn_branch (snd vn) =? br
  then Some (match acc with Some c => N.max c (fst vn) | None => fst vn end)
  else acc.

Definition hF (acc : list (N * N)) (vn : N * pnode) : list (N * N) :=
  let br := pn_branch (snd vn) in
  match aget br acc with
  | Some cur => if cur <? fst vn then aset br (fst vn) acc else acc
  | None => aset br (fst vn) acc
  end.

Lemma hF_step acc vn br : aget br (hF acc vn) = hG br (aget br acc) vn.
Proof.
  unfold hF, hG. destruct (pn_branch (snd vn) =? br) eqn:E.
  - apply N.eqb_eq in E. rewrite E. destruct (aget br acc) as [cur|] eqn:Ea.
    + destruct (cur <? fst vn) eqn:El.
      * rewrite paget_aset, N.eqb_refl. f_equal. apply N.ltb_lt in El. lia.
      * rewrite Ea. f_equal. apply N.ltb_ge in El. lia.
    + now rewrite paget_aset, N.eqb_refl.
  - assert (Hne : (br =? pn_branch (snd vn)) = false) by (rewrite N.eqb_sym; exact E).
    destruct (aget (pn_branch (snd vn)) acc) as [cur|].
    + destruct (cur <? fst vn); [rewrite paget_aset, Hne|]; reflexivity.
    + now rewrite paget_aset, Hne.
Qed.

Lemma max_heads_fold l br : forall acc, aget br (fold_left hF l acc) = fold_left (hG br) l (aget br acc).
Proof.
  induction l as [|vn r IH]; intro acc; cbn [fold_left]; [reflexivity|]. now rewrite IH, hF_step.
Qed.

Lemma max_heads_best r br : aget br (max_heads r) = fold_left (hG br) (pr_nodes r) None.
Proof. unfold max_heads. change (fun acc vn => _) with hF. now rewrite max_heads_fold. Qed.

Lemma hG_idem br acc e : hG br (hG br acc e) e = hG br acc e.
Proof. unfold hG. destruct (pn_branch (snd e) =? br); [|reflexivity]. destruct acc; f_equal; lia. Qed.

Lemma hG_comm br acc e1 e2 : hG br (hG br acc e1) e2 = hG br (hG br acc e2) e1.
Proof.
  unfold hG. destruct (pn_branch (snd e1) =? br), (pn_branch (snd e2) =? br); try reflexivity.
  destruct acc; f_equal; lia.
Qed.

(* an entry with the key and branch of one already in the list changes nothing *)
Lemma hG_absorb br l : forall acc k n n', In (k, n) l -> pn_branch n' = pn_branch n ->
  fold_left (hG br) l (hG br acc (k, n')) = fold_left (hG br) l acc.
Proof.
  induction l as [|e r IH]; intros acc k n n' Hin Hb; [destruct Hin|]. cbn [fold_left].
  destruct Hin as [He|Hin].
  - subst e. f_equal.
    assert (Hsame : forall a, hG br a (k, n) = hG br a (k, n')) by (intro a; unfold hG; cbn [fst snd]; now rewrite Hb).
    now rewrite <- Hsame, hG_idem.
  - rewrite hG_comm. now apply IH with (n := n).
Qed.

(* commit: a node's lock flag is not part of the heads *)
Lemma best_lock br l : forall acc v n, aget v l = Some n ->
  fold_left (hG br) (aset v (lock_node n) l) acc = fold_left (hG br) l acc.
Proof.
  induction l as [|[k0 x0] r IH]; intros acc v n Hg; [discriminate|]. cbn [aget] in Hg. cbn [aset].
  destruct (v <? k0) eqn:E1.
  - (* inserted in front of an entry with a larger key: the old entry is still in the list *)
    cbn [fold_left]. change (hG br (hG br acc (v, lock_node n)) (k0, x0)) with
      (hG br (hG br acc (v, lock_node n)) (k0, x0)).
    change (fold_left (hG br) r (hG br (hG br acc (v, lock_node n)) (k0, x0)))
      with (fold_left (hG br) ((k0, x0) :: r) (hG br acc (v, lock_node n))).
    change (fold_left (hG br) r (hG br acc (k0, x0))) with (fold_left (hG br) ((k0, x0) :: r) acc).
    apply hG_absorb with (n := n); [|reflexivity].
    destruct (v =? k0) eqn:E2; [apply N.eqb_eq in E2; apply N.ltb_lt in E1; lia|].
    right. now apply aget_In.
  - destruct (v =? k0) eqn:E2.
    + injection Hg as ->. apply N.eqb_eq in E2. subst k0. cbn [fold_left]. f_equal.
    + cbn [fold_left]. now apply IH.
Qed.

Lemma max_heads_lock r v n br : aget v (pr_nodes r) = Some n ->
  aget br (max_heads (set_nodes r (aset v (lock_node n) (pr_nodes r)))) = aget br (max_heads r).
Proof. intro H. rewrite !max_heads_best. cbn [set_nodes pr_nodes]. now apply best_lock. Qed.

(* ---- a validated merge is an accepted one ---- *)
Lemma link_parents_valid ps : forall ns cv,
  (forall p, In p ps -> p <> cv /\ exists pn, aget p ns = Some pn /\ pn_locked pn = true) ->
  snd (link_parents ns cv ps) = true.
Proof.
  induction ps as [|p rest IH]; intros ns cv H; [reflexivity|]. cbn [link_parents].
  destruct (H p (or_introl eq_refl)) as (Hne & pn & Hg & Hl). rewrite Hg, Hl. cbn [negb].
  apply IH. intros q Hq. destruct (H q (or_intror Hq)) as (Hqne & qn & Hqg & Hql). split; [exact Hqne|].
  assert (Hq1 : exists qn1, aget q (aset p (add_child pn cv) ns) = Some qn1 /\ pn_locked qn1 = true).
  { rewrite paget_aset. destruct (q =? p) eqn:E.
    - exists (add_child pn cv). split; [reflexivity|exact Hl].
    - exists qn. auto. }
  destruct (aget cv (aset p (add_child pn cv) ns)) as [cn|]; [|exact Hq1].
  rewrite paget_aset. destruct (q =? cv) eqn:E; [apply N.eqb_eq in E; contradiction|exact Hq1].
Qed.

Lemma valid_accepted m img rid ps u : pinv m img = true -> merge_valid m rid ps = true ->
  merge_accepted m (PMerge rid ps u) = true.
Proof.
  intros Hp Hv. apply pinv_iff in Hp. unfold merge_valid in Hv. unfold merge_accepted.
  destruct ps as [|p0 [|p1 ps]]; try discriminate.
  destruct (aget rid (m_repos m)) as [r|] eqn:Er; [|discriminate].
  apply andb_true_iff in Hv as [Hv _].
  destruct (repo_of_facts m img rid r Hp Er) as (_ & _ & Hfr).
  apply fresh_parts in Hfr. destruct Hfr as (_ & Hvs & _).
  apply link_parents_valid. intros p Hin.
  rewrite forallb_forall in Hv. specialize (Hv p Hin).
  destruct (aget p (pr_nodes r)) as [pn|] eqn:Ep; [|discriminate].
  pose proof (all_lt_key_lt p pn (pr_nodes r) (m_vid m) Hvs Ep) as Hlt.
  split; [lia|]. exists pn. split; [|exact Hv].
  rewrite paget_aset. destruct (p =? m_vid m) eqn:E; [apply N.eqb_eq in E; lia|exact Ep].
Qed.

(* the manager part of [hstep] is [pstep_v]; on a validated merge and on everything else, [pstep] *)
Lemma hstep_mgr C m hc o : (fst (fst (hstep C m hc o)), snd (hstep C m hc o)) = pstep_v C m o.
Proof.
  destruct o; cbn [hstep pstep_v pstep]; try (now destruct (op_new_repo C m u)).
  - destruct (op_new_version m rid parent branch u) as [m' [|w ws]]; reflexivity.
  - unfold op_merge_v. destruct (merge_valid m rid parents); [|reflexivity]. now destruct (op_merge m rid parents u).
  - now destruct (op_commit m rid v).
  - now destruct (op_new_data m rid name).
  - now destruct (op_delete_data m rid name).
  - now destruct (op_delete_repo m rid).
  - now destruct (fst (op_new_mutid C m rid)).
Qed.

Lemma pstep_v_cases C m img o : pinv m img = true ->
  (pstep_v C m o = pstep C m o /\ merge_accepted m o = true) \/ pstep_v C m o = (m, []).
Proof.
  intro Hp. destruct o; try (left; split; reflexivity).
  cbn [pstep_v pstep]. unfold op_merge_v. destruct (merge_valid m rid parents) eqn:E; [left|right; reflexivity].
  split; [reflexivity|]. now apply valid_accepted with (img := img).
Qed.

(* pinv and synced are kept by every request, refused merges included *)
Lemma hstep_pinv_sync C m hc img o : pinv m img = true -> synced m img ->
  pinv (fst (fst (hstep C m hc o))) (apply_ws img (snd (hstep C m hc o))) = true /\
  synced (fst (fst (hstep C m hc o))) (apply_ws img (snd (hstep C m hc o))).
Proof.
  intros Hp Hs. pose proof (hstep_mgr C m hc o) as Hm.
  destruct (pstep_v_cases C m img o Hp) as [[He Ha]|He]; rewrite He in Hm.
  - apply (f_equal fst) in Hm as Hm1. apply (f_equal snd) in Hm as Hm2. cbn [fst snd] in Hm1, Hm2.
    rewrite Hm1, Hm2. split.
    + apply pinv_iff. apply pinv_iff in Hp. now destruct (step_inv C m img o Hp) as (_ & _ & H').
    + now apply sync_step.
  - apply (f_equal fst) in Hm as Hm1. apply (f_equal snd) in Hm as Hm2. cbn [fst snd] in Hm1, Hm2.
    rewrite Hm1, Hm2. cbn [apply_ws fold_left]. auto.
Qed.

(* ---- the cache invariant ---- *)
Lemma heads_inv_refresh m hc m' rid r' :
  heads_inv m hc -> m_repos m' = aset rid r' (m_repos m) -> heads_inv m' (cache_heads hc rid m').
Proof.
  intros Hi Hr rid0 r0 Hg. unfold cache_heads. rewrite Hr, paget_aset, N.eqb_refl.
  rewrite Hr, paget_aset in Hg. rewrite paget_aset. destruct (rid0 =? rid).
  - injection Hg as <-. eexists. split; [reflexivity|reflexivity].
  - now apply Hi.
Qed.

Lemma heads_inv_same m hc m' rid r r' :
  heads_inv m hc -> aget rid (m_repos m) = Some r -> m_repos m' = aset rid r' (m_repos m) ->
  (forall br, aget br (max_heads r') = aget br (max_heads r)) -> heads_inv m' hc.
Proof.
  intros Hi Hr0 Hr Hsame rid0 r0 Hg. rewrite Hr, paget_aset in Hg. destruct (rid0 =? rid) eqn:E.
  - injection Hg as <-. apply N.eqb_eq in E. subst rid0. destruct (Hi rid r Hr0) as (h & Hh & Hb).
    exists h. split; [exact Hh|]. intro br. now rewrite Hb, Hsame.
  - now apply Hi.
Qed.

Lemma heads_inv_step C m hc o : heads_inv m hc ->
  heads_inv (fst (fst (hstep C m hc o))) (snd (fst (hstep C m hc o))).
Proof.
  intro Hi. destruct o; cbn [hstep pstep].
  - (* new repo *)
    destruct (op_new_repo C m u) as [m' ws] eqn:E. cbn [fst snd].
    unfold op_new_repo, new_uuid in E. cbn [m_rid m_vid m_iid m_r2u m_v2u m_repos] in E.
    injection E as E _. eapply heads_inv_refresh with (m := m); [exact Hi|]. subst m'. reflexivity.
  - (* new version *)
    destruct (op_new_version m rid parent branch u) as [m' ws] eqn:E.
    unfold op_new_version in E.
    destruct (aget rid (m_repos m)) as [r|] eqn:Er; [|injection E as <- <-; exact Hi].
    destruct (aget parent (pr_nodes r)) as [pn|]; [|injection E as <- <-; exact Hi].
    destruct (negb (pn_locked pn)); [injection E as <- <-; exact Hi|].
    match type of E with context [if ?c then (m, []) else _] => destruct c end; [injection E as <- <-; exact Hi|].
    unfold new_uuid in E. cbn [app] in E. injection E as E Ew. subst ws. cbn [fst snd].
    eapply heads_inv_refresh with (m := m); [exact Hi|]. subst m'. reflexivity.
  - (* merge *)
    destruct (merge_valid m rid parents) eqn:Ev; [|exact Hi].
    destruct (op_merge m rid parents u) as [m' ws] eqn:E. cbn [fst snd].
    unfold op_merge in E. destruct parents as [|p0 [|p1 ps]]; try discriminate.
    destruct (aget rid (m_repos m)) as [r|] eqn:Er.
    2:{ unfold merge_valid in Ev. now rewrite Er in Ev. }
    unfold new_uuid in E. cbn [fst snd] in E.
    destruct (link_parents _ (m_vid m) (p0 :: p1 :: ps)) as [ns ok].
    eapply heads_inv_refresh with (m := m) (r' := set_nodes r ns); [exact Hi|].
    destruct ok; injection E as E _; subst m'; reflexivity.
  - (* commit *)
    destruct (op_commit m rid v) as [m' ws] eqn:E. cbn [fst snd]. unfold op_commit in E.
    destruct (aget rid (m_repos m)) as [r|] eqn:Er; [|injection E as <- <-; exact Hi].
    destruct (aget v (pr_nodes r)) as [n|] eqn:En; [|injection E as <- <-; exact Hi].
    destruct (pn_locked n); [injection E as <- <-; exact Hi|].
    injection E as E _. eapply heads_inv_same; [exact Hi|exact Er|subst m'; reflexivity|].
    intro br. now apply max_heads_lock.
  - (* new data *)
    destruct (op_new_data m rid name) as [m' ws] eqn:E. cbn [fst snd]. unfold op_new_data in E.
    destruct (aget rid (m_repos m)) as [r|] eqn:Er; [|injection E as <- <-; exact Hi].
    destruct (amem name (pr_data r)); [injection E as <- <-; exact Hi|].
    injection E as E _. eapply heads_inv_same with (m := m); [exact Hi|exact Er|subst m'; reflexivity|].
    intro br. reflexivity.
  - (* delete data *)
    destruct (op_delete_data m rid name) as [m' ws] eqn:E. cbn [fst snd]. unfold op_delete_data in E.
    destruct (aget rid (m_repos m)) as [r|] eqn:Er; [|injection E as <- <-; exact Hi].
    destruct (negb (amem name (pr_data r))); [injection E as <- <-; exact Hi|].
    injection E as E _. eapply heads_inv_same with (m := m); [exact Hi|exact Er|subst m'; reflexivity|].
    intro br. reflexivity.
  - (* delete repo: the repo's entries stay in the cache, nothing reads them *)
    destruct (op_delete_repo m rid) as [m' ws] eqn:E. cbn [fst snd]. unfold op_delete_repo in E.
    destruct (aget rid (m_repos m)) as [r|] eqn:Er; [|injection E as <- <-; exact Hi].
    injection E as E _. subst m'. intros rid0 r0 Hg. cbn [m_repos] in Hg. rewrite paget_adel in Hg.
    destruct (rid0 =? rid); [discriminate|]. now apply Hi.
  - (* mutation id *)
    destruct (fst (op_new_mutid C m rid)) as [m' ws] eqn:E. cbn [fst snd]. unfold op_new_mutid in E.
    destruct (aget rid (m_mut m)) as [[cur saved]|]; cbn [fst] in E; injection E as <- _; exact Hi.
Qed.

Lemma startup_heads_inv m : heads_inv m (startup_heads m).
Proof.
  intros rid r Hg. unfold startup_heads. rewrite aget_map_vals, Hg. cbn. eexists. split; reflexivity.
Qed.

Lemma init_heads_inv C : heads_inv (init_mgr C) [].
Proof. intros rid r Hg. discriminate. Qed.

(* ---- histories ---- *)
Lemma hgood_step C m hc img o : hgood m hc img ->
  hgood (fst (fst (hstep C m hc o))) (snd (fst (hstep C m hc o))) (apply_ws img (snd (hstep C m hc o))).
Proof.
  intros [Hp Hs Hi]. destruct (hstep_pinv_sync C m hc img o Hp Hs). constructor; auto.
  now apply heads_inv_step.
Qed.

Lemma hgood_run C ops : forall m hc img, hgood m hc img ->
  let '(m', hc', img') := hrun_img C m hc img ops in hgood m' hc' img'.
Proof.
  induction ops as [|o r IH]; intros m hc img H; [exact H|]. cbn [hrun_img].
  pose proof (hgood_step C m hc img o H) as H1.
  destruct (hstep C m hc o) as [[m1 hc1] ws]. cbn [fst snd] in H1. now apply IH.
Qed.

Lemma hgood_init C : hgood (init_mgr C) [] (apply_ws empty_image (init_writes C)).
Proof. constructor; [apply init_pinv|apply init_synced|apply init_heads_inv]. Qed.

Lemma heads_inv_obs m1 hc1 m2 hc2 : pobserve m1 = pobserve m2 -> heads_inv m1 hc1 -> heads_inv m2 hc2 ->
  hobs_eq m1 hc1 m2 hc2.
Proof.
  intros Ho H1 H2. split; [exact Ho|]. intros rid br Hm. unfold amem in Hm. unfold pobserve in Ho.
  destruct (aget rid (m_repos m1)) as [r|] eqn:E; [|discriminate].
  destruct (H1 rid r E) as (h1 & Hh1 & Hb1). rewrite Ho in E. destruct (H2 rid r E) as (h2 & Hh2 & Hb2).
  unfold cached_head. now rewrite Hh1, Hh2, Hb1, Hb2.
Qed.

(* a restart of a good state succeeds, is observably the state, and is good again *)
Lemma hgood_restart C m hc img : hgood m hc img ->
  exists mr hcr imgr, hrestart C img = Ok (mr, hcr, imgr) /\ hobs_eq m hc mr hcr /\ hgood mr hcr imgr.
Proof.
  intros [Hp Hs Hi]. destruct (pinv_pwf _ _ Hp) as [_ Hok].
  destruct (recover_ok C img Hok) as (mr & wr & Hr & Hrep & _ & _ & Hblob & Hinv).
  unfold hrestart. rewrite Hr. exists mr, (startup_heads mr), (apply_ws img wr). split; [reflexivity|].
  assert (Ho : pobserve m = pobserve mr) by (unfold pobserve; rewrite Hrep; exact Hs).
  split.
  - apply heads_inv_obs; [exact Ho|exact Hi|apply startup_heads_inv].
  - constructor; [exact Hinv| |apply startup_heads_inv].
    unfold synced. rewrite Hrep. symmetry. now apply repos_nonblobs.
Qed.

(* (1) every history, every cut: the cache a restart builds answers every branch name of every
   repo as the running server's cache did *)
Lemma heads_restart_general C m hc img ops : hgood m hc img ->
  let '(m', hc', img') := hrun_img C m hc img ops in
  exists mr hcr imgr, hrestart C img' = Ok (mr, hcr, imgr) /\ hobs_eq m' hc' mr hcr /\ hgood mr hcr imgr.
Proof.
  intro H. pose proof (hgood_run C ops m hc img H) as H1.
  destruct (hrun_img C m hc img ops) as [[m' hc'] img']. now apply hgood_restart.
Qed.

Lemma heads_restart_from_init C ops :
  let '(m', hc', img') := hrun_img C (init_mgr C) [] (apply_ws empty_image (init_writes C)) ops in
  exists mr hcr imgr, hrestart C img' = Ok (mr, hcr, imgr) /\ pobserve mr = pobserve m' /\
    forall rid br, amem rid (m_repos m') = true ->
      cached_head hcr rid br = cached_head hc' rid br /\ cached_head hc' rid br = branch_head m' rid br.
Proof.
  pose proof (hgood_run C ops _ _ _ (hgood_init C)) as H1.
  destruct (hrun_img C (init_mgr C) [] (apply_ws empty_image (init_writes C)) ops) as [[m' hc'] img'].
  destruct (hgood_restart C m' hc' img' H1) as (mr & hcr & imgr & Hr & [Ho Hh] & _).
  exists mr, hcr, imgr. split; [exact Hr|]. split; [now symmetry|]. intros rid br Hm. split; [symmetry; now apply Hh|].
  destruct H1 as [_ _ Hi]. unfold amem in Hm. destruct (aget rid (m_repos m')) as [r|] eqn:E; [|discriminate].
  destruct (Hi rid r E) as (h & Hh1 & Hb). unfold cached_head, branch_head. now rewrite Hh1, E, Hb.
Qed.

(* evaluation on a history with refused merges (unlocked parent; a parent listed twice): they leave
   no trace (the accepted merge gets version 4), heads before = heads after a restart *)
Definition hx_ops : list pop :=
  [PNewRepo 11; PCommit 1 1; PNewVersion 1 1 None 12; PNewVersion 1 1 (Some 7) 13;
   PMerge 1 [2; 3] 14; PCommit 1 2; PMerge 1 [2; 2] 15; PMerge 1 [2; 3] 16; PCommit 1 3;
   PMerge 1 [3; 2] 17; PNewVersion 1 2 (Some 8) 18].
Lemma heads_cache_example :
  let '(m, hc, img) := hrun_img r_conf (init_mgr r_conf) [] (apply_ws empty_image (init_writes r_conf)) hx_ops in
  map (cached_head hc 1) [0; 7; 8; 9] = [Some 4; Some 3; Some 5; None] /\
  match hrestart r_conf img with
  | Ok (mr, hcr, _) => map (cached_head hcr 1) [0; 7; 8; 9] = [Some 4; Some 3; Some 5; None] /\ pobserve mr = pobserve m
  | _ => False
  end.
Proof. vm_compute. repeat split. Qed.

(* ---- (2) any number of restarts between requests ---- *)
Lemma max_key_le {V} (l : list (N * V)) b : forall a, a <= b -> (forall kv, In kv l -> fst kv <= b) ->
  fold_left (fun a kv => N.max a (fst kv)) l a <= b.
Proof.
  induction l as [|kv r IH]; intros a Ha H; cbn [fold_left]; [exact Ha|].
  apply IH; [|intros; apply H; now right]. specialize (H kv (or_introl eq_refl)). lia.
Qed.

Lemma version_live_lt repos rid vid iid v :
  forallb (fun ib => repo_fresh rid vid iid ib) repos = true -> version_live repos v = true -> v < vid.
Proof.
  intros Hf Hl. unfold version_live in Hl. apply existsb_exists in Hl as (ib & Hib & Hv).
  apply existsb_exists in Hv as (x & Hx & Hvx). apply N.eqb_eq in Hvx. subst x.
  rewrite forallb_forall in Hf. specialize (Hf ib Hib). unfold repo_fresh in Hf.
  rewrite !andb_true_iff in Hf. destruct Hf as [[_ Hvs] _]. unfold all_lt in Hvs.
  rewrite forallb_forall in Hvs. apply N.ltb_lt. now apply Hvs.
Qed.

(* start-up does not move the id counters of a well-formed image *)
Lemma recover_core C img rid vid iid mr wr : img_ok img = true -> i_ids img = Some (rid, vid, iid) ->
  c_inst_start C <= iid -> recover C img = Ok (mr, wr) ->
  m_rid mr = rid /\ m_vid mr = vid /\ m_iid mr = iid.
Proof.
  intros Hok Eids Hc Hr. unfold img_ok in Hok. rewrite Eids in Hok.
  rewrite !andb_true_iff in Hok. destruct Hok as [[Hrepos _] _].
  unfold recover in Hr.
  assert (Hnm : no_metadata img = false).
  { unfold no_metadata. rewrite Eids. destruct (i_r2u img), (i_v2u img); reflexivity. }
  rewrite Hnm, Eids in Hr.
  destruct (1 <? match i_fmt img with Some f => f | None => 0 end); [discriminate|].
  destruct (negb _); [discriminate|].
  apply Ok_inj in Hr. injection Hr as Hm _. subst mr. cbn [m_rid m_vid m_iid].
  split; [reflexivity|]. split.
  - match goal with |- (if vid <? ?mx then _ else _) = _ => assert (Hmx : mx <= vid) end.
    { unfold max_key. apply max_key_le; [lia|]. intros kv Hin. apply filter_In in Hin as [_ Hlive].
      apply N.lt_le_incl. apply (version_live_lt (i_repos img) rid vid iid); [|exact Hlive].
      apply forallb_forall. intros ib Hib. rewrite forallb_forall in Hrepos. specialize (Hrepos ib Hib).
      apply andb_true_iff in Hrepos. exact (proj2 Hrepos). }
    apply N.ltb_ge in Hmx. now rewrite Hmx.
  - apply N.ltb_ge in Hc. now rewrite Hc.
Qed.

Lemma mcore_step C m1 m2 o : mcore m1 = mcore m2 ->
  mcore (fst (pstep_v C m1 o)) = mcore (fst (pstep_v C m2 o)).
Proof.
  unfold mcore. intro H.
  assert (Hr : m_repos m1 = m_repos m2) by congruence. assert (Hi : m_rid m1 = m_rid m2) by congruence.
  assert (Hv : m_vid m1 = m_vid m2) by congruence. assert (Hd : m_iid m1 = m_iid m2) by congruence. clear H.
  destruct o; cbn [pstep_v pstep].
  - unfold op_new_repo, new_uuid. cbn [fst snd m_repos m_rid m_vid m_iid]. now rewrite ?Hr, ?Hi, ?Hv, ?Hd.
  - unfold op_new_version. rewrite Hr. destruct (aget rid (m_repos m2)) as [r|]; [|cbn; congruence].
    destruct (aget parent (pr_nodes r)) as [pn|]; [|cbn; congruence].
    destruct (negb (pn_locked pn)); [cbn; congruence|].
    match goal with |- context [if ?c then (m1, []) else _] => destruct c end; [cbn; congruence|].
    unfold new_uuid. cbn [fst snd set_head upd_repo m_repos m_rid m_vid m_iid]. now rewrite ?Hr, ?Hi, ?Hv, ?Hd.
  - unfold op_merge_v, merge_valid. rewrite Hr.
    destruct parents as [|p0 [|p1 ps]]; [cbn; congruence|cbn; congruence|].
    destruct (aget rid (m_repos m2)) as [r|] eqn:Er; [|cbn; congruence].
    match goal with |- context [if ?c then _ else _] => destruct c end; [|cbn; congruence].
    unfold op_merge. rewrite Hr, Er. unfold new_uuid. cbn [fst snd]. rewrite Hv.
    destruct (link_parents _ (m_vid m2) (p0 :: p1 :: ps)) as [ns ok].
    destruct ok; cbn [fst upd_repo m_repos m_rid m_vid m_iid]; now rewrite ?Hr, ?Hi, ?Hv, ?Hd.
  - unfold op_commit. rewrite Hr. destruct (aget rid (m_repos m2)) as [r|]; [|cbn; congruence].
    destruct (aget v (pr_nodes r)) as [n|]; [|cbn; congruence].
    destruct (pn_locked n); [cbn; congruence|]. cbn [fst upd_repo m_repos m_rid m_vid m_iid]. now rewrite ?Hr, ?Hi, ?Hv, ?Hd.
  - unfold op_new_data. rewrite Hr, Hd. destruct (aget rid (m_repos m2)) as [r|].
    + destruct (amem name (pr_data r)); cbn [fst upd_repo m_repos m_rid m_vid m_iid]; now rewrite ?Hr, ?Hi, ?Hv, ?Hd.
    + cbn [fst m_repos m_rid m_vid m_iid]. now rewrite ?Hr, ?Hi, ?Hv, ?Hd.
  - unfold op_delete_data. rewrite Hr. destruct (aget rid (m_repos m2)) as [r|]; [|cbn; congruence].
    destruct (negb (amem name (pr_data r))); [cbn; congruence|]. cbn [fst upd_repo m_repos m_rid m_vid m_iid]. now rewrite ?Hr, ?Hi, ?Hv, ?Hd.
  - unfold op_delete_repo. rewrite Hr. destruct (aget rid (m_repos m2)) as [r|]; [|cbn; congruence].
    cbn [fst m_repos m_rid m_vid m_iid]. now rewrite ?Hr, ?Hi, ?Hv, ?Hd.
  - unfold op_new_mutid.
    destruct (aget rid (m_mut m1)) as [[c1 s1]|], (aget rid (m_mut m2)) as [[c2 s2]|];
      cbn [fst m_repos m_rid m_vid m_iid]; congruence.
Qed.

Lemma inst_ok_step C m o : inst_ok C m -> inst_ok C (fst (pstep_v C m o)).
Proof.
  unfold inst_ok. intro H. destruct o; cbn [pstep_v pstep].
  - unfold op_new_repo, new_uuid. cbn. exact H.
  - unfold op_new_version. destruct (aget rid (m_repos m)) as [r|]; [|exact H].
    destruct (aget parent (pr_nodes r)) as [pn|]; [|exact H].
    destruct (negb (pn_locked pn)); [exact H|].
    match goal with |- context [if ?c then (m, []) else _] => destruct c end; [exact H|]. cbn. exact H.
  - unfold op_merge_v. destruct (merge_valid m rid parents); [|exact H]. unfold op_merge.
    destruct parents as [|p0 [|p1 ps]]; [exact H|exact H|].
    destruct (aget rid (m_repos m)) as [r|]; [|exact H]. unfold new_uuid. cbn [fst snd].
    destruct (link_parents _ (m_vid m) (p0 :: p1 :: ps)) as [ns ok]. destruct ok; cbn; exact H.
  - unfold op_commit. destruct (aget rid (m_repos m)) as [r|]; [|exact H].
    destruct (aget v (pr_nodes r)) as [n|]; [|exact H]. destruct (pn_locked n); [exact H|]. cbn. exact H.
  - unfold op_new_data. destruct (aget rid (m_repos m)) as [r|]; [|cbn; lia].
    destruct (amem name (pr_data r)); cbn; lia.
  - unfold op_delete_data. destruct (aget rid (m_repos m)) as [r|]; [|exact H].
    destruct (negb (amem name (pr_data r))); [exact H|]. cbn. exact H.
  - unfold op_delete_repo. destruct (aget rid (m_repos m)) as [r|]; [|exact H]. cbn. exact H.
  - unfold op_new_mutid. destruct (aget rid (m_mut m)) as [[c s]|]; cbn; exact H.
Qed.

Lemma hstep_fst C m hc o : fst (fst (hstep C m hc o)) = fst (pstep_v C m o).
Proof. now rewrite <- (hstep_mgr C m hc o). Qed.

(* two runs of the same requests from states with the same repos and counters *)
Lemma mcore_run C ops : forall m1 hc1 img1 m2 hc2 img2, mcore m1 = mcore m2 ->
  mcore (fst (fst (hrun_img C m1 hc1 img1 ops))) = mcore (fst (fst (hrun_img C m2 hc2 img2 ops))).
Proof.
  induction ops as [|o r IH]; intros m1 hc1 img1 m2 hc2 img2 H; [exact H|]. cbn [hrun_img].
  pose proof (mcore_step C m1 m2 o H) as H1. rewrite <- (hstep_fst C m1 hc1 o), <- (hstep_fst C m2 hc2 o) in H1.
  destruct (hstep C m1 hc1 o) as [[a1 b1] w1]. destruct (hstep C m2 hc2 o) as [[a2 b2] w2]. now apply IH.
Qed.

Lemma inst_ok_run C ops : forall m hc img, inst_ok C m -> inst_ok C (fst (fst (hrun_img C m hc img ops))).
Proof.
  induction ops as [|o r IH]; intros m hc img H; [exact H|]. cbn [hrun_img].
  pose proof (inst_ok_step C m o H) as H1. rewrite <- (hstep_fst C m hc o) in H1.
  destruct (hstep C m hc o) as [[a1 b1] w1]. now apply IH.
Qed.

Lemma hrun_img_app C a : forall b m hc img,
  hrun_img C m hc img (a ++ b) =
  let '(m1, hc1, img1) := hrun_img C m hc img a in hrun_img C m1 hc1 img1 b.
Proof.
  induction a as [|o r IH]; intros b m hc img; [cbn; now destruct (hrun_img C m hc img b) as [[? ?] ?]|].
  cbn [app hrun_img]. destruct (hstep C m hc o) as [[m1 hc1] ws]. apply IH.
Qed.

Lemma hgood_restart_core C m hc img : hgood m hc img -> inst_ok C m ->
  exists mr hcr imgr, hrestart C img = Ok (mr, hcr, imgr) /\ hgood mr hcr imgr /\ mcore mr = mcore m /\ inst_ok C mr.
Proof.
  intros Hg Hi. destruct (hgood_restart C m hc img Hg) as (mr & hcr & imgr & Hr & [Ho _] & Hg').
  exists mr, hcr, imgr. split; [exact Hr|]. split; [exact Hg'|].
  destruct Hg as [Hp Hs _]. destruct (pinv_pwf _ _ Hp) as [_ Hok]. apply pinv_iff in Hp. destruct Hp as [_ _ _ Hids _ _].
  unfold hrestart in Hr. destruct (recover C img) as [[mr0 wr0]| |] eqn:Er; try discriminate.
  apply Ok_inj in Hr. injection Hr as -> _ _.
  destruct (recover_core C img _ _ _ mr wr0 Hok Hids Hi Er) as (H1 & H2 & H3).
  unfold pobserve in Ho. split; [unfold mcore; now rewrite <- Ho, H1, H2, H3|]. unfold inst_ok. now rewrite H3.
Qed.

(* run h1; restart; run h2; restart; ... run hn  is observably  run (h1 ++ h2 ++ ... ++ hn) *)
Lemma segs_refine C segs : forall ma hca imga mb hcb imgb,
  hgood ma hca imga -> inst_ok C ma -> hgood mb hcb imgb -> mcore ma = mcore mb ->
  exists mf hcf imgf, hrun_segs C ma hca imga segs = Ok (mf, hcf, imgf) /\
    hgood mf hcf imgf /\ inst_ok C mf /\
    let '(m', hc', _) := hrun_img C mb hcb imgb (concat segs) in hobs_eq mf hcf m' hc'.
Proof.
  induction segs as [|ops rest IH]; intros ma hca imga mb hcb imgb Ga Ia Gb Hc.
  - exists ma, hca, imga. split; [reflexivity|]. split; [exact Ga|]. split; [exact Ia|]. cbn [concat hrun_img].
    destruct Ga as [_ _ Ha], Gb as [_ _ Hb]. apply heads_inv_obs; auto. unfold pobserve, mcore in *. congruence.
  - pose proof (hgood_run C ops ma hca imga Ga) as Ga1. pose proof (hgood_run C ops mb hcb imgb Gb) as Gb1.
    pose proof (mcore_run C ops ma hca imga mb hcb imgb Hc) as Hc1.
    pose proof (inst_ok_run C ops ma hca imga Ia) as Ia1.
    cbn [concat]. rewrite hrun_img_app.
    destruct (hrun_img C mb hcb imgb ops) as [[mb1 hcb1] imgb1].
    destruct rest as [|ops2 rest2].
    + cbn [hrun_segs concat]. destruct (hrun_img C ma hca imga ops) as [[ma1 hca1] imga1]. cbn [fst] in *.
      exists ma1, hca1, imga1. split; [reflexivity|]. split; [exact Ga1|]. split; [exact Ia1|].
      cbn [hrun_img]. destruct Ga1 as [_ _ Ha], Gb1 as [_ _ Hb]. apply heads_inv_obs; auto.
      unfold pobserve, mcore in *. congruence.
    + change (hrun_segs C ma hca imga (ops :: ops2 :: rest2)) with
        (let '(m1, hc1, img1) := hrun_img C ma hca imga ops in
         match hrestart C img1 with
         | Ok (mr, hcr, imgr) => hrun_segs C mr hcr imgr (ops2 :: rest2)
         | Err => Err
         | Panic => Panic
         end).
      destruct (hrun_img C ma hca imga ops) as [[ma1 hca1] imga1]. cbn [fst] in *.
      destruct (hgood_restart_core C ma1 hca1 imga1 Ga1 Ia1) as (mr & hcr & imgr & Hr & Gr & Hcr & Ir).
      rewrite Hr. apply IH; auto. congruence.
Qed.

Lemma segs_refine_from_init C segs :
  exists mf hcf imgf,
    hrun_segs C (init_mgr C) [] (apply_ws empty_image (init_writes C)) segs = Ok (mf, hcf, imgf) /\
    let '(m', hc', _) := hrun_img C (init_mgr C) [] (apply_ws empty_image (init_writes C)) (concat segs) in
    hobs_eq mf hcf m' hc'.
Proof.
  destruct (segs_refine C segs _ _ _ _ _ _ (hgood_init C)
              ltac:(unfold inst_ok, init_mgr; cbn [m_iid]; destruct (1 <? c_inst_start C) eqn:E; [lia|apply N.ltb_ge in E; lia])
              (hgood_init C) eq_refl) as (mf & hcf & imgf & H1 & _ & _ & H2).
  exists mf, hcf, imgf. auto.
Qed.

Lemma segs_refine_same C segs m hc img : hgood m hc img -> inst_ok C m ->
  exists mf hcf imgf, hrun_segs C m hc img segs = Ok (mf, hcf, imgf) /\
    hgood mf hcf imgf /\ inst_ok C mf /\
    let '(m', hc', _) := hrun_img C m hc img (concat segs) in hobs_eq mf hcf m' hc'.
Proof. intros G I. now apply segs_refine. Qed.

Lemma inst_ok_init C : inst_ok C (init_mgr C).
Proof. unfold inst_ok, init_mgr. cbn [m_iid]. destruct (1 <? c_inst_start C) eqn:E; [lia|apply N.ltb_ge in E; lia]. Qed.

(* three segments, two restarts, refused merges in between, evaluated *)
Lemma segs_example :
  let segs := [[PNewRepo 11; PCommit 1 1; PNewVersion 1 1 None 12; PNewVersion 1 1 (Some 7) 13; PMerge 1 [2; 3] 14];
               [PCommit 1 2; PMerge 1 [2; 2] 15; PCommit 1 3; PMerge 1 [3; 2] 17];
               [PNewVersion 1 2 (Some 8) 18; PNewData 1 5]] in
  match hrun_segs r_conf (init_mgr r_conf) [] (apply_ws empty_image (init_writes r_conf)) segs with
  | Ok (mf, hcf, _) =>
    let '(m', hc', _) := hrun_img r_conf (init_mgr r_conf) [] (apply_ws empty_image (init_writes r_conf)) (concat segs) in
    pobserve mf = pobserve m' /\ map (cached_head hcf 1) [0; 7; 8] = [Some 4; Some 3; Some 5] /\
    map (cached_head hc' 1) [0; 7; 8] = [Some 4; Some 3; Some 5]
  | _ => False
  end.
Proof. vm_compute. repeat split. Qed.
