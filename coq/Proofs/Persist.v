(* Proofs.Persist: every prefix of every operation's write list leaves a recoverable image whose
   repos are those before or those after the operation; recovery is idempotent under its own crashes. *)
From DV Require Import Base.Prelude Model.Persist.
From Coq Require Import ZifyN ZifyNat ZifyBool.
Local Open Scope N_scope.

(* ---- association lists ---- *)
Section AMapLemmas.
  Context {V : Type}.
  Implicit Types (m : list (N * V)).

  Lemma aget_aset_eq k v m : aget k (aset k v m) = Some v.
  Proof.
    induction m as [|[k' v'] r IH]; cbn [aset aget].
    - now rewrite N.eqb_refl.
    - destruct (k <? k') eqn:E1; cbn [aget]; [now rewrite N.eqb_refl|].
      destruct (k =? k') eqn:E2; cbn [aget]; [now rewrite N.eqb_refl|]. now rewrite E2.
  Qed.

  Lemma aget_aset_neq k k' v m : k <> k' -> aget k (aset k' v m) = aget k m.
  Proof.
    intro Hne. induction m as [|[k2 v2] r IH]; cbn [aset aget].
    - destruct (k =? k') eqn:E; [apply N.eqb_eq in E; contradiction|reflexivity].
    - destruct (k' <? k2) eqn:E1; cbn [aget].
      + destruct (k =? k') eqn:E; [apply N.eqb_eq in E; contradiction|reflexivity].
      + destruct (k' =? k2) eqn:E2; cbn [aget].
        * apply N.eqb_eq in E2; subst k2.
          destruct (k =? k') eqn:E; [apply N.eqb_eq in E; contradiction|reflexivity].
        * destruct (k =? k2); [reflexivity|exact IH].
  Qed.

  Lemma amem_aset k k' v m : amem k (aset k' v m) = (k =? k') || amem k m.
  Proof.
    unfold amem. destruct (k =? k') eqn:E.
    - apply N.eqb_eq in E; subst. now rewrite aget_aset_eq.
    - apply N.eqb_neq in E. now rewrite aget_aset_neq.
  Qed.

  Lemma In_aset x k v m : In x (aset k v m) -> x = (k, v) \/ In x m.
  Proof.
    induction m as [|[k' v'] r IH]; cbn [aset]; intro H.
    - destruct H as [H|[]]; auto.
    - destruct (k <? k'); [destruct H; auto|].
      destruct (k =? k').
      + destruct H as [H|H]; [auto|right; now right].
      + destruct H as [H|H]; [right; now left|]. destruct (IH H); [auto|right; now right].
  Qed.

  Lemma In_adel x k m : In x (adel k m) -> In x m /\ fst x <> k.
  Proof.
    induction m as [|[k' v'] r IH]; cbn [adel]; intro H; [destruct H|].
    destruct (k =? k') eqn:E.
    - destruct (IH H) as [H1 H2]. split; [now right|exact H2].
    - destruct H as [H|H].
      + subst x. split; [now left|]. cbn. apply N.eqb_neq in E. congruence.
      + destruct (IH H) as [H1 H2]. split; [now right|exact H2].
  Qed.

  Lemma In_amem k v m : In (k, v) m -> amem k m = true.
  Proof.
    unfold amem. induction m as [|[k' v'] r IH]; intro H; [destruct H|]. cbn [aget].
    destruct (k =? k') eqn:E; [reflexivity|].
    destruct H as [H|H]; [inversion H; subst; now rewrite N.eqb_refl in E|]. now apply IH.
  Qed.

  Lemma amem_In k m : amem k m = true -> exists v, In (k, v) m.
  Proof.
    unfold amem. induction m as [|[k' v'] r IH]; cbn [aget]; [discriminate|].
    destruct (k =? k') eqn:E.
    - apply N.eqb_eq in E; subst. intros _. exists v'. now left.
    - intro H. destruct (IH H) as [v Hv]. exists v. now right.
  Qed.

  Lemma aget_adel_neq k k' m : k <> k' -> aget k (adel k' m) = aget k m.
  Proof.
    intro Hne. induction m as [|[k2 v2] r IH]; cbn [adel aget]; [reflexivity|].
    destruct (k' =? k2) eqn:E.
    - apply N.eqb_eq in E; subst k2.
      destruct (k =? k') eqn:E2; [apply N.eqb_eq in E2; contradiction|exact IH].
    - cbn [aget]. destruct (k =? k2); [reflexivity|exact IH].
  Qed.

  Lemma amem_adel_neq k k' m : k <> k' -> amem k (adel k' m) = amem k m.
  Proof. intro H. unfold amem. now rewrite aget_adel_neq. Qed.

  Lemma forallb_aset (f : N * V -> bool) k v m :
    f (k, v) = true -> forallb f m = true -> forallb f (aset k v m) = true.
  Proof.
    intros Hf Hm. apply forallb_forall. intros x Hx.
    destruct (In_aset _ _ _ _ Hx) as [->|Hin]; [exact Hf|].
    rewrite forallb_forall in Hm. now apply Hm.
  Qed.

  Lemma forallb_adel (f : N * V -> bool) k m :
    forallb f m = true -> forallb f (adel k m) = true.
  Proof.
    intro Hm. apply forallb_forall. intros x Hx. apply In_adel in Hx as [Hx _].
    rewrite forallb_forall in Hm. now apply Hm.
  Qed.

  Lemma aget_filter_key (p : N -> bool) k m :
    aget k (filter (fun kv => p (fst kv)) m) = if p k then aget k m else None.
  Proof.
    induction m as [|[k' v'] r IH]; cbn [filter aget fst]; [now destruct (p k)|].
    destruct (p k') eqn:Ep; cbn [aget].
    - destruct (k =? k') eqn:E; [apply N.eqb_eq in E; subst; now rewrite Ep|exact IH].
    - destruct (k =? k') eqn:E; [apply N.eqb_eq in E; subst; rewrite IH; now rewrite Ep|exact IH].
  Qed.
End AMapLemmas.

Lemma firstn_In_sub {A} (l : list A) k x : In x (firstn k l) -> In x l.
Proof. revert k; induction l as [|a l IH]; intros k H; destruct k; cbn in *; try contradiction; destruct H; auto. right; eauto. Qed.

Lemma forallb_impl {A} (f g : A -> bool) l :
  (forall x, In x l -> f x = true -> g x = true) -> forallb f l = true -> forallb g l = true.
Proof.
  intros H Hf. apply forallb_forall. intros x Hx. rewrite forallb_forall in Hf. apply H; auto.
Qed.

Lemma all_lt_mono l a b : a <= b -> all_lt l a = true -> all_lt l b = true.
Proof.
  intros Hab. unfold all_lt. apply forallb_impl. intros x _ H. apply N.ltb_lt in H. apply N.ltb_lt. lia.
Qed.

Lemma repo_fresh_mono r v i r' v' i' ib :
  r <= r' -> v <= v' -> i <= i' -> repo_fresh r v i ib = true -> repo_fresh r' v' i' ib = true.
Proof.
  intros Hr Hv Hi. unfold repo_fresh. rewrite !andb_true_iff. intros [[H1 H2] H3].
  repeat split.
  - apply N.ltb_lt in H1. apply N.ltb_lt. lia.
  - eapply all_lt_mono; eauto.
  - eapply all_lt_mono; eauto.
Qed.

(* ---- images: one write at a time ---- *)
Lemma apply_ws_app img a b : apply_ws img (a ++ b) = apply_ws (apply_ws img a) b.
Proof. unfold apply_ws. apply fold_left_app. Qed.

Lemma apply_ws_cons img w ws : apply_ws img (w :: ws) = apply_ws (apply_w img w) ws.
Proof. reflexivity. Qed.

Lemma img_ok_apply img w : img_ok img = true -> wsafe img w = true -> img_ok (apply_w img w) = true.
Proof.
  unfold img_ok, wsafe. destruct (i_ids img) as [[[rid vid] iid]|] eqn:Eids; [|discriminate].
  intros Hok Hw. rewrite !andb_true_iff in Hok. destruct Hok as [[Hrepos Hr2u] Hfmt].
  destruct w; cbn [apply_w i_ids i_r2u i_repos i_fmt]; rewrite ?Eids.
  - (* WR2U *)
    rewrite andb_true_iff in Hw. destruct Hw as [Hcov Hlt].
    rewrite !andb_true_iff. repeat split; auto.
    rewrite forallb_forall in *. intros ib Hib. specialize (Hrepos ib Hib). specialize (Hcov ib Hib).
    rewrite andb_true_iff in *. tauto.
  - (* WV2U *) rewrite !andb_true_iff. auto.
  - (* WIDs *)
    rewrite !andb_true_iff in Hw. destruct Hw as [[H1 H2] H3].
    apply N.leb_le in H1, H2, H3.
    rewrite !andb_true_iff. repeat split; auto.
    + revert Hrepos. apply forallb_impl. intros ib _. rewrite !andb_true_iff. intros [Ha Hb]. split; auto.
      eapply repo_fresh_mono; eauto.
    + eapply all_lt_mono; eauto.
  - (* WRepo *)
    rewrite andb_true_iff in Hw. destruct Hw as [Hin Hfr].
    rewrite !andb_true_iff. repeat split; auto.
    apply forallb_aset; [cbn [fst]; now rewrite Hin, Hfr | exact Hrepos].
  - (* WDelRepo *)
    rewrite !andb_true_iff. repeat split; auto. now apply forallb_adel.
  - (* WMut *) rewrite !andb_true_iff. auto.
  - (* WFmt *) rewrite !andb_true_iff. auto.
Qed.

Lemma all_safe_app img a b : all_safe img (a ++ b) = all_safe img a && all_safe (apply_ws img a) b.
Proof.
  revert img; induction a as [|w a IH]; intro img; cbn [app all_safe]; [reflexivity|].
  rewrite IH, apply_ws_cons. now rewrite andb_assoc.
Qed.

Lemma all_safe_prefix img ws : img_ok img = true -> all_safe img ws = true ->
  forall k, img_ok (apply_ws img (firstn k ws)) = true /\ all_safe img (firstn k ws) = true.
Proof.
  revert img; induction ws as [|w ws IH]; intros img Hok Hs k.
  - destruct k; cbn; auto.
  - cbn [all_safe] in Hs. apply andb_true_iff in Hs as [Hw Hs].
    destruct k as [|k]; [cbn; auto|]. cbn [firstn]. rewrite apply_ws_cons. cbn [all_safe]. rewrite Hw.
    apply IH; auto. now apply img_ok_apply.
Qed.

(* ---- at most one blob write: the repos of a prefix image are the old or the new ones ---- *)
Lemma repos_nonblob img w : is_blob_write w = false -> i_repos (apply_w img w) = i_repos img.
Proof. destruct w; cbn; congruence. Qed.

Lemma repos_nonblobs ws : forall img, blob_writes ws = 0%nat -> i_repos (apply_ws img ws) = i_repos img.
Proof.
  induction ws as [|w ws IH]; intros img H; [reflexivity|].
  unfold blob_writes in H. cbn [filter] in H. destruct (is_blob_write w) eqn:E; [discriminate|].
  rewrite apply_ws_cons, IH by exact H. now apply repos_nonblob.
Qed.

Lemma blob_writes_firstn ws k : (blob_writes (firstn k ws) <= blob_writes ws)%nat.
Proof.
  revert k; induction ws as [|w ws IH]; intro k; destruct k; cbn; try lia.
  unfold blob_writes in *. cbn [filter]. specialize (IH k). destruct (is_blob_write w); cbn [length]; lia.
Qed.

Lemma repos_prefix ws : forall img k, (blob_writes ws <= 1)%nat ->
  i_repos (apply_ws img (firstn k ws)) = i_repos img \/
  i_repos (apply_ws img (firstn k ws)) = i_repos (apply_ws img ws).
Proof.
  induction ws as [|w ws IH]; intros img k H.
  - destruct k; now left.
  - destruct k as [|k]; [now left|]. cbn [firstn]. rewrite !apply_ws_cons.
    unfold blob_writes in H. cbn [filter] in H. destruct (is_blob_write w) eqn:E.
    + (* the blob write is this one: the rest leaves the repos alone *)
      cbn [length] in H. right.
      assert (Hz : blob_writes ws = 0%nat) by (unfold blob_writes; lia).
      rewrite (repos_nonblobs ws _ Hz).
      apply repos_nonblobs. pose proof (blob_writes_firstn ws k). lia.
    + destruct (IH (apply_w img w) k H) as [H1|H1]; [left|right]; rewrite H1; auto.
      now apply repos_nonblob.
Qed.

(* ---- writes that touch neither ids, repos, r2u nor format ---- *)
Definition neutral (w : pwrite) : bool :=
  match w with WMut _ _ | WV2U _ => true | _ => false end.

Lemma neutral_fields ws : forall img, forallb neutral ws = true ->
  i_ids (apply_ws img ws) = i_ids img /\ i_repos (apply_ws img ws) = i_repos img /\
  i_r2u (apply_ws img ws) = i_r2u img /\ i_fmt (apply_ws img ws) = i_fmt img.
Proof.
  induction ws as [|w ws IH]; intros img H; [cbn; auto|].
  cbn [forallb] in H. apply andb_true_iff in H as [Hw H].
  rewrite apply_ws_cons. destruct (IH (apply_w img w) H) as (A & B & Cc & D).
  rewrite A, B, Cc, D. destruct w; try discriminate; cbn; auto.
Qed.

Lemma neutral_safe ws : forall img, i_ids img <> None -> forallb neutral ws = true -> all_safe img ws = true.
Proof.
  induction ws as [|w ws IH]; intros img Hid H; [reflexivity|].
  cbn [forallb] in H. apply andb_true_iff in H as [Hw H]. cbn [all_safe].
  rewrite IH; auto.
  - rewrite andb_true_r. unfold wsafe. destruct (i_ids img) as [[[? ?] ?]|]; [|congruence].
    destruct w; try discriminate; reflexivity.
  - destruct w; try discriminate; cbn; auto.
Qed.

Lemma neutral_blob ws : forallb neutral ws = true -> blob_writes ws = 0%nat.
Proof.
  induction ws as [|w ws IH]; intro H; [reflexivity|].
  cbn [forallb] in H. apply andb_true_iff in H as [Hw H]. unfold blob_writes in *. cbn [filter].
  destruct w; try discriminate; cbn; auto.
Qed.

Lemma blob_writes_app a b : blob_writes (a ++ b) = (blob_writes a + blob_writes b)%nat.
Proof. unfold blob_writes. now rewrite filter_app, app_length. Qed.

Lemma mut_writes_neutral {A} (f : A -> N) (g : A -> N) l :
  forallb neutral (map (fun x => WMut (f x) (g x)) l) = true.
Proof. induction l; cbn; auto. Qed.

(* every blob id of a recoverable image survives the "empty repo id" sweep *)
Lemma blob_ids_kept (repos : list (N * prepo)) (r2u : list (N * N)) :
  forallb (fun ib => amem (fst ib) r2u) repos = true ->
  forallb (fun ib => amem (fst ib) (filter (fun iu => amem (fst iu) repos) r2u)) repos = true.
Proof.
  intro H. apply forallb_forall. intros [id b] Hin. rewrite forallb_forall in H. specialize (H _ Hin).
  cbn [fst] in *. unfold amem at 1.
  rewrite (aget_filter_key (fun k => amem k repos)). rewrite (In_amem _ _ _ Hin). exact H.
Qed.

Lemma all_lt_filter {V} (p : N * V -> bool) (m : list (N * V)) b :
  all_lt (akeys m) b = true -> all_lt (akeys (filter p m)) b = true.
Proof.
  unfold all_lt, akeys. rewrite !forallb_forall. intros H x Hx.
  apply in_map_iff in Hx as [kv [<- Hkv]]. apply filter_In in Hkv as [Hkv _].
  apply H. apply in_map_iff. eauto.
Qed.

Lemma max_key_ge_acc {V} (m : list (N * V)) : forall a, a <= fold_left (fun a kv => N.max a (fst kv)) m a.
Proof. induction m as [|x m IH]; intro a; cbn [fold_left]; [lia|]. specialize (IH (N.max a (fst x))). lia. Qed.

Lemma vid_le vid mx : vid <= (if vid <? mx then mx + 1 else vid).
Proof. destruct (vid <? mx) eqn:E; [apply N.ltb_lt in E|]; lia. Qed.
Lemma iid_le iid s : iid <= (if iid <? s then s else iid).
Proof. destruct (iid <? s) eqn:E; [apply N.ltb_lt in E|]; lia. Qed.

(* ---- recovery of a recoverable image ---- *)
Lemma recover_ok C img : img_ok img = true ->
  exists m wr, recover C img = Ok (m, wr) /\ m_repos m = i_repos img /\ pwf m = true /\
               all_safe img wr = true /\ blob_writes wr = 0%nat /\ pinv m (apply_ws img wr) = true.
Proof.
  intro Hok. pose proof Hok as Hok0.
  unfold img_ok in Hok. destruct (i_ids img) as [[[rid vid] iid]|] eqn:Eids; [|discriminate].
  rewrite !andb_true_iff in Hok. destruct Hok as [[Hrepos Hr2u] Hfmt].
  unfold recover.
  assert (Hnm : no_metadata img = false).
  { unfold no_metadata. rewrite Eids. destruct (i_r2u img), (i_v2u img); reflexivity. }
  rewrite Hnm, Eids.
  set (fmt := match i_fmt img with Some f => f | None => 0 end).
  assert (Hf : (1 <? fmt) = false).
  { unfold fmt. destruct (i_fmt img); [apply N.leb_le in Hfmt; apply N.ltb_ge; lia|reflexivity]. }
  rewrite Hf.
  set (r2u := match i_r2u img with Some m => m | None => [] end) in *.
  set (v2u := match i_v2u img with Some m => m | None => [] end).
  assert (Hcov : forallb (fun ib => amem (fst ib) r2u) (i_repos img) = true).
  { revert Hrepos. apply forallb_impl. intros ib _ H. apply andb_true_iff in H. tauto. }
  rewrite Hcov. cbn [negb].
  set (v2u1 := repair_v2u (i_repos img) v2u).
  set (r2u' := filter (fun iu => amem (fst iu) (i_repos img)) r2u).
  set (v2u' := filter (fun vu => version_live (i_repos img) (fst vu)) v2u1).
  set (sc := negb (Nat.eqb (length r2u') (length r2u)) || negb (Nat.eqb (length v2u1) (length v2u))
             || negb (Nat.eqb (length v2u') (length v2u1))).
  set (w1 := if sc then [WR2U r2u'; WV2U v2u'] else []).
  set (w2 := if fmt =? 1 then [] else [WFmt 1]).
  set (muts := map _ r2u').
  set (w3 := map (fun x : N * (N * N) => WMut (fst x) (snd (snd x))) muts).
  set (iid' := if iid <? c_inst_start C then c_inst_start C else iid).
  set (mx := max_key v2u').
  set (vid' := if vid <? mx then mx + 1 else vid).
  set (si := (iid <? c_inst_start C) || (vid <? mx)).
  set (w4 := if si then [WIDs rid vid' iid'] else []).
  eexists. eexists. split; [reflexivity|].
  assert (Hvid : vid <= vid') by (unfold vid'; apply vid_le).
  assert (Hiid : iid <= iid') by (unfold iid'; apply iid_le).
  assert (Hkept : forallb (fun ib => amem (fst ib) r2u') (i_repos img) = true) by (apply blob_ids_kept; exact Hcov).
  assert (Hlt' : all_lt (akeys r2u') rid = true) by (apply all_lt_filter; exact Hr2u).
  (* pwf of the loaded manager *)
  assert (Hpwf : forallb (fun ib => amem (fst ib) r2u' && repo_fresh rid vid' iid' ib) (i_repos img) = true).
  { apply forallb_forall. intros ib Hib. rewrite forallb_forall in Hkept, Hrepos.
    rewrite (Hkept _ Hib). specialize (Hrepos _ Hib). apply andb_true_iff in Hrepos as [_ Hfr].
    cbn [andb]. eapply repo_fresh_mono; [apply N.le_refl|exact Hvid|exact Hiid|exact Hfr]. }
  cbn [m_repos]. split; [reflexivity|].
  split. { unfold pwf. cbn [m_repos m_r2u m_rid m_vid m_iid]. now rewrite Hpwf, Hlt'. }
  (* the four chunks of recovery's own writes *)
  assert (S1 : all_safe img w1 = true /\ i_ids (apply_ws img w1) = i_ids img /\
               i_repos (apply_ws img w1) = i_repos img /\ i_fmt (apply_ws img w1) = i_fmt img /\
               r2u_of (apply_ws img w1) = (if sc then r2u' else r2u) /\ blob_writes w1 = 0%nat).
  { unfold w1. destruct sc; [|cbn; unfold r2u_of; auto 10].
    cbn [all_safe apply_ws fold_left apply_w i_ids i_repos i_fmt i_r2u].
    unfold wsafe. cbn [i_ids i_repos i_r2u]. rewrite Eids.
    unfold r2u_of. cbn [i_r2u]. rewrite Hkept, Hlt'. cbn. auto 10. }
  destruct S1 as (S1a & S1b & S1c & S1d & S1e & S1f).
  set (img1 := apply_ws img w1) in *.
  assert (S2 : all_safe img1 w2 = true /\ i_ids (apply_ws img1 w2) = i_ids img /\
               i_repos (apply_ws img1 w2) = i_repos img /\ i_r2u (apply_ws img1 w2) = i_r2u img1 /\
               (match i_fmt (apply_ws img1 w2) with Some f => f <=? 1 | None => true end) = true /\
               blob_writes w2 = 0%nat).
  { unfold w2. destruct (fmt =? 1).
    - cbn. rewrite S1d. auto 10.
    - cbn [all_safe apply_ws fold_left apply_w i_ids i_repos i_fmt i_r2u].
      unfold wsafe. rewrite S1b, Eids. cbn. auto 10. }
  destruct S2 as (S2a & S2b & S2c & S2d & S2e & S2f).
  set (img2 := apply_ws img1 w2) in *.
  assert (N3 : forallb neutral w3 = true) by apply mut_writes_neutral.
  destruct (neutral_fields w3 img2 N3) as (S3b & S3c & S3d & S3e).
  assert (S3a : all_safe img2 w3 = true) by (apply neutral_safe; [rewrite S2b, Eids; discriminate|exact N3]).
  set (img3 := apply_ws img2 w3) in *.
  assert (S4 : all_safe img3 w4 = true /\ i_ids (apply_ws img3 w4) = Some (rid, vid', iid') /\
               i_repos (apply_ws img3 w4) = i_repos img /\ i_r2u (apply_ws img3 w4) = i_r2u img3 /\
               i_fmt (apply_ws img3 w4) = i_fmt img3 /\ blob_writes w4 = 0%nat).
  { unfold w4. destruct si eqn:Esi.
    - cbn [all_safe apply_ws fold_left apply_w i_ids i_repos i_fmt i_r2u].
      unfold wsafe. rewrite S3b, S2b, Eids.
      rewrite S3c, S2c.
      rewrite N.leb_refl, (proj2 (N.leb_le _ _) Hvid), (proj2 (N.leb_le _ _) Hiid). cbn. auto 10.
    - cbn. rewrite S3b, S2b, Eids, S3c, S2c.
      unfold si in Esi. apply orb_false_iff in Esi as [E1 E2]. unfold vid', iid'. rewrite E1, E2. auto 10. }
  destruct S4 as (S4a & S4b & S4c & S4d & S4e & S4f).
  assert (Hsafe : all_safe img (w1 ++ w2 ++ w3 ++ w4) = true).
  { rewrite !all_safe_app. fold img1. rewrite S1a. fold img2. rewrite S2a. fold img3. now rewrite S3a, S4a. }
  split; [exact Hsafe|].
  split. { rewrite !blob_writes_app. rewrite S1f, S2f, S4f. now rewrite (neutral_blob w3 N3). }
  (* the invariant with the image recovery leaves behind *)
  assert (Himg : apply_ws img (w1 ++ w2 ++ w3 ++ w4) = apply_ws img3 w4).
  { rewrite !apply_ws_app. reflexivity. }
  rewrite Himg.
  assert (Hok' : img_ok (apply_ws img3 w4) = true).
  { rewrite <- Himg. destruct (all_safe_prefix img _ Hok0 Hsafe (length (w1 ++ w2 ++ w3 ++ w4))) as [H _].
    now rewrite firstn_all in H. }
  unfold pinv. rewrite Hok'. unfold pwf. cbn [m_repos m_r2u m_rid m_vid m_iid]. rewrite Hpwf, Hlt'.
  rewrite S4b, !N.eqb_refl, S4c, Hkept. cbn [andb].
  (* every loaded repo is registered in the r2u the image now holds *)
  unfold r2u_of. rewrite S4d, S3d, S2d. fold (r2u_of img1). rewrite S1e.
  destruct sc; [exact Hkept|exact Hcov].
Qed.

(* recovery killed after any number of its own writes, then run again: same repos, well formed *)
Lemma recover_idempotent C img mr wr : img_ok img = true -> recover C img = Ok (mr, wr) ->
  forall j, exists m2 w2, recover C (apply_ws img (firstn j wr)) = Ok (m2, w2) /\
                          pobserve m2 = pobserve mr /\ pwf m2 = true /\
                          img_ok (apply_ws img (firstn j wr)) = true.
Proof.
  intros Hok Hrec j.
  destruct (recover_ok C img Hok) as (m & w & Hr & Hrep & Hwf & Hsafe & Hblob & _).
  rewrite Hrec in Hr. apply Ok_inj in Hr. inversion Hr; subst m w; clear Hr.
  destruct (all_safe_prefix img wr Hok Hsafe j) as [Hokj _].
  destruct (recover_ok C _ Hokj) as (m2 & w2 & Hr2 & Hrep2 & Hwf2 & _).
  exists m2, w2. repeat split; auto.
  unfold pobserve. rewrite Hrep2, Hrep. apply repos_nonblobs.
  pose proof (blob_writes_firstn wr j). lia.
Qed.

(* ---- unpacking the invariant ---- *)
Lemma aget_In {V} k (v : V) m : aget k m = Some v -> In (k, v) m.
Proof.
  induction m as [|[k' v'] r IH]; cbn [aget]; [discriminate|].
  destruct (k =? k') eqn:E; intro H.
  - apply N.eqb_eq in E; subst. inversion H; subst. now left.
  - right. now apply IH.
Qed.

Lemma all_lt_akeys_aset {V} k (v : V) m b :
  k < b -> all_lt (akeys m) b = true -> all_lt (akeys (aset k v m)) b = true.
Proof.
  intros Hk H. unfold all_lt, akeys in *. rewrite forallb_forall in *. intros x Hx.
  apply in_map_iff in Hx as [[k' v'] [<- Hin]]. destruct (In_aset _ _ _ _ Hin) as [E|Hin'].
  - inversion E; subst. cbn. now apply N.ltb_lt.
  - apply H. apply in_map_iff. exists (k', v'). auto.
Qed.

Lemma all_lt_akeys_adel {V} k (m : list (N * V)) b :
  all_lt (akeys m) b = true -> all_lt (akeys (adel k m)) b = true.
Proof.
  intro H. unfold all_lt, akeys in *. rewrite forallb_forall in *. intros x Hx.
  apply in_map_iff in Hx as [kv [<- Hin]]. apply In_adel in Hin as [Hin _].
  apply H. apply in_map_iff. eauto.
Qed.

Lemma all_lt_vals_aset k v (m : list (N * N)) b :
  v < b -> all_lt (map snd m) b = true -> all_lt (map snd (aset k v m)) b = true.
Proof.
  intros Hv H. unfold all_lt in *. rewrite forallb_forall in *. intros x Hx.
  apply in_map_iff in Hx as [[k' v'] [<- Hin]]. destruct (In_aset _ _ _ _ Hin) as [E|Hin'].
  - inversion E; subst. cbn. now apply N.ltb_lt.
  - apply H. apply in_map_iff. exists (k', v'). auto.
Qed.

Lemma all_lt_vals_adel k (m : list (N * N)) b :
  all_lt (map snd m) b = true -> all_lt (map snd (adel k m)) b = true.
Proof.
  intro H. unfold all_lt in *. rewrite forallb_forall in *. intros x Hx.
  apply in_map_iff in Hx as [kv [<- Hin]]. apply In_adel in Hin as [Hin _].
  apply H. apply in_map_iff. eauto.
Qed.

Lemma all_lt_key_lt {V} k (v : V) m b : all_lt (akeys m) b = true -> aget k m = Some v -> k < b.
Proof.
  intros H Hg. apply aget_In in Hg. unfold all_lt, akeys in H. rewrite forallb_forall in H.
  apply N.ltb_lt. apply H. apply in_map_iff. exists (k, v). auto.
Qed.

Record pinv_facts (m : pmgr) (img : image) : Prop := {
  pf_repos : forallb (fun ib => amem (fst ib) (m_r2u m) && repo_fresh (m_rid m) (m_vid m) (m_iid m) ib) (m_repos m) = true;
  pf_lt : all_lt (akeys (m_r2u m)) (m_rid m) = true;
  pf_ok : img_ok img = true;
  pf_ids : i_ids img = Some (m_rid m, m_vid m, m_iid m);
  pf_blob : forallb (fun ib => amem (fst ib) (m_r2u m)) (i_repos img) = true;
  pf_reg : forallb (fun ib => amem (fst ib) (r2u_of img)) (m_repos m) = true
}.

Lemma pinv_iff m img : pinv m img = true <-> pinv_facts m img.
Proof.
  unfold pinv, pwf. split.
  - rewrite !andb_true_iff. intros [[[[[H1 H2] H3] H4] H5] H6].
    destruct (i_ids img) as [[[r v] i]|] eqn:E; [|discriminate].
    rewrite !andb_true_iff in H4. destruct H4 as [[Ha Hb] Hc].
    apply N.eqb_eq in Ha, Hb, Hc. subst. constructor; auto.
  - intros [H1 H2 H3 H4 H5 H6]. rewrite H1, H2, H3, H4, H5, H6, !N.eqb_refl. reflexivity.
Qed.

Lemma repo_of_facts m img rid r : pinv_facts m img -> aget rid (m_repos m) = Some r ->
  amem rid (m_r2u m) = true /\ amem rid (r2u_of img) = true /\
  repo_fresh (m_rid m) (m_vid m) (m_iid m) (rid, r) = true.
Proof.
  intros [H1 _ _ _ _ H6] Hg. apply aget_In in Hg.
  rewrite forallb_forall in H1, H6. specialize (H1 _ Hg). specialize (H6 _ Hg).
  apply andb_true_iff in H1. cbn [fst] in *. tauto.
Qed.

(* saving the repo that is in memory is always a safe write and keeps the invariant *)
Lemma wrepo_inv m img rid r : pinv_facts m img -> aget rid (m_repos m) = Some r ->
  wsafe img (WRepo rid r) = true /\ pinv_facts m (apply_w img (WRepo rid r)).
Proof.
  intros F Hg. destruct (repo_of_facts _ _ _ _ F Hg) as (Ha & Hb & Hc). destruct F as [H1 H2 H3 H4 H5 H6].
  assert (Hw : wsafe img (WRepo rid r) = true).
  { unfold wsafe. rewrite H4. fold (r2u_of img). now rewrite Hb, Hc. }
  split; [exact Hw|]. constructor; auto.
  - now apply img_ok_apply.
  - cbn [apply_w i_repos]. apply forallb_aset; auto.
Qed.

(* replacing a repo in memory by one that is as fresh keeps the invariant (no write) *)
Lemma upd_inv m img rid r r' : pinv_facts m img -> aget rid (m_repos m) = Some r ->
  repo_fresh (m_rid m) (m_vid m) (m_iid m) (rid, r') = true ->
  pinv_facts (upd_repo m rid r') img.
Proof.
  intros F Hg Hfr. destruct (repo_of_facts _ _ _ _ F Hg) as (Ha & Hb & Hc). destruct F as [H1 H2 H3 H4 H5 H6].
  constructor; cbn [upd_repo m_repos m_r2u m_rid m_vid m_iid]; auto.
  - apply forallb_aset; auto. cbn [fst]. now rewrite Ha, Hfr.
  - apply forallb_aset; auto.
Qed.

Lemma upd_get m rid r' : aget rid (m_repos (upd_repo m rid r')) = Some r'.
Proof. cbn. apply aget_aset_eq. Qed.

(* set_head does not touch anything the invariant reads *)
Lemma set_head_inv m img id br v : pinv_facts m img -> pinv_facts (set_head m id br v) img.
Proof. intros [H1 H2 H3 H4 H5 H6]. constructor; cbn; auto. Qed.

(* newUUID: three safe writes, invariant kept, the version issued is the old counter *)
Lemma new_uuid_inv m img u : pinv_facts m img ->
  let '(m1, v, w1) := new_uuid m u in
  all_safe img w1 = true /\ blob_writes w1 = 0%nat /\ pinv_facts m1 (apply_ws img w1) /\
  v = m_vid m /\ m_vid m1 = m_vid m + 1 /\ m_rid m1 = m_rid m /\ m_iid m1 = m_iid m /\
  m_repos m1 = m_repos m /\ m_r2u m1 = m_r2u m /\ m_mut m1 = m_mut m /\ m_heads m1 = m_heads m.
Proof.
  intros [H1 H2 H3 H4 H5 H6]. unfold new_uuid.
  cbn [all_safe apply_ws fold_left apply_w]. unfold wsafe. cbn [i_ids i_repos i_r2u]. rewrite H4.
  rewrite H5, H2. rewrite !N.leb_refl. replace (m_vid m <=? m_vid m + 1) with true by (symmetry; apply N.leb_le; lia).
  cbn [andb]. repeat split; auto.
  - cbn [m_repos m_r2u m_rid m_vid m_iid]. revert H1. apply forallb_impl. intros ib _.
    rewrite !andb_true_iff. intros [A B]. split; auto. eapply repo_fresh_mono; try exact B; lia.
  - (* img_ok after the three writes *)
    assert (Hs : all_safe img [WR2U (m_r2u m); WV2U (aset (m_vid m) u (m_v2u m)); WIDs (m_rid m) (m_vid m + 1) (m_iid m)] = true).
    { cbn [all_safe apply_w]. unfold wsafe. cbn [i_ids i_repos i_r2u]. rewrite H4, H5, H2, !N.leb_refl.
      replace (m_vid m <=? m_vid m + 1) with true by (symmetry; apply N.leb_le; lia). reflexivity. }
    destruct (all_safe_prefix img _ H3 Hs 3) as [Hok _]. exact Hok.
  - cbn [m_repos]. unfold r2u_of. cbn [i_r2u]. revert H1. apply forallb_impl. intros ib _.
    rewrite andb_true_iff. tauto.
Qed.

Lemma fresh_parts rid vid iid id r : repo_fresh rid vid iid (id, r) = true <->
  id < rid /\ all_lt (repo_versions r) vid = true /\ all_lt (repo_iids r) iid = true.
Proof.
  unfold repo_fresh. cbn [fst snd]. rewrite !andb_true_iff, N.ltb_lt. tauto.
Qed.

Lemma fresh_set_nodes rid vid iid id r ns : repo_fresh rid vid iid (id, r) = true ->
  all_lt (akeys ns) vid = true -> repo_fresh rid vid iid (id, set_nodes r ns) = true.
Proof. rewrite !fresh_parts. unfold repo_versions, repo_iids. cbn. tauto. Qed.

Lemma fresh_set_data rid vid iid id r d : repo_fresh rid vid iid (id, r) = true ->
  all_lt (map snd d) iid = true -> repo_fresh rid vid iid (id, set_data r d) = true.
Proof. rewrite !fresh_parts. unfold repo_versions, repo_iids. cbn. tauto. Qed.

Lemma link_parents_lt ps : forall ns cv b, all_lt (akeys ns) b = true ->
  all_lt (akeys (fst (link_parents ns cv ps))) b = true.
Proof.
  induction ps as [|p ps IH]; intros ns cv b H; cbn [link_parents fst]; [exact H|].
  destruct (aget p ns) as [pn|] eqn:Ep; [|exact H].
  destruct (negb (pn_locked pn)); [exact H|].
  apply IH.
  assert (Hp : p < b) by (eapply all_lt_key_lt; eauto).
  assert (H1 : all_lt (akeys (aset p (add_child pn cv) ns)) b = true) by (apply all_lt_akeys_aset; auto).
  destruct (aget cv (aset p (add_child pn cv) ns)) as [cn|] eqn:Ec; [|exact H1].
  apply all_lt_akeys_aset; auto. eapply all_lt_key_lt; eauto.
Qed.

Ltac use_new_uuid F m img u m1 cv w1 :=
  let En := fresh "En" in
  destruct (new_uuid m u) as [[m1 cv] w1] eqn:En;
  let H := fresh "Hnu" in
  pose proof (new_uuid_inv m img u F) as H; rewrite En in H;
  destruct H as (Hs1 & Hb1 & F1 & Hcv & Hvid1 & Hrid1 & Hiid1 & Hrep1 & Hr2u1 & Hmut1 & Hheads1).

Lemma firstn_full {A} (l : list A) : firstn (length l) l = l.
Proof. apply firstn_all. Qed.

Lemma step_new_version m img rid parent branch u : pinv_facts m img ->
  let '(m', ws) := op_new_version m rid parent branch u in
  all_safe img ws = true /\ (blob_writes ws <= 1)%nat /\ pinv_facts m' (apply_ws img ws).
Proof.
  intro F. unfold op_new_version.
  destruct (aget rid (m_repos m)) as [r|] eqn:Er; [|cbn; auto].
  destruct (aget parent (pr_nodes r)) as [pn|] eqn:Ep; [|cbn; auto].
  destruct (negb (pn_locked pn)); [cbn; auto|].
  match goal with |- context [if ?c then (m, []) else _] => destruct c end; [cbn; auto|].
  use_new_uuid F m img u m1 cv w1.
  match goal with |- context [set_nodes r ?x] => set (ns := x) end.
  assert (Er1 : aget rid (m_repos m1) = Some r) by now rewrite Hrep1.
  destruct (repo_of_facts _ _ _ _ F1 Er1) as (_ & _ & Hfr).
  assert (Hfr' : repo_fresh (m_rid m1) (m_vid m1) (m_iid m1) (rid, set_nodes r ns) = true).
  { apply fresh_set_nodes; [exact Hfr|]. apply fresh_parts in Hfr as (_ & Hv & _).
    unfold ns. apply all_lt_akeys_aset; [lia|]. apply all_lt_akeys_aset; [|exact Hv].
    eapply all_lt_key_lt; eauto. }
  pose proof (upd_inv _ _ _ _ _ F1 Er1 Hfr') as F2.
  destruct (wrepo_inv _ _ _ _ F2 (upd_get m1 rid _)) as [Hw F3].
  rewrite all_safe_app, Hs1. cbn [all_safe andb]. rewrite Hw.
  rewrite blob_writes_app, Hb1. split; [reflexivity|]. split; [cbn; lia|].
  rewrite apply_ws_app. apply set_head_inv. exact F3.
Qed.

Lemma step_merge m img rid parents u : pinv_facts m img ->
  let '(m', ws) := op_merge m rid parents u in
  all_safe img ws = true /\ (blob_writes ws <= 1)%nat /\ pinv_facts m' (apply_ws img ws).
Proof.
  intro F. unfold op_merge.
  destruct parents as [|p0 [|p1 ps]]; [cbn; auto|cbn; auto|].
  destruct (aget rid (m_repos m)) as [r|] eqn:Er; [|cbn; auto].
  use_new_uuid F m img u m1 cv w1.
  destruct (link_parents _ cv (p0 :: p1 :: ps)) as [ns ok] eqn:El.
  assert (Er1 : aget rid (m_repos m1) = Some r) by now rewrite Hrep1.
  destruct (repo_of_facts _ _ _ _ F1 Er1) as (_ & _ & Hfr).
  assert (Hfr' : repo_fresh (m_rid m1) (m_vid m1) (m_iid m1) (rid, set_nodes r ns) = true).
  { apply fresh_set_nodes; [exact Hfr|]. apply fresh_parts in Hfr as (_ & Hv & _).
    replace ns with (fst (link_parents (aset cv (mk_node u [] 0) (pr_nodes r)) cv (p0 :: p1 :: ps))) by now rewrite El.
    apply link_parents_lt. apply all_lt_akeys_aset; [lia|exact Hv]. }
  pose proof (upd_inv _ _ _ _ _ F1 Er1 Hfr') as F2.
  destruct ok.
  - destruct (wrepo_inv _ _ _ _ F2 (upd_get m1 rid _)) as [Hw F3].
    rewrite all_safe_app, Hs1. cbn [all_safe andb]. rewrite Hw.
    rewrite blob_writes_app, Hb1. split; [reflexivity|]. split; [cbn; lia|].
    rewrite apply_ws_app. exact F3.
  - rewrite Hs1, Hb1. split; [reflexivity|]. split; [lia|exact F2].
Qed.

Lemma step_commit m img rid v : pinv_facts m img ->
  let '(m', ws) := op_commit m rid v in
  all_safe img ws = true /\ (blob_writes ws <= 1)%nat /\ pinv_facts m' (apply_ws img ws).
Proof.
  intro F. unfold op_commit.
  destruct (aget rid (m_repos m)) as [r|] eqn:Er; [|cbn; auto].
  destruct (aget v (pr_nodes r)) as [n|] eqn:En; [|cbn; auto].
  destruct (pn_locked n); [cbn; auto|].
  destruct (repo_of_facts _ _ _ _ F Er) as (_ & _ & Hfr).
  assert (Hfr' : repo_fresh (m_rid m) (m_vid m) (m_iid m) (rid, set_nodes r (aset v (lock_node n) (pr_nodes r))) = true).
  { apply fresh_set_nodes; [exact Hfr|]. apply fresh_parts in Hfr as (_ & Hv & _).
    apply all_lt_akeys_aset; [|exact Hv]. eapply all_lt_key_lt; eauto. }
  pose proof (upd_inv _ _ _ _ _ F Er Hfr') as F2.
  destruct (wrepo_inv _ _ _ _ F2 (upd_get m rid _)) as [Hw F3].
  cbn [all_safe]. rewrite Hw. split; [reflexivity|]. split; [cbn; lia|exact F3].
Qed.

(* a counter write that only raises counters *)
Lemma wids_inv m img r v i : pinv_facts m img -> m_rid m <= r -> m_vid m <= v -> m_iid m <= i ->
  wsafe img (WIDs r v i) = true /\
  pinv_facts {| m_r2u := m_r2u m; m_v2u := m_v2u m; m_rid := r; m_vid := v; m_iid := i;
                m_repos := m_repos m; m_mut := m_mut m; m_heads := m_heads m |} (apply_w img (WIDs r v i)).
Proof.
  intros [H1 H2 H3 H4 H5 H6] Hr Hv Hi.
  assert (Hw : wsafe img (WIDs r v i) = true).
  { unfold wsafe. rewrite H4. rewrite !andb_true_iff, !N.leb_le. auto. }
  split; [exact Hw|]. constructor; cbn [m_repos m_r2u m_rid m_vid m_iid]; auto.
  - revert H1. apply forallb_impl. intros ib _. rewrite !andb_true_iff. intros [A B]. split; auto.
    eapply repo_fresh_mono; try exact B; auto.
  - eapply all_lt_mono; eauto.
  - now apply img_ok_apply.
Qed.

Lemma step_new_data m img rid name : pinv_facts m img ->
  let '(m', ws) := op_new_data m rid name in
  all_safe img ws = true /\ (blob_writes ws <= 1)%nat /\ pinv_facts m' (apply_ws img ws).
Proof.
  intro F. unfold op_new_data.
  destruct (wids_inv m img (m_rid m) (m_vid m) (m_iid m + 1) F) as [Hw F1]; try lia.
  set (m1 := {| m_r2u := m_r2u m; m_v2u := m_v2u m; m_rid := m_rid m; m_vid := m_vid m; m_iid := m_iid m + 1;
                m_repos := m_repos m; m_mut := m_mut m; m_heads := m_heads m |}) in *.
  destruct (aget rid (m_repos m)) as [r|] eqn:Er.
  2:{ cbn [all_safe apply_ws fold_left]. rewrite Hw. split; [reflexivity|]. split; [cbn; lia|exact F1]. }
  destruct (amem name (pr_data r)).
  { cbn [all_safe apply_ws fold_left]. rewrite Hw. split; [reflexivity|]. split; [cbn; lia|exact F1]. }
  assert (Er1 : aget rid (m_repos m1) = Some r) by exact Er.
  destruct (repo_of_facts _ _ _ _ F1 Er1) as (_ & _ & Hfr).
  assert (Hfr' : repo_fresh (m_rid m1) (m_vid m1) (m_iid m1) (rid, set_data r (aset name (m_iid m) (pr_data r))) = true).
  { apply fresh_set_data; [exact Hfr|]. apply fresh_parts in Hfr as (_ & _ & Hi).
    apply all_lt_vals_aset; [cbn; lia|exact Hi]. }
  pose proof (upd_inv _ _ _ _ _ F1 Er1 Hfr') as F2.
  destruct (wrepo_inv _ _ _ _ F2 (upd_get m1 rid _)) as [Hw2 F3].
  cbn [app all_safe]. rewrite Hw, Hw2. split; [reflexivity|]. split; [cbn; lia|exact F3].
Qed.

Lemma step_delete_data m img rid name : pinv_facts m img ->
  let '(m', ws) := op_delete_data m rid name in
  all_safe img ws = true /\ (blob_writes ws <= 1)%nat /\ pinv_facts m' (apply_ws img ws).
Proof.
  intro F. unfold op_delete_data.
  destruct (aget rid (m_repos m)) as [r|] eqn:Er; [|cbn; auto].
  destruct (negb (amem name (pr_data r))); [cbn; auto|].
  destruct (repo_of_facts _ _ _ _ F Er) as (_ & _ & Hfr).
  assert (Hfr' : repo_fresh (m_rid m) (m_vid m) (m_iid m) (rid, set_data r (adel name (pr_data r))) = true).
  { apply fresh_set_data; [exact Hfr|]. apply fresh_parts in Hfr as (_ & _ & Hi). now apply all_lt_vals_adel. }
  pose proof (upd_inv _ _ _ _ _ F Er Hfr') as F2.
  destruct (wrepo_inv _ _ _ _ F2 (upd_get m rid _)) as [Hw F3].
  cbn [all_safe]. rewrite Hw. split; [reflexivity|]. split; [cbn; lia|exact F3].
Qed.

Lemma forallb_adel_key {V} (g : N -> bool) k (m : list (N * V)) (dom : list (N * N)) :
  forallb (fun ib => amem (fst ib) dom) m = true ->
  forallb (fun ib => amem (fst ib) (adel k dom)) (adel k m) = true.
Proof.
  intro H. apply forallb_forall. intros x Hx. apply In_adel in Hx as [Hin Hne].
  rewrite forallb_forall in H. rewrite amem_adel_neq by exact Hne. now apply H.
Qed.



Lemma step_new_mutid C m img rid : pinv_facts m img ->
  let '(m', ws) := fst (op_new_mutid C m rid) in
  all_safe img ws = true /\ (blob_writes ws <= 1)%nat /\ pinv_facts m' (apply_ws img ws).
Proof.
  intro F. unfold op_new_mutid.
  destruct (aget rid (m_mut m)) as [[cur saved]|]; [|cbn; auto].
  cbn [fst]. destruct F as [H1 H2 H3 H4 H5 H6].
  destruct (saved <=? cur + 1).
  - assert (Hw : wsafe img (WMut rid (saved + c_stride C)) = true) by (unfold wsafe; now rewrite H4).
    cbn [all_safe]. rewrite Hw. split; [reflexivity|]. split; [cbn; lia|].
    constructor; cbn [m_repos m_r2u m_rid m_vid m_iid apply_ws fold_left apply_w i_ids i_repos]; auto.
  - cbn. split; [reflexivity|]. split; [lia|]. constructor; cbn; auto.
Qed.

(* the invariant reads only r2u, the three counters and the repos of a manager *)
Lemma facts_ext m m' img :
  m_r2u m' = m_r2u m -> m_rid m' = m_rid m -> m_vid m' = m_vid m -> m_iid m' = m_iid m ->
  m_repos m' = m_repos m -> pinv_facts m img -> pinv_facts m' img.
Proof. intros E1 E2 E3 E4 E5 [H1 H2 H3 H4 H5 H6]. constructor; rewrite ?E1, ?E2, ?E3, ?E4, ?E5; auto. Qed.

Lemma neutral_inv m img w : pinv_facts m img -> neutral w = true ->
  wsafe img w = true /\ pinv_facts m (apply_w img w).
Proof.
  intros [H1 H2 H3 H4 H5 H6] Hn.
  assert (Hw : wsafe img w = true) by (unfold wsafe; rewrite H4; destruct w; try discriminate; reflexivity).
  split; [exact Hw|]. constructor; auto.
  - now apply img_ok_apply.
  - destruct w; try discriminate; cbn; auto.
  - destruct w; try discriminate; cbn; auto.
  - destruct w; try discriminate; unfold r2u_of; cbn; auto.
Qed.

Lemma step_delete_repo m img rid : pinv_facts m img ->
  let '(m', ws) := op_delete_repo m rid in
  all_safe img ws = true /\ (blob_writes ws <= 1)%nat /\ pinv_facts m' (apply_ws img ws).
Proof.
  intro F. unfold op_delete_repo.
  destruct (aget rid (m_repos m)) as [r|] eqn:Er; [|cbn; auto].
  destruct F as [H1 H2 H3 H4 H5 H6].
  assert (Hw : wsafe img (WDelRepo rid) = true) by (unfold wsafe; now rewrite H4).
  set (v2u := fold_left (fun acc v => adel v acc) (repo_versions r) (m_v2u m)).
  set (m' := {| m_r2u := adel rid (m_r2u m); m_v2u := v2u; m_rid := m_rid m; m_vid := m_vid m; m_iid := m_iid m;
                m_repos := adel rid (m_repos m); m_mut := adel rid (m_mut m); m_heads := adel rid (m_heads m) |}).
  set (img1 := apply_w img (WDelRepo rid)).
  (* the blob is gone; the stored id maps still name the repo *)
  assert (F1 : pinv_facts m' img1).
  { constructor; cbn [m' img1 m_repos m_r2u m_rid m_vid m_iid apply_w i_ids i_repos]; auto.
    - apply forallb_forall. intros x Hx. apply In_adel in Hx as [Hin Hne].
      rewrite forallb_forall in H1. specialize (H1 _ Hin). apply andb_true_iff in H1 as [A B].
      rewrite amem_adel_neq by exact Hne. now rewrite A, B.
    - now apply all_lt_akeys_adel.
    - exact (img_ok_apply img (WDelRepo rid) H3 Hw).
    - now apply (forallb_adel_key (fun _ => true)).
    - unfold r2u_of. cbn [i_r2u]. now apply forallb_adel. }
  (* putCaches: the id maps without the repo *)
  destruct F1 as [G1 G2 G3 G4 G5 G6].
  assert (Hw2 : wsafe img1 (WR2U (adel rid (m_r2u m))) = true).
  { unfold wsafe. rewrite G4. apply andb_true_iff. split; [exact G5|exact G2]. }
  set (img2 := apply_w img1 (WR2U (adel rid (m_r2u m)))).
  assert (F2 : pinv_facts m' img2).
  { constructor; auto.
    - exact (img_ok_apply img1 _ G3 Hw2).
    - unfold r2u_of, img2. cbn [apply_w i_r2u]. revert G1. apply forallb_impl.
      intros ib _ H. apply andb_true_iff in H as [H _]. exact H. }
  destruct (neutral_inv m' img2 (WV2U v2u) F2 eq_refl) as [Hw3 F3].
  cbn [all_safe]. fold img1. rewrite Hw. fold img2. rewrite Hw2, Hw3.
  split; [reflexivity|]. split; [cbn; lia|].
  cbn [apply_ws fold_left]. exact F3.
Qed.

(* registering a new repo id (below the counter) in r2u and writing r2u *)
Lemma wr2u_inv m img id u : pinv_facts m img -> id < m_rid m ->
  let m' := {| m_r2u := aset id u (m_r2u m); m_v2u := m_v2u m; m_rid := m_rid m; m_vid := m_vid m; m_iid := m_iid m;
               m_repos := m_repos m; m_mut := m_mut m; m_heads := m_heads m |} in
  wsafe img (WR2U (m_r2u m')) = true /\ pinv_facts m' (apply_w img (WR2U (m_r2u m'))).
Proof.
  intros [H1 H2 H3 H4 H5 H6] Hid. cbn zeta. cbn [m_r2u].
  assert (Hb : forallb (fun ib => amem (fst ib) (aset id u (m_r2u m))) (i_repos img) = true).
  { revert H5. apply forallb_impl. intros ib _ H. rewrite amem_aset, H. apply orb_true_r. }
  assert (Hl : all_lt (akeys (aset id u (m_r2u m))) (m_rid m) = true) by (apply all_lt_akeys_aset; auto).
  assert (Hw : wsafe img (WR2U (aset id u (m_r2u m))) = true) by (unfold wsafe; now rewrite H4, Hb, Hl).
  split; [exact Hw|]. constructor; cbn [m_repos m_r2u m_rid m_vid m_iid apply_w i_ids i_repos]; auto.
  - revert H1. apply forallb_impl. intros ib _. rewrite !andb_true_iff. intros [A B]. split; auto.
    rewrite amem_aset, A. apply orb_true_r.
  - exact (img_ok_apply img (WR2U (aset id u (m_r2u m))) H3 Hw).
  - unfold r2u_of. cbn [i_r2u]. revert H1. apply forallb_impl. intros ib _. rewrite !andb_true_iff. intros [A B].
    rewrite amem_aset, A. apply orb_true_r.
Qed.

(* putting a fresh, registered repo into memory *)
Lemma add_inv m img id r : pinv_facts m img ->
  amem id (m_r2u m) = true -> amem id (r2u_of img) = true ->
  repo_fresh (m_rid m) (m_vid m) (m_iid m) (id, r) = true ->
  pinv_facts (upd_repo m id r) img.
Proof.
  intros [H1 H2 H3 H4 H5 H6] Ha Hb Hfr.
  constructor; cbn [upd_repo m_repos m_r2u m_rid m_vid m_iid]; auto.
  - apply forallb_aset; auto. cbn [fst]. now rewrite Ha, Hfr.
  - apply forallb_aset; auto.
Qed.

Lemma step_new_repo C m img u : pinv_facts m img ->
  let '(m', ws) := op_new_repo C m u in
  all_safe img ws = true /\ (blob_writes ws <= 1)%nat /\ pinv_facts m' (apply_ws img ws).
Proof.
  intro F. unfold op_new_repo.
  use_new_uuid F m img u m1 cv w1.
  set (id := m_rid m1).
  set (img1 := apply_ws img w1) in *.
  (* newRepoID *)
  destruct (wids_inv m1 img1 (id + 1) (m_vid m1) (m_iid m1) F1) as [Hw2 F2]; try (unfold id; lia).
  set (m1a := {| m_r2u := m_r2u m1; m_v2u := m_v2u m1; m_rid := id + 1; m_vid := m_vid m1; m_iid := m_iid m1;
                 m_repos := m_repos m1; m_mut := m_mut m1; m_heads := m_heads m1 |}) in *.
  set (img2 := apply_w img1 (WIDs (id + 1) (m_vid m1) (m_iid m1))) in *.
  (* repoToUUID entry and putCaches *)
  assert (Hidlt : id < m_rid m1a) by (cbn; lia).
  destruct (wr2u_inv m1a img2 id u F2 Hidlt) as [Hw3 F3]. cbn zeta in Hw3, F3. cbn [m_r2u m1a] in Hw3.
  set (r2u := aset id u (m_r2u m1)) in *.
  set (m1b := {| m_r2u := aset id u (m_r2u m1a); m_v2u := m_v2u m1a; m_rid := m_rid m1a; m_vid := m_vid m1a;
                 m_iid := m_iid m1a; m_repos := m_repos m1a; m_mut := m_mut m1a; m_heads := m_heads m1a |}) in *.
  set (img3 := apply_w img2 (WR2U r2u)) in *.
  destruct (neutral_inv m1b img3 (WV2U (m_v2u m1)) F3 eq_refl) as [Hw4 F4].
  set (img4 := apply_w img3 (WV2U (m_v2u m1))) in *.
  (* the repo itself *)
  set (r := {| pr_id := id; pr_root := u; pr_rootv := cv; pr_nodes := [(cv, mk_node u [] 0)]; pr_data := [] |}).
  assert (Hfr : repo_fresh (m_rid m1b) (m_vid m1b) (m_iid m1b) (id, r) = true).
  { apply fresh_parts. cbn. split; [lia|]. split; [|reflexivity].
    unfold all_lt. cbn. rewrite andb_true_r. apply N.ltb_lt. lia. }
  assert (Ha : amem id (m_r2u m1b) = true) by (cbn [m1b m_r2u m1a]; rewrite amem_aset, N.eqb_refl; reflexivity).
  assert (Hb : amem id (r2u_of img4) = true).
  { unfold img4, img3, r2u_of. cbn [apply_w i_r2u]. unfold r2u. rewrite amem_aset, N.eqb_refl. reflexivity. }
  pose proof (add_inv m1b img4 id r F4 Ha Hb Hfr) as F5.
  destruct (wrepo_inv _ _ _ _ F5 (upd_get m1b id r)) as [Hw5 F6].
  set (img5 := apply_w img4 (WRepo id r)) in *.
  destruct (neutral_inv _ img5 (WMut id (c_mut_start C + c_stride C)) F6 eq_refl) as [Hw6 F7].
  (* assemble *)
  rewrite !all_safe_app. fold img1. rewrite Hs1.
  cbn [all_safe apply_ws fold_left app]. fold img2. rewrite Hw2.
  cbn [andb]. fold img3. fold r2u in Hw3. rewrite Hw3. fold img4. rewrite Hw4. fold img5. fold r. rewrite Hw5, Hw6.
  split; [reflexivity|].
  split. { rewrite !blob_writes_app, Hb1. cbn. lia. }
  rewrite !apply_ws_app. fold img1. cbn [apply_ws fold_left]. fold img2 img3 img4. fold r. fold img5.
  eapply facts_ext; [| | | | |exact F7]; reflexivity.
Qed.

Lemma step_inv C m img o : pinv_facts m img ->
  all_safe img (snd (pstep C m o)) = true /\ (blob_writes (snd (pstep C m o)) <= 1)%nat /\
  pinv_facts (fst (pstep C m o)) (apply_ws img (snd (pstep C m o))).
Proof.
  intro F. destruct o; cbn [pstep].
  - pose proof (step_new_repo C m img u F) as H. destruct (op_new_repo C m u); exact H.
  - pose proof (step_new_version m img rid parent branch u F) as H. destruct (op_new_version m rid parent branch u); exact H.
  - pose proof (step_merge m img rid parents u F) as H. destruct (op_merge m rid parents u); exact H.
  - pose proof (step_commit m img rid v F) as H. destruct (op_commit m rid v); exact H.
  - pose proof (step_new_data m img rid name F) as H. destruct (op_new_data m rid name); exact H.
  - pose proof (step_delete_data m img rid name F) as H. destruct (op_delete_data m rid name); exact H.
  - pose proof (step_delete_repo m img rid F) as H. destruct (op_delete_repo m rid); exact H.
  - pose proof (step_new_mutid C m img rid F) as H. destruct (fst (op_new_mutid C m rid)); exact H.
Qed.

(* ---- the theorems ---- *)

(* C04 crash_atomic: whatever prefix of an operation's writes reached the store, start-up succeeds,
   the loaded manager is well formed and shows the repos of before or of after the operation *)
Lemma crash_atomic C m img o k : pinv m img = true ->
  let ws := snd (pstep C m o) in
  exists mb wb ma wa mr wr,
    recover C img = Ok (mb, wb) /\ recover C (apply_ws img ws) = Ok (ma, wa) /\
    recover C (apply_ws img (firstn k ws)) = Ok (mr, wr) /\ pwf mr = true /\
    (pobserve mr = pobserve mb \/ pobserve mr = pobserve ma).
Proof.
  intro Hinv. apply pinv_iff in Hinv. cbn zeta.
  destruct (step_inv C m img o Hinv) as (Hsafe & Hblob & Hinv').
  pose proof (pf_ok _ _ Hinv) as Hok.
  destruct (all_safe_prefix img _ Hok Hsafe k) as [Hokk _].
  pose proof (pf_ok _ _ Hinv') as Hoka.
  destruct (recover_ok C img Hok) as (mb & wb & Hrb & Hb & _).
  destruct (recover_ok C _ Hoka) as (ma & wa & Hra & Ha & _).
  destruct (recover_ok C _ Hokk) as (mr & wr & Hrr & Hr & Hwf & _).
  exists mb, wb, ma, wa, mr, wr. repeat split; auto.
  unfold pobserve. rewrite Hb, Ha, Hr. apply repos_prefix. exact Hblob.
Qed.

(* a chain of killed start-ups from a recoverable image stays recoverable and keeps the repos *)
Lemma chain_ok C img img2 : rec_chain C img img2 -> img_ok img = true ->
  img_ok img2 = true /\ i_repos img2 = i_repos img.
Proof.
  induction 1 as [img|img m wr j img2 Hrec Hch IH]; intro Hok; [auto|].
  destruct (recover_idempotent C img m wr Hok Hrec j) as (m2 & w2 & _ & _ & _ & Hokj).
  destruct (IH Hokj) as [H1 H2]. split; [exact H1|]. rewrite H2.
  destruct (recover_ok C img Hok) as (m' & w' & Hr & _ & _ & _ & Hblob & _).
  rewrite Hrec in Hr. apply Ok_inj in Hr. inversion Hr; subst.
  apply repos_nonblobs. pose proof (blob_writes_firstn w' j). lia.
Qed.

(* C04 recover_idempotent_under_crash, any number of crashes during recovery *)
Lemma recover_chain_same C img img2 mr wr : img_ok img = true -> recover C img = Ok (mr, wr) ->
  rec_chain C img img2 ->
  exists m2 w2, recover C img2 = Ok (m2, w2) /\ pobserve m2 = pobserve mr /\ pwf m2 = true.
Proof.
  intros Hok Hrec Hch. destruct (chain_ok C img img2 Hch Hok) as [Hok2 Hrep].
  destruct (recover_ok C img2 Hok2) as (m2 & w2 & Hr2 & Hrep2 & Hwf2 & _).
  destruct (recover_ok C img Hok) as (m' & w' & Hr & Hrep' & _).
  rewrite Hrec in Hr. apply Ok_inj in Hr. inversion Hr; subst.
  exists m2, w2. repeat split; auto. unfold pobserve. now rewrite Hrep2, Hrep', Hrep.
Qed.

(* ---- first start-up ---- *)
Lemma no_metadata_empty img : no_metadata img = true -> img = empty_image.
Proof.
  destruct img as [a b c d e f]. unfold no_metadata. cbn.
  destruct a, b, c, d, e, f; try discriminate. reflexivity.
Qed.

Lemma init_pwf C : pwf (init_mgr C) = true.
Proof. reflexivity. Qed.

Lemma init_prefix C k :
  let img := apply_ws empty_image (firstn k (init_writes C)) in
  no_metadata img = true \/ (img_ok img = true /\ i_repos img = []).
Proof.
  cbn zeta. unfold init_writes.
  destruct k as [|[|[|[|[|k]]]]]; cbn [firstn apply_ws fold_left apply_w empty_image i_r2u i_v2u i_ids i_repos i_mut i_fmt];
    [left; reflexivity|right; split; reflexivity ..].
Qed.

Lemma init_pinv C : pinv (init_mgr C) (apply_ws empty_image (init_writes C)) = true.
Proof.
  unfold pinv. rewrite init_pwf. unfold init_writes.
  cbn [apply_ws fold_left apply_w empty_image i_r2u i_v2u i_ids i_repos i_mut i_fmt].
  unfold img_ok. cbn [i_ids i_repos i_r2u i_fmt]. cbn [init_mgr m_rid m_vid m_iid m_repos m_r2u].
  rewrite !N.eqb_refl. reflexivity.
Qed.

Definition good (img : image) : Prop := img = empty_image \/ (img_ok img = true /\ i_repos img = []).

Lemma chain_good C img img2 : rec_chain C img img2 -> good img -> good img2.
Proof.
  induction 1 as [img|img m wr j img2 Hrec Hch IH]; intro Hg; [exact Hg|].
  apply IH. destruct Hg as [->|[Hok Hrep]].
  - unfold recover in Hrec. cbn [no_metadata empty_image i_r2u i_v2u i_ids i_repos i_mut i_fmt] in Hrec.
    apply Ok_inj in Hrec. inversion Hrec; subst.
    destruct (init_prefix C j) as [H|H]; [left; now apply no_metadata_empty|right; exact H].
  - right. destruct (recover_idempotent C img m wr Hok Hrec j) as (m2 & w2 & _ & _ & _ & Hokj).
    split; [exact Hokj|].
    destruct (recover_ok C img Hok) as (m' & w' & Hr & _ & _ & _ & Hblob & _).
    rewrite Hrec in Hr. apply Ok_inj in Hr. inversion Hr; subst.
    rewrite repos_nonblobs; [exact Hrep|]. pose proof (blob_writes_firstn w' j). lia.
Qed.

(* the invariant holds in every reachable state *)
Lemma preach_pinv C m img : preach C m img -> pinv m img = true.
Proof.
  induction 1 as [m wr img0 Hch Hrec | m img o Hp IH | m img o k img2 mr wr Hp IH Hch Hrec].
  - destruct (chain_good C _ _ Hch (or_introl eq_refl)) as [->|[Hok _]].
    + unfold recover in Hrec. cbn [no_metadata empty_image i_r2u i_v2u i_ids i_repos i_mut i_fmt] in Hrec.
      apply Ok_inj in Hrec. inversion Hrec; subst. apply init_pinv.
    + destruct (recover_ok C img0 Hok) as (m' & w' & Hr & _ & _ & _ & _ & Hinv).
      rewrite Hrec in Hr. apply Ok_inj in Hr. inversion Hr; subst. exact Hinv.
  - apply pinv_iff. apply pinv_iff in IH. now destruct (step_inv C m img o IH) as (_ & _ & H).
  - apply pinv_iff in IH. destruct (step_inv C m img o IH) as (Hsafe & _ & _).
    destruct (all_safe_prefix img _ (pf_ok _ _ IH) Hsafe k) as [Hokk _].
    destruct (chain_ok C _ _ Hch Hokk) as [Hok2 _].
    destruct (recover_ok C img2 Hok2) as (m' & w' & Hr & _ & _ & _ & _ & Hinv).
    rewrite Hrec in Hr. apply Ok_inj in Hr. inversion Hr; subst. exact Hinv.
Qed.

Lemma pinv_pwf m img : pinv m img = true -> pwf m = true /\ img_ok img = true.
Proof. unfold pinv. rewrite !andb_true_iff. tauto. Qed.

(* first start-up killed at any of its writes: the next start-up succeeds with no repos *)
Lemma init_crash C k : exists m wr,
  recover C (apply_ws empty_image (firstn k (init_writes C))) = Ok (m, wr) /\ pobserve m = [] /\ pwf m = true.
Proof.
  destruct (init_prefix C k) as [H|[Hok Hrep]].
  - apply no_metadata_empty in H. rewrite H. exists (init_mgr C), (init_writes C). repeat split.
  - destruct (recover_ok C _ Hok) as (m & wr & Hr & Hm & Hwf & _).
    exists m, wr. repeat split; auto. unfold pobserve. now rewrite Hm, Hrep.
Qed.

(* ---- instance deletion is not crash-atomic once the data store is taken into account ---- *)
Definition w_conf : pconf := {| c_mut_start := 1000; c_stride := 100; c_inst_start := 0 |}.
Definition w_mgr : pmgr :=
  fst (pstep w_conf (fst (pstep w_conf (init_mgr w_conf) (PNewRepo 77))) (PNewData 1 5)).
Definition w_img : image :=
  let m0 := init_mgr w_conf in
  let '(m1, ws1) := pstep w_conf m0 (PNewRepo 77) in
  let '(_, ws2) := pstep w_conf m1 (PNewData 1 5) in
  apply_ws (apply_ws (apply_ws empty_image (init_writes w_conf)) ws1) ws2.
Definition w_x : ximage := {| x_meta := w_img; x_kv := [(1, 4)] |}.      (* instance id 1 holds 4 key-values *)

Lemma delete_data_refuted :
  pinv w_mgr w_img = true /\
  let ws := delete_data_writes w_mgr 1 5 4 10 in
  exists k, xobserve w_conf (apply_xs w_x (firstn k ws)) <> xobserve w_conf w_x /\
            xobserve w_conf (apply_xs w_x (firstn k ws)) <> xobserve w_conf (apply_xs w_x ws).
Proof.
  split; [vm_compute; reflexivity|]. cbn zeta. exists 1%nat. split; vm_compute; discriminate.
Qed.

(* ---- instance deletion with the metadata saved first is atomic also with the data store ---- *)
Lemma batches_meta ws : forall x iid,
  (forall w, In w ws -> exists n, w = XDeleteBatch iid n) -> x_meta (apply_xs x ws) = x_meta x.
Proof.
  induction ws as [|w ws IH]; intros x iid Hall; [reflexivity|].
  destruct (Hall w (or_introl eq_refl)) as [n ->]. cbn [apply_xs fold_left].
  change (fold_left apply_x ws ?y) with (apply_xs y ws).
  rewrite (IH _ iid (fun w' Hw => Hall w' (or_intror Hw))). reflexivity.
Qed.

Lemma batches_kv_other ws : forall x iid j,
  (forall w, In w ws -> exists n, w = XDeleteBatch iid n) -> j <> iid ->
  aget j (x_kv (apply_xs x ws)) = aget j (x_kv x).
Proof.
  induction ws as [|w ws IH]; intros x iid j Hall Hne; [reflexivity|].
  destruct (Hall w (or_introl eq_refl)) as [n ->]. cbn [apply_xs fold_left].
  change (fold_left apply_x ws ?y) with (apply_xs y ws).
  rewrite (IH _ iid j (fun w' Hw => Hall w' (or_intror Hw)) Hne). cbn [apply_x x_kv].
  now apply aget_aset_neq.
Qed.

Lemma xobserve_kv_irrelevant C x y iid :
  x_meta y = x_meta x -> (forall j, j <> iid -> aget j (x_kv y) = aget j (x_kv x)) ->
  (forall m wr, recover C (x_meta x) = Ok (m, wr) ->
     forall ib ni, In ib (m_repos m) -> In ni (pr_data (snd ib)) -> snd ni <> iid) ->
  xobserve C y = xobserve C x.
Proof.
  intros Hm Hk Hfree. unfold xobserve. rewrite Hm.
  destruct (recover C (x_meta x)) as [[m wr]| |] eqn:Hr; try reflexivity.
  f_equal. apply map_ext_in. intros ib Hib. f_equal. apply map_ext_in. intros ni Hni.
  rewrite Hk; [reflexivity|]. eapply Hfree; eauto.
Qed.

(* every prefix of the repaired write list shows the state before or the state after, provided the
   deleted instance's id is used by no instance that remains (instance ids are unique: C12) *)
Lemma delete_data_fixed_atomic C x m rid name n b r iid k :
  aget rid (m_repos m) = Some r -> aget name (pr_data r) = Some iid ->
  let ws := delete_data_writes_fixed m rid name n b in
  (forall mr wr, recover C (x_meta (apply_xs x ws)) = Ok (mr, wr) ->
     forall ib ni, In ib (m_repos mr) -> In ni (pr_data (snd ib)) -> snd ni <> iid) ->
  xobserve C (apply_xs x (firstn k ws)) = xobserve C x \/
  xobserve C (apply_xs x (firstn k ws)) = xobserve C (apply_xs x ws).
Proof.
  intros Hr Hd. unfold delete_data_writes_fixed. rewrite Hr, Hd. unfold op_delete_data. rewrite Hr.
  assert (Hmem : amem name (pr_data r) = true) by (unfold amem; now rewrite Hd).
  rewrite Hmem. cbn [negb snd map app].
  set (w0 := XMeta (WRepo rid (set_data r (adel name (pr_data r))))).
  set (batches := if n <=? b then [XDeleteBatch iid n] else [XDeleteBatch iid b; XDeleteBatch iid (n - b)]).
  assert (Hb : forall w, In w batches -> exists q, w = XDeleteBatch iid q).
  { intros w Hw. unfold batches in Hw. destruct (n <=? b); cbn in Hw; intuition eauto. }
  assert (Hbk : forall w, In w (firstn k batches) -> exists q, w = XDeleteBatch iid q).
  { intros w Hw. apply Hb. eapply firstn_In_sub; eauto. }
  cbn zeta. intro Hfree. destruct k as [|k]; [left; reflexivity|]. right. cbn [firstn].
  change (apply_xs x (w0 :: ?l)) with (apply_xs (apply_x x w0) l).
  set (x1 := apply_x x w0) in *.
  assert (Hbk' : forall w, In w (firstn k batches) -> exists q, w = XDeleteBatch iid q).
  { intros w Hw. apply Hb. eapply firstn_In_sub; eauto. }
  assert (Hfree1 : forall mr wr, recover C (x_meta x1) = Ok (mr, wr) ->
     forall ib ni, In ib (m_repos mr) -> In ni (pr_data (snd ib)) -> snd ni <> iid).
  { intros mr wr Hrec. apply (Hfree mr wr). change (apply_xs x (w0 :: batches)) with (apply_xs x1 batches).
    rewrite (batches_meta batches x1 iid Hb). exact Hrec. }
  rewrite (xobserve_kv_irrelevant C x1 (apply_xs x1 (firstn k batches)) iid); auto.
  - symmetry. apply (xobserve_kv_irrelevant C x1 (apply_xs x1 batches) iid); auto.
    + apply (batches_meta batches x1 iid Hb).
    + intros j Hj. now apply (batches_kv_other batches x1 iid j Hb).
  - apply (batches_meta _ x1 iid Hbk').
  - intros j Hj. now apply (batches_kv_other _ x1 iid j Hbk').
Qed.
