(* Proofs.BlockCount: assembling the sub-blocks into ZYX order is a permutation of their
   concatenation, so per-label voxel counts computed sub-block by sub-block (CalcNumLabels,
   getNumVoxels / ReplaceLabel) are the counts of the decoded array. *)
From DV Require Import Base.Prelude Base.Int Base.BitPack Model.Block Model.BlockOps
     Model.Downres Proofs.BitPack Proofs.Block Proofs.BlockOps Proofs.Downres Gen.Consts.
From Coq Require Import ZifyN ZifyNat ZifyBool Permutation.
Ltac Zify.zify_post_hook ::= Z.div_mod_to_equations.
Local Open Scope N_scope.

Lemma nth_error_concat_uniform (voxs : list (list N)) k : forall s i vox,
  Forall (fun v => length v = k) voxs -> nth_error voxs s = Some vox -> (i < k)%nat ->
  nth_error (concat voxs) (s * k + i) = nth_error vox i.
Proof.
  induction voxs as [|v voxs IH]; intros s i vox HF Hs Hi; [destruct s; discriminate|].
  inversion HF as [|? ? Hv HF']; subst. destruct s as [|s]; simpl in *.
  - inversion Hs; subst. rewrite nth_error_app1 by lia. reflexivity.
  - rewrite nth_error_app2 by lia. replace (length v + s * length v + i - length v)%nat with (s * length v + i)%nat by lia.
    now apply IH.
Qed.

Lemma filter_perm_length {A} (f : A -> bool) l l' : Permutation l l' -> length (filter f l) = length (filter f l').
Proof.
  induction 1; simpl; auto.
  - destruct (f x); simpl; congruence.
  - destruct (f x), (f y); simpl; reflexivity.
  - congruence.
Qed.

Lemma NoDup_map_inj_in {A B} (g : A -> B) l :
  (forall a b, In a l -> In b l -> g a = g b -> a = b) -> NoDup l -> NoDup (map g l).
Proof.
  intros Hinj ND. induction ND as [|a l Ha _ IH]; simpl; [constructor|].
  constructor.
  - intro Hin. apply in_map_iff in Hin as [b [E Hb]].
    assert (b = a) by (apply Hinj; [now right | now left | exact E]). subst. contradiction.
  - apply IH. intros x y Hx Hy. apply Hinj; now right.
Qed.

(* position p of the ZYX array -> index into the concatenated sub-blocks *)
Definition phi (gx gy : N) (p : N) : N :=
  let nx := 8 * gx in let ny := 8 * gy in
  let x := p mod nx in let y := (p / nx) mod ny in let z := p / (nx * ny) in
  sb_of gx gy x y z * 512 + loc_of x y z.

Lemma coords_from_parts a b q r : a < 8 -> b < 8 -> q * 8 + a = r * 8 + b -> q = r /\ a = b.
Proof. lia. Qed.

Lemma phi_inj gx gy gz p p' :
  p < 8 * gx * (8 * gy) * (8 * gz) -> p' < 8 * gx * (8 * gy) * (8 * gz) -> phi gx gy p = phi gx gy p' -> p = p'.
Proof.
  intros Hp Hp' E. unfold phi in E.
  destruct (pos_coords _ _ _ _ Hp) as [Hx [Hy [Hz Ep]]].
  destruct (pos_coords _ _ _ _ Hp') as [Hx' [Hy' [Hz' Ep']]].
  set (x := p mod (8 * gx)) in *. set (y := (p / (8 * gx)) mod (8 * gy)) in *. set (z := p / (8 * gx * (8 * gy))) in *.
  set (x' := p' mod (8 * gx)) in *. set (y' := (p' / (8 * gx)) mod (8 * gy)) in *. set (z' := p' / (8 * gx * (8 * gy))) in *.
  clearbody x y z x' y' z'.
  destruct (loc_of_spec x y z) as [L1 [L2 [L3 L4]]]. destruct (loc_of_spec x' y' z') as [L1' [L2' [L3' L4']]].
  destruct (sb_of_spec gx gy x y z Hx Hy) as [S1 [S2 S3]]. destruct (sb_of_spec gx gy x' y' z' Hx' Hy') as [S1' [S2' S3']].
  assert (Es : sb_of gx gy x y z = sb_of gx gy x' y' z' /\ loc_of x y z = loc_of x' y' z').
  { clear -E L4 L4'. set (s := sb_of gx gy x y z) in *. set (s' := sb_of gx gy x' y' z') in *.
    set (l := loc_of x y z) in *. set (l' := loc_of x' y' z') in *. clearbody s s' l l'. lia. }
  destruct Es as [Es El].
  rewrite Es in S1, S2, S3. rewrite S1' in S1. rewrite S2' in S2. rewrite S3' in S3.
  rewrite El in L1, L2, L3. rewrite L1' in L1. rewrite L2' in L2. rewrite L3' in L3.
  assert (x = x') by (clear -S1 L1; lia). assert (y = y') by (clear -S2 L2; lia). assert (z = z') by (clear -S3 L3; lia).
  subst. congruence.
Qed.

Lemma phi_lt gx gy gz p : p < 8 * gx * (8 * gy) * (8 * gz) -> phi gx gy p < gx * gy * gz * 512.
Proof.
  intro Hp. unfold phi. destruct (pos_coords _ _ _ _ Hp) as [Hx [Hy [Hz _]]].
  pose proof (sb_of_lt gx gy gz _ _ _ Hx Hy Hz) as SL.
  destruct (loc_of_spec (p mod (8 * gx)) ((p / (8 * gx)) mod (8 * gy)) (p / (8 * gx * (8 * gy)))) as [_ [_ [_ L4]]].
  set (s := sb_of _ _ _ _ _) in *. set (l := loc_of _ _ _) in *. clearbody s l.
  clear -SL L4. set (n := gx * gy * gz) in *. clearbody n. lia.
Qed.

Theorem assemble_perm voxs gx gy gz a :
  Forall (fun v => length v = 512%nat) voxs -> length voxs = N.to_nat (gx * gy * gz) ->
  assemble voxs gx gy gz = Ok a -> Permutation a (concat voxs).
Proof.
  intros HF HL A.
  unfold assemble in A.
  remember (8 * gx * (8 * gy) * (8 * gz)) as nvox eqn:Env.
  assert (Hn : nvox = gx * gy * gz * 512) by (subst nvox; ring).
  assert (LC : length (concat voxs) = N.to_nat nvox).
  { rewrite Hn. clear -HF HL. revert HL. generalize (gx * gy * gz). induction HF as [|v voxs Hv _ IH]; intros n HL; simpl in *.
    - lia.
    - rewrite app_length, Hv. specialize (IH (n - 1)). lia. }
  (* a is the concatenation read through phi *)
  assert (Ea : a = map (fun q => nth (N.to_nat q) (concat voxs) 0) (map (phi gx gy) (nseq nvox))).
  { pose proof (mapR_length _ _ _ A) as LA. rewrite nseq_length in LA.
    apply list_eq_nth; [rewrite !map_length, nseq_length; exact LA|].
    intros i v Hi. assert (Hlt : (i < N.to_nat nvox)%nat) by (rewrite <- LA; apply nth_error_Some; congruence).
    rewrite map_map, nth_error_map, nth_error_nseq by exact Hlt. cbn [option_map]. f_equal.
    destruct (mapR_nth _ _ _ i (N.of_nat i) A) as [v' [V1 V2]]; [now apply nth_error_nseq|].
    rewrite Hi in V1. inversion V1; subst v'. cbv zeta in V2.
    unfold phi. set (x := N.of_nat i mod (8 * gx)) in *. set (y := (N.of_nat i / (8 * gx)) mod (8 * gy)) in *.
    set (z := N.of_nat i / (8 * gx * (8 * gy))) in *.
    destruct (nth_N voxs (sb_of gx gy x y z)) as [vox|] eqn:Ev; [|discriminate].
    apply opt_res_Ok in V2. unfold nth_N in Ev, V2.
    destruct (loc_of_spec x y z) as [_ [_ [_ L4]]].
    pose proof (nth_error_concat_uniform voxs 512 _ (N.to_nat (loc_of x y z)) vox HF Ev ltac:(lia)) as C.
    rewrite V2 in C.
    replace (N.to_nat (sb_of gx gy x y z * 512 + loc_of x y z))
      with (N.to_nat (sb_of gx gy x y z) * 512 + N.to_nat (loc_of x y z))%nat by lia.
    rewrite (nth_error_nth _ _ 0 C). reflexivity. }
  assert (Ec : concat voxs = map (fun q => nth (N.to_nat q) (concat voxs) 0) (nseq nvox)).
  { apply list_eq_nth; [rewrite map_length, nseq_length; exact LC|].
    intros i v Hi. assert (Hlt : (i < N.to_nat nvox)%nat) by (rewrite <- LC; apply nth_error_Some; congruence).
    rewrite nth_error_map, nth_error_nseq by exact Hlt. cbn [option_map]. f_equal.
    rewrite Nat2N.id. rewrite (nth_error_nth _ _ 0 Hi). reflexivity. }
  rewrite Ea.
  apply (@Permutation_trans _ _ (map (fun q => nth (N.to_nat q) (concat voxs) 0) (nseq nvox)));
    [|rewrite <- Ec; apply Permutation_refl].
  apply Permutation_map.
  apply NoDup_Permutation_bis.
  - apply NoDup_map_inj_in; [|apply NoDup_nseq].
    intros p p' Hp Hp'. apply In_nseq in Hp, Hp'. rewrite Env in Hp, Hp'. now apply (phi_inj gx gy gz).
  - rewrite map_length. lia.
  - intros q Hq. apply in_map_iff in Hq as [p [E Hp]]. apply In_nseq in Hp. apply In_nseq.
    subst q. rewrite Hn. rewrite Env in Hp. now apply phi_lt.
Qed.

Corollary count_assemble voxs gx gy gz a l :
  Forall (fun v => length v = 512%nat) voxs -> length voxs = N.to_nat (gx * gy * gz) ->
  assemble voxs gx gy gz = Ok a -> count_eq a l = count_eq (concat voxs) l.
Proof.
  intros HF HL A. unfold count_eq. f_equal. apply filter_perm_length. now apply (assemble_perm voxs gx gy gz).
Qed.

(* ---------------- counts against the decoded array ---------------- *)

Lemma Sem_vox_lengths labels ns idx vals voxs :
  Sem labels ns idx vals voxs -> Forall (fun v => length v = 512%nat) voxs.
Proof. induction 1 as [|ixs vs vox ns idx vals voxs [_ [_ [Hv _]]] _ IH]; constructor; assumption. Qed.

Lemma wf_vox_lengths b voxs : block_wf b voxs -> Forall (fun v => length v = 512%nat) voxs.
Proof.
  intros [_ [[l [_ [_ [_ [_ Ev]]]]] | [_ S]]].
  - rewrite Ev. apply Forall_forall. intros v Hv. apply repeat_spec in Hv. subst. apply repeat_length.
  - eapply Sem_vox_lengths; eauto.
Qed.

(* ReplaceLabel (repaired getNumVoxels): the reported size is the number of voxels of the DECODED
   array that carried the target label *)
Theorem replace_label_count b voxs a target newLabel :
  block_wf b voxs -> decode b = Ok a ->
  exists b' size, replace_label true b target newLabel = Ok (b', size) /\
    decode b' = Ok (map (fun l => if l =? target then newLabel else l) a) /\
    size = count_eq a target.
Proof.
  intros W D.
  destruct (replace_label_wf b voxs target newLabel W) as [b' [size [R [W' Es]]]].
  exists b', size. split; [exact R|].
  rewrite (decode_wf b voxs W) in D.
  assert (G : b_gx b' = b_gx b /\ b_gy b' = b_gy b /\ b_gz b' = b_gz b).
  { unfold replace_label in R. destruct (mapR _ _) as [sizes| |]; try discriminate.
    apply Ok_inj in R. inversion R; subst. now cbn. }
  destruct G as [G1 [G2 G3]].
  split.
  - rewrite (decode_wf b' _ W'), G1, G2, G3. now apply assemble_map.
  - rewrite Es. symmetry. apply (count_assemble voxs (b_gx b) (b_gy b) (b_gz b)); [|apply W|exact D].
    eapply wf_vox_lengths; eauto.
Qed.

(* CalcNumLabels(nil) on the compressed block = per-label voxel counts of the decoded array *)
Lemma fold_count_concat sbs : forall d,
  fold_left (fun d vox => count_labels vox d) sbs d = count_labels (concat sbs) d.
Proof.
  induction sbs as [|vox sbs IH]; intro d; [reflexivity|]. cbn [fold_left concat].
  rewrite IH. unfold count_labels. now rewrite fold_left_app.
Qed.

Theorem calc_num_labels_count b voxs a :
  block_wf b voxs -> decode b = Ok a ->
  exists d, calc_num_labels b = Ok d /\ NoDup (map fst d) /\
    (forall e, In e d -> fst e <> 0) /\
    forall l, l <> 0 -> lookup d l = count_eq a l.
Proof.
  intros W D. pose proof W as [L [[l [El [A [B [C Ev]]]]] | [HL S]]].
  - unfold calc_num_labels. rewrite El.
    unfold decode in D. rewrite El in D. apply Ok_inj in D. subst a.
    destruct (l =? 0) eqn:E0.
    + apply N.eqb_eq in E0. subst l. exists []. split; [reflexivity|]. split; [constructor|].
      split; [intros e []|]. intros l Hl. simpl. rewrite count_eq_repeat.
      replace (l =? 0) with false by (symmetry; now apply N.eqb_neq). reflexivity.
    + apply N.eqb_neq in E0. eexists. split; [reflexivity|]. split; [repeat constructor; intros []|].
      split.
      * intros e [He|[]]. subst e. exact E0.
      * intros l' Hl'. simpl. rewrite count_eq_repeat. rewrite (N.eqb_sym l' l).
        destruct (l =? l'); [lia | reflexivity].
  - unfold calc_num_labels.
    destruct (b_labels b) as [|l1 [|l2 ls]] eqn:EL; [simpl in HL; lia|simpl in HL; lia|].
    unfold block_sbs. pose proof (Sem_length _ _ _ _ _ S) as SL.
    replace (N.of_nat (length (b_nsb b)) <? b_gx b * b_gy b * b_gz b) with false by (symmetry; apply N.ltb_ge; lia).
    rewrite firstn_all2 by lia. rewrite <- EL in S.
    pose proof (dec_sbs_sem b _ _ _ _ S [] [] (repeat 0 512%nat) eq_refl eq_refl (repeat_length _ _)) as DS.
    change (N.of_nat (length (@nil N))) with 0 in DS. change (8 * 0) with 0 in DS.
    unfold dstate0. rewrite DS. eexists. split; [reflexivity|].
    rewrite fold_count_concat.
    destruct (count_labels_spec (concat voxs) []) as [[ND Hpos] Lk]; [split; [constructor | intros e []]|].
    split; [exact ND|]. split; [intros e He; exact (proj1 (Hpos e He))|].
    intros l Hl. rewrite Lk. simpl. replace (l =? 0) with false by (symmetry; now apply N.eqb_neq).
    rewrite (decode_wf b voxs W) in D.
    symmetry. apply (count_assemble voxs (b_gx b) (b_gy b) (b_gz b)); [|exact L|exact D].
    eapply wf_vox_lengths; eauto.
Qed.

Theorem calc_num_labels_encode tbl vol wx wy wz ox oy oz gx gy gz sbs b a :
  gather vol wx wy ox oy oz gx gy gz = Ok sbs -> covers tbl sbs ->
  encode_at tbl vol wx wy wz ox oy oz gx gy gz = Ok b -> decode b = Ok a ->
  exists d, calc_num_labels b = Ok d /\ NoDup (map fst d) /\ (forall e, In e d -> fst e <> 0) /\
    forall l, l <> 0 -> lookup d l = count_eq a l.
Proof.
  intros G C E D. apply (calc_num_labels_count b sbs a); [|exact D].
  eapply encode_at_wf; eauto.
Qed.
