(* Proofs.ROI: the span queries of datatype/roi agree with span membership (C18). *)
From DV Require Import Base.Prelude Base.WrapZ Model.Geometry Model.ROI Proofs.Geometry.
From Coq Require Import ZifyBool Sorting.Sorted Sorting.Permutation.
Ltac Zify.zify_post_hook ::= Z.div_mod_to_equations.
Local Open Scope Z_scope.

Ltac sdestr := repeat match goal with s : span |- _ => destruct s end; cbn [sz sy sx0 sx1] in *.
Ltac pdestr := repeat match goal with p : pt |- _ => destruct p as [[? ?] ?] end;
               unfold px, py, pz in *; cbn [fst snd] in *.

(* the order of the stored span keys, as far as the queries need it: by (z, y, x0) *)
Definition span_start_le (a b : span) : Prop :=
  sz a < sz b \/ (sz a = sz b /\ (sy a < sy b \/ (sy a = sy b /\ sx0 a <= sx0 b))).
Definition spans_sorted (l : list span) : Prop := StronglySorted span_start_le l.
Definition pt_zyx_le (a b : pt) : Prop :=
  pz a < pz b \/ (pz a = pz b /\ (py a < py b \/ (py a = py b /\ px a <= px b))).

Lemma in_spans_cons b s l : in_spans b (s :: l) = span_includes s b || in_spans b l.
Proof. reflexivity. Qed.

Lemma less_not_includes s b : span_less_pt s b = true -> span_includes s b = false.
Proof.
  unfold span_less_pt, span_includes. destruct b as [[bx by_] bz]. sdestr. unfold px, py, pz; cbn [fst snd].
  destruct (Z.ltb_spec sz bz); [lia|]. destruct (Z.ltb_spec bz sz); [lia|].
  destruct (Z.ltb_spec sy by_); [lia|]. destruct (Z.ltb_spec by_ sy); [lia|]. lia.
Qed.

Lemma less_spec s b : span_less_pt s b = true <->
  (sz s < pz b \/ (sz s = pz b /\ (sy s < py b \/ (sy s = py b /\ sx1 s < px b)))).
Proof.
  unfold span_less_pt. destruct b as [[bx by_] bz]. sdestr. unfold px, py, pz; cbn [fst snd].
  destruct (Z.ltb_spec sz bz); [lia|]. destruct (Z.ltb_spec bz sz); [lia|].
  destruct (Z.ltb_spec sy by_); [lia|]. destruct (Z.ltb_spec by_ sy); [lia|]. lia.
Qed.

Lemma less_mono s b b' : pt_zyx_le b b' -> span_less_pt s b = true -> span_less_pt s b' = true.
Proof. rewrite !less_spec. unfold pt_zyx_le. lia. Qed.

(* seekSpan answers membership in the whole remaining list, and only skips spans that lie
   before the point *)
Lemma seek_span_spec b : forall spans, spans_sorted spans ->
  exists skipped, spans = skipped ++ fst (seek_span b spans)
    /\ Forall (fun s => span_less_pt s b = true) skipped
    /\ snd (seek_span b spans) = in_spans b spans
    /\ spans_sorted (fst (seek_span b spans)).
Proof.
  induction spans as [|s tl IH]; intro S; cbn [seek_span].
  - exists []. repeat split; constructor.
  - inversion S as [|? ? Stl Fs]; subst. destruct (span_less_pt s b) eqn:L.
    + destruct (IH Stl) as (sk & E & F & I & S').
      exists (s :: sk). cbn [app]. rewrite <- E. repeat split; try assumption.
      * constructor; assumption.
      * rewrite in_spans_cons, (less_not_includes s b L). exact I.
    + exists []. cbn [app fst snd]. repeat split; try constructor; try assumption.
      rewrite in_spans_cons. destruct (span_includes s b) eqn:I; [reflexivity|].
      symmetry. cbn [orb]. unfold in_spans. rewrite <- not_true_iff_false. intro H.
      apply existsb_exists in H as (t & Ht & It). rewrite Forall_forall in Fs. specialize (Fs t Ht).
      assert (NL : ~ (sz s < pz b \/ (sz s = pz b /\ (sy s < py b \/ (sy s = py b /\ sx1 s < px b))))).
      { rewrite <- less_spec. rewrite L. discriminate. }
      unfold span_start_le, span_includes in *. sdestr. pdestr. lia.
Qed.

Lemma set_nth_length l : forall n v, length (set_nth_bool l n v) = length l.
Proof. induction l as [|h t IH]; intros [|n] v; cbn; auto. Qed.
Lemma set_nth_same l : forall n v, (n < length l)%nat -> nth_error (set_nth_bool l n v) n = Some v.
Proof. induction l as [|h t IH]; intros [|n] v H; cbn in *; try lia; [reflexivity|]. apply IH. lia. Qed.
Lemma set_nth_other l : forall n m v, n <> m -> nth_error (set_nth_bool l n v) m = nth_error l m.
Proof.
  induction l as [|h t IH]; intros [|n] [|m] v H; cbn; try reflexivity; try congruence.
  apply IH. congruence.
Qed.

Lemma in_spans_app b l1 l2 : in_spans b (l1 ++ l2) = in_spans b l1 || in_spans b l2.
Proof. apply existsb_app. Qed.

Lemma in_spans_less b l : Forall (fun s => span_less_pt s b = true) l -> in_spans b l = false.
Proof.
  induction 1 as [|s t Hs Ht IH]; [reflexivity|]. rewrite in_spans_cons, IH, (less_not_includes s b Hs). reflexivity.
Qed.

Definition ipt_le (a b : ipt) : Prop := pt_zyx_le (fst a) (fst b).

Lemma pq_sweep_spec all : forall sorted cur passed out,
  all = passed ++ cur -> spans_sorted cur -> StronglySorted ipt_le sorted ->
  Forall (fun q => Forall (fun s => span_less_pt s (fst q) = true) passed) sorted ->
  NoDup (map snd sorted) ->
  length (pq_sweep cur sorted out) = length out
  /\ (forall q, In q sorted -> (snd q < length out)%nat ->
                nth_error (pq_sweep cur sorted out) (snd q) = Some (in_spans (fst q) all))
  /\ (forall i, ~ In i (map snd sorted) -> nth_error (pq_sweep cur sorted out) i = nth_error out i).
Proof.
  induction sorted as [|[b i] t IH]; intros cur passed out E Sc Ss Fp N; cbn [pq_sweep].
  - split; [reflexivity|]. split; [intros q []|reflexivity].
  - destruct (seek_span_spec b cur Sc) as (sk & Ecur & Fsk & Einc & Sc').
    destruct (seek_span b cur) as [cur' inc]. cbn [fst snd] in *.
    inversion Ss as [|? ? Ss' Fb]; subst. inversion Fp as [|? ? Fpb Fpt]; subst.
    inversion N as [|? ? Ni N']; subst. cbn [fst snd] in *.
    destruct (IH cur' (passed ++ sk) (set_nth_bool out i (in_spans b (sk ++ cur')))) as (L & A & B); try assumption.
    + rewrite <- app_assoc. reflexivity.
    + rewrite Forall_forall in *. intros q Hq. apply Forall_app. split; [apply Fpt; assumption|].
      rewrite Forall_forall. intros s Hs. eapply less_mono; [apply (Fb q Hq)|]. auto.
    + rewrite set_nth_length in L. split; [exact L|]. split.
      * intros q [<-|Hq] Hlen; cbn [fst snd].
        -- rewrite B by assumption. rewrite set_nth_same by assumption.
           rewrite (in_spans_app b passed). rewrite (in_spans_less b passed Fpb). reflexivity.
        -- apply A; [assumption|]. now rewrite set_nth_length.
      * intros i' Hi'. cbn [map snd] in Hi'. rewrite B by (intro; apply Hi'; now right).
        apply set_nth_other. intro; apply Hi'; now left.
Qed.

Lemma pt_less_spec a b : pt_less_zyx a b = true <->
  (pz a < pz b \/ (pz a = pz b /\ (py a < py b \/ (py a = py b /\ px a < px b)))).
Proof.
  unfold pt_less_zyx. destruct a as [[ax ay] az], b as [[bx by_] bz]. unfold px, py, pz; cbn [fst snd].
  destruct (Z.ltb_spec az bz); [lia|]. destruct (Z.ltb_spec bz az); [lia|].
  destruct (Z.ltb_spec ay by_); [lia|]. destruct (Z.ltb_spec by_ ay); [lia|]. lia.
Qed.

Lemma ipt_le_trans a b c : ipt_le a b -> ipt_le b c -> ipt_le a c.
Proof. unfold ipt_le, pt_zyx_le. lia. Qed.

Lemma ipt_insert_perm q l : Permutation (q :: l) (ipt_insert q l).
Proof.
  induction l as [|h t IH]; cbn [ipt_insert]; [apply Permutation_refl|].
  destruct (pt_less_zyx (fst q) (fst h)); [apply Permutation_refl|].
  eapply perm_trans; [apply perm_swap|]. now constructor.
Qed.
Lemma ipt_sort_perm l : Permutation l (ipt_sort l).
Proof.
  induction l as [|h t IH]; cbn; [constructor|]. eapply perm_trans; [|apply ipt_insert_perm]. now constructor.
Qed.

Lemma ipt_insert_sorted q l : StronglySorted ipt_le l -> StronglySorted ipt_le (ipt_insert q l).
Proof.
  induction 1 as [|h t Ht IH Hh]; cbn [ipt_insert]; [repeat constructor|].
  destruct (pt_less_zyx (fst q) (fst h)) eqn:E.
  - assert (L : ipt_le q h) by (apply pt_less_spec in E; unfold ipt_le, pt_zyx_le; lia).
    constructor; [constructor; assumption|]. constructor; [exact L|].
    eapply Forall_impl; [|exact Hh]. intros e He. eapply ipt_le_trans; eassumption.
  - constructor; [exact IH|]. eapply Permutation_Forall; [apply ipt_insert_perm|]. constructor; [|exact Hh].
    assert (N : ~ (pz (fst q) < pz (fst h) \/ (pz (fst q) = pz (fst h) /\ (py (fst q) < py (fst h) \/ (py (fst q) = py (fst h) /\ px (fst q) < px (fst h)))))).
    { rewrite <- pt_less_spec, E. discriminate. }
    unfold ipt_le, pt_zyx_le. lia.
Qed.
Lemma ipt_sort_sorted l : StronglySorted ipt_le (ipt_sort l).
Proof. induction l; cbn; [constructor|now apply ipt_insert_sorted]. Qed.

Lemma index_from_snd cs : forall k, map snd (index_from k cs) = seq k (length cs).
Proof. induction cs as [|c t IH]; intro k; cbn; [reflexivity|]. now rewrite IH. Qed.

Lemma index_from_in cs : forall k c i, In (c, i) (index_from k cs) -> (k <= i)%nat /\ nth_error cs (i - k) = Some c.
Proof.
  induction cs as [|h t IH]; intros k c i H; [destruct H|]. cbn [index_from] in H. destruct H as [H|H].
  - inversion H; subst. rewrite Nat.sub_diag. split; [lia|reflexivity].
  - apply IH in H as (L & E). split; [lia|]. replace (i - k)%nat with (S (i - S k)) by lia. exact E.
Qed.

Lemma index_from_has cs : forall k i c, nth_error cs i = Some c -> In (c, (k + i)%nat) (index_from k cs).
Proof.
  induction cs as [|h t IH]; intros k [|i] c H; cbn in H; try discriminate.
  - inversion H; subst. left. f_equal. lia.
  - right. replace (k + S i)%nat with (S k + i)%nat by lia. apply IH. exact H.
Qed.

Lemma chunk_all_ok size pts : bsize_ok size -> Forall pt_safe pts ->
  chunk_all size pts = Ok (map (block_of size) pts).
Proof.
  intros Hs. induction 1 as [|p t Hp Ht IH]; [reflexivity|]. cbn [chunk_all map].
  rewrite chunk_pt_floor by assumption. now rewrite IH.
Qed.

Lemma list_ext {A} (a b : list A) : length a = length b ->
  (forall i, (i < length a)%nat -> nth_error a i = nth_error b i) -> a = b.
Proof.
  revert b. induction a as [|x a IH]; intros [|y b] L E; cbn in L; try discriminate; [reflexivity|].
  f_equal.
  - specialize (E 0%nat ltac:(cbn; lia)). cbn in E. congruence.
  - apply IH; [lia|]. intros i Hi. exact (E (S i) ltac:(cbn; lia)).
Qed.

(* the sweep gives membership whatever sorted order sort.Sort leaves equal points in *)
Lemma pq_any_sorted spans cs sorted : spans_sorted spans ->
  Permutation (index_from 0 cs) sorted -> StronglySorted ipt_le sorted ->
  pq_sweep spans sorted (repeat false (length cs)) = map (fun c => in_spans c spans) cs.
Proof.
  intros Ss P Sp.
  destruct (pq_sweep_spec spans sorted spans [] (repeat false (length cs))) as (L & A & _).
  - reflexivity.
  - assumption.
  - assumption.
  - rewrite Forall_forall. intros; constructor.
  - eapply Permutation_NoDup; [apply Permutation_map; exact P|]. rewrite index_from_snd. apply seq_NoDup.
  - apply list_ext.
    + rewrite L, repeat_length, map_length. reflexivity.
    + intros i Hi. rewrite L, repeat_length in Hi.
      destruct (nth_error cs i) as [c|] eqn:Hc; [|apply nth_error_None in Hc; lia].
      pose proof (index_from_has cs 0 i _ Hc) as I. cbn [Nat.add] in I.
      eapply Permutation_in in I; [|exact P].
      pose proof (A _ I) as A'. cbn [fst snd] in A'. rewrite A' by (rewrite repeat_length; assumption).
      rewrite nth_error_map, Hc. reflexivity.
Qed.

(* PointQuery: the answer for every point is membership of its block in the span set *)
Lemma point_query_ok size spans pts : bsize_ok size -> Forall pt_safe pts -> spans_sorted spans ->
  point_query size spans pts = Ok (map (fun p => in_spans (block_of size p) spans) pts).
Proof.
  intros Hs Hp Ss. unfold point_query. rewrite chunk_all_ok by assumption.
  replace (length pts) with (length (map (block_of size) pts)) by apply map_length.
  rewrite pq_any_sorted; [now rewrite map_map|assumption|apply ipt_sort_perm|apply ipt_sort_sorted].
Qed.

(* ---- VoxelBoundsInside ---- *)
Lemma bounds_inside_ok emin emax spans : spans_sorted spans ->
  bounds_inside emin emax spans = existsb (span_intersects_box emin emax) spans.
Proof.
  induction 1 as [|s tl Stl IH Fs]; [reflexivity|]. cbn [bounds_inside existsb].
  destruct (Z.ltb_spec (pz emax) (sz s)) as [Beyond|].
  - symmetry. apply orb_false_iff. split.
    + unfold span_intersects_box. lia.
    + rewrite <- not_true_iff_false. intro H. apply existsb_exists in H as (t & Ht & It).
      rewrite Forall_forall in Fs. specialize (Fs t Ht). unfold span_start_le, span_intersects_box in *. lia.
  - destruct ((sz s <? pz emin) || (sy s <? py emin) || (sx1 s <? px emin)) eqn:C1.
    + rewrite IH. replace (span_intersects_box emin emax s) with false; [reflexivity|].
      unfold span_intersects_box. lia.
    + destruct ((py emax <? sy s) || (px emax <? sx0 s)) eqn:C2.
      * rewrite IH. replace (span_intersects_box emin emax s) with false; [reflexivity|].
        unfold span_intersects_box. lia.
      * replace (span_intersects_box emin emax s) with true; [reflexivity|].
        unfold span_intersects_box. lia.
Qed.

Lemma voxel_bounds_inside_ok vmin vmax bs spans : pt_safe vmin -> pt_safe vmax -> bsize_ok bs ->
  spans_sorted spans ->
  voxel_bounds_inside vmin vmax bs spans
  = Ok (existsb (span_intersects_box (block_of bs vmin) (block_of bs vmax)) spans).
Proof.
  intros H1 H2 Hs S. unfold voxel_bounds_inside. rewrite !chunk_pt_floor by assumption.
  now rewrite bounds_inside_ok.
Qed.

(* a span meets a block box iff one of the box's blocks is in the span *)
Lemma intersects_iff_block emin emax s : px emin <= px emax -> sx0 s <= sx1 s ->
  (span_intersects_box emin emax s = true <->
   exists b, span_includes s b = true /\ px emin <= px b <= px emax /\ py emin <= py b <= py emax
             /\ pz emin <= pz b <= pz emax).
Proof.
  intros Hb Hs. unfold span_intersects_box, span_includes. split.
  - intro H. exists (Z.max (px emin) (sx0 s), sy s, sz s). unfold px, py, pz in *; cbn [fst snd]. lia.
  - intros (b & H & Hx & Hy & Hz). lia.
Qed.

(* ---- GetMask ---- *)
Definition span_ok (s : span) : Prop :=
  - 1048576 < sz s < 1048576 /\ - 1048576 < sy s < 1048576 /\ - 1048576 < sx0 s /\ sx0 s <= sx1 s /\ sx1 s < 1048576.
Definition mask_bs_ok (bs : pt) : Prop := 1 <= px bs <= 1024 /\ 1 <= py bs <= 1024 /\ 1 <= pz bs <= 1024.

Lemma block_range_iff bs b e P : 0 < bs -> (b * bs <= P /\ P <= (e + 1) * bs - 1) <-> (b <= P / bs <= e).
Proof.
  intro H. pose proof (Z.div_mod P bs ltac:(lia)). pose proof (Z.mod_pos_bound P bs H).
  set (q := P / bs) in *. set (r := P mod bs) in *. clearbody q r. subst P. split; intro; nia.
Qed.

Lemma mul_le_of_le_div bs b P : 0 < bs -> b <= P / bs -> b * bs <= P.
Proof.
  intros H L. pose proof (Z.div_mod P bs ltac:(lia)). pose proof (Z.mod_pos_bound P bs H).
  set (q := P / bs) in *. set (r := P mod bs) in *. clearbody q r. subst P. nia.
Qed.
Lemma le_mul_of_div_le bs e P : 0 < bs -> P / bs <= e -> P <= (e + 1) * bs - 1.
Proof.
  intros H L. pose proof (Z.div_mod P bs ltac:(lia)). pose proof (Z.mod_pos_bound P bs H).
  set (q := P / bs) in *. set (r := P mod bs) in *. clearbody q r. subst P. nia.
Qed.

Lemma w32_small v : - 2147483648 <= v < 2147483648 -> w32 v = v.
Proof. intro H. apply w32_id. unfold is32. change (2^31) with 2147483648. lia. Qed.

(* one axis of the painted box: relative voxel vx is painted iff its block is in [begB, endB] *)
Lemma voxel_range_spec bs begB endB begV endV vx :
  1 <= bs <= 1024 -> - 1048576 < begB -> begB <= endB -> endB < 1048576 ->
  - 1073741824 <= begV -> begV <= endV -> endV < 1073741824 + 1048576 -> endV - begV < 1073741824 ->
  0 <= vx <= endV - begV -> begB * bs <= endV -> begV <= (endB + 1) * bs - 1 ->
  let '(v0, v1) := voxel_range bs begB endB begV endV in
  ((v0 <=? vx) && (vx <=? v1)) = ((begB <=? (begV + vx) / bs) && ((begV + vx) / bs <=? endB)).
Proof.
  intros Hbs Hb Hbe He Hv Hve Hev Hsz Hvx Hm1 Hm2. unfold voxel_range, mul32.
  assert (B1 : - 1073741824 <= begB * bs <= 1073741824) by nia.
  assert (B2 : - 1073741824 <= (endB + 1) * bs <= 1073741824) by nia.
  rewrite (w32_small (begB * bs)) by lia. rewrite (w32_small (endB + 1)) by lia.
  rewrite (w32_small ((endB + 1) * bs)) by lia. rewrite (w32_small ((endB + 1) * bs - 1)) by lia.
  pose proof (block_range_iff bs begB endB (begV + vx) ltac:(lia)) as I.
  set (d := (begV + vx) / bs) in *. clearbody d.
  set (m1 := begB * bs) in *. set (m2 := (endB + 1) * bs) in *. clearbody m1 m2.
  destruct (Z.ltb_spec m1 begV); destruct (Z.ltb_spec endV (m2 - 1));
    rewrite !w32_small by lia; lia.
Qed.

Definition passes (minB maxB : pt) (s : span) : Prop :=
  pz minB <= sz s <= pz maxB /\ py minB <= sy s <= py maxB /\ px minB <= sx1 s /\ sx0 s <= px maxB.

Lemma mask_spans_exists minB maxB (f g : span -> bool) l : spans_sorted l ->
  (forall s, In s l -> passes minB maxB s -> f s = g s) ->
  (forall s, In s l -> g s = true -> passes minB maxB s) ->
  existsb f (mask_spans minB maxB l) = existsb g l.
Proof.
  induction 1 as [|s tl Stl IH Fs]; intros Hfg Hg; [reflexivity|]. cbn [mask_spans existsb].
  assert (IH' : existsb f (mask_spans minB maxB tl) = existsb g tl).
  { apply IH; intros; [apply Hfg|apply Hg]; auto; now right. }
  assert (Gs : g s = true -> passes minB maxB s) by (apply Hg; now left).
  assert (Skip : ~ passes minB maxB s -> g s = false).
  { intro N. destruct (g s); [exfalso; apply N; auto|reflexivity]. }
  destruct (Z.ltb_spec (sz s) (pz minB)); [rewrite IH', Skip; [reflexivity|unfold passes; lia]|].
  destruct (Z.ltb_spec (pz maxB) (sz s)) as [Beyond|].
  { cbn [existsb]. symmetry. apply orb_false_iff. split; [apply Skip; unfold passes; lia|].
    rewrite <- not_true_iff_false. intro H'. apply existsb_exists in H' as (t & Ht & Gt).
    rewrite Forall_forall in Fs. specialize (Fs t Ht). apply Hg in Gt; [|now right].
    unfold passes, span_start_le in *. lia. }
  destruct ((sy s <? py minB) || (py maxB <? sy s)) eqn:C1; [rewrite IH', Skip; [reflexivity|unfold passes; lia]|].
  destruct ((sx1 s <? px minB) || (px maxB <? sx0 s)) eqn:C2; [rewrite IH', Skip; [reflexivity|unfold passes; lia]|].
  cbn [existsb]. rewrite IH'. f_equal. apply Hfg; [now left|unfold passes; lia].
Qed.

Lemma filter_sorted (f : span -> bool) l : spans_sorted l -> spans_sorted (filter f l).
Proof.
  induction 1 as [|s tl Stl IH Fs]; cbn [filter]; [constructor|].
  destruct (f s); [|exact IH]. constructor; [exact IH|].
  rewrite Forall_forall in *. intros t Ht. apply filter_In in Ht as (Ht & _). auto.
Qed.

Lemma existsb_filter (f g : span -> bool) l : (forall s, g s = true -> f s = true) ->
  existsb g (filter f l) = existsb g l.
Proof.
  intro H. induction l as [|s tl IH]; [reflexivity|]. cbn [filter existsb].
  destruct (f s) eqn:E; cbn [existsb]; rewrite IH; [reflexivity|].
  destruct (g s) eqn:G; [rewrite (H s G) in E; discriminate|reflexivity].
Qed.

Lemma existsb_map' {A B} (h : A -> B) (f : B -> bool) l : existsb f (map h l) = existsb (fun a => f (h a)) l.
Proof. induction l as [|a t IH]; [reflexivity|]. cbn. now rewrite IH. Qed.

Definition mask_pre (bs offset size : pt) : Prop :=
  mask_bs_ok bs
  /\ (- 536870912 <= px offset <= 536870912 /\ - 536870912 <= py offset <= 536870912 /\ - 536870912 <= pz offset <= 536870912)
  /\ (1 <= px size <= 1048576 /\ 1 <= py size <= 1048576 /\ 1 <= pz size <= 1048576).
Definition in_size (size v : pt) : Prop :=
  0 <= px v < px size /\ 0 <= py v < py size /\ 0 <= pz v < pz size.
Definition padd (a b : pt) : pt := (px a + px b, py a + py b, pz a + pz b).

Lemma div_mono_bs a b bs : 0 < bs -> a <= b -> a / bs <= b / bs.
Proof. intros. apply Z.div_le_mono; lia. Qed.

(* divisions by the (variable) block size stay opaque to lia in this proof *)
Ltac Zify.zify_post_hook ::= idtac.

(* the repaired GetMask: a mask voxel is 1 iff the block of that voxel is in the span set *)
Lemma mask_at_ok bs offset size spans v :
  mask_pre bs offset size -> Forall span_ok spans -> spans_sorted spans -> in_size size v ->
  mask_at false bs offset size spans v = Ok (in_spans (block_of bs (padd offset v)) spans).
Proof.
  intros (Hbs & Ho & Hsz) Hsp Ss Hv.
  destruct bs as [[bx by_] bz], offset as [[ox oy] oz], size as [[nx ny] nz], v as [[vx vy] vz].
  unfold mask_bs_ok, in_size, padd, px, py, pz in *; cbn [fst snd] in *.
  unfold mask_at, mask_boxes, end_point, block_range. unfold px, py, pz; cbn [fst snd].
  rewrite !(w32_small (_ - 1)) by lia. rewrite !w32_small by lia.
  rewrite !chunk_pt_floor by (unfold pt_safe, bsize_ok, px, py, pz; cbn [fst snd]; lia).
  unfold block_of, px, py, pz; cbn [fst snd]. f_equal.
  rewrite existsb_map'.
  set (minB := (ox / bx, oy / by_, oz / bz)). set (maxB := ((ox + (nx - 1)) / bx, (oy + (ny - 1)) / by_, (oz + (nz - 1)) / bz)).
  set (B := ((ox + vx) / bx, (oy + vy) / by_, (oz + vz) / bz)).
  assert (HB : px minB <= px B <= px maxB /\ py minB <= py B <= py maxB /\ pz minB <= pz B <= pz maxB).
  { unfold minB, maxB, B, px, py, pz; cbn [fst snd]. repeat split; apply div_mono_bs; lia. }
  unfold in_spans.
  rewrite <- (existsb_filter (fun s : span => (oz / bz <=? sz s) && (sz s <=? (oz + (nz - 1)) / bz)) (fun s => span_includes s B) spans).
  2:{ intros s Hs. unfold span_includes, B, minB, maxB, px, py, pz in *; cbn [fst snd] in *. lia. }
  apply mask_spans_exists.
  - apply filter_sorted. assumption.
  - intros s Hs Ps. apply filter_In in Hs as (Hs & _). rewrite Forall_forall in Hsp. specialize (Hsp s Hs).
    unfold passes, span_ok, minB, maxB, B, px, py, pz in *; cbn [fst snd] in *.
    unfold in_box, span_box, span_includes, px, py, pz; cbn [fst snd].
    pose proof (voxel_range_spec bx (sx0 s) (sx1 s) ox (ox + (nx - 1)) vx) as X.
    pose proof (voxel_range_spec by_ (sy s) (sy s) oy (oy + (ny - 1)) vy) as Y.
    pose proof (voxel_range_spec bz (sz s) (sz s) oz (oz + (nz - 1)) vz) as Z'.
    destruct (voxel_range bx (sx0 s) (sx1 s) ox (ox + (nx - 1))) as [x0 x1].
    destruct (voxel_range by_ (sy s) (sy s) oy (oy + (ny - 1))) as [y0 y1].
    destruct (voxel_range bz (sz s) (sz s) oz (oz + (nz - 1))) as [z0 z1].
    assert (Ex : (x0 <=? vx) && (vx <=? x1) = (sx0 s <=? (ox + vx) / bx) && ((ox + vx) / bx <=? sx1 s)).
    { apply X; try lia.
      - apply mul_le_of_le_div; lia.
      - apply le_mul_of_div_le; lia. }
    assert (Ey : (y0 <=? vy) && (vy <=? y1) = (sy s <=? (oy + vy) / by_) && ((oy + vy) / by_ <=? sy s)).
    { apply Y; try lia.
      - apply mul_le_of_le_div; lia.
      - apply le_mul_of_div_le; lia. }
    assert (Ez : (z0 <=? vz) && (vz <=? z1) = (sz s <=? (oz + vz) / bz) && ((oz + vz) / bz <=? sz s)).
    { apply Z'; try lia.
      - apply mul_le_of_le_div; lia.
      - apply le_mul_of_div_le; lia. }
    set (qx := (ox + vx) / bx) in *. set (qy := (oy + vy) / by_) in *. set (qz := (oz + vz) / bz) in *.
    clearbody qx qy qz. clear X Y Z'.
    destruct (x0 <=? vx), (vx <=? x1), (y0 <=? vy), (vy <=? y1), (z0 <=? vz), (vz <=? z1); cbn [andb] in *; lia.
  - intros s Hs Is. unfold passes, span_includes, B, minB, maxB, px, py, pz in *; cbn [fst snd] in *. lia.
Qed.

Ltac Zify.zify_post_hook ::= Z.div_mod_to_equations.

From Coq Require Import ZifyNat.
Lemma mask_voxels_in size v : In v (mask_voxels size) -> in_size size v.
Proof.
  unfold mask_voxels. intro H. apply in_flat_map in H as (z & Hz & H). apply in_flat_map in H as (y & Hy & H).
  apply in_map_iff in H as (x & <- & Hx). apply in_seq in Hz, Hy, Hx.
  unfold in_size, px, py, pz in *; cbn [fst snd] in *. lia.
Qed.

Lemma get_mask_ok bs offset size spans :
  mask_pre bs offset size -> Forall span_ok spans -> spans_sorted spans ->
  get_mask false bs offset size spans
  = Ok (map (fun v => in_spans (block_of bs (padd offset v)) spans) (mask_voxels size)).
Proof.
  intros Hp Hs Ss. unfold get_mask.
  assert (A : forall v, in_size size v ->
              mask_at false bs offset size spans v = Ok (in_spans (block_of bs (padd offset v)) spans))
    by (intros; now apply mask_at_ok).
  unfold mask_at in A. destruct (mask_boxes false bs offset size spans) as [boxes| |].
  - f_equal. apply map_ext_in. intros v Hv. specialize (A v (mask_voxels_in size v Hv)). now apply Ok_inj in A.
  - destruct Hp as (_ & _ & Hsz). specialize (A (0, 0, 0)). unfold in_size, px, py, pz in *; cbn [fst snd] in *.
    discriminate A. lia.
  - destruct Hp as (_ & _ & Hsz). specialize (A (0, 0, 0)). unfold in_size, px, py, pz in *; cbn [fst snd] in *.
    discriminate A. lia.
Qed.

(* the code as it stands (block range by truncating division) misses spans below zero *)
Lemma mask_trunc_refuted :
  exists bs offset size spans v,
    mask_pre bs offset size /\ Forall span_ok spans /\ spans_sorted spans /\ in_size size v /\
    mask_at true bs offset size spans v <> Ok (in_spans (block_of bs (padd offset v)) spans).
Proof.
  exists (8, 8, 8), (-4, -4, -4), (4, 4, 4), [SP (-1) (-1) (-1) (-1)], (0, 0, 0).
  split; [unfold mask_pre, mask_bs_ok, px, py, pz; cbn; lia|].
  split; [repeat constructor; cbn; lia|]. split; [repeat constructor|].
  split; [unfold in_size, px, py, pz; cbn; lia|]. vm_compute. discriminate.
Qed.

(* for subvolumes with non-negative offsets both coincide *)
Lemma block_range_nonneg bs pt0 pt1 :
  bsize_ok bs -> pt_safe pt0 -> pt_safe pt1 -> 0 <= px pt0 -> 0 <= py pt0 -> 0 <= pz pt0 ->
  0 <= px pt1 -> 0 <= py pt1 -> 0 <= pz pt1 ->
  block_range true bs pt0 pt1 = block_range false bs pt0 pt1.
Proof.
  intros Hb H0 H1 ? ? ? ? ? ?. unfold block_range. rewrite !chunk_pt_floor by assumption.
  destruct bs as [[bx by_] bz], pt0 as [[x0 y0] z0], pt1 as [[x1 y1] z1].
  unfold bsize_ok, pt_safe, block_of, px, py, pz in *; cbn [fst snd] in *.
  replace ((bx =? 0) || (by_ =? 0) || (bz =? 0)) with false by lia.
  unfold quot32. rewrite !Z.quot_div_nonneg by lia.
  assert (W : forall a b, 0 <= a < 1073741824 -> 1 <= b -> w32 (a / b) = a / b).
  { intros a b Ha Hb'. apply w32_small. split.
    - pose proof (Z.div_pos a b ltac:(lia) ltac:(lia)). lia.
    - apply Z.le_lt_trans with a; [|lia]. apply Z.div_le_upper_bound; nia. }
  rewrite !W by lia. reflexivity.
Qed.
