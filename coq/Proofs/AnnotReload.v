(* Proofs.AnnotReload — POST blocks followed by reload of the annotation and of labelsz rebuilds
   every view from the block store. *)
From DV Require Import Base.Prelude Model.Annot Gen.Consts Proofs.AnnotBase Proofs.AnnotStore Proofs.AnnotViews
     Proofs.AnnotDelete Proofs.AnnotMove Proofs.AnnotLabels Proofs.AnnotBlocks.
From Coq Require Import Permutation.
Local Open Scope Z_scope.

(* ---------- store_blocks ---------- *)
Lemma store_blocks_other bl bk b : ~ In b (map fst bl) -> bget (store_blocks bl bk) b = bget bk b.
Proof.
  unfold store_blocks. revert bk. induction bl as [|[k v] bl IH]; intros bk H; cbn [fold_left]; [reflexivity|].
  cbn in H. rewrite IH by tauto. rewrite bget_aput. cbn [fst].
  destruct (pos_eqb k b) eqn:E; [apply pos_eqb_eq in E; subst; tauto | reflexivity].
Qed.
Lemma store_blocks_in bl bk b es : NoDup (map fst bl) -> In (b, es) bl -> bget (store_blocks bl bk) b = es.
Proof.
  unfold store_blocks. revert bk. induction bl as [|[k v] bl IH]; intros bk ND H; [contradiction|].
  cbn in ND. apply NoDup_cons_iff in ND as [Hn ND]. cbn [fold_left]. destruct H as [H|H].
  - inversion H; subst. fold (store_blocks bl (aput b es bk)). rewrite store_blocks_other by exact Hn.
    rewrite bget_aput. cbn [fst snd]. now rewrite pos_eqb_refl.
  - now apply IH.
Qed.
Lemma store_blocks_keys bl bk b : In b (map fst (store_blocks bl bk)) <-> In b (map fst bl) \/ In b (map fst bk).
Proof.
  unfold store_blocks. revert bk. induction bl as [|[k v] bl IH]; intro bk; cbn [fold_left map]; [cbn; tauto|].
  rewrite IH. cbn. tauto.
Qed.

(* ---------- the element set after POST blocks ---------- *)
Lemma g_blocks_spec bs bl G : uniq G -> blocks_wf bs bl ->
  uniq (g_blocks bs bl G)
  /\ forall x, In x (g_blocks bs bl G) <-> (exists b es, In (b, es) bl /\ In x es) \/ (In x G /\ ~ In (blockOf bs (e_pos x)) (map fst bl)).
Proof.
  intros UG [NDk [Ufl Hwf]]. unfold g_blocks.
  assert (Hfl : forall x, In x (flat_map snd bl) <-> exists b es, In (b, es) bl /\ In x es).
  { intro x. rewrite in_flat_map. split.
    - intros [[b es] [Hb Hx]]. eauto.
    - intros [b [es [Hb Hx]]]. exists (b, es). auto. }
  split.
  - apply uniq_app; [exact Ufl | now apply uniq_filter|].
    intros p Hp Hq. apply posl_in in Hp as [x [Hx Ex]]. apply Hfl in Hx as [b [es [Hb Hx]]].
    destruct (Hwf b es x Hb Hx) as [Hxb _].
    apply posl_in in Hq as [y [Hy Ey]]. apply filter_In in Hy as [_ Hy]. apply negb_true_iff, mem_pos_nIn in Hy.
    apply Hy. rewrite Ey, <- Ex, Hxb. apply in_map_iff. exists (b, es). auto.
  - intro x. rewrite in_app_iff, Hfl, filter_In, negb_true_iff, mem_pos_nIn. reflexivity.
Qed.

Lemma NoDup_app_l {A} (a b : list A) : NoDup (a ++ b) -> NoDup a.
Proof.
  induction a as [|x a IH]; cbn; intro H; [constructor|]. apply NoDup_cons_iff in H as [Hn H].
  apply NoDup_cons_iff. split; [intro Hi; apply Hn; apply in_app_iff; now left | now apply IH].
Qed.
Lemma NoDup_app_r {A} (a b : list A) : NoDup (a ++ b) -> NoDup b.
Proof. induction a as [|x a IH]; cbn; intro H; [exact H|]. apply NoDup_cons_iff in H as [_ H]. now apply IH. Qed.

Lemma sub_uniq (l : list elem) (bl : list (pos * list elem)) b es : uniq (flat_map snd bl) -> In (b, es) bl -> uniq es.
Proof.
  intros U H. induction bl as [|[k v] bl IH]; [contradiction|]. cbn [flat_map snd] in U.
  unfold uniq in U. rewrite posl_app in U. destruct H as [H|H].
  - inversion H; subst. now apply NoDup_app_l in U.
  - apply IH; [now apply NoDup_app_r in U | exact H].
Qed.

Lemma nodup_keys_fun {A} (bl : list (pos * A)) b x y : NoDup (map fst bl) -> In (b, x) bl -> In (b, y) bl -> x = y.
Proof.
  induction bl as [|[k v] bl IH]; intros ND Hx Hy; [contradiction|]. cbn in ND. apply NoDup_cons_iff in ND as [Hn ND].
  destruct Hx as [Hx|Hx], Hy as [Hy|Hy].
  - inversion Hx; inversion Hy; subst. reflexivity.
  - inversion Hx; subst. exfalso. apply Hn. apply in_map_iff. exists (b, y). auto.
  - inversion Hy; subst. exfalso. apply Hn. apply in_map_iff. exists (b, x). auto.
  - now apply IH.
Qed.

Lemma reload_block_view bs bl G s b : ViewsI bs G s -> blocks_wf bs bl ->
  is_bview bs (g_blocks bs bl G) b (bget (store_blocks bl (blk s)) b).
Proof.
  intros V Hwf. destruct (g_blocks_spec bs bl G (vi_uniq _ _ _ V) Hwf) as [_ HG]. destruct Hwf as [NDk [Ufl Hwf]].
  destruct (in_dec pos_dec b (map fst bl)) as [Hin|Hnin].
  - apply in_map_iff in Hin as [[b' es] [Eb Hb]]. cbn in Eb. subst b'.
    rewrite (store_blocks_in bl (blk s) b es NDk Hb). split; [eapply (sub_uniq []); eauto|].
    intro x. rewrite HG. split.
    + intro Hx. split; [left; eauto | apply (Hwf b es x Hb Hx)].
    + intros [[[b' [es' [Hb' Hx]]]|[_ Hn]] Hxb].
      * destruct (Hwf b' es' x Hb' Hx) as [E _]. assert (Ebb : b' = b) by congruence. rewrite Ebb in Hb'.
        assert (es' = es) by (apply (nodup_keys_fun bl b es' es NDk Hb' Hb)). now subst.
      * exfalso. apply Hn. rewrite Hxb. apply in_map_iff. exists (b, es). auto.
  - rewrite (store_blocks_other bl (blk s) b Hnin). destruct (vi_block _ _ _ V b) as [Ub Hb]. split; [exact Ub|].
    intro x. rewrite Hb, HG. split.
    + intros [Hx Hxb]. split; [right; split; [exact Hx | now rewrite Hxb] | exact Hxb].
    + intros [[[b' [es' [Hb' Hx]]]|[Hx _]] Hxb]; [|auto].
      destruct (Hwf b' es' x Hb' Hx) as [E _]. exfalso. apply Hnin. rewrite <- Hxb, E. apply in_map_iff. exists (b', es'). auto.
Qed.

Lemma all_elems_spec bs G' (bk : amap pos) : (forall b, is_bview bs G' b (bget bk b)) ->
  uniq (all_elems bk) /\ forall x, In x (all_elems bk) <-> In x G'.
Proof.
  intro H. unfold all_elems. split.
  - replace (flat_map (bget bk) (akeys pos_eqb bk)) with (flat_map (fun b => filter (fun _ => true) (bget bk b)) (akeys pos_eqb bk)).
    + apply (flat_bviews_uniq bs G'); [apply nodupb_NoDup; exact pos_eqb_eq | intros b _; apply H].
    + apply flat_map_ext. intro b. apply filter_id. reflexivity.
  - intro x. rewrite in_flat_map. split.
    + intros [b [_ Hx]]. apply (H b) in Hx. tauto.
    + intro Hx. exists (blockOf bs (e_pos x)). assert (Hin : In x (bget bk (blockOf bs (e_pos x)))) by (apply (H _); auto).
      split; [|exact Hin]. unfold bget in Hin. eapply aget_nonempty_key; [exact pos_eqb_eq | exact Hin].
Qed.

(* ---------- labelsz reload ---------- *)
Lemma kind_idx_range k : In (kind_idx k) [n_sz_UnknownIndex; n_sz_PostSyn; n_sz_PreSyn; n_sz_Gap; n_sz_Note].
Proof. unfold kind_idx. repeat match goal with |- context [if ?c then _ else _] => destruct c end; cbn; tauto. Qed.

Lemma count_idx_other i l : ~ In i [n_sz_UnknownIndex; n_sz_PostSyn; n_sz_PreSyn; n_sz_Gap; n_sz_Note] -> i <> n_sz_AllSyn -> count_idx i l = 0.
Proof.
  intros H1 H2. unfold count_idx. replace (filter (fun e => idx_match i (e_kind e)) l) with (@nil elem); [reflexivity|].
  symmetry. induction l as [|a l IH]; cbn; [reflexivity|]. unfold idx_match at 1.
  apply N.eqb_neq in H2. rewrite H2. destruct (kind_idx (e_kind a) =? i)%N eqn:E; [|exact IH].
  apply N.eqb_eq in E. exfalso. apply H1. rewrite <- E. apply kind_idx_range.
Qed.

Definition sz_one (lb : amap N) (acc : cmap) (l : N) : cmap :=
  let el := nget lb l in
  match el with
  | [] => acc
  | _ =>
    let per := fold_left (fun a i => let c := count_idx i el in if 0 <? c then cput (i, l) c a else a)
                         [n_sz_UnknownIndex; n_sz_PostSyn; n_sz_PreSyn; n_sz_Gap; n_sz_Note] acc in
    let c := count_idx n_sz_AllSyn el in if 0 <? c then cput (n_sz_AllSyn, l) c per else per
  end.

Lemma fold_idx_get el l (is : list N) acc i l' :
  cget (fold_left (fun a i => if 0 <? count_idx i el then cput (i, l) (count_idx i el) a else a) is acc) (i, l')
  = if (l =? l')%N && existsb (N.eqb i) is && (0 <? count_idx i el) then count_idx i el else cget acc (i, l').
Proof.
  revert acc. induction is as [|j is IH]; intro acc; cbn [fold_left existsb]; [now rewrite andb_false_r|].
  rewrite IH.
  assert (Hstep : cget (if 0 <? count_idx j el then cput (j, l) (count_idx j el) acc else acc) (i, l')
                  = if (l =? l')%N && (i =? j)%N && (0 <? count_idx i el) then count_idx i el else cget acc (i, l')).
  { destruct (0 <? count_idx j el) eqn:Ej.
    - rewrite cget_cput. unfold ckey_eqb. cbn [fst snd]. rewrite (N.eqb_sym j i).
      destruct (i =? j)%N eqn:Eij; cbn [andb].
      + apply N.eqb_eq in Eij. subst j. rewrite Ej. destruct (l =? l')%N; reflexivity.
      + now rewrite andb_false_r.
    - destruct (i =? j)%N eqn:Eij; [apply N.eqb_eq in Eij; subst j; rewrite Ej, andb_false_r; reflexivity|].
      rewrite andb_false_r. reflexivity. }
  rewrite Hstep. destruct (l =? l')%N, (i =? j)%N, (existsb (N.eqb i) is), (0 <? count_idx i el); reflexivity.
Qed.

Lemma sz_one_get lb acc l i l' : (forall i, cget acc (i, l) = 0) ->
  cget (sz_one lb acc l) (i, l') = if (l =? l')%N then count_idx i (nget lb l) else cget acc (i, l').
Proof.
  intro H0. unfold sz_one. destruct (nget lb l) as [|x xs] eqn:El.
  - destruct (l =? l')%N eqn:E; [|reflexivity]. apply N.eqb_eq in E. subst l'. rewrite H0. reflexivity.
  - rewrite <- El. set (el := nget lb l). cbv zeta.
    assert (Hall : cget (if 0 <? count_idx n_sz_AllSyn el then cput (n_sz_AllSyn, l) (count_idx n_sz_AllSyn el)
                           (fold_left (fun a i0 => if 0 <? count_idx i0 el then cput (i0, l) (count_idx i0 el) a else a)
                                      [n_sz_UnknownIndex; n_sz_PostSyn; n_sz_PreSyn; n_sz_Gap; n_sz_Note] acc)
                         else fold_left (fun a i0 => if 0 <? count_idx i0 el then cput (i0, l) (count_idx i0 el) a else a)
                                        [n_sz_UnknownIndex; n_sz_PostSyn; n_sz_PreSyn; n_sz_Gap; n_sz_Note] acc) (i, l')
                   = if (l =? l')%N && (i =? n_sz_AllSyn)%N && (0 <? count_idx i el) then count_idx i el
                     else cget (fold_left (fun a i0 => if 0 <? count_idx i0 el then cput (i0, l) (count_idx i0 el) a else a)
                                          [n_sz_UnknownIndex; n_sz_PostSyn; n_sz_PreSyn; n_sz_Gap; n_sz_Note] acc) (i, l')).
    { destruct (0 <? count_idx n_sz_AllSyn el) eqn:Ea.
      - rewrite cget_cput. unfold ckey_eqb. cbn [fst snd]. rewrite (N.eqb_sym n_sz_AllSyn i).
        destruct (i =? n_sz_AllSyn)%N eqn:Ei; cbn [andb].
        + apply N.eqb_eq in Ei. subst i. rewrite Ea. destruct (l =? l')%N; reflexivity.
        + now rewrite andb_false_r.
      - destruct (i =? n_sz_AllSyn)%N eqn:Ei; [apply N.eqb_eq in Ei; subst i; rewrite Ea, andb_false_r; reflexivity|].
        rewrite andb_false_r. reflexivity. }
    rewrite Hall, fold_idx_get.
    destruct (l =? l')%N eqn:E; cbn [andb]; [|reflexivity]. apply N.eqb_eq in E. subst l'. rewrite H0.
    pose proof (count_idx_nonneg i el) as Hnn.
    destruct (i =? n_sz_AllSyn)%N eqn:Ei; cbn [andb].
    + destruct (0 <? count_idx i el) eqn:Ec; [reflexivity|]. apply Z.ltb_ge in Ec.
      apply N.eqb_eq in Ei. subst i.
      assert (Hex : existsb (N.eqb n_sz_AllSyn) [n_sz_UnknownIndex; n_sz_PostSyn; n_sz_PreSyn; n_sz_Gap; n_sz_Note] = false) by reflexivity.
      rewrite Hex. cbn [andb]. lia.
    + destruct (existsb (N.eqb i) [n_sz_UnknownIndex; n_sz_PostSyn; n_sz_PreSyn; n_sz_Gap; n_sz_Note]) eqn:Ex; cbn [andb].
      * destruct (0 <? count_idx i el) eqn:Ec; [reflexivity|]. apply Z.ltb_ge in Ec. lia.
      * symmetry. apply count_idx_other; [|now apply N.eqb_neq].
        intro Hi. assert (existsb (N.eqb i) [n_sz_UnknownIndex; n_sz_PostSyn; n_sz_PreSyn; n_sz_Gap; n_sz_Note] = true).
        { apply existsb_exists. exists i. split; [exact Hi | apply N.eqb_refl]. }
        congruence.
Qed.

Lemma sz_reload_get lb i l : cget (sz_reload true lb) (i, l) = count_idx i (nget lb l).
Proof.
  unfold sz_reload.
  assert (Hf : forall ks acc, NoDup ks -> (forall k j, In k ks -> cget acc (j, k) = 0) ->
     cget (fold_left (sz_one lb) ks acc) (i, l) = if existsb (fun k => (k =? l)%N) ks then count_idx i (nget lb l) else cget acc (i, l)).
  { induction ks as [|k ks IH]; intros acc ND H0; cbn [fold_left existsb]; [reflexivity|].
    apply NoDup_cons_iff in ND as [Hn ND]. rewrite IH; [|exact ND|].
    - rewrite sz_one_get by (intro j; apply H0; now left).
      destruct (k =? l)%N eqn:E; cbn [orb]; [|reflexivity].
      apply N.eqb_eq in E. subst k.
      assert (Hf : existsb (fun k => (k =? l)%N) ks = false).
      { apply not_true_is_false. intro Hx. apply (existsb_eqb_In N.eqb N_eqb_ok) in Hx. contradiction. }
      now rewrite Hf.
    - intros k' j Hk'. rewrite sz_one_get by (intro j'; apply H0; now left).
      destruct (k =? k')%N eqn:E; [apply N.eqb_eq in E; subst; contradiction|]. apply H0. now right. }
  change (fold_left _ (akeys N.eqb lb) []) with (fold_left (sz_one lb) (akeys N.eqb lb) []).
  rewrite Hf; [|apply nodupb_NoDup; exact N_eqb_ok | reflexivity].
  destruct (existsb (fun k => (k =? l)%N) (akeys N.eqb lb)) eqn:E; [reflexivity|]. cbn [cget].
  assert (Hn : nget lb l = []).
  { unfold nget. apply (aget_nokey N.eqb N_eqb_ok). intro Hi. apply (akeys_In N.eqb N_eqb_ok) in Hi.
    apply (existsb_eqb_In N.eqb N_eqb_ok) in Hi. congruence. }
  rewrite Hn. reflexivity.
Qed.

(* ---------- the composite step ---------- *)
Lemma blocks_ok_wf bs bl : NoDup (map fst bl) -> blocks_ok bs bl = true -> blocks_wf bs bl.
Proof.
  intros ND Hok. unfold blocks_ok in Hok. rewrite forallb_forall in Hok.
  assert (Hper : forall b es, In (b, es) bl -> uniq es /\ (forall e, In e es -> blockOf bs (e_pos e) = b /\ NoDup (e_tags e))).
  { intros b es Hb. specialize (Hok (b, es) Hb). cbn [fst snd] in Hok. apply andb_true_iff in Hok as [H1 H2].
    destruct (elems_ok_true es H1) as [U Ht]. rewrite forallb_forall in H2. split; [exact U|].
    intros e He. split; [apply pos_eqb_eq; now apply H2 | now apply Ht]. }
  split; [exact ND|]. split.
  - clear Hok. induction bl as [|[k v] bl IH]; cbn [flat_map snd]; [constructor|].
    cbn in ND. apply NoDup_cons_iff in ND as [Hn ND]. fold (posl (v ++ flat_map snd bl)). apply uniq_app.
    + apply (Hper k v). now left.
    + apply IH; [exact ND|]. intros b es Hb. apply Hper. now right.
    + intros p Hp Hq. apply posl_in in Hp as [x [Hx Ex]]. destruct (Hper k v (or_introl eq_refl)) as [_ Hk]. destruct (Hk x Hx) as [Hxb _].
      apply posl_in in Hq as [y [Hy Ey]]. apply in_flat_map in Hy as [[k' v'] [Hb' Hy]]. cbn in Hy.
      destruct (Hper k' v' (or_intror Hb')) as [_ Hk']. destruct (Hk' y Hy) as [Hyb _].
      apply Hn. apply in_map_iff. exists (k', v'). split; [cbn; congruence | exact Hb'].
  - intros b es e Hb He. now apply (Hper b es Hb).
Qed.

Theorem reload_views bs G s bl :
  ViewsI bs G s -> NoDup (map fst bl) ->
  ViewsI bs (gstep bs (OReload bl) G) (step_or_stay fixed bs (OReload bl) s)
  /\ body (step_or_stay fixed bs (OReload bl) s) = body s
  /\ step fixed bs (OReload bl) s <> Panic.
Proof.
  intros V ND. unfold step_or_stay. cbn [step gstep]. unfold reload. cbn [fx_allsyn fx_valid fixed].
  destruct (blocks_ok bs bl) eqn:Hok; cbn [negb andb].
  2:{ split; [exact V | split; [reflexivity | discriminate]]. }
  pose proof (blocks_ok_wf bs bl ND Hok) as Hwf.
  split; [|split; [reflexivity | discriminate]].
  destruct (g_blocks_spec bs bl G (vi_uniq _ _ _ V) Hwf) as [UG' HG'].
  set (bk := store_blocks bl (blk s)).
  assert (Hbv : forall b, is_bview bs (g_blocks bs bl G) b (bget bk b)) by (intro b; now apply reload_block_view).
  destruct (all_elems_spec bs _ bk Hbv) as [Uall Hall].
  assert (Htags' : forall e, In e (g_blocks bs bl G) -> NoDup (e_tags e)).
  { intros e He. apply HG' in He as [[b [es [Hb He]]]|[He _]]; [apply (proj2 (proj2 Hwf) b es e Hb He) | now apply (vi_tags _ _ _ V)]. }
  constructor; cbn [blk tgs lbl cnt body].
  - exact UG'.
  - exact Htags'.
  - exact Hbv.
  - intro t. rewrite groups_store_get. split.
    + unfold uniq. rewrite tag_groups_posl by (intros e He; apply Htags'; now apply Hall). apply uniq_filter. exact Uall.
    + intro x. rewrite tag_groups_In by (intros e He; apply Htags'; now apply Hall). split.
      * intros [e [He H]]. exists e. split; [now apply Hall | exact H].
      * intros [e [He H]]. exists e. split; [now apply Hall | exact H].
  - intros l Hl. rewrite groups_store_get, label_groups_get by exact Hl. split.
    + apply uniq_map_nr, uniq_filter. exact Uall.
    + intro x. rewrite in_map_iff. split.
      * intros [e [<- He]]. apply filter_In in He as [He Eb]. apply N.eqb_eq in Eb. exists e. split; [now apply Hall | auto].
      * intros [e [He [-> Eb]]]. exists e. split; [reflexivity|]. apply filter_In. split; [now apply Hall | now apply N.eqb_eq].
  - rewrite groups_store_get. apply label_groups_get0.
  - intros i l _. apply sz_reload_get.
Qed.
