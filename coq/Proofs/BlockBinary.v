(* Proofs.BlockBinary: the binary-block view.  ReceiveBinaryBlocks / BinaryBlock.Read of what
   WriteBinaryBlocks wrote for a well-formed block with a duplicate-free label table is the mask
   of the label set in the decoded array. *)
From DV Require Import Base.Prelude Base.Int Base.BitPack Model.Block Model.BlockViews Model.BlockOps
     Model.Downres Proofs.BitPack Proofs.Block Proofs.BlockMarshal Proofs.BlockViews Proofs.BlockOps Proofs.Downres
     Proofs.BlockCount Gen.Consts.
From Coq Require Import Permutation.
From Coq Require Import ZifyN ZifyNat ZifyBool.
Ltac Zify.zify_post_hook ::= Z.div_mod_to_equations.
Local Open Scope N_scope.

(* ---------------- mask bytes ---------------- *)

Definition unmask (bs : bytes) : list bool :=
  flat_map (fun byte => map (fun i => N.testbit byte i) (nseq 8)) bs.

Lemma unmask_mask8 b0 b1 b2 b3 b4 b5 b6 b7 :
  unmask (mask_bytes [b0; b1; b2; b3; b4; b5; b6; b7]) = [b0; b1; b2; b3; b4; b5; b6; b7].
Proof. destruct b0, b1, b2, b3, b4, b5, b6, b7; reflexivity. Qed.

Lemma unmask_mask (fg : list bool) : forall n, length fg = (8 * n)%nat -> unmask (mask_bytes fg) = fg.
Proof.
  intro n. revert fg. induction n as [|n IH]; intros fg L.
  - destruct fg; [reflexivity | simpl in L; lia].
  - destruct fg as [|b0 [|b1 [|b2 [|b3 [|b4 [|b5 [|b6 [|b7 r]]]]]]]]; try (simpl in L; lia).
    assert (Lr : length r = (8 * n)%nat) by (simpl in L; lia).
    change (mask_bytes (b0 :: b1 :: b2 :: b3 :: b4 :: b5 :: b6 :: b7 :: r))
      with (mask_bytes [b0; b1; b2; b3; b4; b5; b6; b7] ++ mask_bytes r).
    unfold unmask. rewrite flat_map_app. fold (unmask (mask_bytes [b0; b1; b2; b3; b4; b5; b6; b7])).
    fold (unmask (mask_bytes r)). rewrite unmask_mask8, (IH r Lr). reflexivity.
Qed.

Lemma mask_bytes_length (fg : list bool) : forall n, length fg = (8 * n)%nat -> length (mask_bytes fg) = n.
Proof.
  intro n. revert fg. induction n as [|n IH]; intros fg L.
  - destruct fg; [reflexivity | simpl in L; lia].
  - destruct fg as [|b0 [|b1 [|b2 [|b3 [|b4 [|b5 [|b6 [|b7 r]]]]]]]]; try (simpl in L; lia).
    assert (Lr : length r = (8 * n)%nat) by (simpl in L; lia).
    change (mask_bytes (b0 :: b1 :: b2 :: b3 :: b4 :: b5 :: b6 :: b7 :: r))
      with (mask_bytes [b0; b1; b2; b3; b4; b5; b6; b7] ++ mask_bytes r).
    rewrite app_length, (IH r Lr). reflexivity.
Qed.

(* ---------------- one sub-block of the stream, written then read ---------------- *)

Definition sb_code (fg : list bool) : bytes :=
  match fg with
  | [] => [0]
  | _ => if forallb (fun x => x) fg then [1]
         else if existsb (fun x => x) fg then 2 :: mask_bytes fg else [0]
  end.

Lemma forallb_all_true (fg : list bool) : forallb (fun x => x) fg = true -> fg = repeat true (length fg).
Proof. induction fg as [|b fg IH]; simpl; [reflexivity|]. destruct b; simpl; [intro H; f_equal; auto | discriminate]. Qed.

Lemma existsb_all_false (fg : list bool) : existsb (fun x => x) fg = false -> fg = repeat false (length fg).
Proof. induction fg as [|b fg IH]; simpl; [reflexivity|]. destruct b; simpl; [discriminate | intro H; f_equal; auto]. Qed.

Lemma read_sbs_codes (fgs : list (list bool)) rest :
  Forall (fun fg => length fg = 512%nat) fgs ->
  read_sbs (length fgs) (flat_map sb_code fgs ++ rest) = Ok fgs.
Proof.
  induction 1 as [|fg fgs Hfg _ IH]; [reflexivity|].
  cbn [length flat_map read_sbs]. rewrite <- app_assoc.
  unfold sb_code at 1. destruct fg as [|b fg'] eqn:Efg; [simpl in Hfg; lia|]. rewrite <- Efg in *. clear Efg b fg'.
  destruct (forallb (fun x => x) fg) eqn:FA.
  - cbn [app]. change (1 =? 0) with false. change (1 =? 1) with true. cbn iota.
    pose proof (forallb_all_true fg FA) as E. rewrite Hfg in E. rewrite IH, E. reflexivity.
  - destruct (existsb (fun x => x) fg) eqn:EX.
    + cbn [app]. change (2 =? 0) with false. change (2 =? 1) with false. change (2 =? 2) with true. cbn iota.
      pose proof (mask_bytes_length fg 64 ltac:(rewrite Hfg; reflexivity)) as ML.
      replace (Nat.ltb (length (mask_bytes fg ++ flat_map sb_code fgs ++ rest)) 64) with false
        by (symmetry; apply Nat.ltb_ge; rewrite app_length; lia).
      destruct (take_app (mask_bytes fg) (flat_map sb_code fgs ++ rest) 64 (eq_sym ML)) as [F S].
      rewrite F, S, IH. fold (unmask (mask_bytes fg)).
      rewrite (unmask_mask fg 64) by (rewrite Hfg; reflexivity). reflexivity.
    + cbn [app]. change (0 =? 0) with true. cbn iota.
      pose proof (existsb_all_false fg EX) as E. rewrite Hfg in E. rewrite IH, E. reflexivity.
Qed.

(* ---------------- the foreground flags of a well-formed block ---------------- *)

Section Stream.
  Variables (b : block) (inds lbls : list N).
  Hypothesis Hinds : forall ix v, nth_N (b_labels b) ix = Some v -> mem ix inds = mem v lbls.
  Let f (v : N) : bool := mem v lbls.

  Lemma sb_fg_sem ixs vs vox pre_i post_i pre_v post_v :
    sb_sem (b_labels b) ixs vs vox ->
    b_idx b = pre_i ++ ixs ++ post_i -> b_vals b = pre_v ++ vs ++ post_v ->
    sb_fg b inds (N.of_nat (length pre_i), 8 * N.of_nat (length pre_v)) (N.of_nat (length ixs))
    = Ok (map f vox, (N.of_nat (length (pre_i ++ ixs)), 8 * N.of_nat (length (pre_v ++ vs)))).
  Proof.
    intros [Hn [Hix [Hvox [Hvs Hf]]]] Ei Ev.
    set (n := N.of_nat (length ixs)) in *. set (k := bits_for n) in *.
    unfold sb_fg. fold k.
    replace (n =? 0) with false by (symmetry; apply N.eqb_neq; lia).
    assert (Epos : N.of_nat (length pre_i) + n = N.of_nat (length (pre_i ++ ixs))) by (rewrite app_length; unfold n; lia).
    destruct (n =? 1) eqn:N1.
    - apply N.eqb_eq in N1.
      assert (K0 : k = 0) by (unfold k; rewrite N1; reflexivity).
      destruct ixs as [|ix0 [|ix1 ixs']]; [simpl in n; lia| |unfold n in N1; simpl length in N1; lia].
      assert (Hx : nth_N (b_idx b) (N.of_nat (length pre_i)) = Some ix0).
      { rewrite Ei. rewrite <- (N.add_0_r (N.of_nat (length pre_i))). rewrite nth_N_app_r. reflexivity. }
      rewrite Hx. rewrite K0 in Hvs.
      replace (8 * N.of_nat (length (pre_v ++ vs))) with (8 * N.of_nat (length pre_v)) by (rewrite app_length; lia).
      replace (N.of_nat (length pre_i) + 1) with (N.of_nat (length (pre_i ++ [ix0]))) by (rewrite app_length; simpl; lia).
      f_equal. f_equal.
      apply list_eq_nth; [rewrite repeat_length, map_length; now symmetry|].
      intros j a Hj. assert (Hlt : (j < 512)%nat) by (rewrite <- (repeat_length (mem ix0 inds) 512); apply nth_error_Some; congruence).
      rewrite nth_error_repeat' in Hj by exact Hlt. inversion Hj; subst a.
      rewrite nth_error_map. destruct (nth_error vox j) as [v|] eqn:Ev'; [|apply nth_error_None in Ev'; lia].
      cbn [option_map]. f_equal.
      destruct (Hf j v Ev') as [f0 [ix [F1 [F2 F3]]]].
      unfold field in F1. rewrite K0 in F1. cbn [N.eqb] in F1. apply Ok_inj in F1. subst f0.
      unfold nth_N in F2. simpl in F2. inversion F2; subst ix.
      unfold f. symmetry. now apply Hinds.
    - apply N.eqb_neq in N1.
      assert (Hk : 1 <= k <= 9) by (apply bits_for_range; lia).
      assert (M : mapR (fun i => match get_packed (b_vals b) (8 * N.of_nat (length pre_v) + i * k) k with
                                 | Ok v => if n <=? v then Panic
                                           else match nth_N (b_idx b) (N.of_nat (length pre_i) + v) with
                                                | Some ix => Ok (mem ix inds) | None => Panic end
                                 | Err => Err | Panic => Panic end) (nseq 512) = Ok (map f vox)).
      { apply mapR_nseq_build; [rewrite map_length; lia|].
        intros j a Hj. rewrite nth_error_map in Hj.
        destruct (nth_error vox j) as [v|] eqn:Ev'; [|discriminate]. cbn [option_map] in Hj. inversion Hj; subst a.
        destruct (Hf j v Ev') as [f0 [ix [F1 [F2 F3]]]].
        unfold field in F1. replace (k =? 0) with false in F1 by (symmetry; apply N.eqb_neq; lia).
        rewrite Ev, get_packed_shift, (get_packed_mono _ _ _ _ _ F1).
        assert (Hfn : f0 < n) by (apply nth_N_Some_lt in F2; unfold n; lia).
        replace (n <=? f0) with false by (symmetry; apply N.leb_gt; exact Hfn).
        rewrite Ei, nth_N_app_r, (nth_N_app_Some _ _ _ _ F2). f_equal. unfold f. now apply Hinds. }
      rewrite M. rewrite Epos.
      replace (8 * N.of_nat (length (pre_v ++ vs))) with (8 * N.of_nat (length pre_v) + 512 * k) by (rewrite app_length; lia).
      reflexivity.
  Qed.

  Lemma sbs_stream_sem ns idx vals voxs :
    Sem (b_labels b) ns idx vals voxs ->
    forall pre_i pre_v, b_idx b = pre_i ++ idx -> b_vals b = pre_v ++ vals ->
    sbs_stream b inds (N.of_nat (length pre_i), 8 * N.of_nat (length pre_v)) ns
    = Ok (flat_map sb_code (map (map f) voxs)).
  Proof.
    induction 1 as [|ixs vs vox ns idx vals voxs Hsb _ IH]; intros pre_i pre_v Ei Ev; [reflexivity|].
    cbn [sbs_stream map flat_map].
    rewrite (sb_fg_sem ixs vs vox pre_i idx pre_v vals Hsb Ei Ev).
    rewrite (IH (pre_i ++ ixs) (pre_v ++ vs)); [reflexivity| |].
    - rewrite Ei. now rewrite app_assoc.
    - rewrite Ev. now rewrite app_assoc.
  Qed.
End Stream.

(* assemble on flags *)
Lemma assemble_b_map voxs gx gy gz a (f : N -> bool) :
  assemble voxs gx gy gz = Ok a -> assemble_b (map (map f) voxs) gx gy gz = Ok (map f a).
Proof.
  intro A. unfold assemble in A. unfold assemble_b. rewrite <- (mapR_map_out _ f _ _ A).
  apply mapR_ext_in. intros p _. cbv zeta.
  unfold nth_N. rewrite nth_error_map.
  destruct (nth_error voxs _) as [vox|]; [|reflexivity]. simpl.
  rewrite nth_error_map. destruct (nth_error vox _); reflexivity.
Qed.

(* ---------------- the label-table scan of WriteBinaryBlocks on a duplicate-free table ---------------- *)

Lemma mem_false x l : mem x l = false <-> ~ In x l.
Proof. rewrite <- mem_In. destruct (mem x l); split; intro H; congruence. Qed.

Lemma NoDup_app_l {A} (a b : list A) : NoDup (a ++ b) -> NoDup a.
Proof.
  induction a as [|x a IH]; simpl; intro H; [constructor|]. inversion H; subst.
  constructor; [|now apply IH]. intro Hin. apply H2. apply in_or_app. now left.
Qed.

Lemma NoDup_app_disj {A} (a b : list A) v : NoDup (a ++ b) -> In v a -> In v b -> False.
Proof.
  induction a as [|x a IH]; simpl; intros H Ha Hb; [contradiction|]. inversion H; subst.
  destruct Ha as [Ha|Ha]; [subst; apply H2; apply in_or_app; now right | now apply IH].
Qed.

Lemma bin_scan_spec lbls : NoDup lbls -> forall rest pre acc inds hb,
  NoDup (pre ++ rest) ->
  NoDup acc ->
  (forall ix, In ix acc <-> exists v, nth_N pre ix = Some v /\ mem v lbls = true) ->
  bin_scan rest lbls (N.of_nat (length pre)) acc = (inds, hb) ->
  (forall ix, In ix inds <-> exists v, nth_N (pre ++ rest) ix = Some v /\ mem v lbls = true) /\
  hb = existsb (fun l => negb (mem l lbls)) rest.
Proof.
  intros NDl. induction rest as [|l rest IH]; intros pre acc inds hb ND NDa Hacc E.
  - simpl in E. inversion E; subst. rewrite app_nil_r. split; [|reflexivity].
    intro ix. rewrite <- in_rev. apply Hacc.
  - cbn [bin_scan] in E.
    assert (Epre : N.of_nat (length pre) + 1 = N.of_nat (length (pre ++ [l]))) by (rewrite app_length; simpl; lia).
    assert (Eapp : pre ++ l :: rest = (pre ++ [l]) ++ rest) by (rewrite <- app_assoc; reflexivity).
    assert (Hnew : forall ix v, nth_N (pre ++ [l]) ix = Some v ->
                   (nth_N pre ix = Some v) \/ (ix = N.of_nat (length pre) /\ v = l)).
    { intros ix v H. unfold nth_N in *. destruct (Nat.lt_ge_cases (N.to_nat ix) (length pre)) as [Hlt|Hge].
      - left. now rewrite nth_error_app1 in H.
      - right. rewrite nth_error_app2 in H by exact Hge.
        destruct (N.to_nat ix - length pre)%nat eqn:D; simpl in H; [inversion H; split; [lia|reflexivity]|].
        destruct n; discriminate. }
    destruct (mem l lbls) eqn:Ml.
    + (* a target label: its slot is collected *)
      rewrite Epre in E. rewrite Eapp in ND |- *.
      apply (IH (pre ++ [l]) (N.of_nat (length pre) :: acc) inds hb ND) in E.
      * destruct E as [E1 E2]. split; [exact E1|]. cbn [existsb]. rewrite Ml. exact E2.
      * constructor; [|exact NDa]. intro Hin. apply Hacc in Hin as [v [Hv _]].
        apply nth_N_Some_lt in Hv. lia.
      * intro ix. split.
        -- intros [H|H].
           ++ subst ix. exists l. split; [|exact Ml]. unfold nth_N. rewrite Nat2N.id, nth_error_app2 by lia.
              now rewrite Nat.sub_diag.
           ++ apply Hacc in H as [v [Hv Hm]]. exists v. split; [now apply nth_N_app_Some | exact Hm].
        -- intros [v [Hv Hm]]. destruct (Hnew ix v Hv) as [H|[H1 H2]]; [right; apply Hacc; eauto | left; now symmetry].
    + (* a background label *)
      assert (Hskip : forall inds' hb', bin_scan rest lbls (N.of_nat (length pre) + 1) acc = (inds', hb') ->
                forall ix, In ix inds' <-> exists v, nth_N (pre ++ l :: rest) ix = Some v /\ mem v lbls = true).
      { intros inds' hb' E'. rewrite Epre in E'. rewrite Eapp in ND |- *.
        apply (IH (pre ++ [l]) acc inds' hb' ND NDa) in E'; [exact (proj1 E')|].
        intro ix. rewrite Hacc. split.
        - intros [v [Hv Hm]]. exists v. split; [now apply nth_N_app_Some | exact Hm].
        - intros [v [Hv Hm]]. destruct (Hnew ix v Hv) as [H|[_ H2]]; [eauto | subst v; congruence]. }
      cbn [existsb]. rewrite Ml. cbn [negb orb].
      destruct (N.of_nat (length acc) =? N.of_nat (length lbls)) eqn:Elen.
      * (* all targets seen: the scan stops; nothing later is a target *)
        apply N.eqb_eq in Elen. inversion E; subst inds hb. split; [|reflexivity].
        intro ix. rewrite <- in_rev, Hacc. split.
        -- intros [v [Hv Hm]]. exists v. split; [now apply nth_N_app_Some | exact Hm].
        -- intros [v [Hv Hm]].
           unfold nth_N in Hv. destruct (Nat.lt_ge_cases (N.to_nat ix) (length pre)) as [Hlt|Hge].
           ++ rewrite nth_error_app1 in Hv by exact Hlt. eauto.
           ++ exfalso. rewrite nth_error_app2 in Hv by exact Hge. apply nth_error_In in Hv.
              (* v is a target found after the stop: but the collected slots already cover lbls *)
              assert (Hlabs : exists L, NoDup L /\ length L = length acc /\ incl L lbls /\ incl L pre).
              { clear -Hacc NDa ND. 
                assert (G : forall acc', NoDup acc' -> (forall ix, In ix acc' -> exists v, nth_N pre ix = Some v /\ mem v lbls = true) ->
                            exists L, NoDup L /\ length L = length acc' /\ incl L lbls /\ incl L pre /\
                                      forall v, In v L -> exists ix, In ix acc' /\ nth_N pre ix = Some v).
                { induction acc' as [|i acc' IHa]; intros NDa' H.
                  - exists []. split; [constructor|]. split; [reflexivity|]. split; [intros ? []|]. split; [intros ? []|]. intros v [].
                  - inversion NDa'; subst. destruct (IHa H3 (fun ix Hix => H ix (or_intror Hix))) as [L [N1 [N2 [N3 [N4 N5]]]]].
                    destruct (H i (or_introl eq_refl)) as [v [Hv Hm]].
                    exists (v :: L). split; [|split; [simpl; lia|split; [|split]]].
                    + constructor; [|exact N1]. intro Hin. destruct (N5 v Hin) as [j [Hj Hvj]].
                      (* two slots of pre with the same label: pre has no duplicates *)
                      assert (NDp : NoDup pre) by (eapply NoDup_app_l; exact ND).
                      assert (i = j).
                      { unfold nth_N in Hv, Hvj. 
                        assert (N.to_nat i = N.to_nat j).
                        { eapply NoDup_nth_error; [exact NDp| |congruence]. apply nth_error_Some. congruence. }
                        lia. }
                      subst j. contradiction.
                    + intros x [Hx|Hx]; [subst; now apply mem_In | now apply N3].
                    + intros x [Hx|Hx]; [subst; unfold nth_N in Hv; eapply nth_error_In; eauto | now apply N4].
                    + intros x [Hx|Hx]; [subst; exists i; split; [now left|exact Hv] |
                                         destruct (N5 x Hx) as [j [Hj1 Hj2]]; exists j; split; [now right|exact Hj2]]. }
                destruct (G acc NDa (fun ix Hix => proj1 (Hacc ix) Hix)) as [L [N1 [N2 [N3 [N4 _]]]]].
                exists L. repeat split; assumption. }
              destruct Hlabs as [L [N1 [N2 [N3 N4]]]].
              assert (incl lbls L) by (apply NoDup_length_incl; [exact N1 | lia | exact N3]).
              apply mem_In in Hm. apply H in Hm. apply N4 in Hm.
              (* v is in pre and in l :: rest *)
              exact (NoDup_app_disj _ _ v ND Hm Hv).
      * inversion E; subst hb. destruct (bin_scan rest lbls (N.of_nat (length pre) + 1) acc) as [inds' hb'] eqn:E'.
        cbn [fst] in H0. subst inds'. split; [|reflexivity]. exact (Hskip inds hb' eq_refl).
Qed.

(* ---------------- the byte layout of one written block ---------------- *)

Lemma bin_layout (a b c d e : bytes) (flag : N) rest :
  length a = 4%nat -> length b = 4%nat -> length c = 4%nat -> length d = 8%nat -> length e = 12%nat ->
  let o := a ++ b ++ c ++ d ++ e ++ flag :: rest in
  firstn 4 o = a /\ firstn 4 (skipn 4 o) = b /\ firstn 4 (skipn 8 o) = c /\ firstn 8 (skipn 12 o) = d /\
  firstn 12 (skipn 20 o) = e /\ nth_error o 32 = Some flag /\ skipn 33 o = rest /\ (33 <= length o)%nat.
Proof.
  intros La Lb Lc Ld Le o.
  destruct (take_app a (b ++ c ++ d ++ e ++ flag :: rest) 4 (eq_sym La)) as [F1 S1].
  destruct (take_app b (c ++ d ++ e ++ flag :: rest) 4 (eq_sym Lb)) as [F2 S2].
  destruct (take_app c (d ++ e ++ flag :: rest) 4 (eq_sym Lc)) as [F3 S3].
  destruct (take_app d (e ++ flag :: rest) 8 (eq_sym Ld)) as [F4 S4].
  destruct (take_app e (flag :: rest) 12 (eq_sym Le)) as [F5 S5].
  destruct (take_app (a ++ b) (c ++ d ++ e ++ flag :: rest) 8) as [_ S8]; [rewrite app_length; lia|].
  destruct (take_app (a ++ b ++ c) (d ++ e ++ flag :: rest) 12) as [_ S12]; [rewrite !app_length; lia|].
  destruct (take_app (a ++ b ++ c ++ d) (e ++ flag :: rest) 20) as [_ S20]; [rewrite !app_length; lia|].
  destruct (take_app (a ++ b ++ c ++ d ++ e ++ [flag]) rest 33) as [_ S33]; [rewrite !app_length; simpl; lia|].
  repeat rewrite <- app_assoc in S8. repeat rewrite <- app_assoc in S12. repeat rewrite <- app_assoc in S20.
  repeat rewrite <- app_assoc in S33. cbn [app] in S33.
  unfold o. rewrite F1, S1, F2, S8, F3, S12, F4, S20, F5, S33.
  repeat split.
  - replace 32%nat with (length (a ++ b ++ c ++ d ++ e) + 0)%nat by (rewrite !app_length; lia).
    replace (a ++ b ++ c ++ d ++ e ++ flag :: rest) with ((a ++ b ++ c ++ d ++ e) ++ flag :: rest)
      by (repeat rewrite <- app_assoc; reflexivity).
    rewrite nth_error_app2 by lia. rewrite Nat.add_0_r, Nat.sub_diag. reflexivity.
  - rewrite !app_length. simpl. lia.
Qed.

Lemma i32_bytes_length v : length (i32_bytes v) = 4%nat.
Proof. unfold i32_bytes. apply le_enc_length. Qed.

(* ---------------- BinaryBlock.Read (WriteBinaryBlocks b) ---------------- *)

Theorem read_write_binary b voxs a main lbls bx by_ bz o :
  block_wf b voxs -> NoDup (b_labels b) -> NoDup lbls -> decode b = Ok a ->
  b_gx b < 2 ^ 32 -> b_gy b < 2 ^ 32 -> b_gz b < 2 ^ 32 -> main < 2 ^ 64 ->
  write_binary b main lbls bx by_ bz = Ok o -> o <> [] ->
  exists off, read_binary o = Ok (b_gx b, b_gy b, b_gz b, main, off, map (fun v => mem v lbls) a).
Proof.
  intros W NDt NDl D Gx Gy Gz Gm Wr One.
  set (f := fun v => mem v lbls).
  pose proof W as [L W'].
  rewrite (decode_wf b voxs W) in D.
  unfold write_binary in Wr.
  destruct (bin_scan (b_labels b) lbls 0 []) as [inds hb] eqn:BS.
  destruct (bin_scan_spec lbls NDl (b_labels b) [] [] inds hb NDt ltac:(constructor)
              ltac:(intro ix; split; [intros [] | intros [v [Hv _]]; unfold nth_N in Hv; destruct (N.to_nat ix); discriminate]) BS)
    as [Hin Hhb].
  cbn [app] in Hin.
  assert (Hinds : forall ix v, nth_N (b_labels b) ix = Some v -> mem ix inds = mem v lbls).
  { intros ix v Hv. apply eq_true_iff_eq. rewrite mem_In, Hin. split.
    - intros [v' [Hv' Hm]]. congruence.
    - intro Hm. eauto. }
  destruct inds as [|i0 inds']; [apply Ok_inj in Wr; subst o; congruence|].
  set (inds := i0 :: inds') in *.
  set (hdr := le_enc 4 (b_gx b) ++ le_enc 4 (b_gy b) ++ le_enc 4 (b_gz b) ++ le_enc 8 main) in *.
  set (off := i32_bytes (bx * Z.of_N (8 * b_gx b)) ++ i32_bytes (by_ * Z.of_N (8 * b_gy b)) ++ i32_bytes (bz * Z.of_N (8 * b_gz b))) in *.
  assert (Loff : length off = 12%nat) by (unfold off; rewrite !app_length, !i32_bytes_length; reflexivity).
  (* every voxel of the array carries a table label *)
  assert (Hvox : forall v, In v a -> exists ix, nth_N (b_labels b) ix = Some v).
  { intros v Hv.
    pose proof (assemble_perm voxs (b_gx b) (b_gy b) (b_gz b) a (wf_vox_lengths b voxs W) L D) as P.
    apply (Permutation_in _ P) in Hv. apply in_concat in Hv as [vox [H1 H2]].
    destruct W' as [[l [El [_ [_ [_ Ev]]]]] | [_ S]].
    - rewrite Ev in H1. apply repeat_spec in H1. subst vox. apply repeat_spec in H2. subst v.
      exists 0. now rewrite El.
    - eapply Sem_voxel_slot; eauto. }
  (* reading any output of the form hdr ++ off ++ flag :: rest *)
  assert (Rd : forall flag rest,
    let o' := hdr ++ off ++ flag :: rest in
    le_dec (firstn 4 o') = b_gx b /\ le_dec (firstn 4 (skipn 4 o')) = b_gy b /\ le_dec (firstn 4 (skipn 8 o')) = b_gz b /\
    le_dec (firstn 8 (skipn 12 o')) = main /\ firstn 12 (skipn 20 o') = off /\ nth_error o' 32 = Some flag /\
    skipn 33 o' = rest /\ Nat.ltb (length o') 33 = false).
  { intros flag rest o'. unfold o', hdr. repeat rewrite <- app_assoc.
    destruct (bin_layout (le_enc 4 (b_gx b)) (le_enc 4 (b_gy b)) (le_enc 4 (b_gz b)) (le_enc 8 main) off flag rest)
      as [A1 [A2 [A3 [A4 [A5 [A6 [A7 A8]]]]]]]; try apply le_enc_length; try exact Loff.
    cbv zeta in *. rewrite A1, A2, A3, A4, A5, A6, A7.
    rewrite !le_dec_enc by (simpl; lia). repeat split; try (apply Nat.ltb_ge; exact A8). }
  destruct hb.
  - (* background present: the sub-block stream *)
    destruct W' as [[l [El _]] | [HL S]].
    { (* a one-label table has no background when its label is a target *)
      exfalso. rewrite El in Hhb, Hin. cbn [existsb] in Hhb. rewrite orb_false_r in Hhb.
      assert (In i0 inds) by now left. apply Hin in H as [v [Hv Hm]].
      unfold nth_N in Hv. destruct (N.to_nat i0) as [|k]; simpl in Hv; [|destruct k; discriminate].
      inversion Hv; subst v. rewrite Hm in Hhb. discriminate. }
    pose proof (Sem_length _ _ _ _ _ S) as SL.
    replace (N.of_nat (length (b_nsb b)) <? b_gx b * b_gy b * b_gz b) with false in Wr by (symmetry; apply N.ltb_ge; lia).
    rewrite firstn_all2 in Wr by lia.
    pose proof (sbs_stream_sem b inds lbls Hinds _ _ _ _ S [] [] eq_refl eq_refl) as ST.
    change (N.of_nat (length (@nil N))) with 0 in ST. change (8 * 0) with 0 in ST.
    rewrite ST in Wr. apply Ok_inj in Wr. subst o.
    exists off. unfold read_binary.
    destruct (Rd 2 (flat_map sb_code (map (map (fun v => mem v lbls)) voxs))) as [R1 [R2 [R3 [R4 [R5 [R6 [R7 R8]]]]]]].
    cbv zeta in *. change ([2] ++ ?x) with (2 :: x).
    rewrite R8, R1, R2, R3, R4, R5, R6, R7.
    replace (N.to_nat (b_gx b * b_gy b * b_gz b)) with (length (map (map (fun v => mem v lbls)) voxs)) by (rewrite map_length; exact L).
    rewrite <- (app_nil_r (flat_map sb_code _)).
    rewrite read_sbs_codes.
    + rewrite (assemble_b_map voxs _ _ _ a (fun v => mem v lbls) D). reflexivity.
    + apply Forall_forall. intros fg Hfg. apply in_map_iff in Hfg as [vox [E Hv]]. subst fg. rewrite map_length.
      pose proof (wf_vox_lengths b voxs W) as HF. rewrite Forall_forall in HF. now apply HF.
  - (* no background label in the table: everything is foreground *)
    apply Ok_inj in Wr. subst o. exists off. unfold read_binary.
    destruct (Rd 1 []) as [R1 [R2 [R3 [R4 [R5 [R6 [R7 R8]]]]]]].
    cbv zeta in *. change ([1]) with (1 :: @nil N).
    rewrite R8, R1, R2, R3, R4, R5, R6.
    f_equal. f_equal.
    assert (LA : length a = N.to_nat (8 * b_gx b * (8 * b_gy b) * (8 * b_gz b))).
    { unfold assemble in D. rewrite (mapR_length _ _ _ D). apply nseq_length. }
    symmetry. apply all_eq_repeat_gen; [rewrite map_length; exact LA|].
    intros x Hx. apply in_map_iff in Hx as [v [E Hv]]. subst x.
    destruct (Hvox v Hv) as [ix Hix].
    (* its label is in the table, and no table label is background *)
    unfold f. destruct (mem v lbls) eqn:Mv; [reflexivity|]. exfalso.
    assert (existsb (fun l => negb (mem l lbls)) (b_labels b) = true); [|congruence].
    apply existsb_exists. exists v. split; [unfold nth_N in Hix; eapply nth_error_In; eauto | now rewrite Mv].
Qed.
