(* Proofs.Resolve: the repaired resolver (findCandidates / findMatch) returns exactly the
   frontier read of the specification, on every acyclic DAG, for every placement of entries. *)
From DV Require Import Base.Prelude Model.Dag Model.Resolve.
Local Open Scope N_scope.

Lemma mem_In x l : mem x l = true <-> In x l.
Proof.
  unfold mem. rewrite existsb_exists. split.
  - intros (y & Hy & E). apply N.eqb_eq in E. now subst.
  - intro H. exists x. split; [exact H|apply N.eqb_refl].
Qed.
Lemma mem_false x l : mem x l = false <-> ~ In x l.
Proof. rewrite <- mem_In. destruct (mem x l); split; congruence. Qed.

Section Graph.
Variable par : V -> list V.
Variable rank : V -> nat.
Hypothesis rank_par : forall v p, In p (par v) -> (rank p < rank v)%nat.

(* anc u v: u is v or an ancestor of v *)
Inductive anc : V -> V -> Prop :=
| anc_refl v : anc v v
| anc_up u p v : In p (par v) -> anc u p -> anc u v.
Definition panc (u v : V) : Prop := exists p, In p (par v) /\ anc u p.

Lemma anc_rank u v : anc u v -> (rank u <= rank v)%nat.
Proof. induction 1 as [|u p v Hp _ IH]; [lia|]. specialize (rank_par _ _ Hp). lia. Qed.
Lemma panc_rank u v : panc u v -> (rank u < rank v)%nat.
Proof. intros (p & Hp & A). apply anc_rank in A. specialize (rank_par _ _ Hp). lia. Qed.
Lemma panc_irrefl v : ~ panc v v.
Proof. intro H. apply panc_rank in H. lia. Qed.
Lemma anc_inv u v : anc u v -> u = v \/ panc u v.
Proof. destruct 1 as [|u p v Hp A]; [left; reflexivity|right; exists p; split; assumption]. Qed.
Lemma panc_anc u v : panc u v -> anc u v.
Proof. intros (p & Hp & A). eapply anc_up; eauto. Qed.
Lemma anc_trans u w v : anc u w -> anc w v -> anc u v.
Proof. intros A B. induction B as [|w p v Hp _ IH]; [exact A|]. eapply anc_up; eauto. Qed.
Lemma anc_panc_trans u w v : anc u w -> panc w v -> panc u v.
Proof. intros A (p & Hp & B). exists p. split; [exact Hp|eapply anc_trans; eauto]. Qed.
Lemma panc_anc_trans u w v : panc u w -> anc w v -> panc u v.
Proof.
  intros A B. induction B as [|w p v Hp _ IH]; [exact A|].
  exists p. split; [exact Hp|]. apply panc_anc. apply IH. exact A.
Qed.
Lemma panc_trans u w v : panc u w -> panc w v -> panc u v.
Proof. intros A B. eapply panc_anc_trans; [exact A|apply panc_anc; exact B]. Qed.
Lemma par_panc p v : In p (par v) -> panc p v.
Proof. intro H. exists p. split; [exact H|apply anc_refl]. Qed.

Section Entries.
Variable ent : V -> option entry.

Definition hasP (u : V) : Prop := ent u <> None.
(* entry-bearing proper ancestors of v *)
Definition EPA (v u : V) : Prop := panc u v /\ hasP u.

(* --- specification --- *)
Definition frontier (v u : V) : Prop :=
  anc u v /\ hasP u /\ forall w, anc w v -> hasP w -> ~ panc u w.
Definition livef (v u : V) : Prop := frontier v u /\ is_val (ent u) = true.

Definition read_spec (v : V) (r : rres) : Prop :=
  match r with
  | RFound u x => livef v u /\ ent u = Some (Val x) /\ forall y, livef v y -> y = u
  | RNone => forall y, ~ livef v y
  | RConflict => exists y z, y <> z /\ livef v y /\ livef v z
  | RFuel => False
  end.

Lemma read_spec_det v r1 r2 : read_spec v r1 -> read_spec v r2 -> r1 = r2.
Proof.
  destruct r1 as [u x| | |], r2 as [u' x'| | |]; simpl; intros H1 H2; try contradiction; try reflexivity.
  - destruct H1 as (L1 & E1 & U1), H2 as (L2 & E2 & U2).
    assert (u' = u) by (apply U1; exact L2). subst u'. congruence.
  - destruct H1 as (L1 & _). exfalso. eapply H2; eauto.
  - destruct H1 as (_ & _ & U1), H2 as (y & z & Hne & Ly & Lz).
    apply U1 in Ly, Lz. congruence.
  - destruct H2 as (L2 & _). exfalso. eapply H1; eauto.
  - destruct H2 as (y & z & _ & Ly & _). exfalso. eapply H1; eauto.
  - destruct H2 as (_ & _ & U2), H1 as (y & z & Hne & Ly & Lz).
    apply U2 in Ly, Lz. congruence.
  - destruct H1 as (y & z & _ & Ly & _). exfalso. eapply H2; eauto.
Qed.

(* --- invalidateAncestors --- *)
Definition closed (marks : list V) (m : V) : Prop := forall u, EPA m u -> In u marks.
Definition Pre (marks : list V) (v : V) : Prop :=
  forall m, In m marks -> panc m v -> closed marks m.

Lemma closed_mono marks marks' m :
  (forall u, In u marks -> In u marks') -> closed marks m -> closed marks' m.
Proof. intros S C u H. apply S. apply C. exact H. Qed.

Definition inval_step (f : nat) (m : list V) (p : V) : list V :=
  match ent p with
  | Some _ => if mem p m then m else inval par ent f (p :: m) p
  | None => inval par ent f m p
  end.

Lemma inval_S f marks v : inval par ent (S f) marks v = fold_left (inval_step f) (par v) marks.
Proof. reflexivity. Qed.

Lemma inval_spec : forall f v marks, (rank v < f)%nat -> Pre marks v ->
  forall u, In u (inval par ent f marks v) <-> In u marks \/ EPA v u.
Proof.
  induction f as [|f IHf]; intros v marks Hr HP u; [lia|].
  rewrite inval_S.
  assert (H : forall l marks, incl l (par v) -> Pre marks v ->
             forall u, In u (fold_left (inval_step f) l marks) <->
                       In u marks \/ exists p, In p l /\ anc u p /\ hasP u).
  { clear marks HP u. induction l as [|p l IHl]; intros marks Hl HP u.
    - simpl. split; [auto|]. intros [H|(p & [] & _)]. exact H.
    - cbn [fold_left].
      assert (Hp : In p (par v)) by (apply Hl; left; reflexivity).
      assert (Hrp : (rank p < f)%nat) by (specialize (rank_par _ _ Hp); lia).
      assert (Pp : forall m0, (forall x, In x marks -> In x m0) -> Pre m0 p \/ True) by (intros; right; exact I).
      (* (i) what one step adds *)
      assert (I1 : forall u, In u (inval_step f marks p) <-> In u marks \/ (anc u p /\ hasP u)).
      { intro w. unfold inval_step. destruct (ent p) as [e|] eqn:Ep.
        - destruct (mem p marks) eqn:Mp.
          + apply mem_In in Mp. split; [auto|]. intros [H|[A Hw]]; [exact H|].
            apply anc_inv in A. destruct A as [->|A]; [exact Mp|].
            apply (HP p Mp (par_panc _ _ Hp)). split; assumption.
          + apply mem_false in Mp.
            rewrite (IHf p (p :: marks) Hrp).
            * split.
              -- intros [[<-|H]|[A Hw]].
                 ++ right. split; [apply anc_refl|]. unfold hasP. congruence.
                 ++ left. exact H.
                 ++ right. split; [apply panc_anc; exact A|exact Hw].
              -- intros [H|[A Hw]]; [left; right; exact H|].
                 apply anc_inv in A. destruct A as [->|A]; [left; left; reflexivity|right; split; assumption].
            * intros m [<-|Hm] Pm; [exfalso; eapply panc_irrefl; eauto|].
              eapply closed_mono; [|apply (HP m Hm)].
              -- intros x Hx. right. exact Hx.
              -- eapply panc_anc_trans; [exact Pm|]. apply panc_anc. apply par_panc. exact Hp.
        - rewrite (IHf p marks Hrp).
          + split.
            * intros [H|[A Hw]]; [left; exact H|right; split; [apply panc_anc; exact A|exact Hw]].
            * intros [H|[A Hw]]; [left; exact H|].
              apply anc_inv in A. destruct A as [->|A]; [exfalso; apply Hw; exact Ep|right; split; assumption].
          + intros m Hm Pm. apply (HP m Hm).
            eapply panc_anc_trans; [exact Pm|]. apply panc_anc. apply par_panc. exact Hp. }
      (* (ii) the precondition is kept *)
      assert (P1 : Pre (inval_step f marks p) v).
      { intros m Hm Pm. apply I1 in Hm. destruct Hm as [Hm|[A Hw]].
        - eapply closed_mono; [|apply (HP m Hm Pm)]. intros x Hx. apply I1. left. exact Hx.
        - intros x [Px Hx]. apply I1. right. split; [|exact Hx].
          apply panc_anc. eapply panc_anc_trans; eauto. }
      rewrite (IHl (inval_step f marks p)); [|intros x Hx; apply Hl; right; exact Hx|exact P1].
      rewrite I1. split.
      + intros [[H|H]|(q & Hq & H)]; [left; exact H|right; exists p; split; [left; reflexivity|exact H]|].
        right. exists q. split; [right; exact Hq|exact H].
      + intros [H|(q & [<-|Hq] & H)]; [left; left; exact H|left; right; exact H|].
        right. exists q. split; assumption. }
  rewrite (H (par v) marks (incl_refl _) HP u). split.
  - intros [Hm|(p & Hp & A & Hw)]; [left; exact Hm|right]. split; [exists p; split; assumption|exact Hw].
  - intros [Hm|[(p & Hp & A) Hw]]; [left; exact Hm|right]. exists p. repeat split; assumption.
Qed.

(* --- findCandidates --- *)
Definition Inv (st : list V * list V) : Prop :=
  forall m, In m (fst st) <-> exists u, In u (snd st) /\ EPA u m.

Lemma Inv_Pre st v : Inv st -> Pre (fst st) v.
Proof.
  intros I m Hm _ w [Pw Hw]. apply I in Hm. destruct Hm as (u & Hu & [Pm _]).
  apply I. exists u. split; [exact Hu|]. split; [|exact Hw]. eapply panc_trans; eauto.
Qed.

Variable fi : nat.
Hypothesis fi_big : forall x, (rank x < fi)%nat.

Definition Post (st st' : list V * list V) (v : V) : Prop :=
  Inv st' /\ incl (snd st) (snd st') /\
  (forall u, In u (snd st') -> In u (snd st) \/ (hasP u /\ anc u v)) /\
  (forall w, anc w v -> hasP w -> exists w', In w' (snd st') /\ anc w w').

Lemma collect_S f st v :
  collect par ent fi (S f) st v =
  match ent v with
  | Some _ => if mem v (fst st) then st else (inval par ent fi (fst st) v, v :: snd st)
  | None => fold_left (fun s p => collect par ent fi f s p) (par v) st
  end.
Proof. reflexivity. Qed.

Lemma collect_spec : forall f v st, (rank v < f)%nat -> Inv st -> Post st (collect par ent fi f st v) v.
Proof.
  induction f as [|f IHf]; intros v st Hr I; [lia|].
  rewrite collect_S. destruct (ent v) as [e|] eqn:Ev.
  - destruct (mem v (fst st)) eqn:Mv.
    + apply mem_In in Mv. repeat split.
      * apply I. * apply I. * apply incl_refl. * intros u Hu. left. exact Hu.
      * intros w A Hw. apply I in Mv. destruct Mv as (u & Hu & [Pv _]).
        exists u. split; [exact Hu|]. eapply anc_trans; [exact A|apply panc_anc; exact Pv].
    + apply mem_false in Mv.
      assert (IS := inval_spec fi v (fst st) (fi_big v) (Inv_Pre st v I)).
      repeat split; cbn [fst snd].
      * intro Hm. apply IS in Hm. destruct Hm as [Hm|Hm].
        -- apply I in Hm. destruct Hm as (u & Hu & E). exists u. split; [right; exact Hu|exact E].
        -- exists v. split; [left; reflexivity|exact Hm].
      * intros (u & [<-|Hu] & E); apply IS; [right; exact E|left; apply I; exists u; split; assumption].
      * intros x Hx. right. exact Hx.
      * intros u [<-|Hu]; [right; split; [unfold hasP; congruence|apply anc_refl]|left; exact Hu].
      * intros w A Hw. exists v. split; [left; reflexivity|exact A].
  - assert (H : forall l st, incl l (par v) -> Inv st ->
               let st' := fold_left (fun s p => collect par ent fi f s p) l st in
               Inv st' /\ incl (snd st) (snd st') /\
               (forall u, In u (snd st') -> In u (snd st) \/ exists p, In p l /\ hasP u /\ anc u p) /\
               (forall p, In p l -> forall w, anc w p -> hasP w -> exists w', In w' (snd st') /\ anc w w')).
    { clear st I. induction l as [|p l IHl]; intros st Hl I; cbn [fold_left].
      - repeat split; try apply I; [apply incl_refl|intros u Hu; left; exact Hu|intros p []].
      - assert (Hp : In p (par v)) by (apply Hl; left; reflexivity).
        assert (Hrp : (rank p < f)%nat) by (specialize (rank_par _ _ Hp); lia).
        destruct (IHf p st Hrp I) as (I1 & S1 & T1 & F1).
        set (st1 := collect par ent fi f st p) in *.
        destruct (IHl st1 (fun x Hx => Hl x (or_intror Hx)) I1) as (I2 & S2 & T2 & F2).
        split; [exact I2|]. split; [eapply incl_tran; eauto|]. split.
        + intros u Hu. apply T2 in Hu. destruct Hu as [Hu|(q & Hq & H)].
          * apply T1 in Hu. destruct Hu as [Hu|[Hw A]]; [left; exact Hu|].
            right. exists p. split; [left; reflexivity|split; assumption].
          * right. exists q. split; [right; exact Hq|exact H].
        + intros q [<-|Hq] w A Hw.
          * destruct (F1 w A Hw) as (w' & Hw' & A'). exists w'. split; [apply S2; exact Hw'|exact A'].
          * eapply F2; eauto. }
    destruct (H (par v) st (incl_refl _) I) as (I2 & S2 & T2 & F2). repeat split.
    + apply I2. + apply I2. + exact S2.
    + intros u Hu. apply T2 in Hu. destruct Hu as [Hu|(p & Hp & Hw & A)]; [left; exact Hu|].
      right. split; [exact Hw|eapply anc_up; eauto].
    + intros w A Hw. apply anc_inv in A. destruct A as [->|(p & Hp & A)].
      * exfalso. apply Hw. exact Ev.
      * eapply F2; eauto.
Qed.

(* survivors of the traversal are exactly the frontier *)
Lemma survivors_frontier f v marks found :
  (rank v < f)%nat -> collect par ent fi f ([], []) v = (marks, found) ->
  forall u, (In u found /\ ~ In u marks) <-> frontier v u.
Proof.
  intros Hr E u.
  assert (I0 : Inv ([], [])) by (intro m; simpl; split; [intros []|intros (x & [] & _)]).
  destruct (collect_spec f v ([], []) Hr I0) as (I & _ & T & F). rewrite E in I, T, F. cbn [fst snd] in *.
  split.
  - intros [Hu Hn]. destruct (T u Hu) as [[]|[Hw A]]. split; [exact A|]. split; [exact Hw|].
    intros w Aw Hww Pu. destruct (F w Aw Hww) as (w' & Hw' & A').
    apply Hn. apply I. exists w'. split; [exact Hw'|]. split; [|exact Hw].
    eapply panc_anc_trans; eauto.
  - intros (A & Hw & Nf). destruct (F u A Hw) as (w' & Hw' & A').
    destruct (T w' Hw') as [[]|[Hww' Aw']].
    apply anc_inv in A'. destruct A' as [->|P]; [|exfalso; eapply Nf; eauto].
    split; [exact Hw'|]. intro Hm. apply I in Hm. destruct Hm as (x & Hx & [Px _]).
    destruct (T x Hx) as [[]|[Hwx Ax]]. eapply Nf; eauto.
Qed.

Theorem read_correct f v : (rank v < f)%nat -> read_spec v (read par ent fi f v).
Proof.
  intro Hr. unfold read, find_match.
  destruct (collect par ent fi f ([], []) v) as [marks found] eqn:E. cbn [fst].
  pose proof (survivors_frontier f v marks found Hr E) as SF.
  assert (L : forall u, In u (live_of ent marks found) <-> livef v u).
  { intro u. unfold live_of, livef. rewrite filter_In, nodup_In, andb_true_iff, negb_true_iff, mem_false.
    rewrite <- SF. tauto. }
  assert (ND : NoDup (live_of ent marks found)) by (apply NoDup_filter; apply NoDup_nodup).
  destruct (live_of ent marks found) as [|u [|u2 rest]] eqn:EL; simpl.
  - intros y Hy. apply L in Hy. exact Hy.
  - assert (Lu : livef v u) by (apply L; left; reflexivity).
    pose proof Lu as [Fu Vu]. destruct (ent u) as [[x|]|] eqn:Eu; try discriminate.
    split; [exact Lu|]. split; [exact Eu|].
    intros y Hy. apply L in Hy. destruct Hy as [->|[]]. reflexivity.
  - exists u, u2. split; [|split; apply L; simpl; auto].
    inversion ND as [|? ? Hn _]; subst. intro X. apply Hn. left. symmetry. exact X.
Qed.

End Entries.

(* writes at versions that are not v or an ancestor of v cannot change the result *)
Lemma read_spec_agree ent ent' v r :
  (forall u, anc u v -> ent u = ent' u) -> read_spec ent v r -> read_spec ent' v r.
Proof.
  intros Ag.
  assert (HP : forall u, anc u v -> (hasP ent u <-> hasP ent' u)) by (intros u A; unfold hasP; now rewrite (Ag u A)).
  assert (FR : forall u, frontier ent v u <-> frontier ent' v u).
  { intro u. unfold frontier. split; intros (A & Hu & N); (split; [exact A|split; [apply (HP u A); exact Hu|]]);
      intros w Aw Hw; apply N; [exact Aw|apply (HP w Aw); exact Hw|exact Aw|apply (HP w Aw); exact Hw]. }
  assert (LV : forall u, livef ent v u <-> livef ent' v u).
  { intro u. unfold livef. split; intros [F Vv]; (split; [apply FR; exact F|]);
      destruct F as (A & _); [rewrite <- (Ag u A)|rewrite (Ag u A)]; exact Vv. }
  destruct r as [u x| | |]; simpl; auto.
  - intros (L & E & U). split; [apply LV; exact L|]. split.
    + destruct L as [(A & _) _]. rewrite <- (Ag u A). exact E.
    + intros y Hy. apply U. apply LV. exact Hy.
  - intros N y Hy. apply (N y). apply LV. exact Hy.
  - intros (y & z & Hne & Ly & Lz). exists y, z. split; [exact Hne|split; apply LV; assumption].
Qed.

Theorem read_isolation ent ent' fi f v :
  (forall x, (rank x < fi)%nat) -> (rank v < f)%nat ->
  (forall u, anc u v -> ent u = ent' u) ->
  read par ent fi f v = read par ent' fi f v.
Proof.
  intros Hfi Hf Ag.
  eapply (read_spec_det ent' v).
  - eapply read_spec_agree; [exact Ag|]. apply read_correct; assumption.
  - apply read_correct; assumption.
Qed.

(* what was last written or deleted at v itself decides the read at v *)
Theorem read_self ent fi f v e :
  (forall x, (rank x < fi)%nat) -> (rank v < f)%nat -> ent v = Some e ->
  read par ent fi f v = match e with Val x => RFound v x | Tomb => RNone end.
Proof.
  intros Hfi Hf Ev. eapply (read_spec_det ent v); [apply read_correct; assumption|].
  assert (Fv : frontier ent v v).
  { split; [apply anc_refl|]. split; [unfold hasP; congruence|].
    intros w Aw _ Pw. apply anc_rank in Aw. apply panc_rank in Pw. lia. }
  assert (Only : forall y, frontier ent v y -> y = v).
  { intros y (Ay & Hy & Ny). apply anc_inv in Ay. destruct Ay as [->|Py]; [reflexivity|].
    exfalso. apply (Ny v (anc_refl v)); [unfold hasP; congruence|exact Py]. }
  destruct e as [x|]; simpl.
  - split; [split; [exact Fv|rewrite Ev; reflexivity]|]. split; [exact Ev|].
    intros y [Fy _]. apply Only. exact Fy.
  - intros y [Fy Vy]. apply Only in Fy. subst y. rewrite Ev in Vy. discriminate.
Qed.

(* nothing at v: a single parent is simply ascended *)
Theorem read_inherit ent fi f v p :
  (forall x, (rank x < fi)%nat) -> (rank v < f)%nat -> ent v = None -> par v = [p] ->
  read par ent fi f v = read par ent fi f p.
Proof.
  intros Hfi Hf Ev Pv.
  assert (Hp : In p (par v)) by (rewrite Pv; left; reflexivity).
  assert (Hfp : (rank p < f)%nat) by (specialize (rank_par _ _ Hp); lia).
  eapply (read_spec_det ent v); [apply read_correct; assumption|].
  pose proof (read_correct ent fi Hfi f p Hfp) as RP.
  assert (AN : forall u, anc u v <-> u = v \/ anc u p).
  { intro u. split.
    - intro A. apply anc_inv in A. destruct A as [->|(q & Hq & A)]; [left; reflexivity|].
      rewrite Pv in Hq. destruct Hq as [<-|[]]. right. exact A.
    - intros [->|A]; [apply anc_refl|eapply anc_up; eauto]. }
  assert (FR : forall u, frontier ent v u <-> frontier ent p u).
  { intro u. unfold frontier. split.
    - intros (A & Hu & N). apply AN in A. destruct A as [->|A]; [exfalso; apply Hu; exact Ev|].
      split; [exact A|]. split; [exact Hu|]. intros w Aw. apply N. apply AN. right. exact Aw.
    - intros (A & Hu & N). split; [apply AN; right; exact A|]. split; [exact Hu|].
      intros w Aw Hw. apply AN in Aw. destruct Aw as [->|Aw]; [exfalso; apply Hw; exact Ev|]. apply N; assumption. }
  assert (LV : forall u, livef ent v u <-> livef ent p u) by (intro u; unfold livef; rewrite FR; tauto).
  destruct (read par ent fi f p) as [u x| | |]; simpl in *.
  - destruct RP as (L & E & U). split; [apply LV; exact L|]. split; [exact E|].
    intros y Hy. apply U. apply LV. exact Hy.
  - intros y Hy. apply (RP y). apply LV. exact Hy.
  - destruct RP as (y & z & Hne & Ly & Lz). exists y, z. split; [exact Hne|split; apply LV; assumption].
  - exact RP.
Qed.

End Graph.

(* ---- the order in which the store returns the per-version entries is irrelevant ---- *)
From Coq Require Import Permutation.

Lemma assoc_In {A} k (l : list (N * A)) a : assoc k l = Some a -> In (k, a) l.
Proof.
  induction l as [|[k' a'] l IH]; simpl; [discriminate|].
  destruct (k =? k') eqn:E.
  - intro H. inversion H; subst. apply N.eqb_eq in E. subst. left. reflexivity.
  - intro H. right. apply IH. exact H.
Qed.

Lemma assoc_None {A} k (l : list (N * A)) : assoc k l = None -> ~ In k (map fst l).
Proof.
  induction l as [|[k' a'] l IH]; simpl; [intros _ []|].
  destruct (k =? k') eqn:E; [discriminate|].
  intros H [X|X]; [apply N.eqb_neq in E; congruence|apply IH; assumption].
Qed.

Lemma assoc_nodup {A} k (l : list (N * A)) a :
  NoDup (map fst l) -> In (k, a) l -> assoc k l = Some a.
Proof.
  induction l as [|[k' a'] l IH]; simpl; [intros _ []|].
  intros ND [X|X].
  - inversion X; subst. rewrite N.eqb_refl. reflexivity.
  - inversion ND as [|? ? Hn ND']; subst.
    destruct (k =? k') eqn:E.
    + apply N.eqb_eq in E. subst. exfalso. apply Hn. apply (in_map fst) in X. exact X.
    + apply IH; assumption.
Qed.

Lemma kvv_of_perm keys keys' :
  NoDup (map fst keys) -> Permutation keys keys' -> forall v, kvv_of keys v = kvv_of keys' v.
Proof.
  intros ND P v. unfold kvv_of.
  assert (P' : Permutation (rev keys) (rev keys')).
  { eapply Permutation_trans; [apply Permutation_sym, Permutation_rev|].
    eapply Permutation_trans; [exact P|apply Permutation_rev]. }
  assert (ND1 : NoDup (map fst (rev keys))).
  { eapply Permutation_NoDup; [|exact ND]. apply Permutation_map. apply Permutation_rev. }
  assert (ND2 : NoDup (map fst (rev keys'))).
  { eapply Permutation_NoDup; [|exact ND1]. apply Permutation_map. exact P'. }
  destruct (assoc v (rev keys)) as [e|] eqn:E1.
  - symmetry. apply assoc_nodup; [exact ND2|]. eapply Permutation_in; [exact P'|]. apply assoc_In. exact E1.
  - destruct (assoc v (rev keys')) as [e'|] eqn:E2; [|reflexivity].
    exfalso. apply assoc_None in E1. apply E1.
    apply assoc_In in E2. apply (in_map fst) in E2. simpl in E2.
    eapply Permutation_in; [apply Permutation_sym; apply Permutation_map; exact P'|exact E2].
Qed.

Theorem read_order_indep par rank keys keys' fi f v :
  (forall v p, In p (par v) -> (rank p < rank v)%nat) ->
  (forall x, (rank x < fi)%nat) -> (rank v < f)%nat ->
  NoDup (map fst keys) -> Permutation keys keys' ->
  read par (kvv_of keys) fi f v = read par (kvv_of keys') fi f v.
Proof.
  intros Hr Hfi Hf ND P. eapply read_isolation; eauto.
  intros u _. apply kvv_of_perm; assumption.
Qed.

(* ---- the same read through a different parent function that agrees on the ancestry ---- *)
Lemma anc_ext par par' v :
  (forall u, anc par u v -> par u = par' u) -> forall u, anc par u v -> anc par' u v.
Proof.
  intros Ag u A. induction A as [v|u p v Hp A IH].
  - apply anc_refl.
  - eapply anc_up.
    + rewrite <- (Ag v (anc_refl par v)). exact Hp.
    + apply IH. intros w Aw. apply Ag. eapply anc_up; eauto.
Qed.

Lemma anc_ext_iff par par' v :
  (forall u, anc par u v -> par u = par' u) -> forall u, anc par u v <-> anc par' u v.
Proof.
  intros Ag u. split; [apply anc_ext; exact Ag|].
  assert (Ag' : forall u, anc par' u v -> par' u = par u).
  { intros w A. induction A as [v|w p v Hp A IH].
    - symmetry. apply Ag. apply anc_refl.
    - assert (Hp' : In p (par v)) by (rewrite (Ag v (anc_refl par v)); exact Hp).
      apply IH. intros x Ax. apply Ag. eapply anc_up; eauto. }
  apply anc_ext. exact Ag'.
Qed.

Lemma panc_ext_iff par par' v :
  (forall u, anc par u v -> par u = par' u) ->
  forall w, anc par w v -> forall u, panc par u w <-> panc par' u w.
Proof.
  intros Ag w Aw u.
  assert (Agw : forall x, anc par x w -> par x = par' x).
  { intros x Ax. apply Ag. eapply anc_trans; eauto. }
  unfold panc. split; intros (p & Hp & A).
  - exists p. split; [rewrite <- (Agw w (anc_refl par w)); exact Hp|].
    apply (anc_ext_iff par par' p); [|exact A].
    intros x Ax. apply Agw. eapply anc_up; eauto.
  - assert (Hp' : In p (par w)) by (rewrite (Agw w (anc_refl par w)); exact Hp).
    exists p. split; [exact Hp'|].
    apply (anc_ext_iff par par' p); [|exact A].
    intros x Ax. apply Agw. eapply anc_up; eauto.
Qed.

Lemma read_spec_ext par par' ent ent' v r :
  (forall u, anc par u v -> par u = par' u /\ ent u = ent' u) ->
  read_spec par ent v r -> read_spec par' ent' v r.
Proof.
  intros Ag.
  assert (AgP : forall u, anc par u v -> par u = par' u) by (intros u A; apply Ag; exact A).
  assert (AgE : forall u, anc par u v -> ent u = ent' u) by (intros u A; apply Ag; exact A).
  assert (AN := anc_ext_iff par par' v AgP).
  assert (HP : forall u, anc par u v -> (hasP ent u <-> hasP ent' u)) by (intros u A; unfold hasP; now rewrite (AgE u A)).
  assert (FR : forall u, frontier par ent v u <-> frontier par' ent' v u).
  { intro u. unfold frontier. split.
    - intros (A & Hu & N). split; [apply AN; exact A|]. split; [apply (HP u A); exact Hu|].
      intros w Aw Hw Pw. apply AN in Aw. apply (N w Aw); [apply (HP w Aw); exact Hw|].
      apply (panc_ext_iff par par' v AgP w Aw). exact Pw.
    - intros (A & Hu & N). apply AN in A. split; [exact A|]. split; [apply (HP u A); exact Hu|].
      intros w Aw Hw Pw. apply (N w); [apply AN; exact Aw|apply (HP w Aw); exact Hw|].
      apply (panc_ext_iff par par' v AgP w Aw). exact Pw. }
  assert (LV : forall u, livef par ent v u <-> livef par' ent' v u).
  { intro u. unfold livef. split; intros [F Vv].
    - split; [apply FR; exact F|]. destruct F as (A & _). rewrite <- (AgE u A). exact Vv.
    - split; [apply FR; exact F|]. apply FR in F. destruct F as (A & _). rewrite (AgE u A). exact Vv. }
  destruct r as [u x| | |]; simpl; auto.
  - intros (L & E & U). split; [apply LV; exact L|]. split.
    + destruct L as [(A & _) _]. rewrite <- (AgE u A). exact E.
    + intros y Hy. apply U. apply LV. exact Hy.
  - intros N y Hy. apply (N y). apply LV. exact Hy.
  - intros (y & z & Hne & Ly & Lz). exists y, z. split; [exact Hne|split; apply LV; assumption].
Qed.
