(* Proofs.EnvelopeBurst: burst corruptions of a CRC-protected stored value are errors. *)
From DV Require Import Base.Prelude Base.Int Model.CRC Model.Envelope Gen.Consts Proofs.CRC Proofs.CRCBurst Proofs.Envelope.
Local Open Scope N_scope.

(* an envelope carrying the CRC of p but the payload p', when the two CRCs differ *)
Lemma crc_mismatch_detected C g f p p' u :
  dec_cks f = n_CRC32 -> bytes_ok p -> crc32 p' <> crc32 p ->
  deserialize_gen C g (f :: le_enc 4 (crc32 p) ++ p') u = Err.
Proof.
  intros Hk Hok Hne. unfold deserialize_gen. rewrite Hk.
  change (n_CRC32 =? n_NoChecksum) with false. change (n_CRC32 =? n_CRC32) with true.
  assert (L : length (le_enc 4 (crc32 p)) = 4%nat) by apply le_enc_length.
  replace (Nat.ltb (length (le_enc 4 (crc32 p) ++ p')) 4) with false.
  2:{ symmetry. apply Nat.ltb_ge. rewrite app_length, L. lia. }
  rewrite firstn_app_exact by exact L. rewrite skipn_app_exact by exact L.
  rewrite le_dec_enc by (apply crc32_w32; exact Hok).
  replace (crc32 p' =? crc32 p) with false; [reflexivity|].
  symmetry. apply N.eqb_neq. exact Hne.
Qed.

Lemma bytes_ok_mid l1 m l2 : bytes_ok (l1 ++ m ++ l2) -> bytes_ok m.
Proof. unfold bytes_ok. rewrite !Forall_app. tauto. Qed.

(* any alteration confined to at most 4 consecutive payload bytes *)
Theorem corrupt_payload_burst4_detected C g f l1 m m' l2 u :
  dec_cks f = n_CRC32 -> bytes_ok (l1 ++ m ++ l2) -> bytes_ok m' ->
  length m' = length m -> (length m <= 4)%nat -> m <> m' ->
  deserialize_gen C g (f :: le_enc 4 (crc32 (l1 ++ m ++ l2)) ++ l1 ++ m' ++ l2) u = Err.
Proof.
  intros Hk Hok Hm' Hl H4 Hne. apply crc_mismatch_detected; [exact Hk|exact Hok|].
  intro E. symmetry in E. revert E.
  apply crc32_burst4; try assumption. exact (bytes_ok_mid _ _ _ Hok).
Qed.

(* any alteration confined to a window of 32 consecutive payload bits at bit offset j *)
Theorem corrupt_payload_burst32_detected C g f j l1 a mid z a' mid' z' l2 u :
  dec_cks f = n_CRC32 -> (j <= 8)%nat ->
  bytes_ok (l1 ++ (a :: mid ++ [z]) ++ l2) -> bytes_ok (a' :: mid' ++ [z']) ->
  length mid' = length mid -> (length mid <= 3)%nat ->
  N.lxor a a' mod 2 ^ N.of_nat j = 0 -> N.lxor z z' < 2 ^ N.of_nat j ->
  a :: mid ++ [z] <> a' :: mid' ++ [z'] ->
  deserialize_gen C g (f :: le_enc 4 (crc32 (l1 ++ (a :: mid ++ [z]) ++ l2))
                         ++ l1 ++ (a' :: mid' ++ [z']) ++ l2) u = Err.
Proof.
  intros Hk Hj Hok Hm' Hl H3 Hlow Hhigh Hne. apply crc_mismatch_detected; [exact Hk|exact Hok|].
  intro E. symmetry in E. revert E.
  apply (crc32_burst32 j); try assumption. exact (bytes_ok_mid _ _ _ Hok).
Qed.

(* What is NOT true: "any burst of at most 32 bits anywhere in the stored value is detected".
   The checksum is stored in front of the payload, so a burst over the last three checksum bytes and
   the first payload byte (stored positions 2..5: 4 adjacent bytes) can turn one valid value into
   another: payload 01 02 03 04 05 stored as 08 f4 99 0b 47 01 02 03 04 05, altered to
   08 f4 62 2d 24 96 02 03 04 05. *)
Lemma straddling_burst_undetected C g u :
  le_enc 4 (crc32 [1;2;3;4;5]) = [244;153;11;71] /\
  deserialize_gen C g [8; 244; 153;11;71;1; 2;3;4;5] u = Ok ([1;2;3;4;5], 0) /\
  deserialize_gen C g [8; 244; 98;45;36;150; 2;3;4;5] u = Ok ([150;2;3;4;5], 0).
Proof. destruct g, u; vm_compute; repeat split. Qed.
