(* Proofs.IDsR: label freshness and uniqueness for EVERY history of the repaired label machine
   (allocations, killed allocations, ingests with their update tasks in any interleaving, kills inside
   an update after any Put, max-label posts, crashes, restarts). *)
From DV Require Import Base.Prelude Model.Persist Model.IDs Model.IDsR Proofs.Persist Proofs.IDs.
From Coq Require Import ZifyN ZifyNat ZifyBool.
Local Open Scope N_scope.

Lemma vget_aset k v x m : vget k (aset v x m) = if k =? v then x else vget k m.
Proof.
  unfold vget. destruct (k =? v) eqn:E.
  - apply N.eqb_eq in E; subst. now rewrite aget_aset_eq.
  - apply N.eqb_neq in E. now rewrite aget_aset_neq.
Qed.

Definition vmaxf (m : list (N * N)) (a : N) : N := fold_left (fun a kv => N.max a (snd kv)) m a.

Lemma vmaxf_ge m : forall a, a <= vmaxf m a /\ forall k y, In (k, y) m -> y <= vmaxf m a.
Proof.
  induction m as [|[k0 y0] r IH]; intro a; cbn [vmaxf fold_left]; [split; [lia|intros ? ? []]|].
  destruct (IH (N.max a (snd (k0, y0)))) as [H1 H2]. unfold vmaxf in *. cbn [snd] in *. split; [lia|].
  intros k y [E|Hin]; [inversion E; subst; lia|eauto].
Qed.

Lemma vget_le_vmaxf m k : vget k m <= vmaxf m 0.
Proof.
  unfold vget. destruct (aget k m) as [y|] eqn:E; [|lia].
  apply aget_In in E. now apply (proj2 (vmaxf_ge m 0) k y).
Qed.

(* a label is covered by what is on disk *)
Definition pcov (s : lstate) (l : N) : Prop := l <= l_pr s \/ exists k, l <= vget k (l_pmaxv s).

(* the persisted maxima of s' dominate those of s *)
Definition ple (s s' : lstate) : Prop :=
  l_pr s <= l_pr s' /\ forall k, vget k (l_pmaxv s) <= vget k (l_pmaxv s').

Lemma pcov_ple s s' l : ple s s' -> pcov s l -> pcov s' l.
Proof.
  intros [H1 H2] [H|[k H]]; [left; lia|right; exists k; specialize (H2 k); lia].
Qed.

Record r_inv (s : lstate) (last : N) : Prop := {
  ri_next : l_next s = 0 /\ l_pnext s = None;
  ri_last : last <= l_pr s;
  ri_cov : forall l, In l (l_present s) -> pcov s l;
  ri_read : forall v bm c, In (v, bm, Some c) (l_pending s) -> c <= vget v (l_pmaxv s);
  ri_up : l_up s = true ->
          l_pr s <= l_maxrepo s /\ l_maxv s = l_pmaxv s /\ forall k, vget k (l_pmaxv s) <= l_maxrepo s
}.

Lemma l_load_repo_ge s : l_pr s <= l_maxrepo (l_load s) /\ forall k, vget k (l_pmaxv s) <= l_maxrepo (l_load s).
Proof.
  split; [apply l_load_ge|]. intro k. pose proof (vget_le_vmaxf (l_pmaxv s) k) as H.
  unfold l_load, vmaxf in *. cbn [l_maxrepo].
  set (vm := fold_left _ _ 0) in *.
  destruct (l_pmaxrepo s) as [p|].
  - destruct (p <? vm) eqn:E; [apply N.ltb_lt in E|apply N.ltb_ge in E]; lia.
  - destruct (vm =? 0) eqn:E; [apply N.eqb_eq in E|]; lia.
Qed.

(* going down keeps the disk *)
Lemma r_inv_down s s' last :
  r_inv s last -> ple s s' -> l_present s' = l_present s -> l_pnext s' = l_pnext s ->
  r_inv (l_down s') last.
Proof.
  intros [[Hn Hpn] Hl Hc Hr Hu] Hple Hpres Hpn'. constructor; cbn; auto.
  - split; [reflexivity|congruence].
  - unfold l_pr in *. cbn. destruct Hple as [H _]. unfold l_pr in H. lia.
  - rewrite Hpres. intros l Hin. specialize (Hc l Hin). apply (pcov_ple s s' l Hple) in Hc.
    exact Hc.
  - intros ? ? ? [].
  - discriminate.
Qed.

Lemma ple_refl s : ple s s.
Proof. split; [lia|intro; lia]. Qed.

(* the Lock section, any number of its Puts performed *)
Lemma r_section_ple s v x rv k p :
  l_pr s <= l_maxrepo s -> (rv = true -> vget v (l_pmaxv s) <= x) ->
  ple s (r_section s v x rv k p).
Proof.
  intros Hpr Hrv. unfold ple, r_section, l_pr. cbn [l_pmaxrepo l_pmaxv]. split.
  - unfold l_pr in Hpr. destruct (l_maxrepo s <? x) eqn:E; cbn [andb]; [apply N.ltb_lt in E|lia].
    destruct (Nat.leb _ k); [|lia]. destruct (l_pmaxrepo s); lia.
  - intro k0. destruct rv; cbn [andb]; [|lia]. destruct (Nat.leb 1 k); [|lia].
    rewrite vget_aset. destruct (k0 =? v) eqn:E; [apply N.eqb_eq in E; subst; auto|lia].
Qed.

(* the complete Lock section in a running process *)
Lemma r_section_inv s v x rv p last :
  r_inv s last -> l_up s = true -> (rv = true -> vget v (l_pmaxv s) <= x) ->
  (forall t, In t p -> In t (l_pending s)) ->
  let s' := r_section s v x rv 2 p in
  r_inv s' last /\ ple s s' /\ (rv = true -> pcov s' x).
Proof.
  intros Hinv Hup Hrv Hp. pose proof Hinv as [[Hn Hpn] Hl Hc Hr Hu].
  destruct (Hu Hup) as (U1 & U2 & U3). cbn zeta.
  pose proof (r_section_ple s v x rv 2 p U1 Hrv) as Hple.
  split; [|split; [exact Hple|]].
  - constructor.
    + cbn. auto.
    + destruct Hple as [H _]. lia.
    + intros l Hin. apply (pcov_ple s _ l Hple). apply Hc. exact Hin.
    + intros v0 bm c Hin. cbn [r_section l_pending] in Hin. apply Hp in Hin. specialize (Hr _ _ _ Hin).
      destruct Hple as [_ H]. specialize (H v0). lia.
    + intros _. unfold r_section, l_pr. cbn [l_pmaxrepo l_pmaxv l_maxrepo l_maxv]. unfold l_pr in U1.
      assert (Hb : Nat.leb 1 2 = true /\ Nat.leb 2 2 = true) by (split; reflexivity). destruct Hb as [B1 B2].
      rewrite B1. destruct rv; cbn [andb]; rewrite ?B1, ?B2, ?andb_true_r.
      * specialize (Hrv eq_refl). rewrite U2.
        destruct (l_maxrepo s <? x) eqn:E; [apply N.ltb_lt in E|apply N.ltb_ge in E];
          (split; [destruct (l_pmaxrepo s); lia|split; [reflexivity|]]);
          intro k0; rewrite vget_aset; destruct (k0 =? v); try lia; specialize (U3 k0); lia.
      * destruct (l_maxrepo s <? x) eqn:E; [apply N.ltb_lt in E|apply N.ltb_ge in E];
          (split; [destruct (l_pmaxrepo s); lia|split; [exact U2|]]);
          intro k0; specialize (U3 k0); lia.
  - intros ->. right. exists v. unfold r_section. cbn [l_pmaxv andb Nat.leb]. rewrite vget_aset, N.eqb_refl. lia.
Qed.

Lemma absent_or_below_spec s v x : l_maxv s = l_pmaxv s ->
  (absent_or_below s v x = true -> vget v (l_pmaxv s) <= x) /\
  (absent_or_below s v x = false -> x <= vget v (l_pmaxv s)).
Proof.
  intro E. unfold absent_or_below, vget. rewrite E. destruct (aget v (l_pmaxv s)) as [st|].
  - split; intro H; [apply N.ltb_lt in H|apply N.ltb_ge in H]; lia.
  - split; [lia|discriminate].
Qed.

Lemma r_inv_add s last ls : r_inv s last -> (forall l, In l ls -> pcov s l) -> r_inv (add_present s ls) last.
Proof.
  intros [Hn Hl Hc Hr Hu] H. constructor; auto.
  intros l Hin. cbn in Hin. apply in_app_or in Hin as [Hin|Hin]; [apply (H l Hin)|apply (Hc l Hin)].
Qed.

Lemma l_raise_section s ls v x :
  l_raise (add_present s ls) v x (l_pending (add_present s ls)) = add_present (r_section s v x true 2 (l_pending s)) ls.
Proof.
  unfold l_raise, r_section, add_present. cbn. destruct (l_maxrepo s <? x); reflexivity.
Qed.

Definition r_not_repos (e : revent) : Prop := match e with RE (LSetNext _) => False | _ => True end.

(* one event: what is handed out is above the last label handed out and above every label in the volume *)
Lemma rstep_inv s e last : r_inv s last -> r_not_repos e ->
  let '(s1, o) := rstep s e in
  match o with
  | Some (b, en) => last < b /\ b <= en /\ en <= max_label /\ (forall l, In l (l_present s) -> l < b) /\ r_inv s1 en
  | None => r_inv s1 last
  end.
Proof.
  intros Hinv Hne. pose proof Hinv as [[Hn Hpn] Hl Hc Hr Hu]. unfold rstep.
  destruct (l_up s) eqn:Eup; cbn [negb].
  2:{ (* the process is down: only a restart does anything *)
      destruct e as [e| |]; [|exact Hinv|exact Hinv].
      unfold lstep. rewrite Eup. cbn [negb]. destruct e; try exact Hinv.
      destruct (l_load_repo_ge s) as [L1 L2].
      constructor; cbn; auto.
      - now rewrite Hpn.
      - intros ? ? ? []. }
  destruct (Hu eq_refl) as (U1 & U2 & U3).
  destruct e as [e|i k|v l k].
  - destruct e; try contradiction.
    + (* LAlloc *)
      unfold lstep. rewrite Eup. cbn [negb].
      destruct (n =? 0) eqn:En; [exact Hinv|]. apply N.eqb_neq in En.
      unfold alloc_refused. rewrite Hn. cbn [N.eqb andb].
      destruct (max_label - l_maxrepo s <? n) eqn:Eg; [exact Hinv|]. apply N.ltb_ge in Eg.
      unfold l_alloc. rewrite Hn. cbn [N.eqb negb].
      split; [lia|]. split; [lia|]. split; [lia|]. split.
      * intros l0 Hin. destruct (Hc _ Hin) as [H|[k H]]; [lia|specialize (U3 k); lia].
      * constructor; cbn; auto.
        -- unfold l_pr. cbn. lia.
        -- intros l0 Hin. apply in_app_or in Hin as [Hin|Hin].
           ++ apply seqN_In in Hin. left. unfold l_pr. cbn. lia.
           ++ destruct (Hc _ Hin) as [H|[k H]]; left; unfold l_pr; cbn; [lia|specialize (U3 k); lia].
        -- intros v0 bm c Hin. specialize (Hr _ _ _ Hin). rewrite vget_aset.
           destruct (v0 =? v); [specialize (U3 v0); lia|exact Hr].
        -- intros _. unfold l_pr. cbn. split; [lia|]. split; [now rewrite U2|].
           intro k. rewrite vget_aset. destruct (k =? v); [lia|specialize (U3 k); lia].
    + (* LAllocCrash *)
      unfold lstep. rewrite Eup. cbn [negb].
      destruct ((n =? 0) || alloc_refused s n) eqn:Er; [apply (r_inv_down s s last Hinv (ple_refl s)); reflexivity|].
      apply orb_false_iff in Er as [En Er]. apply N.eqb_neq in En.
      unfold l_alloc. rewrite Hn. cbn [N.eqb negb fst].
      apply (r_inv_down s _ last Hinv); [|reflexivity|reflexivity].
      split.
      * unfold l_pr. cbn. destruct k as [|[|k]]; try lia. unfold l_pr in U1. destruct (l_pmaxrepo s); lia.
      * intro k0. cbn. destruct k as [|k]; [lia|]. rewrite vget_aset. destruct (k0 =? v); [specialize (U3 k0); lia|lia].
    + (* LIngest: tasks queued, nothing stored *)
      constructor; cbn; auto.
      intros v0 bm c Hin. apply in_app_or in Hin as [Hin|Hin]; [eauto|].
      apply in_map_iff in Hin as [x [E _]]. inversion E.
    + (* LBgRead *)
      unfold lstep. rewrite Eup. cbn [negb].
      constructor; cbn; auto.
      intros v0 bm c Hin. apply nth_update_In in Hin as [Hin|[[[v1 bm1] c1] [Hin E]]]; [eauto|].
      inversion E; subst. rewrite U2. lia.
    + (* LBgWrite: the Lock section, then the block is written *)
      destruct (nth_remove i (l_pending s)) as [[[[v bm] [c|]] rest]|] eqn:Er; try exact Hinv.
      pose proof (nth_remove_In _ _ _ _ Er) as Hmem.
      assert (Hc0 : c <= vget v (l_pmaxv s)) by (apply (Hr v bm); apply Hmem; now left).
      assert (Hrest : forall t, In t rest -> In t (l_pending s)) by (intros t Ht; apply Hmem; now right).
      destruct (absent_or_below_spec s v bm U2) as [A1 A2].
      destruct (c <? bm) eqn:Ecb.
      * destruct (r_section_inv s v bm (absent_or_below s v bm) rest last Hinv Eup A1 Hrest) as (R1 & R2 & R3).
        apply r_inv_add; [exact R1|]. intros l0 [<-|[]].
        destruct (absent_or_below s v bm) eqn:Ea; [now apply R3|].
        apply (pcov_ple s _ _ R2). right. exists v. now apply A2.
      * apply N.ltb_ge in Ecb. apply r_inv_add.
        -- constructor; cbn; auto. intros v0 bm0 c0 Hin. apply (Hr v0 bm0). now apply Hrest.
        -- intros l0 [<-|[]]. right. exists v. cbn. lia.
    + (* LSetMax *)
      unfold lstep. rewrite Eup. cbn [negb].
      assert (R : vget v (l_pmaxv s) <= l -> r_inv (l_raise (add_present s [l]) v l (l_pending (add_present s [l]))) last).
      { intro Hv. rewrite l_raise_section.
        destruct (r_section_inv s v l true (l_pending s) last Hinv Eup (fun _ => Hv) (fun t H => H)) as (R1 & R2 & R3).
        apply r_inv_add; [exact R1|]. intros l0 [<-|[]]. now apply R3. }
      destruct (vget v (l_maxv s) <? l) eqn:Ev.
      * apply N.ltb_lt in Ev. rewrite U2 in Ev. apply R. lia.
      * apply N.ltb_ge in Ev. destruct (aget v (l_maxv s)) as [x|] eqn:Eg.
        -- apply r_inv_add; [exact Hinv|]. intros l0 [<-|[]]. right. exists v. rewrite <- U2. exact Ev.
        -- apply R. rewrite <- U2. unfold vget. rewrite Eg. lia.
    + (* LCrash *)
      unfold lstep. rewrite Eup. cbn [negb].
      apply (r_inv_down s s last Hinv (ple_refl s)); reflexivity.
    + (* LRestart in a running process *)
      unfold lstep. rewrite Eup. exact Hinv.
  - (* RWriteCrash *)
    destruct (nth_remove i (l_pending s)) as [[[[v bm] [c|]] rest]|] eqn:Er;
      try (apply (r_inv_down s s last Hinv (ple_refl s)); reflexivity).
    destruct (c <? bm); [|apply (r_inv_down s s last Hinv (ple_refl s)); reflexivity].
    destruct (absent_or_below_spec s v bm U2) as [A1 _].
    apply (r_inv_down s _ last Hinv); [|reflexivity|reflexivity].
    now apply r_section_ple.
  - (* RSetMaxCrash *)
    destruct (absent_or_below_spec s v l U2) as [A1 _].
    destruct (absent_or_below s v l); [|apply (r_inv_down s s last Hinv (ple_refl s)); reflexivity].
    apply (r_inv_down s _ last Hinv); [|reflexivity|reflexivity].
    apply r_section_ple; auto.
Qed.

Lemma r_fresh_inv : r_inv l_fresh 0.
Proof.
  constructor.
  - split; reflexivity.
  - cbn. lia.
  - intros ? [].
  - intros ? ? ? [].
  - intros _. split; [cbn; lia|]. split; [reflexivity|]. intro k. cbn. lia.
Qed.

Lemma r_no_repos_cons e evs : r_no_reposition (e :: evs) = true -> r_not_repos e /\ r_no_reposition evs = true.
Proof.
  unfold r_no_reposition. cbn [forallb]. intro H. apply andb_true_iff in H as [He H]. split; [|exact H].
  destruct e as [[]| |]; cbn; auto; discriminate.
Qed.

Lemma rrun_inv evs : forall s last, r_inv s last -> r_no_reposition evs = true ->
  exists last', r_inv (fst (rrun s evs)) last' /\ ranges_increasing last (snd (rrun s evs)).
Proof.
  induction evs as [|e evs IH]; intros s last Hinv Hnr; cbn [rrun]; [exists last; split; [exact Hinv|exact I]|].
  apply r_no_repos_cons in Hnr as [Hne Hnr].
  pose proof (rstep_inv s e last Hinv Hne) as Hs. destruct (rstep s e) as [s1 o].
  destruct o as [[b en]|].
  - destruct Hs as (H1 & H2 & _ & _ & H3). destruct (IH s1 en H3 Hnr) as [last' [A B]].
    destruct (rrun s1 evs) as [s2 out]. cbn [fst snd] in *. exists last'. split; [exact A|].
    cbn [ranges_increasing]. auto.
  - destruct (IH s1 last Hs Hnr) as [last' [A B]].
    destruct (rrun s1 evs) as [s2 out]. cbn [fst snd] in *. exists last'. auto.
Qed.

(* label_fresh, all histories: whatever happened before -- including kills inside allocations,
   inside max-label updates after any of their Puts, between an ingest's update and its block write,
   and any number of restarts -- an allocation that is served returns labels above every label in
   the volume *)
Lemma label_fresh_all_histories evs v n : r_no_reposition evs = true ->
  let s := fst (rrun l_fresh evs) in
  forall b e, snd (rstep s (RE (LAlloc v n))) = Some (b, e) ->
  b <= e /\ e <= max_label /\ forall l, In l (l_present s) -> l < b.
Proof.
  intros Hnr. cbn zeta. intros b e H.
  destruct (rrun_inv evs l_fresh 0 r_fresh_inv Hnr) as [last [Hinv _]].
  pose proof (rstep_inv _ (RE (LAlloc v n)) last Hinv I) as Hs.
  destruct (rstep (fst (rrun l_fresh evs)) (RE (LAlloc v n))) as [s1 o]. cbn [snd] in H. subst o.
  destruct Hs as (_ & H2 & H3 & H4 & _). auto.
Qed.

(* ... and no label is handed out twice: ranges are disjoint and increasing in issue order *)
Lemma label_unique_all_histories evs : r_no_reposition evs = true ->
  ranges_increasing 0 (snd (rrun l_fresh evs)).
Proof.
  intro Hnr. destruct (rrun_inv evs l_fresh 0 r_fresh_inv Hnr) as [last [_ H]]. exact H.
Qed.

(* every label handed out is recorded as a label of the volume (so freshness covers reuse too) *)
Lemma rstep_present_mono s e : forall l, In l (l_present s) -> In l (l_present (fst (rstep s e))).
Proof.
  intros l Hin. unfold rstep. destruct (l_up s) eqn:Eup; cbn [negb].
  - destruct e as [e|i k|v x k].
    + destruct e; try (unfold lstep; rewrite Eup; cbn [negb]).
      * destruct (n =? 0); [exact Hin|]. destruct (alloc_refused s n); [exact Hin|].
        unfold l_alloc. destruct (negb (l_next s =? 0)); cbn; apply in_or_app; now right.
      * destruct ((n =? 0) || alloc_refused s n); [exact Hin|]. unfold l_alloc.
        destruct (negb (l_next s =? 0)); exact Hin.
      * exact Hin.
      * exact Hin.
      * destruct (nth_remove i (l_pending s)) as [[[[v bm] [c|]] rest]|]; try exact Hin.
        destruct (c <? bm); cbn; now right.
      * destruct (vget v (l_maxv s) <? l0); [cbn; now right|].
        destruct (aget v (l_maxv s)); cbn; now right.
      * exact Hin.
      * exact Hin.
      * exact Hin.
    + destruct (nth_remove i (l_pending s)) as [[[[v bm] [c|]] rest]|]; try exact Hin.
      destruct (c <? bm); exact Hin.
    + destruct (absent_or_below s v x); exact Hin.
  - destruct e as [e| |]; try exact Hin. unfold lstep. rewrite Eup. cbn [negb]. destruct e; exact Hin.
Qed.

(* ---- the window that is left: POST index / POST indices write the index before they raise the maximum ---- *)
Lemma label_fresh_index_kill_refuted :
  let s := fst (rrun l_fresh [RE (LAlloc 1 5)]) in
  let s' := fst (rstep (r_index_killed s 1000) (RE LRestart)) in
  l_up s' = true /\ In 1000 (l_present s') /\ snd (rstep s' (RE (LAlloc 1 1))) = Some (6, 6).
Proof. vm_compute. repeat split. now left. Qed.
