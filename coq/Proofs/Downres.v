(* Proofs.Downres: the vote, setBlank, the octant index arithmetic and the level-by-level
   pyramid update. *)
From DV Require Import Base.Prelude Base.Int Base.BitPack Model.Block Model.Downres
     Proofs.BitPack Proofs.Block Gen.Consts.
From Coq Require Import ZifyN ZifyNat ZifyBool Permutation.
Ltac Zify.zify_post_hook ::= Z.div_mod_to_equations.
Local Open Scope N_scope.

(* ---------------- the vote map ---------------- *)

Definition occ (l : N) (ls : list N) : N := N.of_nat (length (filter (N.eqb l) ls)).

Fixpoint lookup (d : list (N * N)) (l : N) : N :=
  match d with
  | [] => 0
  | (l', c) :: r => if l =? l' then c else lookup r l
  end.

Definition keys_ok (d : list (N * N)) : Prop :=
  NoDup (map fst d) /\ forall e, In e d -> fst e <> 0 /\ 0 < snd e.

Lemma bump_spec l c d l' : lookup (bump l c d) l' = if l' =? l then lookup d l + c else lookup d l'.
Proof.
  induction d as [|[k v] d IH]; simpl.
  - destruct (l' =? l); lia.
  - destruct (l =? k) eqn:E1; simpl.
    + apply N.eqb_eq in E1. subst k. destruct (l' =? l) eqn:E2; [lia | reflexivity].
    + rewrite IH. destruct (l' =? k) eqn:E3; [|reflexivity].
      apply N.eqb_eq in E3. subst k. destruct (l' =? l) eqn:E4; [|reflexivity].
      apply N.eqb_eq in E4. subst. rewrite N.eqb_refl in E1. discriminate.
Qed.

Lemma bump_keys l c d : In l (map fst d) -> map fst (bump l c d) = map fst d.
Proof.
  induction d as [|[k v] d IH]; simpl; [intros []|]. intro H.
  destruct (l =? k) eqn:E; simpl; [reflexivity|]. f_equal. apply IH.
  destruct H as [H|H]; [subst; rewrite N.eqb_refl in E; discriminate | exact H].
Qed.

Lemma bump_keys_new l c d : ~ In l (map fst d) -> map fst (bump l c d) = map fst d ++ [l].
Proof.
  induction d as [|[k v] d IH]; simpl; [reflexivity|]. intro H.
  destruct (l =? k) eqn:E; [apply N.eqb_eq in E; subst; exfalso; apply H; now left|].
  simpl. f_equal. apply IH. intro Hin. apply H. now right.
Qed.

Lemma In_lookup d e : NoDup (map fst d) -> In e d -> lookup d (fst e) = snd e.
Proof.
  induction d as [|[k v] d IH]; simpl; [intros _ []|]. intros ND [H|H].
  - subst. simpl. now rewrite N.eqb_refl.
  - inversion ND; subst. destruct (fst e =? k) eqn:E.
    + apply N.eqb_eq in E. exfalso. apply H2. rewrite <- E. now apply in_map.
    + now apply IH.
Qed.

Lemma lookup_In d l : lookup d l <> 0 -> In (l, lookup d l) d.
Proof.
  induction d as [|[k v] d IH]; simpl; [congruence|]. intro H.
  destruct (l =? k) eqn:E; [apply N.eqb_eq in E; subst; now left | right; now apply IH].
Qed.

Lemma bump_ok l d : l <> 0 -> keys_ok d -> keys_ok (bump l 1 d).
Proof.
  intros Hl [ND Hpos]. split.
  - destruct (in_dec N.eq_dec l (map fst d)) as [Hin|Hin].
    + now rewrite bump_keys.
    + rewrite bump_keys_new by exact Hin. clear Hpos.
      induction (map fst d) as [|k ks IHk]; simpl; [constructor; [intros []|constructor]|].
      inversion ND; subst. constructor.
      * intro H. apply in_app_or in H as [H|[H|[]]]; [contradiction | subst; apply Hin; now left].
      * apply IHk; [assumption|]. intro H. apply Hin. now right.
  - intros e He. induction d as [|[k v] d IH]; simpl in He.
    + destruct He as [He|[]]. subst. simpl. split; [exact Hl | lia].
    + destruct (l =? k) eqn:E; simpl in He.
      * destruct He as [He|He]; [subst; simpl; destruct (Hpos (k, v) (or_introl eq_refl)); simpl in *; split; [assumption|lia]|].
        apply Hpos. now right.
      * destruct He as [He|He]; [apply Hpos; now left|].
        inversion ND; subst. apply IH; try assumption. intros e' He'. apply Hpos. now right.
Qed.

Lemma occ_cons l x ls : occ l (x :: ls) = (if l =? x then 1 else 0) + occ l ls.
Proof. unfold occ. cbn [filter]. destruct (l =? x); cbn [length]; lia. Qed.

Lemma count_labels_spec ls : forall d, keys_ok d ->
  keys_ok (count_labels ls d) /\
  forall l, lookup (count_labels ls d) l = lookup d l + (if l =? 0 then 0 else occ l ls).
Proof.
  unfold count_labels. induction ls as [|x ls IH]; intros d Hd; cbn [fold_left].
  - split; [exact Hd|]. intro l. unfold occ. cbn [filter length N.of_nat]. destruct (l =? 0); lia.
  - destruct (x =? 0) eqn:E.
    + apply N.eqb_eq in E. subst x. destruct (IH d Hd) as [K L]. split; [exact K|]. intro l. rewrite L.
      rewrite occ_cons. destruct (l =? 0) eqn:E0; [reflexivity|]. lia.
    + apply N.eqb_neq in E. destruct (IH (bump x 1 d) (bump_ok x d E Hd)) as [K L]. split; [exact K|].
      intro l. rewrite L, bump_spec, occ_cons. destruct (l =? x) eqn:E1.
      * apply N.eqb_eq in E1. subst l. replace (x =? 0) with false by (symmetry; now apply N.eqb_neq). lia.
      * destruct (l =? 0); lia.
Qed.

Lemma votemap_spec ls :
  keys_ok (votemap ls) /\ forall l, lookup (votemap ls) l = if l =? 0 then 0 else occ l ls.
Proof.
  unfold votemap. destruct (count_labels_spec ls []) as [K L].
  - split; [constructor | intros e []].
  - split; [exact K|]. intro l. rewrite L. reflexivity.
Qed.

(* ---------------- picking the winner, in any iteration order ---------------- *)

Definition pick_step (w : N * N) (e : N * N) : N * N :=
  let '(winner, winnerVotes) := w in let '(lbl, votes) := e in
  if winnerVotes <? votes then (lbl, votes)
  else if (winnerVotes =? votes) && (lbl <? winner) then (lbl, votes)
  else w.

Definition best (P : list (N * N)) (w : N * N) : Prop :=
  In w P /\ forall e, In e P -> snd e < snd w \/ (snd e = snd w /\ fst w <= fst e).

Lemma pick_fold es : forall P w,
  (forall e, In e es -> 0 < snd e) ->
  (P = [] /\ w = (0, 0)) \/ best P w ->
  let w' := fold_left pick_step es w in
  (P ++ es = [] /\ w' = (0, 0)) \/ best (P ++ es) w'.
Proof.
  induction es as [|e es IH]; intros P w Hpos Hw; simpl.
  - rewrite app_nil_r. exact Hw.
  - replace (P ++ e :: es) with ((P ++ [e]) ++ es) by (rewrite <- app_assoc; reflexivity).
    apply IH; [intros e' He'; apply Hpos; now right|]. right.
    assert (He : 0 < snd e) by (apply Hpos; now left).
    destruct w as [wl wv]. destruct e as [l v]. simpl in He. unfold pick_step.
    destruct Hw as [[HP Hw]|[Hin Hb]].
    + inversion Hw; subst. replace (0 <? v) with true by (symmetry; apply N.ltb_lt; exact He).
      split; [simpl; now left|]. intros e' [He'|[]]. subst. right. simpl. split; [reflexivity|lia].
    + simpl in Hb. destruct (wv <? v) eqn:C1.
      * apply N.ltb_lt in C1. split; [apply in_or_app; right; now left|].
        intros e' He'. apply in_app_or in He' as [He'|[He'|[]]].
        -- destruct (Hb e' He') as [H|[H _]]; left; simpl; lia.
        -- subst. right. simpl. split; [reflexivity|lia].
      * apply N.ltb_ge in C1. destruct ((wv =? v) && (l <? wl)) eqn:C2.
        -- apply andb_true_iff in C2 as [C2 C3]. apply N.eqb_eq in C2. apply N.ltb_lt in C3. subst v.
           split; [apply in_or_app; right; now left|].
           intros e' He'. apply in_app_or in He' as [He'|[He'|[]]].
           ++ destruct (Hb e' He') as [H|[H1 H2]]; [left; simpl; lia | right; simpl in *; split; lia].
           ++ subst. right. simpl. split; [reflexivity|lia].
        -- split; [apply in_or_app; now left|].
           intros e' He'. apply in_app_or in He' as [He'|[He'|[]]]; [now apply Hb|]. subst. simpl.
           apply andb_false_iff in C2 as [C2|C2].
           ++ apply N.eqb_neq in C2. left. lia.
           ++ apply N.ltb_ge in C2. destruct (N.eq_dec v wv); [right; split; [assumption|lia] | left; lia].
Qed.

Lemma pick_spec es :
  (forall e, In e es -> 0 < snd e) ->
  (es = [] /\ pick es = 0) \/ (exists c, best es (pick es, c)).
Proof.
  intro Hpos. unfold pick. change (fun (w e : N * N) => _) with pick_step.
  destruct (pick_fold es [] (0, 0) Hpos (or_introl (conj eq_refl eq_refl))) as [[H1 H2]|H]; simpl in *.
  - left. split; [exact H1 | now rewrite H2].
  - right. destruct (fold_left pick_step es (0, 0)) as [w c]. exists c. exact H.
Qed.

(* the winner does not depend on the iteration order of the map *)
Theorem pick_order_independent es es' :
  Permutation es es' -> NoDup (map fst es) -> (forall e, In e es -> 0 < snd e) -> pick es = pick es'.
Proof.
  intros HP ND Hpos.
  assert (Hpos' : forall e, In e es' -> 0 < snd e).
  { intros e He. apply Hpos. eapply Permutation_in; [apply Permutation_sym; exact HP | exact He]. }
  destruct (pick_spec es Hpos) as [[E1 E2]|[c [I1 B1]]];
  destruct (pick_spec es' Hpos') as [[E1' E2']|[c' [I1' B1']]].
  - congruence.
  - subst es. apply Permutation_nil in HP. subst. destruct I1'.
  - subst es'. apply Permutation_sym, Permutation_nil in HP. subst. destruct I1.
  - assert (I2 : In (pick es', c') es) by (eapply Permutation_in; [apply Permutation_sym; exact HP | exact I1']).
    assert (I2' : In (pick es, c) es') by (eapply Permutation_in; [exact HP | exact I1]).
    destruct (B1 _ I2) as [H|[H1 H2]]; destruct (B1' _ I2') as [H'|[H1' H2']]; simpl in *; try lia.
Qed.

(* the documented vote: most frequent non-zero label, ties to the smaller label, zero when all are
   zero *)
Theorem vote_spec ls :
  ((forall l, In l ls -> l = 0) -> vote ls = 0) /\
  ((exists l, In l ls /\ l <> 0) ->
   vote ls <> 0 /\ In (vote ls) ls /\
   forall l, l <> 0 -> occ l ls < occ (vote ls) ls \/ (occ l ls = occ (vote ls) ls /\ vote ls <= l)).
Proof.
  destruct (votemap_spec ls) as [[ND Hpos] L].
  assert (Hp : forall e, In e (votemap ls) -> 0 < snd e) by (intros e He; now apply Hpos).
  assert (Hocc : forall l, occ l ls <> 0 -> In l ls).
  { intros l H. unfold occ in H. destruct (filter (N.eqb l) ls) as [|x xs] eqn:E; [simpl in H; lia|].
    assert (In x (filter (N.eqb l) ls)) by (rewrite E; now left).
    apply filter_In in H0 as [H1 H2]. apply N.eqb_eq in H2. now subst. }
  assert (Hin : forall l, In l ls -> l <> 0 -> occ l ls <> 0).
  { intros l H1 _. unfold occ. assert (In l (filter (N.eqb l) ls)) by (apply filter_In; split; [assumption|apply N.eqb_refl]).
    destruct (filter (N.eqb l) ls); [contradiction|simpl; lia]. }
  unfold vote. split.
  - intro H0. destruct (pick_spec (votemap ls) Hp) as [[_ E]|[c [I _]]]; [exact E|].
    destruct (Hpos _ I) as [K1 K2]. simpl in K1, K2.
    pose proof (In_lookup _ _ ND I) as LK. simpl in LK. rewrite L in LK.
    replace (pick (votemap ls) =? 0) with false in LK by (symmetry; now apply N.eqb_neq).
    exfalso. apply K1. apply H0. apply Hocc. lia.
  - intros [l0 [Hl0 Hn0]].
    destruct (pick_spec (votemap ls) Hp) as [[E _]|[c [I B]]].
    + exfalso. pose proof (L l0) as LK. rewrite E in LK. simpl in LK.
      replace (l0 =? 0) with false in LK by (symmetry; now apply N.eqb_neq).
      apply (Hin l0 Hl0 Hn0). lia.
    + destruct (Hpos _ I) as [K1 K2]. simpl in K1, K2.
      pose proof (In_lookup _ _ ND I) as LK. simpl in LK. rewrite L in LK.
      replace (pick (votemap ls) =? 0) with false in LK by (symmetry; now apply N.eqb_neq).
      split; [exact K1|]. split; [apply Hocc; lia|].
      intros l Hl. destruct (N.eq_dec (occ l ls) 0) as [Z|NZ]; [left; lia|].
      assert (Il : In (l, occ l ls) (votemap ls)).
      { pose proof (L l) as Ll. replace (l =? 0) with false in Ll by (symmetry; now apply N.eqb_neq).
        rewrite <- Ll. apply lookup_In. lia. }
      destruct (B _ Il) as [H|[H1 H2]]; simpl in *; [left; lia | right; split; lia].
Qed.

(* ---------------- octant index of a changed block ---------------- *)

Lemma shiftr1 c : parent_coord c = (c / 2)%Z.
Proof. unfold parent_coord. rewrite Z.shiftr_div_pow2 by lia. reflexivity. Qed.

Lemma land1 c : Z.land c 1 = (c mod 2)%Z.
Proof. change 1%Z with (Z.ones 1). rewrite Z.land_ones by lia. reflexivity. Qed.

(* repaired: for every block coordinate (negative ones included) the change lands in a valid octant
   of the floor-halved parent, and parent and octant determine the block *)
Theorem hires_change_fixed x y z :
  exists i, hires_change true x y z = Ok (parent_coord x, parent_coord y, parent_coord z, i) /\ i < 8 /\
    Z.of_N i = (4 * (z - 2 * parent_coord z) + 2 * (y - 2 * parent_coord y) + (x - 2 * parent_coord x))%Z /\
    (0 <= x - 2 * parent_coord x <= 1)%Z /\ (0 <= y - 2 * parent_coord y <= 1)%Z /\ (0 <= z - 2 * parent_coord z <= 1)%Z.
Proof.
  unfold hires_change, octant_index, bit_of. rewrite !land1, !shiftr1.
  rewrite !Z.shiftl_mul_pow2 by lia.
  set (i := ((z mod 2) * 2 ^ 2 + (y mod 2) * 2 ^ 1 + x mod 2)%Z).
  assert (Hi : (0 <= i < 8)%Z) by (unfold i; lia).
  replace ((i <? 0)%Z || (8 <=? i)%Z) with false by (symmetry; apply orb_false_iff; split; [apply Z.ltb_ge|apply Z.leb_gt]; lia).
  exists (Z.to_N i). split; [reflexivity|]. unfold i. repeat split; lia.
Qed.

(* as found: identical for non-negative coordinates, a panic for a negative odd one *)
Lemma hires_change_nonneg x y z :
  (0 <= x)%Z -> (0 <= y)%Z -> (0 <= z)%Z -> hires_change false x y z = hires_change true x y z.
Proof.
  intros Hx Hy Hz. unfold hires_change, octant_index, bit_of. rewrite !land1.
  rewrite !Z.rem_mod_nonneg by lia. reflexivity.
Qed.

Lemma hires_change_negative_panics :
  hires_change false (-1) (-1) (-1) = Panic /\ hires_change false (-1) 0 2 = Panic /\
  hires_change true (-1) (-1) (-1) = Ok ((-1)%Z, (-1)%Z, (-1)%Z, 7).
Proof. repeat split. Qed.

(* ---------------- setBlank ---------------- *)

(* repaired: the shortcut fires exactly when all octants are given and solid with one common label *)
Lemma set_blank_fixed_spec octs l :
  set_blank true octs = Some l -> Forall (fun o => solid_label o = Some l) octs.
Proof.
  unfold set_blank. destruct octs as [|o0 rest]; [discriminate|].
  destruct (solid_label o0) as [l0|] eqn:E0; [|discriminate].
  destruct (forallb _ rest) eqn:F; [|discriminate]. intro H. inversion H; subst l0.
  constructor; [exact E0|]. rewrite forallb_forall in F. apply Forall_forall. intros o Ho.
  specialize (F o Ho). destruct (solid_label o) as [l'|]; [|discriminate]. apply N.eqb_eq in F. now subst.
Qed.

Lemma set_blank_no_nil octs :
  Forall (fun o => o <> None) octs -> set_blank false octs = set_blank true octs.
Proof.
  intro H. unfold set_blank. destruct octs as [|o0 rest]; [reflexivity|].
  inversion H as [|? ? H0 Hr]; subst. destruct o0 as [b0|]; [|congruence]. cbn [solid_label].
  destruct (b_labels b0) as [|l [|l2 ls]]; try reflexivity.
  f_equal. assert (E : forallb (fun o => match o with
                             | None => l =? 0
                             | Some b => match b_labels b with [l'] => l =? l' | _ => false end end) rest
              = forallb (fun o => match solid_label o with Some l' => l' =? l | None => false end) rest).
  { clear -Hr. induction Hr as [|o rest Ho _ IH]; [reflexivity|]. cbn [forallb]. rewrite IH. f_equal.
    destruct o as [b|]; [|congruence]. cbn [solid_label]. destruct (b_labels b) as [|l' [|? ?]]; try reflexivity.
    apply N.eqb_sym. }
  now rewrite E.
Qed.

(* the defect of the code as found: one solid-0 octant and seven untouched octants over a block
   holding labels 5 and 6 *)
Definition c14_witness_array : list N := map (fun p => if p =? 4095 then 6 else 5) (nseq 4096).
Definition c14_witness_block : block :=
  Eval vm_compute in
    match encode_canon c14_witness_array 16 16 16 0 0 0 2 2 2 with Ok b => b | _ => solid_block 0 0 0 0 end.
Definition c14_witness_octants : list (option block) :=
  [Some (solid_block 0 2 2 2); None; None; None; None; None; None; None].
Definition changed (a a' : list N) : N :=
  N.of_nat (length (filter (fun p : N * N => negb (fst p =? snd p)) (combine a a'))).

Lemma downres_blank_refuted :
  decode c14_witness_block = Ok c14_witness_array /\
  (exists b', downres false sb_table c14_witness_block c14_witness_octants = Ok b' /\
              exists a', decode b' = Ok a' /\ changed c14_witness_array a' = 4096) /\
  (exists b', downres true sb_table c14_witness_block c14_witness_octants = Ok b' /\
              exists a', decode b' = Ok a' /\ changed c14_witness_array a' = 512).
Proof.
  split; [vm_compute; reflexivity|]. split.
  - eexists. split; [vm_compute; reflexivity|]. eexists. split; vm_compute; reflexivity.
  - eexists. split; [vm_compute; reflexivity|]. eexists. split; vm_compute; reflexivity.
Qed.

(* ---------------- the pyramid, voxel-wise ---------------- *)

Local Open Scope Z_scope.

Definition lvl := Z -> Z -> Z -> N.

(* the eight voxels under (x,y,z), in the order of the Go loops *)
Definition under (f : lvl) (x y z : Z) : list N :=
  [f (2 * x) (2 * y) (2 * z); f (2 * x + 1) (2 * y) (2 * z); f (2 * x) (2 * y + 1) (2 * z); f (2 * x + 1) (2 * y + 1) (2 * z);
   f (2 * x) (2 * y) (2 * z + 1); f (2 * x + 1) (2 * y) (2 * z + 1); f (2 * x) (2 * y + 1) (2 * z + 1); f (2 * x + 1) (2 * y + 1) (2 * z + 1)].

(* Pyr: every voxel of level n+1 is the vote of the eight voxels under it, up to level max *)
Definition Pyr (L : nat -> lvl) (max : nat) : Prop :=
  forall n, (n < max)%nat -> forall x y z, L (S n) x y z = vote (under (L n) x y z).

Section Execute.
  Variable B : Z.                     (* block edge in voxels, even *)
  Hypothesis B_even : exists h, 0 < h /\ B = 2 * h.

  Definition blk (v : Z) : Z := v / B.

  (* StoreDownres at one scale: [T] are the changed blocks of the level below (hiresCache / the
     previous scale's result), [lo'] the new content of that level, [hi] the stored level above.
     A voxel of the level above is recomputed iff the block holding its eight children changed
     (Block.Downres over the changed octants, starting from the stored block otherwise). *)
  Definition store_downres (T : Z -> Z -> Z -> bool) (lo' hi : lvl) : lvl :=
    fun x y z => if T (blk (2 * x)) (blk (2 * y)) (blk (2 * z)) then vote (under lo' x y z) else hi x y z.

  (* the blocks of the level above that were rewritten: the parents of the changed blocks *)
  Definition parents (T : Z -> Z -> Z -> bool) : Z -> Z -> Z -> bool :=
    fun px py pz =>
      existsb (fun o => T (2 * px + o mod 2) (2 * py + (o / 2) mod 2) (2 * pz + o / 4)) [0; 1; 2; 3; 4; 5; 6; 7].

  (* Mutation.Execute: scale after scale *)
  Fixpoint exec (T : Z -> Z -> Z -> bool) (L : nat -> lvl) (l0' : lvl) (n : nat) : lvl * (Z -> Z -> Z -> bool) :=
    match n with
    | O => (l0', T)
    | S n' => let '(lo', Tn) := exec T L l0' n' in (store_downres Tn lo' (L (S n')), parents Tn)
    end.

  Definition after (T : Z -> Z -> Z -> bool) (L : nat -> lvl) (l0' : lvl) (max : nat) : nat -> lvl :=
    fun n => if (n <=? max)%nat then fst (exec T L l0' n) else L n.

  Lemma blk_children v i : 0 <= i <= 1 -> blk (2 * v + i) = blk (2 * v).
  Proof.
    destruct B_even as [h [Hh E]]. intro Hi. unfold blk. rewrite E.
    rewrite <- !Z.div_div by lia.
    replace ((2 * v + i) / 2) with v by lia. replace (2 * v / 2) with v by lia. reflexivity.
  Qed.

  Lemma blk_parent v : blk v = blk (2 * v) / 2 /\ 0 <= blk (2 * v) - 2 * blk v <= 1.
  Proof.
    destruct B_even as [h [Hh E]]. unfold blk. rewrite E.
    assert (H1 : 2 * v / (2 * h) = v / h).
    { rewrite <- Z.div_div by lia. replace (2 * v / 2) with v by lia. reflexivity. }
    rewrite H1. assert (H2 : v / (2 * h) = v / h / 2) by (rewrite Z.mul_comm, Z.div_div by lia; reflexivity).
    rewrite H2. split; [reflexivity|]. lia.
  Qed.

  Lemma parents_spec T x y z :
    T (blk (2 * x)) (blk (2 * y)) (blk (2 * z)) = true -> parents T (blk x) (blk y) (blk z) = true.
  Proof.
    intro H. unfold parents. apply existsb_exists.
    destruct (blk_parent x) as [_ Hx]. destruct (blk_parent y) as [_ Hy]. destruct (blk_parent z) as [_ Hz].
    set (ox := blk (2 * x) - 2 * blk x) in *. set (oy := blk (2 * y) - 2 * blk y) in *.
    set (oz := blk (2 * z) - 2 * blk z) in *.
    exists (ox + 2 * oy + 4 * oz). split.
    - assert (ox = 0 \/ ox = 1) as [Ex|Ex] by lia; assert (oy = 0 \/ oy = 1) as [Ey|Ey] by lia;
        assert (oz = 0 \/ oz = 1) as [Ez|Ez] by lia; rewrite Ex, Ey, Ez; simpl; tauto.
    - replace ((ox + 2 * oy + 4 * oz) mod 2) with ox by lia.
      replace (((ox + 2 * oy + 4 * oz) / 2) mod 2) with oy by lia.
      replace ((ox + 2 * oy + 4 * oz) / 4) with oz by lia.
      unfold ox, oy, oz.
      replace (2 * blk x + (blk (2 * x) - 2 * blk x)) with (blk (2 * x)) by lia.
      replace (2 * blk y + (blk (2 * y) - 2 * blk y)) with (blk (2 * y)) by lia.
      replace (2 * blk z + (blk (2 * z) - 2 * blk z)) with (blk (2 * z)) by lia.
      exact H.
  Qed.

  (* outside the changed blocks nothing differs from the stored level *)
  Lemma exec_untouched T L l0' :
    (forall x y z, T (blk x) (blk y) (blk z) = false -> l0' x y z = L O x y z) ->
    forall n x y z, snd (exec T L l0' n) (blk x) (blk y) (blk z) = false ->
                    fst (exec T L l0' n) x y z = L n x y z.
  Proof.
    intros H0 n. induction n as [|n IH]; intros x y z Hu; [now apply H0|].
    cbn [exec] in *. destruct (exec T L l0' n) as [lo' Tn]. cbn [fst snd] in *.
    unfold store_downres.
    destruct (Tn (blk (2 * x)) (blk (2 * y)) (blk (2 * z))) eqn:E; [|reflexivity].
    apply parents_spec in E. congruence.
  Qed.

  (* Execute restores the pyramid for any touched set and any new content of the touched blocks *)
  Theorem pyr_execute T L l0' max :
    Pyr L max ->
    (forall x y z, T (blk x) (blk y) (blk z) = false -> l0' x y z = L O x y z) ->
    Pyr (after T L l0' max) max.
  Proof.
    intros HP H0 n Hn x y z. unfold after.
    replace (S n <=? max)%nat with true by (symmetry; apply Nat.leb_le; lia).
    replace (n <=? max)%nat with true by (symmetry; apply Nat.leb_le; lia).
    pose proof (exec_untouched T L l0' H0 n) as U.
    cbn [exec]. destruct (exec T L l0' n) as [lo' Tn]. cbn [fst snd] in *.
    unfold store_downres.
    destruct (Tn (blk (2 * x)) (blk (2 * y)) (blk (2 * z))) eqn:E; [reflexivity|].
    rewrite (HP n Hn x y z). f_equal. unfold under.
    assert (C : forall i j k, 0 <= i <= 1 -> 0 <= j <= 1 -> 0 <= k <= 1 ->
                lo' (2 * x + i) (2 * y + j) (2 * z + k) = L n (2 * x + i) (2 * y + j) (2 * z + k)).
    { intros i j k Hi Hj Hk. apply U. rewrite !blk_children by assumption. exact E. }
    pose proof (C 0 0 0) as C000. pose proof (C 1 0 0) as C100. pose proof (C 0 1 0) as C010.
    pose proof (C 1 1 0) as C110. pose proof (C 0 0 1) as C001. pose proof (C 1 0 1) as C101.
    pose proof (C 0 1 1) as C011. pose proof (C 1 1 1) as C111.
    rewrite !Z.add_0_r in *.
    rewrite C000, C100, C010, C110, C001, C101, C011, C111 by lia. reflexivity.
  Qed.
End Execute.
