(* Proofs.RepoCore: the repo manager's DAG (Model.Repo) is a Core DAG (Model.Core), every repo
   request is a sequence of accepted Core operations on it, and Core's history theorems transfer. *)
From DV Require Import Base.Prelude Gen.RepoFacts Model.Dag Model.Resolve Model.Core Proofs.Resolve Proofs.Core
     Model.Repo Model.RepoInv Proofs.Repo Model.RepoCore.
From Coq Require Import String Ascii ZifyN ZifyNat ZifyBool.
From stdpp Require Import gmap strings.
Local Notation cget := Model.Core.get.

(* ------------------------------------------------------------------ association lists of a gmap *)

Lemma assoc_In_nodup {A B} (g : A -> B) (l : list (N * A)) v a :
  List.NoDup (List.map fst l) -> In (v, a) l ->
  Model.Dag.assoc v (List.map (fun x => (fst x, g (snd x))) l) = Some (g a).
Proof.
  induction l as [|[w b] l IH]; intros ND Hin; [destruct Hin|]. simpl in *.
  inversion ND as [|? ? Hn ND']; subst. destruct Hin as [E|Hin].
  - injection E as -> ->. now rewrite N.eqb_refl.
  - destruct (N.eqb_spec v w) as [->|Ne]; [|auto].
    exfalso. apply Hn. apply in_map_iff. exists (w, a). auto.
Qed.

Lemma assoc_notin {A B} (g : A -> B) (l : list (N * A)) v :
  (forall a, ~ In (v, a) l) -> Model.Dag.assoc v (List.map (fun x => (fst x, g (snd x))) l) = None.
Proof.
  induction l as [|[w b] l IH]; intros H; simpl; auto.
  destruct (N.eqb_spec v w) as [->|Ne].
  - exfalso. apply (H b). left. reflexivity.
  - apply IH. intros a Ha. apply (H a). right. exact Ha.
Qed.

Lemma map_to_list_In (m : gmap N node) v n : In (v, n) (map_to_list m) <-> m !! v = Some n.
Proof. rewrite <- elem_of_list_In. apply elem_of_map_to_list. Qed.

Lemma map_to_list_nodup (m : gmap N node) : List.NoDup (List.map fst (map_to_list m)).
Proof. apply NoDup_ListNoDup, NoDup_fst_map_to_list. Qed.

(* ------------------------------------------------------------------ the projection *)

Lemma core_of_view s i r st : st_repos s !! i = Some r -> view_ok (core_of s r st) s i.
Proof.
  intros Hr. constructor; [reflexivity|]. exists r. split; [exact Hr|]. unfold core_of; simpl.
  split; [|split].
  - intros v. rewrite in_map_iff. split.
    + intros ([w n] & <- & Hin). apply map_to_list_In in Hin. simpl. eauto.
    + intros [n Hn]. exists (v, n). split; auto. now apply map_to_list_In.
  - intros v. rewrite in_map_iff. split.
    + intros ([w n] & <- & Hin). apply filter_In in Hin as [Hin Hl]. apply map_to_list_In in Hin. simpl in *. eauto.
    + intros (n & Hn & Hl). exists (v, n). split; auto. apply filter_In. split; auto. now apply map_to_list_In.
  - intros v n Hn. unfold parents_of.
    rewrite (assoc_In_nodup n_parents (map_to_list (r_nodes r)) v n); auto.
    + apply map_to_list_nodup.
    + now apply map_to_list_In.
Qed.

(* (1) RepoInv gives Core the hypotheses its theorems need *)
Theorem core_of_inv s i R r st : RepoInv s -> st_roots s !! i = Some R -> st_repos s !! i = Some r ->
  CoreInv (core_of s r st).
Proof.
  intros I HR Hr. destruct (inv_root_eq s i R r I HR Hr) as [_ W].
  constructor; unfold core_of; simpl.
  - intros n Hn. apply in_map_iff in Hn as ([w x] & <- & Hin). apply map_to_list_In in Hin. simpl.
    destruct (inv_nodes s I i R r w x HR Hr Hin) as [Hv _]. apply (inv_next_v s I w _ Hv).
  - intros l Hl. apply in_map_iff in Hl as ([w x] & <- & Hin). apply filter_In in Hin as [Hin _].
    apply in_map_iff. exists (w, x). auto.
  - intros n ps Hd. apply in_map_iff in Hd as ([w x] & E & Hin). simpl in E. injection E as <- <-.
    pose proof Hin as Hin'. apply map_to_list_In in Hin'. split.
    + apply in_map_iff. exists (w, x). auto.
    + intros p Hp. apply elem_of_list_In in Hp.
      destruct (wf_parents r W w x p Hin' Hp) as (Lt & pn & Hpn & Lk & _). split; [|exact Lt].
      apply in_map_iff. exists (p, pn). split; auto. apply filter_In. split; auto. now apply map_to_list_In.
Qed.

(* ------------------------------------------------------------------ id gaps are invisible to Core *)

Lemma skip_inv c n : CoreInv c -> CoreInv (skip_to c n).
Proof.
  intros [A B C]. constructor; simpl; auto. intros x Hx. specialize (A x Hx). lia.
Qed.

Lemma skip_get c n k v : CoreInv c -> cget (skip_to c n) k v = cget c k v.
Proof.
  intros I. apply get_unique; [now apply skip_inv|].
  exact (get_spec c k v I).
Qed.

Lemma xstep_inv c x : CoreInv c -> CoreInv (xstep c x).
Proof. destruct x; simpl; [apply core_inv_step|apply skip_inv]. Qed.

Lemma xrun_inv xs : forall c, CoreInv c -> CoreInv (xrun xs c).
Proof. induction xs as [|x xs IH]; intros c I; simpl; auto. apply IH, xstep_inv, I. Qed.

Lemma xstep_locked c x v : In v (locked c) -> In v (locked (xstep c x)).
Proof. destruct x; simpl; auto. apply locked_mono. Qed.

Lemma xrun_locked xs : forall c v, In v (locked c) -> In v (locked (xrun xs c)).
Proof. induction xs as [|x xs IH]; intros c v H; simpl; auto. apply IH, xstep_locked, H. Qed.

Lemma xstep_get_stable c x k v : CoreInv c -> In v (locked c) -> cget (xstep c x) k v = cget c k v.
Proof. intros I H. destruct x; simpl; [now apply get_stable_step|now apply skip_get]. Qed.

Lemma xrun_get_stable xs : forall c k v, CoreInv c -> In v (locked c) -> cget (xrun xs c) k v = cget c k v.
Proof.
  induction xs as [|x xs IH]; intros c k v I H; simpl; auto.
  rewrite IH; [now apply xstep_get_stable|now apply xstep_inv|now apply xstep_locked].
Qed.

(* ------------------------------------------------------------------ views *)

Lemma view_same c s s' i : view_ok c s i -> st_repos s' !! i = st_repos s !! i ->
  st_next_v s' = st_next_v s -> view_ok c s' i.
Proof. intros [A B] E1 E2. constructor; [congruence|]. now rewrite E1. Qed.

Lemma view_skip c s s' i : view_ok c s i -> st_repos s' !! i = st_repos s !! i ->
  (st_next_v s <= st_next_v s')%N -> view_ok (skip_to c (st_next_v s')) s' i.
Proof.
  intros [A B] E1 E2. constructor; simpl; [lia|]. now rewrite E1.
Qed.

(* the node a request addresses, when it is in repo i, is a node of the view *)
Lemma view_node c s i r v n : view_ok c s i -> st_repos s !! i = Some r -> r_nodes r !! v = Some n ->
  In v (nodes c) /\ (n_locked n = true -> In v (locked c)) /\ parents_of (dag c) v = n_parents n.
Proof.
  intros [_ (r' & Hr' & Vn & Vl & Vp)] Hr Hn. rewrite Hr in Hr'. injection Hr' as <-.
  split; [apply Vn; eauto|]. split; [|now apply Vp]. intros Hl. apply Vl. eauto.
Qed.

(* ------------------------------------------------------------------ commit *)

Lemma sim_commit s u c i : view_ok c s i -> view_ok (xrun (commit_xs s u i) c) (fst (do_commit s u)) i.
Proof.
  intros VW. unfold commit_xs, do_commit.
  destruct (find_node s u) as [[[[j r] v] n]|] eqn:F; [|exact VW].
  destruct (n_locked n) eqn:Ln; [exact VW|]. simpl fst.
  apply find_node_spec in F as (Hu & Hj & Hr & Hn).
  destruct (N.eqb_spec j i) as [->|Ne].
  - destruct (view_node c s i r v n VW Hr Hn) as (Hin & _ & _).
    destruct VW as [A (r' & Hr' & Vn & Vl & Vp)]. rewrite Hr in Hr'. injection Hr' as <-.
    simpl. rewrite (proj2 (mem_In v (nodes c)) Hin). simpl.
    constructor; simpl; [exact A|].
    exists (upd_nodes (alter lock_node v) r). rewrite lookup_alter, Hr. simpl. split; [reflexivity|].
    split; [|split].
    + intros w. rewrite Vn. destruct (decide (w = v)) as [->|Nw].
      * rewrite lookup_alter, Hn. simpl. split; eauto.
      * now rewrite lookup_alter_ne by auto.
    + intros w. destruct (decide (w = v)) as [->|Nw].
      * rewrite lookup_alter, Hn. simpl. split; eauto.
      * rewrite lookup_alter_ne by auto. rewrite <- Vl. split; [intros [E|H]; [congruence|exact H]|auto].
    + intros w x. destruct (decide (w = v)) as [->|Nw].
      * rewrite lookup_alter, Hn. simpl. intros [= <-]. simpl. now apply Vp.
      * rewrite lookup_alter_ne by auto. apply Vp.
  - simpl. eapply view_same; eauto. simpl. now rewrite lookup_alter_ne by auto.
Qed.

Lemma commit_xs_dag s u i : Forall dag_xop (commit_xs s u i).
Proof.
  unfold commit_xs. destruct (find_node s u) as [[[[j r] v] n]|]; [|constructor].
  destruct (n_locked n); [constructor|]. destruct (N.eqb j i); repeat constructor.
Qed.

(* ------------------------------------------------------------------ a new node in repo j *)
(* shared by newVersion and merge: repo j gets node cv = st_next_v s with parents ps (all committed
   nodes of j), some old nodes get cv as a child, nothing else changes in the view *)

Lemma of2_fwd {A} (P : A -> A -> Prop) x o : option_Forall2 P (Some x) o -> exists x', o = Some x' /\ P x x'.
Proof. intros H. inversion H; subst. eauto. Qed.
Lemma of2_bwd {A} (P : A -> A -> Prop) o x' : option_Forall2 P o (Some x') -> exists x, o = Some x /\ P x x'.
Proof. intros H. inversion H; subst. eauto. Qed.

Lemma sim_add_node s s' c i j r cu ps b (f : gmap N node -> gmap N node) :
  RepoInv s -> view_ok c s i -> st_repos s !! j = Some r ->
  (exists R, st_roots s !! j = Some R) ->
  st_repos s' = alter (upd_nodes f) j (st_repos s) -> st_next_v s' = (st_next_v s + 1)%N ->
  ps <> [] -> (forall p, In p ps -> exists pn, r_nodes r !! p = Some pn /\ n_locked pn = true) ->
  f (r_nodes r) !! st_next_v s = Some (mkNode cu ps [] b false) ->
  (forall w, w <> st_next_v s ->
     option_Forall2 (fun x x' => n_parents x' = n_parents x /\ n_locked x' = n_locked x)
                    (r_nodes r !! w) (f (r_nodes r) !! w)) ->
  view_ok (xrun (if N.eqb j i then [XOp (OChild ps true)] else [XSkip (st_next_v s + 1)%N]) c) s' i.
Proof.
  intros I VW Hr [R HR] E1 E2 Hne Hps Hnew Hold.
  destruct (N.eqb_spec j i) as [->|Ne].
  - pose proof VW as [A (r' & Hr' & Vn & Vl & Vp)]. rewrite Hr in Hr'. injection Hr' as <-.
    assert (Hfresh : r_nodes r !! st_next_v s = None).
    { destruct (r_nodes r !! st_next_v s) as [x|] eqn:E; auto.
      destruct (inv_nodes s I i R r _ x HR Hr E) as [Hv _]. apply (inv_next_v s I) in Hv. lia. }
    simpl. assert (Hall : forallb (fun p => mem p (locked c)) ps = true).
    { apply forallb_forall. intros p Hp. apply mem_In, Vl. destruct (Hps p Hp) as (pn & ? & ?). eauto. }
    rewrite Hall. destruct ps as [|p0 ps']; [congruence|]. simpl.
    constructor; simpl; [lia|].
    exists (upd_nodes f r). rewrite E1, lookup_alter, Hr. simpl. split; [reflexivity|].
    rewrite A. split; [|split].
    + intros w. destruct (decide (w = st_next_v s)) as [->|Nw].
      * rewrite Hnew. split; eauto.
      * specialize (Hold w Nw). split.
        -- intros [E|H]; [congruence|]. apply Vn in H as [x Hx]. rewrite Hx in Hold.
           apply of2_fwd in Hold as (x' & -> & _). eauto.
        -- intros [x' Hx']. right. apply Vn. rewrite Hx' in Hold. apply of2_bwd in Hold as (x & -> & _). eauto.
    + intros w. destruct (decide (w = st_next_v s)) as [->|Nw].
      * rewrite Hnew. split.
        -- intros H. apply Vl in H as (x & Hx & _). congruence.
        -- intros (x & [= <-] & Hl). discriminate Hl.
      * specialize (Hold w Nw). rewrite Vl. split.
        -- intros (x & Hx & Hl). rewrite Hx in Hold. apply of2_fwd in Hold as (x' & -> & _ & El).
           exists x'. split; congruence.
        -- intros (x' & Hx' & Hl). rewrite Hx' in Hold. apply of2_bwd in Hold as (x & -> & _ & El).
           exists x. split; congruence.
    + intros w x' Hx'. unfold parents_of. simpl. destruct (decide (w = st_next_v s)) as [->|Nw].
      * rewrite N.eqb_refl. rewrite Hnew in Hx'. now injection Hx' as <-.
      * destruct (N.eqb_spec w (st_next_v s)); [contradiction|].
        specialize (Hold w Nw). rewrite Hx' in Hold. apply of2_bwd in Hold as (x & Ex & Ep & _).
        rewrite Ep. apply (Vp w x Ex).
  - simpl. rewrite <- E2. apply (view_skip c s s' i VW); [|lia].
    rewrite E1. now rewrite lookup_alter_ne by auto.
Qed.

(* ------------------------------------------------------------------ newVersion, merge *)

Lemma sim_new_version s u b a f c i : RepoInv s -> view_ok c s i ->
  view_ok (xrun (new_version_xs s u i (snd (do_new_version repaired s u b a f))) c)
          (fst (do_new_version repaired s u b a f)) i.
Proof.
  intros I VW. unfold new_version_xs, do_new_version.
  destruct (find_node s u) as [[[[j r] v] n]|] eqn:F; [|exact VW].
  destruct (find_node_live s u j r v n I F) as (R & HR & _).
  apply find_node_spec in F as (Hu & Hj & Hr & Hn).
  destruct (n_locked n) eqn:Ln; [|exact VW]. simpl negb. cbv iota.
  match goal with |- context [match ?o with Some _ => _ | None => (s, Fail) end] => destruct o as [b'|] end; [|exact VW].
  destruct (fx_assign_check repaired && assign_refused s a); [exact VW|].
  unfold new_uuid. simpl.
  set (cu := match a with Some a' => a' | None => f end).
  eapply (sim_add_node s _ c i j r cu [v] b'
            (fun m => <[st_next_v s := mkNode cu [v] [] b' false]> (alter (add_child (st_next_v s)) v m)));
    eauto; try (rewrite ?recache_repos, ?recache_next_v; reflexivity); simpl.
  - intros p [<-|[]]. eauto.
  - now rewrite lookup_insert.
  - intros w Nw. rewrite lookup_insert_ne by auto. destruct (decide (w = v)) as [->|Nv].
    + rewrite lookup_alter, Hn. constructor. auto.
    + rewrite lookup_alter_ne by auto. destruct (r_nodes r !! w); constructor; auto.
Qed.

Lemma new_version_xs_dag s u i o : Forall dag_xop (new_version_xs s u i o).
Proof.
  unfold new_version_xs. destruct o; try constructor.
  destruct (find_node s u) as [[[[j r] v] n]|]; [|constructor]. destruct (N.eqb j i); repeat constructor.
Qed.

Lemma validate_parents_In s r ps vs : validate_parents s r ps = Some vs ->
  forall p, In p vs -> exists pn, r_nodes r !! p = Some pn /\ n_locked pn = true.
Proof.
  intros H p Hp. destruct (validate_parents_spec s r ps vs H) as [_ F2].
  apply elem_of_list_In in Hp. destruct (Forall2_elem_r _ _ _ _ F2 Hp) as (x & _ & _ & Hn). exact Hn.
Qed.

Lemma link_children_keeps cv vs (m : gmap N node) w :
  option_Forall2 (fun x x' => n_parents x' = n_parents x /\ n_locked x' = n_locked x)
                 (m !! w) (link_children cv vs m !! w).
Proof.
  unfold link_children. revert m. induction vs as [|a vs IH]; intros m; simpl.
  - destruct (m !! w); constructor; auto.
  - specialize (IH (alter (add_child cv) a m)). destruct (decide (w = a)) as [->|Nw].
    + rewrite lookup_alter in IH. destruct (m !! a) as [x|]; simpl in IH.
      * apply of2_fwd in IH as (x' & -> & E1 & E2). constructor. simpl in *. auto.
      * inversion IH. constructor.
    + now rewrite lookup_alter_ne in IH by auto.
Qed.

Lemma sim_merge s ps f c i : RepoInv s -> view_ok c s i ->
  view_ok (xrun (merge_xs s ps i (snd (do_merge repaired s ps f))) c) (fst (do_merge repaired s ps f)) i.
Proof.
  intros I VW. unfold merge_xs, do_merge.
  destruct ps as [|p0 [|p1 rest]]; try exact VW.
  set (ps := p0 :: p1 :: rest) in *.
  destruct (st_repo_of s !! p0) as [j|] eqn:Hj; [|exact VW].
  simpl fx_merge_validate. cbv iota.
  destruct (st_repos s !! j) as [r|] eqn:Hr; [|exact VW].
  destruct (validate_parents s r ps) as [vs|] eqn:Ev; [|exact VW].
  destruct (fx_merge_distinct repaired && negb (bool_decide (NoDup vs))) eqn:End; [exact VW|].
  destruct (inv_repo_of s I p0 j Hj) as (R & r0 & _ & _ & HR & Hr0 & _).
  unfold new_uuid. simpl.
  assert (Hne : vs <> []).
  { destruct (validate_parents_spec s r ps vs Ev) as [Hl _]. unfold ps in Hl. destruct vs; simpl in Hl; [lia|discriminate]. }
  assert (Hcv : forall x, In x vs -> x <> st_next_v s).
  { intros x Hx ->. destruct (validate_parents_In s r ps vs Ev _ Hx) as (pn & Hpn & _).
    destruct (inv_nodes s I j R r _ pn HR Hr Hpn) as [Hv _]. apply (inv_next_v s I) in Hv. lia. }
  eapply (sim_add_node s _ c i j r f vs ""
            (fun m => link_children (st_next_v s) vs (<[st_next_v s := mkNode f vs [] "" false]> m)));
    eauto; try (rewrite ?recache_repos, ?recache_next_v; reflexivity); simpl.
  - now apply (validate_parents_In s r ps vs).
  - rewrite link_notin; [now rewrite lookup_insert|].
    intros Hin. apply elem_of_list_In in Hin. now apply (Hcv _ Hin).
  - intros w Nw.
    pose proof (link_children_keeps (st_next_v s) vs (<[st_next_v s := mkNode f vs [] "" false]> (r_nodes r)) w) as K.
    now rewrite lookup_insert_ne in K by auto.
Qed.

Lemma merge_xs_dag s ps i o : Forall dag_xop (merge_xs s ps i o).
Proof.
  unfold merge_xs. destruct o; try constructor. destruct ps as [|p0 ps]; [constructor|].
  destruct (st_repo_of s !! p0) as [j|]; [|constructor]. destruct (st_repos s !! j) as [r|]; [|constructor].
  destruct (validate_parents s r (p0 :: ps)); [|constructor]. destruct (N.eqb j i); repeat constructor.
Qed.

(* ------------------------------------------------------------------ requests that leave the DAG alone *)

Lemma view_data c s i j f : view_ok c s i -> view_ok c (upd_repo s j (upd_data f)) i.
Proof.
  intros [A (r & Hr & V)]. constructor; [exact A|]. simpl.
  destruct (decide (i = j)) as [->|Ne].
  - exists (upd_data f r). rewrite lookup_alter, Hr. simpl. auto.
  - exists r. now rewrite lookup_alter_ne by auto.
Qed.

Lemma view_bump c s i : view_ok c s i -> view_ok c (bump_instance_id s) i.
Proof. intros [A B]. constructor; auto. Qed.

Lemma drop_versions_repos vs : forall s s', drop_versions s vs = Some s' ->
  st_repos s' = st_repos s /\ st_next_v s' = st_next_v s.
Proof.
  induction vs as [|a vs IH]; intros s s' H.
  - unfold drop_versions in H. simpl in H. injection H as <-. auto.
  - rewrite drop_versions_cons in H. destruct (st_v2u s !! a) as [u|]; [|discriminate].
    destruct (IH _ _ H) as [E1 E2]. simpl in *. auto.
Qed.

Lemma sim_delete_repo s u p c i : view_ok c s i -> view_ok c (fst (do_delete_repo s u p)) i.
Proof.
  intros VW. unfold do_delete_repo. destruct (st_repo_of s !! u) as [j|]; auto.
  destruct (st_repos s !! j) as [r|]; auto.
  repeat (match goal with |- context [if ?b then _ else _] => destruct b end; auto).
  match goal with |- context [drop_versions ?a ?b] => destruct (drop_versions a b) as [s2|] eqn:E end; simpl.
  - destruct (drop_versions_repos _ _ _ E) as [E1 E2]. simpl in E1, E2. eapply view_same; [exact VW|now rewrite E1|exact E2].
  - eapply view_same; [exact VW|reflexivity|reflexivity].
Qed.

Lemma sim_new_repo s a p f c i : RepoInv s -> view_ok c s i ->
  view_ok (xrun (match snd (do_new_repo repaired s a p f) with Done _ => [XSkip (st_next_v s + 1)%N] | _ => [] end) c)
          (fst (do_new_repo repaired s a p f)) i.
Proof.
  intros I VW. unfold do_new_repo.
  match goal with |- context [if ?b then _ else _] => destruct b end; [exact VW|].
  unfold new_uuid. simpl.
  change (st_next_v s + 1)%N with (st_next_v (mkState (st_repos s) (st_repo_of s) (st_roots s) (st_u2v s) (st_v2u s)
           (st_heads s) (st_next_v s + 1)%N (st_next_r s) (st_next_i s))) at 1.
  destruct VW as [A (r & Hr & V)].
  assert (Ni : i <> st_next_r s) by (intros ->; apply (inv_next_r s I) in Hr; lia).
  constructor; simpl; [lia|]. exists r. rewrite lookup_insert_ne by auto. auto.
Qed.

Lemma xrun_app xs ys c : xrun (xs ++ ys) c = xrun ys (xrun xs c).
Proof. unfold xrun. apply fold_left_app. Qed.

(* ------------------------------------------------------------------ (2) every request but resolve: the exact operations *)

Theorem sim_step_exact s r c i xs : RepoInv s -> view_ok c s i -> req_xs s i r = Some xs ->
  Forall dag_xop xs /\ view_ok (xrun xs c) (fst (Model.Repo.step repaired s r)) i.
Proof.
  intros I VW E. destruct r; cbn [req_xs] in E; try (injection E as <-); cbn [Model.Repo.step].
  - split; [destruct (snd (do_new_repo repaired s root pass fresh)); repeat constructor|now apply sim_new_repo].
  - unfold h_commit. destruct (node_gate s u false) as [a| | |]; try (split; [apply Forall_nil_2|exact VW]).
    destruct (locked_uuid s a) as [[|]| | |]; try (split; [apply Forall_nil_2|exact VW]).
    split; [apply commit_xs_dag|]. pose proof (sim_commit s a c i VW) as H.
    destruct (do_commit s a). exact H.
  - unfold h_new_version. destruct (node_gate s u true) as [a| | |]; try (split; [apply Forall_nil_2|exact VW]).
    destruct (parse_assign assign) as [a'| | |]; try (split; [apply Forall_nil_2|exact VW]).
    split; [apply new_version_xs_dag|now apply sim_new_version].
  - unfold h_branch. destruct (node_gate s u true) as [a| | |]; try (split; [apply Forall_nil_2|exact VW]).
    destruct (parse_assign assign) as [a'| | |]; try (split; [apply Forall_nil_2|exact VW]).
    match goal with |- context [if ?b then [] else _] => change b with (in_list branch l_branch_refused) end.
    destruct (in_list branch l_branch_refused); [split; [apply Forall_nil_2|exact VW]|].
    split; [apply new_version_xs_dag|now apply sim_new_version].
  - unfold h_tag. destruct (node_gate s u true) as [a| | |]; try (split; [apply Forall_nil_2|exact VW]).
    pose proof (sim_new_version s a (s_tag_prefix ++ tag) (Some tag) "" c i I VW) as H1.
    pose proof (new_version_xs_dag s a i (snd (do_new_version repaired s a (s_tag_prefix ++ tag) (Some tag) ""))) as D1.
    destruct (do_new_version repaired s a (s_tag_prefix ++ tag) (Some tag) "") as [s1 o]. simpl in H1, D1.
    destruct o as [cu| | |]; simpl.
    + split; [apply Forall_app; split; [exact D1|apply commit_xs_dag]|].
      rewrite xrun_app. now apply sim_commit.
    + split; [apply Forall_nil_2|]. exact H1.
    + split; [apply Forall_nil_2|]. exact H1.
    + split; [apply Forall_nil_2|]. exact H1.
  - unfold h_merge. destruct (repo_gate s u) as [a| | |]; try (split; [apply Forall_nil_2|exact VW]).
    destruct (length parents <? 2)%nat; [split; [apply Forall_nil_2|exact VW]|].
    destruct (match_all s parents) as [us| | |]; try (split; [apply Forall_nil_2|exact VW]).
    destruct (negb mtype_ok); [split; [apply Forall_nil_2|exact VW]|].
    split; [apply merge_xs_dag|now apply sim_merge].
  - discriminate.
  - split; [apply Forall_nil_2|exact VW].
  - split; [apply Forall_nil_2|exact VW].
  - split; [apply Forall_nil_2|exact VW].
  - split; [apply Forall_nil_2|]. unfold h_new_data. destruct (repo_gate s u); try exact VW.
    destruct (locked_uuid s a) as [[|]| | |]; try exact VW. destruct (negb type_ok); [exact VW|].
    unfold do_new_data. apply view_bump in VW.
    destruct (st_repo_of (bump_instance_id s) !! a) as [j|]; [|exact VW].
    destruct (st_repos (bump_instance_id s) !! j) as [rj|]; [|exact VW].
    destruct (in_list name (r_data rj)); [exact VW|]. simpl. now apply view_data.
  - split; [apply Forall_nil_2|]. unfold h_rpc. destruct (matching s u); try exact VW.
    unfold do_rename_data. destruct (st_repo_of s !! a) as [j|]; [|exact VW].
    destruct (st_repos s !! j) as [rj|]; [|exact VW].
    repeat (match goal with |- context [if ?b then _ else _] => destruct b end; try exact VW).
    simpl. now apply view_data.
  - split; [apply Forall_nil_2|]. unfold h_rpc. destruct (matching s u); try exact VW.
    unfold do_delete_data. destruct (st_repo_of s !! a) as [j|]; [|exact VW].
    destruct (st_repos s !! j) as [rj|]; [|exact VW].
    repeat (match goal with |- context [if ?b then _ else _] => destruct b end; try exact VW).
    simpl. now apply view_data.
  - split; [apply Forall_nil_2|]. unfold h_rpc. destruct (matching s u); try exact VW. now apply sim_delete_repo.
Qed.

(* ------------------------------------------------------------------ resolve: some sequence of accepted operations *)

Definition sim_to (c : core) (s' : state) (i : N) : Prop :=
  exists xs, Forall dag_xop xs /\ view_ok (xrun xs c) s' i.

Lemma sim_to_refl c s i : view_ok c s i -> sim_to c s i.
Proof. intros V. exists []. split; [constructor|exact V]. Qed.

Lemma sim_to_step c s1 s2 i : sim_to c s1 i -> (forall c1, view_ok c1 s1 i -> sim_to c1 s2 i) -> sim_to c s2 i.
Proof.
  intros (xs & D & V) H. destruct (H _ V) as (ys & D' & V').
  exists (xs ++ ys)%list. split; [apply Forall_app; auto|]. now rewrite xrun_app.
Qed.

Lemma sim_resolve_extend i olds conf : forall s ext c,
  RepoInv s -> NoDup (List.map snd conf) -> absent s (List.map snd conf) -> view_ok c s i ->
  sim_to c (fst (resolve_extend repaired s olds ext conf)) i.
Proof.
  induction conf as [|[k f] conf IH]; intros s ext c I ND A VW; simpl.
  - now apply sim_to_refl.
  - simpl in ND. apply NoDup_cons in ND as [Nf ND].
    assert (A' : absent s (List.map snd conf)) by (intros g Hg; apply A; simpl; apply elem_of_cons; auto).
    destruct (nth_error olds k) as [old|]; [|now apply IH].
    destruct (extension_of ext old); [now apply IH|].
    destruct (A f) as [Hne Hcu]; [simpl; apply elem_of_cons; auto|].
    pose proof (inv_new_version s old (s_conflict_prefix ++ old) None f I (conflict_branch_not_master old)
                  (fun _ => conj Hne Hcu)) as I1.
    pose proof (new_version_u2v_other repaired s old (s_conflict_prefix ++ old) None f) as U1.
    pose proof (sim_new_version s old (s_conflict_prefix ++ old) None f c i I VW) as S1.
    pose proof (new_version_xs_dag s old i (snd (do_new_version repaired s old (s_conflict_prefix ++ old) None f))) as D1.
    destruct (do_new_version repaired s old (s_conflict_prefix ++ old) None f) as [s1 o]. simpl in I1, U1, S1, D1.
    assert (A1 : absent s1 (List.map snd conf)).
    { intros g Hg. destruct (A' g Hg) as [G1 G2]. split; auto. apply U1; auto. intros ->. contradiction. }
    assert (Hgo : forall ext', sim_to c (fst (resolve_extend repaired s1 olds ext' conf)) i).
    { intros ext'. eapply sim_to_step; [eexists; split; [exact D1|exact S1]|].
      intros c1 V1. now apply IH. }
    destruct o; apply Hgo.
Qed.

Lemma sim_resolve_data i u olds data : forall s ext c,
  RepoInv s -> NoDup (data_fresh data) -> absent s (data_fresh data) -> view_ok c s i ->
  sim_to c (fst (resolve_data repaired s u olds ext data)) i.
Proof.
  induction data as [|[name conf] data IH]; intros s ext c I ND A VW; simpl.
  - now apply sim_to_refl.
  - unfold data_fresh in ND, A. simpl in ND, A. apply NoDup_app in ND as (ND1 & Hdisj & ND2).
    destruct (repo_by_uuid s u) as [r|]; [|now apply sim_to_refl].
    destruct (in_list name (r_data r)); [|now apply sim_to_refl].
    assert (A1 : absent s (List.map snd conf)) by (intros g Hg; apply A, elem_of_app; auto).
    destruct (inv_resolve_extend olds conf s ext I ND1 A1) as [I1 U1].
    pose proof (sim_resolve_extend i olds conf s ext c I ND1 A1 VW) as S1.
    destruct (resolve_extend repaired s olds ext conf) as [s1 ext1]. simpl in I1, U1, S1.
    assert (A2 : absent s1 (data_fresh data)).
    { intros g Hg. destruct (A g) as [G1 G2]; [apply elem_of_app; auto|]. split; auto.
      apply U1; auto. intros Hin. apply (Hdisj g Hin Hg). }
    eapply sim_to_step; [exact S1|]. intros c1 V1. now apply IH.
Qed.

Lemma sim_commit_extensions i olds : forall news s c, RepoInv s -> view_ok c s i ->
  sim_to c (fst (commit_extensions s olds news)) i.
Proof.
  induction olds as [|o olds IH]; intros [|n news] s c I VW; simpl; try now apply sim_to_refl.
  destruct (String.eqb o n); [now apply IH|].
  pose proof (inv_commit s n I) as I1. pose proof (sim_commit s n c i VW) as S1.
  pose proof (commit_xs_dag s n i) as D1.
  destruct (do_commit s n) as [s1 [[]| | |]]; simpl in *;
    try (eexists; split; [exact D1|exact S1]).
  eapply sim_to_step; [eexists; split; [exact D1|exact S1]|]. intros c1 V1. now apply IH.
Qed.

Lemma sim_resolve s x data ps f c i : RepoInv s -> oracle_ok s (RResolve x data ps f) -> view_ok c s i ->
  sim_to c (fst (h_resolve repaired s x data ps f)) i.
Proof.
  intros I [ND FA] VW. simpl in ND, FA. fold (data_fresh data) in ND, FA.
  unfold h_resolve. destruct (repo_gate s x) as [u| | |]; try now apply sim_to_refl.
  destruct data as [|d data']; [now apply sim_to_refl|]. set (data := d :: data') in *.
  destruct (length ps <? 2)%nat; [now apply sim_to_refl|].
  destruct (match_all s ps) as [olds| | |]; try now apply sim_to_refl.
  match goal with |- context [if ?b then _ else _] => destruct b end; [now apply sim_to_refl|].
  apply NoDup_app in ND as (ND1 & Hdisj & _).
  assert (A : absent s (data_fresh data)).
  { intros g Hg. rewrite Forall_forall in FA. apply fresh_ok_parts, FA, elem_of_app. auto. }
  destruct (inv_resolve_data u olds data s [] I ND1 A) as [I1 U1].
  pose proof (sim_resolve_data i u olds data s [] c I ND1 A VW) as S1.
  destruct (resolve_data repaired s u olds [] data) as [s1 [ext|]]; simpl in I1, U1, S1; [|exact S1].
  match goal with |- context [commit_extensions s1 olds ?n] => set (news := n) end.
  destruct (inv_commit_extensions olds news s1 I1) as [I2 U2].
  eapply sim_to_step; [exact S1|]. intros c1 V1.
  pose proof (sim_commit_extensions i olds news s1 c1 I1 V1) as S2.
  destruct (commit_extensions s1 olds news) as [s2 [|]]; simpl in I2, U2, S2; [|exact S2].
  eapply sim_to_step; [exact S2|]. intros c2 V2.
  eexists. split; [apply (merge_xs_dag s2 news i)|]. now apply sim_merge.
Qed.

(* (2) every request is a sequence of accepted Core operations on the view of any repo *)
Theorem sim_step s r c i : RepoInv s -> oracle_ok s r -> view_ok c s i ->
  exists xs, Forall dag_xop xs /\ view_ok (xrun xs c) (fst (Model.Repo.step repaired s r)) i.
Proof.
  intros I O VW. destruct (req_xs s i r) as [xs|] eqn:E.
  - exists xs. now apply (sim_step_exact s r c i xs).
  - destruct r; try discriminate. now apply sim_resolve.
Qed.

(* ------------------------------------------------------------------ histories of the real request language *)

Lemma data_step_view c o s i : data_op o -> view_ok c s i -> view_ok (fst (Model.Core.step c o)) s i.
Proof.
  intros D [A B]. destruct o; try contradiction; simpl.
  - destruct (writable c v); constructor; auto.
  - destruct (writable c v); constructor; auto.
  - constructor; auto.
Qed.

(* the combined machine can always move: every repo request has its Core counterpart *)
Theorem hstep_total i s c h : RepoInv s -> view_ok c s i ->
  match h with HRepo r => oracle_ok s r | HData o => data_op o end ->
  exists y, hstep i (s, c) h y.
Proof.
  intros I VW H. destruct h as [r|o].
  - destruct (sim_step s r c i I H VW) as (xs & D & V). eexists. now apply (hs_repo i s c r xs).
  - eexists. now apply hs_data.
Qed.

(* along any history: RepoInv, CoreInv, the view, and the reads of committed versions *)
Theorem hrun_invariants i hs : forall s c s' c', RepoInv s -> horacles_ok s hs -> CoreInv c -> view_ok c s i ->
  hrun i (s, c) hs (s', c') ->
  RepoInv s' /\ CoreInv c' /\ view_ok c' s' i /\
  forall k v, In v (locked c) -> cget c' k v = cget c k v.
Proof.
  induction hs as [|h hs IH]; intros s c s' c' I O CI VW R.
  - inversion R; subst. split; [exact I|]. split; [exact CI|]. split; [exact VW|]. reflexivity.
  - inversion R as [|x h' y hs' z Hstep Hrest]; subst.
    inversion Hstep as [s0 c0 r xs Dx V|s0 c0 o Dd]; subst.
    + simpl in O. destruct O as [O1 O2].
      assert (I1 : RepoInv (fst (Model.Repo.step repaired s r))) by now apply inv_step.
      assert (CI1 : CoreInv (xrun xs c)) by now apply xrun_inv.
      destruct (IH _ _ _ _ I1 O2 CI1 V Hrest) as (A & B & C & D).
      split; [exact A|]. split; [exact B|]. split; [exact C|]. intros k v Hv. rewrite D; [now apply xrun_get_stable|now apply xrun_locked].
    + simpl in O.
      assert (CI1 : CoreInv (fst (Model.Core.step c o))) by now apply core_inv_step.
      assert (V1 : view_ok (fst (Model.Core.step c o)) s i) by now apply data_step_view.
      destruct (IH _ _ _ _ I O CI1 V1 Hrest) as (A & B & C & D).
      split; [exact A|]. split; [exact B|]. split; [exact C|]. intros k v Hv. rewrite D; [now apply get_stable_step|now apply locked_mono].
Qed.

(* the corollary: in a repo of any reachable manager state, whatever repo requests (of any kind, on
   any repo, accepted or refused) and data writes come later, a committed version keeps reading
   what it read -- C01/C02's get_stable with the accept flags computed by the repo machine *)
Corollary committed_reads_stable rs i R r st v n hs s' c' k :
  oracles_ok repaired init rs ->
  let s := Model.Repo.run repaired init rs in
  st_roots s !! i = Some R -> st_repos s !! i = Some r ->
  r_nodes r !! v = Some n -> n_locked n = true ->
  horacles_ok s hs -> hrun i (s, core_of s r st) hs (s', c') ->
  cget c' k v = cget (core_of s r st) k v /\ view_ok c' s' i.
Proof.
  intros O s HR Hr Hn Hl HO HR'.
  assert (I : RepoInv s) by now apply inv_reachable.
  pose proof (core_of_inv s i R r st I HR Hr) as CI.
  pose proof (core_of_view s i r st Hr) as VW.
  destruct (hrun_invariants i hs s _ s' c' I HO CI VW HR') as (_ & _ & V' & G).
  split; auto. apply G. destruct (view_node _ s i r v n VW Hr Hn) as (_ & L & _). auto.
Qed.

(* reads at reachable states are the frontier reads of C01 *)
Corollary reachable_get_spec rs i R r st k v :
  oracles_ok repaired init rs ->
  let s := Model.Repo.run repaired init rs in
  st_roots s !! i = Some R -> st_repos s !! i = Some r ->
  read_spec (cpar (core_of s r st)) (ent_of (core_of s r st) k) v (cget (core_of s r st) k v).
Proof.
  intros O s HR Hr. apply get_spec. eapply core_of_inv; eauto. now apply inv_reachable.
Qed.

(* histories exist: any list of requests with a correct oracle can be run *)
Theorem hrun_total i hs : forall s c, RepoInv s -> CoreInv c -> view_ok c s i -> horacles_ok s hs ->
  Forall (fun h => match h with HData o => data_op o | _ => True end) hs ->
  exists y, hrun i (s, c) hs y.
Proof.
  induction hs as [|h hs IH]; intros s c I CI VW O D.
  - eexists. constructor.
  - inversion D as [|? ? Dh Dt]; subst. destruct h as [r|o]; simpl in O.
    + destruct O as [O1 O2]. destruct (sim_step s r c i I O1 VW) as (xs & Dx & V).
      destruct (IH _ (xrun xs c) (inv_step s r I O1) (xrun_inv xs c CI) V O2 Dt) as [y Hy].
      exists y. econstructor; [apply (hs_repo i s c r xs Dx V)|exact Hy].
    + destruct (IH s _ I (core_inv_step c o CI) (data_step_view c o s i Dh VW) O Dt) as [y Hy].
      exists y. econstructor; [now apply hs_data|exact Hy].
Qed.
