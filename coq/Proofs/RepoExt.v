(* Proofs.RepoExt: lemmas about Model.RepoExt (hide-branch, make-master, POST repo info). *)
From DV Require Import Base.Prelude Gen.RepoFacts Model.Repo Model.RepoInv Model.RepoExt Proofs.Repo.
From Coq Require Import String Ascii.
From stdpp Require Import gmap strings.
Local Open Scope string_scope.

(* ------------------------------------------------------------------ hide_nodes *)

Lemma has_branch_true m b v : has_branch m b v = true <-> exists n, m !! v = Some n /\ n_branch n = b.
Proof.
  unfold has_branch. destruct (m !! v) as [n|].
  - rewrite String.eqb_eq. split; [eauto|]. intros (n' & [= <-] & E). exact E.
  - split; [discriminate|]. intros (n' & H & _). discriminate.
Qed.

Lemma has_branch_false m b v n : m !! v = Some n -> has_branch m b v = false <-> n_branch n <> b.
Proof. unfold has_branch. intros ->. apply String.eqb_neq. Qed.

Lemma prune_children m b n c :
  c ∈ n_children (prune m b n) <-> c ∈ n_children n /\ has_branch m b c = false.
Proof.
  unfold prune. simpl. rewrite elem_of_list_In, filter_In, <- elem_of_list_In, negb_true_iff. tauto.
Qed.

Lemma nodup_list_filter {A} (f : A -> bool) (l : list A) : NoDup l -> NoDup (List.filter f l).
Proof.
  induction l as [|x l IH]; simpl; intros H; [constructor|].
  apply NoDup_cons in H as [H1 H2]. destruct (f x); auto.
  apply NoDup_cons. split; auto. intros Hin. apply H1.
  apply elem_of_list_In, filter_In in Hin as [Hin _]. now apply elem_of_list_In.
Qed.

Lemma hide_lookup b m v n' :
  hide_nodes b m !! v = Some n' <-> exists n, m !! v = Some n /\ n_branch n <> b /\ n' = prune m b n.
Proof.
  unfold hide_nodes. rewrite lookup_fmap, fmap_Some. split.
  - intros (n & H & ->). apply map_filter_lookup_Some in H as [H1 H2]. eauto.
  - intros (n & H1 & H2 & ->). exists n. split; auto. apply map_filter_lookup_Some. auto.
Qed.

Lemma hide_open_false r b : hide_open r b = false ->
  forall v n p pn, r_nodes r !! v = Some n -> n_branch n <> b -> p ∈ n_parents n ->
                   r_nodes r !! p = Some pn -> n_branch pn <> b.
Proof.
  intros H v n p pn Hn Nb Hp Hpn E.
  assert (X : hide_open r b = true); [|congruence].
  unfold hide_open. apply existsb_exists. exists (v, n). split.
  - apply elem_of_list_In, elem_of_map_to_list. exact Hn.
  - simpl. apply andb_true_iff. split.
    + apply negb_true_iff, String.eqb_neq. exact Nb.
    + apply existsb_exists. exists p. split; [now apply elem_of_list_In|].
      apply has_branch_true. eauto.
Qed.

(* a node without parents is on the default branch *)
Lemma wf_root_branch r : repo_wf r -> forall n, r_nodes r !! r_rootv r = Some n -> n_branch n = "".
Proof.
  intros W n Hn. destruct (wf_root r W) as (n0 & H0 & _ & P0). rewrite Hn in H0. injection H0 as <-.
  destruct (string_dec (n_branch n) "") as [E|N]; auto.
  destruct (wf_named_one_parent r W _ n Hn N) as [p Hp]. congruence.
Qed.

Lemma hide_wf r b : repo_wf r -> b <> "" -> hide_open r b = false ->
  repo_wf (upd_nodes (hide_nodes b) r).
Proof.
  intros W Nb HO. pose proof (hide_open_false r b HO) as Closed.
  set (m := r_nodes r).
  constructor; simpl; fold m.
  - destruct (wf_root r W) as (n0 & H0 & U0 & P0). exists (prune m b n0). split; [|split; auto].
    apply hide_lookup. exists n0. split; auto. split; auto.
    rewrite (wf_root_branch r W n0 H0). congruence.
  - intros v n' Hn' Hp. apply hide_lookup in Hn' as (n & Hn & _ & ->). apply (wf_single_root r W v n Hn Hp).
  - intros v n' p Hn' Hp. apply hide_lookup in Hn' as (n & Hn & Nn & ->). simpl in Hp.
    destruct (wf_parents r W v n p Hn Hp) as [Lt (pn & Hpn & Lk & Hc)]. split; auto.
    exists (prune m b pn). split; [|split; auto].
    + apply hide_lookup. exists pn. split; auto. split; auto. apply (Closed v n p pn Hn Nn Hp Hpn).
    + apply prune_children. split; auto. now apply (has_branch_false m b v n Hn).
  - intros v n' c Hn' Hc. apply hide_lookup in Hn' as (n & Hn & Nn & ->).
    apply prune_children in Hc as [Hc Hb].
    destruct (wf_children r W v n c Hn Hc) as (cn & Hcn & Hv). exists (prune m b cn). split; auto.
    apply hide_lookup. exists cn. split; auto. split; auto. now apply (has_branch_false m b c cn Hcn).
  - intros v n' Hn'. apply hide_lookup in Hn' as (n & Hn & Nn & ->).
    destruct (wf_nodup r W v n Hn) as [A B]. split; auto. simpl. now apply nodup_list_filter.
  - intros v n' Hn' Hb. apply hide_lookup in Hn' as (n & Hn & Nn & ->). apply (wf_named_one_parent r W v n Hn Hb).
  - intros v n' c1 c2 n1' n2' Hn' Hc1 Hc2 H1 H2 P1 P2 E.
    apply hide_lookup in Hn' as (n & Hn & Nn & ->).
    apply hide_lookup in H1 as (n1 & H1 & _ & ->). apply hide_lookup in H2 as (n2 & H2 & _ & ->).
    apply prune_children in Hc1 as [Hc1 _]. apply prune_children in Hc2 as [Hc2 _].
    apply (wf_linear r W v n c1 c2 n1 n2 Hn Hc1 Hc2 H1 H2 P1 P2 E).
  - intros v n' Hn' Hb Leaf. apply hide_lookup in Hn' as (n & Hn & Nn & ->). simpl in Hb.
    assert (Leaf0 : branch_leaf r n).
    { intros c cn Hc Hcn. destruct (string_dec (n_branch cn) b) as [->|Ncb]; [congruence|].
      apply (Leaf c (prune m b cn)).
      - apply prune_children. split; auto. now apply (has_branch_false m b c cn Hcn).
      - simpl. fold m. apply hide_lookup. eauto. }
    pose proof (wf_leaf_newest r W v n Hn Hb Leaf0) as Max.
    intros w mm' Hmm' E. simpl in Hmm'. fold m in Hmm'. apply hide_lookup in Hmm' as (mm & Hmm & _ & ->).
    apply (Max w mm Hmm E).
  - intros v n' Hn'. apply hide_lookup in Hn' as (n & Hn & Nn & ->). apply (wf_no_master r W v n Hn).
  - apply (wf_root_len r W).
Qed.

(* ------------------------------------------------------------------ drop_ids *)

Lemma drop_ids_versions vs : forall s s', drop_versions s vs = Some s' -> drop_ids s vs = s'.
Proof.
  induction vs as [|a vs IH]; intros s s' H.
  - unfold drop_versions in H. simpl in H. now injection H.
  - rewrite drop_versions_cons in H. destruct (st_v2u s !! a) as [ua|] eqn:Ha; [|discriminate].
    unfold drop_ids. simpl. fold (drop_ids (drop_id s a) vs).
    assert (E : drop_id s a = drop_one s a ua) by (unfold drop_id, drop_one; now rewrite Ha).
    rewrite E. now apply IH.
Qed.

Lemma nodup_fst_filter {A B} (f : A * B -> bool) (l : list (A * B)) :
  NoDup (List.map fst l) -> NoDup (List.map fst (List.filter f l)).
Proof.
  induction l as [|x l IH]; simpl; intros H; [constructor|].
  apply NoDup_cons in H as [H1 H2]. destruct (f x); simpl; auto.
  apply NoDup_cons. split; auto. intros Hin. apply H1.
  apply elem_of_list_In, in_map_iff in Hin as (y & E & Hy). apply filter_In in Hy as [Hy _].
  apply elem_of_list_In, in_map_iff. eauto.
Qed.

Lemma branch_versions_spec r b v :
  v ∈ branch_versions r b <-> exists n, r_nodes r !! v = Some n /\ n_branch n = b.
Proof.
  unfold branch_versions, nodes_list. rewrite elem_of_list_In, in_map_iff. split.
  - intros ([w n] & <- & Hin). apply filter_In in Hin as [Hin E]. simpl in *.
    apply elem_of_list_In, elem_of_map_to_list in Hin. apply String.eqb_eq in E. eauto.
  - intros (n & Hn & E). exists (v, n). split; auto. apply filter_In. split.
    + now apply elem_of_list_In, elem_of_map_to_list.
    + simpl. now apply String.eqb_eq.
Qed.

Lemma branch_versions_nodup r b : NoDup (branch_versions r b).
Proof. apply nodup_fst_filter, NoDup_fst_map_to_list. Qed.

Lemma alter_insert_repo (m : gmap N repo) i f r : m !! i = Some r -> alter f i m = <[i := f r]> m.
Proof.
  intros H. apply map_eq. intros j. destruct (decide (j = i)) as [->|N].
  - now rewrite lookup_alter, lookup_insert, H.
  - now rewrite lookup_alter_ne, lookup_insert_ne by auto.
Qed.

(* ------------------------------------------------------------------ hide-branch keeps RepoInv *)

Lemma inv_hide_branch s u b : RepoInv s -> RepoInv (fst (do_hide_branch x_repaired s u b)).
Proof.
  intros I. unfold do_hide_branch.
  destruct (String.eqb b "") eqn:Eb; [exact I|]. apply String.eqb_neq in Eb.
  destruct (st_repo_of s !! u) as [i|] eqn:Hi; [|exact I].
  destruct (st_repos s !! i) as [r|] eqn:Hr; [|exact I].
  simpl. destruct (hide_open r b) eqn:HO; [exact I|]. simpl.
  destruct (inv_repo_of s I u i Hi) as (R & r0 & v0 & n0 & HR & Hr0 & _).
  rewrite Hr in Hr0. injection Hr0 as <-.
  destruct (inv_root_eq s i R r I HR Hr) as [ER W].
  set (vs := branch_versions r b).
  assert (Hall : forall v, v ∈ vs -> is_Some (st_v2u s !! v)).
  { intros v Hv. apply branch_versions_spec in Hv as (n & Hn & _).
    destruct (inv_nodes s I i R r v n HR Hr Hn) as [H _]. eauto. }
  destruct (drop_versions_spec vs s (inv_bij s I) (branch_versions_nodup r b) Hall)
    as (s2 & E & E1 & E2 & E3 & E4 & E5 & E6 & Hu & Hv & Hro).
  rewrite (drop_ids_versions vs s s2 E).
  set (r' := upd_nodes (hide_nodes b) r).
  pose proof (hide_wf r b W Eb HO) as W'. fold r' in W'.
  set (s3 := upd_repo s2 i (upd_nodes (hide_nodes b))).
  assert (R3 : st_repos s3 = <[i := r']> (st_repos s)).
  { unfold s3. simpl. rewrite E1. now apply alter_insert_repo. }
  assert (H3 : st_repos s3 !! i = Some r')
    by exact (eq_ind_r (fun m : gmap N repo => m !! i = Some r') (lookup_insert _ _ _) R3).
  rewrite (recache_hit s3 i r' H3).
  (* a node of another live repo is not among the dropped versions *)
  assert (Hother : forall j Rj rj w n, j <> i -> st_roots s !! j = Some Rj -> st_repos s !! j = Some rj ->
             r_nodes rj !! w = Some n -> w ∉ vs).
  { intros j Rj rj w n Nj HRj Hrj Hn Hin. apply branch_versions_spec in Hin as (n' & Hn' & _).
    apply Nj. apply (inv_disjoint s j i Rj R rj r w n n' I HRj Hrj Hn HR Hr Hn'). }
  (* a surviving node of repo i is not among them either *)
  assert (Hsurv : forall w n, r_nodes r !! w = Some n -> n_branch n <> b -> w ∉ vs).
  { intros w n Hn Nn Hin. apply branch_versions_spec in Hin as (n' & Hn' & En'). congruence. }
  (* a version that is not dropped and maps to the UUID of a dropped one: impossible *)
  assert (Huniq : forall w x, st_v2u s !! w = Some x -> w ∉ vs ->
             ~ exists y, y ∈ vs /\ st_v2u s !! y = Some x).
  { intros w x Hw Nw (y & Hy & Hy'). apply Nw.
    pose proof (proj2 (inv_bij s I _ _) Hy') as U1. pose proof (proj2 (inv_bij s I _ _) Hw) as U2.
    rewrite U1 in U2. now injection U2 as ->. }
  assert (P1 : st_roots s3 = st_roots s) by (unfold s3; simpl; exact E2).
  assert (P2 : st_heads s3 = st_heads s) by (unfold s3; simpl; exact E3).
  assert (P3 : st_u2v s3 = st_u2v s2) by reflexivity.
  assert (P4 : st_v2u s3 = st_v2u s2) by reflexivity.
  assert (P5 : st_repo_of s3 = st_repo_of s2) by reflexivity.
  assert (P6 : st_next_v s3 = st_next_v s) by (unfold s3; simpl; exact E4).
  assert (P7 : st_next_r s3 = st_next_r s) by (unfold s3; simpl; exact E5).
  clearbody s3.
  constructor; cbn [cache_heads st_repos st_repo_of st_roots st_u2v st_v2u st_next_v st_next_r st_next_i];
    rewrite ?R3, ?P1, ?P3, ?P4, ?P5, ?P6, ?P7.
  - intros j Rj H.
    destruct (decide (j = i)) as [->|Nj].
    + rewrite lookup_insert. exists r'. split; auto. split; auto. simpl. congruence.
    + rewrite lookup_insert_ne by auto. apply (inv_live s I j Rj H).
  - intros x y. rewrite Hu, Hv. split; intros [H N]; split; auto; now apply (inv_bij s I).
  - intros j Rj rj w n HRj Hrj Hn.
    destruct (decide (j = i)) as [->|Nj].
    + rewrite lookup_insert in Hrj. injection Hrj as <-. simpl in Hn.
      apply hide_lookup in Hn as (n1 & Hn1 & Nn1 & ->). simpl.
      destruct (inv_nodes s I i R r w n1 HR Hr Hn1) as [A B].
      pose proof (Hsurv w n1 Hn1 Nn1) as Nw. split.
      * apply Hv. auto.
      * apply Hro. split; auto. apply (Huniq w _ A Nw).
    + rewrite lookup_insert_ne in Hrj by auto.
      destruct (inv_nodes s I j Rj rj w n HRj Hrj Hn) as [A B].
      pose proof (Hother j Rj rj w n Nj HRj Hrj Hn) as Nw. split.
      * apply Hv. auto.
      * apply Hro. split; auto. apply (Huniq w _ A Nw).
  - intros x j Hj. apply Hro in Hj as [Hj Nex].
    destruct (inv_repo_of s I x j Hj) as (Rj & rj & w & n & HRj & Hrj & Hx & Hn).
    destruct (decide (j = i)) as [->|Nj].
    + rewrite Hr in Hrj. injection Hrj as <-.
      assert (Nn : n_branch n <> b).
      { intros En. apply Nex. exists w. split.
        - apply branch_versions_spec. eauto.
        - now apply (inv_bij s I). }
      exists Rj, r', w, (prune (r_nodes r) b n). rewrite lookup_insert. repeat split; auto.
      * apply Hu. split; auto. apply (Hsurv w n Hn Nn).
      * simpl. apply hide_lookup. eauto.
    + exists Rj, rj, w, n. rewrite lookup_insert_ne by auto. repeat split; auto.
      apply Hu. split; auto. apply (Hother j Rj rj w n Nj HRj Hrj Hn).
  - intros w x H. apply Hv in H as [H Nw]. destruct (inv_mapped s I w x H) as [j Hj].
    exists j. apply Hro. split; auto. apply (Huniq w x H Nw).
  - intros w x H. apply Hv in H as [H _]. apply (inv_next_v s I w x H).
  - intros j rj H. destruct (decide (j = i)) as [->|Nj].
    + apply (inv_next_r s I i r Hr).
    + rewrite lookup_insert_ne in H by auto. apply (inv_next_r s I j rj H).
  - destruct (st_u2v s2 !! "") as [y|] eqn:E0; auto. apply Hu in E0 as [E0 _].
    rewrite (inv_nil s I) in E0. discriminate.
  - intros j Rj rj w n HRj Hrj Hn Hmax.
    apply (heads_after_recache s s3 i R r r' I HR Hr R3 P1 P2 eq_refl W' j Rj rj w n); auto.
    + now rewrite P1.
    + now rewrite R3.
Qed.

Lemma hide_branch_frame xf s u b :
  is_done (snd (do_hide_branch xf s u b)) = false -> fst (do_hide_branch xf s u b) = s.
Proof.
  unfold do_hide_branch. destruct (String.eqb b ""); auto.
  destruct (st_repo_of s !! u); auto. destruct (st_repos s !! n); auto.
  destruct (xf_hide_closed xf && hide_open r b); auto. simpl. discriminate.
Qed.

(* ------------------------------------------------------------------ every extended request but make-master *)

Theorem xinv_step_partial s r : RepoInv s -> xoracle_ok s r -> is_make_master r = false ->
  RepoInv (fst (xstep repaired x_repaired s r)).
Proof.
  intros I O NM. destruct r as [r0|u|u b|u nm]; simpl.
  - now apply inv_step.
  - exact I.
  - unfold h_rpc. destruct (matching s u); try exact I. now apply inv_hide_branch.
  - discriminate.
Qed.

Fixpoint no_make_master (rs : list xreq) : bool :=
  match rs with [] => true | r :: rest => negb (is_make_master r) && no_make_master rest end.

Theorem xinv_run_partial rs : forall s, RepoInv s -> xoracles_ok repaired x_repaired s rs ->
  no_make_master rs = true -> RepoInv (xrun repaired x_repaired s rs).
Proof.
  induction rs as [|r rs IH]; intros s I O NM; simpl; auto.
  destruct O as [O1 O2]. simpl in NM. apply andb_true_iff in NM as [N1 N2]. apply negb_true_iff in N1.
  apply IH; auto. now apply xinv_step_partial.
Qed.

Corollary xinv_reachable_partial rs : xoracles_ok repaired x_repaired init rs ->
  no_make_master rs = true -> RepoInv (xrun repaired x_repaired init rs).
Proof. apply xinv_run_partial, inv_init. Qed.

Theorem xerror_frame_partial s r : RepoInv s -> xoracle_ok s r -> is_make_master r = false ->
  is_done (snd (xstep repaired x_repaired s r)) = false ->
  frame (fst (xstep repaired x_repaired s r)) = frame s.
Proof.
  intros I O NM. destruct r as [r0|u|u b|u nm]; simpl.
  - now apply error_frame.
  - reflexivity.
  - unfold h_rpc. destruct (matching s u); auto. intros H. now rewrite hide_branch_frame.
  - discriminate.
Qed.

(* ------------------------------------------------------------------ make-master: what it cannot touch *)

(* two node maps that differ at most in branch names *)
Definition same_shape (m m' : gmap N node) : Prop :=
  forall v, option_map (set_branch "") (m' !! v) = option_map (set_branch "") (m !! v).

Lemma same_shape_refl m : same_shape m m.
Proof. intros v. reflexivity. Qed.

Lemma same_shape_trans m1 m2 m3 : same_shape m1 m2 -> same_shape m2 m3 -> same_shape m1 m3.
Proof. intros A B v. now rewrite B, A. Qed.

Lemma same_shape_alter m v b : same_shape m (alter (set_branch b) v m).
Proof.
  intros w. destruct (decide (w = v)) as [->|N].
  - rewrite lookup_alter. destruct (m !! v); reflexivity.
  - now rewrite lookup_alter_ne by auto.
Qed.

Lemma rename_chain_shape fuel : forall m v f nn, same_shape m (fst (rename_chain fuel m v f nn)).
Proof.
  induction fuel as [|fuel IH]; intros m v f nn; simpl; [apply same_shape_refl|].
  destruct (child_on (alter (set_branch nn) v m) v f) as [[c|]|]; simpl; try apply same_shape_alter.
  eapply same_shape_trans; [apply same_shape_alter|apply IH].
Qed.

(* the part of the state make-master can change: branch names inside one repo, and the head cache *)
Definition repos_same_shape (s s' : state) : Prop :=
  forall i, match st_repos s !! i, st_repos s' !! i with
            | Some r, Some r' => r_root r' = r_root r /\ r_rootv r' = r_rootv r /\ r_data r' = r_data r /\
                                 r_pass r' = r_pass r /\ same_shape (r_nodes r) (r_nodes r')
            | None, None => True
            | _, _ => False
            end.

Lemma repos_same_shape_refl s : repos_same_shape s s.
Proof. intros i. destruct (st_repos s !! i); auto. repeat split; auto; apply same_shape_refl. Qed.

Lemma repos_same_shape_put s i r m : st_repos s !! i = Some r -> same_shape (r_nodes r) m ->
  repos_same_shape s (upd_repo s i (upd_nodes (fun _ => m))).
Proof.
  intros Hr Sh j. simpl. destruct (decide (j = i)) as [->|N].
  - rewrite lookup_alter, Hr. simpl. repeat split; auto.
  - rewrite lookup_alter_ne by auto. destruct (st_repos s !! j); auto. repeat split; auto; apply same_shape_refl.
Qed.

Definition ids_of (s : state) :=
  (st_repo_of s, st_roots s, st_u2v s, st_v2u s, st_next_v s, st_next_r s, st_next_i s).

Lemma recache_ids s i : ids_of (recache s i) = ids_of s.
Proof. unfold recache. destruct (st_repos s !! i); reflexivity. Qed.

Lemma recache_same_shape s s' i : repos_same_shape s s' -> repos_same_shape s (recache s' i).
Proof. intros H j. rewrite recache_repos. apply H. Qed.

(* whatever its arguments and whatever it answers, make-master leaves the node sets, the UUIDs, the
   parent and child links, the commit flags, m.repos, repoToUUID, both identifier maps and the
   counters as they were: only branch names (of one repo) and the head cache can change *)
Lemma make_master_shape s u nm :
  ids_of (fst (do_make_master s u nm)) = ids_of s /\ repos_same_shape s (fst (do_make_master s u nm)).
Proof.
  unfold do_make_master.
  destruct (String.eqb nm ""); [split; [reflexivity|apply repos_same_shape_refl]|].
  destruct (st_repo_of s !! u) as [i|]; [|split; [reflexivity|apply repos_same_shape_refl]].
  destruct (st_repos s !! i) as [r|] eqn:Hr; [|split; [reflexivity|apply repos_same_shape_refl]].
  destruct (st_u2v s !! u) as [v|]; [|split; [reflexivity|apply repos_same_shape_refl]].
  destruct (r_nodes r !! v) as [n|]; [|split; [reflexivity|apply repos_same_shape_refl]].
  destruct (String.eqb (n_branch n) ""); [split; [reflexivity|apply repos_same_shape_refl]|].
  destruct (n_parents n) as [|p ps]; [split; [reflexivity|apply repos_same_shape_refl]|].
  destruct (child_on (r_nodes r) p "") as [[old|]|]; try (split; [reflexivity|apply repos_same_shape_refl]).
  pose proof (rename_chain_shape (S (size (r_nodes r))) (r_nodes r) old "" nm) as S1.
  destruct (rename_chain (S (size (r_nodes r))) (r_nodes r) old "" nm) as [m1 o1]. simpl in S1.
  destruct o1 as [[]| | |]; try (split; [reflexivity|apply (repos_same_shape_put s i r); auto]).
  pose proof (rename_chain_shape (S (size (r_nodes r))) m1 v (n_branch n) "") as S2.
  destruct (rename_chain (S (size (r_nodes r))) m1 v (n_branch n) "") as [m2 o2]. simpl in S2.
  assert (S12 : same_shape (r_nodes r) m2) by (eapply same_shape_trans; eauto).
  destruct o2 as [[]| | |]; try (split; [reflexivity|apply (repos_same_shape_put s i r); auto]).
  split.
  - simpl. now rewrite recache_ids.
  - simpl. apply recache_same_shape. apply (repos_same_shape_put s i r); auto.
Qed.

Theorem xmake_master_shape s u nm :
  ids_of (fst (xstep repaired x_repaired s (XMakeMaster u nm))) = ids_of s /\
  repos_same_shape s (fst (xstep repaired x_repaired s (XMakeMaster u nm))).
Proof.
  simpl. unfold h_rpc. destruct (matching s u); try (split; [reflexivity|apply repos_same_shape_refl]).
  apply make_master_shape.
Qed.

(* ------------------------------------------------------------------ the code as found *)

Definition xoracle_okb (s : state) (r : xreq) : bool :=
  bool_decide (NoDup (xfresh_of r)) && forallb (fresh_okb s) (xfresh_of r).
Fixpoint xoracles_okb (fx : fixes) (xf : xfixes) (s : state) (rs : list xreq) : bool :=
  match rs with
  | [] => true
  | r :: rest => xoracle_okb s r && xoracles_okb fx xf (fst (xstep fx xf s r)) rest
  end.

Lemma xoracles_okb_ok fx xf rs : forall s, xoracles_okb fx xf s rs = true -> xoracles_ok fx xf s rs.
Proof.
  induction rs as [|r rs IH]; intros s H; simpl in *; auto.
  apply andb_true_iff in H as [H1 H2]. split; [|now apply IH].
  unfold xoracle_okb in H1. apply andb_true_iff in H1 as [A B]. apply bool_decide_eq_true in A.
  split; auto. apply Forall_forall. intros f Hf. rewrite forallb_forall in B.
  specialize (B f (proj1 (elem_of_list_In _ _) Hf)). unfold fresh_okb in B.
  apply andb_true_iff in B as [B1 B2]. apply bool_decide_eq_true in B2. split; auto.
Qed.

(* prelude: root u1 committed, branch a = u2 committed, branch b = u3 open *)
Definition xprelude : list xreq := List.map XB prelude.

(* 9. hide-branch as found: branch c (u4) hangs off branch a; hiding a leaves u4 with a parent
      (version 2) that is no node any more *)
Definition hide_orphan_history : list xreq :=
  (xprelude ++ [XB (RBranch (U u2) "c" "" u4); XHideBranch (U u1) "a"])%list.

Lemma hide_branch_orphan_refuted :
  xoracles_ok repaired x_found init hide_orphan_history /\
  is_done (snd (xstep repaired x_found (xrun repaired x_found init (xprelude ++ [XB (RBranch (U u2) "c" "" u4)]))
                      (XHideBranch (U u1) "a"))) = true /\
  ~ RepoInv (xrun repaired x_found init hide_orphan_history).
Proof.
  split; [apply xoracles_okb_ok; vm_compute; reflexivity|]. split; [vm_compute; reflexivity|]. intros I.
  set (s := xrun _ _ _ _) in *.
  destruct (inv_live s I 1%N u1) as (r & Hr & _ & W); [vm_compute; reflexivity|].
  vm_compute in Hr. injection Hr as <-.
  destruct (wf_parents _ W 4%N (mkNode u4 [2%N] [] "c" false) 2%N) as [_ (pn & Hpn & _)];
    [vm_compute; reflexivity|apply elem_of_cons; auto|].
  vm_compute in Hpn. discriminate.
Qed.

(* the repaired code refuses that request and (xerror_frame_partial) changes nothing *)
Lemma hide_branch_repaired_refuses :
  snd (xstep repaired x_repaired (xrun repaired x_repaired init (xprelude ++ [XB (RBranch (U u2) "c" "" u4)]))
             (XHideBranch (U u1) "a")) = Fail.
Proof. vm_compute. reflexivity. Qed.

(* 10. make-master as found: u4 continues the default branch below the root; making branch a the
       master with "b" as the name for the old one gives the name b to u4 although u3 carries it:
       two heads for one branch name *)
Definition make_master_history : list xreq :=
  (xprelude ++ [XB (RNewVersion (U u1) "" u4); XMakeMaster (U u2) "b"])%list.

Lemma make_master_name_refuted :
  xoracles_ok repaired x_repaired init make_master_history /\
  is_done (snd (xstep repaired x_repaired (xrun repaired x_repaired init (xprelude ++ [XB (RNewVersion (U u1) "" u4)]))
                      (XMakeMaster (U u2) "b"))) = true /\
  ~ RepoInv (xrun repaired x_repaired init make_master_history).
Proof.
  split; [apply xoracles_okb_ok; vm_compute; reflexivity|]. split; [vm_compute; reflexivity|]. intros I.
  set (s := xrun _ _ _ _) in *.
  destruct (inv_live s I 1%N u1) as (r & Hr & _ & W); [vm_compute; reflexivity|].
  vm_compute in Hr. injection Hr as <-.
  pose proof (wf_leaf_newest _ W 3%N (mkNode u3 [1%N] [] "b" false)) as X.
  assert (L : (4 <= 3)%N).
  { refine (X _ _ _ 4%N (mkNode u4 [1%N] [] "b" false) _ _).
    - vm_compute; reflexivity.
    - discriminate.
    - intros c cn Hc. simpl in Hc. inversion Hc.
    - vm_compute; reflexivity.
    - reflexivity. }
  lia.
Qed.

(* ... and with the name "master" a node carries the literal name *)
Lemma make_master_literal_refuted :
  ~ RepoInv (xrun repaired x_repaired init (xprelude ++ [XB (RNewVersion (U u1) "" u4); XMakeMaster (U u2) "master"])).
Proof.
  intros I. set (s := xrun _ _ _ _) in *.
  destruct (inv_live s I 1%N u1) as (r & Hr & _ & W); [vm_compute; reflexivity|].
  vm_compute in Hr. injection Hr as <-.
  apply (wf_no_master _ W 4%N (mkNode u4 [1%N] [] "master" false)); vm_compute; reflexivity.
Qed.

(* non-vacuity: a history with the new requests, all answered Done, oracle hypothesis true at every
   step, no make-master in it: branch a is hidden (nothing hangs off it), its UUID is used again *)
Definition xhistory : list xreq :=
  (xprelude ++ [XRepoInfo (U u1); XB (RNewVersion (U u2) "" u4); XHideBranch (U u3) "a";
                XB (RBranch (U u1) "a" u2 u5); XRepoInfo ("0000000000000000000000000000000" ++ "1:a")])%list.

Fixpoint xall_done (fx : fixes) (xf : xfixes) (s : state) (rs : list xreq) : bool :=
  match rs with
  | [] => true
  | r :: rest => is_done (snd (xstep fx xf s r)) && xall_done fx xf (fst (xstep fx xf s r)) rest
  end.

Lemma xhistory_ok : xoracles_ok repaired x_repaired init xhistory /\ no_make_master xhistory = true /\
  xall_done repaired x_repaired init xhistory = true /\
  size (st_u2v (xrun repaired x_repaired init xhistory)) = 3%nat.
Proof.
  split; [apply xoracles_okb_ok; vm_compute; reflexivity|]. repeat split; vm_compute; reflexivity.
Qed.

(* make-master with a fresh name on a graph without merges: accepted, a becomes the default branch *)
Lemma make_master_accepts :
  let s := xrun repaired x_repaired init (xprelude ++ [XB (RNewVersion (U u1) "" u4); XMakeMaster (U u2) "old"]) in
  matching s (U (u1 ++ ":master")) = Done u2 /\ matching s (U (u1 ++ ":old")) = Done u4 /\
  matching s (U (u1 ++ ":a")) = Fail.
Proof. vm_compute. repeat split; reflexivity. Qed.
