(* Proofs.DownresBlock: Block.Downres (repaired setBlank) on a block and eight optional octant
   blocks, voxel for voxel: inside the eighth of a given octant the vote of the eight octant voxels
   above, elsewhere the block's own voxel — the block-domain and the array-domain down-sampling
   agree. *)
From DV Require Import Base.Prelude Base.Int Base.BitPack Model.Block Model.BlockOps Model.Downres
     Proofs.BitPack Proofs.Block Proofs.BlockOps Proofs.BlockViews Proofs.Downres Gen.Consts.
From Coq Require Import ZifyN ZifyNat ZifyBool.
Ltac Zify.zify_post_hook ::= Z.div_mod_to_equations.
Local Open Scope N_scope.

(* octant of the block a voxel lies in: ((z / (nz/2)) << 2) | ((y / (ny/2)) << 1) | (x / (nx/2)) *)
Definition oct_of (nx ny nz x y z : N) : N := z / (nz / 2) * 4 + y / (ny / 2) * 2 + x / (nx / 2).

(* what Downres documents for one voxel: [harr i] is the label array of octant i if it is given *)
Definition dr_voxel (old : list N) (harr : N -> option (list N)) (nx ny nz x y z : N) (v : N) : Prop :=
  let r := oct_of nx ny nz x y z in
  match harr r with
  | Some ha => exists ls, eight (rows nx ha) ny (x - r mod 2 * (nx / 2)) (y - (r / 2) mod 2 * (ny / 2)) (z - r / 4 * (nz / 2)) = Ok ls
                          /\ v = vote ls
  | None => nth_N old ((z * ny + y) * nx + x) = Some v
  end.

Section Geometry.
  Variables gx gy gz : N.
  Hypothesis Gx : 0 < gx. Hypothesis Gy : 0 < gy. Hypothesis Gz : 0 < gz.
  Let nx := 8 * gx. Let ny := 8 * gy. Let nz := 8 * gz.

  Lemma in_region_iff i x y z :
    i < 8 -> x < nx -> y < ny -> z < nz ->
    let oz := i / 4 in let oy := (i - oz * 4) / 2 in let ox := i mod 2 in
    ((ox * nx / 2 <=? x) && (x <? ox * nx / 2 + nx / 2) && (oy * ny / 2 <=? y) && (y <? oy * ny / 2 + ny / 2)
     && (oz * nz / 2 <=? z) && (z <? oz * nz / 2 + nz / 2)) = (oct_of nx ny nz x y z =? i).
  Proof.
    intros Hi Hx Hy Hz oz oy ox. unfold oct_of, nx, ny, nz in *.
    assert (Bx : ox <= 1) by (unfold ox; clear -Hi; lia).
    assert (By : oy <= 1) by (unfold oy, oz; clear -Hi; lia).
    assert (Bz : oz <= 1) by (unfold oz; clear -Hi; lia).
    assert (Ei : i = oz * 4 + oy * 2 + ox) by (unfold ox, oy, oz; clear -Hi; lia).
    clearbody ox oy oz.
    assert (Ex : 8 * gx / 2 = 4 * gx) by (clear; lia). assert (Ey : 8 * gy / 2 = 4 * gy) by (clear; lia).
    assert (Ez : 8 * gz / 2 = 4 * gz) by (clear; lia).
    rewrite Ex, Ey, Ez.
    assert (Qx : x / (4 * gx) <= 1) by (apply N.lt_succ_r; apply N.div_lt_upper_bound; clear -Hx Gx; lia).
    assert (Qy : y / (4 * gy) <= 1) by (apply N.lt_succ_r; apply N.div_lt_upper_bound; clear -Hy Gy; lia).
    assert (Qz : z / (4 * gz) <= 1) by (apply N.lt_succ_r; apply N.div_lt_upper_bound; clear -Hz Gz; lia).
    assert (Ox : ox * (8 * gx) / 2 = ox * (4 * gx)) by (replace (ox * (8 * gx)) with (ox * (4 * gx) * 2) by ring; apply N.div_mul; discriminate).
    assert (Oy : oy * (8 * gy) / 2 = oy * (4 * gy)) by (replace (oy * (8 * gy)) with (oy * (4 * gy) * 2) by ring; apply N.div_mul; discriminate).
    assert (Oz : oz * (8 * gz) / 2 = oz * (4 * gz)) by (replace (oz * (8 * gz)) with (oz * (4 * gz) * 2) by ring; apply N.div_mul; discriminate).
    rewrite Ox, Oy, Oz.
    (* each coordinate: inside the half iff its quotient is the octant bit *)
    assert (H : forall g o c, 0 < g -> o <= 1 -> c < 8 * g -> c / (4 * g) <= 1 ->
                ((o * (4 * g) <=? c) && (c <? o * (4 * g) + 4 * g)) = (c / (4 * g) =? o)).
    { clear. intros g o c Hg Ho Hc Hq. apply eq_true_iff_eq. rewrite andb_true_iff, N.leb_le, N.ltb_lt, N.eqb_eq.
      assert (G4 : 4 * g <> 0) by lia.
      pose proof (N.div_mod c (4 * g) G4) as DM. pose proof (N.mod_upper_bound c (4 * g) G4) as MU.
      set (q := c / (4 * g)) in *. set (m := c mod (4 * g)) in *. clearbody q m.
      assert (o = 0 \/ o = 1) as [-> | ->] by lia; assert (q = 0 \/ q = 1) as [-> | ->] by lia; lia. }
    pose proof (H gx ox x Gx Bx Hx Qx) as Hx'. pose proof (H gy oy y Gy By Hy Qy) as Hy'. pose proof (H gz oz z Gz Bz Hz Qz) as Hz'.
    rewrite <- !andb_assoc. rewrite (andb_assoc (ox * _ <=? x)), Hx'.
    rewrite (andb_assoc (oy * _ <=? y)), Hy'. rewrite Hz'.
    apply eq_true_iff_eq. rewrite !andb_true_iff, !N.eqb_eq. split.
    - intros [A [B C]]. rewrite A, B, C. symmetry. exact Ei.
    - intro E. rewrite Ei in E.
      set (qx := x / (4 * gx)) in *. set (qy := y / (4 * gy)) in *. set (qz := z / (4 * gz)) in *.
      clearbody qx qy qz. clear -E Qx Qy Qz Bx By Bz. repeat split; lia.
  Qed.
End Geometry.

(* ---------------- one octant written into the accumulated array ---------------- *)

Lemma downres_into_spec hires lores nx ny nz vx vy vz res :
  length lores = N.to_nat (nx * ny * nz) ->
  downres_into hires lores nx ny nz vx vy vz = Ok res ->
  length res = N.to_nat (nx * ny * nz) /\
  forall x y z, x < nx -> y < ny -> z < nz ->
    exists v, nth_N res ((z * ny + y) * nx + x) = Some v /\
      if (vx <=? x) && (x <? vx + nx / 2) && (vy <=? y) && (y <? vy + ny / 2) && (vz <=? z) && (z <? vz + nz / 2)
      then exists ls, eight (rows nx hires) ny (x - vx) (y - vy) (z - vz) = Ok ls /\ v = vote ls
      else nth_N lores ((z * ny + y) * nx + x) = Some v.
Proof.
  intros L D. unfold downres_into in D. split.
  - rewrite (mapR_length _ _ _ D). apply nseq_length.
  - intros x y z Hx Hy Hz.
    set (p := (z * ny + y) * nx + x).
    assert (Hp : p < nx * ny * nz) by (apply lin_lt; assumption).
    destruct (mapR_nth _ _ _ (N.to_nat p) p D) as [v [V1 V2]].
    { rewrite nth_error_nseq by lia. f_equal. lia. }
    destruct (radix3 nx ny x y z Hx Hy) as [R1 [R2 R3]]. fold p in R1, R2, R3.
    cbv zeta in V2. rewrite R1, R2, R3 in V2.
    exists v. split; [exact V1|].
    destruct ((vx <=? x) && (x <? vx + nx / 2) && (vy <=? y) && (y <? vy + ny / 2) && (vz <=? z) && (z <? vz + nz / 2)).
    + destruct (eight (rows nx hires) ny (x - vx) (y - vy) (z - vz)) as [ls| |]; try discriminate.
      apply Ok_inj in V2. eauto.
    + apply opt_res_Ok in V2. rewrite vol_at_rows in V2 by exact Hx. exact V2.
Qed.

(* ---------------- all octants ---------------- *)

Section Octants.
  Variables gx gy gz : N.
  Hypothesis Gx : 0 < gx. Hypothesis Gy : 0 < gy. Hypothesis Gz : 0 < gz.
  Let nx := 8 * gx. Let ny := 8 * gy. Let nz := 8 * gz.

  (* the octant blocks as label arrays *)
  Definition arrays_of (octs : list (option block)) (i : N) (r : N) : option (list N) :=
    if (i <=? r) then
      match nth_error octs (N.to_nat (r - i)) with
      | Some (Some ob) => match decode ob with Ok ha => Some ha | _ => None end
      | _ => None
      end
    else None.

  Lemma oct_of_lt x y z : x < nx -> y < ny -> z < nz -> oct_of nx ny nz x y z < 8.
  Proof.
    intros Hx Hy Hz. unfold oct_of, nx, ny, nz in *.
    assert (Ex : 8 * gx / 2 = 4 * gx) by (clear; lia). assert (Ey : 8 * gy / 2 = 4 * gy) by (clear; lia).
    assert (Ez : 8 * gz / 2 = 4 * gz) by (clear; lia). rewrite Ex, Ey, Ez.
    assert (Qx : x / (4 * gx) <= 1) by (apply N.lt_succ_r; apply N.div_lt_upper_bound; clear -Hx Gx; lia).
    assert (Qy : y / (4 * gy) <= 1) by (apply N.lt_succ_r; apply N.div_lt_upper_bound; clear -Hy Gy; lia).
    assert (Qz : z / (4 * gz) <= 1) by (apply N.lt_succ_r; apply N.div_lt_upper_bound; clear -Hz Gz; lia).
    clear -Qx Qy Qz. lia.
  Qed.

  Lemma downres_octants_spec octs : forall i acc res,
    i + N.of_nat (length octs) <= 8 ->
    length acc = N.to_nat (nx * ny * nz) ->
    downres_octants octs i acc gx gy gz = Ok res ->
    length res = N.to_nat (nx * ny * nz) /\
    forall x y z, x < nx -> y < ny -> z < nz ->
      exists v, nth_N res ((z * ny + y) * nx + x) = Some v /\
                dr_voxel acc (arrays_of octs i) nx ny nz x y z v.
  Proof.
    induction octs as [|o octs IH]; intros i acc res Hi L D.
    - simpl in D. apply Ok_inj in D. subst res. split; [exact L|].
      intros x y z Hx Hy Hz.
      assert (Hp : (z * ny + y) * nx + x < nx * ny * nz) by (apply lin_lt; assumption).
      destruct (nth_N_lt_Some acc ((z * ny + y) * nx + x)) as [v Hv]; [rewrite L; clear -Hp; lia|].
      exists v. split; [exact Hv|]. unfold dr_voxel, arrays_of.
      destruct (i <=? _); [|exact Hv]. destruct (N.to_nat (oct_of nx ny nz x y z - i)); cbn [nth_error]; exact Hv.
    - cbn [downres_octants] in D. cbn [length] in Hi.
      destruct o as [ob|].
      + destruct (decode ob) as [ha| |] eqn:Dec; try discriminate.
        destruct (negb ((b_gx ob =? gx) && (b_gy ob =? gy) && (b_gz ob =? gz))); [discriminate|].
        fold nx ny nz in D.
        destruct (downres_into ha acc nx ny nz (i mod 2 * nx / 2) ((i - i / 4 * 4) / 2 * ny / 2) (i / 4 * nz / 2)) as [acc'| |] eqn:DI;
          try discriminate.
        destruct (downres_into_spec _ _ _ _ _ _ _ _ _ L DI) as [L' S1].
        destruct (IH (i + 1) acc' res ltac:(clear -Hi; lia) L' D) as [LR S2].
        split; [exact LR|]. intros x y z Hx Hy Hz.
        destruct (S2 x y z Hx Hy Hz) as [v [V1 V2]]. exists v. split; [exact V1|].
        destruct (S1 x y z Hx Hy Hz) as [v1 [W1 W2]].
        pose proof (oct_of_lt x y z Hx Hy Hz) as R8.
        assert (I8 : i < 8) by (clear -Hi; lia).
        pose proof (in_region_iff gx gy gz Gx Gy Gz i x y z I8 Hx Hy Hz) as IR. cbv zeta in IR. fold nx ny nz in IR.
        rewrite IR in W2. clear IR.
        unfold dr_voxel in *. set (r := oct_of nx ny nz x y z) in *.
        unfold arrays_of in *.
        destruct (r =? i) eqn:Eri.
        * (* this voxel belongs to octant i: later octants leave it alone *)
          apply N.eqb_eq in Eri.
          replace (i + 1 <=? r) with false in V2 by (symmetry; apply N.leb_gt; clear -Eri; lia).
          replace (i <=? r) with true by (symmetry; apply N.leb_le; clear -Eri; lia).
          replace (N.to_nat (r - i)) with 0%nat by (clear -Eri; lia). cbn [nth_error]. rewrite Dec.
          assert (v = v1) by congruence. subst v1.
          destruct W2 as [ls [E1 E2]]. exists ls. split; [|exact E2].
          rewrite Eri.
          assert (Hx2 : i mod 2 * (nx / 2) = i mod 2 * nx / 2).
          { unfold nx. clear. replace (i mod 2 * (8 * gx)) with (i mod 2 * (4 * gx) * 2) by ring.
            rewrite N.div_mul by discriminate. replace (8 * gx / 2) with (4 * gx) by lia. reflexivity. }
          assert (Hy2 : (i / 2) mod 2 * (ny / 2) = (i - i / 4 * 4) / 2 * ny / 2).
          { unfold ny. clear -I8. replace ((i - i / 4 * 4) / 2 * (8 * gy)) with ((i - i / 4 * 4) / 2 * (4 * gy) * 2) by ring.
            rewrite N.div_mul by discriminate. replace (8 * gy / 2) with (4 * gy) by lia.
            replace ((i - i / 4 * 4) / 2) with ((i / 2) mod 2) by lia. reflexivity. }
          assert (Hz2 : i / 4 * (nz / 2) = i / 4 * nz / 2).
          { unfold nz. clear. replace (i / 4 * (8 * gz)) with (i / 4 * (4 * gz) * 2) by ring.
            rewrite N.div_mul by discriminate. replace (8 * gz / 2) with (4 * gz) by lia. reflexivity. }
          rewrite Hx2, Hy2, Hz2.
          exact E1.
        * apply N.eqb_neq in Eri.
          destruct (i <=? r) eqn:Eir.
          -- apply N.leb_le in Eir.
             replace (i + 1 <=? r) with true in V2 by (symmetry; apply N.leb_le; clear -Eir Eri; lia).
             replace (N.to_nat (r - i)) with (S (N.to_nat (r - (i + 1)))) by (clear -Eir Eri; lia).
             cbn [nth_error].
             destruct (nth_error octs (N.to_nat (r - (i + 1)))) as [[ob'|]|];
               try (assert (v = v1) by congruence; subst v1; exact W2).
             destruct (decode ob') as [ha'| |]; try (assert (v = v1) by congruence; subst v1; exact W2). exact V2.
          -- apply N.leb_gt in Eir.
             replace (i + 1 <=? r) with false in V2 by (symmetry; apply N.leb_gt; clear -Eir; lia).
             assert (v = v1) by congruence. subst v1. exact W2.
      + destruct (IH (i + 1) acc res ltac:(clear -Hi; lia) L D) as [LR S2].
        split; [exact LR|]. intros x y z Hx Hy Hz.
        destruct (S2 x y z Hx Hy Hz) as [v [V1 V2]]. exists v. split; [exact V1|].
        unfold dr_voxel, arrays_of in *. set (r := oct_of nx ny nz x y z) in *.
        destruct (i <=? r) eqn:Eir.
        * apply N.leb_le in Eir. destruct (N.eq_dec r i) as [E|E].
          -- replace (i + 1 <=? r) with false in V2 by (symmetry; apply N.leb_gt; clear -E; lia).
             replace (N.to_nat (r - i)) with 0%nat by (clear -E; lia). exact V2.
          -- replace (i + 1 <=? r) with true in V2 by (symmetry; apply N.leb_le; clear -Eir E; lia).
             replace (N.to_nat (r - i)) with (S (N.to_nat (r - (i + 1)))) by (clear -Eir E; lia). exact V2.
        * apply N.leb_gt in Eir.
          replace (i + 1 <=? r) with false in V2 by (symmetry; apply N.leb_gt; clear -Eir; lia). exact V2.
  Qed.
End Octants.

(* ---------------- Block.Downres (repaired) ---------------- *)

Lemma vote_const l ls : ls <> [] -> (forall v, In v ls -> v = l) -> vote ls = l.
Proof.
  intros NE H. destruct (vote_spec ls) as [V0 V1].
  destruct (N.eq_dec l 0) as [E|E].
  - subst l. apply V0. exact H.
  - destruct ls as [|a ls']; [congruence|].
    destruct V1 as [_ [Hin _]]; [exists a; split; [now left | rewrite (H a (or_introl eq_refl)); exact E]|].
    now apply H.
Qed.

Lemma eight_solid l nx ny nz lx ly lz :
  0 < nx -> 2 * lx + 1 < nx -> 2 * ly + 1 < ny -> 2 * lz + 1 < nz ->
  exists ls, eight (rows nx (repeat l (N.to_nat (nx * ny * nz)))) ny lx ly lz = Ok ls /\ vote ls = l.
Proof.
  intros Hnx Hx Hy Hz. unfold eight.
  assert (R : mapR (fun i => opt_res (vol_at (rows nx (repeat l (N.to_nat (nx * ny * nz))))
                                             ((2 * lz + i / 4) * ny + (2 * ly + (i / 2) mod 2)) (2 * lx + i mod 2))) (nseq 8)
              = Ok (map (fun _ => l) (nseq 8))).
  { apply mapR_pure'. intros i Hi. apply In_nseq in Hi.
    assert (X : 2 * lx + i mod 2 < nx) by (clear -Hx; lia).
    assert (Y : 2 * ly + (i / 2) mod 2 < ny) by (clear -Hy; lia).
    assert (Z : 2 * lz + i / 4 < nz) by (clear -Hz Hi; lia).
    rewrite vol_at_rows by exact X.
    pose proof (lin_lt _ _ _ nx ny nz X Y Z) as LT.
    unfold nth_N. rewrite nth_error_repeat' by (clear -LT; lia). reflexivity. }
  rewrite R. eexists. split; [reflexivity|].
  apply vote_const; [discriminate|]. intros v Hv. apply in_map_iff in Hv as [? [E _]]. now symmetry.
Qed.

Definition same_size (b : block) (o : option block) : Prop :=
  match o with Some ob => b_gx ob = b_gx b /\ b_gy ob = b_gy b /\ b_gz ob = b_gz b | None => True end.

(* the array the slow path starts from: zeros when all eight octants are given, else the block *)
Definition start_of (old : list N) (octs : list (option block)) (nvox : N) : list N :=
  if forallb (fun o => match o with Some _ => true | None => false end) octs then repeat 0 (N.to_nat nvox) else old.

Theorem downres_fixed_spec tbl b octs b' old :
  tbl_ok tbl -> 0 < b_gx b -> 0 < b_gy b -> 0 < b_gz b -> length octs = 8%nat ->
  Forall (same_size b) octs ->
  decode b = Ok old ->
  downres true tbl b octs = Ok b' ->
  let nx := 8 * b_gx b in let ny := 8 * b_gy b in let nz := 8 * b_gz b in
  exists a, decode b' = Ok a /\ length a = N.to_nat (nx * ny * nz) /\
    forall x y z, x < nx -> y < ny -> z < nz ->
      exists v, nth_N a ((z * ny + y) * nx + x) = Some v /\
                dr_voxel (start_of old octs (nx * ny * nz)) (arrays_of octs 0) nx ny nz x y z v.
Proof.
  intros T Gx Gy Gz L8 SS D R nx ny nz. unfold downres in R.
  destruct (set_blank true octs) as [l|] eqn:SB.
  - (* all eight octants solid with label l *)
    apply Ok_inj in R. subst b'.
    exists (repeat l (N.to_nat (nx * ny * nz))). split; [reflexivity|]. split; [apply repeat_length|].
    intros x y z Hx Hy Hz.
    assert (Hp : (z * ny + y) * nx + x < nx * ny * nz) by (apply lin_lt; assumption).
    exists l. split; [unfold nth_N; apply nth_error_repeat'; clear -Hp; lia|].
    pose proof (set_blank_fixed_spec octs l SB) as FS.
    pose proof (oct_of_lt (b_gx b) (b_gy b) (b_gz b) Gx Gy Gz x y z Hx Hy Hz) as R8. fold nx ny nz in R8.
    unfold dr_voxel, arrays_of. set (r := oct_of nx ny nz x y z) in *.
    replace (0 <=? r) with true by (symmetry; apply N.leb_le; clear; lia). rewrite N.sub_0_r.
    destruct (nth_error octs (N.to_nat r)) as [o|] eqn:En; [|apply nth_error_None in En; clear -En L8 R8; lia].
    rewrite Forall_forall in FS, SS. pose proof (FS o (nth_error_In _ _ En)) as Fo. pose proof (SS o (nth_error_In _ _ En)) as So.
    destruct o as [ob|]; [|discriminate]. cbn [solid_label] in Fo. cbn [same_size] in So. destruct So as [S1 [S2 S3]].
    destruct (b_labels ob) as [|l' [|? ?]] eqn:EL; try discriminate. inversion Fo; subst l'.
    unfold decode. rewrite EL, S1, S2, S3. fold nx ny nz.
    (* the eight voxels read from the solid octant *)
    assert (Ex : nx / 2 = 4 * b_gx b) by (unfold nx; clear; lia). assert (Ey : ny / 2 = 4 * b_gy b) by (unfold ny; clear; lia).
    assert (Ez : nz / 2 = 4 * b_gz b) by (unfold nz; clear; lia).
    destruct (eight_solid l nx ny nz (x - r mod 2 * (nx / 2)) (y - (r / 2) mod 2 * (ny / 2)) (z - r / 4 * (nz / 2))) as [ls [E1 E2]].
    + unfold nx; clear -Gx; lia.
    + (* 2 * (x - ox * half) + 1 < nx: x lies in the half selected by its own octant bit *)
      unfold r, oct_of. rewrite Ex, Ey, Ez. unfold nx, ny, nz in *.
      assert (Qx : x / (4 * b_gx b) <= 1) by (apply N.lt_succ_r; apply N.div_lt_upper_bound; clear -Hx Gx; lia).
      assert (Qy : y / (4 * b_gy b) <= 1) by (apply N.lt_succ_r; apply N.div_lt_upper_bound; clear -Hy Gy; lia).
      assert (Qz : z / (4 * b_gz b) <= 1) by (apply N.lt_succ_r; apply N.div_lt_upper_bound; clear -Hz Gz; lia).
      pose proof (N.div_mod x (4 * b_gx b) ltac:(clear -Gx; lia)) as DM. pose proof (N.mod_upper_bound x (4 * b_gx b) ltac:(clear -Gx; lia)) as MU.
      set (qx := x / (4 * b_gx b)) in *. set (qy := y / (4 * b_gy b)) in *. set (qz := z / (4 * b_gz b)) in *.
      set (m := x mod (4 * b_gx b)) in *. clearbody qx qy qz m.
      replace ((qz * 4 + qy * 2 + qx) mod 2) with qx by (clear -Qx Qy Qz; lia).
      clear -DM MU Qx. assert (qx = 0 \/ qx = 1) as [-> | ->] by lia; lia.
    + unfold r, oct_of. rewrite Ex, Ey, Ez. unfold nx, ny, nz in *.
      assert (Qx : x / (4 * b_gx b) <= 1) by (apply N.lt_succ_r; apply N.div_lt_upper_bound; clear -Hx Gx; lia).
      assert (Qy : y / (4 * b_gy b) <= 1) by (apply N.lt_succ_r; apply N.div_lt_upper_bound; clear -Hy Gy; lia).
      assert (Qz : z / (4 * b_gz b) <= 1) by (apply N.lt_succ_r; apply N.div_lt_upper_bound; clear -Hz Gz; lia).
      pose proof (N.div_mod y (4 * b_gy b) ltac:(clear -Gy; lia)) as DM. pose proof (N.mod_upper_bound y (4 * b_gy b) ltac:(clear -Gy; lia)) as MU.
      set (qx := x / (4 * b_gx b)) in *. set (qy := y / (4 * b_gy b)) in *. set (qz := z / (4 * b_gz b)) in *.
      set (m := y mod (4 * b_gy b)) in *. clearbody qx qy qz m.
      replace (((qz * 4 + qy * 2 + qx) / 2) mod 2) with qy by (clear -Qx Qy Qz; lia).
      clear -DM MU Qy. assert (qy = 0 \/ qy = 1) as [-> | ->] by lia; lia.
    + unfold r, oct_of. rewrite Ex, Ey, Ez. unfold nx, ny, nz in *.
      assert (Qx : x / (4 * b_gx b) <= 1) by (apply N.lt_succ_r; apply N.div_lt_upper_bound; clear -Hx Gx; lia).
      assert (Qy : y / (4 * b_gy b) <= 1) by (apply N.lt_succ_r; apply N.div_lt_upper_bound; clear -Hy Gy; lia).
      assert (Qz : z / (4 * b_gz b) <= 1) by (apply N.lt_succ_r; apply N.div_lt_upper_bound; clear -Hz Gz; lia).
      pose proof (N.div_mod z (4 * b_gz b) ltac:(clear -Gz; lia)) as DM. pose proof (N.mod_upper_bound z (4 * b_gz b) ltac:(clear -Gz; lia)) as MU.
      set (qx := x / (4 * b_gx b)) in *. set (qy := y / (4 * b_gy b)) in *. set (qz := z / (4 * b_gz b)) in *.
      set (m := z mod (4 * b_gz b)) in *. clearbody qx qy qz m.
      replace ((qz * 4 + qy * 2 + qx) / 4) with qz by (clear -Qx Qy Qz; lia).
      clear -DM MU Qz. assert (qz = 0 \/ qz = 1) as [-> | ->] by lia; lia.
    + exists ls. split; [exact E1 | now symmetry].
  - (* the slow path: expand, down-sample the given octants, re-encode *)
    unfold downres_slow in R. fold nx ny nz in R.
    assert (ES : (if forallb (fun o => match o with Some _ => true | None => false end) octs
                  then Ok (repeat 0 (N.to_nat (nx * ny * nz))) else decode b)
                 = Ok (start_of old octs (nx * ny * nz))).
    { unfold start_of. destruct (forallb _ octs); [reflexivity | exact D]. }
    rewrite ES in R.
    destruct (downres_octants octs 0 (start_of old octs (nx * ny * nz)) (b_gx b) (b_gy b) (b_gz b)) as [a| |] eqn:DO; try discriminate.
    assert (LS : length (start_of old octs (nx * ny * nz)) = N.to_nat (nx * ny * nz)).
    { unfold start_of. destruct (forallb _ octs); [apply repeat_length | now apply decode_length]. }
    destruct (downres_octants_spec (b_gx b) (b_gy b) (b_gz b) Gx Gy Gz octs 0 _ a ltac:(rewrite L8; clear; lia) LS DO) as [LA SP].
    exists a. split; [|split; [exact LA | exact SP]].
    eapply (reencode (tbl a) a (b_gx b) (b_gy b) (b_gz b) b'); [exact LA | apply T | exact R].
Qed.
