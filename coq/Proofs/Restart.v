(* Proofs.Restart: a restart shows the repos the running server showed (C03, metadata part);
   branch heads and reloaded label maxima do not always survive. *)
From DV Require Import Base.Prelude Model.Persist Model.IDs Proofs.Persist Proofs.IDs.
From Coq Require Import ZifyN ZifyNat ZifyBool.
Local Open Scope N_scope.

Lemma repos_ws_nonblob img ws : blob_writes ws = 0%nat -> i_repos (apply_ws img ws) = i_repos img.
Proof. apply repos_nonblobs. Qed.

Lemma new_uuid_repos m u : m_repos (fst (fst (new_uuid m u))) = m_repos m /\
  blob_writes (snd (new_uuid m u)) = 0%nat /\ m_vid m = snd (fst (new_uuid m u)).
Proof. unfold new_uuid. cbn. auto. Qed.

Lemma sync_step C m img o : synced m img -> merge_accepted m o = true ->
  synced (fst (pstep C m o)) (apply_ws img (snd (pstep C m o))).
Proof.
  unfold synced. intros Hs Hacc. destruct o; cbn [pstep].
  - (* new repo *)
    unfold op_new_repo, new_uuid. cbn [fst snd m_repos m_rid m_vid m_iid m_r2u m_v2u].
    rewrite !apply_ws_app. cbn [apply_ws fold_left apply_w i_repos app]. now rewrite Hs.
  - (* new version *)
    unfold op_new_version.
    destruct (aget rid (m_repos m)) as [r|]; [|exact Hs].
    destruct (aget parent (pr_nodes r)) as [pn|]; [|exact Hs].
    destruct (negb (pn_locked pn)); [exact Hs|].
    match goal with |- context [if ?c then (m, []) else _] => destruct c end; [exact Hs|].
    unfold new_uuid. cbn [fst snd]. rewrite apply_ws_app. cbn [apply_ws fold_left apply_w i_repos].
    cbn [set_head upd_repo m_repos]. now rewrite Hs.
  - (* merge *)
    unfold op_merge. unfold merge_accepted in Hacc.
    destruct parents as [|p0 [|p1 ps]]; [exact Hs|exact Hs|].
    destruct (aget rid (m_repos m)) as [r|]; [|exact Hs].
    unfold new_uuid. cbn [fst snd].
    destruct (link_parents _ (m_vid m) (p0 :: p1 :: ps)) as [ns ok] eqn:El. cbn [snd] in Hacc. subst ok.
    cbn [fst snd]. rewrite apply_ws_app. cbn [apply_ws fold_left apply_w i_repos upd_repo m_repos]. now rewrite Hs.
  - (* commit *)
    unfold op_commit.
    destruct (aget rid (m_repos m)) as [r|]; [|exact Hs].
    destruct (aget v (pr_nodes r)) as [n|]; [|exact Hs].
    destruct (pn_locked n); [exact Hs|].
    cbn [fst snd apply_ws fold_left apply_w i_repos upd_repo m_repos]. now rewrite Hs.
  - (* new data *)
    unfold op_new_data.
    destruct (aget rid (m_repos m)) as [r|]; [|cbn; exact Hs].
    destruct (amem name (pr_data r)); [cbn; exact Hs|].
    cbn [fst snd app apply_ws fold_left apply_w i_repos upd_repo m_repos]. now rewrite Hs.
  - (* delete data *)
    unfold op_delete_data.
    destruct (aget rid (m_repos m)) as [r|]; [|exact Hs].
    destruct (negb (amem name (pr_data r))); [exact Hs|].
    cbn [fst snd apply_ws fold_left apply_w i_repos upd_repo m_repos]. now rewrite Hs.
  - (* delete repo *)
    unfold op_delete_repo.
    destruct (aget rid (m_repos m)) as [r|]; [|exact Hs].
    cbn [fst snd apply_ws fold_left apply_w i_repos m_repos]. now rewrite Hs.
  - (* mutation id *)
    unfold op_new_mutid. destruct (aget rid (m_mut m)) as [[cur saved]|]; [|exact Hs].
    cbn [fst snd]. destruct (saved <=? cur + 1); cbn; exact Hs.
Qed.

Lemma sync_run C ops : forall m img, synced m img -> run_accepted C m ops = true ->
  synced (fst (prun_img C m img ops)) (snd (prun_img C m img ops)).
Proof.
  induction ops as [|o r IH]; intros m img Hs Ha; [exact Hs|].
  cbn [run_accepted] in Ha. apply andb_true_iff in Ha as [H1 H2]. cbn [prun_img].
  apply IH; [now apply sync_step|exact H2].
Qed.

Lemma pinv_run C ops : forall m img, pinv m img = true ->
  pinv (fst (prun_img C m img ops)) (snd (prun_img C m img ops)) = true.
Proof.
  induction ops as [|o r IH]; intros m img H; [exact H|]. cbn [prun_img]. apply IH.
  apply pinv_iff. apply pinv_iff in H. now destruct (step_inv C m img o H) as (_ & _ & H').
Qed.

(* restart_refines, repos: after any history whose merges were accepted, cut anywhere, a restart
   shows the repos the live server showed, and the restarted server is again in a state to which
   the statement applies (any number of restarts) *)
Lemma restart_refines_repos C m img ops : pinv m img = true -> synced m img -> run_accepted C m ops = true ->
  let '(m', img') := prun_img C m img ops in
  exists mr wr, recover C img' = Ok (mr, wr) /\ pobserve mr = pobserve m' /\
                pinv mr (apply_ws img' wr) = true /\ synced mr (apply_ws img' wr).
Proof.
  intros Hp Hs Ha. pose proof (sync_run C ops m img Hs Ha) as Hs'. pose proof (pinv_run C ops m img Hp) as Hp'.
  destruct (prun_img C m img ops) as [m' img']. cbn [fst snd] in *.
  destruct (pinv_pwf _ _ Hp') as [_ Hok].
  destruct (recover_ok C img' Hok) as (mr & wr & Hr & Hrep & _ & _ & Hblob & Hinv).
  exists mr, wr. repeat split; auto.
  - unfold pobserve. rewrite Hrep. symmetry. exact Hs'.
  - unfold synced. rewrite Hrep. symmetry. now apply repos_nonblobs.
Qed.

Lemma init_synced C : synced (init_mgr C) (apply_ws empty_image (init_writes C)).
Proof. reflexivity. Qed.

(* the refused merge: memory is ahead of the store until the repo's next save *)
Definition r_conf : pconf := {| c_mut_start := 1000; c_stride := 100; c_inst_start := 0 |}.
Definition r_run (ops : list pop) : pmgr * image :=
  prun_img r_conf (init_mgr r_conf) (apply_ws empty_image (init_writes r_conf)) ops.

Lemma restart_refines_refuted :
  let '(m, img) := r_run [PNewRepo 11; PCommit 1 1; PNewVersion 1 1 None 12; PMerge 1 [1; 2] 13] in
  match recover r_conf img with
  | Ok (mr, _) => pobserve mr <> pobserve m
  | _ => False
  end.
Proof. vm_compute. discriminate. Qed.

(* ---- branch heads ---- *)
Definition rebuilt_head (C : pconf) (img : image) (rid br : N) : option N :=
  match recover C img with Ok (mr, _) => live_head mr rid br | _ => None end.

(* a merge node is on branch "" and the live head map is not told about it: master's head is node 2
   for the running server and node 4 after a restart *)
Lemma heads_merge_refuted :
  let '(m, img) := r_run [PNewRepo 11; PCommit 1 1; PNewVersion 1 1 None 12; PNewVersion 1 1 (Some 7) 13;
                          PCommit 1 2; PCommit 1 3; PMerge 1 [2; 3] 14] in
  live_head m 1 0 = Some 2 /\ rebuilt_head r_conf img 1 0 = Some 4.
Proof. vm_compute. split; reflexivity. Qed.

(* merging two side branches gives master two leaves: which one a restart picks depends on Go's map
   iteration order (the model takes the lowest version) *)
Lemma heads_two_master_leaves :
  let '(m, img) := r_run [PNewRepo 11; PCommit 1 1; PNewVersion 1 1 None 12; PNewVersion 1 1 (Some 7) 13;
                          PNewVersion 1 1 (Some 8) 14; PCommit 1 3; PCommit 1 4; PMerge 1 [3; 4] 15] in
  match aget 1 (m_repos m) with
  | Some r => branch_leaves r 0 = [2; 5] /\ live_head m 1 0 = Some 2
  | None => False
  end.
Proof. vm_compute. split; reflexivity. Qed.

(* without merges the rebuilt heads are the live ones (executable statement on a concrete branching
   history; the general theorem is C07's chain invariant and is not proved here) *)
Lemma heads_example_no_merge :
  let '(m, img) := r_run [PNewRepo 11; PCommit 1 1; PNewVersion 1 1 None 12; PNewVersion 1 1 (Some 7) 13;
                          PCommit 1 3; PNewVersion 1 3 None 14; PCommit 1 2; PNewVersion 1 2 None 15;
                          PNewVersion 1 2 (Some 9) 16] in
  forallb (fun br => match live_head m 1 br, rebuilt_head r_conf img 1 br with
                     | Some a, Some b => a =? b | None, None => true | _, _ => false end) [0; 7; 9; 5] = true.
Proof. vm_compute. reflexivity. Qed.

(* ---- reloaded label maxima ---- *)
(* when the repo-wide maximum in memory is the persisted one and covers the per-version maxima, a
   restart reloads it unchanged ... *)
Lemma maxlabel_reload s : l_pmaxrepo s = Some (l_maxrepo s) ->
  (forall v x, In (v, x) (l_pmaxv s) -> x <= l_maxrepo s) ->
  l_maxrepo (l_load (l_down s)) = l_maxrepo s.
Proof.
  intros Hp Hv. unfold l_load, l_down. cbn. rewrite Hp.
  assert (G : forall (l : list (N * N)) a, a <= l_maxrepo s -> (forall v x, In (v, x) l -> x <= l_maxrepo s) ->
              fold_left (fun a (kv : N * N) => N.max a (snd kv)) l a <= l_maxrepo s).
  { induction l as [|[v x] r IH]; intros a Ha H; cbn [fold_left]; [exact Ha|].
    apply IH; [|intros; eapply H; right; eauto]. specialize (H v x (or_introl eq_refl)). cbn. lia. }
  specialize (G (l_pmaxv s) 0 ltac:(lia) Hv).
  destruct (l_maxrepo s <? _) eqn:E; [apply N.ltb_lt in E; lia|reflexivity].
Qed.

(* ... but an instance that never stored a label answers next label 1 before and 10000000001 after *)
Lemma maxlabel_reload_refuted :
  l_maxrepo l_fresh_unrepaired = 0 /\ l_maxrepo (l_load (l_down l_fresh_unrepaired)) = very_large_label.
Proof. split; reflexivity. Qed.

(* with the initial maximum recorded at creation the new instance reloads as it was *)
Lemma maxlabel_reload_fresh : l_maxrepo (l_load (l_down l_fresh)) = l_maxrepo l_fresh.
Proof. reflexivity. Qed.

(* ---- branch heads of the repaired code: a function of the repos, which a restart preserves ---- *)
Lemma branch_head_restart C m img ops rid br : pinv m img = true -> synced m img -> run_accepted C m ops = true ->
  let '(m', img') := prun_img C m img ops in
  exists mr wr, recover C img' = Ok (mr, wr) /\ branch_head mr rid br = branch_head m' rid br.
Proof.
  intros Hp Hs Ha. pose proof (restart_refines_repos C m img ops Hp Hs Ha) as H.
  destruct (prun_img C m img ops) as [m' img']. destruct H as (mr & wr & Hr & Hobs & _).
  exists mr, wr. split; [exact Hr|]. unfold branch_head. unfold pobserve in Hobs. now rewrite Hobs.
Qed.

(* the repaired definition on the histories that refuted the old one *)
Lemma branch_head_examples :
  (let '(m, _) := r_run [PNewRepo 11; PCommit 1 1; PNewVersion 1 1 None 12; PNewVersion 1 1 (Some 7) 13;
                         PCommit 1 2; PCommit 1 3; PMerge 1 [2; 3] 14] in
   branch_head m 1 0 = Some 4 /\ branch_head m 1 7 = Some 3) /\
  (let '(m, _) := r_run [PNewRepo 11; PCommit 1 1; PNewVersion 1 1 (Some 7) 12] in
   branch_head m 1 0 = Some 1 /\ branch_head m 1 7 = Some 2) /\
  (let '(m, _) := r_run [PNewRepo 11; PCommit 1 1; PNewVersion 1 1 None 12; PNewVersion 1 1 (Some 7) 13;
                         PNewVersion 1 1 (Some 8) 14; PCommit 1 3; PCommit 1 4; PMerge 1 [3; 4] 15] in
   branch_head m 1 0 = Some 5).
Proof. vm_compute. repeat split. Qed.


(* the same without any merge: a committed root whose only child is on another branch; the running
   server resolves master to the root, the restarted one does not resolve it at all *)
Lemma heads_fork_refuted :
  let '(m, img) := r_run [PNewRepo 11; PCommit 1 1; PNewVersion 1 1 (Some 7) 12] in
  live_head m 1 0 = Some 1 /\ rebuilt_head r_conf img 1 0 = None.
Proof. vm_compute. split; reflexivity. Qed.
