(* Proofs.Annot — every step keeps the views; histories; what the unrepaired code does. *)
From DV Require Import Base.Prelude Model.Annot Gen.Consts Proofs.AnnotBase Proofs.AnnotStore Proofs.AnnotViews
     Proofs.AnnotPost Proofs.AnnotDelete Proofs.AnnotMove Proofs.AnnotLabels Proofs.AnnotBlocks Proofs.AnnotReload.
From Coq Require Import Permutation.
Local Open Scope Z_scope.

Lemma views_init bs bd : Views bs [] (init bd).
Proof.
  constructor; cbn; intros; try reflexivity; try constructor; try contradiction.
Qed.

(* POST labels with lists that are the label views: nothing observable changes *)
Lemma post_labels_views bs G s ls :
  ViewsI bs G s -> guard bs G (body s) (OLabels ls) ->
  ViewsI bs G (mkS (blk s) (tgs s) (post_labels ls (lbl s)) (cnt s) (body s)).
Proof.
  intros V Hg. cbn [guard] in Hg. unfold post_labels.
  assert (Hinv : forall lb,
     (forall l, l <> 0%N -> is_nview (fun e => body s (e_pos e) = l) G (nget lb l)) -> nget lb 0%N = [] ->
     (forall l, l <> 0%N -> is_nview (fun e => body s (e_pos e) = l) G
          (nget (fold_left (fun acc le => if (fst le =? 0)%N then acc else aput (fst le) (snd le) acc) ls lb) l))
     /\ nget (fold_left (fun acc le => if (fst le =? 0)%N then acc else aput (fst le) (snd le) acc) ls lb) 0%N = []).
  { induction ls as [|[l0 es0] ls IH]; intros lb Hv H0; cbn [fold_left fst snd]; [auto|].
    apply IH.
    - intros l es Hin. apply Hg. now right.
    - intros l Hl. destruct (l0 =? 0)%N eqn:E0; [now apply Hv|]. rewrite nget_aput. destruct (l0 =? l)%N eqn:E; [|now apply Hv].
      apply N.eqb_eq in E. subst l0.
      apply (nview_perm (on_body (body s) l) (fun e => body s (e_pos e) = l)); [intro e; apply on_body_true | apply (vi_uniq _ _ _ V)|].
      apply Hg; [now left | exact Hl].
    - destruct (l0 =? 0)%N eqn:E0; [exact H0|]. rewrite nget_aput, E0. exact H0. }
  destruct (Hinv (lbl s) (vi_label _ _ _ V) (vi_label0 _ _ _ V)) as [Hv H0].
  constructor; cbn [blk tgs lbl cnt body]; try apply V; auto.
  intros i l Hl. rewrite (vi_count _ _ _ V i l Hl).
  assert (P1 : Permutation (nget (lbl s) l) (map nr (filter (on_body (body s) l) G))).
  { apply (nview_perm (on_body (body s) l) (fun e => body s (e_pos e) = l)); [intro e; apply on_body_true | apply (vi_uniq _ _ _ V) | now apply (vi_label _ _ _ V)]. }
  assert (P2 : Permutation (nget (fold_left (fun acc le => if (fst le =? 0)%N then acc else aput (fst le) (snd le) acc) ls (lbl s)) l) (map nr (filter (on_body (body s) l) G))).
  { apply (nview_perm (on_body (body s) l) (fun e => body s (e_pos e) = l)); [intro e; apply on_body_true | apply (vi_uniq _ _ _ V) | now apply Hv]. }
  rewrite (count_idx_perm i _ _ P1), (count_idx_perm i _ _ P2). reflexivity.
Qed.

(* one request or label event *)
Lemma viewsI_step bs G s o :
  ViewsI bs G s -> guard bs G (body s) o ->
  ViewsI bs (gstep bs o G) (step_or_stay fixed bs o s)
  /\ body (step_or_stay fixed bs o s) = body_after bs o (body s)
  /\ step fixed bs o s <> Panic.
Proof.
  intros V Hg. unfold step_or_stay. destruct o as [ord es|p|f t|bl|ls|t m|t c incl|o n bls inspl|b pv d|b d].
  - cbn [step gstep body_after]. destruct Hg as [ND Hord]. destruct (elems_ok es) eqn:Hok.
    + destruct (post_views bs G s ord es V ND Hord Hok) as [s' [E [Eb V']]]. rewrite E. split; [exact V' | split; [exact Eb | discriminate]].
    + unfold store_elements. cbn [fx_valid fixed]. rewrite Hok. cbn [negb andb]. split; [exact V | split; [reflexivity | discriminate]].
  - cbn [step gstep body_after]. destruct (delete_views bs G s p V Hg) as [[E1 E2]|[E1 [s' [E2 [Eb V']]]]]; rewrite E1, E2.
    + split; [exact V | split; [reflexivity | discriminate]].
    + split; [exact V' | split; [exact Eb | discriminate]].
  - exact (move_views bs G s f t V Hg).
  - exact (reload_views bs G s bl V Hg).
  - cbn [step gstep body_after]. split; [exact (post_labels_views bs G s ls V Hg) | split; [reflexivity | discriminate]].
  - destruct (merge_views bs G s t m V Hg) as [s' [E [Eb V']]]. rewrite E. cbn [gstep]. split; [exact V' | split; [exact Eb | discriminate]].
  - destruct (cleave_views bs G s t c incl V Hg) as [s' [E [Eb V']]]. rewrite E. cbn [gstep]. split; [exact V' | split; [exact Eb | discriminate]].
  - destruct (split_views bs G s o n bls inspl V Hg) as [s' [E [Eb V']]]. rewrite E. cbn [gstep]. split; [exact V' | split; [exact Eb | discriminate]].
  - destruct (mutate_views bs G s b pv d V Hg) as [s' [E [Eb V']]]. rewrite E. cbn [gstep]. split; [exact V' | split; [exact Eb | discriminate]].
  - destruct (ingest_views bs G s b d V Hg) as [s' [E [Eb V']]]. rewrite E. cbn [gstep]. split; [exact V' | split; [exact Eb | discriminate]].
Qed.

Theorem views_step bs G s o :
  Views bs G s -> guard bs G (body s) o ->
  Views bs (gstep bs o G) (step_or_stay fixed bs o s)
  /\ body (step_or_stay fixed bs o s) = body_after bs o (body s)
  /\ step fixed bs o s <> Panic.
Proof.
  intros V Hg. apply views_iff in V. destruct (viewsI_step bs G s o V Hg) as [V' [Eb Hp]].
  split; [now apply views_iff | auto].
Qed.

Lemma run_cons c bs o h s : run c bs (o :: h) s = run c bs h (step_or_stay c bs o s).
Proof. reflexivity. Qed.
Lemma grun_cons bs o h G : grun bs (o :: h) G = grun bs h (gstep bs o G).
Proof. reflexivity. Qed.

Theorem views_history bs h : forall G s,
  Views bs G s -> valid bs G (body s) h -> Views bs (grun bs h G) (run fixed bs h s).
Proof.
  induction h as [|o h IH]; intros G s V Hv; [exact V|].
  cbn [valid] in Hv. destruct Hv as [Hg Hv]. rewrite run_cons, grun_cons.
  destruct (views_step bs G s o V Hg) as [V' [Eb _]]. apply IH; [exact V'|]. now rewrite Eb.
Qed.

(* no request of a valid history panics *)
Theorem history_no_panic bs h1 : forall G s o h2,
  Views bs G s -> valid bs G (body s) (h1 ++ o :: h2) -> step fixed bs o (run fixed bs h1 s) <> Panic.
Proof.
  induction h1 as [|o1 h1 IH]; intros G s o h2 V Hv; cbn [app] in Hv; cbn [valid] in Hv; destruct Hv as [Hg Hv].
  - cbn. now destruct (views_step bs G s o V Hg) as [_ [_ Hp]].
  - rewrite run_cons. destruct (views_step bs G s o1 V Hg) as [V' [Eb _]].
    apply (IH (gstep bs o1 G) _ o h2 V'). now rewrite Eb.
Qed.

(* ---------- relationships of partners after delete / move ---------- *)
Lemma refs_mv_rel_to f t e : refs f e = true -> refs t (mv_rel f t e) = true.
Proof.
  intro H. apply refs_true in H as [r [Hr Er]]. apply refs_true. exists (fst r, t). split; [|reflexivity].
  unfold mv_rel. cbn. apply in_map_iff. exists r. split; [|exact Hr]. rewrite <- Er, pos_eqb_refl. reflexivity.
Qed.
Lemma refs_mv_rel_from f t e : f <> t -> refs f (mv_rel f t e) = false.
Proof.
  intro Hne. apply not_true_is_false. intro H. apply refs_true in H as [r [Hr Er]]. unfold mv_rel in Hr. cbn in Hr.
  apply in_map_iff in Hr as [r0 [E0 _]]. destruct (pos_eqb f (snd r0)) eqn:E.
  - subst r. cbn in Er. congruence.
  - subst r. apply pos_eqb_neq in E. congruence.
Qed.

Theorem delete_removes_references bs G s p :
  Views bs G s -> guard bs G (body s) (ODelete p) -> in_posb p G = true ->
  forall b x, In x (bget (blk (step_or_stay fixed bs (ODelete p) s)) b) -> refs p x = false.
Proof.
  intros V Hg Hin b x Hx. destruct (views_step bs G s (ODelete p) V Hg) as [V' _]. cbn [gstep] in V'. rewrite Hin in V'.
  apply views_iff in V'. apply (vi_block _ _ _ V') in Hx as [Hx _].
  unfold g_delete in Hx. apply in_map_iff in Hx as [y [<- _]]. apply del_rel_refs.
Qed.

Theorem move_updates_references bs G s f t :
  Views bs G s -> guard bs G (body s) (OMove f t) -> move_check f t G G = None ->
  forall q, In q G -> e_pos q <> f -> refs f q = true ->
  exists q', In q' (bget (blk (step_or_stay fixed bs (OMove f t) s)) (blockOf bs (e_pos q)))
             /\ e_pos q' = e_pos q /\ refs t q' = true /\ refs f q' = false.
Proof.
  intros V Hg Hchk q Hq Hqf Hr. destruct (views_step bs G s (OMove f t) V Hg) as [V' _]. cbn [gstep] in V'. rewrite Hchk in V'.
  apply views_iff in V'.
  assert (Hft : f <> t).
  { unfold move_check in Hchk. destruct (find (has_pos f) G); [|discriminate].
    destruct (pos_eqb f t) eqn:E; [discriminate | now apply pos_eqb_neq]. }
  exists (phi f t q). unfold phi. rewrite (repos_other f t q Hqf). split; [|split; [reflexivity|split]].
  - apply (vi_block _ _ _ V'). split; [|reflexivity]. rewrite g_move_map. apply in_map_iff. exists q. split; [|exact Hq].
    unfold phi. now rewrite (repos_other f t q Hqf).
  - now apply refs_mv_rel_to.
  - now apply refs_mv_rel_from.
Qed.

(* a rejected request changes nothing, whatever it contains *)
Theorem rejected_is_noop bs o s : step fixed bs o s = Err -> step_or_stay fixed bs o s = s.
Proof. intro E. unfold step_or_stay. now rewrite E. Qed.
Theorem ill_formed_post_rejected bs ord es s : elems_ok es = false -> step fixed bs (OPost ord es) s = Err.
Proof. intro H. cbn [step]. unfold store_elements. cbn [fx_valid fixed]. now rewrite H. Qed.
Theorem ill_formed_blocks_rejected bs bl s : blocks_ok bs bl = false -> step fixed bs (OReload bl) s = Err.
Proof. intro H. cbn [step]. unfold reload. cbn [fx_valid fixed]. now rewrite H. Qed.
Theorem bad_move_rejected bs G s f t : Views bs G s ->
  (exists r, move_check f t G G = Some r /\ r <> Ok tt) -> step fixed bs (OMove f t) s = Err.
Proof.
  intros V [r [H Hr]]. apply views_iff in V. cbn [step]. unfold move_element. cbn [fx_valid fixed].
  rewrite (move_check_views bs G s f t V), H. destruct r as [[]| |]; [congruence | reflexivity | reflexivity].
Qed.

(* ---------- block arithmetic ---------- *)
Theorem block_is_floor bs p : bs_ok bs ->
  blockOf bs p = (pX p / pX bs, pY p / pY bs, pZ p / pZ bs)
  /\ inChunk bs p = (pX p mod pX bs, pY p mod pY bs, pZ p mod pZ bs).
Proof.
  intros [Hx [Hy Hz]]. unfold blockOf, inChunk. now rewrite !chunk1_floor, !inchunk1_mod.
Qed.

(* ---------- the code as found ---------- *)
Definition bs16 : pos := (16, 16, 16).
Definition slabs (p : pos) : N := if pX p <? 8 then 1%N else 2%N.
Definition eN (p : pos) (k : N) (tags : list N) : elem := mkE p k tags [] 0.
Definition b000 : pos := (0, 0, 0).

Ltac finlist := repeat match goal with
                       | H : In _ (_ :: _) |- _ => destruct H as [H|H]; [subst|]
                       | H : In _ [] |- _ => destruct H
                       end.
Ltac nd := repeat (apply NoDup_cons; [cbn; intuition congruence|]); apply NoDup_nil.
Ltac post_guard := split; [nd | intros e He; finlist; vm_compute; auto].

(* 1. one element drops tag 7 while another element of the same block carries it: nil-map write *)
Definition h_tag : list op := [OPost [b000] [eN (9,1,1) 4 [7%N]]].
Definition o_tag : op := OPost [b000] [eN (9,1,1) 4 []; eN (10,1,1) 4 [7%N]].
Lemma valid_tag : valid bs16 [] slabs (h_tag ++ [o_tag]).
Proof. cbn [h_tag o_tag app valid guard]. split; [post_guard | split; [post_guard | exact I]]. Qed.
Lemma impl_tag_panic : step impl bs16 o_tag (run impl bs16 h_tag (init slabs)) = Panic.
Proof. vm_compute. reflexivity. Qed.

(* 2. a move inside one body leaves the old position in that body's list *)
Definition h_move : list op := [OPost [b000] [eN (1,2,2) 2 []]; OMove (1,2,2) (3,2,2)].
Lemma valid_move : valid bs16 [] slabs h_move.
Proof.
  cbn [h_move valid guard]. split; [post_guard | split; [|exact I]].
  intros e q He _ Hq Hr. vm_compute in Hq. destruct Hq as [Hq|[]]. subst q. vm_compute in Hr. discriminate.
Qed.
Lemma impl_move_breaks : ~ Views bs16 (grun bs16 h_move []) (run impl bs16 h_move (init slabs)).
Proof.
  intro V. pose proof (v_label _ _ _ V 1%N ltac:(discriminate)) as P. vm_compute in P.
  apply Permutation_length_1_inv in P. discriminate.
Qed.

(* 3. overwriting an element with another kind leaves the per-kind counts as they were *)
Definition h_kind : list op := [OPost [b000] [eN (1,2,2) 2 []]; OPost [b000] [eN (1,2,2) 1 []]].
Lemma valid_kind : valid bs16 [] slabs h_kind.
Proof. cbn [h_kind valid guard]. split; [post_guard | split; [post_guard | exact I]]. Qed.
Lemma impl_kind_breaks : ~ Views bs16 (grun bs16 h_kind []) (run impl bs16 h_kind (init slabs)).
Proof.
  intro V. pose proof (v_count _ _ _ V n_sz_PreSyn 1%N ltac:(discriminate)) as P. vm_compute in P. discriminate.
Qed.

(* 4. labelsz reload counts notes as synaptic elements *)
Definition h_allsyn : list op := [OPost [b000] [eN (1,2,2) 4 []]; OReload []].
Lemma valid_allsyn : valid bs16 [] slabs h_allsyn.
Proof. cbn [h_allsyn valid guard]. split; [post_guard | split; [constructor | exact I]]. Qed.
Lemma impl_allsyn_breaks : ~ Views bs16 (grun bs16 h_allsyn []) (run impl bs16 h_allsyn (init slabs)).
Proof.
  intro V. pose proof (v_count _ _ _ V n_sz_AllSyn 1%N ltac:(discriminate)) as P. vm_compute in P. discriminate.
Qed.

Lemma unrepaired_refuted :
  (exists h o, valid bs16 [] slabs (h ++ [o]) /\ step impl bs16 o (run impl bs16 h (init slabs)) = Panic)
  /\ (exists h, valid bs16 [] slabs h /\ ~ Views bs16 (grun bs16 h []) (run impl bs16 h (init slabs))
               /\ Views bs16 (grun bs16 h []) (run fixed bs16 h (init slabs))).
Proof.
  split.
  - exists h_tag, o_tag. split; [exact valid_tag | exact impl_tag_panic].
  - exists h_move. split; [exact valid_move|]. split; [exact impl_move_breaks|].
    apply views_history; [apply views_init | exact valid_move].
Qed.
