(* Proofs.LabelMapReads: in a consistent state the read endpoints are functions of the scan of the
   stored voxels through the mapping, and voxels are conserved. *)
From DV Require Import Base.Prelude Model.Index Model.LabelMap Proofs.Index Proofs.LabelMap.
From Coq Require Import ZifyN ZifyNat ZifyBool.
Local Open Scope N_scope.

(* ---------- finite sums ---------- *)
Definition sumf {A} (f : A -> N) (l : list A) : N := fold_right (fun x acc => f x + acc) 0 l.

Lemma sumf_app {A} (f : A -> N) a b : sumf f (a ++ b) = sumf f a + sumf f b.
Proof. unfold sumf. induction a as [|x r IH]; simpl; [reflexivity | rewrite IH; lia]. Qed.

Lemma sumf_ext {A} (f g : A -> N) l : (forall x, In x l -> f x = g x) -> sumf f l = sumf g l.
Proof.
  unfold sumf. induction l as [|x r IH]; intro H; simpl; [reflexivity|].
  rewrite (H x (or_introl eq_refl)), IH; [reflexivity | intros; apply H; now right].
Qed.

Lemma sumf_add {A} (f g : A -> N) l : sumf (fun x => f x + g x) l = sumf f l + sumf g l.
Proof. unfold sumf. induction l as [|x r IH]; simpl; [reflexivity | rewrite IH; lia]. Qed.

Lemma sumf_map {A B} (f : B -> N) (g : A -> B) l : sumf f (map g l) = sumf (fun x => f (g x)) l.
Proof. unfold sumf. induction l as [|x r IH]; simpl; [reflexivity | now rewrite IH]. Qed.

Lemma sumf_zero {A} (f : A -> N) l : (forall x, In x l -> f x = 0) -> sumf f l = 0.
Proof.
  unfold sumf. induction l as [|x r IH]; intro H; simpl; [reflexivity|].
  rewrite (H x (or_introl eq_refl)), IH; [reflexivity | intros; apply H; now right].
Qed.

(* a sum with a single point of the (duplicate free) list singled out *)
Lemma sumf_point {A} (eqb : A -> A -> bool) (H : forall a b, eqb a b = true <-> a = b)
      (k0 : A) (c : N) (l : list A) :
  NoDup l -> sumf (fun k => if eqb k k0 then c else 0) l = if existsb (fun k => eqb k k0) l then c else 0.
Proof.
  unfold sumf. induction l as [|x r IH]; intro ND; simpl; [reflexivity|].
  inversion ND as [|? ? Hn ND']; subst. rewrite (IH ND').
  destruct (eqb x k0) eqn:E; simpl.
  - apply H in E; subst x. destruct (existsb (fun k => eqb k k0) r) eqn:X; [|lia].
    apply existsb_exists in X as [y [Hy Ey]]. apply H in Ey; subst. contradiction.
  - destruct (existsb (fun k => eqb k k0) r); lia.
Qed.

(* ---------- NumVoxels as a sum over any key list that covers the index ---------- *)
Lemma key_eqb_sym a b : key_eqb a b = key_eqb b a.
Proof. apply (eqb_sym key_eqb key_eqb_eq). Qed.

Lemma cnt_cons e (r : index) b s :
  cnt (e :: r) b s = if key_eqb (b, s) (fst e) then snd e else cnt r b s.
Proof. destruct e as [k c]. unfold cnt; simpl. now destruct (key_eqb (b, s) k). Qed.

Lemma num_voxels_cons e (r : index) : num_voxels (e :: r) = snd e + num_voxels r.
Proof. reflexivity. Qed.

Lemma num_voxels_sum (i : index) : forall K,
  NoDup K -> NoDup (keys_of i) -> (forall k, In k (keys_of i) -> In k K) ->
  sumf (fun k => cnt i (fst k) (snd k)) K = num_voxels i.
Proof.
  induction i as [|e r IH]; intros K NDK NDi Hsub.
  - apply sumf_zero. intros; reflexivity.
  - unfold keys_of in *. simpl in NDi. inversion NDi as [|? ? Hn NDr]; subst.
    rewrite num_voxels_cons. rewrite <- (IH K NDK NDr); [|intros; apply Hsub; now right].
    rewrite (sumf_ext _ (fun k => (if key_eqb k (fst e) then snd e else 0) + (if key_eqb k (fst e) then 0 else cnt r (fst k) (snd k)))).
    2: { intros [b s] _. rewrite cnt_cons. simpl. destruct (key_eqb (b, s) (fst e)); lia. }
    rewrite sumf_add. rewrite (sumf_point key_eqb key_eqb_eq (fst e) (snd e) K NDK).
    assert (existsb (fun k => key_eqb k (fst e)) K = true) as X.
    { apply existsb_exists. exists (fst e). split; [apply Hsub; now left | now apply key_eqb_eq]. }
    rewrite X. f_equal. apply sumf_ext. intros [b s] _. simpl.
    destruct (key_eqb (b, s) (fst e)) eqn:E; [|reflexivity].
    apply key_eqb_eq in E. unfold cnt. rewrite E.
    now rewrite (proj2 (aget_None_notin key_eqb key_eqb_eq (fst e) r) Hn).
Qed.

(* ---------- counting voxels ---------- *)
Definition countP (p : N -> bool) (arr : list N) : N :=
  fold_right (fun x acc => if p x then 1 + acc else acc) 0 arr.

Lemma countP_cons p x r : countP p (x :: r) = if p x then 1 + countP p r else countP p r.
Proof. reflexivity. Qed.

(* sum over the distinct labels of an array = sum over its voxels *)
Lemma sum_occ_countP (p : N -> bool) arr : forall L,
  NoDup L -> (forall x, In x arr -> In x L) ->
  sumf (fun s => if p s then occ arr s else 0) L = countP p arr.
Proof.
  induction arr as [|x r IH]; intros L ND Hsub.
  - apply sumf_zero. intros s _. rewrite occ_nil. now destruct (p s).
  - rewrite countP_cons, <- (IH L ND) by (intros; apply Hsub; now right).
    rewrite (sumf_ext _ (fun s => (if s =? x then (if p x then 1 else 0) else 0) + (if p s then occ r s else 0))).
    2: { intros s _. rewrite occ_cons, (N.eqb_sym x s). destruct (s =? x) eqn:E.
         - apply N.eqb_eq in E; subst. destruct (p x); lia.
         - destruct (p s); lia. }
    rewrite sumf_add, (sumf_point N.eqb N.eqb_eq x _ L ND).
    assert (existsb (fun k => k =? x) L = true) as X.
    { apply existsb_exists. exists x. split; [apply Hsub; now left | apply N.eqb_refl]. }
    rewrite X. destruct (p x); lia.
Qed.

(* ---------- the scan ---------- *)
(* voxels of body l in the whole stored volume *)
Definition scan_size (st : fstate) (l : N) : N :=
  sumf (fun ba => countP (fun x => negb (x =? 0) && (mapped (f_map st) x =? l)) (snd ba)) (f_vox st).

Definition all_keys (vx : list (N * list N)) : list key :=
  flat_map (fun ba => map (fun s => (fst ba, s)) (nodupN (snd ba))) vx.

Lemma in_all_keys vx b s : In (b, s) (all_keys vx) <-> exists arr, In (b, arr) vx /\ In s arr.
Proof.
  unfold all_keys. rewrite in_flat_map. split.
  - intros [[b' arr] [Hin H]]. simpl in H. apply in_map_iff in H as [s' [E Hs]]. inversion E; subst.
    exists arr. split; [exact Hin | now apply (proj1 (nodupN_In _ _))].
  - intros [arr [Hin Hs]]. exists (b, arr). split; [exact Hin|]. simpl. apply in_map_iff.
    exists s. split; [reflexivity | now apply (proj2 (nodupN_In _ _))].
Qed.

Lemma nodup_all_keys vx : NoDup (map fst vx) -> NoDup (all_keys vx).
Proof.
  unfold all_keys. induction vx as [|[b arr] r IH]; simpl; intro ND; [constructor|].
  inversion ND as [|? ? Hn ND']; subst. apply NoDup_app_intro.
  - pose proof (nodupN_NoDup arr) as Na. induction (nodupN arr) as [|x t IHt]; simpl; [constructor|].
    inversion Na; subst. constructor; [|auto]. intro H. apply in_map_iff in H as [y [E Hy]]. inversion E; subst. contradiction.
  - now apply IH.
  - intros [b' s] H1 H2. apply in_map_iff in H1 as [s' [E _]]. inversion E; subst.
    apply in_flat_map in H2 as [[b2 arr2] [Hin H2]]. simpl in H2. apply in_map_iff in H2 as [s2 [E2 _]].
    inversion E2; subst. apply Hn. apply in_map_iff. now exists (b', arr2).
Qed.

Lemma occ_pos_in arr s : 0 < occ arr s -> In s arr.
Proof.
  induction arr as [|x r IH]; [rewrite occ_nil; lia|]. rewrite occ_cons.
  destruct (x =? s) eqn:E; [apply N.eqb_eq in E; subst; now left | intro H; right; auto].
Qed.

Lemma scan_keys_sum (P : N -> bool) (vc : N -> N -> N) vx :
  (forall b arr, In (b, arr) vx -> forall s, vc b s = occ arr s) ->
  sumf (fun k => if P (snd k) then vc (fst k) (snd k) else 0) (all_keys vx)
  = sumf (fun ba => countP P (snd ba)) vx.
Proof.
  unfold all_keys. induction vx as [|[b arr] r IH]; intro Hv; simpl; [reflexivity|].
  rewrite sumf_app, IH by (intros; eapply Hv; right; eassumption).
  f_equal. rewrite sumf_map.
  rewrite <- (sum_occ_countP P arr (nodupN arr) (nodupN_NoDup arr)) by (intros; now apply (proj2 (nodupN_In _ _))).
  apply sumf_ext. intros s _. simpl. now rewrite (Hv b arr (or_introl eq_refl) s).
Qed.

Theorem size_is_scan st l :
  Consistent st -> NoDup (map fst (f_vox st)) -> o_size st l = scan_size st l.
Proof.
  intros C ND. unfold o_size, scan_size.
  set (P := fun x => negb (x =? 0) && (mapped (f_map st) x =? l)).
  assert (forall b arr, In (b, arr) (f_vox st) -> forall s, vcount st b s = occ arr s) as Hv.
  { intros b arr Hin s. unfold vcount. now rewrite (in_aget_nodup N.eqb N.eqb_eq b arr (f_vox st) ND Hin). }
  pose proof (scan_keys_sum P (vcount st) (f_vox st) Hv) as Hs.
  rewrite <- Hs. destruct (get_idx st l) as [i|] eqn:G.
  - destruct (c_wf st C l i G) as [[NDi Pi] _]. rewrite Forall_forall in Pi.
    rewrite <- (num_voxels_sum i (all_keys (f_vox st)) (nodup_all_keys _ ND) NDi).
    + apply sumf_ext. intros [b s] _. simpl. apply (consistent_cnt st l i b s C G).
    + intros [b s] Hk. apply in_map_iff in Hk as [[k c] [E Hin]]. simpl in E; subst k.
      assert (0 < cnt i b s) as Hp.
      { unfold cnt. rewrite (in_aget_nodup key_eqb key_eqb_eq (b, s) c i NDi Hin). apply (Pi _ Hin). }
      rewrite (consistent_cnt st l i b s C G) in Hp.
      destruct (negb (s =? 0) && (mapped (f_map st) s =? l)); [|lia].
      unfold vcount in Hp. destruct (aget N.eqb b (f_vox st)) as [arr|] eqn:A; [|lia].
      apply in_all_keys. exists arr. split; [now apply (aget_Some_in N.eqb N.eqb_eq) | now apply occ_pos_in].
  - symmetry. apply sumf_zero. intros [b s] _. simpl.
    pose proof (c_cnt st C l b s) as E. unfold icnt in E. rewrite G in E. fold (P s) in E. symmetry. exact E.
Qed.

(* ---------- body sizes sum to the non-zero voxel count ---------- *)
Lemma sumf_swap {A B} (f : A -> B -> N) la lb :
  sumf (fun a => sumf (fun b => f a b) lb) la = sumf (fun b => sumf (fun a => f a b) la) lb.
Proof.
  induction la as [|a r IH]; simpl.
  - symmetry. apply sumf_zero. intros; reflexivity.
  - rewrite IH. rewrite <- sumf_add. reflexivity.
Qed.

Lemma countP_partition (body : N -> N) (Ls : list N) arr :
  NoDup Ls -> (forall x, In x arr -> x <> 0 -> In (body x) Ls) ->
  sumf (fun l => countP (fun x => negb (x =? 0) && (body x =? l)) arr) Ls = countP (fun x => negb (x =? 0)) arr.
Proof.
  intros ND Hin. induction arr as [|x r IH].
  - apply sumf_zero. intros; reflexivity.
  - rewrite countP_cons, <- IH by (intros; apply Hin; [now right | assumption]).
    rewrite (sumf_ext _ (fun l => (if l =? body x then (if negb (x =? 0) then 1 else 0) else 0)
                                  + countP (fun y => negb (y =? 0) && (body y =? l)) r)).
    2: { intros l _. rewrite countP_cons, (N.eqb_sym (body x) l). destruct (negb (x =? 0)); cbn [andb]; destruct (l =? body x); lia. }
    rewrite sumf_add, (sumf_point N.eqb N.eqb_eq (body x) _ Ls ND).
    destruct (negb (x =? 0)) eqn:E; [|destruct (existsb _ Ls); lia].
    assert (existsb (fun k => k =? body x) Ls = true) as X.
    { apply existsb_exists. exists (body x). split; [|apply N.eqb_refl].
      apply Hin; [now left|]. apply negb_true_iff in E. now apply N.eqb_neq. }
    rewrite X. lia.
Qed.

Definition nonzero_voxels (st : fstate) : N :=
  sumf (fun ba => countP (fun x => negb (x =? 0)) (snd ba)) (f_vox st).

Theorem sizes_sum_to_voxels st Ls :
  Consistent st -> NoDup (map fst (f_vox st)) -> NoDup Ls ->
  (forall b arr x, In (b, arr) (f_vox st) -> In x arr -> x <> 0 -> In (mapped (f_map st) x) Ls) ->
  sumf (o_size st) Ls = nonzero_voxels st.
Proof.
  intros C ND NDl Hin.
  rewrite (sumf_ext (o_size st) (scan_size st)) by (intros; now apply size_is_scan).
  unfold scan_size, nonzero_voxels. rewrite sumf_swap. apply sumf_ext. intros [b arr] Hb. simpl.
  apply countP_partition; [exact NDl|]. intros x Hx Hx0. now apply (Hin b arr x Hb Hx Hx0).
Qed.

(* ---------- supervoxel sets, sparse volumes and point reads ---------- *)
Theorem supervoxels_is_scan st l s :
  Consistent st ->
  In s (o_supervoxels st l) <-> s <> 0 /\ mapped (f_map st) s = l /\ exists b, 0 < vcount st b s.
Proof.
  intro C. unfold o_supervoxels. destruct (get_idx st l) as [i|] eqn:G.
  - rewrite <- memN_In, sv_in_supervoxels. split.
    + intro H. destruct (consistent_sv_in st l i s C G H) as [H0 Hm]. split; [exact H0|]. split; [exact Hm|].
      destruct (sv_in_pos i s (proj1 (c_wf st C l i G)) H) as [b Hb]. exists b.
      rewrite (consistent_cnt st l i b s C G), Hm, N.eqb_refl, (N_eqb_neq s 0 H0) in Hb. exact Hb.
    + intros (H0 & Hm & b & Hb). apply (cnt_pos_in i b s).
      now rewrite (consistent_cnt st l i b s C G), Hm, N.eqb_refl, (N_eqb_neq s 0 H0).
  - split; [intros []|]. intros (H0 & Hm & b & Hb).
    rewrite (consistent_no_idx st l b s C G H0 Hm) in Hb. lia.
Qed.

Lemma nth_error_occ arr i s : nth_error arr i = Some s -> 0 < occ arr s.
Proof.
  revert i. induction arr as [|x r IH]; intros [|i] H; simpl in H; try discriminate.
  - inversion H; subst. rewrite occ_cons, N.eqb_refl. lia.
  - rewrite occ_cons. specialize (IH i H). destruct (x =? s); lia.
Qed.

(* a voxel is in the sparse volume of body l exactly when its supervoxel maps to l *)
Theorem sparse_is_scan st l b i :
  Consistent st ->
  o_sparse st l b i = match aget N.eqb b (f_vox st) with
                      | Some arr => match nth_error arr i with
                                    | Some sv => negb (sv =? 0) && (mapped (f_map st) sv =? l)
                                    | None => false
                                    end
                      | None => false
                      end.
Proof.
  intro C. unfold o_sparse. destruct (aget N.eqb b (f_vox st)) as [arr|] eqn:A.
  2: { destruct (get_idx st l); [now rewrite andb_false_r | reflexivity]. }
  destruct (nth_error arr i) as [sv|] eqn:E.
  2: { destruct (get_idx st l); [now rewrite andb_false_r | reflexivity]. }
  destruct (sv =? 0) eqn:E0; [destruct (get_idx st l); [now rewrite andb_false_r | reflexivity]|].
  apply N.eqb_neq in E0. cbn [negb andb].
  assert (0 < vcount st b sv) as Hp by (unfold vcount; rewrite A; now apply (nth_error_occ arr i)).
  destruct (get_idx st l) as [idx|] eqn:G.
  - pose proof (consistent_cnt st l idx b sv C G) as Cc. rewrite (N_eqb_neq sv 0 E0) in Cc. cbn [negb andb] in Cc.
    destruct (mapped (f_map st) sv =? l) eqn:Em.
    + assert (0 < cnt idx b sv) as Hc by lia. rewrite (cnt_pos_in idx b sv Hc), andb_true_r.
      destruct (block_in idx b) eqn:Bi; [reflexivity|]. rewrite (block_in_false_cnt idx b sv Bi) in Hc. lia.
    + destruct (sv_in idx sv) eqn:S; [|now rewrite andb_false_r].
      destruct (consistent_sv_in st l idx sv C G S) as [_ Hm]. rewrite Hm, N.eqb_refl in Em. discriminate.
  - destruct (mapped (f_map st) sv =? l) eqn:Em; [|reflexivity]. apply N.eqb_eq in Em.
    rewrite (consistent_no_idx st l b sv C G E0 Em) in Hp. lia.
Qed.

(* ---------- no voxel is lost, duplicated, in two bodies or in a body that no longer exists ---------- *)
Theorem voxel_in_one_body st b s :
  Consistent st -> s <> 0 -> 0 < vcount st b s ->
  let l := mapped (f_map st) s in
  l <> 0 /\ (exists idx, get_idx st l = Some idx /\ cnt idx b s = vcount st b s) /\
  forall l', l' <> l -> icnt st l' b s = 0.
Proof.
  intros C H0 Hp l. split; [|split].
  - intro Hl. pose proof (consistent_no_idx st 0 b s C (c_zero st C) H0 Hl). lia.
  - destruct (get_idx st l) as [idx|] eqn:G.
    + exists idx. split; [reflexivity|]. rewrite (consistent_cnt st l idx b s C G).
      unfold l. now rewrite N.eqb_refl, (N_eqb_neq s 0 H0).
    + pose proof (consistent_no_idx st l b s C G H0 eq_refl). lia.
  - intros l' Hl'. rewrite (c_cnt st C l' b s). fold l. rewrite (N_eqb_neq l l') by congruence. now rewrite andb_false_r.
Qed.

(* merge, cleave and renumber do not touch a voxel *)
Theorem voxels_untouched fx aggl st o st' :
  match o with OMerge _ _ | OCleave _ _ _ | ORenumber _ _ | OPutIndex _ _ | OPutMappings _ => True | _ => False end ->
  fstep fx aggl st o = Ok st' -> f_vox st' = f_vox st.
Proof.
  destruct o; simpl; intros G H; try contradiction.
  - apply Ok_inj in H; now subst.
  - apply Ok_inj in H; now subst.
  - unfold f_merge in H. destruct (nodupN merged); [discriminate|].
    destruct (fx_reject fx && memN target (n :: l)); [discriminate|].
    destruct (all_idx st (n :: l)); [|discriminate]. destruct (get_idx st target); [|discriminate].
    destruct (idx_add_all [] l0) as [mi| |]; try discriminate. destruct (num_voxels mi =? 0); [discriminate|].
    destruct (idx_add i mi); try discriminate. apply Ok_inj in H; now subst.
  - unfold f_cleave in H. destruct (get_idx st body); [|discriminate].
    destruct (negb (nodupb svs) || negb (forallb (sv_in i) svs)); [discriminate|].
    destruct (forallb (fun s => memN s svs) (supervoxels i)); [discriminate|].
    destruct svs; [destruct (fx_reject fx); [discriminate | apply Ok_inj in H; now subst]|].
    destruct (idx_cleave i (n :: svs)) as [[[? ?] ?] ?].
    apply Ok_inj in H; now subst.
  - unfold f_renumber in H. destruct (fx_reject fx && ((new =? 0) || (old =? 0))); [discriminate|].
    destruct (ahas N.eqb new (f_idx st)); [discriminate|].
    match type of H with (if ?c then _ else _) = _ => destruct c end; [discriminate|].
    destruct (get_idx st old); [|discriminate]. apply Ok_inj in H; now subst.
Qed.

(* split-supervoxel only relabels voxels of the split supervoxel, to one of its two new ids *)
Lemma relabel_sv_pointwise arr : forall mask sv split remain,
  Forall2 (fun x y => x = y \/ (x = sv /\ (y = split \/ y = remain))) arr (relabel_sv arr mask sv split remain).
Proof.
  induction arr as [|l r IH]; intros; cbn [relabel_sv]; constructor; [|apply IH].
  destruct (l =? sv) eqn:E; [|now left]. apply N.eqb_eq in E. right. split; [exact E|].
  destruct (match mask with b :: _ => b | [] => false end); auto.
Qed.

Lemma Forall2_refl_or (sv split remain : N) (arr : list N) :
  Forall2 (fun x y => x = y \/ (x = sv /\ (y = split \/ y = remain))) arr arr.
Proof. induction arr; constructor; auto. Qed.

Theorem splitsv_voxels st sv split remain masks rl st' b :
  f_splitsv st sv split remain masks rl = Ok st' ->
  match aget N.eqb b (f_vox st), aget N.eqb b (f_vox st') with
  | Some a, Some a' => Forall2 (fun x y => x = y \/ (x = sv /\ (y = split \/ y = remain))) a a'
  | None, None => True
  | _, _ => False
  end.
Proof.
  unfold f_splitsv. destruct (get_idx st (mapped (f_map st) sv)) as [idx|]; [|discriminate].
  destruct (sv_count idx sv <? sumN (map snd rl)); [discriminate|].
  destruct (split_sv_index idx sv split remain rl) as [idx'| |]; try discriminate.
  destruct (split_sv_blocks (f_vox st) (sv_blocks idx sv) sv split remain masks idx') as [vx'|] eqn:E; [|discriminate].
  intro H. apply Ok_inj in H; subst st'. cbn [f_vox].
  revert E. generalize (f_vox st) as vx. generalize (sv_blocks idx sv) as blks.
  induction blks as [|b0 r IH]; intros vx E; cbn [split_sv_blocks] in E.
  - inversion E; subst. destruct (aget N.eqb b vx'); [apply Forall2_refl_or | exact I].
  - destruct (aget N.eqb b0 vx) as [arr0|] eqn:A0; [|now apply IH].
    match type of E with (if ?c then _ else _) = _ => destruct c end; [|discriminate].
    specialize (IH _ E). rewrite aget_aset_N in IH. destruct (b =? b0) eqn:Eb; [|exact IH].
    apply N.eqb_eq in Eb; subst b0. rewrite A0.
    destruct (aget N.eqb b vx') as [a'|]; [|exact IH].
    (* compose: arr0 -> relabel arr0 -> a' *)
    pose proof (relabel_sv_pointwise arr0 (match aget N.eqb b masks with Some m => m | None => [] end) sv split remain) as R.
    clear - R IH. revert a' IH. induction R as [|x y l1 l2 Hxy R IHR]; intros a' IH; inversion IH; subst; constructor.
    + destruct Hxy as [->|[-> Hy]]; [assumption|].
      match goal with H : _ \/ _ |- _ => destruct H as [<-|[-> H']] end; [right; auto | right; auto].
    + now apply IHR.
Qed.
