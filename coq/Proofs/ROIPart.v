(* Proofs.ROIPart: the decidable tiling check evaluated on the partition reply means what it says. *)
From DV Require Import Base.Prelude Base.WrapZ Model.Geometry Model.ROI Model.ROIPart.
From Coq Require Import ZifyBool ZifyNat.
Local Open Scope Z_scope.

Lemma in_span_blocks s b : span_includes s b = true -> In b (span_blocks s).
Proof.
  unfold span_includes, span_blocks. destruct s as [z y x0 x1], b as [[bx by_] bz].
  unfold px, py, pz; cbn [sz sy sx0 sx1 fst snd]. intro H.
  apply in_map_iff. exists (Z.to_nat (bx - x0)). split; [|apply in_seq; lia].
  f_equal; [f_equal|]; lia.
Qed.

Lemma in_roi_blocks l b : in_spans b l = true -> In b (roi_blocks l).
Proof.
  unfold in_spans, roi_blocks. intro H. apply existsb_exists in H. destruct H as [s [Hs Hb]].
  apply in_flat_map. exists s. split; [exact Hs|apply in_span_blocks, Hb].
Qed.

(* tiles_ok: every block of the ROI has exactly one owner among the subvolumes *)
Lemma tiles_sound spans vs : tiles_ok spans vs = true ->
  forall b, in_spans b spans = true -> exists v, owners vs b = [v] /\ In v vs /\ box_has v b = true.
Proof.
  intros H b Hb. unfold tiles_ok in H. rewrite forallb_forall in H.
  specialize (H b (in_roi_blocks _ _ Hb)). apply Nat.eqb_eq in H.
  destruct (owners vs b) as [|v [|w t]] eqn:E; try discriminate.
  exists v. split; [reflexivity|].
  assert (I : In v (owners vs b)) by (rewrite E; left; reflexivity).
  unfold owners in I. apply filter_In in I. exact I.
Qed.

Lemma overlap_of_common v w b : box_has v b = true -> box_has w b = true -> box_overlap v w = true.
Proof. unfold box_has, box_overlap. lia. Qed.

(* boxes_disjointb: no block at all (active or not) lies in two subvolumes *)
Lemma disjoint_sound vs : boxes_disjointb vs = true -> forall b, (length (owners vs b) <= 1)%nat.
Proof.
  induction vs as [|v t IH]; intros H b; [cbn; lia|].
  cbn [boxes_disjointb] in H. apply andb_true_iff in H. destruct H as [Hv Ht].
  unfold owners in *. cbn [filter]. destruct (box_has v b) eqn:E; [|apply IH, Ht].
  assert (N : filter (fun w => box_has w b) t = []).
  { destruct (filter (fun w => box_has w b) t) as [|w r] eqn:F; [reflexivity|].
    assert (I : In w (filter (fun w => box_has w b) t)) by (rewrite F; left; reflexivity).
    apply filter_In in I. destruct I as [Iw Hw]. rewrite forallb_forall in Hv. specialize (Hv w Iw).
    rewrite (overlap_of_common v w b E Hw) in Hv. discriminate. }
  rewrite N. cbn. lia.
Qed.

Lemma counts_sound spans vs : counts_ok spans vs = true ->
  forall v, In v vs -> vtotal v = box_volume v
                       /\ vactive v = Z.of_nat (length (filter (box_has v) (roi_blocks spans))).
Proof.
  intros H v Hv. unfold counts_ok in H. rewrite forallb_forall in H. specialize (H v Hv). lia.
Qed.
