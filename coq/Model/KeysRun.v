(* Model.KeysRun: case type and executable checkers for Run/cases_C06.v (no proofs). *)
From DV Require Import Base.Prelude Base.Int Base.Lex Base.KeyShape Gen.Consts Gen.KeyLits Gen.KeyClasses
     Model.Keys Model.KV.
Local Open Scope N_scope.

Definition res_eqb {A} (eqb : A -> A -> bool) (a b : res A) : bool :=
  match a, b with
  | Ok x, Ok y => eqb x y
  | Err, Err => true
  | Panic, Panic => true
  | _, _ => false
  end.
Definition ids_eqb (a b : N * N * N) : bool :=
  let '(a1, a2, a3) := a in let '(b1, b2, b3) := b in (a1 =? b1) && (a2 =? b2) && (a3 =? b3).
Definition pair_eqb (a b : bytes * bytes) : bool := bytes_eqb (fst a) (fst b) && bytes_eqb (snd a) (snd b).
Definition opt_eqb {A} (eqb : A -> A -> bool) (a b : option A) : bool :=
  match a, b with Some x, Some y => eqb x y | None, None => true | _, _ => false end.
Definition store_eqb (a b : store) : bool := list_eqb pair_eqb a b.
Definition keys_eqb (a b : list bytes) : bool := list_eqb bytes_eqb a b.

(* 64-bit rolling digest used for the bulk grid (both sides compute it) *)
Definition digest_step (h b : N) : N := N.land (h * 1099511628211 + b + 1) 18446744073709551615.
Definition digest (h : N) (l : bytes) : N := fold_left digest_step l h.

(* the stored value is opaque to the key-level models: HTTP histories compare key sets only *)
Definition dummy : bytes := [].

(* one HTTP-level step on keyvalue instances living at one (uncommitted) version *)
Inductive hstep :=
| HNew (slot : nat) (go_id : N) (go_empty : bool)     (* create a keyvalue instance; observed instance id;
                                                         right after creation: no stored key under that id
                                                         (raw dump) and an empty keys listing *)
| HPost (slot : nat) (k body : bytes) (go_ok : bool)  (* POST key/k; did the server accept it (2xx)? *)
| HDel (slot : nat) (k : bytes) (go_ok : bool)        (* DELETE key/k *)
| HDrop (slot : nat)                                  (* datastore.DeleteDataByName, waited for *)
| HCrashDrop (slot : nat)                             (* the same, interrupted after the repo metadata was
                                                         saved: the instance is gone, its key-values are not *)
| HRestart                                            (* the datastore is closed and opened again *)
| HDropHeld (slot : nat)                              (* DeleteDataByName acknowledged; its deletion goroutine is
                                                         held before it removes the instance from the repo *)
| HTryNew (slot : nat) (go : option N)                (* create an instance under the name of the one being
                                                         deleted: refused (None) or accepted with this id *)
| HRelease.                                           (* the held deletion runs to its end (waited for) *)

(* what a client sees of one instance: its keys listing and, per key ever used, GET key/k *)
Definition view := (res (list bytes) * list (bytes * res (option bytes)))%type.

Inductive sop :=
| SPut (i v : N) (tk value : bytes)                   (* db.Put(VersionedCtx(i, v), tk, value) *)
| SDelete (i v : N) (tk : bytes)                      (* db.Delete(VersionedCtx(i, v), tk) *)
| SDeleteAllV (i : N)                                 (* db.DeleteAll(VersionedCtx(i, _)) *)
| SDropInstance (i : N)                               (* storage.DeleteDataInstance *)
| SGet (i v : N) (tk : bytes) (go : res (option bytes)).  (* db.Get(VersionedCtx(i, v), tk), every entry being at version v *)

Inductive c06case :=
(* DataContext(instance i, version v): ConstructKey(tk); UpdateDataKey(copy, i, v, c); parsers on the result;
   TombstoneKey, MinVersionKey, MaxVersionKey *)
| CKey (i v c : N) (tk : bytes) (go_key : bytes) (go_ids0 : res (N * N * N)) (go_upd : res bytes)
       (go_tk : res bytes) (go_ids : res (N * N * N)) (go_ver : res N)
       (go_tomb go_min go_max : bytes) (go_marks : bool * bool)
(* the same, keeping only the updated key and the ids parsed from it (bulk cube) *)
| CKeyLite (i v c : N) (tk : bytes) (go_upd : res bytes) (go_ids : res (N * N * N))
(* UpdateDataKey(copy of TombstoneKey(tk) under (i0, v0), i, v, c): the key stays a tombstone key *)
| CUpdTomb (i0 v0 i v c : N) (tk : bytes) (go : res bytes) (go_istomb : bool) (go_ids : res (N * N * N)) (go_tk : res bytes)
(* KeyRange, DataInstanceKeyRange, TKeyClassRange *)
| CRange (i cls : N) (go_kr go_dikr go_tcr : bytes * bytes)
(* parsers on arbitrary byte strings (None = nil slice); UpdateDataKey with ids (i, v, c) *)
| CParse (k : option bytes) (i v c : N) (go_tk : res bytes) (go_ids : res (N * N * N)) (go_ver : res N) (go_upd : res bytes)
(* datatype constructors: index into the class table, caller data, result, decode of the result *)
| CTKey (dt idx : nat) (d : bytes) (go : res bytes) (go_dec : res bytes)
(* storage.SplitKey(k) and, when it succeeded, storage.MergeKey of its two results *)
| CSplit (k : bytes) (go : res (bytes * bytes)) (go_merge : res bytes)
(* bulk grid: digests of ConstructKey / TombstoneKey / MinVersionKey / MaxVersionKey over grid^2 and of
   UpdateDataKey over grid^3 *)
| CDigest (grid : list N) (tk : bytes) (d_key d_tomb d_min d_max d_upd : N)
(* keys written in a random order to a real badger store; RawRangeQuery order over the data key space *)
| COrder (entries : list (N * bytes * N * N * N)) (go_keys : list bytes)
(* storage-level operations on a real badger store: raw dump before, steps, raw dump after *)
| CStore (before : store) (steps : list sop) (after : store)
(* HTTP-level history; final raw key dump; views of instance slot 1 before/after dropping slot 0;
   view of the re-created slot 0 *)
| CHist (version : N) (steps : list hstep) (go_keys : list bytes)
        (b_before b_after : view) (a_new : view)
(* delete an instance and re-create its name while the deletion is still pending, several rounds;
   afterwards (deletions finished): the views of the instances that must exist, by slot *)
| CRace (version : N) (steps : list hstep) (views : list (nat * view)).

(* ---- model side ---- *)

(* the generated tables in table order (Gen/KeyClasses.v, n_keyclass_tables); the caller data of a
   tarsupervoxels case is the 8 bytes of the supervoxel id followed by the extension *)
Definition class_table (dt : nat) (d : bytes) : list kclass * bytes :=
  match dt with
  | 0%nat => (keyclasses_keyvalue, d)
  | 1%nat => (keyclasses_neuronjson, d)
  | 2%nat => (keyclasses_annotation, d)
  | 3%nat => (keyclasses_labelmap, d)
  | 4%nat => (keyclasses_imageblk, d)
  | 5%nat => (keyclasses_imagetile, d)
  | 6%nat => (keyclasses_labelarray, d)
  | 7%nat => (keyclasses_labelblk, d)
  | 8%nat => (keyclasses_labelsz, d)
  | 9%nat => (keyclasses_labelvol, d)
  | 10%nat => (keyclasses_roi, d)
  | 11%nat => (keyclasses_tarsupervoxels (skipn 8 d), firstn 8 d)
  | _ => ([], d)
  end.

(* keyvalue.NewTKey with repo_patches/C06-4-fix: a key string containing byte 0 is refused *)
Definition tkey_checked (dt : nat) (kc : kclass) (d : bytes) : res bytes :=
  match dt, kc_shape kc with
  | 0%nat, KTerm t => if existsb (N.eqb t) d then Err else Ok (tkey_of kc d)
  | 2%nat, KTerm _ => match d with [] => Err | _ => Ok (tkey_of kc d) end   (* NewTagTKey: empty tag refused *)
  | _, _ => Ok (tkey_of kc d)
  end.

Definition model_store_step (s : store) (o : sop) : option store :=
  let cx i v := {| cx_instance := i; cx_version := v; cx_client := 0 |} in
  match o with
  | SPut i v tk value => Some (put (cx i v) tk value s)
  | SDelete i v tk => Some (delete (cx i v) tk s)
  | SDeleteAllV i => Some (delete_all_versioned i s)
  | SDropInstance i => Some (delete_data_instance i s)
  | SGet i v tk go =>
    (* every stored entry of tk is at version v: the read finds the data entry or nothing *)
    let ks := get_key_versions_exact i tk s in
    let dk := construct_data_key i v 0 tk in
    let want := if existsb (bytes_eqb dk) ks then
                  match kv_get dk s with
                  | Some val => Ok (Some val)         (* C05-1-fix: an empty stored value is a value *)
                  | None => Ok None
                  end
                else Ok None in
    if res_eqb (opt_eqb bytes_eqb) want go then Some s else None
  end.

Fixpoint model_store_run (s : store) (l : list sop) : option store :=
  match l with
  | [] => Some s
  | o :: r => match model_store_step s o with Some s' => model_store_run s' r | None => None end
  end.

(* HTTP history: slots name instances; the model is the manager machine of Model.KV *)
Fixpoint slot_get (slots : list (nat * N)) (n : nat) : option N :=
  match slots with
  | [] => None
  | (m, i) :: r => if Nat.eqb m n then Some i else slot_get r n
  end.

Definition has_nul (k : bytes) : bool := existsb (N.eqb 0) k.

Fixpoint model_hist (ver : N) (m : mgr) (slots : list (nat * N)) (l : list hstep) : option (mgr * list (nat * N)) :=
  match l with
  | [] => Some (m, slots)
  | st :: r =>
    match st with
    | HNew slot go_id go_empty =>
      match mgr_step m MNew with
      | Some m' =>
        match m_taken m' with
        | id :: _ =>
          if (id =? go_id) && Bool.eqb go_empty (negb (existsb (fun e => of_instance id (fst e)) (m_store m')))
          then model_hist ver m' ((slot, id) :: slots) r else None
        | [] => None
        end
      | None => None
      end
    | HPost slot k _ go_ok =>
      match slot_get slots slot with
      | Some i =>
        if has_nul k then (if go_ok then None else model_hist ver m slots r)
        else if negb go_ok then None
        else match mgr_step m (MOp i (IPut ver 0 (kv_tkey k) dummy)) with
             | Some m' => model_hist ver m' slots r
             | None => None
             end
      | None => None
      end
    | HDel slot k go_ok =>
      match slot_get slots slot with
      | Some i =>
        if has_nul k then (if go_ok then None else model_hist ver m slots r)
        else if negb go_ok then None
        else match mgr_step m (MOp i (IDelete ver 0 (kv_tkey k))) with
             | Some m' => model_hist ver m' slots r
             | None => None
             end
      | None => None
      end
    | HDrop slot =>
      match slot_get slots slot with
      | Some i =>
        match mgr_step m (MOp i IDeleteInstance) with
        | Some m' => model_hist ver m' (filter (fun p => negb (Nat.eqb (fst p) slot)) slots) r
        | None => None
        end
      | None => None
      end
    | HCrashDrop slot =>
      match slot_get slots slot with
      | Some _ => model_hist ver m (filter (fun p => negb (Nat.eqb (fst p) slot)) slots) r
      | None => None
      end
    | HRestart =>
      match mgr_step m (MRestart (map snd slots)) with
      | Some m' => model_hist ver m' slots r
      | None => None
      end
    | HDropHeld slot =>
      (* the effect of the deletion is the same whenever it runs: only that instance's keys go *)
      match slot_get slots slot with
      | Some i =>
        match mgr_step m (MOp i IDeleteInstance) with
        | Some m' => model_hist ver m' (filter (fun p => negb (Nat.eqb (fst p) slot)) slots) r
        | None => None
        end
      | None => None
      end
    | HTryNew slot None =>
      (* newData draws the instance id before it looks at the name: a refused creation uses one up *)
      match new_instance_id (S (length (m_taken m))) (m_next m) (m_taken m) with
      | Some (_, next') => model_hist ver {| m_next := next'; m_taken := m_taken m; m_store := m_store m |} slots r
      | None => None
      end
    | HTryNew slot (Some go_id) =>
      match mgr_step m MNew with
      | Some m' =>
        match m_taken m' with
        | id :: _ => if id =? go_id then model_hist ver m' ((slot, id) :: slots) r else None
        | [] => None
        end
      | None => None
      end
    | HRelease => model_hist ver m slots r
    end
  end.

Definition first_new_id (l : list hstep) : N :=
  match find (fun st => match st with HNew _ _ _ => true | _ => false end) l with
  | Some (HNew _ id _) => id
  | _ => 1
  end.

(* was a re-creation accepted between HDropHeld and HRelease? *)
Fixpoint pending_accept (l : list hstep) (pending : bool) : bool :=
  match l with
  | [] => false
  | HDropHeld _ :: r => pending_accept r true
  | HRelease :: r => pending_accept r false
  | HTryNew _ (Some _) :: r => pending || pending_accept r pending
  | _ :: r => pending_accept r pending
  end.

Definition cube2 (g : list N) (f : N -> N -> bytes) (h : N) : N :=
  fold_left (fun h i => fold_left (fun h v => digest h (f i v)) g h) g h.
Definition cube3 (g : list N) (f : N -> N -> N -> res bytes) (h : N) : N :=
  fold_left (fun h i => fold_left (fun h v => fold_left (fun h c =>
    match f i v c with Ok k => digest h k | _ => digest_step h 255 end) g h) g h) g h.

Definition model_ok (c : c06case) : bool :=
  match c with
  | CKey i v c tk go_key go_ids0 go_upd go_tk go_ids go_ver go_tomb go_min go_max go_marks =>
    let key := construct_data_key i v 0 tk in
    let upd := update_data_key key i v c in
    bytes_eqb go_key key &&
    res_eqb ids_eqb go_ids0 (data_key_to_local_ids key) &&
    res_eqb bytes_eqb go_upd upd &&
    match upd with
    | Ok k =>
      res_eqb bytes_eqb go_tk (tkey_from_key (Some k)) &&
      res_eqb ids_eqb go_ids (data_key_to_local_ids k) &&
      res_eqb N.eqb go_ver (version_from_key (Some k))
    | _ => true
    end &&
    bytes_eqb go_tomb (tombstone_key i v 0 tk) &&
    bytes_eqb go_min (min_version_key i tk) &&
    bytes_eqb go_max (max_version_key i tk) &&
    Bool.eqb (fst go_marks) (is_tombstone key) && Bool.eqb (snd go_marks) (is_tombstone (tombstone_key i v 0 tk))
  | CKeyLite i v c tk go_upd go_ids =>
    let upd := update_data_key (construct_data_key i v 0 tk) i v c in
    res_eqb bytes_eqb go_upd upd &&
    match upd with Ok k => res_eqb ids_eqb go_ids (data_key_to_local_ids k) | _ => true end
  | CUpdTomb i0 v0 i v c tk go go_istomb go_ids go_tk =>
    let upd := update_data_key (tombstone_key i0 v0 0 tk) i v c in
    res_eqb bytes_eqb go upd &&
    match upd with
    | Ok k => Bool.eqb go_istomb (is_tombstone k) && res_eqb ids_eqb go_ids (data_key_to_local_ids k)
              && res_eqb bytes_eqb go_tk (tkey_from_key (Some k))
    | _ => true
    end
  | CRange i cls go_kr go_dikr go_tcr =>
    pair_eqb go_kr (key_range_fixed i) && pair_eqb go_dikr (key_range_fixed i) &&
    pair_eqb go_tcr (tkey_class_range i cls)
  | CParse k i v c go_tk go_ids go_ver go_upd =>
    res_eqb bytes_eqb go_tk (tkey_from_key k) &&
    res_eqb N.eqb go_ver (version_from_key k) &&
    match k with
    | Some kb => res_eqb ids_eqb go_ids (data_key_to_local_ids kb) && res_eqb bytes_eqb go_upd (update_data_key kb i v c)
    | None => true
    end
  | CTKey dt idx d go go_dec =>
    let '(tbl, d) := class_table dt d in
    match nth_error tbl idx with
    | Some kc =>
      res_eqb bytes_eqb go (tkey_checked dt kc d) &&
      match go, kc_shape kc with
      | Ok tk, KTerm _ => res_eqb bytes_eqb go_dec (decode_term_tkey kc tk)
      | _, _ => true
      end
    | None => false
    end
  | CSplit k go go_merge =>
    res_eqb pair_eqb go (split_key k) &&
    match go with
    | Ok (u, v) => res_eqb bytes_eqb go_merge (Ok (merge_key u v))
    | _ => true
    end
  | CDigest g tk d_key d_tomb d_min d_max d_upd =>
    (cube2 g (fun i v => construct_data_key i v 0 tk) 0 =? d_key) &&
    (cube2 g (fun i v => tombstone_key i v 0 tk) 0 =? d_tomb) &&
    (cube2 g (fun i _ => min_version_key i tk) 0 =? d_min) &&
    (cube2 g (fun i _ => max_version_key i tk) 0 =? d_max) &&
    (cube3 g (fun i v c => update_data_key (construct_data_key 0 0 0 tk) i v c) 0 =? d_upd)
  | COrder entries go_keys =>
    let s := fold_left (fun s '(i, tk, v, c, m) => kv_set (data_key i tk v c m) [] s) entries [] in
    keys_eqb (map fst s) go_keys
  | CStore before steps after =>
    match model_store_run before steps with
    | Some s => store_eqb s after
    | None => false
    end
  | CHist ver steps go_keys _ _ _ =>
    match model_hist ver {| m_next := first_new_id steps; m_taken := []; m_store := [] |} [] steps with
    | Some (m, _) => keys_eqb (map fst (m_store m)) go_keys
    | None => false
    end
  | CRace ver steps views =>
    (* ids are handed out by the counter; a re-creation is refused while the deletion is pending *)
    match model_hist ver {| m_next := first_new_id steps; m_taken := []; m_store := [] |} [] steps with
    | Some _ => negb (pending_accept steps false)
    | None => false
    end
  end.

(* ---- the property, evaluated on what the implementation returned ----
   0 holds; 1 a key function panicked on a well-formed key; 2 parsing a constructed key does not
   recover its components; 3 store order is not (instance, TKey, version, client, marker) order;
   4 an operation on one instance changed another instance's entries; 5 a deleted instance left
   entries behind; 6 a point read looked at entries of another TKey; 7 keyvalue keys collide
   (GET of one key returns another key's value / listing disagrees); 8 a re-created instance is
   not empty or instance ids did not increase; 9 constructed keys of distinct components collide
   or a TKey class is not prefix free *)

Definition entry_lt (a b : N * bytes * N * N * N) : bool :=
  let '(i, tk, v, c, m) := a in let '(i', tk', v', c', m') := b in
  match cmp_then (i ?= i') (cmp_then (lex_compare tk tk') (cmp_then (v ?= v') (cmp_then (c ?= c') (m ?= m')))) with
  | Lt => true | _ => false end.

Fixpoint ascending {A} (lt : A -> A -> bool) (l : list A) : bool :=
  match l with
  | [] => true
  | a :: r => match r with [] => true | b :: _ => lt a b && ascending lt r end
  end.

(* entries of a raw dump that do not belong to the given instances *)
Definition others (ids : list N) (s : store) : store :=
  filter (fun e => negb (existsb (fun i => of_instance i (fst e)) ids)) s.

Definition touched (l : list sop) : list N :=
  map (fun o => match o with
                | SPut i _ _ _ | SDelete i _ _ | SDeleteAllV i | SDropInstance i | SGet i _ _ _ => i
                end) l.

Definition dropped (l : list sop) : list N :=
  flat_map (fun o => match o with SDropInstance i | SDeleteAllV i => [i] | _ => [] end) l.

(* an instance dropped and never written again must have nothing left *)
Fixpoint dropped_last (l : list sop) (acc : list N) : list N :=
  match l with
  | [] => acc
  | o :: r =>
    match o with
    | SDropInstance i | SDeleteAllV i => dropped_last r (i :: acc)
    | SPut i _ _ _ | SDelete i _ _ => dropped_last r (filter (fun j => negb (j =? i)) acc)
    | _ => dropped_last r acc
    end
  end.

(* abstract content: (instance, TKey) -> last value written, all at one version *)
Fixpoint amap_set (i : N) (tk : bytes) (o : option bytes) (m : list (N * bytes * bytes)) : list (N * bytes * bytes) :=
  match m with
  | [] => match o with Some v => [(i, tk, v)] | None => [] end
  | (i', tk', v') :: r =>
    if (i =? i') && bytes_eqb tk tk' then match o with Some v => (i, tk, v) :: r | None => r end
    else (i', tk', v') :: amap_set i tk o r
  end.
Definition amap_get (i : N) (tk : bytes) (m : list (N * bytes * bytes)) : option bytes :=
  match find (fun e => (fst (fst e) =? i) && bytes_eqb (snd (fst e)) tk) m with
  | Some (_, _, v) => Some v
  | None => None
  end.
Fixpoint reads_ok (l : list sop) (m : list (N * bytes * bytes)) : bool :=
  match l with
  | [] => true
  | SPut i _ tk v :: r => reads_ok r (amap_set i tk (Some v) m)
  | SDelete i _ tk :: r => reads_ok r (amap_set i tk None m)
  | SDeleteAllV i :: r | SDropInstance i :: r => reads_ok r (filter (fun e => negb (fst (fst e) =? i)) m)
  | SGet i _ tk go :: r =>
    match go with
    | Ok got => opt_eqb bytes_eqb got (amap_get i tk m) && reads_ok r m
    | _ => false
    end
  end.

Definition view_eqb (a b : view) : bool :=
  res_eqb keys_eqb (fst a) (fst b) &&
  list_eqb (fun x y => bytes_eqb (fst x) (fst y) && res_eqb (opt_eqb bytes_eqb) (snd x) (snd y)) (snd a) (snd b).
Definition view_empty (a : view) : bool :=
  match fst a with Ok [] => true | _ => false end &&
  forallb (fun x => match snd x with Ok (Some _) => false | _ => true end) (snd a).

(* instance ids of the slots that were dropped *)
Fixpoint hist_dropped (l : list hstep) (slots : list (nat * N)) (acc : list N) : list N :=
  match l with
  | [] => acc
  | HNew slot id _ :: r => hist_dropped r ((slot, id) :: slots) acc
  | HDrop slot :: r =>
    match slot_get slots slot with
    | Some i => hist_dropped r slots (i :: acc)
    | None => hist_dropped r slots acc
    end
  | _ :: r => hist_dropped r slots acc
  end.

(* what GET key/k must return on a slot: the body of the last accepted POST, nothing after an
   accepted DELETE or when never written (one version, so no ancestry is involved) *)
Fixpoint expected_get (l : list hstep) (slot : nat) (k : bytes) (cur : option bytes) : option bytes :=
  match l with
  | [] => cur
  | HPost sl k' body true :: r =>
    if Nat.eqb sl slot && bytes_eqb k k' then expected_get r slot k (Some body) else expected_get r slot k cur
  | HDel sl k' true :: r =>
    if Nat.eqb sl slot && bytes_eqb k k' then expected_get r slot k None else expected_get r slot k cur
  | _ :: r => expected_get r slot k cur
  end.

(* a view agrees with the accepted writes: each GET that answered returns the expected value and
   the listing holds exactly the keys that have one *)
Definition view_matches (l : list hstep) (slot : nat) (w : view) : bool :=
  forallb (fun x => match snd x with
                    | Ok got => opt_eqb bytes_eqb got (expected_get l slot (fst x) None)
                    | _ => match expected_get l slot (fst x) None with None => true | Some _ => false end
                    end) (snd w) &&
  match fst w with
  | Ok ks => forallb (fun x => Bool.eqb (existsb (bytes_eqb (fst x)) ks)
                                        (match expected_get l slot (fst x) None with Some _ => true | None => false end)) (snd w)
  | _ => false
  end.

Fixpoint new_ids (l : list hstep) : list N :=
  match l with
  | [] => []
  | HNew _ id _ :: r => id :: new_ids r
  | HTryNew _ (Some id) :: r => id :: new_ids r
  | _ :: r => new_ids r
  end.

(* slots that must exist at the end: created (HNew / accepted HTryNew) and not dropped later *)
Fixpoint live_slots (l : list hstep) (acc : list nat) : list nat :=
  match l with
  | [] => acc
  | HNew s _ _ :: r | HTryNew s (Some _) :: r => live_slots r (s :: acc)
  | HDrop s :: r | HCrashDrop s :: r | HDropHeld s :: r => live_slots r (filter (fun x => negb (Nat.eqb x s)) acc)
  | _ :: r => live_slots r acc
  end.

Fixpoint nodupb (l : list N) : bool :=
  match l with
  | [] => true
  | x :: r => negb (existsb (N.eqb x) r) && nodupb r
  end.

Definition spec_class (c : c06case) : nat :=
  match c with
  | CKey i v c tk go_key go_ids0 go_upd go_tk go_ids go_ver go_tomb go_min go_max go_marks =>
    if is_panic go_upd || is_panic go_tk || is_panic go_ids || is_panic go_ver || is_panic go_ids0 then 1%nat
    else if negb (res_eqb bytes_eqb go_tk (Ok tk) && res_eqb ids_eqb go_ids0 (Ok (i, v, 0)) && res_eqb ids_eqb go_ids (Ok (i, v, c)) && res_eqb N.eqb go_ver (Ok v)
                  && negb (fst go_marks) && snd go_marks) then 2%nat
    else if negb (lex_leb go_min go_key && lex_leb go_key go_max && lex_leb go_min go_tomb && lex_leb go_tomb go_max) then 3%nat
    else if bytes_eqb go_key go_tomb then 9%nat
    else 0%nat
  | CKeyLite i v c tk go_upd go_ids =>
    if is_panic go_upd || is_panic go_ids then 1%nat
    else if negb (res_eqb ids_eqb go_ids (Ok (i, v, c))) then 2%nat else 0%nat
  | CUpdTomb i0 v0 i v c tk go go_istomb go_ids go_tk =>
    if is_panic go || is_panic go_ids || is_panic go_tk then 1%nat
    else if negb (go_istomb && res_eqb ids_eqb go_ids (Ok (i, v, c)) && res_eqb bytes_eqb go_tk (Ok tk)) then 2%nat
    else 0%nat
  | CRange i cls go_kr go_dikr go_tcr => 0%nat
  | CParse _ _ _ _ _ _ _ _ => 0%nat
  | CTKey dt idx d go go_dec =>
    (* every constructed TKey starts with the class byte of its table entry; one class is prefix free on
       admissible caller data (checked pairwise by c06_tkeys_prefix_free below) *)
    let '(tbl, d) := class_table dt d in
    match nth_error tbl idx, go with
    | Some kc, Ok tk =>
      if body_okb kc d then
        match tk with
        | x :: _ =>
          if negb (x =? kc_class kc) then 10%nat
          else
            (* a NewTKey-made key of instance 7 lies inside TKeyClassRange(its class) of instance 7 and outside
               that of the neighbouring classes (ranges as the CRange cases tie them to the code) *)
            let k := data_key 7 tk 1 0 n_MarkData in
            let inr c := let r := tkey_class_range 7 c in lex_leb (fst r) k && lex_leb k (snd r) in
            match kc_shape kc with
            | KLegacy _ => 0%nat
            | _ => if inr (kc_class kc) && negb (inr (kc_class kc + 1)) && negb (inr (kc_class kc - 1)) then 0%nat else 3%nat
            end
        | [] => 10%nat
        end
      else 0%nat
    | _, Panic => 1%nat
    | _, _ => 0%nat
    end
  | CSplit k go go_merge =>
    (* the two parts of a key put together again are the key; a data key long enough for its suffix does not panic
       and its second part is version + client + marker *)
    match go with
    | Ok (u, v) =>
      if negb (bytes_eqb (u ++ v) k && res_eqb bytes_eqb go_merge (Ok k)) then 2%nat
      else match k with
           | p :: _ => if (p =? n_dataKeyPrefix) && negb (Nat.eqb (length v) suffix_size) then 2%nat else 0%nat
           | [] => 2%nat
           end
    | Panic => match k with p :: _ => if (p =? n_dataKeyPrefix) && Nat.leb suffix_size (length k) then 1%nat
                                       else if negb (p =? n_dataKeyPrefix) then 1%nat else 0%nat
                          | [] => 0%nat end
    | Err => match k with p :: _ => if (p =? n_dataKeyPrefix) || (p =? n_metadataKeyPrefix) then 2%nat else 0%nat | [] => 2%nat end
    end
  | CDigest _ _ _ _ _ _ _ => 0%nat
  | COrder entries go_keys =>
    (* the store returns the keys of the entries in tuple order (entries are prefix free per instance) *)
    let sorted_entries := fold_left (fun s e => let '(i, tk, v, c, m) := e in
                                                kv_set (data_key i tk v c m) [] s) entries [] in
    if negb (Nat.eqb (length go_keys) (length sorted_entries)) then 3%nat
    else if negb (ascending (fun a b => lex_ltb a b) go_keys) then 3%nat
    else 0%nat
  | CStore before steps after =>
    let ids := touched steps in
    if negb (store_eqb (others ids before) (others ids after)) then 4%nat
    else if existsb (fun i => existsb (fun e => of_instance i (fst e)) after) (dropped_last steps []) then 5%nat
    else
      (* a read returns what was last written under its own (instance, TKey) and nothing else
         (scenarios with reads start from an empty store) *)
      if match before with [] => negb (reads_ok steps []) | _ => false end then 6%nat else 0%nat
  | CHist ver steps go_keys b_before b_after a_new =>
    if negb (view_eqb b_before b_after) then 4%nat
    else if negb (view_empty a_new) then 8%nat
    else if existsb (fun st => match st with HNew _ _ false => true | _ => false end) steps then 8%nat
    else if negb (nodupb (new_ids steps)) then 8%nat
    else if existsb (fun i => existsb (of_instance i) go_keys) (hist_dropped steps [] []) then 5%nat
    else if negb (view_matches steps 1%nat b_after) then 7%nat
    else 0%nat
  | CRace ver steps views =>
    (* every instance that was created and not deleted exists, with exactly its own data: deleting
       one instance must not take another one (of the same name) with it; ids are fresh *)
    if negb (forallb (fun sl => match find (fun p => Nat.eqb (fst p) sl) views with
                                | Some (_, w) => view_matches steps sl w
                                | None => false end) (live_slots steps [])) then 4%nat
    else if negb (nodupb (new_ids steps)) then 8%nat
    else 0%nat
  end.

Fixpoint classify_from (i : nat) (l : list c06case) : list (nat * nat) :=
  match l with
  | [] => []
  | c :: r => let k := spec_class c in
              if Nat.eqb k 0 then classify_from (S i) r else (i, k) :: classify_from (S i) r
  end.
Definition c06_spec_fail (l : list c06case) : list (nat * nat) := classify_from 0 l.
Definition c06_model_mismatch (l : list c06case) : list nat := find_idx (fun c => negb (model_ok c)) l.
