(* Model.CRC: CRC-32 (IEEE 802.3, reflected, as hash/crc32.ChecksumIEEE) computed bit by bit.
   Go computes the same function with tables (slicing-8 / CLMUL); equality with the Go
   library is checked differentially by the C15 driver, not proved. *)
From DV Require Import Base.Prelude.
Local Open Scope N_scope.

Definition crc_poly : N := 0xEDB88320.
Definition crc_mask : N := 0xFFFFFFFF.

Definition crc_bit (s : N) : N :=
  N.lxor (N.shiftr s 1) (if N.testbit s 0 then crc_poly else 0).

Definition crc_bits8 (s : N) : N :=
  crc_bit (crc_bit (crc_bit (crc_bit (crc_bit (crc_bit (crc_bit (crc_bit s))))))).

Definition crc_byte (s b : N) : N := crc_bits8 (N.lxor s b).

Definition crc_update (s : N) (l : bytes) : N := fold_left crc_byte l s.

Definition crc32 (l : bytes) : N := N.lxor (crc_update crc_mask l) crc_mask.
