(* Model.KVRangeRun: case type and executable checkers for Run/cases_C05.v (no proofs). *)
From DV Require Import Base.Prelude Base.Int Base.Lex Base.KeyShape Gen.Consts Gen.KeyClasses Gen.LocalConstsKV
     Model.Keys Model.KV Model.KVRange Model.KeysRun
     Model.Dag Model.Resolve Model.Core Model.Refine.
Local Open Scope N_scope.
(* Model.Core.store (a projection) must not shadow the byte store type *)
Notation store := KV.store.

(* what the real resolver (VersionedCtx.VersionedKeyValue at the case's version) answered for the
   stored entries of one TKey *)
Inductive verdict := VSome (k : bytes) | VNone | VConflict.

Definition key_tkey (k : bytes) : bytes := match tkey_from_key (Some k) with Ok tk => tk | _ => [] end.

(* the oracle handed to the model as [best] *)
Definition best_of (table : list (bytes * verdict)) (ks : list bytes) : res (option bytes) :=
  match ks with
  | [] => Ok None
  | k :: _ =>
    match find (fun e => bytes_eqb (fst e) (key_tkey k)) table with
    | Some (_, VSome k') => Ok (Some k')
    | Some (_, VNone) => Ok None
    | Some (_, VConflict) => Err
    | None => Ok None
    end
  end.

Record c05query := {
  q_lo : bytes; q_hi : bytes;                        (* key strings *)
  q_range : res (list (bytes * bytes));             (* db.GetRange: (TKey, stored value) *)
  q_keys : res (list bytes);                        (* db.KeysInRange: TKeys *)
  q_http_keyrange : res (list bytes);               (* GET keyrange/lo/hi: key strings *)
  q_http_json : res (list (bytes * bytes));         (* GET keyrangevalues/lo/hi?json=true: (key, payload) *)
  q_http_tar : res (list (bytes * bytes))           (* GET keyrangevalues/lo/hi?jsontar=true *)
}.

(* a storage-level query with TKey ends (any classes) *)
Record mquery := {
  m_lo : bytes; m_hi : bytes;
  m_range : res (list (bytes * bytes));     (* db.GetRange *)
  m_keys : res (list bytes);                (* db.KeysInRange *)
  m_process : res (list (bytes * bytes));   (* db.ProcessRange: the chunks handed to the callback *)
  m_send : res (list bytes)                 (* db.SendKeysInRange: full storage keys *)
}.

(* a query of the wide-key section: key strings of any length and alphabet *)
Record wquery := {
  w_lo : bytes; w_hi : bytes;
  w_range : res (list (bytes * bytes));      (* db.GetRange *)
  w_keys : res (list bytes);                 (* db.KeysInRange *)
  w_http : res (list bytes)                  (* GET keyrange/lo/hi, names mapped back to the key bytes *)
}.

Inductive c05case :=
(* one version of one branched history of a keyvalue instance *)
| CVersion (i v : N) (g : list (N * list N)) (s : store) (table : list (bytes * verdict))
           (points : list (bytes * res (option bytes) * res (option bytes)))   (* key string, db.Get, GET key/k *)
           (all_keys : res (list bytes))                                       (* GET keys *)
           (multi : res (list (bytes * bytes)))                                (* POST-body GET keyvalues?json=true for all key strings *)
           (queries : list c05query)
(* one version of an instance whose TKeys lie in several classes, written through the storage API:
   db.Get of every TKey of the universe, and range queries inside one class, across classes and
   over the whole TKey space *)
| CMulti (i v : N) (s : store) (table : list (bytes * verdict))
         (points : list (bytes * res (option bytes)))
         (queries : list mquery)
(* keyvalue keys of every length 1..80 and every byte class (control, punctuation, DEL, 2/3/4-byte
   UTF-8, invalid UTF-8, leading 0xFF) at one version: db.Get and GET key/k of every key, GET keys,
   and intervals whose ends are stored keys *)
| CWide (i v : N) (s : store) (table : list (bytes * verdict))
        (points : list (bytes * res (option bytes) * res (option bytes)))
        (all_keys : res (list bytes))
        (queries : list wquery)
(* a range holding a number of keys at an internal batch threshold, judged by projected facts:
   what = 0 DeleteRange, 1 GetRange, 2 KeysInRange, 3 ProcessRange, 4 PutRange, 5 DeleteAll;
   count keys were placed in the interval, outside keys next to it; found = keys of the interval the
   operation returned in the right order (reads) / that are readable afterwards (writes) *)
| CBatch (what : nat) (threshold count : N) (found : N) (outside_before outside_after : N) (ok : bool)
(* db.DeleteRange(VersionedCtx(i, v), lo, hi) with TKeys lo, hi; db.Get of every (version, TKey) before and after *)
| CDeleteRange (i v : N) (g : list (N * list N)) (before : store) (table : list (bytes * verdict)) (lo hi : bytes)
               (go_ok : bool) (after : store)
               (reads_before reads_after : list (N * bytes * res (option bytes)))
               (* db.KeysInRange at v over the whole class before and after, and over [lo, hi] after *)
               (keys_before keys_after keys_after_in : res (list bytes))
               (* db.Get of every TKey at a fresh child of v (after committing v); [] when not taken *)
               (desc : list (bytes * res (option bytes))).

Definition cxof (i v : N) : vctx := {| cx_instance := i; cx_version := v; cx_client := 0 |}.

(* ---- model side ---- *)
Definition okeys_eqb (a b : res (list bytes)) : bool := res_eqb keys_eqb a b.
Definition okv_eqb (a b : res (list (bytes * bytes))) : bool := res_eqb (list_eqb pair_eqb) a b.

Definition point_model (table : list (bytes * verdict)) (i v : N) (k : bytes) (s : store) : res (option bytes) :=
  kv_get_data (best_of table) (cxof i v) k s.

Definition query_ok (table : list (bytes * verdict)) (i v : N) (s : store) (q : c05query) : bool :=
  let best := best_of table in
  let cx := cxof i v in
  let ta := kv_new_tkey (q_lo q) in
  let tb := kv_new_tkey (q_hi q) in
  match ta, tb with
  | Ok a, Ok b =>
    okv_eqb (q_range q) (get_range best cx a b s) &&
    okeys_eqb (q_keys q) (keys_in_range best cx a b s)
  | _, _ => true
  end &&
  okeys_eqb (q_http_keyrange q) (kv_keyrange best cx (q_lo q) (q_hi q) s) &&
  (* payloads are what the envelope of the stored values decodes to: only the keys are compared here *)
  let mk := match kv_keyrangevalues best cx (q_lo q) (q_hi q) s with Ok l => Ok (map fst l) | Err => Err | Panic => Panic end in
  (* keyrangevalues streams its answer: when the scan fails after the first entry the status is
     already 200 and the body is a truncated tar / malformed JSON; nothing is compared then *)
  match mk with
  | Ok _ =>
    okeys_eqb (match q_http_json q with Ok l => Ok (map fst l) | Err => Err | Panic => Panic end) mk &&
    okeys_eqb (match q_http_tar q with Ok l => Ok (map fst l) | Err => Err | Panic => Panic end) mk
  | _ => true
  end.


(* ==== Round 4: the refinement evaluated on the driver's cases ====
   From a raw dump of the instance and the version DAG (in DVID version ids) the abstract core of
   Model.Core is rebuilt — abstract key n = the n-th distinct TKey of the dump, value id = position
   of the entry in the dump — and the implementation's answers are compared with (a) the byte-level
   model run with the resolver [best_of_core] (Model.Resolve.read over the stored keys, instead of
   the table of the real resolver's verdicts) and (b) the abstract answers of Props/Refine.v
   (Refine_kv_get_data / _kv_keys / _kv_keyrange / _get_range_exec / _keys_in_range /
   _delete_range): [point_of (get c k v)], [abs_keys_in_range], [abs_get_range], [core_delete_range]. *)
Definition dump_tkeys (s : store) : list bytes :=
  rev (fold_left (fun acc e => let t := key_tkey (fst e) in
                               if existsb (bytes_eqb t) acc then acc else t :: acc) s []).
Fixpoint index_of (t : bytes) (l : list bytes) (n : N) : option N :=
  match l with
  | [] => None
  | x :: r => if bytes_eqb t x then Some n else index_of t r (n + 1)
  end.
Definition dump_enc (tks : list bytes) (n : N) : bytes := nth (N.to_nat n) tks [].
Definition dump_venc (s : store) (x : N) : bytes := snd (nth (N.to_nat x) s ([], [])).
Definition dump_kstr (tks : list bytes) (n : N) : bytes :=
  match decode_term_tkey kc_keyvalue_NewTKey (dump_enc tks n) with Ok k => k | _ => [] end.

(* the abstract entries of a dump, in dump order; None when a key is not a well-formed data key
   or its TKey is not among tks *)
Fixpoint dump_entries (tks : list bytes) (s : store) (pos : N) : option (list ((N * N) * entry)) :=
  match s with
  | [] => Some []
  | (k, _) :: r =>
    match index_of (key_tkey k) tks 0, version_from_key (Some k), dump_entries tks r (pos + 1) with
    | Some n, Ok ver, Some l => Some (((n, ver), if is_tombstone k then Tomb else Val pos) :: l)
    | _, _, _ => None
    end
  end.
Definition dag_core (g : list (N * list N)) (entries : list ((N * N) * entry)) : core :=
  {| next := fold_left N.max (map fst g) 1 + 1; dag := g; nodes := map fst g;
     locked := flat_map snd g; Core.store := rev entries |}.
(* Refines, executably: replaying the abstract entries through the byte-level Put / Delete of
   Model.KV under (i, version) rebuilds the dump *)
Definition rebuild (i : N) (tks : list bytes) (s : store) (entries : list ((N * N) * entry)) : store :=
  fold_left (fun acc e => match e with
                          | ((k, ver), Val x) => put (rcx i ver) (dump_enc tks k) (dump_venc s x) acc
                          | ((k, ver), Tomb) => delete (rcx i ver) (dump_enc tks k) acc
                          end) entries [].

Definition abs_point (tks : list bytes) (s : store) (c : core) (v : N) (tk : bytes) : res (option bytes) :=
  match index_of tk tks 0 with
  | Some n => Ok (point_of (dump_venc s) (get c n v))
  | None => Ok None
  end.
Definition nul_free (k : bytes) : bool := negb (existsb (N.eqb 0) k).

Definition refine_version_ok (i v : N) (g : list (N * list N)) (s : store)
           (points : list (bytes * res (option bytes) * res (option bytes)))
           (all_keys : res (list bytes)) (queries : list c05query) : bool :=
  let tks := dump_tkeys s in
  match dump_entries tks s 0 with
  | None => false
  | Some entries =>
    let c := dag_core g entries in
    let enc := dump_enc tks in let venc := dump_venc s in let kstr := dump_kstr tks in
    let best := best_of_core c v in
    let cx := cxof i v in
    store_eqb (rebuild i tks s entries) s &&
    forallb (fun p => let '(k, gdb, _) := p in
               if nul_free k then
                 res_eqb (opt_eqb bytes_eqb) gdb (abs_point tks s c v (kv_tkey k)) &&
                 res_eqb (opt_eqb bytes_eqb) gdb (kv_get_data best cx k s)
               else true) points &&
    okeys_eqb all_keys (res_map (map kstr) (abs_keys_in_range enc c v (min_tkey 177) (max_tkey 177))) &&
    okeys_eqb all_keys (kv_keys best cx s) &&
    forallb (fun q =>
      if nul_free (q_lo q) && nul_free (q_hi q) && lex_leb (q_lo q) (q_hi q) then
        let a := kv_tkey (q_lo q) in let b := kv_tkey (q_hi q) in
        okeys_eqb (q_keys q) (res_map (map enc) (abs_keys_in_range enc c v a b)) &&
        okv_eqb (q_range q) (res_map (map (fun kx => (enc (fst kx), venc (snd kx)))) (abs_get_range enc c v a b)) &&
        okeys_eqb (q_http_keyrange q) (res_map (map kstr) (abs_keys_in_range enc c v a b)) &&
        okeys_eqb (q_http_keyrange q) (kv_keyrange best cx (q_lo q) (q_hi q) s) &&
        okv_eqb (q_range q) (get_range best cx a b s)
      else true) queries
  end.

Definition refine_delete_ok (i v : N) (g : list (N * list N)) (before : store) (lo hi : bytes) (go_ok : bool)
           (after : store) (reads_after : list (N * bytes * res (option bytes))) : bool :=
  let tks := dump_tkeys before in
  match dump_entries tks before 0 with
  | None => false
  | Some entries =>
    let c := dag_core g entries in
    let enc := dump_enc tks in
    if negb (lex_leb lo hi) then true else
    match core_delete_range enc c v lo hi with
    | Ok c' =>
      go_ok &&
      (* the abstract operation's reads = the real reads after DeleteRange, at every version read *)
      forallb (fun e => let '(ver, tk, gdb) := e in
                 res_eqb (opt_eqb bytes_eqb) gdb (abs_point tks before c' ver tk)) reads_after &&
      (* the byte-level DeleteRange run with the core's resolver produces the real store *)
      match delete_range (best_of_core c v) (cxof i v) lo hi before with
      | Ok s' => store_eqb s' after
      | _ => false
      end
    | _ => true    (* a conflict inside the interval: guard of Refine_delete_range *)
    end
  end.

Definition model_ok (c : c05case) : bool :=
  match c with
  | CVersion i v g s table points all_keys multi queries =>
    forallb (fun p => let '(k, g, _) := p in
                      res_eqb (opt_eqb bytes_eqb) g (point_model table i v k s)) points &&
    okeys_eqb all_keys (kv_keys (best_of table) (cxof i v) s) &&
    forallb (query_ok table i v s) queries &&
    (* the refinement (Props/Refine.v) on the same case; g = [] : no DAG given *)
    match g with [] => true | _ => refine_version_ok i v g s points all_keys queries end
  | CWide i v s table points all_keys queries =>
    let best := best_of table in
    let cx := cxof i v in
    (* a case without a dump is judged by the oracle only *)
    match s with [] => true | _ => 
    forallb (fun p => let '(k, g, _) := p in
                      res_eqb (opt_eqb bytes_eqb) g (point_model table i v k s)) points &&
    okeys_eqb all_keys (kv_keys best cx s) &&
    forallb (fun q =>
      okv_eqb (w_range q) (get_range best cx (kv_tkey (w_lo q)) (kv_tkey (w_hi q)) s) &&
      okeys_eqb (w_keys q) (keys_in_range best cx (kv_tkey (w_lo q)) (kv_tkey (w_hi q)) s) &&
      okeys_eqb (w_http q) (kv_keyrange best cx (w_lo q) (w_hi q) s)) queries
    end
  | CBatch what threshold count found ob oa ok =>
    (* the threshold is the constant of the source, the count one of its boundary values *)
    let t := match what with 5%nat => n_badger_DeleteAll_BATCH_SIZE | _ => n_badger_DeleteRange_BATCH_SIZE end in
    (threshold =? t) &&
    existsb (N.eqb count) [t - 1; t; t + 1; 2 * t; 2 * t + 1]
  | CMulti i v s table points queries =>
    let best := best_of table in
    let cx := cxof i v in
    forallb (fun p => res_eqb (opt_eqb bytes_eqb) (snd p) (Ok (point_get best cx (fst p) s))) points &&
    forallb (fun q =>
      okv_eqb (m_range q) (get_range best cx (m_lo q) (m_hi q) s) &&
      okv_eqb (m_process q) (get_range best cx (m_lo q) (m_hi q) s) &&
      okeys_eqb (m_keys q) (keys_in_range best cx (m_lo q) (m_hi q) s) &&
      okeys_eqb (m_send q) (match consume (versioned_range best cx (m_lo q) (m_hi q) true s) with
                            | Ok l => Ok (map fst l) | Err => Err | Panic => Panic end)) queries
  | CDeleteRange i v g before table lo hi go_ok after _ reads_after _ _ _ _ =>
    match delete_range (best_of table) (cxof i v) lo hi before with
    | Ok s' => go_ok && store_eqb s' after
    | _ => false
    end &&
    match g with [] => true | _ => refine_delete_ok i v g before lo hi go_ok after reads_after end
  end.

(* ---- the property, evaluated on what the implementation returned ----
   0 holds; 1 a storage-level range (GetRange / KeysInRange) differs from the point reads (db.Get);
   2 an HTTP listing (keys, keyrange, keyrangevalues json/tar, keyvalues) differs from GET key/k;
   3 DeleteRange: a key of the interval is still readable at the version, or a read outside
     (other key, ancestor, sibling) changed;  4 a range answered although a key of the interval is in
     unresolved conflict (or failed without one);
   (5 retired: the empty-value finding, repaired by C05-1-fix; an empty stored value is a value and
   is judged like any other);  6 a request failed (5xx / panic) *)

Fixpoint insert_sorted (k : bytes) (l : list bytes) : list bytes :=
  match l with
  | [] => [k]
  | x :: r => match lex_compare k x with Lt => k :: l | Eq => l | Gt => x :: insert_sorted k r end
  end.
Definition sort_keys (l : list bytes) : list bytes := fold_right insert_sorted [] l.

Definition in_interval (lo hi k : bytes) : bool := lex_leb lo k && lex_leb k hi.

Definition conflicted (table : list (bytes * verdict)) (k : bytes) : bool :=
  match find (fun e => bytes_eqb (fst e) (kv_tkey k)) table with
  | Some (_, VConflict) => true
  | _ => false
  end.

Definition found {A} (r : res (option A)) : bool := match r with Ok (Some _) => true | _ => false end.

(* compare an observed key list against the expectation: the keys whose point read finds a value *)
Definition judge (bad : nat) (observed expected : list bytes) : nat :=
  if keys_eqb observed expected then 0%nat else bad.

Definition spec_query (table : list (bytes * verdict)) (s : store)
           (points : list (bytes * res (option bytes) * res (option bytes))) (q : c05query) : nat :=
  let universe := sort_keys (map (fun p => fst (fst p)) points) in
  let inside := filter (in_interval (q_lo q) (q_hi q)) universe in
  let get_db k := match find (fun p => bytes_eqb (fst (fst p)) k) points with Some (_, g, _) => g | None => Ok None end in
  let get_http k := match find (fun p => bytes_eqb (fst (fst p)) k) points with Some (_, _, g) => g | None => Ok None end in
  let strict_db := filter (fun k => found (get_db k)) inside in
  let strict_http := filter (fun k => found (get_http k)) inside in
  let nul := existsb (N.eqb 0) (q_lo q) || existsb (N.eqb 0) (q_hi q) in
  if nul then 0%nat
  else if existsb (conflicted table) inside then
    (* guard of the theorem: a conflict inside the interval fails the range as a whole *)
    match q_range q, q_keys q with
    | Err, Err => 0%nat
    | _, _ => 4%nat
    end
  else
    match q_range q, q_keys q, q_http_keyrange q, q_http_json q, q_http_tar q with
    | Ok rg, Ok ks, Ok hk, Ok hj, Ok ht =>
      let c1 := judge 1 (map fst rg) (map kv_tkey strict_db) in
      let vals_ok := forallb (fun e => match get_db (match decode_term_tkey kc_keyvalue_NewTKey (fst e) with Ok k => k | _ => [] end) with
                                       | Ok (Some v) => bytes_eqb v (snd e)
                                       | _ => false
                                       end) rg in
      let c2 := judge 1 ks (map kv_tkey strict_db) in
      let c3 := judge 2 hk strict_http in
      let hv l := forallb (fun e => match get_http (fst e) with Ok (Some v) => bytes_eqb v (snd e) | _ => false end) l in
      (* the JSON renderer writes an empty payload as {} *)
      let hvj l := forallb (fun e => match get_http (fst e) with
                                     | Ok (Some []) => bytes_eqb (snd e) [123; 125]
                                     | Ok (Some v) => bytes_eqb v (snd e)
                                     | _ => false end) l in
      let c4 := if keys_eqb (map fst hj) strict_http && hvj hj then 0%nat else 2%nat in
      let c5 := if keys_eqb (map fst ht) strict_http && hv ht then 0%nat else 2%nat in
      if negb vals_ok then 1%nat
      else Nat.max c1 (Nat.max c2 (Nat.max c3 (Nat.max c4 c5)))
    | Panic, _, _, _, _ | _, Panic, _, _, _ | _, _, Panic, _, _ | _, _, _, Panic, _ | _, _, _, _, Panic => 6%nat
    | _, _, _, _, _ => 4%nat
    end.

(* the first failure wins *)
Definition worse (a b : nat) : nat :=
  match a, b with
  | O, _ => b
  | _, O => a
  | _, _ => Nat.min a b
  end.

Definition spec_class (c : c05case) : nat :=
  match c with
  | CVersion i v g s table points all_keys multi queries =>
    let universe := sort_keys (map (fun p => fst (fst p)) points) in
    let get_http k := match find (fun p => bytes_eqb (fst (fst p)) k) points with Some (_, _, g) => g | None => Ok None end in
    let strict := filter (fun k => found (get_http k)) universe in
    let c_keys :=
      if existsb (conflicted table) universe then
        match all_keys with Err => 0%nat | _ => 4%nat end
      else match all_keys with
           | Ok ks => judge 2 ks strict
           | Err => 4%nat
           | Panic => 6%nat
           end in
    (* keyvalues: every requested key is answered; a missing one with an empty JSON object *)
    let c_multi :=
      match multi with
      | Ok l => if forallb (fun e => match get_http (fst e) with
                                     | Ok (Some val) => bytes_eqb val (snd e) || match val with [] => bytes_eqb (snd e) [123; 125] | _ => false end
                                     | Ok None => bytes_eqb (snd e) [123; 125]
                                     | _ => true end) l
                   && keys_eqb (map fst l) (map (fun p => fst (fst p)) points)
                then 0%nat else 2%nat
      | Err => 0%nat        (* not requested in this case *)
      | Panic => 6%nat
      end in
    fold_left worse (map (spec_query table s points) queries) (worse c_keys c_multi)
  | CWide i v s table points all_keys queries =>
    let universe := sort_keys (map (fun p => fst (fst p)) points) in
    let get_db k := match find (fun p => bytes_eqb (fst (fst p)) k) points with Some (_, g, _) => g | None => Ok None end in
    let get_http k := match find (fun p => bytes_eqb (fst (fst p)) k) points with Some (_, _, g) => g | None => Ok None end in
    (* GET keys = the keys whose point read finds a value *)
    let c_keys := match all_keys with
                  | Ok ks => judge 2 ks (filter (fun k => found (get_http k)) universe)
                  | Err => 4%nat | Panic => 6%nat end in
    (* the two point reads agree on what exists *)
    let c_pts := if forallb (fun p => let '(_, g, h) := p in Bool.eqb (found g) (found h)) points then 0%nat else 2%nat in
    fold_left worse (map (fun q =>
      let inside := filter (in_interval (w_lo q) (w_hi q)) universe in
      let exp_db := filter (fun k => found (get_db k)) inside in
      let exp_http := filter (fun k => found (get_http k)) inside in
      match w_range q, w_keys q, w_http q with
      | Ok rg, Ok ks, Ok hk =>
        let vals_ok := forallb (fun e => match get_db (match decode_term_tkey kc_keyvalue_NewTKey (fst e) with Ok k => k | _ => [] end) with
                                         | Ok (Some v) => bytes_eqb v (snd e) | _ => false end) rg in
        if negb (keys_eqb (map fst rg) (map kv_tkey exp_db) && vals_ok && keys_eqb ks (map kv_tkey exp_db)) then 1%nat
        else if negb (keys_eqb hk exp_http) then 2%nat else 0%nat
      | Panic, _, _ | _, Panic, _ | _, _, Panic => 6%nat
      | _, _, _ => 4%nat
      end) queries) (worse c_keys c_pts)
  | CBatch what threshold count found ob oa ok =>
    if negb ok then 6%nat
    else if (found =? (match what with 0%nat | 5%nat => 0 | _ => count end)) && (ob =? oa) then 0%nat
    else match what with 0%nat | 5%nat => 3%nat | _ => 1%nat end
  | CMulti i v s table points queries =>
    let universe := sort_keys (map fst points) in
    let get_db tk := match find (fun p => bytes_eqb (fst p) tk) points with Some (_, g) => g | None => Ok None end in
    let conflict tk := match find (fun e => bytes_eqb (fst e) tk) table with Some (_, VConflict) => true | _ => false end in
    fold_left worse (map (fun q =>
      let inside := filter (in_interval (m_lo q) (m_hi q)) universe in
      let expected := filter (fun tk => found (get_db tk)) inside in
      if existsb conflict inside then
        match m_range q, m_keys q with Err, Err => 0%nat | _, _ => 4%nat end
      else
        match m_range q, m_keys q, m_process q, m_send q with
        | Ok rg, Ok ks, Ok pr, Ok sk =>
          let vals_ok l := forallb (fun e => match get_db (fst e) with Ok (Some v) => bytes_eqb v (snd e) | _ => false end) l in
          if keys_eqb (map fst rg) expected && vals_ok rg &&
             keys_eqb ks expected &&
             keys_eqb (map fst pr) expected && vals_ok pr &&
             keys_eqb (map key_tkey sk) expected
          then 0%nat else 1%nat
        | Panic, _, _, _ | _, Panic, _, _ | _, _, Panic, _ | _, _, _, Panic => 6%nat
        | _, _, _, _ => 4%nat
        end) queries) 0%nat
  | CDeleteRange i v g before table lo hi go_ok after reads_before reads_after keys_before keys_after keys_after_in desc =>
    if negb go_ok then 6%nat
    else
      let get (l : list (N * bytes * res (option bytes))) (ver : N) (tk : bytes) :=
        match find (fun e => (fst (fst e) =? ver) && bytes_eqb (snd (fst e)) tk) l with
        | Some (_, _, g) => g | None => Ok None end in
      (* guard: a conflict at v stops the scan early (and hides the error); nothing is judged then *)
      let conflict := existsb (fun e => match snd e with VConflict => true | _ => false end) table in
      if conflict then 0%nat
      else
      (* C05_delete_range_keys / _other_versions as the oracle.  Point reads: at v the keys of [lo, hi]
         are gone and every other read — other keys, parent, siblings — is what it was *)
      let points_ok :=
        forallb (fun e => let '(ver, tk, g) := e in
                   if (ver =? v) && in_interval lo hi tk
                   then negb (found (get reads_after ver tk))
                   else res_eqb (opt_eqb bytes_eqb) g (get reads_after ver tk)) reads_before in
      (* range reads at v: nothing is left inside [lo, hi]; outside it the listing is unchanged *)
      let ranges_ok :=
        match keys_before, keys_after, keys_after_in with
        | Ok kb, Ok ka, Ok kin =>
          match kin with [] => true | _ => false end &&
          keys_eqb ka (filter (fun tk => negb (in_interval lo hi tk)) kb)
        | _, _, _ => false
        end in
      (* a descendant of v sees what v sees *)
      let desc_ok :=
        forallb (fun e => if in_interval lo hi (fst e) then negb (found (snd e))
                          else res_eqb (opt_eqb bytes_eqb) (snd e) (get reads_after v (fst e))) desc in
      if points_ok && ranges_ok && desc_ok then 0%nat else 3%nat
  end.

Fixpoint classify_from (n : nat) (l : list c05case) : list (nat * nat) :=
  match l with
  | [] => []
  | c :: r => let k := spec_class c in
              if Nat.eqb k 0 then classify_from (S n) r else (n, k) :: classify_from (S n) r
  end.
Definition c05_spec_fail (l : list c05case) : list (nat * nat) := classify_from 0 l.
Definition c05_model_mismatch (l : list c05case) : list nat := find_idx (fun c => negb (model_ok c)) l.
