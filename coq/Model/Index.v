(* Model.Index: the label index algebra of datatype/common/labels/index.go and
   datatype/labelmap/labelidx.go.  Definitions only.

   A label index (labels.Index.Blocks : map block -> map supervoxel -> uint32) is modelled as
   ONE association list keyed by the pair (block, supervoxel) with unique keys.  A block is
   "in" the index when some entry carries it.  The Go structure can additionally hold a block
   with an empty Counts map; every function that can produce one deletes it before it returns
   (index.go:476-480, 532-537, labelidx.go:871-873), so the flattened form loses nothing for the
   indices these functions store.  Block ids and supervoxel ids are N; counts are uint32 (N with
   explicit wrap where the code converts). *)
From DV Require Import Base.Prelude.
Local Open Scope N_scope.

(* ---- association lists ---- *)
Section Assoc.
  Context {K V : Type} (eqb : K -> K -> bool).

  Fixpoint aget (k : K) (l : list (K * V)) : option V :=
    match l with
    | [] => None
    | (k', v) :: r => if eqb k k' then Some v else aget k r
    end.

  (* Go map assignment m[k] = v *)
  Fixpoint aset (k : K) (v : V) (l : list (K * V)) : list (K * V) :=
    match l with
    | [] => [(k, v)]
    | (k', v') :: r => if eqb k k' then (k', v) :: r else (k', v') :: aset k v r
    end.

  (* Go delete(m, k) *)
  Fixpoint adel (k : K) (l : list (K * V)) : list (K * V) :=
    match l with
    | [] => []
    | (k', v') :: r => if eqb k k' then adel k r else (k', v') :: adel k r
    end.

  Definition akeys (l : list (K * V)) : list K := map fst l.
  Definition ahas (k : K) (l : list (K * V)) : bool :=
    match aget k l with Some _ => true | None => false end.
End Assoc.

Definition memN (x : N) (l : list N) : bool := existsb (N.eqb x) l.
Fixpoint nodupN (l : list N) : list N :=
  match l with
  | [] => []
  | x :: r => if memN x r then nodupN r else x :: nodupN r
  end.

Definition key := (N * N)%type.     (* (block, supervoxel) *)
Definition key_eqb (a b : key) : bool := (fst a =? fst b) && (snd a =? snd b).
Definition index := list (key * N).

Definition kblock (e : key * N) : N := fst (fst e).
Definition ksv (e : key * N) : N := snd (fst e).

(* svc.Counts[sv] with Go's zero default *)
Definition cnt (idx : index) (b s : N) : N :=
  match aget key_eqb (b, s) idx with Some c => c | None => 0 end.

(* Index.NumVoxels (index.go:165): uint64 sum of the uint32 counts *)
Definition num_voxels (idx : index) : N := fold_right (fun e acc => snd e + acc) 0 idx.

(* Index.GetSupervoxels (index.go:208) as a duplicate-free list *)
Definition supervoxels (idx : index) : list N := nodupN (map ksv idx).
Definition sv_in (idx : index) (s : N) : bool := existsb (fun e => ksv e =? s) idx.

(* Index.GetSupervoxelCount (index.go:240) *)
Definition sv_count (idx : index) (s : N) : N :=
  fold_right (fun e acc => if ksv e =? s then snd e + acc else acc) 0 idx.

Definition block_in (idx : index) (b : N) : bool := existsb (fun e => kblock e =? b) idx.
Definition blocks_of (idx : index) : list N := nodupN (map kblock idx).

(* blocks holding at least one positive count: GetProcessedBlockIndices (index.go:303) *)
Definition live_blocks (idx : index) : list N :=
  nodupN (map kblock (filter (fun e => 0 <? snd e) idx)).

(* ---- Index.Add (index.go:405) ----
   Blocks unknown to the receiver are moved over; inside a shared block a supervoxel that is
   already present is an error ("supervoxel %d already in index"). *)
Definition idx_add (idx idx2 : index) : res index :=
  if existsb (fun e => ahas key_eqb (fst e) idx) idx2 then Err else Ok (idx ++ idx2).

(* getMergedIndex (labelidx.go:720): Add of all merged indices into a fresh one *)
Fixpoint idx_add_all (acc : index) (l : list index) : res index :=
  match l with
  | [] => Ok acc
  | i :: r => res_bind (idx_add acc i) (fun a => idx_add_all a r)
  end.

(* ---- Index.Cleave (index.go:442): (cleavedSize, remainSize, cleaved index, remaining index) ---- *)
Definition idx_cleave (idx : index) (svs : list N) : N * N * index * index :=
  let c := filter (fun e => memN (ksv e) svs) idx in
  let r := filter (fun e => negb (memN (ksv e) svs)) idx in
  (num_voxels c, num_voxels r, c, r).

(* ---- Index.ModifyBlocks (index.go:488) ---- *)
Definition wrap32 (z : Z) : N := Z.to_N (z mod 2 ^ 32).

(* one (supervoxel, block, delta) of the SupervoxelChanges *)
Definition mod_one (idx : index) (s b : N) (delta : Z) : res index :=
  if block_in idx b then
    let oldsz := cnt idx b s in
    if (delta <? 0)%Z && (oldsz <? wrap32 (- delta)) then Err
    else
      let newsz := wrap32 (Z.of_N oldsz + delta) in
      if newsz =? 0 then Ok (adel key_eqb (b, s) idx) else Ok (aset key_eqb (b, s) newsz idx)
  else if (delta <? 0)%Z then Err
  else Ok (aset key_eqb (b, s) (wrap32 delta) idx).

Definition changes := list (N * list (N * Z)).   (* supervoxel -> block -> int32 delta *)

Definition mod_blocks_of (s : N) (bcs : list (N * Z)) (acc : res index) : res index :=
  fold_left (fun a bd => res_bind a (fun i => mod_one i s (fst bd) (snd bd))) bcs acc.

(* [members]: supervoxels the caller knows to belong to the label.  The code as it stood passes
   none (None: a new index is assumed to hold the supervoxel with the label's own id);
   repo_patches/C08-3-fix passes the supervoxels the mapping resolved to the label. *)
Definition accepts (label : N) (idx : index) (members : option (list N)) (s : N) : bool :=
  match members with
  | None => memN s (match supervoxels idx with [] => [label] | l => l end)
  | Some m => memN s (supervoxels idx) || memN s m
  end.

Definition modify_blocks (label : N) (idx : index) (sc : changes) (members : option (list N)) : res index :=
  fold_left (fun a sb => if accepts label idx members (fst sb)
                         then mod_blocks_of (fst sb) (snd sb) a else a) sc (Ok idx).

(* ChangeLabelIndex (labelidx.go:695): None = no index stored *)
Definition change_label_index (label : N) (oidx : option index) (sc : changes) (members : option (list N))
  : res (option index) :=
  res_bind (modify_blocks label (match oidx with Some i => i | None => [] end) sc members)
           (fun i => Ok (match i with [] => None | _ => Some i end)).

(* ---- Block.CalcNumLabels (compressed.go:600) on the decoded label array ---- *)
Definition zget (s : N) (l : list (N * Z)) : Z :=
  match aget N.eqb s l with Some z => z | None => 0%Z end.
Fixpoint hist (arr : list N) (sign : Z) (acc : list (N * Z)) : list (N * Z) :=
  match arr with
  | [] => acc
  | l :: r => hist r sign (if l =? 0 then acc else aset N.eqb l (zget l acc + sign)%Z acc)
  end.
Definition calc_num_labels (cur : list N) (prev : option (list N)) : list (N * Z) :=
  hist cur 1 (match prev with Some p => hist p (-1) [] | None => [] end).

(* ---- aggregateBlockChanges (labelidx.go:932) ----
   blockChange = (block, delta map); svChanges[sv][block] += delta; the set of labels touched is
   computed with the mapping [mapf].  Result: the SupervoxelChanges and, per label, the
   supervoxels that resolved to it. *)
Definition agg_add (svc : changes) (s b : N) (d : Z) : changes :=
  let bc := match aget N.eqb s svc with Some l => l | None => [] end in
  aset N.eqb s (aset N.eqb b (zget b bc + d)%Z bc) svc.

Definition agg_changes (chs : list (N * list (N * Z))) : changes :=
  fold_left (fun svc ch => fold_left (fun svc' sd => agg_add svc' (fst sd) (fst ch) (snd sd)) (snd ch) svc)
            chs [].

Definition agg_labels (mapf : N -> N) (svc : changes) : list (N * list N) :=
  fold_left (fun ls sb =>
               let l := mapf (fst sb) in
               let old := match aget N.eqb l ls with Some m => m | None => [] end in
               aset N.eqb l (if l =? 0 then old else old ++ [fst sb]) ls) svc [].

(* ---- splitSupervoxelIndex (labelidx.go:789) ----
   [rl]: block -> number of voxels of the split RLEs that fall into that block (rles.Stats). *)
Definition split_sv_block (sv split remain : N) (rl : list (N * N)) (acc : res index) (e : key * N)
  : res index :=
  res_bind acc (fun idx =>
    let b := kblock e in
    let orig := snd e in
    let idx1 := adel key_eqb (b, sv) idx in
    match aget N.eqb b rl with
    | Some n =>
      let idx2 := aset key_eqb (b, split) (n mod 2 ^ 32) idx1 in
      if orig <? n then Err
      else if n =? orig then Ok idx2
      else Ok (aset key_eqb (b, remain) (orig - n mod 2 ^ 32) idx2)
    | None => Ok (aset key_eqb (b, remain) orig idx1)
    end).

Definition split_sv_index (idx : index) (sv split remain : N) (rl : list (N * N)) : res index :=
  fold_left (split_sv_block sv split remain rl) (filter (fun e => ksv e =? sv) idx) (Ok idx).

(* blocks that hold the split supervoxel (the returned svblocks) *)
Definition sv_blocks (idx : index) (sv : N) : list N :=
  map kblock (filter (fun e => ksv e =? sv) idx).

(* ---- splitIndex (labelidx.go:822) ----
   [bs]: (block, supervoxel) -> (split label, voxels split in that block)   (blockSplits)
   [sm]: supervoxel -> (split label, remain label)                          (op.SplitMap)
   Result: (index kept under the target, index of the new label). *)
Definition split_entry (bs : list (key * (N * N))) (sm : list (N * (N * N))) (e : key * N)
  : res (list (key * N) * list (key * N)) :=
  let b := kblock e in let s := ksv e in let orig := snd e in
  match aget N.eqb s sm with
  | None => Ok ([e], [])
  | Some (_, rem) =>
    match aget key_eqb (b, s) bs with
    | Some (spl, n) =>
      if orig <? n then Err
      else Ok ((if n <? orig then [((b, rem), orig - n)] else []), [((b, spl), n)])
    | None => Ok ([((b, rem), orig)], [])
    end
  end.

Fixpoint split_index (idx : index) (bs : list (key * (N * N))) (sm : list (N * (N * N)))
  : res (index * index) :=
  match idx with
  | [] => Ok ([], [])
  | e :: r =>
    res_bind (split_entry bs sm e) (fun p =>
    res_bind (split_index r bs sm) (fun q => Ok (fst p ++ fst q, snd p ++ snd q)))
  end.

(* ---- well-formedness of a stored index: unique keys, no zero count ---- *)
Definition keys_of (idx : index) : list key := map fst idx.
Fixpoint nodup_keys (l : list key) : bool :=
  match l with
  | [] => true
  | k :: r => negb (existsb (key_eqb k) r) && nodup_keys r
  end.
Definition idx_wf (idx : index) : bool :=
  nodup_keys (keys_of idx) && forallb (fun e => 0 <? snd e) idx.
