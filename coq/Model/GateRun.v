(* Model.GateRun: case type and checkers for Run/C02/cases_C02.v (no proofs).
   One case = one HTTP request sent to the real server by harness/drivers/c02, with what was
   observed: how the server answered and which store digests changed. *)
From Coq Require Import String List Bool Arith.
From DV Require Import Base.Prelude Base.GateTypes Gen.Routes Model.Gate.
Import ListNotations.
Local Open Scope string_scope.

Inductive rref :=
| QIdx (i : nat)               (* i-th entry of Gen.Routes.instance_routes *)
| QStr (pkg kw : string)       (* an instance route whose keyword is not in the table *)
| QNode (action : string)
| QRepo (action : string)
| QRepoRaw.

Inductive c02case :=
(* mode: bit 0 read-only, bit 1 full-write, bit 2 admin token configured and presented.
   target: 0 = V (committed, the protected version), 1 = W (committed sibling), 2 = U (open child of V),
           3 = X (committed HEAD of its own branch, protected like V).  The URL may name the node by its
           uuid or by any other reference form (prefix, uuid:branch, :branch, branch~n): same verdict.
   m: index into probe_methods.  unv: the instance is unversioned.
   obs: 0 passed the gate, 1 refused by the gate (400 "locked node" / "read-only mode"), 2 no route (404).
   chg: bit 1 keys/values stamped with V changed, bit 2 unversioned instance properties changed,
        bit 4 anything in the data key space changed, bit 8 V's note/log/lock changed. *)
| CReq (mode target : nat) (r : rref) (m : nat) (unv : bool) (obs chg : nat)
| CCover (pkgs : list string) (cov : list (nat * nat))
| CAlias (vforms xforms : nat)   (* how many other reference forms of V and of X were exercised *)
(* read stability: the GET snapshot of V before and after a later history.  CStable: totals;
   CStabInst: one data instance; [known] counts differences of exactly the shape of the recorded
   finding with class [code] (7: ROI partition; 8: tarsupervoxels blobs) *)
| CStable (reads nonempty differ : nat) (node_changed : bool)
| CStabInst (code reads differ known : nat).

Definition probe_methods : list string := ["get"; "head"; "post"; "put"; "delete"; "patch"].

Definition route_of (r : rref) : option route :=
  match r with
  | QIdx i => match nth_error instance_routes i with
              | Some e => Some (RInst (fst (fst e)) (snd (fst e)))
              | None => None
              end
  | QStr pkg kw => Some (RInst pkg kw)
  | QNode a => Some (RNode a)
  | QRepo a => Some (RRepo a)
  | QRepoRaw => Some RRepoRaw
  end.

Definition bit (n k : nat) : bool := Nat.odd (Nat.div n k).
Definition mode_of (n : nat) : mode := {| m_readonly := bit n 1; m_fullwrite := bit n 2 |}.
Definition admin_of (n : nat) : bool := bit n 4.

Definition obs_of (v : verdict) : nat := match v with Allow => 0 | Refuse => 1 | NoRoute => 2 end.

(* the impl-model: the server answered as the gate function says *)
Definition model_ok_req (mode target : nat) (r : rref) (m : nat) (unv : bool) (obs : nat) : bool :=
  match route_of r, nth_error probe_methods m with
  | Some rt, Some meth =>
    Nat.eqb obs (obs_of (gate (mode_of mode) (admin_of mode) (negb (Nat.eqb target 2)) (negb unv) rt meth))
  | _, _ => false
  end.

(* datatype packages the driver must be able to instantiate offline; a package of the generated
   table that is neither instantiated nor listed here as impossible offline is a coverage hole *)
Definition not_instantiable_offline : list string := ["googlevoxels"].

Definition cover_ok (pkgs : list string) (cov : list (nat * nat)) : bool :=
  (* every package of the table is accounted for *)
  forallb (fun e => smem (fst (fst e)) pkgs || smem (fst (fst e)) not_instantiable_offline) instance_routes
  (* every table entry of an instantiated package was probed with all six methods in default mode on V *)
  && forallb (fun ie =>
        let i := fst ie in let e := snd ie in
        negb (smem (fst (fst e)) pkgs)
        || existsb (fun c => Nat.eqb (fst c) i && Nat.eqb (snd c) 63) cov)
      (combine (seq 0 (length instance_routes)) instance_routes).

Definition model_ok (c : c02case) : bool :=
  match c with
  | CReq mode target r m unv obs chg => model_ok_req mode target r m unv obs
  | CCover pkgs cov => cover_ok pkgs cov
  | CAlias vforms xforms => Nat.leb 1 vforms && Nat.leb 7 xforms
  | CStable reads nonempty differ node => Nat.leb 60 nonempty
  | CStabInst code reads differ known => Nat.leb 1 reads
  end.

(* ---- the property itself as an oracle on the observations (does not use the gate function) ---- *)

Definition spec_branch_actions : list string := ["branch"; "newversion"; "tag"].
Definition spec_content_addressed : list string := ["blobstore"].   (* not versioned data *)

(* 0 = holds;
   1 = a POST/PUT/DELETE on a committed version (default or read-only mode, no admin token) was not refused;
   2 = data stamped with the committed version V, or V's note/log/lock, changed;
   3 = a GET or HEAD request changed stored state;
   4 = a request on the committed version in a mode without widening changed stored state;
   5 = read-only mode let a request other than GET/HEAD through;
   6 = content readable at V at commit time read back differently after a later history;
   7 = only the ROI partition view differs (it is computed from the instance-wide MinZ/MaxZ
       properties that writes in any version update): recorded finding;
   8 = tarsupervoxels content differs (all its blobs live at the repo's root version, whatever
       uuid a request names): recorded finding *)
Definition spec_req (mode target : nat) (r : rref) (m : nat) (unv : bool) (obs chg : nat) : nat :=
  match route_of r, nth_error probe_methods m with
  | Some rt, Some meth =>
    let ro := bit mode 1 in let fw := bit mode 2 in let admin := bit mode 4 in
    let widened := fw || admin in
    let locked := negb (Nat.eqb target 2) in
    let is_write := smem meth write_methods in
    let is_read := smem meth ["get"; "head"] in
    let protected_route :=
      match rt with
      | RInst pkg kw => negb unv && negb (smem kw spec_content_addressed) && negb (in_readonly pkg kw meth)
      | RNode a => negb (smem a spec_branch_actions)
      | RRepo a => String.eqb a "instance"
      | RRepoRaw => false
      end in
    let state_route :=   (* routes that must leave the data key space and the instance properties alone when not widened *)
      match rt with
      | RInst pkg kw => negb unv
      | RNode a => true
      | _ => false
      end in
    let protected_target := Nat.eqb target 0 || Nat.eqb target 3 in
    if (bit chg 1 || bit chg 8) && negb (protected_target && widened) then 2
    else if locked && negb widened && is_write && protected_route && Nat.eqb obs 0 then 1
    else if is_read && (bit chg 2 || bit chg 4) then 3
    else if protected_target && negb widened && state_route && (bit chg 2 || bit chg 4) then 4
    else if ro && negb admin && negb is_read && (Nat.eqb obs 0 || negb (Nat.eqb chg 0)) then 5
    else 0
  | _, _ => 0
  end.

Definition spec_class (c : c02case) : nat :=
  match c with
  | CReq mode target r m unv obs chg => spec_req mode target r m unv obs chg
  | CCover _ _ => 0
  | CAlias _ _ => 0
  | CStable reads nonempty differ node => if negb (Nat.eqb differ 0) || node then 6 else 0
  | CStabInst code reads differ known =>
    if negb (Nat.eqb differ 0) then 6
    else if Nat.eqb known 0 then 0
    else if Nat.eqb code 7 || Nat.eqb code 8 then code else 6
  end.

Fixpoint classify_from (i : nat) (l : list c02case) : list (nat * nat) :=
  match l with
  | [] => []
  | c :: r => let k := spec_class c in
              if Nat.eqb k 0 then classify_from (S i) r else (i, k) :: classify_from (S i) r
  end.
Definition c02_spec_fail (l : list c02case) : list (nat * nat) := classify_from 0 l.
Definition c02_model_mismatch (l : list c02case) : list nat := find_idx (fun c => negb (model_ok c)) l.
