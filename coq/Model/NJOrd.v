(* Model.NJOrd: updateJSON (datatype/neuronjson/neuronjson.go:1296) with the iteration order of every
   `for … range <map>` loop left open.  Go does not specify the order in which a map is ranged, and
   says of entries created while ranging that each "may be produced during the iteration or may be
   skipped".  [orders] supplies, loop by loop, the sequence in which the keys / entries are visited;
   [fair] says what Go guarantees of such a sequence.  The step functions are those of Model.NJ
   (one loop body each); Model.NJ.updateJSON is the instance in which every loop visits its map in
   the order of the association list.  Definitions only (Proofs/NJOrd.v: every fair order gives the
   same finite map). *)
From Coq Require Import Permutation.
From DV Require Import Base.Prelude Model.NJ.
Local Open Scope N_scope.

Record orders := mkOrd {
  (* loop "remove fields that are being set to null" (ranges newData WHILE deleting the null
     entries and creating <field>_user / <field>_time entries): the keys in the order visited;
     given the keys newData has when the loop starts; may also name entries created meanwhile,
     any number of times — a visit reads the entry as it is at that moment *)
  o_null : list bytes -> list bytes;
  o_new : obj -> obj;                    (* loops "determine if any fields are being set…": range newData *)
  o_carry : obj -> obj;                  (* loop "carry forward": range origData *)
  o_stamp : list bytes -> list bytes;    (* loop "add _user and _time fields": range newlySet *)
  o_keep : list bytes -> list bytes;     (* loop "keep _user and _time fields" (replace): range newFields *)
}.

Definition fair (sg : orders) : Prop :=
  (forall l, incl l (o_null sg l)) /\
  (forall m, Permutation (o_new sg m) m) /\
  (forall m, Permutation (o_carry sg m) m) /\
  (forall l, Permutation (o_stamp sg l) l) /\
  (forall l, Permutation (o_keep sg l) l).

(* every loop in list order *)
Definition ord_id : orders := mkOrd (fun l => l) (fun m => m) (fun m => m) (fun l => l) (fun l => l).
(* concrete fair orders evaluated by Run/cases_C16.v next to the implementation's answers *)
Definition rot {A} (l : list A) : list A := match l with [] => [] | x :: r => r ++ [x] end.
Definition ord_rev : orders := mkOrd (@rev _) (@rev _) (@rev _) (@rev _) (@rev _).
Definition ord_rot : orders := mkOrd rot rot (fun m => rot (rot m)) (fun l => rev (rot l)) rot.
(* the null loop also visits the stamps it creates, and everything twice *)
Definition ord_revisit : orders :=
  mkOrd (fun l => rev l ++ map fuser l ++ map ftime l ++ l) (fun m => m) (@rev _) rot (@rev _).

Section UpdateOrd.
Variables (user : bytes) (conds : list bytes) (replace : bool) (timeStr : bytes).
Variable sg : orders.

(* one visit of the null loop: the value is the one newData holds NOW (read while written);
   state = newData, deleted_fields, origData *)
Definition null_visit (new0 : obj) (st : obj * list bytes * option obj) (f : bytes) : obj * list bytes * option obj :=
  let '(acc, del, o) := st in
  match oget f acc with
  | Some JNull => (null_step user timeStr new0 acc f, f :: del, option_map (odel f) o)
  | _ => st
  end.

(* newlySet when origData == nil: ranged entry by entry *)
Definition newly_nil (m : obj) : list bytes := dom m ++ map strip5 (filter is_userf (dom m)).

Definition updateJSON_ord (orig : option obj) (new0 : obj) : option obj * obj :=
  let '(new1, deleted, orig1) := fold_left (null_visit new0) (o_null sg (dom new0)) (new0, [], orig) in
  match orig1 with
  | None =>
      let ns := newly_nil (o_new sg new1) in
      (orig1, fold_left (stamp_step user timeStr deleted ns) (o_stamp sg ns) new1)
  | Some o1 =>
      let ranged := dom (o_new sg new1) in
      let ns0 := filter (fun f => negb (omem f o1) || is_meta f ||
                                  negb (match oget f new1, oget f o1 with
                                        | Some a, Some b => json_eqb a b
                                        | _, _ => false end)) ranged in
      let newFields := filter (fun f => negb (is_meta f)) ranged in
      let '(new2, ns) := if replace then (new1, ns0)
                         else fold_left (carry_step conds new1) (o_carry sg o1) (new1, ns0) in
      let new3 := fold_left (stamp_step user timeStr deleted ns) (o_stamp sg ns) new2 in
      let new4 := if replace then fold_left (keep_step user timeStr deleted o1) (o_keep sg newFields) new3 else new3 in
      (orig1, new4)
  end.
End UpdateOrd.

(* equality of finite maps represented by association lists *)
Definition oeq (a b : obj) : Prop := forall k, oget k a = oget k b.
Definition oeq_opt (a b : option obj) : Prop :=
  match a, b with Some x, Some y => oeq x y | None, None => True | _, _ => False end.
(* the same Go map written down as two association lists *)
Definition same_map (a b : obj) : Prop := NoDup (dom a) /\ Permutation a b.
Definition same_map_opt (a b : option obj) : Prop :=
  match a, b with Some x, Some y => same_map x y | None, None => True | _, _ => False end.
