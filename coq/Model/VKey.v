(* Model.VKey: one type key of a versioned data instance in the badger store, at the granularity of
   the store's read-write TRANSACTIONS (definitions only).

   storage/badger keeps, per version, a data key (the value) and a tombstone key (the key was
   deleted in this version).  A read at a version walks the version's ancestry, nearest first, and
   answers with the first version that holds either: the value, or "absent" for a tombstone.
   BadgerDB.Put sets the data key and removes the tombstone; BadgerDB.Delete removes the data key
   and sets the tombstone.  A process death keeps the transactions that committed and nothing of
   the one in flight (badger's contract), so the states a crash can leave behind a store call are
   the prefixes of its LIST OF TRANSACTIONS -- not of its list of key writes.  How many
   transactions each call issues is read off the source on every run (Gen/Locks.v, badger_txns). *)
From DV Require Import Base.Prelude Model.Persist.
From Coq Require Import String.
Import List ListNotations.
Local Open Scope N_scope.

(* version -> value, version -> tombstone *)
Record vkey := { vk_val : list (N * N); vk_tomb : list (N * unit) }.

Inductive prim :=
| SetVal (ver x : N)
| DelVal (ver : N)
| SetTomb (ver : N)
| DelTomb (ver : N).

Definition apply_prim (s : vkey) (p : prim) : vkey :=
  match p with
  | SetVal ver x => {| vk_val := aset ver x (vk_val s); vk_tomb := vk_tomb s |}
  | DelVal ver => {| vk_val := adel ver (vk_val s); vk_tomb := vk_tomb s |}
  | SetTomb ver => {| vk_val := vk_val s; vk_tomb := aset ver tt (vk_tomb s) |}
  | DelTomb ver => {| vk_val := vk_val s; vk_tomb := adel ver (vk_tomb s) |}
  end.

(* a transaction: its key writes, all or nothing; a store call: its transactions, in order *)
Definition txn := list prim.
Definition apply_txn (s : vkey) (t : txn) : vkey := fold_left apply_prim t s.
Definition apply_txns (s : vkey) (ts : list txn) : vkey := fold_left apply_txn ts s.

(* read at a version whose ancestry (itself first) is [path] *)
Fixpoint vread (s : vkey) (path : list N) : option N :=
  match path with
  | [] => None
  | v :: rest =>
    match aget v (vk_val s) with
    | Some x => Some x
    | None => if amem v (vk_tomb s) then None else vread s rest
    end
  end.

(* the store calls as the source has them (one transaction each) *)
Definition put_call (ver x : N) : list txn := [[SetVal ver x; DelTomb ver]].
Definition delete_call (ver : N) : list txn := [[DelVal ver; SetTomb ver]].
(* a Delete that commits the removal of the value before it writes the tombstone *)
Definition delete_call_split (ver : N) : list txn := [[DelVal ver]; [SetTomb ver]].

(* what a process death during the call can leave: k transactions committed *)
Definition crash_state (s : vkey) (call : list txn) (k : nat) : vkey := apply_txns s (firstn k call).

(* the generated table (function, read-write transactions, read-only transactions): every listed
   store call issues exactly one read-write transaction *)
Definition one_write_txn (l : list (string * nat * nat)) : bool :=
  forallb (fun t => Nat.eqb (snd (fst t)) 1) l.
Definition name_put : string := "BadgerDB.Put".
Definition name_delete : string := "BadgerDB.Delete".
Definition lists_call (name : string) (l : list (string * nat * nat)) : bool :=
  existsb (fun t => String.eqb (fst (fst t)) name) l.
