(* Model.BlockOpsRun: case type and checkers for Run/cases_C10.v (no proofs).
   A case is a chain of operations applied by Go to a block; every step records the block Go
   returned (serialised), the sizes it reported and the digest of its MakeLabelVolume.
   [model_ok]: each step of the model, applied to the block Go had before that step, yields the
   block Go has after it.  [spec_class]: the chain of voxel-wise reference operations on the plain
   array gives the arrays Go's blocks decode to, and the reported sizes are the true counts. *)
From DV Require Import Base.Prelude Base.Int Base.BitPack Model.Block Model.BlockViews Model.BlockRun
     Model.BlockOps Model.Downres Model.DownresRun Gen.Consts.
Local Open Scope N_scope.

Inductive op :=
| OMerge (target : N) (merged : list N)
| OReplace (target newLabel : N)
| OReplaceMany (m : list (N * N))
| OSplit (target newLabel : N) (rles : list rle)
| OSplitSV (sv splitSV remainSV : N) (rles : list rle)
| OSplitSVs (rles : list rle) (sv : list (N * (N * N)))
(* Block.Downres onto the current block (the receiver), eight optional octants given as arrays *)
| ODown (octs : list (option (list paint))).

(* what Go returned for one step: block bytes (None: nil block), two reported numbers, digest of
   the decoded result *)
Record step := { s_bytes : res (option bytes); s_n1 : N; s_n2 : N; s_dec : N }.

Inductive c10case :=
| CChain (gx gy gz : N) (ps : list paint) (bx by_ bz : Z) (go0 : res bytes) (ops : list op) (steps : list step).

(* ---- voxel-wise reference operations on arrays (the specification) ---- *)

Definition covered (rles : list rle) (x y z : Z) : bool :=
  existsb (fun r : rle => let '(rx, ry, rz, len) := r in
                    Z.eqb ry y && Z.eqb rz z && Z.leb rx x && Z.ltb x (rx + len)%Z) rles.

(* apply f to the voxels under the runs (block at voxel offset off), positions by coordinates *)
Definition map_under (a : list N) (nx ny nz : N) (offx offy offz : Z) (rles : list rle) (f : N -> N) : list N :=
  let cov := flat_map (fun z => flat_map (fun y => map (fun x =>
               covered rles (offx + Z.of_N x)%Z (offy + Z.of_N y)%Z (offz + Z.of_N z)%Z) (nseq nx)) (nseq ny)) (nseq nz) in
  map (fun p : bool * N => if fst p then f (snd p) else snd p) (combine cov a).

Definition diff_count (a a' : list N) : N :=
  N.of_nat (length (filter (fun p : N * N => negb (fst p =? snd p)) (combine a a'))).

(* reference result: new array (None: operation declares the block untouched/nil), n1, n2 *)
Definition op_ref (o : op) (a : list N) (nx ny nz : N) (offx offy offz : Z) : option (list N) * N * N :=
  match o with
  | OMerge target merged => (Some (map (fun l => if mem l merged then target else l) a), 0, 0)
  | OReplace target newLabel => (Some (map (fun l => if l =? target then newLabel else l) a), count_eq a target, 0)
  | OReplaceMany m => (Some (map (fun l => match assoc m l with Some v => v | None => l end) a), 0, 0)
  | OSplit target newLabel rles =>
    if count_eq a target =? 0 then (None, 0, 0)
    else let a' := map_under a nx ny nz offx offy offz rles (fun l => if l =? target then newLabel else l) in
         (Some a', count_eq a target - diff_count a a', diff_count a a')
  | OSplitSV sv splitSV remainSV rles =>
    let a1 := map_under a nx ny nz offx offy offz rles (fun l => if l =? sv then splitSV else l) in
    (Some (map (fun l => if l =? sv then remainSV else l) a1), count_eq a1 sv, diff_count a a1)
  | OSplitSVs rles sv =>
    let a1 := map_under a nx ny nz offx offy offz rles (fun l => match assoc2 sv l with Some (s, _) => s | None => l end) in
    (Some (map (fun l => match assoc2 sv l with Some (_, r) => r | None => l end) a1), 0, 0)
  | ODown octs =>
    match dr_ref a (map (fun o => match o with Some ps => Some (expand nx ny nz ps) | None => None end) octs) nx ny nz with
    | Ok a' => (Some a', 0, 0)
    | _ => (None, 0, 0)
    end
  end.

(* ---- model step on Go's previous block ---- *)

Definition res_block_eqb (r : res (option block)) (go : res (option bytes)) : bool :=
  match r, go with
  | Ok (Some b), Ok (Some bs) => bytes_eqb (marshal b) bs
  | Ok None, Ok None => true
  | Err, Err => true
  | Panic, Panic => true
  | _, _ => false
  end.

Definition tbl_of (go : res (option bytes)) : list N -> list N :=
  fun _ => match go with
           | Ok (Some bs) => match unmarshal bs with Ok b => b_labels b | _ => [] end
           | _ => []
           end.

Definition lift {A} (r : res A) (f : A -> option block * N * N) : res (option block) * N * N :=
  match r with Ok a => let '(b, n1, n2) := f a in (Ok b, n1, n2) | Err => (Err, 0, 0) | Panic => (Panic, 0, 0) end.

(* [fixed]: which getNumVoxels the step uses *)
Definition model_step (fixed : bool) (o : op) (b : block) (bx by_ bz : Z) (go : step) : res (option block) * N * N :=
  match o with
  | OMerge target merged =>
    (* the slot Go re-used when the target was absent: the slot the merged indices were redirected
       to in SBIndices; if no sub-block refers to a merged slot, the slot where the target now sits
       (with target 0 all merged slots read 0, so the table alone would not tell) *)
    let mi := merged_indices (b_labels b) merged in
    let choice := match s_bytes go with
                  | Ok (Some bs) =>
                    match unmarshal bs with
                    | Ok b' =>
                      match find (fun p : N * N => mem (fst p) mi) (combine (b_idx b) (b_idx b')) with
                      | Some p => snd p
                      | None => match find (fun p : N * N => mem (fst p) mi && (snd p =? target))
                                           (combine (nseq (N.of_nat (length (b_labels b')))) (b_labels b')) with
                                | Some p => fst p
                                | None => 0
                                end
                      end
                    | _ => 0 end
                  | _ => 0 end in
    lift (merge_labels b target merged choice) (fun b' => (Some b', 0, 0))
  | OReplace target newLabel => lift (replace_label fixed b target newLabel) (fun p => (Some (fst p), snd p, 0))
  | OReplaceMany m => let '(b', _) := replace_labels b m in (Ok (Some b'), 0, 0)
  | OSplit target newLabel rles =>
    lift (split_slow (tbl_of (s_bytes go)) b bx by_ bz target newLabel rles) (fun p => let '(ob, k, s) := p in (ob, k, s))
  | OSplitSV sv splitSV remainSV rles =>
    lift (split_supervoxel (tbl_of (s_bytes go)) b bx by_ bz sv splitSV remainSV rles)
         (fun p => let '(b', k, s) := p in (Some b', k, s))
  | OSplitSVs rles sv =>
    lift (split_supervoxels (tbl_of (s_bytes go)) b bx by_ bz rles sv) (fun b' => (Some b', 0, 0))
  | ODown octs =>
    let nx := 8 * b_gx b in let ny := 8 * b_gy b in let nz := 8 * b_gz b in
    match mapR (fun o : option (list paint) =>
                  match o with
                  | None => Ok None
                  | Some ps => match encode_canon (expand nx ny nz ps) nx ny nz 0 0 0 (b_gx b) (b_gy b) (b_gz b) with
                               | Ok ob => Ok (Some ob) | Err => Err | Panic => Panic end
                  end) octs with
    | Ok obs => lift (downres true (tbl_of (s_bytes go)) b obs) (fun b' => (Some b', 0, 0))
    | Err => (Err, 0, 0)
    | Panic => (Panic, 0, 0)
    end
  end.

Fixpoint chain_ok (fixed : bool) (prev : bytes) (bx by_ bz : Z) (ops : list op) (steps : list step) : bool :=
  match ops, steps with
  | [], [] => true
  | o :: ops', st :: steps' =>
    match unmarshal prev with
    | Ok b =>
      let '(r, n1, n2) := model_step fixed o b bx by_ bz st in
      res_block_eqb r (s_bytes st) && (n1 =? s_n1 st) && (n2 =? s_n2 st)
      && match s_bytes st with
         | Ok (Some bs) => chain_ok fixed bs bx by_ bz ops' steps'
         | Ok None => chain_ok fixed prev bx by_ bz ops' steps'     (* nil block: the chain continues on the same block *)
         | _ => true
         end
    | _ => false
    end
  | _, _ => false
  end.

(* the check accepts the code as found or the repaired getNumVoxels *)
Definition model_ok (c : c10case) : bool :=
  match c with
  | CChain gx gy gz ps bx by_ bz go0 ops steps =>
    match go0 with
    | Ok bs => chain_ok true bs bx by_ bz ops steps || chain_ok false bs bx by_ bz ops steps
    | _ => false
    end
  end.

(* ---- the property on Go's outputs ----
   0 holds; 1 panic; 2 decoded result differs from the reference; 3 reported size differs from the
   true count; 4 an operation failed on a legal input; 5 nil/non-nil result disagrees;
   6 (dedicated, known) relabelling label 0 on a block with uninitialised sub-blocks *)
(* a client-made block with uninitialised sub-blocks (NumSBLabels = 0: voxels are 0 without a table slot) *)
Definition has_uninit (bs : bytes) : bool :=
  match unmarshal bs with Ok b => existsb (N.eqb 0) (b_nsb b) | _ => false end.

(* does the operation relabel label 0? *)
Definition touches_zero (o : op) : bool :=
  match o with
  | OMerge _ merged => mem 0 merged
  | OReplace target _ => target =? 0
  | OReplaceMany m => match assoc m 0 with Some _ => true | None => false end
  | _ => false
  end.

Fixpoint chain_spec (prev : bytes) (a : list N) (nx ny nz : N) (offx offy offz : Z) (ops : list op) (steps : list step) : nat :=
  match ops, steps with
  | o :: ops', st :: steps' =>
    let '(oa, n1, n2) := op_ref o a nx ny nz offx offy offz in
    (* known finding (class 6): a table edit of label 0 does not reach the implicit zeros of
       uninitialised sub-blocks *)
    let known := has_uninit prev && touches_zero o in
    match s_bytes st with
    | Panic => 1%nat
    | Err => 4%nat
    | Ok None => match oa with
                 | None => chain_spec prev a nx ny nz offx offy offz ops' steps'
                 | Some _ => 5%nat
                 end
    | Ok (Some bs) =>
      match oa with
      | None => 5%nat
      | Some a' =>
        if negb (s_dec st =? digest a') then (if known then 6%nat else 2%nat)
        else if negb ((n1 =? s_n1 st) && (n2 =? s_n2 st)) then (if known then 6%nat else 3%nat)
        else chain_spec bs a' nx ny nz offx offy offz ops' steps'
      end
    end
  | _, _ => 0%nat
  end.

Definition spec_class (c : c10case) : nat :=
  match c with
  | CChain gx gy gz ps bx by_ bz go0 ops steps =>
    let nx := 8 * gx in let ny := 8 * gy in let nz := 8 * gz in
    match go0 with
    | Ok bs0 => chain_spec bs0 (expand nx ny nz ps) nx ny nz (bx * Z.of_N nx)%Z (by_ * Z.of_N ny)%Z (bz * Z.of_N nz)%Z ops steps
    | Err => 4%nat
    | Panic => 1%nat
    end
  end.

Fixpoint classify_from (i : nat) (l : list c10case) : list (nat * nat) :=
  match l with
  | [] => []
  | c :: r => let k := spec_class c in
              if Nat.eqb k 0 then classify_from (S i) r else (i, k) :: classify_from (S i) r
  end.
Definition c10_spec_fail (l : list c10case) : list (nat * nat) := classify_from 0 l.
Definition c10_model_mismatch (l : list c10case) : list nat := find_idx (fun c => negb (model_ok c)) l.
