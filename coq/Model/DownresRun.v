(* Model.DownresRun: case type and checkers for Run/cases_C14.v (no proofs).
   CDown: labels.Block.Downres on a block and eight optional octant blocks (package level).
   CVote: labels.DownresLabels on a small array (the vote, array domain).
   CHttp: a labelmap instance with down-sampling enabled: writes through the HTTP API, then the
          label arrays read back at every scale (digests), compared level against level. *)
From DV Require Import Base.Prelude Base.Int Base.BitPack Model.Block Model.BlockRun Model.Downres Model.DownresPyr Gen.Consts.
Local Open Scope N_scope.

(* one step of a labelmap history.  Boxes are in voxels of the level written, aligned to blocks.
   WRaw: POST raw with mutate (level 0; pyramid refreshed).
   WBlocks scale downres legal: POST blocks at [scale]; the pyramid is refreshed only if [downres];
     [legal] = false for the documented illegal combinations (downres with scale > 0, unknown
     compression), which must be refused and change nothing.
   WRelabel downres: a split (body split or supervoxel split): a voxel of the box with label l becomes
     tbl(l, m) where m = 1 inside the split volume (the non-zero voxels of [mask]) and 0 outside; labels
     without an entry stay.  The table is read off Go's level 0 by the driver and is pinned by the
     level-0 digest.  [legal] = false for a body split outside the contract (an empty split volume or the
     whole body): it must be refused and change nothing (a supervoxel split accepts both). *)
Inductive hwrite :=
| WRaw (ox oy oz : Z) (sz : N * N * N) (ps : list paint)
| WBlocks (scale : N) (downres legal : bool) (ox oy oz : Z) (sz : N * N * N) (ps : list paint)
| WRelabel (downres legal : bool) (ox oy oz : Z) (sz : N * N * N) (mask : list paint) (tbl : list (N * N * N)).

Inductive c14case :=
| CDown (gx gy gz : N) (bps : list paint) (octs : list (option (list paint)))
        (go_res : res bytes) (go_dec : N)
| CVote (nx ny nz : N) (ps : list paint) (go_lo : res (list N))
  (* writes: (offset x y z in voxels, size in voxels, paints for that box); window: offset and size at
     scale 0; go_status: HTTP class of each write; go_levels: digest of GET raw at scale 0,1,2.. *)
| CHttp (maxlevel : N) (writes : list (Z * Z * Z * (N * N * N) * list paint)) (wx wy wz : Z) (wn : N * N * N)
        (go_status : list N) (go_levels : list (res N))
  (* a history with the other ways of changing label data (see [hwrite]); bs = the instance's BlockSize *)
| CHist (maxlevel : N) (bs : N * N * N) (writes : list hwrite) (wx wy wz : Z) (wn : N * N * N)
        (go_status : list N) (go_levels : list (list (res N)))    (* the levels read back after EVERY step *)
  (* a history over a version DAG: every write carries the version it goes to: 0 = the root (before it is
     committed), 1 = the newversion child of the committed root, 2 = its branch child (a sibling of 1); both
     children are open and written in any interleaving.  go_levels: after EVERY step, for every version
     that exists then (the root alone before the fork, afterwards child 1 then child 2), all levels *)
| CDag (maxlevel : N) (bs : N * N * N) (writes : list (N * hwrite)) (wx wy wz : Z) (wn : N * N * N)
       (go_status : list N) (go_levels : list (list (list (res N)))).

Definition res_eqb {A} (eqb : A -> A -> bool) (a b : res A) : bool :=
  match a, b with
  | Ok x, Ok y => eqb x y
  | Err, Err => true
  | Panic, Panic => true
  | _, _ => false
  end.

(* ---- reference (specification) ---- *)

(* the documented result of Block.Downres: a voxel in the eighth of a given octant is the vote of
   the eight octant voxels under it, any other voxel keeps the block's value *)
Definition dr_ref (old : list N) (harrs : list (option (list N))) (nx ny nz : N) : res (list N) :=
  let hrs := map (fun o => match o with Some h => Some (rows nx h) | None => None end) harrs in
  let ors := rows nx old in
  mapR (fun p => let x := p mod nx in let y := (p / nx) mod ny in let z := p / (nx * ny) in
                 let ox := x / (nx / 2) in let oy := y / (ny / 2) in let oz := z / (nz / 2) in
                 match nth_N hrs (oz * 4 + oy * 2 + ox) with
                 | Some (Some rs) =>
                   match eight rs ny (x - ox * (nx / 2)) (y - oy * (ny / 2)) (z - oz * (nz / 2)) with
                   | Ok ls => Ok (vote ls) | Err => Err | Panic => Panic end
                 | _ => opt_res (vol_at ors (z * ny + y) x)
                 end)
       (nseq (nx * ny * nz)).

(* world of the HTTP cases: a window [w, w+wn)^3 of scale-0 voxels (wn a multiple of 2^maxlevel),
   initially 0, painted by the writes in order *)
Definition in_write (w : Z * Z * Z * (N * N * N) * list paint) (x y z : Z) : option N :=
  let '(ox, oy, oz, (sx, sy, sz), ps) := w in
  if (Z.leb ox x && Z.ltb x (ox + Z.of_N sx) && Z.leb oy y && Z.ltb y (oy + Z.of_N sy)
      && Z.leb oz z && Z.ltb z (oz + Z.of_N sz))%Z
  then Some (paints_at ps (Z.to_N (x - ox)) (Z.to_N (y - oy)) (Z.to_N (z - oz)) 0)
  else None.

Fixpoint world_at (ws : list (Z * Z * Z * (N * N * N) * list paint)) (x y z : Z) (cur : N) : N :=
  match ws with
  | [] => cur
  | w :: r => world_at r x y z (match in_write w x y z with Some l => l | None => cur end)
  end.

Definition level0 (ws : list (Z * Z * Z * (N * N * N) * list paint)) (wx wy wz : Z) (wn : N * N * N) : list N :=
  let '(nx, ny, nz) := wn in
  flat_map (fun z => flat_map (fun y => map (fun x =>
    world_at ws (wx + Z.of_N x) (wy + Z.of_N y) (wz + Z.of_N z) 0) (nseq nx)) (nseq ny)) (nseq nz).

(* expected digests of the levels 0..maxlevel over the window (sizes halve per level) *)
Fixpoint levels_from (a : list N) (nx ny nz : N) (k : nat) : list (res N) :=
  match k with
  | O => [Ok (digest a)]
  | S k' => Ok (digest a) ::
            match downres_labels a nx ny nz with
            | Ok lo => levels_from lo (nx / 2) (ny / 2) (nz / 2) k'
            | Err => [Err]
            | Panic => [Panic]
            end
  end.

(* ---- histories: the state is the list of level arrays over the window ---- *)

Definition zbox := (Z * Z * Z * (Z * Z * Z))%type.   (* low corner, high corner (exclusive) *)
Definition in_zbox (b : zbox) (x y z : Z) : bool :=
  let '(x0, y0, z0, (x1, y1, z1)) := b in
  (Z.leb x0 x && Z.ltb x x1 && Z.leb y0 y && Z.ltb y y1 && Z.leb z0 z && Z.ltb z z1)%Z.
Definition box_of (ox oy oz : Z) (sz : N * N * N) : zbox :=
  let '(sx, sy, sz') := sz in (ox, oy, oz, (ox + Z.of_N sx, oy + Z.of_N sy, oz + Z.of_N sz'))%Z.

(* the box at the next level that a refresh recomputes: the blocks of this level that meet the box,
   halved (Mutation.BlockMutated hands whole blocks to the parent's octant) *)
Definition up_box (bs : N * N * N) (b : zbox) : zbox :=
  let '(x0, y0, z0, (x1, y1, z1)) := b in
  let '(bx, by_, bz) := bs in
  let lo v s := (Z.div v (Z.of_N s) * Z.of_N s / 2)%Z in
  let hi v s := (- (Z.div (- v) (Z.of_N s)) * Z.of_N s / 2)%Z in
  (lo x0 bx, lo y0 by_, lo z0 bz, (hi x1 bx, hi y1 by_, hi z1 bz)).

(* a level array over the window at offset (wx,wy,wz), size n: every voxel through f x y z cur *)
Definition map_level (a : list N) (wx wy wz : Z) (n : N * N * N) (f : Z -> Z -> Z -> N -> N) : list N :=
  let '(nx, ny, nz) := n in
  map (fun pc : N * N => let p := fst pc in
         f (wx + Z.of_N (p mod nx))%Z (wy + Z.of_N ((p / nx) mod ny))%Z (wz + Z.of_N (p / (nx * ny)))%Z (snd pc))
      (combine (nseq (nx * ny * nz)) a).

Definition half3 (n : N * N * N) : N * N * N := let '(a, b, c) := n in (a / 2, b / 2, c / 2).
Definition zhalf (v : Z) : Z := Z.div v 2.

Fixpoint pick2 (l1 l2 : list N) (sel : list bool) : list N :=
  match l1, l2, sel with
  | a :: r1, b :: r2, s :: rs => (if s then a else b) :: pick2 r1 r2 rs
  | _, _, _ => []
  end.

(* refresh of the levels above [below]: inside the box the vote over the level beneath, outside it
   the stored value (sizes are even, so downres_labels cannot fail here; a failure empties the level
   and shows as a digest difference) *)
Fixpoint refresh (bs : N * N * N) (below : list N) (wx wy wz : Z) (n : N * N * N) (b : zbox) (above : list (list N)) : list (list N) :=
  match above with
  | [] => []
  | cur :: rest =>
    let '(nx, ny, nz) := n in
    let b' := up_box bs b in
    let n' := half3 n in
    let wx' := zhalf wx in let wy' := zhalf wy in let wz' := zhalf wz in
    let d := match downres_labels below nx ny nz with Ok lo => lo | _ => [] end in
    let cur' := pick2 d cur (map (fun v => v =? 1)
                                 (map_level cur wx' wy' wz' n' (fun x y z _ => if in_zbox b' x y z then 1 else 0))) in
    cur' :: refresh bs cur' wx' wy' wz' n' b' rest
  end.

Fixpoint tbl_find (tbl : list (N * N * N)) (l m : N) : option N :=
  match tbl with
  | [] => None
  | (l', m', new) :: r => if (l' =? l) && (m' =? m) then Some new else tbl_find r l m
  end.

(* levels st = [L0; L1; ..]; geometry of level k: offset floor(w / 2^k), size n / 2^k *)
Fixpoint at_level (k : nat) (st : list (list N)) (wx wy wz : Z) (n : N * N * N)
         (f : list N -> Z -> Z -> Z -> N * N * N -> list (list N) -> list (list N)) : list (list N) :=
  match k, st with
  | O, a :: rest => f a wx wy wz n rest
  | S k', a :: rest => a :: at_level k' rest (zhalf wx) (zhalf wy) (zhalf wz) (half3 n) f
  | _, [] => []
  end.

Definition hstep (bs : N * N * N) (st : list (list N)) (wx wy wz : Z) (n : N * N * N) (w : hwrite) : list (list N) :=
  match w with
  | WRaw ox oy oz sz ps =>
    at_level 0 st wx wy wz n (fun a wx wy wz n rest =>
      let b := box_of ox oy oz sz in
      let a' := map_level a wx wy wz n (fun x y z cur =>
                  if in_zbox b x y z then paints_at ps (Z.to_N (x - ox)) (Z.to_N (y - oy)) (Z.to_N (z - oz)) 0 else cur) in
      a' :: refresh bs a' wx wy wz n b rest)
  | WBlocks scale dr legal ox oy oz sz ps =>
    if negb legal then st else
    at_level (N.to_nat scale) st wx wy wz n (fun a wx wy wz n rest =>
      let b := box_of ox oy oz sz in
      let a' := map_level a wx wy wz n (fun x y z cur =>
                  if in_zbox b x y z then paints_at ps (Z.to_N (x - ox)) (Z.to_N (y - oy)) (Z.to_N (z - oz)) 0 else cur) in
      a' :: (if dr then refresh bs a' wx wy wz n b rest else rest))
  | WRelabel dr legal ox oy oz sz mask tbl =>
    if negb legal then st else
    at_level 0 st wx wy wz n (fun a wx wy wz n rest =>
      let b := box_of ox oy oz sz in
      let a' := map_level a wx wy wz n (fun x y z cur =>
                  if in_zbox b x y z then
                    let m := if paints_at mask (Z.to_N (x - ox)) (Z.to_N (y - oy)) (Z.to_N (z - oz)) 0 =? 0 then 0 else 1 in
                    match tbl_find tbl cur m with Some l => l | None => cur end
                  else cur) in
      a' :: (if dr then refresh bs a' wx wy wz n b rest else rest))
  end.

Fixpoint zero_levels (n : N * N * N) (k : nat) : list (list N) :=
  let '(nx, ny, nz) := n in
  repeat 0 (N.to_nat (nx * ny * nz)) :: match k with O => [] | S k' => zero_levels (half3 n) k' end.

Fixpoint hist_run (bs : N * N * N) (st : list (list N)) (ws : list hwrite) (wx wy wz : Z) (n : N * N * N) : list (list (res N)) :=
  match ws with
  | [] => []
  | w :: r => let st' := hstep bs st wx wy wz n w in
              map (fun a => Ok (digest a)) st' :: hist_run bs st' r wx wy wz n
  end.

(* the digests of all levels after each step *)
Definition hist_levels (maxlevel : N) (bs : N * N * N) (ws : list hwrite) (wx wy wz : Z) (n : N * N * N) : list (list (res N)) :=
  hist_run bs (zero_levels n (N.to_nat maxlevel)) ws wx wy wz n.

(* version DAG: one pyramid per open version; a root write (before the fork) is inherited by both
   children, a write in one child leaves its sibling as it was.  After each step every version's levels
   are what its OWN level 0 gives (per-version oracle). *)
Fixpoint dag_run (bs : N * N * N) (sa sb : list (list N)) (ws : list (N * hwrite)) (wx wy wz : Z) (n : N * N * N)
  : list (list (list (res N))) :=
  match ws with
  | [] => []
  | (v, w) :: r =>
    let sa' := if v =? 2 then sa else hstep bs sa wx wy wz n w in
    let sb' := if v =? 1 then sb else hstep bs sb wx wy wz n w in
    let dg := fun st : list (list N) => map (fun a => Ok (digest a)) st in
    (if v =? 0 then [dg sa'] else [dg sa'; dg sb']) :: dag_run bs sa' sb' r wx wy wz n
  end.

Definition dag_levels (maxlevel : N) (bs : N * N * N) (ws : list (N * hwrite)) (wx wy wz : Z) (n : N * N * N) :=
  let z := zero_levels n (N.to_nat maxlevel) in dag_run bs z z ws wx wy wz n.

Definition hist_status (ws : list hwrite) : list N :=
  map (fun w => match w with WBlocks _ _ false _ _ _ _ _ => 1 | WRelabel _ false _ _ _ _ _ _ => 1 | _ => 0 end) ws.

(* ---- the same histories through the BLOCK-level model (Model/DownresPyr.v) ----
   For a history of raw writes on an instance with a cubic BlockSize, every step is also evaluated the
   way labelmap does it: the blocks of the written box are the changed blocks (hiresCache), bexec
   (getHiresChanges with the generated parent / octant arithmetic, downresOctant with the stored
   parent as receiver, dr_arr_fast = dr_arr as Block.Downres) gives the changed blocks of every scale, which
   replace the stored ones.  The state is one association list of blocks per scale (a block not
   listed reads as zeros). *)
Definition store_of (nvox : N) (m : bmap) : bstore :=
  fun p => match bfind m p with Some a => a | None => repeat 0 (N.to_nat nvox) end.

Definition blk_of_fn (B : Z) (f : Z -> Z -> Z -> N) (c : coord) : arr :=
  let '(cx, cy, cz) := c in
  map (fun p => let p := Z.of_N p in
                f (cx * B + p mod B)%Z (cy * B + (p / B) mod B)%Z (cz * B + p / (B * B))%Z)
      (nseq (Z.to_N (B * B * B))).

Definition aligned (B : Z) (b : zbox) : bool :=
  let '(x0, y0, z0, (x1, y1, z1)) := b in
  forallb (fun v => (v mod B =? 0)%Z) [x0; y0; z0; x1; y1; z1].

(* the block coordinates of a block-aligned box *)
Definition coords_in (B : Z) (b : zbox) : list coord :=
  let '(x0, y0, z0, (x1, y1, z1)) := b in
  flat_map (fun z => flat_map (fun y => map (fun x =>
    (x0 / B + Z.of_N x, y0 / B + Z.of_N y, z0 / B + Z.of_N z)%Z)
    (nseq (Z.to_N ((x1 - x0) / B)))) (nseq (Z.to_N ((y1 - y0) / B)))) (nseq (Z.to_N ((z1 - z0) / B))).

Definition pyr_step (B : Z) (olds : list bmap) (chg0 : bmap) : list bmap :=
  let nvox := Z.to_N (B * B * B) in
  let St := fun n => store_of nvox (nth n olds []) in
  map (fun pr : nat * bmap =>
         match bexec nvox (dr_arr_fast B) chg0 St (fst pr) with
         | Ok (chg, _) => chg ++ snd pr
         | _ => []
         end)
      (combine (seq 0 (length olds)) olds).

(* the window of scale k read through the voxel view (Model/DownresPyr.v view), the blocks cut into rows first *)
Definition win_of (B : Z) (m : bmap) (wx wy wz : Z) (n : N * N * N) : list N :=
  let '(nx, ny, nz) := n in
  let mr := map (fun e : coord * arr => (fst e, rows (Z.to_N B) (snd e))) m in
  map (fun p => let X := (wx + Z.of_N (p mod nx))%Z in let Y := (wy + Z.of_N ((p / nx) mod ny))%Z in
                let Zc := (wz + Z.of_N (p / (nx * ny)))%Z in
                match find (fun e : coord * list (list N) => coord_eqb ((X / B)%Z, (Y / B)%Z, (Zc / B)%Z) (fst e)) mr with
                | Some e => vox_rows B (snd e) (X mod B) (Y mod B) (Zc mod B)
                | None => 0
                end)
      (nseq (nx * ny * nz)).

Fixpoint win_digests (B : Z) (st : list bmap) (wx wy wz : Z) (n : N * N * N) : list (res N) :=
  match st with
  | [] => []
  | m :: r => Ok (digest (win_of B m wx wy wz n))
              :: win_digests B r (zhalf wx) (zhalf wy) (zhalf wz) (half3 n)
  end.

Fixpoint pyr_run (B : Z) (st : list bmap) (ws : list hwrite) (wx wy wz : Z) (n : N * N * N) : option (list (list (res N))) :=
  match ws with
  | [] => Some []
  | WRaw ox oy oz sz ps :: r =>
    let b := box_of ox oy oz sz in
    if negb (aligned B b) then None else
    let chg0 := map (fun c => (c, blk_of_fn B (fun x y z => paints_at ps (Z.to_N (x - ox)) (Z.to_N (y - oy)) (Z.to_N (z - oz)) 0) c))
                    (coords_in B b) in
    let st' := pyr_step B st chg0 in
    match pyr_run B st' r wx wy wz n with
    | Some rest => Some (win_digests B st' wx wy wz n :: rest)
    | None => None
    end
  | _ :: _ => None
  end.

(* None: the history is outside the block-level evaluation (other write kinds, non-cubic blocks, unaligned box) *)
Definition pyr_levels (maxlevel : N) (bs : N * N * N) (ws : list hwrite) (wx wy wz : Z) (n : N * N * N) : option (list (list (res N))) :=
  let '(bx, by_, bz) := bs in
  if negb ((bx =? by_) && (by_ =? bz) && N.even bx && (0 <? bx)) then None
  else pyr_run (Z.of_N bx) (repeat [] (S (N.to_nat maxlevel))) ws wx wy wz n.

(* ---- checks ---- *)

Definition blocks_of (bps : list paint) (octs : list (option (list paint))) (gx gy gz : N)
  : res (block * list (option block)) :=
  let mk ps := encode_canon (expand (8 * gx) (8 * gy) (8 * gz) ps) (8 * gx) (8 * gy) (8 * gz) 0 0 0 gx gy gz in
  match mk bps with
  | Ok b =>
    match mapR (fun o => match o with
                         | None => Ok None
                         | Some ps => match mk ps with Ok ob => Ok (Some ob) | Err => Err | Panic => Panic end
                         end) octs with
    | Ok obs => Ok (b, obs)
    | Err => Err | Panic => Panic
    end
  | Err => Err | Panic => Panic
  end.

Definition go_tbl (go : res bytes) : list N -> list N :=
  fun _ => match go with Ok bs => match unmarshal bs with Ok b => b_labels b | _ => [] end | _ => [] end.

Definition marshal_res (r : res block) : res bytes :=
  match r with Ok b => Ok (marshal b) | Err => Err | Panic => Panic end.

(* implementation = model (code as found or repaired setBlank) *)
Definition model_ok (c : c14case) : bool :=
  match c with
  | CDown gx gy gz bps octs go_res go_dec =>
    match blocks_of bps octs gx gy gz with
    | Ok (b, obs) =>
      res_eqb bytes_eqb (marshal_res (downres true (go_tbl go_res) b obs)) go_res
      || (* the two variants differ only when the shortcut fires differently *)
         match set_blank false obs with
         | Some l => res_eqb bytes_eqb (Ok (marshal (solid_block l gx gy gz))) go_res
         | None => false
         end
    | _ => false
    end
  | CVote nx ny nz ps go_lo =>
    res_eqb (list_eqb N.eqb) (downres_labels (expand nx ny nz ps) nx ny nz) go_lo
  | CHttp _ _ _ _ _ _ _ _ => true
  | CHist maxlevel bs writes wx wy wz wn go_status go_levels =>
    (* raw-write histories on cubic blocks: the block-level model must give the levels Go returned *)
    if existsb (fun s => negb (s =? 0)) go_status then true else
    match pyr_levels maxlevel bs writes wx wy wz wn with
    | Some lv => list_eqb (list_eqb (res_eqb N.eqb)) lv go_levels
    | None => true
    end
  | CDag _ _ _ _ _ _ _ _ _ => true
  end.

(* the property on the implementation's outputs.
   0 holds; 1 panic (HTTP 500 with a recovered panic); 2 Block.Downres result differs from the
   documented down-sampling; 3 DownresLabels differs from the vote; 4 a level read over HTTP differs
   from the down-sampling of the level below (CHist: from the level the history leaves there; CDag: in ANY
   open version, from what that version's own level 0 gives); 5 a legal
   write or read was refused, or an illegal option combination accepted *)
Definition spec_class (c : c14case) : nat :=
  match c with
  | CDown gx gy gz bps octs go_res go_dec =>
    let nx := 8 * gx in let ny := 8 * gy in let nz := 8 * gz in
    match go_res with
    | Panic => 1%nat
    | Err => 5%nat
    | Ok _ =>
      match dr_ref (expand nx ny nz bps) (map (fun o => match o with Some ps => Some (expand nx ny nz ps) | None => None end) octs) nx ny nz with
      | Ok a => if go_dec =? digest a then 0%nat else 2%nat
      | _ => 5%nat
      end
    end
  | CVote nx ny nz ps go_lo =>
    match go_lo with
    | Panic => 1%nat
    | Err => 5%nat
    | Ok lo =>
      let rs := rows nx (expand nx ny nz ps) in
      if list_eqb N.eqb lo
           (flat_map (fun lz => flat_map (fun ly => map (fun lx =>
              match eight rs ny lx ly lz with Ok ls => vote ls | _ => 0 end) (nseq (nx / 2))) (nseq (ny / 2))) (nseq (nz / 2)))
      then 0%nat else 3%nat
    end
  | CHttp maxlevel writes wx wy wz wn go_status go_levels =>
    if existsb (fun s => s =? 2) go_status then 1%nat
    else if existsb (fun s => negb (s =? 0)) go_status then 5%nat
    else if existsb (fun r => match r with Panic => true | _ => false end) go_levels then 1%nat
    else if list_eqb (res_eqb N.eqb) (let '(nx, ny, nz) := wn in levels_from (level0 writes wx wy wz wn) nx ny nz (N.to_nat maxlevel)) go_levels
    then 0%nat else 4%nat
  | CHist maxlevel bs writes wx wy wz wn go_status go_levels =>
    if existsb (fun s => s =? 2) go_status then 1%nat
    else if negb (list_eqb N.eqb go_status (hist_status writes)) then 5%nat
    else if existsb (fun r => match r with Panic => true | _ => false end) (concat go_levels) then 1%nat
    else if list_eqb (list_eqb (res_eqb N.eqb)) (hist_levels maxlevel bs writes wx wy wz wn) go_levels
    then 0%nat else 4%nat
  | CDag maxlevel bs writes wx wy wz wn go_status go_levels =>
    if existsb (fun s => s =? 2) go_status then 1%nat
    else if negb (list_eqb N.eqb go_status (hist_status (map snd writes))) then 5%nat
    else if existsb (fun r => match r with Panic => true | _ => false end) (concat (concat go_levels)) then 1%nat
    else if list_eqb (list_eqb (list_eqb (res_eqb N.eqb))) (dag_levels maxlevel bs writes wx wy wz wn) go_levels
    then 0%nat else 4%nat
  end.

Fixpoint classify_from (i : nat) (l : list c14case) : list (nat * nat) :=
  match l with
  | [] => []
  | c :: r => let k := spec_class c in
              if Nat.eqb k 0 then classify_from (S i) r else (i, k) :: classify_from (S i) r
  end.
Definition c14_spec_fail (l : list c14case) : list (nat * nat) := classify_from 0 l.
Definition c14_model_mismatch (l : list c14case) : list nat := find_idx (fun c => negb (model_ok c)) l.
