(* Model.Transfer: datastore/copy_local.go copyVersions — the version-limited transfer behind
   MigrateInstance with transmit=<uuid list> ("copies the minimal kv pairs necessary to fulfil the
   passed versions").  One datum (type-specific key) at a time: the store sends its per-version entries in
   key order, i.e. by ascending version id; entries of versions that are not on the root-to-last-uuid path
   are ignored; each remaining entry is credited to the first transmitted version at or after it, a later
   entry replacing an earlier one in the same slot; then the slots are walked in transmit order and an entry
   is written (re-stamped with the transmitted version) unless it repeats the entry written last.
   [same] is that repeat test: [same_bytes] is the test of the code before the repair (value bytes only, a
   deletion marker carrying no bytes), [same_entry] the repaired one (value bytes and marker kind). *)
From DV Require Import Base.Prelude.

Inductive tent := TVal (b : bytes) | TTomb.
Definition tbytes (e : tent) : bytes := match e with TVal b => b | TTomb => [] end.
Definition is_tomb (e : tent) : bool := match e with TTomb => true | TVal _ => false end.
Definition same_bytes (a b : tent) : bool := bytes_eqb (tbytes a) (tbytes b).
Definition same_entry (a b : tent) : bool := Bool.eqb (is_tomb a) (is_tomb b) && bytes_eqb (tbytes a) (tbytes b).

Definition entries := list (nat * tent).      (* (version id, entry), in key order *)

(* the entry a reader at version t resolves to among entries of one lineage whose ids ascend:
   the last one with id <= t, else [d] *)
Fixpoint read_le (d : option tent) (es : entries) (t : nat) : option tent :=
  match es with
  | [] => d
  | (v, e) :: r => if Nat.leb v t then read_le (Some e) r t else read_le d r t
  end.

(* what a reader is handed: the bytes of a live value, nothing for a deletion or no entry *)
Definition view (o : option tent) : option bytes :=
  match o with Some (TVal b) => Some b | _ => None end.

Definition on_path (onp : nat -> bool) (es : entries) : entries := filter (fun ve => onp (fst ve)) es.
Definition above (lo : nat) (es : entries) : entries := filter (fun ve => Nat.ltb lo (fst ve)) es.

(* slot of transmitted version t when the previous transmitted version is lo *)
Definition cand (onp : nat -> bool) (es : entries) (lo t : nat) : option tent :=
  read_le None (above lo (on_path onp es)) t.

Fixpoint emit (same : tent -> tent -> bool) (onp : nat -> bool) (es : entries)
         (lo : nat) (ts : list nat) (last : option tent) : entries :=
  match ts with
  | [] => []
  | t :: r =>
    match cand onp es lo t with
    | Some e =>
      if match last with None => true | Some l => negb (same l e) end
      then (t, e) :: emit same onp es t r (Some e)
      else emit same onp es t r last
    | None => emit same onp es t r last
    end
  end.

(* the entries written to the destination for one datum; ts = transmitted version ids, ascending *)
Definition transfer (same : tent -> tent -> bool) (onp : nat -> bool) (es : entries) (ts : list nat) : entries :=
  emit same onp es 0 ts None.

(* reads along the transmitted lineage *)
Definition src_read (onp : nat -> bool) (es : entries) (t : nat) : option bytes :=
  view (read_le None (on_path onp es) t).
Definition dst_read (out : entries) (t : nat) : option bytes := view (read_le None out t).

Fixpoint ascending (lo : nat) (l : list nat) : bool :=
  match l with [] => true | x :: r => Nat.ltb lo x && ascending x r end.

Definition asc_es (lo : nat) (es : entries) : bool := ascending lo (map fst es).

Definition nonempty_values (es : entries) : bool :=
  forallb (fun ve => match snd ve with TVal [] => false | _ => true end) es.
