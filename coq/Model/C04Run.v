(* Model.C04Run: executable checkers used by Run/cases_C04.v (no proofs).

   Log cases.  One case = one log written by the real filelog engine and then cut at a contiguous
   range of byte offsets (normally EVERY offset 0..|file|).  What ReadAll / StreamAll returned at each
   offset is given in a compact form that is expanded here against the records of the log:
     OP k        the first k records, exactly
     OD k m z    the first k records, then record k's type with the first m bytes of its payload
                 followed by z zero bytes (a padded record)
     OA k        the first k records followed by the records appended after the cut
     OX          the call panicked
     OE          the call returned an error
     OR l        anything else, literally
   A segment (count, cap, r, s) says (r, s shifted as [shift] describes): for the next [count] offsets the slice returned by io.ReadAll
   has capacity [cap] (measured by the driver with the same io.ReadAll on a reader of that length),
   ReadAll gave r and StreamAll gave s. *)
From DV Require Import Base.Prelude Base.Int Model.FileLog Model.Persist Gen.Consts.
Local Open Scope N_scope.

Inductive obs :=
| OP (k : nat)
| OD (k m z : nat)
| OA (k : nat)
| OX
| OE
| OR (l : list logmsg).

Definition expand (rs after : list logmsg) (o : obs) : option lres :=
  match o with
  | OP k => if Nat.leb k (length rs) then Some (LOk (firstn k rs)) else None
  | OD k m z =>
    match nth_error rs k with
    | Some (t, d) => Some (LOk (firstn k rs ++ [(t, firstn m d ++ repeat 0 z)]))
    | None => None
    end
  | OA k => if Nat.leb k (length rs) then Some (LOk (firstn k rs ++ after)) else None
  | OX => Some LPanic
  | OE => None
  | OR l => Some (LOk l)
  end.

Definition msg_eqb (a b : logmsg) : bool := (fst a =? fst b) && bytes_eqb (snd a) (snd b).
Definition lres_eqb (a b : lres) : bool :=
  match a, b with
  | LOk x, LOk y => list_eqb msg_eqb x y
  | LPanic, LPanic => true
  | LFuel, LFuel => true
  | _, _ => false
  end.

(* snapshots: repos by root version: (root version, nodes (version, (parents, children, locked,
   branch)), data (name, instance id)); then the values read back for the workload's key probes;
   then (only for processes started after a crash, else (0,0)) the version id and the instance id
   the server handed out to a repo and an instance created after the snapshot was taken *)
Definition snap_node : Type := N * (list N * list N * bool * N).
Definition snap_repo : Type := N * list snap_node * list (N * N).
Definition snap : Type := option (list snap_repo * list N * (N * N)).

Inductive c04case :=
(* records, first offset, segments; [after] = records appended by a re-opened engine after the cut
   (empty for plain truncation cases) *)
| CLog (rs : list logmsg) (from : nat) (after : list logmsg) (segs : list (nat * nat * obs * obs))
(* the file fileLogs.Append wrote for these records, literally *)
| CEnc (rs : list logmsg) (file : bytes)
(* a workload run in a child server: operations (None = a data-store request without metadata
   writes), the metadata write trace (key classes) of the uncrashed run, cumulative metadata / data
   write counts after start-up and after each operation, the snapshot after start-up and after each
   operation, and the crash points: (metadata?, writes of that class persisted, index of the
   interrupted operation (0 = start-up), second crash after the k-th write of recovery (0 = none),
   snapshot taken by the next process (None = it did not start)) *)
| CCrash (ops : list (option pop)) (trace : list N) (cum_meta cum_data : list nat)
         (refs : list snap) (pts : list (bool * nat * nat * nat * snap)).

(* within a segment a padded record grows by one payload byte per offset: the i-th offset of a
   segment that starts with OD k m z observed OD k (m+i) (z-i) *)
Definition shift (o : obs) (i : nat) : obs :=
  match o with
  | OD k m z => OD k (m + i) (z - i)
  | _ => o
  end.

Fixpoint ramp (cap : nat) (r s : obs) (i c : nat) : list (nat * obs * obs) :=
  match c with
  | O => []
  | S c' => (cap, shift r i, shift s i) :: ramp cap r s (S i) c'
  end.

Fixpoint unroll (segs : list (nat * nat * obs * obs)) : list (nat * obs * obs) :=
  match segs with
  | [] => []
  | (c, cap, r, s) :: rest => ramp cap r s 0 c ++ unroll rest
  end.

(* the file the readers see at offset n: the cut file, re-opened for appending by an engine that
   trims the torn tail first ([trim] = true, repo_patches/C04-4-fix.diff) or not, then the appends *)
Definition file_at_g (trim : bool) (rs after : list logmsg) (n : nat) : bytes :=
  match after with
  | [] => firstn n (encode rs)
  | _ => (if trim then trim_tail (firstn n (encode rs)) else firstn n (encode rs)) ++ encode after
  end.
Definition file_at (rs after : list logmsg) (n : nat) : bytes := file_at_g false rs after n.

Definition buf_at_g (trim : bool) (rs after : list logmsg) (n cap : nat) : buf :=
  let d := file_at_g trim rs after n in
  {| b_data := d; b_stale := repeat 0 (cap - length d) |}.
Definition buf_at := buf_at_g false.

(* what the property demands at offset n: the completely written records, then the later appends *)
Definition want (rs after : list logmsg) (n : nat) : lres := LOk (complete_prefix rs n ++ after).

(* 0 holds; 1 a reader panicked; 2 a truncated / padded / invented / lost record (after plain
   truncation, or among records appended after the cut); 9 the case itself is malformed *)
Definition class_at (rs after : list logmsg) (n : nat) (x : nat * obs * obs) : nat :=
  let '(cap, r, s) := x in
  match expand rs after r, expand rs after s with
  | Some gr, Some gs =>
    if lres_eqb gr (want rs after n) && lres_eqb gs (want rs after n) then 0%nat
    else match gr, gs with
         | LPanic, _ | _, LPanic => 1%nat
         | _, _ => 2%nat
         end
  | _, _ => 9%nat
  end.

Definition ok_at (rs after : list logmsg) (n : nat) (x : nat * obs * obs) : bool :=
  let '(cap, r, s) := x in
  let check := fun trim =>
    if Nat.ltb cap (length (file_at_g trim rs after n)) then false else
    let b := buf_at_g trim rs after n cap in
    match expand rs after r, expand rs after s with
    | Some gr, Some gs =>
      (lres_eqb gr (read_all b) || lres_eqb gr (read_all_fixed b))
      && (lres_eqb gs (stream_all b) || lres_eqb gs (stream_all_fixed b))
    | _, _ => false
    end in
  check true || check false.

Fixpoint first_class (rs after : list logmsg) (n : nat) (l : list (nat * obs * obs)) : nat :=
  match l with
  | [] => 0%nat
  | x :: r => let c := class_at rs after n x in
              if Nat.eqb c 0 then first_class rs after (S n) r else c
  end.

Fixpoint all_ok (rs after : list logmsg) (n : nat) (l : list (nat * obs * obs)) : bool :=
  match l with
  | [] => true
  | x :: r => ok_at rs after n x && all_ok rs after (S n) r
  end.

(* ---- crash cases ---- *)
Definition conf : pconf := {| c_mut_start := n_md_InitialMutationID; c_stride := n_md_StrideMutationID; c_inst_start := 0 |}.

Definition canon_repo (r : prepo) : snap_repo :=
  (pr_rootv r,
   map (fun vn => (fst vn, (pn_parents (snd vn), pn_children (snd vn), pn_locked (snd vn), pn_branch (snd vn)))) (pr_nodes r),
   pr_data r).
Definition canon (m : pmgr) : list snap_repo := map (fun ib => canon_repo (snd ib)) (pobserve m).

Definition node_eqb (a b : snap_node) : bool :=
  let '(v, (p, c, l, br)) := a in let '(v', (p', c', l', br')) := b in
  (v =? v') && list_eqb N.eqb p p' && list_eqb N.eqb c c' && Bool.eqb l l' && (br =? br').
Definition nn_eqb (a b : N * N) : bool := (fst a =? fst b) && (snd a =? snd b).
Definition srepo_eqb (a b : snap_repo) : bool :=
  let '(rv, ns, d) := a in let '(rv', ns', d') := b in
  (rv =? rv') && list_eqb node_eqb ns ns' && list_eqb nn_eqb d d'.
Definition repos_eqb := list_eqb srepo_eqb.
Definition snap_eqb (a b : snap) : bool :=
  match a, b with
  | Some (r, k, _), Some (r', k', _) => repos_eqb r r' && list_eqb N.eqb k k'
  | None, None => true
  | _, _ => false
  end.
Definition snap_repos_are (s : snap) (r : list snap_repo) : bool :=
  match s with Some (r', _, _) => repos_eqb r r' | None => false end.

(* model run: states after start-up and after each operation, and each operation's writes *)
Fixpoint mrun (m : pmgr) (ops : list (option pop)) : list pmgr * list (list pwrite) :=
  match ops with
  | [] => ([], [])
  | o :: r =>
    let '(m1, ws) := match o with Some op => pstep conf m op | None => (m, []) end in
    let '(ms, wss) := mrun m1 r in (m1 :: ms, ws :: wss)
  end.

Fixpoint cumul (acc : nat) (wss : list (list pwrite)) : list nat :=
  match wss with
  | [] => []
  | ws :: r => (acc + length ws)%nat :: cumul (acc + length ws) r
  end.

Definition recover_snap (img : image) (k : nat) : option (list snap_repo * (N * N)) :=
  match recover conf img with
  | Ok (m, wr) =>
    match k with
    | O => Some (canon m, (m_vid m, m_iid m))
    | _ => match recover conf (apply_ws img (firstn k wr)) with
           | Ok (m2, _) => Some (canon m2, (m_vid m2, m_iid m2))
           | _ => None
           end
    end
  | _ => None
  end.

Definition crash_model_ok (ops : list (option pop)) (trace : list N) (cum_meta : list nat)
           (refs : list snap) (pts : list (bool * nat * nat * nat * snap)) : bool :=
  let m0 := init_mgr conf in
  let '(ms, wss) := mrun m0 ops in
  let W := init_writes conf ++ concat wss in
  list_eqb N.eqb (map wkind W) trace
  && list_eqb Nat.eqb cum_meta (length (init_writes conf) :: cumul (length (init_writes conf)) wss)
  && Nat.eqb (length refs) (S (length ops))
  && forallb (fun mr => snap_repos_are (snd mr) (canon (fst mr))) (combine (m0 :: ms) refs)
  && forallb (fun pt : bool * nat * nat * nat * snap =>
       let '(is_meta, eff, j, k, s) := pt in
       if is_meta then
         match recover_snap (apply_ws empty_image (firstn eff W)) k, s with
         | Some (r, ids), Some (r', _, ids') => repos_eqb r r' && nn_eqb ids ids'
         | None, None => true
         | _, _ => false
         end
       else
         (* a data-store write: the metadata is that of the state before the operation, or (the
            instance / repo deletions run their key deletion concurrently with the blob write) after *)
         match nth_error (m0 :: ms) (j - 1), nth_error (m0 :: ms) j, s with
         | Some m, Some m', Some (r', _, _) => repos_eqb (canon m) r' || repos_eqb (canon m') r'
         | Some m, None, Some (r', _, _) => repos_eqb (canon m) r'
         | _, _, _ => false
         end) pts.

(* ids handed out after recovery must not be in use: the new root's version id is no node's, the
   new instance's id is no instance's *)
Definition ids_fresh (s : snap) : bool :=
  match s with
  | Some (rs, _, (nv, ni)) =>
    forallb (fun r : snap_repo => let '(_, ns, d) := r in
               forallb (fun n : snap_node => negb (fst n =? nv)) ns && forallb (fun x : N * N => negb (snd x =? ni)) d) rs
  | None => true
  end.

(* the property on what the implementation showed: the next process starts, and shows the
   snapshot taken before or after the interrupted operation (4: did not start; 5: neither; 7: an id issued after
   recovery is already in use) *)
Definition crash_class (ops : list (option pop)) (refs : list snap) (pts : list (bool * nat * nat * nat * snap)) : nat :=
  fold_left (fun (acc : nat) (pt : bool * nat * nat * nat * snap) =>
    if negb (Nat.eqb acc 0) then acc else
    let '(is_meta, _, j, _, s) := pt in
    match s with
    | None => 4%nat
    | Some _ =>
      let before := nth_error refs (j - 1) in
      let after := nth_error refs j in
      let is := fun (r : option snap) => match r with Some x => snap_eqb s x | None => false end in
      if negb (ids_fresh s) then 7%nat
      else if is before || is after then 0%nat
      else
        5%nat
    end) pts 0%nat.

Definition spec_class (c : c04case) : nat :=
  match c with
  | CLog rs from after segs =>
    let l := unroll segs in
    if Nat.ltb (length (encode rs) + 1) (from + length l) then 9%nat
    else first_class rs after from l
  | CEnc _ _ => 0%nat
  | CCrash ops trace cm cd refs pts => crash_class ops refs pts
  end.

Definition model_ok (c : c04case) : bool :=
  match c with
  | CLog rs from after segs => all_ok rs after from (unroll segs)
  | CEnc rs file => bytes_eqb (encode rs) file
  | CCrash ops trace cm cd refs pts => crash_model_ok ops trace cm refs pts
  end.

Fixpoint classify_from (i : nat) (l : list c04case) : list (nat * nat) :=
  match l with
  | [] => []
  | c :: r => let k := spec_class c in
              if Nat.eqb k 0 then classify_from (S i) r else (i, k) :: classify_from (S i) r
  end.
Definition c04_spec_fail (l : list c04case) : list (nat * nat) := classify_from 0 l.
Definition c04_model_mismatch (l : list c04case) : list nat := find_idx (fun c => negb (model_ok c)) l.
