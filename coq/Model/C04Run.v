(* Model.C04Run: executable checkers used by Run/cases_C04.v (no proofs).

   Log cases.  One case = one log written by the real filelog engine and then cut at a contiguous
   range of byte offsets (normally EVERY offset 0..|file|).  What ReadAll / StreamAll returned at each
   offset is given in a compact form that is expanded here against the records of the log:
     OP k        the first k records, exactly
     OD k m z    the first k records, then record k's type with the first m bytes of its payload
                 followed by z zero bytes (a padded record)
     OA k        the first k records followed by the records appended after the cut
     OX          the call panicked
     OE          the call returned an error
     OR l        anything else, literally
   A segment (count, cap, r, s) says (r, s shifted as [shift] describes): for the next [count] offsets the slice returned by io.ReadAll
   has capacity [cap] (measured by the driver with the same io.ReadAll on a reader of that length),
   ReadAll gave r and StreamAll gave s. *)
From DV Require Import Base.Prelude Base.Int Model.FileLog.
Local Open Scope N_scope.

Inductive obs :=
| OP (k : nat)
| OD (k m z : nat)
| OA (k : nat)
| OX
| OE
| OR (l : list logmsg).

Definition expand (rs after : list logmsg) (o : obs) : option lres :=
  match o with
  | OP k => if Nat.leb k (length rs) then Some (LOk (firstn k rs)) else None
  | OD k m z =>
    match nth_error rs k with
    | Some (t, d) => Some (LOk (firstn k rs ++ [(t, firstn m d ++ repeat 0 z)]))
    | None => None
    end
  | OA k => if Nat.leb k (length rs) then Some (LOk (firstn k rs ++ after)) else None
  | OX => Some LPanic
  | OE => None
  | OR l => Some (LOk l)
  end.

Definition msg_eqb (a b : logmsg) : bool := (fst a =? fst b) && bytes_eqb (snd a) (snd b).
Definition lres_eqb (a b : lres) : bool :=
  match a, b with
  | LOk x, LOk y => list_eqb msg_eqb x y
  | LPanic, LPanic => true
  | LFuel, LFuel => true
  | _, _ => false
  end.

Inductive c04case :=
(* records, first offset, segments; [after] = records appended by a re-opened engine after the cut
   (empty for plain truncation cases) *)
| CLog (rs : list logmsg) (from : nat) (after : list logmsg) (segs : list (nat * nat * obs * obs))
(* the file fileLogs.Append wrote for these records, literally *)
| CEnc (rs : list logmsg) (file : bytes).

(* within a segment a padded record grows by one payload byte per offset: the i-th offset of a
   segment that starts with OD k m z observed OD k (m+i) (z-i) *)
Definition shift (o : obs) (i : nat) : obs :=
  match o with
  | OD k m z => OD k (m + i) (z - i)
  | _ => o
  end.

Fixpoint ramp (cap : nat) (r s : obs) (i c : nat) : list (nat * obs * obs) :=
  match c with
  | O => []
  | S c' => (cap, shift r i, shift s i) :: ramp cap r s (S i) c'
  end.

Fixpoint unroll (segs : list (nat * nat * obs * obs)) : list (nat * obs * obs) :=
  match segs with
  | [] => []
  | (c, cap, r, s) :: rest => ramp cap r s 0 c ++ unroll rest
  end.

(* the file the readers see at offset n *)
Definition file_at (rs after : list logmsg) (n : nat) : bytes := firstn n (encode rs) ++ encode after.

Definition buf_at (rs after : list logmsg) (n cap : nat) : buf :=
  let d := file_at rs after n in
  {| b_data := d; b_stale := repeat 0 (cap - length d) |}.

(* what the property demands at offset n: the completely written records, then the later appends *)
Definition want (rs after : list logmsg) (n : nat) : lres := LOk (complete_prefix rs n ++ after).

(* 0 holds; 1 a reader panicked; 2 a truncated / padded / invented record (plain truncation);
   3 records appended after a torn tail are mis-framed (the known finding C04-append-after-torn);
   9 the case itself is malformed *)
Definition class_at (rs after : list logmsg) (n : nat) (x : nat * obs * obs) : nat :=
  let '(cap, r, s) := x in
  match expand rs after r, expand rs after s with
  | Some gr, Some gs =>
    if lres_eqb gr (want rs after n) && lres_eqb gs (want rs after n) then 0%nat
    else match gr, gs with
         | LPanic, _ | _, LPanic => 1%nat
         | _, _ =>
           match after with
           | [] => 2%nat
           | _ :: _ => if Nat.eqb (n - length (encode (complete_prefix rs n))) 0 then 2%nat else 3%nat
           end
         end
  | _, _ => 9%nat
  end.

Definition ok_at (rs after : list logmsg) (n : nat) (x : nat * obs * obs) : bool :=
  let '(cap, r, s) := x in
  if Nat.ltb cap (length (file_at rs after n)) then false else
  let b := buf_at rs after n cap in
  match expand rs after r, expand rs after s with
  | Some gr, Some gs =>
    (lres_eqb gr (read_all b) || lres_eqb gr (read_all_fixed b))
    && (lres_eqb gs (stream_all b) || lres_eqb gs (stream_all_fixed b))
  | _, _ => false
  end.

Fixpoint first_class (rs after : list logmsg) (n : nat) (l : list (nat * obs * obs)) : nat :=
  match l with
  | [] => 0%nat
  | x :: r => let c := class_at rs after n x in
              if Nat.eqb c 0 then first_class rs after (S n) r else c
  end.

Fixpoint all_ok (rs after : list logmsg) (n : nat) (l : list (nat * obs * obs)) : bool :=
  match l with
  | [] => true
  | x :: r => ok_at rs after n x && all_ok rs after (S n) r
  end.

Definition spec_class (c : c04case) : nat :=
  match c with
  | CLog rs from after segs =>
    let l := unroll segs in
    if Nat.ltb (length (encode rs) + 1) (from + length l) then 9%nat
    else first_class rs after from l
  | CEnc _ _ => 0%nat
  end.

Definition model_ok (c : c04case) : bool :=
  match c with
  | CLog rs from after segs => all_ok rs after from (unroll segs)
  | CEnc rs file => bytes_eqb (encode rs) file
  end.

Fixpoint classify_from (i : nat) (l : list c04case) : list (nat * nat) :=
  match l with
  | [] => []
  | c :: r => let k := spec_class c in
              if Nat.eqb k 0 then classify_from (S i) r else (i, k) :: classify_from (S i) r
  end.
Definition c04_spec_fail (l : list c04case) : list (nat * nat) := classify_from 0 l.
Definition c04_model_mismatch (l : list c04case) : list nat := find_idx (fun c => negb (model_ok c)) l.
