(* Model.NJ: datatype/neuronjson — neuronjson.go (updateJSON, storeAndUpdate, PutData, DeleteData,
   read endpoints), memstore.go (memdb, addBodyID, deleteBodyID, loadMemDB, initFieldTimes,
   getMemDBbyVersion), query.go (QueryJSON parsing, checkField, queryMatch), fields.go
   (selectFields, removeReservedFields), schema.go (metadata on head vs store).
   Definitions only.  The persistent store is an abstract map bodyid -> annotation per version
   (a chain of versions); JSON text <-> Go value conversion, the regular expression engine and
   the JSON-schema validator are inputs. *)
From DV Require Import Base.Prelude Gen.Consts.
Local Open Scope N_scope.

(* ---------- JSON values as Go holds them after NeuronJSON.UnmarshalJSON ---------- *)
Inductive json :=
| JNull
| JBool (b : bool)
| JNum (z : Z)            (* integer token (uint64 / int64) *)
| JFlt (t : N)            (* non-integral float64, identified by its bit pattern *)
| JStr (s : bytes)
| JArr (l : list json)
| JObj (kv : list (bytes * json)).

(* reflect.DeepEqual on parsed values: structural (nested objects are kept with sorted keys) *)
Fixpoint json_eqb (a b : json) {struct a} : bool :=
  match a, b with
  | JNull, JNull => true
  | JBool x, JBool y => Bool.eqb x y
  | JNum x, JNum y => Z.eqb x y
  | JFlt x, JFlt y => N.eqb x y
  | JStr x, JStr y => bytes_eqb x y
  | JArr la, JArr lb =>
      (fix go (la lb : list json) {struct la} : bool :=
         match la, lb with
         | [], [] => true
         | x :: la', y :: lb' => json_eqb x y && go la' lb'
         | _, _ => false
         end) la lb
  | JObj ka, JObj kb =>
      (fix go (ka kb : list (bytes * json)) {struct ka} : bool :=
         match ka, kb with
         | [], [] => true
         | (k, x) :: ka', (k', y) :: kb' => bytes_eqb k k' && json_eqb x y && go ka' kb'
         | _, _ => false
         end) ka kb
  | _, _ => false
  end.

(* ---------- association lists standing for Go maps ---------- *)
Section Assoc.
Context {K V : Type} (keqb : K -> K -> bool).
Fixpoint aget (k : K) (m : list (K * V)) : option V :=
  match m with
  | [] => None
  | (k', v) :: r => if keqb k k' then Some v else aget k r
  end.
Fixpoint aset (k : K) (v : V) (m : list (K * V)) : list (K * V) :=
  match m with
  | [] => [(k, v)]
  | (k', v') :: r => if keqb k k' then (k, v) :: r else (k', v') :: aset k v r
  end.
Fixpoint adel (k : K) (m : list (K * V)) : list (K * V) :=
  match m with
  | [] => []
  | (k', v') :: r => if keqb k k' then adel k r else (k', v') :: adel k r
  end.
Definition amem (k : K) (m : list (K * V)) : bool :=
  match aget k m with Some _ => true | None => false end.
End Assoc.

Definition obj := list (bytes * json).            (* NeuronJSON: map[string]interface{} *)
Definition oget := @aget bytes json bytes_eqb.
Definition oset := @aset bytes json bytes_eqb.
Definition odel := @adel bytes json bytes_eqb.
Definition omem := @amem bytes json bytes_eqb.
Definition dom (o : obj) : list bytes := map fst o.
(* JSON object text -> Go map: a repeated key keeps the last value *)
Definition obj_of_list (l : list (bytes * json)) : obj :=
  fold_left (fun acc p => oset (fst p) (snd p) acc) l [].

Definition smem (x : bytes) (l : list bytes) : bool := existsb (bytes_eqb x) l.
Definition sdel (x : bytes) (l : list bytes) : list bytes := filter (fun y => negb (bytes_eqb x y)) l.

(* bodyid -> annotation, kept sorted by id (representation of a finite map) *)
Definition ndata := list (N * obj).
Fixpoint nget (id : N) (m : ndata) : option obj :=
  match m with
  | [] => None
  | (k, v) :: r => if id =? k then Some v else nget id r
  end.
Fixpoint nset (id : N) (v : obj) (m : ndata) : ndata :=
  match m with
  | [] => [(id, v)]
  | (k, v') :: r => if id <? k then (id, v) :: m
                    else if id =? k then (id, v) :: r
                    else (k, v') :: nset id v r
  end.
Fixpoint ndel (id : N) (m : ndata) : ndata :=
  match m with
  | [] => []
  | (k, v') :: r => if id =? k then r else (k, v') :: ndel id r
  end.

(* ---------- strings ---------- *)
Definition s_user : bytes := [95;117;115;101;114].      (* "_user" *)
Definition s_time : bytes := [95;116;105;109;101].      (* "_time" *)
Definition s_bodyid : bytes := [98;111;100;121;105;100]. (* "bodyid" *)
Definition s_userf : bytes := [117;115;101;114].        (* "user" *)
Definition s_re : bytes := [114;101;47].                (* "re/" *)
Definition s_exists : bytes := [101;120;105;115;116;115;47]. (* "exists/" *)

Definition has_suffix (suf s : bytes) : bool :=
  Nat.leb (length suf) (length s) && bytes_eqb (skipn (length s - length suf) s) suf.
Definition has_prefix (pre s : bytes) : bool :=
  Nat.leb (length pre) (length s) && bytes_eqb (firstn (length pre) s) pre.
Definition strip5 (s : bytes) : bytes := firstn (length s - 5) s.
Definition is_userf (f : bytes) : bool := has_suffix s_user f.
Definition is_timef (f : bytes) : bool := has_suffix s_time f.
Definition is_meta (f : bytes) : bool := is_userf f || is_timef f.     (* isMetaField *)
Definition fuser (f : bytes) : bytes := f ++ s_user.
Definition ftime (f : bytes) : bytes := f ++ s_time.

Definition is_null (v : json) : bool := match v with JNull => true | _ => false end.
(* value.(string) with the comma-ok form: "" when not a string *)
Definition str_or_empty (v : json) : bytes := match v with JStr s => s | _ => [] end.
Definition nonempty (s : bytes) : bool := match s with [] => false | _ => true end.

(* ---------- updateJSON (neuronjson.go:1278) ---------- *)
Section Update.
Variables (user : bytes) (conds : list bytes) (replace : bool) (timeStr : bytes).

(* loop "remove fields that are being set to null": one null field [d] of the request [new0] *)
Definition null_step (new0 : obj) (acc : obj) (d : bytes) : obj :=
  let acc := odel d acc in
  if is_meta d then acc
  else
    let su := match oget (fuser d) new0 with Some v => str_or_empty v | None => user end in
    let st := match oget (ftime d) new0 with Some v => str_or_empty v | None => timeStr end in
    let acc := if nonempty su then oset (fuser d) (JStr su) acc else acc in
    if nonempty st then oset (ftime d) (JStr st) acc else acc.

Definition deleted_fields (new0 : obj) : list bytes :=
  map fst (filter (fun p => is_null (snd p)) new0).

(* carry forward fields of the stored annotation (replace = false) *)
Definition carry_step (new1 : obj) (st : obj * list bytes) (p : bytes * json) : obj * list bytes :=
  let '(acc, ns) := st in
  let '(f, ov) := p in
  if negb (omem f new1) then (oset f ov acc, ns)
  else if smem f conds then (oset f ov acc, sdel f ns)
  else (acc, ns).

(* add _user / _time for newly set fields *)
Definition stamp_step (deleted ns : list bytes) (acc : obj) (f : bytes) : obj :=
  if bytes_eqb f s_bodyid || bytes_eqb f s_userf then acc
  else if smem f deleted then acc
  else if is_meta f then acc
  else
    let acc := if negb (smem (fuser f) ns) && nonempty user then oset (fuser f) (JStr user) acc else acc in
    if negb (smem (ftime f) ns) then oset (ftime f) (JStr timeStr) acc else acc.

(* replace = true: keep _user / _time of fields present in the request *)
Definition keep_step (deleted : list bytes) (orig1 : obj) (acc : obj) (f : bytes) : obj :=
  if bytes_eqb f s_bodyid then acc
  else if smem f deleted then acc
  else
    let acc := if omem (fuser f) acc then acc
               else oset (fuser f) (match oget (fuser f) orig1 with Some v => v | None => JStr user end) acc in
    if omem (ftime f) acc then acc
    else oset (ftime f) (match oget (ftime f) orig1 with Some v => v | None => JStr timeStr end) acc.

(* returns (origData after the in-place deletions, newData) *)
Definition updateJSON (orig : option obj) (new0 : obj) : option obj * obj :=
  let deleted := deleted_fields new0 in
  let new1 := fold_left (null_step new0) deleted new0 in
  let orig1 := option_map (fun o => fold_left (fun acc d => odel d acc) deleted o) orig in
  match orig1 with
  | None =>
      let ns := dom new1 ++ map strip5 (filter is_userf (dom new1)) in
      (orig1, fold_left (stamp_step deleted ns) ns new1)
  | Some o1 =>
      let ns0 := filter (fun f => negb (omem f o1) || is_meta f ||
                                  negb (match oget f new1, oget f o1 with
                                        | Some a, Some b => json_eqb a b
                                        | _, _ => false end)) (dom new1) in
      let newFields := filter (fun f => negb (is_meta f)) (dom new1) in
      let '(new2, ns) := if replace then (new1, ns0) else fold_left (carry_step new1) o1 (new1, ns0) in
      let new3 := fold_left (stamp_step deleted ns) ns new2 in
      let new4 := if replace then fold_left (keep_step deleted o1) newFields new3 else new3 in
      (orig1, new4)
  end.
End Update.

(* ---------- sort.Search, literally ---------- *)
Fixpoint search_loop (fuel : nat) (f : nat -> res bool) (i j : nat) : res nat :=
  match fuel with
  | O => Err                                   (* out of fuel (never with fuel = S n) *)
  | S k =>
      if Nat.ltb i j then
        let h := Nat.div2 (i + j) in
        match f h with
        | Ok true => search_loop k f i h
        | Ok false => search_loop k f (S h) j
        | Err => Err
        | Panic => Panic
        end
      else Ok i
  end.
Definition go_search (n : nat) (f : nat -> res bool) : res nat := search_loop (S n) f 0 n.

(* predicate closures over mdb.ids[i]: an index out of range is a Go panic *)
Definition ids_pred (ids : list N) (p : N -> bool) (i : nat) : res bool :=
  match nth_error ids i with Some x => Ok (p x) | None => Panic end.

(* which repairs are applied; all false = the code as shipped *)
Record variant := mkVar {
  v_del : bool;    (* deleteBodyID searches with a monotone predicate *)
  v_cnt : bool;    (* field counters of null-deleted fields are decremented *)
  v_zero : bool;   (* GetFieldCounts (memory) omits fields whose counter is not positive *)
  v_sel : bool;    (* store path of query / keyrangevalues selects fields like the memory path *)
  v_range : bool;  (* store path of keyrange / keyrangevalues selects keys numerically *)
  v_meta : bool;   (* Initialize loads the JSON schema bytes like the other two metadata *)
  v_ftime : bool;  (* fieldtimes is computed from the annotations (memory and store path) *)
  v_schdel : bool; (* DELETE json_schema also drops the compiled schema *)
  v_binit : bool;  (* initMemoryDB registers only existing branches and committed versions *)
}.
Definition repaired : variant := mkVar true true true true true true true true true.
(* repairs 1-6 only: /repo after the first six fix: commits *)
Definition interim : variant := mkVar true true true true true true false false false.
Definition shipped : variant := mkVar false false false false false false false false false.

(* memstore.go:173 *)
Definition addBodyID (ids : list N) (b : N) : res (list N) :=
  res_bind (go_search (length ids) (ids_pred ids (fun x => b <=? x))) (fun i =>
    match nth_error ids i with
    | Some x => if x =? b then Ok ids else Ok (firstn i ids ++ b :: skipn i ids)
    | None => Ok (firstn i ids ++ b :: skipn i ids)
    end).
(* memstore.go:184 *)
Definition deleteBodyID (V : variant) (ids : list N) (b : N) : res (list N) :=
  if v_del V then
    res_bind (go_search (length ids) (ids_pred ids (fun x => b <=? x))) (fun i =>
      match nth_error ids i with
      | Some x => if x =? b then Ok (firstn i ids ++ skipn (S i) ids) else Ok ids
      | None => Ok ids
      end)
  else
    res_bind (go_search (length ids) (ids_pred ids (fun x => x =? b))) (fun i =>
      if Nat.eqb i (length ids) then Ok ids else Ok (firstn i ids ++ skipn (S i) ids)).

(* ---------- memdb and store ---------- *)
Definition fcounts := list (bytes * Z).
Definition cget (f : bytes) (m : fcounts) : Z :=
  match @aget bytes Z bytes_eqb f m with Some c => c | None => 0%Z end.
Definition cadd (d : Z) (m : fcounts) (f : bytes) : fcounts := @aset bytes Z bytes_eqb f (cget f m + d)%Z m.

Record memdb := mkMem {
  m_data : ndata;
  m_ids : list N;
  m_fields : fcounts;
  m_ftimes : list (bytes * bytes);
  m_ftdirty : bool;                (* fieldTimes must be recomputed before it is served (repair 7) *)
}.
Record vstore := mkVS {
  s_data : ndata;
  s_meta : list (N * bytes);      (* schema kind -> bytes *)
}.
(* a version: the n-th of master counted from the root, or the i-th of the second branch "b" *)
Inductive vref := VM (abs : nat) | VB (i : nat).
Definition vref_eqb (a b : vref) : bool :=
  match a, b with VM x, VM y | VB x, VB y => Nat.eqb x y | _, _ => false end.
(* the store configuration "inmemory": [":b"] and version uuids *)
Record config := mkCfg { cfg_branch : bool; cfg_static : list vref }.
Record bchain := mkB { b_head : vstore; b_parents : list vstore; b_locked : bool }.

Record state := mkSt {
  st_mem : memdb;                  (* dbs.head["master"] *)
  st_mmeta : list (N * bytes);     (* d.metadata *)
  st_compiled : option bytes;      (* the schema d.compiledSchema was compiled from *)
  st_head : vstore;                (* leaf of master *)
  st_parents : list vstore;        (* committed ancestors, nearest first *)
  st_locked : bool;
  st_branch : option bchain;       (* the second branch, once created *)
  st_bmem : option memdb;          (* dbs.head["b"] *)
  st_static : list (vref * memdb); (* dbs.static *)
  st_cfg : config;                 (* read by Initialize: at instance creation and at every restart *)
}.
Definition mget := @aget N bytes N.eqb.
Definition mset := @aset N bytes N.eqb.
Definition mdel := @adel N bytes N.eqb.

(* type Schema (iota), read from neuronjson.go into Gen/Consts.v *)
Definition k_json_schema : N := n_nj_JSONSchema.
Definition k_schema : N := n_nj_NeuSchema.
Definition k_schema_batch : N := n_nj_NeuSchemaBatch.

Definition empty_mem : memdb := mkMem [] [] [] [] false.
Definition no_cfg : config := mkCfg false [].
Definition init_state : state := mkSt empty_mem [] None (mkVS [] []) [] false None None [] no_cfg.

(* the master part of a state replaced *)
Definition with_master (s : state) (m : memdb) (mm : list (N * bytes)) (c : option bytes)
           (h : vstore) (ps : list vstore) (l : bool) : state :=
  mkSt m mm c h ps l (st_branch s) (st_bmem s) (st_static s) (st_cfg s).
Definition with_branch (s : state) (b : option bchain) (bm : option memdb) : state :=
  mkSt (st_mem s) (st_mmeta s) (st_compiled s) (st_head s) (st_parents s) (st_locked s) b bm (st_static s) (st_cfg s).

(* fieldTimes[root] = newData[field] for the string-valued *_time fields *)
Fixpoint set_ftimes (o : obj) (ft : list (bytes * bytes)) : list (bytes * bytes) :=
  match o with
  | [] => ft
  | (f, v) :: r =>
      if is_timef f then
        match v with
        | JStr s => set_ftimes r (@aset bytes bytes bytes_eqb (strip5 f) s ft)
        | _ => set_ftimes r ft
        end
      else set_ftimes r ft
  end.

(* a *_user / *_time field must be a string (or null) *)
Definition bad_stamp (o : obj) : bool :=
  existsb (fun p => is_meta (fst p) && negb (is_null (snd p)) && match snd p with JStr _ => false | _ => true end) o.

(* the memdb part of storeAndUpdate: data, field counters, fieldTimes, sorted ids *)
Definition mem_put (V : variant) (m : memdb) (id : N) (orig orig1 : option obj) (new' : obj) : res memdb :=
  let dec_fields := match (if v_cnt V then orig else orig1) with Some o => dom o | None => [] end in
  let fields := fold_left (cadd 1) (dom new') (fold_left (cadd (-1)) dec_fields (m_fields m)) in
  let ft := if v_ftime V then m_ftimes m else set_ftimes new' (m_ftimes m) in
  res_bind (addBodyID (m_ids m) id) (fun ids =>
    Ok (mkMem (nset id new' (m_data m)) ids fields ft (v_ftime V || m_ftdirty m))).

(* the memdb part of DeleteData *)
Definition mem_del (V : variant) (m : memdb) (id : N) : res memdb :=
  match nget id (m_data m) with
  | Some o =>
      res_bind (deleteBodyID V (m_ids m) id) (fun ids =>
        Ok (mkMem (ndel id (m_data m)) ids (fold_left (cadd (-1)) (dom o) (m_fields m)) (m_ftimes m)
                  (v_ftime V || m_ftdirty m)))
  | None => Ok m
  end.

(* storeAndUpdate (neuronjson.go:1416) on a version served by [om] (None: no memdb, store only) *)
Definition sau (V : variant) (om : option memdb) (st : vstore) (id : N) (new0 : obj)
           (user : bytes) (conds : list bytes) (replace : bool) (timeStr : bytes) : res (option memdb * vstore) :=
  let orig := nget id (s_data st) in
  if omem (fuser s_bodyid) new0 || omem (ftime s_bodyid) new0 then Err
  else if bad_stamp new0 then Err
  else
    let '(orig1, new') := updateJSON user conds replace timeStr orig new0 in
    let st' := mkVS (nset id new' (s_data st)) (s_meta st) in
    match om with
    | Some m => res_bind (mem_put V m id orig orig1 new') (fun m' => Ok (Some m', st'))
    | None => Ok (None, st')
    end.

Definition max_u64 : N := 18446744073709551615.

(* PutData (neuronjson.go:1470) on an open version.  [sch] is the JSON schema getJSONSchema finds,
   [vd] the validator's verdict on the body for each schema that rejects it (oracle; a schema not
   listed accepts, one that does not compile too) *)
Definition put (V : variant) (om : option memdb) (st : vstore) (sch : option bytes)
           (key : N) (body : list (bytes * json)) (vd : list (bytes * bool))
           (user : bytes) (conds : list bytes) (replace : bool) (timeStr : bytes) : res (option memdb * vstore) :=
  let valid := match sch with
               | Some sc => match @aget bytes bool bytes_eqb sc vd with Some b => b | None => true end
               | None => true
               end in
  if negb (nonempty user) then Err
  else if key =? 0 then Err
  else if negb valid then Err
  else
    let new0 := obj_of_list body in
    match oget s_bodyid new0 with
    | Some (JNum z) =>
        if (0 <=? z)%Z && (z <=? Z.of_N max_u64)%Z && (Z.to_N z =? key)
        then sau V om st key new0 user conds replace timeStr
        else Err
    | _ => Err
    end.

(* getJSONSchema on the open head of master: the compiled schema if there is one, else the stored bytes *)
Definition schema_in_force (s : state) : option bytes :=
  match st_compiled s with Some b => Some b | None => mget k_json_schema (s_meta (st_head s)) end.

Definition putData (V : variant) (s : state) (key : N) (body : list (bytes * json)) (vd : list (bytes * bool))
           (user : bytes) (conds : list bytes) (replace : bool) (timeStr : bytes) : res state :=
  if st_locked s then Err
  else
    match put V (Some (st_mem s)) (st_head s) (schema_in_force s) key body vd user conds replace timeStr with
    | Ok (Some m, st') => Ok (with_master s m (st_mmeta s) (st_compiled s) st' (st_parents s) (st_locked s))
    | Ok (None, _) => Err        (* not reachable: the head of master has its memdb *)
    | Err => Err
    | Panic => Panic
    end.

(* DeleteData (neuronjson.go:1557) *)
Definition deleteData (V : variant) (s : state) (id : N) : res state :=
  if st_locked s then Err
  else
    res_bind (mem_del V (st_mem s) id) (fun m =>
      Ok (with_master s m (st_mmeta s) (st_compiled s)
            (mkVS (ndel id (s_data (st_head s))) (s_meta (st_head s))) (st_parents s) (st_locked s))).

(* ---------- reload: Initialize / initMemoryDB / loadMemDB / initFieldTimes ---------- *)
Fixpoint isort_ins (x : N) (l : list N) : list N :=
  match l with
  | [] => [x]
  | y :: r => if x <=? y then x :: l else y :: isort_ins x r
  end.
Definition sort_ids (l : list N) : list N := fold_right isort_ins [] l.

Fixpoint bytes_ltb (a b : bytes) : bool :=
  match a, b with
  | _, [] => false
  | [], _ :: _ => true
  | x :: a', y :: b' => if x <? y then true else if y <? x then false else bytes_ltb a' b'
  end.
Definition bytes_leb (a b : bytes) : bool := negb (bytes_ltb b a).

Fixpoint init_ftimes_obj (o : obj) (ft : list (bytes * bytes)) : list (bytes * bytes) :=
  match o with
  | [] => ft
  | (f, v) :: r =>
      if is_timef f then
        match v with
        | JStr t =>
            let root := strip5 f in
            match @aget bytes bytes bytes_eqb root ft with
            | None => init_ftimes_obj r (@aset bytes bytes bytes_eqb root t ft)
            | Some old => init_ftimes_obj r (if bytes_ltb old t then @aset bytes bytes bytes_eqb root t ft else ft)
            end
        | _ => init_ftimes_obj r ft
        end
      else init_ftimes_obj r ft
  end.
(* the newest *_time per field over a set of annotations *)
Definition ft_of (d : ndata) : list (bytes * bytes) :=
  fold_left (fun ft p => init_ftimes_obj (snd p) ft) d [].

(* field counters as computed by a scan: addAnnotation on load, getFieldCounts on the store path *)
Definition scan_counts (d : ndata) : fcounts :=
  fold_left (fun acc p => fold_left (cadd 1) (dom (snd p)) acc) d [].

Definition loadMemDB (d : ndata) : memdb :=
  let data := fold_left (fun acc p => nset (fst p) (snd p) acc) d [] in
  mkMem data (sort_ids (map fst d)) (scan_counts d) (ft_of data) false.

Definition load_meta (V : variant) (locked : bool) (sm : list (N * bytes)) : list (N * bytes) :=
  let m0 := if v_meta V || negb locked
            then match mget k_json_schema sm with Some b => mset k_json_schema b [] | None => [] end
            else [] in
  let m1 := match mget k_schema sm with Some b => mset k_schema b m0 | None => m0 end in
  match mget k_schema_batch sm with Some b => mset k_schema_batch b m1 | None => m1 end.

(* versions by reference *)
Definition resolve (s : state) (ref : vref) : option vstore :=
  match ref with
  | VM a => nth_error (rev (st_head s :: st_parents s)) a
  | VB i => match st_branch s with
            | Some b => nth_error (rev (b_head b :: b_parents b)) i
            | None => None
            end
  end.
Definition is_master_head (s : state) (ref : vref) : bool :=
  match ref with VM a => Nat.eqb a (length (st_parents s)) | VB _ => false end.
Definition is_branch_head (s : state) (ref : vref) : bool :=
  match ref, st_branch s with VB i, Some b => Nat.eqb i (length (b_parents b)) | _, _ => false end.
Definition committed (s : state) (ref : vref) : bool :=
  match ref with
  | VM a => Nat.ltb a (length (st_parents s)) || (Nat.eqb a (length (st_parents s)) && st_locked s)
  | VB i => match st_branch s with
            | Some b => Nat.ltb i (length (b_parents b)) || (Nat.eqb i (length (b_parents b)) && b_locked b)
            | None => false
            end
  end.
Definition static_get (ref : vref) (l : list (vref * memdb)) : option memdb := @aget vref memdb vref_eqb ref l.

(* the read-only UUID dbs: loaded, and (before repair 7) without fieldTimes *)
Definition load_static (V : variant) (d : ndata) : memdb :=
  let m := loadMemDB d in
  if v_ftime V then m else mkMem (m_data m) (m_ids m) (m_fields m) [] false.

(* the UUID db initMemoryDB builds for a configured version (repair 9: only if committed);
   configurations naming unknown versions are not modelled *)
Definition static_entry (V : variant) (s : state) (ref : vref) : option memdb :=
  match resolve s ref with
  | Some v => if v_binit V && negb (committed s ref) then None else Some (load_static V (s_data v))
  | None => None
  end.

Definition reload (V : variant) (s : state) : state :=
  let bm := if cfg_branch (st_cfg s)
            then match st_branch s with
                 | Some b => Some (loadMemDB (s_data (b_head b)))
                 | None => if v_binit V then None else Some empty_mem   (* an empty db registered under the name *)
                 end
            else None in
  let statics := fold_right (fun ref acc =>
                   match static_entry V s ref with Some m => (ref, m) :: acc | None => acc end)
                   [] (cfg_static (st_cfg s)) in
  mkSt (loadMemDB (s_data (st_head s))) (load_meta V (st_locked s) (s_meta (st_head s)))
       (mget k_json_schema (s_meta (st_head s))) (st_head s) (st_parents s) (st_locked s)
       (st_branch s) bm statics (st_cfg s).

(* ---------- histories ---------- *)
Record kvitem := mkKV { kv_key : N; kv_body : list (bytes * json); kv_vd : list (bytes * bool); kv_time : bytes }.

Inductive op :=
| OpPost (key : N) (body : list (bytes * json)) (vd : list (bytes * bool))
         (user : bytes) (conds : list bytes) (replace : bool) (timeStr : bytes)
| OpPostKVs (items : list kvitem) (user : bytes) (conds : list bytes) (replace : bool)
| OpDelete (key : N)
| OpMetaPost (kind : N) (val : bytes)
| OpMetaDelete (kind : N)
| OpCommit
| OpNewVersion
| OpReload
| OpBranch (from : nat)          (* POST branch "b" on the committed master version [from] *)
| OpOnBranch (o : op)            (* the request addressed to the head of branch "b" *)
| OpSetConfig (c : config).      (* the store's "inmemory" setting; read at the next restart *)

(* handleIngest: PutData per item, stops at the first error; earlier items stay applied *)
Fixpoint putKVs (V : variant) (s : state) (items : list kvitem) (user : bytes) (conds : list bytes)
         (replace : bool) : state * res unit :=
  match items with
  | [] => (s, Ok tt)
  | it :: r =>
      match putData V s (kv_key it) (kv_body it) (kv_vd it) user conds replace (kv_time it) with
      | Ok s' => putKVs V s' r user conds replace
      | Err => (s, Err)
      | Panic => (s, Panic)
      end
  end.

Definition lift_state (s : state) (r : res state) : state * res unit :=
  match r with Ok s' => (s', Ok tt) | Err => (s, Err) | Panic => (s, Panic) end.

(* which memdb an update of the open master head reaches: before repair 9 an open version could
   be configured as a read-only UUID db, and getMemDBbyVersion looks there first *)
Definition head_static (V : variant) (s : state) : option memdb :=
  if v_binit V then None else static_get (VM (length (st_parents s))) (st_static s).
Definition set_static (ref : vref) (m : memdb) (l : list (vref * memdb)) := @aset vref memdb vref_eqb ref m l.

(* requests on the head of branch "b": no metadata cache (ctx.Head() is false off master), the
   memdb dbs.head["b"] if one is registered *)
Definition step_branch (V : variant) (s : state) (o : op) : state * res unit :=
  match st_branch s with
  | None => (s, Err)
  | Some b =>
      let st := b_head b in
      match o with
      | OpPost key body vd user conds replace t =>
          if b_locked b then (s, Err)
          else match put V (st_bmem s) st (mget k_json_schema (s_meta st)) key body vd user conds replace t with
               | Ok (bm, st') => (with_branch s (Some (mkB st' (b_parents b) false)) bm, Ok tt)
               | Err => (s, Err)
               | Panic => (s, Panic)
               end
      | OpDelete key =>
          if b_locked b then (s, Err)
          else
            let st' := mkVS (ndel key (s_data st)) (s_meta st) in
            match st_bmem s with
            | Some m => match mem_del V m key with
                        | Ok m' => (with_branch s (Some (mkB st' (b_parents b) false)) (Some m'), Ok tt)
                        | Err => (s, Err)
                        | Panic => (s, Panic)
                        end
            | None => (with_branch s (Some (mkB st' (b_parents b) false)) None, Ok tt)
            end
      | OpMetaPost kind val =>
          if b_locked b || (3 <=? kind) then (s, Err)
          else (with_branch s (Some (mkB (mkVS (s_data st) (mset kind val (s_meta st))) (b_parents b) false)) (st_bmem s), Ok tt)
      | OpMetaDelete kind =>
          if b_locked b || (3 <=? kind) then (s, Err)
          else (with_branch s (Some (mkB (mkVS (s_data st) (mdel kind (s_meta st))) (b_parents b) false)) (st_bmem s), Ok tt)
      | OpCommit =>
          if b_locked b then (s, Err) else (with_branch s (Some (mkB st (b_parents b) true)) (st_bmem s), Ok tt)
      | OpNewVersion =>
          if b_locked b then (with_branch s (Some (mkB st (st :: b_parents b) false)) (st_bmem s), Ok tt) else (s, Err)
      | _ => (s, Err)             (* not sent to the branch by the driver *)
      end
  end.

(* one request: the new state and the response class (Err = HTTP 4xx, nothing changed) *)
Definition step (V : variant) (s : state) (o : op) : state * res unit :=
  match o with
  | OpPost key body vd user conds replace t =>
      match head_static V s with
      | None => lift_state s (putData V s key body vd user conds replace t)
      | Some sm =>
          (* the update goes to the UUID db of the open head, not to the HEAD db of master *)
          if st_locked s then (s, Err)
          else match put V (Some sm) (st_head s) (schema_in_force s) key body vd user conds replace t with
               | Ok (Some m, st') =>
                   (mkSt (st_mem s) (st_mmeta s) (st_compiled s) st' (st_parents s) (st_locked s) (st_branch s)
                         (st_bmem s) (set_static (VM (length (st_parents s))) m (st_static s)) (st_cfg s), Ok tt)
               | Ok (None, _) | Err => (s, Err)
               | Panic => (s, Panic)
               end
      end
  | OpPostKVs items user conds replace =>
      if st_locked s then (s, Err) else putKVs V s items user conds replace
  | OpDelete key =>
      match head_static V s with
      | None => lift_state s (deleteData V s key)
      | Some sm =>
          if st_locked s then (s, Err)
          else match mem_del V sm key with
               | Ok m => (mkSt (st_mem s) (st_mmeta s) (st_compiled s)
                               (mkVS (ndel key (s_data (st_head s))) (s_meta (st_head s))) (st_parents s) (st_locked s)
                               (st_branch s) (st_bmem s) (set_static (VM (length (st_parents s))) m (st_static s)) (st_cfg s), Ok tt)
               | Err => (s, Err)
               | Panic => (s, Panic)
               end
      end
  | OpMetaPost kind val =>
      if st_locked s || (3 <=? kind) then (s, Err)     (* three metadata endpoints: kinds 0, 1, 2 *)
      else (with_master s (st_mem s) (mset kind val (st_mmeta s))
                 (if kind =? k_json_schema then Some val else st_compiled s)
                 (mkVS (s_data (st_head s)) (mset kind val (s_meta (st_head s))))
                 (st_parents s) (st_locked s), Ok tt)
  | OpMetaDelete kind =>
      if st_locked s || (3 <=? kind) then (s, Err)
      else (with_master s (st_mem s) (mdel kind (st_mmeta s))
                 (if (kind =? k_json_schema) && v_schdel V then None else st_compiled s)
                 (mkVS (s_data (st_head s)) (mdel kind (s_meta (st_head s))))
                 (st_parents s) (st_locked s), Ok tt)
  | OpCommit =>
      if st_locked s then (s, Err)
      else (with_master s (st_mem s) (st_mmeta s) (st_compiled s) (st_head s) (st_parents s) true, Ok tt)
  | OpNewVersion =>
      if st_locked s
      then (with_master s (st_mem s) (st_mmeta s) (st_compiled s) (st_head s) (st_head s :: st_parents s) false, Ok tt)
      else (s, Err)
  | OpReload => (reload V s, Ok tt)
  | OpBranch from =>
      match st_branch s, resolve s (VM from) with
      | None, Some v => if committed s (VM from)
                        then (with_branch s (Some (mkB v [] false)) (st_bmem s), Ok tt)
                        else (s, Err)
      | _, _ => (s, Err)
      end
  | OpOnBranch o' => step_branch V s o'
  | OpSetConfig c =>
      (mkSt (st_mem s) (st_mmeta s) (st_compiled s) (st_head s) (st_parents s) (st_locked s)
            (st_branch s) (st_bmem s) (st_static s) c, Ok tt)
  end.

(* a history; a panic ends it *)
Fixpoint run (V : variant) (s : state) (h : list op) : res state :=
  match h with
  | [] => Ok s
  | o :: r =>
      match step V s o with
      | (_, Panic) => Panic
      | (s', _) => run V s' r
      end
  end.

(* ---------- field selection (fields.go) ---------- *)
Record shows := mkShow { sh_user : bool; sh_time : bool }.

Definition copy_if (data : obj) (k : bytes) (out : obj) : obj :=
  match oget k data with Some v => oset k v out | None => out end.

(* selectFields *)
Definition selectFields (data : obj) (fm : list bytes) (sh : shows) : obj :=
  let out := copy_if data s_bodyid [] in
  match fm with
  | [] =>
      fold_left (fun acc p =>
        if negb (sh_user sh) && is_userf (fst p) then acc
        else if negb (sh_time sh) && is_timef (fst p) then acc
        else oset (fst p) (snd p) acc) data out
  | _ =>
      fold_left (fun acc k =>
        if bytes_eqb k s_bodyid then acc
        else
          let acc := copy_if data k acc in
          let acc := if sh_user sh then copy_if data (fuser k) acc else acc in
          if sh_time sh then copy_if data (ftime k) acc else acc) fm out
  end.

(* removeReservedFields *)
Definition removeReserved (data : obj) (sh : shows) : obj :=
  if sh_user sh && sh_time sh then data
  else filter (fun p => negb ((negb (sh_user sh) && is_userf (fst p)) || (negb (sh_time sh) && is_timef (fst p)))) data.

(* ---------- queries (query.go) ---------- *)
Section Query.
(* regexp.Compile / Regexp.Match: pattern -> (compiled: string -> matched) *)
Variable rx : bytes -> option (bytes -> bool).

Inductive qval :=
| QInts (l : list Z)                   (* uint64 / int64 / []int64, converted to int64 *)
| QFlt                                  (* float64 query value: no case in checkField *)
| QStrs (l : list bytes)               (* string / []string *)
| QRe (m : bytes -> bool)
| QExists (b : bool)
| QMix (l : list (bytes + (bytes -> bool)))   (* []interface{} of strings and regexps *)
| QFlts (l : list N)                   (* []interface{} whose first element is a number: its float64 elements *)
| QOther.                              (* bool, object, ...: "illegal type" *)

Definition two63 : Z := 9223372036854775808%Z.
Definition two64 : Z := 18446744073709551616%Z.
(* int64(uint64) conversion *)
Definition to_i64 (z : Z) : Z := if (two63 <=? z)%Z then (z - two64)%Z else z.
Definition in_i64 (z : Z) : bool := ((- two63 <=? z) && (z <? two63))%Z.

Definition all_nums (l : list json) : option (list Z) :=
  fold_right (fun v acc => match v, acc with
                           | JNum z, Some r => if in_i64 z then Some (z :: r) else None
                           | _, _ => None end) (Some []) l.
Definition all_strs (l : list json) : option (list bytes) :=
  fold_right (fun v acc => match v, acc with JStr s, Some r => Some (s :: r) | _, _ => None end) (Some []) l.
Definition is_num_or_flt (v : json) : bool := match v with JNum _ | JFlt _ => true | _ => false end.

(* the non-integral float64 elements of a []interface{} (elements of another type are skipped;
   an integral float matches no fieldFloatList entry) *)
Definition float_elems (l : list json) : list N :=
  fold_right (fun v acc => match v with JFlt t => t :: acc | _ => acc end) [] l.

(* QueryJSON.UnmarshalJSON, on an already tokenised value *)
Definition qparse (v : json) : qval :=
  match v with
  | JNull => QInts []                         (* "null" unmarshals into a nil []int64 *)
  | JNum z => QInts [to_i64 z]
  | JFlt _ => QFlt
  | JStr s =>
      let plain := QStrs [s] in
      if has_prefix s_re s then
        match rx (skipn 3 s) with Some m => QRe m | None => plain end
      else if has_prefix s_exists s && Nat.eqb (length s) 8 then
        match nth_error s 7 with Some c => QExists (negb (c =? 48)) | None => plain end
      else plain
  | JArr l =>
      match all_nums l with
      | Some zs => QInts zs
      | None =>
          match all_strs l with
          | Some ss =>
              if existsb (fun s => has_prefix s_re s && Nat.ltb 3 (length s)) ss
              then QMix (map (fun s => if has_prefix s_re s && Nat.ltb 3 (length s)
                                       then match rx (skipn 3 s) with Some m => inr m | None => inl s end
                                       else inl s) ss)
              else QStrs ss
          | None =>
              match l with
              | JStr _ :: _ => QMix (fold_right (fun v acc => match v with JStr s => inl s :: acc | _ => acc end) [] l)
              | JNum _ :: _ | JFlt _ :: _ =>
                  QFlts (float_elems l)
              | _ => QOther
              end
          end
      end
  | JBool _ | JObj _ => QOther
  end.

(* the three lists checkField builds from a record's field value *)
Definition field_nums (v : json) : list Z :=
  match v with
  | JNum z => [to_i64 z]
  | JArr l => match all_nums l with Some zs => zs | None => [] end
  | _ => []
  end.
Definition field_flts (v : json) : list N := match v with JFlt t => [t] | _ => [] end.
Definition field_strs (v : json) : list bytes :=
  match v with
  | JStr s => [s]
  | JArr l => match l with [] => [] | _ => match all_strs l with Some ss => ss | None => [] end end
  | _ => []
  end.

Definition zmem (z : Z) (l : list Z) : bool := existsb (Z.eqb z) l.
Definition fmem (t : N) (l : list N) : bool := existsb (N.eqb t) l.

(* checkField / fieldMatch *)
Definition fieldMatch (q : qval) (fv : json) : res bool :=
  if is_null fv then Ok false
  else
    let fn := field_nums fv in let ff := field_flts fv in let fs := field_strs fv in
    match fn, ff, fs with
    | [], [], [] => Ok false
    | _, _, _ =>
        match q with
        | QInts l => Ok (existsb (fun z => zmem z fn) l)
        | QFlt => Ok false
        | QStrs l => Ok (existsb (fun s => smem s fs) l)
        | QRe m => Ok (existsb m fs)
        | QExists _ => Ok false
        | QMix l => Ok (existsb (fun e => match e with inl s => smem s fs | inr m => existsb m fs end) l)
        | QFlts l => Ok (existsb (fun t => fmem t ff) l)
        | QOther => Ok false
        end
    end.

Definition query := list (bytes * json).

(* one query object: all keys must match (stops at the first that does not) *)
Fixpoint and_match (q : query) (value : obj) : res bool :=
  match q with
  | [] => Ok true
  | (k, qv) :: r =>
      let here : res bool :=
        match qparse qv with
        | QExists b =>
            let found := match oget k value with Some v => negb (is_null v) | None => false end in
            Ok (Bool.eqb b found)
        | pq => match oget k value with Some v => fieldMatch pq v | None => Ok false end
        end in
      match here with
      | Ok true => and_match r value
      | other => other
      end
  end.

(* queryMatch: at least one query of the list matches *)
Fixpoint queryMatch (ql : list query) (value : obj) : res bool :=
  match ql with
  | [] => Ok false
  | q :: r =>
      match and_match q value with
      | Ok false => queryMatch r value
      | other => other
      end
  end.

(* queryJustBodyIDs *)
Definition to_u64 (z : Z) : N := Z.to_N (if (z <? 0)%Z then (z + two64)%Z else z).
Definition just_bodyids (ql : list query) : option (list N) :=
  fold_right (fun (q : query) acc =>
    fold_right (fun (p : bytes * json) acc =>
      match acc with
      | None => None
      | Some ids =>
          if bytes_eqb (fst p) s_bodyid then
            match snd p with
            | JNum z => Some (to_u64 z :: ids)
            | JArr l => match l, all_nums l with
                        | _ :: _, Some zs => Some (map to_u64 zs ++ ids)
                        | [], Some _ => Some ids
                        | _, None => None end
            | JNull => Some ids
            | _ => None
            end
          else None
      end) acc q) (Some []) ql.

(* ---------- read requests and their results ---------- *)
Inductive rreq :=
| RKey (id : N) (fm : list bytes) (sh : shows)
| RKeys
| RAll (fm : list bytes) (sh : shows)
| RFields
| RFieldCounts
| RKeyRange (a b : bytes)
| RKeyRangeValues (a b : bytes) (fm : list bytes) (sh : shows) (enc : N)   (* enc: 0 json, 1 tar, 2 protobuf *)
| RKeyValues (keys : list N) (fm : list bytes) (sh : shows) (enc : N)
| RQuery (ql : list query) (onlyid : bool) (fm : list bytes) (sh : shows)
| RMeta (kind : N)
| RFieldTimes
| RHeadKey (id : N)              (* HEAD key/<id> *)
| RHeadMeta (kind : N)           (* HEAD <schema kind> *)
| RSchemaInForce.                (* which JSON schema validates POSTs (observed by probing) *)

Inductive rres :=
| XObj (o : option obj)            (* GET key: None = 404 *)
| XIds (l : list N)                (* keys, keyrange, query?onlyid: compared as multisets *)
| XObjs (l : list obj)             (* all, query: compared as multisets *)
| XNames (l : list bytes)          (* fields *)
| XCounts (l : fcounts)            (* fields?counts=true: a JSON object *)
| XKVs (l : list (N * obj))        (* keyrangevalues, keyvalues: a JSON object *)
| XBytes (o : option bytes)        (* schema: None = 404 *)
| XTimes (l : list (bytes * bytes)) (* fieldtimes: a JSON object *)
| XKVOs (l : list (N * option obj)) (* keyvalues as tar / protobuf: every requested key, None = empty value *)
| XBool (b : bool)                 (* HEAD: true = 200, false = 404 *)
| XErr                             (* HTTP 400 *)
| XPanic.

Definition is_digit (b : N) : bool := (48 <=? b) && (b <=? 57).
Fixpoint parse_uint_acc (acc : N) (s : bytes) : option N :=
  match s with
  | [] => Some acc
  | b :: r => if is_digit b
              then let a := acc * 10 + (b - 48) in
                   if a <=? max_u64 then parse_uint_acc a r else None
              else None
  end.
(* parseKeyStr *)
Definition parseKeyStr (s : bytes) : option N :=
  match s with
  | [] => None
  | c :: _ => if 57 <? c then Some max_u64 else if c <? 48 then Some 0 else parse_uint_acc 0 s
  end.

Fixpoint dec_fuel (fuel : nat) (n : N) (acc : bytes) : bytes :=
  match fuel with
  | O => acc
  | S k => let acc' := (48 + n mod 10) :: acc in
           if n / 10 =? 0 then acc' else dec_fuel k (n / 10) acc'
  end.
Definition dec (n : N) : bytes := dec_fuel 20 n [].     (* strconv.FormatUint(n, 10), n < 2^64 *)
(* order of the annotation TKeys: key bytes followed by a 0 byte *)
Definition tkey_leb (a b : bytes) : bool := bytes_leb (a ++ [0]) (b ++ [0]).
Definition lex_in (a b : bytes) (k : N) : bool := tkey_leb a (dec k) && tkey_leb (dec k) b.

Definition objs_gt1 (l : list obj) : list obj := filter (fun o => Nat.ltb 1 (length o)) l.

(* mdb.ids[begI:endI] for the two sort.Search calls of GetKeysInRange / sendJSONValuesInRange *)
Definition mem_range (ids : list N) (lo hi : N) : res (list N) :=
  res_bind (go_search (length ids) (ids_pred ids (fun x => lo <=? x))) (fun bi =>
  res_bind (go_search (length ids) (ids_pred ids (fun x => hi <? x))) (fun ei =>
    Ok (firstn (ei - bi) (skipn bi ids)))).

Definition lift_res {A} (r : res A) (f : A -> rres) : rres :=
  match r with Ok a => f a | Err => XErr | Panic => XPanic end.

(* query over records in iteration order; a panic aborts the request *)
Fixpoint query_filter (ql : list query) (recs : list (N * obj)) : res (list (N * obj)) :=
  match recs with
  | [] => Ok []
  | p :: r =>
      match queryMatch ql (snd p) with
      | Ok true => res_bind (query_filter ql r) (fun l => Ok (p :: l))
      | Ok false => query_filter ql r
      | Err => Err
      | Panic => Panic
      end
  end.

Definition get_obj (d : ndata) (id : N) (fm : list bytes) (sh : shows) : option obj :=
  option_map (fun o => selectFields o fm sh) (nget id d).
Definition get_kvs (d : ndata) (keys : list N) (fm : list bytes) (sh : shows) : list (N * obj) :=
  fold_right (fun k acc => match get_obj d k fm sh with Some o => (k, o) :: acc | None => acc end) [] keys.
Definition get_objs (d : ndata) (keys : list N) (fm : list bytes) (sh : shows) : list obj :=
  map snd (get_kvs d keys fm sh).


(* --- the in-memory path: annotation endpoints served from a memdb --- *)
Definition pos_counts (V : variant) (m : memdb) : fcounts :=
  if v_zero V then filter (fun p => (0 <? snd p)%Z) (m_fields m) else m_fields m.
Definition get_kvos (d : ndata) (keys : list N) (fm : list bytes) (sh : shows) : list (N * option obj) :=
  map (fun k => (k, get_obj d k fm sh)) keys.

Definition read_memdb (V : variant) (m : memdb) (r : rreq) : rres :=
  match r with
  | RKey id fm sh => XObj (get_obj (m_data m) id fm sh)
  | RKeys => XIds (m_ids m)
  | RAll fm sh => XObjs (objs_gt1 (map (fun p => selectFields (snd p) fm sh) (m_data m)))
  | RFields => XNames (map (fun p => if (0 <? snd p)%Z then fst p else []) (pos_counts V m))
  | RFieldCounts => XCounts (pos_counts V m)
  | RKeyRange a b =>
      match parseKeyStr a, parseKeyStr b with
      | Some lo, Some hi => lift_res (mem_range (m_ids m) lo hi) XIds
      | _, _ => XErr
      end
  | RKeyRangeValues a b fm sh _ =>
      match parseKeyStr a, parseKeyStr b with
      | Some lo, Some hi => lift_res (mem_range (m_ids m) lo hi) (fun ids => XKVs (get_kvs (m_data m) ids fm sh))
      | _, _ => XErr
      end
  | RKeyValues keys fm sh enc =>
      if enc =? 0 then XKVs (get_kvs (m_data m) keys fm sh) else XKVOs (get_kvos (m_data m) keys fm sh)
  | RQuery ql onlyid fm sh =>
      match ql with
      | [] => XErr
      | _ =>
        match just_bodyids ql with
        | Some ids => XObjs (get_objs (m_data m) ids fm sh)
        | None =>
            let recs := map (fun id => (id, match nget id (m_data m) with Some o => o | None => [] end)) (m_ids m) in
            lift_res (query_filter ql recs) (fun l =>
              if onlyid then XIds (map fst l) else XObjs (map (fun p => selectFields (snd p) fm sh) l))
        end
      end
  | RFieldTimes =>
      XTimes (if v_ftime V && m_ftdirty m then ft_of (m_data m) else m_ftimes m)
  | RHeadKey id => XBool (match nget id (m_data m) with Some _ => true | None => false end)
  | RMeta _ | RHeadMeta _ | RSchemaInForce => XErr       (* not memdb endpoints *)
  end.

(* --- the store path --- *)
Definition store_sel (V : variant) (o : obj) (fm : list bytes) (sh : shows) : obj :=
  if v_sel V then selectFields o fm sh else removeReserved o sh.

Definition read_store (V : variant) (st : vstore) (r : rreq) : rres :=
  let d := s_data st in
  match r with
  | RKey id fm sh => XObj (get_obj d id fm sh)
  | RKeys => XIds (map fst d)
  | RAll fm sh => XObjs (objs_gt1 (map (fun p => selectFields (snd p) fm sh) d))
  | RFields => XNames (map (fun p => if (0 <? snd p)%Z then fst p else []) (scan_counts d))
  | RFieldCounts => XCounts (scan_counts d)
  | RKeyRange a b =>
      match parseKeyStr a, parseKeyStr b with
      | Some lo, Some hi =>
          XIds (filter (fun k => (if v_range V then true else lex_in a b k) && (lo <=? k) && (k <=? hi)) (map fst d))
      | _, _ => XErr
      end
  | RKeyRangeValues a b fm sh _ =>
      match parseKeyStr a, parseKeyStr b with
      | Some lo, Some hi =>
          let recs := filter (fun p => if v_range V then (lo <=? fst p) && (fst p <=? hi) else lex_in a b (fst p)) d in
          XKVs (map (fun p => (fst p, selectFields (if v_sel V then snd p else removeReserved (snd p) sh) fm sh)) recs)
      | _, _ => XErr
      end
  | RKeyValues keys fm sh enc => if enc =? 0 then XKVs (get_kvs d keys fm sh) else XKVOs (get_kvos d keys fm sh)
  | RQuery ql onlyid fm sh =>
      match ql with
      | [] => XErr
      | _ =>
        match just_bodyids ql with
        | Some ids => XObjs (get_objs d ids fm sh)
        | None =>
            lift_res (query_filter ql d) (fun l =>
              if onlyid then XIds (map fst l) else XObjs (map (fun p => store_sel V (snd p) fm sh) l))
        end
      end
  | RMeta kind => if 3 <=? kind then XErr else XBytes (mget kind (s_meta st))
  | RFieldTimes => if v_ftime V then XTimes (ft_of d) else XErr     (* as shipped: no store path, HTTP 400 *)
  | RHeadKey id => XBool (match nget id d with Some _ => true | None => false end)
  | RHeadMeta kind => if 3 <=? kind then XErr
                      else XBool (match mget kind (s_meta st) with Some _ => true | None => false end)
  | RSchemaInForce => XBytes (mget k_json_schema (s_meta st))
  end.

(* the head of master: annotations from its memdb, metadata from d.metadata / d.compiledSchema *)
Definition read_mem (V : variant) (s : state) (r : rreq) : rres :=
  match r with
  | RMeta kind => if 3 <=? kind then XErr else XBytes (mget kind (st_mmeta s))
  | RHeadMeta kind => if 3 <=? kind then XErr
                      else XBool (match mget kind (st_mmeta s) with Some _ => true | None => false end)
  | RSchemaInForce => XBytes (schema_in_force s)
  | _ => read_memdb V (st_mem s) r
  end.

(* getMemDBbyVersion + ctx.Head(): version 0 is the head of master, n > 0 its n-th ancestor;
   metadata come from memory only while the head is open *)
Definition is_meta_req (r : rreq) : bool :=
  match r with RMeta _ | RHeadMeta _ | RSchemaInForce => true | _ => false end.
Definition read_version (V : variant) (s : state) (ver : nat) (r : rreq) : option rres :=
  match ver with
  | O => Some (if is_meta_req r && st_locked s then read_store V (st_head s) r else read_mem V s r)
  | S n => option_map (fun st => read_store V st r) (nth_error (st_parents s) n)
  end.

(* getMemDBbyVersion for any version: the read-only UUID dbs first, then the HEAD dbs of the
   branches; everything else, and all metadata off the open head of master, from the store *)
Definition read_ref (V : variant) (s : state) (ref : vref) (r : rreq) : option rres :=
  match resolve s ref with
  | None => None
  | Some v =>
      Some (
        if is_meta_req r then
          (if is_master_head s ref && negb (st_locked s) then read_mem V s r else read_store V v r)
        else
          match static_get ref (st_static s) with
          | Some m => read_memdb V m r
          | None =>
              if is_master_head s ref then read_memdb V (st_mem s) r
              else if is_branch_head s ref
                   then match st_bmem s with Some m => read_memdb V m r | None => read_store V v r end
                   else read_store V v r
          end)
  end.

End Query.

(* ---------- "the same answer": Go maps and the lists built from them carry no order ----------
   (the head lists keys in numeric order, the store in the string order of the decimal keys:
   documented at GetKeysInRange) *)
From Coq Require Import Permutation.
Inductive rres_equiv : rres -> rres -> Prop :=
| EqObj o : rres_equiv (XObj o) (XObj o)
| EqIds a b : Permutation a b -> rres_equiv (XIds a) (XIds b)
| EqObjs a b : Permutation a b -> rres_equiv (XObjs a) (XObjs b)
| EqNames a b : Permutation a b -> rres_equiv (XNames a) (XNames b)
| EqCounts a b : (forall f, @aget bytes Z bytes_eqb f a = @aget bytes Z bytes_eqb f b) ->
                 rres_equiv (XCounts a) (XCounts b)       (* the same map field -> count *)
| EqKVs a b : Permutation a b -> rres_equiv (XKVs a) (XKVs b)
| EqBytes o : rres_equiv (XBytes o) (XBytes o)
| EqTimes a b : (forall f, @aget bytes bytes bytes_eqb f a = @aget bytes bytes bytes_eqb f b) ->
                rres_equiv (XTimes a) (XTimes b)
| EqKVOs a b : Permutation a b -> rres_equiv (XKVOs a) (XKVOs b)
| EqBool b : rres_equiv (XBool b) (XBool b)
| EqErr : rres_equiv XErr XErr
| EqPanic : rres_equiv XPanic XPanic.
