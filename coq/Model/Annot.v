(* Model.Annot — point annotations (datatype/annotation) and their synced counts (datatype/labelsz).
   Definitions only.  Transliterates, function by function:
     annotation.go : Elements.add/delete/deleteRel/move, ElementsNR.add/delete/move, Tags.Removed,
                     addTagDelta, modifyTagElements, storeBlockElements/modifyElements,
                     getLabelElements + storeLabelElements, deleteElementInLabel/InTags/InRelationships,
                     moveElementInLabels/InTags/InRelationships, StoreElements, DeleteElement,
                     MoveElement, StoreBlocks
     denormalizations.go : resyncInMemory (check=false)
     sync.go       : mergeLabels, cleaveLabels, splitLabels, mutateBlock, ingestBlock
     labelsz/sync.go : modifyElements ;  labelsz/labelsz.go : resync
   The label volume is abstract: [body : pos -> N]; a label event carries what the handler reads.
   Lists stand for Go slices; where Go deletes "without preserving order" the model keeps the
   order (no observation depends on list order: every comparison is made on sorted lists and
   [Views] is stated up to permutation).  A stored JSON "null" and "[]" both read back as []. *)
From DV Require Import Base.Prelude Gen.Consts.
From Coq Require Import Permutation.
Local Open Scope Z_scope.

(* ---------- positions and block arithmetic (dvid/point.go) ---------- *)
Definition pos := (Z * Z * Z)%type.
Definition pX (p : pos) : Z := fst (fst p).
Definition pY (p : pos) : Z := snd (fst p).
Definition pZ (p : pos) : Z := snd p.
Definition pos_eqb (a b : pos) : bool := (pX a =? pX b) && (pY a =? pY b) && (pZ a =? pZ b).

(* Go's / and % on int32 truncate toward zero: Z.quot / Z.rem.
   Point3d.Chunk:        if p < 0 { c = (p - s + 1) / s } else { c = p / s }
   Point3d.PointInChunk: if p < 0 { q = s + ((p + 1) % s) - 1 } else { q = p % s }
   (int32 wrap of p - s + 1 is not modelled: coordinates are assumed >= MinInt32 + s - 1) *)
Definition chunk1 (p s : Z) : Z := if p <? 0 then Z.quot (p - s + 1) s else Z.quot p s.
Definition inchunk1 (p s : Z) : Z := if p <? 0 then s + Z.rem (p + 1) s - 1 else Z.rem p s.
Definition blockOf (bs p : pos) : pos := (chunk1 (pX p) (pX bs), chunk1 (pY p) (pY bs), chunk1 (pZ p) (pZ bs)).
Definition inChunk (bs p : pos) : pos := (inchunk1 (pX p) (pX bs), inchunk1 (pY p) (pY bs), inchunk1 (pZ p) (pZ bs)).

(* ---------- elements ---------- *)
Record elem := mkE { e_pos : pos; e_kind : N; e_tags : list N; e_rels : list (N * pos); e_prop : N }.
Definition nr (e : elem) : elem := mkE (e_pos e) (e_kind e) (e_tags e) [] (e_prop e).   (* ElementNR *)
Definition set_pos (e : elem) (p : pos) : elem := mkE p (e_kind e) (e_tags e) (e_rels e) (e_prop e).
Definition set_rels (e : elem) (r : list (N * pos)) : elem := mkE (e_pos e) (e_kind e) (e_tags e) r (e_prop e).
Definition has_pos (p : pos) (e : elem) : bool := pos_eqb p (e_pos e).
Definition memN (x : N) (l : list N) : bool := existsb (N.eqb x) l.
Definition mem_pos (p : pos) (l : list pos) : bool := existsb (pos_eqb p) l.
Definition rel_eqb (a b : N * pos) : bool := (fst a =? fst b)%N && pos_eqb (snd a) (snd b).
Definition elem_eqb (a b : elem) : bool :=
  pos_eqb (e_pos a) (e_pos b) && (e_kind a =? e_kind b)%N && list_eqb N.eqb (e_tags a) (e_tags b)
  && list_eqb rel_eqb (e_rels a) (e_rels b) && (e_prop a =? e_prop b)%N.

(* ---------- key -> element-list stores (one key class of the instance each) ---------- *)
Definition amap (K : Type) := list (K * list elem).
Fixpoint aget {K} (eqb : K -> K -> bool) (m : amap K) (k : K) : list elem :=
  match m with
  | [] => []
  | (k', v) :: r => if eqb k' k then v else aget eqb r k
  end.
Definition aput {K} (k : K) (v : list elem) (m : amap K) : amap K := (k, v) :: m.
Fixpoint nodupb {K} (eqb : K -> K -> bool) (l : list K) : list K :=
  match l with
  | [] => []
  | x :: r => x :: filter (fun y => negb (eqb x y)) (nodupb eqb r)
  end.
Definition akeys {K} (eqb : K -> K -> bool) (m : amap K) : list K := nodupb eqb (map fst m).
Definition bget := aget pos_eqb.
Definition nget := aget N.eqb.

(* labelsz: (index type, label) -> count; an absent key reads 0 *)
Definition ckey := (N * N)%type.
Definition ckey_eqb (a b : ckey) : bool := (fst a =? fst b)%N && (snd a =? snd b)%N.
Definition cmap := list (ckey * Z).
Fixpoint cget (m : cmap) (k : ckey) : Z :=
  match m with
  | [] => 0
  | (k', v) :: r => if ckey_eqb k' k then v else cget r k
  end.
Definition cput (k : ckey) (v : Z) (m : cmap) : cmap := (k, v) :: m.

Record state := mkS { blk : amap pos; tgs : amap N; lbl : amap N; cnt : cmap; body : pos -> N }.

(* which of the proposed repairs (repo_patches/C13-*-fix.diff) are applied *)
Record cfg := mkCfg { fx_erase : bool; fx_movelbl : bool; fx_kind : bool; fx_allsyn : bool; fx_valid : bool }.
Definition impl : cfg := mkCfg false false false false false.   (* the code as found *)
Definition fixed : cfg := mkCfg true true true true true.       (* with the repairs C13-1..4 and the request validation C13-7, C13-8 *)

(* ---------- Elements / ElementsNR methods ---------- *)
(* emap[pos] = index, built by ranging over the slice: the LAST index with that position wins *)
Fixpoint last_idx (p : pos) (l : list elem) (i : nat) : option nat :=
  match l with
  | [] => None
  | x :: r => match last_idx p r (S i) with
              | Some j => Some j
              | None => if has_pos p x then Some i else None
              end
  end.
Fixpoint upd_nth {A} (n : nat) (a : A) (l : list A) : list A :=
  match l, n with
  | [], _ => []
  | _ :: r, O => a :: r
  | x :: r, S n' => x :: upd_nth n' a r
  end.
(* Elements.add(toAdd): the index map is built once from the receiver and not updated by appends *)
Definition el_add (elems toAdd : list elem) : list elem :=
  fold_left (fun acc e => match last_idx (e_pos e) elems 0 with
                          | Some i => upd_nth i e acc
                          | None => acc ++ [e]
                          end) toAdd elems.

Fixpoint remove_first (p : pos) (l : list elem) : option elem * list elem :=
  match l with
  | [] => (None, [])
  | x :: r => if has_pos p x then (Some x, r)
              else let '(d, r') := remove_first p r in (d, x :: r')
  end.
Definition refs (p : pos) (e : elem) : bool := existsb (fun r => pos_eqb p (snd r)) (e_rels e).
Definition del_rel (p : pos) (e : elem) : elem :=
  set_rels e (filter (fun r => negb (pos_eqb p (snd r))) (e_rels e)).
Definition mv_rel (from to : pos) (e : elem) : elem :=
  set_rels e (map (fun r => if pos_eqb from (snd r) then (fst r, to) else r) (e_rels e)).
(* Elements.delete: first element at pt is cut, then deleteRel(pt) over what remains *)
Definition el_delete (p : pos) (l : list elem) : option elem * list elem :=
  let '(d, l') := remove_first p l in (d, map (del_rel p) l').
Definition repos (from to : pos) (e : elem) : elem := if has_pos from e then set_pos e to else e.
Fixpoint last_at (p : pos) (l : list elem) : option elem :=
  match l with
  | [] => None
  | x :: r => match last_at p r with Some y => Some y | None => if has_pos p x then Some x else None end
  end.
(* Elements.move(from, to, deleteElement): [moved] is copied before relationships are rewritten *)
Definition el_move (from to : pos) (del : bool) (l : list elem) : option elem * list elem :=
  if del then
    let '(d, l') := remove_first from l in
    (match d with Some m => Some (set_pos m to) | None => None end, map (mv_rel from to) l')
  else
    (match last_at from l with Some m => Some (set_pos m to) | None => None end,
     map (mv_rel from to) (map (repos from to) l)).
Definition nr_delete (p : pos) (l : list elem) : list elem := snd (remove_first p l).
Definition nr_remove_all (p : pos) (l : list elem) : list elem := filter (fun e => negb (has_pos p e)) l.

(* ---------- labelsz ---------- *)
Definition kind_idx (k : N) : N :=
  if (k =? n_ann_PostSyn)%N then n_sz_PostSyn else if (k =? n_ann_PreSyn)%N then n_sz_PreSyn
  else if (k =? n_ann_Gap)%N then n_sz_Gap else if (k =? n_ann_Note)%N then n_sz_Note else n_sz_UnknownIndex.
Definition is_syn (k : N) : bool := (k =? n_ann_PostSyn)%N || (k =? n_ann_PreSyn)%N || (k =? n_ann_Gap)%N.
Definition lk := (N * N)%type.                       (* ElementPos without the position: (label, kind) *)
Definition delta := (list lk * list lk)%type.        (* DeltaModifyElements: Add, Del *)
Definition d0 : delta := ([], []).
Definition d_add (d : delta) (x : lk) : delta := (fst d ++ [x], snd d).
Definition d_del (d : delta) (x : lk) : delta := (fst d, snd d ++ [x]).
Definition d_app (a b : delta) : delta := (fst a ++ fst b, snd a ++ snd b).
Definition sz_keys (x : lk) : list ckey :=
  (kind_idx (snd x), fst x) :: (if is_syn (snd x) then [(n_sz_AllSyn, fst x)] else []).
Definition count_key (k : ckey) (l : list ckey) : Z := Z.of_nat (length (filter (ckey_eqb k) l)).
(* labelsz modifyElements: net change per key, old counts read once, floor at 0 *)
Definition sz_apply (c : cmap) (d : delta) : cmap :=
  let ka := flat_map sz_keys (fst d) in
  let kd := flat_map sz_keys (snd d) in
  fold_left (fun acc k =>
               let change := count_key k ka - count_key k kd in
               if change =? 0 then acc
               else let cur := cget c k in
                    let change' := if (change <? 0) && (cur <? - change) then - cur else change in
                    cput k (cur + change') acc)
            (nodupb ckey_eqb (ka ++ kd)) c.

(* what a count must be, computed from a label's element list *)
Definition idx_match (i k : N) : bool := if (i =? n_sz_AllSyn)%N then is_syn k else (kind_idx k =? i)%N.
Definition count_idx (i : N) (l : list elem) : Z := Z.of_nat (length (filter (fun e => idx_match i (e_kind e)) l)).

(* labelsz resync: every label key of the annotation instance with a non-empty list *)
Definition sz_reload (fx : bool) (lb : amap N) : cmap :=
  fold_left (fun acc l =>
               let el := nget lb l in
               match el with
               | [] => acc
               | _ =>
                 let per := fold_left (fun a i => let c := count_idx i el in if 0 <? c then cput (i, l) c a else a)
                                      [n_sz_UnknownIndex; n_sz_PostSyn; n_sz_PreSyn; n_sz_Gap; n_sz_Note] acc in
                 if fx then (let c := count_idx n_sz_AllSyn el in if 0 <? c then cput (n_sz_AllSyn, l) c per else per)
                 else cput (n_sz_AllSyn, l) (Z.of_nat (length el)) per   (* as found: sums all five slots *)
               end)
            (akeys N.eqb lb) [].

(* ---------- tag delta bookkeeping (addTagDelta / modifyTagElements) ---------- *)
Record tdelta := mkTd { td_add : list elem; td_erase : option (list pos) }.   (* None = nil map *)
Definition tdmap := list (N * tdelta).
Fixpoint tdget (m : tdmap) (t : N) : option tdelta :=
  match m with
  | [] => None
  | (t', d) :: r => if (t' =? t)%N then Some d else tdget r t
  end.
Definition tdput (t : N) (d : tdelta) (m : tdmap) : tdmap := (t, d) :: m.
Definition td_add_tag (e : elem) (m : tdmap) (t : N) : tdmap :=
  match tdget m t with
  | Some td => tdput t (mkTd (td_add td ++ [nr e]) (td_erase td)) m
  | None => tdput t (mkTd [nr e] None) m
  end.
Definition td_phase1 (newE : list elem) (m : tdmap) : tdmap :=
  fold_left (fun m e => fold_left (td_add_tag e) (e_tags e) m) newE m.
(* Tags.Removed *)
Definition tags_removed (t t2 : list N) : list N :=
  match t, t2 with
  | [], _ => []
  | _, [] => t
  | _, _ => filter (fun x => negb (memN x t2)) t
  end.
Definition td_erase_tag (fx : bool) (p : pos) (r : res tdmap) (t : N) : res tdmap :=
  res_bind r (fun m =>
    match tdget m t with
    | Some td => match td_erase td with
                 | Some er => Ok (tdput t (mkTd (td_add td) (Some (p :: er))) m)
                 | None => if fx then Ok (tdput t (mkTd (td_add td) (Some [p])) m)
                           else Panic                     (* td.erase[zyx] = ... on a nil map *)
                 end
    | None => Ok (tdput t (mkTd [] (Some [p])) m)
    end).
(* second loop of addTagDelta; [byPoint] is elemsByPoint (last new element per position, entries
   deleted once matched) *)
Fixpoint td_phase2 (fx : bool) (byPoint cur : list elem) (r : res tdmap) : res tdmap :=
  match cur with
  | [] => r
  | c :: rest =>
    match last_at (e_pos c) byPoint with
    | None => td_phase2 fx byPoint rest r
    | Some ne =>
      td_phase2 fx (nr_remove_all (e_pos c) byPoint) rest
                (fold_left (td_erase_tag fx (e_pos c)) (tags_removed (e_tags c) (e_tags ne)) r)
    end
  end.
Definition add_tag_delta (fx : bool) (newE cur : list elem) (m : tdmap) : res tdmap :=
  match newE with
  | [] => Ok m
  | _ => td_phase2 fx newE cur (Ok (td_phase1 newE m))
  end.
Definition td_keys (m : tdmap) : list N := nodupb N.eqb (map fst m).
Definition apply_td (tg0 : amap N) (td : tdelta) (t : N) : list elem :=
  let cur := nget tg0 t in
  let l1 := match td_add td with [] => cur | a => el_add cur a end in
  match td_erase td with
  | None => l1
  | Some er => filter (fun e => negb (mem_pos (e_pos e) er)) l1
  end.
Definition modify_tag_elements (tg0 : amap N) (m : tdmap) : amap N :=
  fold_left (fun acc t => match tdget m t with Some td => aput t (apply_td tg0 td t) acc | None => acc end)
            (td_keys m) tg0.

(* ---------- label denormalisation on POST (getLabelElements + storeLabelElements) ---------- *)
Definition lgroups := list (N * list elem).
Fixpoint lg_get (g : lgroups) (l : N) : list elem :=
  match g with [] => [] | (l', v) :: r => if (l' =? l)%N then v else lg_get r l end.
Definition lg_add (g : lgroups) (l : N) (e : elem) : lgroups :=      (* LabelElements.add *)
  if (l =? 0)%N then g else (l, lg_get g l ++ [e]) :: g.
Definition lg_keys (g : lgroups) : list N := nodupb N.eqb (map fst g).
Definition label_groups (bodyf : pos -> N) (es : list elem) : lgroups :=
  fold_left (fun g e => lg_add g (bodyf (e_pos e)) (nr e)) es [].
Definition store_label_one (fx : bool) (l : N) (cur adds : list elem) : list elem * delta :=
  fold_left (fun (st : list elem * delta) e =>
               let '(acc, d) := st in
               match last_idx (e_pos e) cur 0 with
               | None => (acc ++ [e], d_add d (l, e_kind e))
               | Some i =>
                 (upd_nth i e acc,
                  if fx then match nth_error acc i with
                             | Some o => if (e_kind o =? e_kind e)%N then d
                                         else d_add (d_del d (l, e_kind o)) (l, e_kind e)
                             | None => d
                             end
                  else d)
               end) adds (cur, d0).
Definition store_label_elements (fx : bool) (bodyf : pos -> N) (lb0 : amap N) (es : list elem) : amap N * delta :=
  let g := label_groups bodyf es in
  fold_left (fun (st : amap N * delta) l =>
               let '(lb, d) := st in
               let '(nl, dl) := store_label_one fx l (nget lb0 l) (lg_get g l) in
               (aput l nl lb, d_app d dl))
            (lg_keys g) (lb0, d0).

(* ---------- request validation (C13-7-fix: Elements.validate; C13-8-fix: MoveElement) ---------- *)
Fixpoint nodup_posb (l : list pos) : bool :=
  match l with [] => true | p :: r => negb (mem_pos p r) && nodup_posb r end.
Fixpoint nodup_Nb (l : list N) : bool :=
  match l with [] => true | x :: r => negb (memN x r) && nodup_Nb r end.
Definition elem_ok (e : elem) : bool := nodup_Nb (e_tags e).
Definition elems_ok (es : list elem) : bool := nodup_posb (map e_pos es) && forallb elem_ok es.

(* ---------- the edit paths ---------- *)
Definition group (bs b : pos) (es : list elem) : list elem :=
  filter (fun e => pos_eqb (blockOf bs (e_pos e)) b) es.

(* StoreElements; [ord] is the order in which Go ranges over the addToBlock map *)
Definition store_elements (c : cfg) (bs : pos) (ord : list pos) (es : list elem) (s : state) : res state :=
  if fx_valid c && negb (elems_ok es) then Err else     (* 400 before anything is written *)
  let tdr := fold_left (fun r b => res_bind r (add_tag_delta (fx_erase c) (group bs b es) (bget (blk s) b)))
                       ord (Ok []) in
  res_bind tdr (fun td =>
    let blk' := fold_left (fun acc b => match group bs b es with
                                        | [] => acc
                                        | g => aput b (el_add (bget (blk s) b) g) acc
                                        end) ord (blk s) in
    let '(lbl', d) := store_label_elements (fx_kind c) (body s) (lbl s) es in
    let tgs' := modify_tag_elements (tgs s) td in
    Ok (mkS blk' tgs' lbl' (sz_apply (cnt s) d) (body s))).

(* DeleteElement *)
Definition delete_in_label (s : state) (p : pos) : amap N * delta :=
  let l := body s p in
  let el := nget (lbl s) l in
  let hit := filter (has_pos p) el in
  match hit with
  | [] => (lbl s, d0)
  | _ => (aput l (nr_remove_all p el) (lbl s), (([] : list lk), map (fun e => (l, e_kind e)) hit))
  end.
Definition delete_in_tags (tg0 : amap N) (p : pos) (tags : list N) : amap N :=
  fold_left (fun acc t => let el := nget tg0 t in
                          if existsb (has_pos p) el then aput t (nr_remove_all p el) acc else acc) tags tg0.
Definition delete_in_rels (bs : pos) (bk0 : amap pos) (p : pos) (rels : list (N * pos)) : amap pos :=
  fold_left (fun acc r => let b := blockOf bs (snd r) in
                          let el := bget bk0 b in
                          if existsb (refs p) el then aput b (map (del_rel p) el) acc else acc) rels bk0.
Definition delete_element (bs : pos) (p : pos) (s : state) : res state :=
  let b := blockOf bs p in
  match el_delete p (bget (blk s) b) with
  | (None, _) => Err                                   (* "Did not find element" - nothing written *)
  | (Some d, el') =>
    let bk1 := aput b el' (blk s) in                   (* putElements: written at once *)
    let '(lbl', dl) := delete_in_label s p in
    Ok (mkS (delete_in_rels bs bk1 p (e_rels d)) (delete_in_tags (tgs s) p (e_tags d)) lbl'
            (sz_apply (cnt s) dl) (body s))
  end.

(* MoveElement *)
Definition move_in_labels (fx : bool) (s : state) (from to : pos) (moved : elem) : amap N * delta :=
  let ol := body s from in
  let nl := body s to in
  if (ol =? nl)%N then
    (if fx && negb (ol =? 0)%N && existsb (has_pos from) (nget (lbl s) ol)
     then aput ol (map (repos from to) (nget (lbl s) ol)) (lbl s) else lbl s, d0)
  else
    let '(lb1, d1) :=
        if (ol =? 0)%N then (lbl s, d0)
        else let el := nget (lbl s) ol in
             if existsb (has_pos from) el then (aput ol (nr_delete from el) (lbl s), d_del d0 (ol, e_kind moved))
             else (lbl s, d0) in
    if (nl =? 0)%N then (lb1, d1)
    else (aput nl (el_add (nget (lbl s) nl) [nr moved]) lb1, d_add d1 (nl, e_kind moved)).
Definition move_in_tags (tg0 : amap N) (from to : pos) (tags : list N) : amap N :=
  fold_left (fun acc t => let el := nget tg0 t in
                          if existsb (has_pos from) el then aput t (map (repos from to) el) acc else acc) tags tg0.
Definition move_in_rels (bs : pos) (bk0 : amap pos) (from to : pos) (rels : list (N * pos)) : amap pos :=
  let fb := blockOf bs from in
  fold_left (fun acc b =>
               if pos_eqb b fb then acc
               else let el := bget bk0 b in
                    if existsb (has_pos from) el || existsb (refs from) el
                    then aput b (map (mv_rel from to) (map (repos from to) el)) acc else acc)
            (nodupb pos_eqb (map (fun r => blockOf bs (snd r)) rels)) bk0.
(* the checks of C13-8-fix; [None] = go on with the move *)
Definition move_check (from to : pos) (fromE destE : list elem) : option (res unit) :=
  match find (has_pos from) fromE with
  | None => Some Err                                   (* "Did not find moved element" *)
  | Some cur =>
    if pos_eqb from to then Some (Ok tt)               (* nothing to do *)
    else if refs from cur || refs to cur then Some Err
    else if existsb (has_pos to) destE then Some Err
    else None
  end.
Definition move_element_core (c : cfg) (bs : pos) (from to : pos) (s : state) : res state :=
  let fb := blockOf bs from in
  let tb := blockOf bs to in
  let del := negb (pos_eqb fb tb) in
  match el_move from to del (bget (blk s) fb) with
  | (None, _) => Err                                   (* "Did not find moved element" *)
  | (Some moved, fl) =>
    let bk1 := aput fb fl (blk s) in
    let bk2 := if del then aput tb (el_add (bget (blk s) tb) [moved]) bk1 else bk1 in   (* first batch *)
    let s2 := mkS bk2 (tgs s) (lbl s) (cnt s) (body s) in
    let '(lbl', d) := move_in_labels (fx_movelbl c) s2 from to moved in
    Ok (mkS (move_in_rels bs bk2 from to (e_rels moved)) (move_in_tags (tgs s) from to (e_tags moved)) lbl'
            (sz_apply (cnt s) d) (body s))
  end.
Definition move_element (c : cfg) (bs : pos) (from to : pos) (s : state) : res state :=
  if fx_valid c then
    match move_check from to (bget (blk s) (blockOf bs from)) (bget (blk s) (blockOf bs to)) with
    | Some (Ok _) => Ok s
    | Some _ => Err
    | None => move_element_core c bs from to s
    end
  else move_element_core c bs from to s.

(* StoreBlocks, then POST reload (resyncInMemory, check=false), then labelsz POST reload *)
Definition all_elems (bk : amap pos) : list elem := flat_map (bget bk) (akeys pos_eqb bk).
Definition tag_groups (es : list elem) : lgroups :=
  fold_left (fun g e => fold_left (fun g t => (t, lg_get g t ++ [nr e]) :: g) (e_tags e) g) es [].
Definition groups_store (g : lgroups) : amap N :=
  fold_left (fun acc k => aput k (lg_get g k) acc) (lg_keys g) [].
Definition store_blocks (bl : list (pos * list elem)) (bk : amap pos) : amap pos :=
  fold_left (fun acc be => aput (fst be) (snd be) acc) bl bk.
Definition blocks_ok (bs : pos) (bl : list (pos * list elem)) : bool :=
  forallb (fun be => elems_ok (snd be) && forallb (fun e => pos_eqb (blockOf bs (e_pos e)) (fst be)) (snd be)) bl.
Definition reload (c : cfg) (bs : pos) (bl : list (pos * list elem)) (s : state) : res state :=
  if fx_valid c && negb (blocks_ok bs bl) then Err else    (* POST blocks answers 400, nothing written *)
  let bk := store_blocks bl (blk s) in
  let all := all_elems bk in
  let lb := groups_store (label_groups (body s) all) in
  Ok (mkS bk (groups_store (tag_groups all)) lb (sz_reload (fx_allsyn c) lb) (body s)).

(* ---------- label events (sync.go) ---------- *)
Definition kinds_delta_move (from to : N) (el : list elem) : delta :=
  (map (fun e => (to, e_kind e)) el, map (fun e => (from, e_kind e)) el).

Definition merge_labels (target : N) (merged : list N) (s : state) : amap N * delta :=
  let '(tl, lb, d, n) :=
      fold_left (fun (st : list elem * amap N * delta * nat) l =>
                   let '(tl, lb, d, n) := st in
                   match nget (lbl s) l with
                   | [] => st
                   | el => (tl ++ el, aput l [] lb, d_app d (kinds_delta_move l target el), (n + length el)%nat)
                   end) merged (nget (lbl s) target, lbl s, d0, O) in
  (match n with O => lbl s | _ => aput target tl lb end, d).

Definition cleave_labels (target cleaved : N) (incl : pos -> bool) (s : state) : amap N * delta :=
  match nget (lbl s) target with
  | [] => (lbl s, d0)
  | tl =>
    let cl := filter (fun e => incl (e_pos e)) tl in
    let rest := filter (fun e => negb (incl (e_pos e))) tl in
    let lb1 := match (if (cleaved =? 0)%N then [] else cl) with [] => lbl s | _ => aput cleaved cl (lbl s) end in
    (aput target (if (target =? 0)%N then [] else rest) lb1, kinds_delta_move target cleaved cl)
  end.

Definition split_labels (old new : N) (blocks : list pos) (inspl : pos -> bool) (s : state) : amap N * delta :=
  let hit := flat_map (fun b => filter (fun e => inspl (e_pos e)) (bget (blk s) b)) blocks in
  match hit with
  | [] => (lbl s, d0)
  | _ =>
    let lb1 := aput old (filter (fun e => negb (mem_pos (e_pos e) (map e_pos hit))) (nget (lbl s) old)) (lbl s) in
    (aput new (el_add (nget (lbl s) new) (map nr hit)) lb1, kinds_delta_move old new hit)
  end.

Definition mutate_block (bs : pos) (b : pos) (prev data : pos -> N) (s : state) : amap N * delta :=
  let el := bget (blk s) b in
  let newl := fun e => data (inChunk bs (e_pos e)) in
  let oldl := fun e => prev (inChunk bs (e_pos e)) in
  let labels := nodupb N.eqb (filter (fun l => negb (l =? 0)%N)
                                     (flat_map (fun e => [newl e; oldl e]) el)) in
  (fold_left (fun acc l =>
                let cur := nget (lbl s) l in
                let cur1 := fold_left (fun a e => if (oldl e =? l)%N then nr_delete (e_pos e) a else a) el cur in
                aput l (el_add cur1 (map nr (filter (fun e => (newl e =? l)%N) el))) acc) labels (lbl s),
   (map (fun e => (newl e, e_kind e)) (filter (fun e => negb (newl e =? 0)%N) el),
    map (fun e => (oldl e, e_kind e)) (filter (fun e => negb (oldl e =? 0)%N) el))).

Definition ingest_block (bs : pos) (b : pos) (data : pos -> N) (s : state) : amap N * delta :=
  let el := bget (blk s) b in
  let newl := fun e => data (inChunk bs (e_pos e)) in
  let g := fold_left (fun g e => lg_add g (newl e) (nr e)) el [] in
  (fold_left (fun acc l => aput l (el_add (nget (lbl s) l) (lg_get g l)) acc) (lg_keys g) (lbl s),
   (flat_map (fun l => map (fun e => (l, e_kind e)) (lg_get g l)) (lg_keys g), [])).

(* ---------- operations and the machine ---------- *)
Inductive op :=
| OPost (ord : list pos) (es : list elem)
| ODelete (p : pos)
| OMove (from to : pos)
| OReload (bl : list (pos * list elem))
| OLabels (ls : list (N * list elem))           (* POST labels: raw ingest of label lists *)
| LMerge (target : N) (merged : list N)
| LCleave (target cleaved : N) (incl : pos -> bool)
| LSplit (old new : N) (blocks : list pos) (inspl : pos -> bool)
| LMutate (b : pos) (prev data : pos -> N)
| LIngest (b : pos) (data : pos -> N).

(* handlePostLabels (handlers.go): each list is stored as given under its label key; label 0 is
   skipped; nothing is sent to subscribers *)
Definition post_labels (ls : list (N * list elem)) (lb : amap N) : amap N :=
  fold_left (fun acc le => if (fst le =? 0)%N then acc else aput (fst le) (snd le) acc) ls lb.

Definition with_labels (s : state) (r : amap N * delta) (bd : pos -> N) : res state :=
  Ok (mkS (blk s) (tgs s) (fst r) (sz_apply (cnt s) (snd r)) bd).

(* the label volume after an event (what the label data type did; its own correctness is C08) *)
Definition body_after (bs : pos) (o : op) (bd : pos -> N) : pos -> N :=
  match o with
  | LMerge t m => fun p => if memN (bd p) m then t else bd p
  | LCleave t c incl => fun p => if (bd p =? t)%N && incl p then c else bd p
  | LSplit o n _ inspl => fun p => if (bd p =? o)%N && inspl p then n else bd p
  | LMutate b _ data => fun p => if pos_eqb (blockOf bs p) b then data (inChunk bs p) else bd p
  | LIngest b data => fun p => if pos_eqb (blockOf bs p) b then data (inChunk bs p) else bd p
  | _ => bd
  end.

Definition step (c : cfg) (bs : pos) (o : op) (s : state) : res state :=
  match o with
  | OPost ord es => store_elements c bs ord es s
  | ODelete p => delete_element bs p s
  | OMove f t => move_element c bs f t s
  | OReload bl => reload c bs bl s
  | OLabels ls => Ok (mkS (blk s) (tgs s) (post_labels ls (lbl s)) (cnt s) (body s))
  | LMerge t m => with_labels s (merge_labels t m s) (body_after bs o (body s))
  | LCleave t cl incl => with_labels s (cleave_labels t cl incl s) (body_after bs o (body s))
  | LSplit o' n bl f => with_labels s (split_labels o' n bl f s) (body_after bs o (body s))
  | LMutate b pv d => with_labels s (mutate_block bs b pv d s) (body_after bs o (body s))
  | LIngest b d => with_labels s (ingest_block bs b d s) (body_after bs o (body s))
  end.

(* an error or a panic leaves the stores as they were (both happen before the first write) *)
Definition step_or_stay (c : cfg) (bs : pos) (o : op) (s : state) : state :=
  match step c bs o s with Ok s' => s' | _ => s end.
Definition run (c : cfg) (bs : pos) (h : list op) (s : state) : state :=
  fold_left (fun s o => step_or_stay c bs o s) h s.
Definition init (bd : pos -> N) : state := mkS [] [] [] [] bd.

(* ---------- ground truth: the element set and what each request means for it ---------- *)
Definition in_posb (p : pos) (G : list elem) : bool := existsb (has_pos p) G.
Definition upsert (G : list elem) (e : elem) : list elem := e :: nr_remove_all (e_pos e) G.
Definition g_post (es G : list elem) : list elem := fold_left upsert es G.
Definition g_delete (p : pos) (G : list elem) : list elem := map (del_rel p) (nr_remove_all p G).
Definition g_move (from to : pos) (G : list elem) : list elem := map (mv_rel from to) (map (repos from to) G).
Definition g_blocks (bs : pos) (bl : list (pos * list elem)) (G : list elem) : list elem :=
  flat_map snd bl ++ filter (fun e => negb (mem_pos (blockOf bs (e_pos e)) (map fst bl))) G.
Definition gstep (bs : pos) (o : op) (G : list elem) : list elem :=
  match o with
  | OPost _ es => if elems_ok es then g_post es G else G          (* an ill-formed request is rejected *)
  | ODelete p => if in_posb p G then g_delete p G else G
  | OMove f t => match move_check f t G G with None => g_move f t G | Some _ => G end
  | OReload bl => if blocks_ok bs bl then g_blocks bs bl G else G
  | _ => G
  end.
Definition grun (bs : pos) (h : list op) (G : list elem) : list elem := fold_left (fun G o => gstep bs o G) h G.

(* ---------- the property ---------- *)
Definition in_block (bs b : pos) (e : elem) : bool := pos_eqb (blockOf bs (e_pos e)) b.
Definition on_body (bd : pos -> N) (l : N) (e : elem) : bool := (bd (e_pos e) =? l)%N.
Definition has_tag (t : N) (e : elem) : bool := memN t (e_tags e).

Record Views (bs : pos) (G : list elem) (s : state) : Prop := mkViews {
  v_nodup : NoDup (map e_pos G);
  v_tagsnd : forall e, In e G -> NoDup (e_tags e);
  v_block : forall b, Permutation (bget (blk s) b) (filter (in_block bs b) G);
  v_tag : forall t, Permutation (nget (tgs s) t) (map nr (filter (has_tag t) G));
  v_label : forall l, l <> 0%N -> Permutation (nget (lbl s) l) (map nr (filter (on_body (body s) l) G));
  v_label0 : nget (lbl s) 0%N = [];
  v_count : forall i l, l <> 0%N -> cget (cnt s) (i, l) = count_idx i (filter (on_body (body s) l) G)
}.

(* every element that references p is either in p's block or is referenced back by the element at p:
   the condition under which DVID finds all partners of a moved / deleted element *)
Definition refs_listed (bs : pos) (G : list elem) (p : pos) : Prop :=
  forall e q, In e G -> has_pos p e = true -> In q G -> refs p q = true ->
              blockOf bs (e_pos q) = blockOf bs p \/ refs (e_pos q) e = true.

Definition blocks_wf (bs : pos) (bl : list (pos * list elem)) : Prop :=
  NoDup (map fst bl) /\ NoDup (map e_pos (flat_map snd bl))
  /\ (forall b es e, In (b, es) bl -> In e es -> blockOf bs (e_pos e) = b /\ NoDup (e_tags e)).

(* when is a request / event one that the property speaks about.  Ill-formed element lists, a move
   onto an occupied position and a move that would make an element reference itself need no
   hypothesis: the (repaired) code rejects them and changes nothing. *)
Definition guard (bs : pos) (G : list elem) (bd : pos -> N) (o : op) : Prop :=
  match o with
  | OPost ord es => NoDup ord /\ (forall e, In e es -> In (blockOf bs (e_pos e)) ord)
  | ODelete p => refs_listed bs G p
  | OMove f t => refs_listed bs G f
  | OReload bl => NoDup (map fst bl)
  | OLabels ls => forall l es, In (l, es) ls -> l <> 0%N -> Permutation es (map nr (filter (on_body bd l) G))
  | LMerge t m => t <> 0%N /\ NoDup m /\ ~ In t m /\ ~ In 0%N m
  | LCleave t c _ => t <> 0%N /\ c <> 0%N /\ c <> t /\ (forall p, bd p <> c)
  | LSplit o n bl inspl => o <> 0%N /\ n <> 0%N /\ n <> o /\ NoDup bl
                           /\ (forall p, inspl p = true -> bd p = o /\ In (blockOf bs p) bl)
  | LMutate b pv _ => forall p, blockOf bs p = b -> pv (inChunk bs p) = bd p
  | LIngest b _ => forall p, blockOf bs p = b -> bd p = 0%N
  end.

Fixpoint valid (bs : pos) (G : list elem) (bd : pos -> N) (h : list op) : Prop :=
  match h with
  | [] => True
  | o :: r => guard bs G bd o /\ valid bs (gstep bs o G) (body_after bs o bd) r
  end.
