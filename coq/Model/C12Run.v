(* Model.C12Run: executable checkers used by Run/cases_C12.v (no proofs). *)
From DV Require Import Base.Prelude Model.Persist Model.IDs Model.IDsR Gen.Consts.
Local Open Scope N_scope.

Inductive c12case :=
(* mutation-id history as the driver enacted it on a child process, and the ids it was given *)
| CMut (evs : list mevent) (ids : list N)
(* label history (background goroutines awaited after each ingest) and, for every allocation request
   for at least one label, the range returned (None: the server refused the request) *)
| CLab (evs : list levent) (outs : list (option (N * N)))
(* POST blocks immediately followed by POST nextlabel/1: (largest label just ingested, label handed out) *)
| CRace (rounds : list (N * N))
(* version ids and instance ids in the order they were acknowledged, across kills and restarts *)
| CIds (vids iids : list N)
(* Round 4: history over the alphabet of the repaired machine (Model.IDsR) with kills INSIDE an ingest
   (before / after the Puts of its max-label update, before / after its block write) and inside POST
   maxlabel; outs as in CLab; stored = labels the driver READ BACK from the volume after a restart, each
   with the number of allocation requests issued before it was read *)
| CKill (evs : list revent) (outs : list (option (N * N))) (stored : list (N * nat)).

Definition nn_eqb (a b : N * N) : bool := (fst a =? fst b) && (snd a =? snd b).

Definition oeqb (a b : option (N * N)) : bool :=
  match a, b with Some x, Some y => nn_eqb x y | None, None => true | _, _ => false end.

(* what the machine answers to each allocation request for n > 0 labels *)
Fixpoint alloc_outcomes (s : lstate) (evs : list levent) : list (option (N * N)) :=
  match evs with
  | [] => []
  | e :: r =>
    let '(s1, o) := lstep s e in
    match e with
    | LAlloc _ n => if n =? 0 then alloc_outcomes s1 r else o :: alloc_outcomes s1 r
    | _ => alloc_outcomes s1 r
    end
  end.

Fixpoint served (outs : list (option (N * N))) : list (N * N) :=
  match outs with [] => [] | Some x :: r => x :: served r | None :: r => served r end.

(* the same for the repaired machine *)
Fixpoint alloc_outcomes_r (s : lstate) (evs : list revent) : list (option (N * N)) :=
  match evs with
  | [] => []
  | e :: r =>
    let '(s1, o) := rstep s e in
    match e with
    | RE (LAlloc _ n) => if n =? 0 then alloc_outcomes_r s1 r else o :: alloc_outcomes_r s1 r
    | _ => alloc_outcomes_r s1 r
    end
  end.

Definition model_ok (c : c12case) : bool :=
  match c with
  | CMut evs ids =>
    list_eqb N.eqb (snd (mrun n_ids_StrideMutationID (m_fresh n_ids_InitialMutationID n_ids_StrideMutationID) evs)) ids
  | CLab evs outs =>
    (* instance created by the repaired code (initial maximum persisted) or as the code stood *)
    (list_eqb oeqb (alloc_outcomes l_fresh evs) outs || list_eqb oeqb (alloc_outcomes l_fresh_unrepaired evs) outs)
    (* ... and the machine the all-histories theorems are about answers the same *)
    && (list_eqb oeqb (alloc_outcomes_r l_fresh (map RE evs)) outs
        || list_eqb oeqb (alloc_outcomes_r l_fresh_unrepaired (map RE evs)) outs)
  | CRace _ => true
  | CIds _ _ => true
  | CKill evs outs stored =>
    (* same answers, and every label read back from the volume is a label the machine counts as present *)
    list_eqb oeqb (alloc_outcomes_r l_fresh evs) outs
    && forallb (fun ln : N * nat => existsb (N.eqb (fst ln)) (l_present (fst (rrun l_fresh evs)))) stored
  end.

(* labels known to be in the volume before each allocation of a label history, from the events
   alone (no model state): ingested block maxima, posted maxima and the body labels of posted indices *)
Fixpoint fresh_ok (evs : list levent) (ranges : list (option (N * N))) (present : list N) : bool :=
  match evs with
  | [] => true
  | LAlloc _ n :: r =>
    if n =? 0 then fresh_ok r ranges present else
    match ranges with
    | Some (b, e) :: rs =>
      (* a served request is above everything present and stays below 2^64 *)
      forallb (fun l => l <? b) present && (e <=? max_label) && fresh_ok r rs present
    | None :: rs => fresh_ok r rs present      (* refused: nothing was handed out *)
    | [] => true
    end
  | LIngest _ bms :: r => fresh_ok r ranges (bms ++ present)
  | LSetMax _ l :: r => fresh_ok r ranges (l :: present)   (* a posted maximum / an index's body label *)
  | _ :: r => fresh_ok r ranges present
  end.

(* an ingest whose goroutines were lost in a kill makes later freshness unclaimable (the property's
   proviso); the driver awaits them, so only kills directly after an ingest matter: none generated *)

(* 0 holds; 1 mutation ids not strictly increasing; 2 label ranges not disjoint / increasing;
   3 an awaited allocation returned a label not above an ingested one; 4 version or instance ids
   repeated or out of order *)
Definition spec_class (c : c12case) : nat :=
  match c with
  | CMut _ ids => if increasingb ids then 0%nat else 1%nat
  | CLab evs outs =>
    if negb (ranges_increasingb 0 (served outs)) then 2%nat
    else if fresh_ok evs outs [] then 0%nat else 3%nat
  | CRace rounds => if forallb (fun r : N * N => fst r <? snd r) rounds then 0%nat else 3%nat
  | CIds vids iids => if increasingb vids && increasingb iids then 0%nat else 4%nat
  | CKill _ outs stored =>
    if negb (ranges_increasingb 0 (served outs)) then 2%nat
    else if forallb (fun ln : N * nat => forallb (fun r : N * N => fst ln <? fst r) (served (skipn (snd ln) outs))) stored
    then 0%nat else 3%nat
  end.

Fixpoint classify_from (i : nat) (l : list c12case) : list (nat * nat) :=
  match l with
  | [] => []
  | c :: r => let k := spec_class c in
              if Nat.eqb k 0 then classify_from (S i) r else (i, k) :: classify_from (S i) r
  end.
Definition c12_spec_fail (l : list c12case) : list (nat * nat) := classify_from 0 l.
Definition c12_model_mismatch (l : list c12case) : list nat := find_idx (fun c => negb (model_ok c)) l.
