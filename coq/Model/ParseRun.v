(* Model.ParseRun: case types and checkers for Run/C20/cases_C20.v (no proofs). *)
From DV Require Import Base.Prelude Base.Int Gen.Consts Model.Parse.
Local Open Scope N_scope.

(* byte-level mutations of a base payload, expanded here so that the cases file stays small *)
Inductive mutation :=
| MNone
| MTrunc (n : nat)                     (* keep the first n bytes *)
| MSetByte (pos : nat) (v : N)
| MSetU32 (pos : nat) (v : N)          (* little-endian 32-bit field *)
| MAppend (tail : bytes).

Fixpoint set_at (l : bytes) (pos : nat) (v : bytes) : bytes :=
  match v with
  | [] => l
  | _ =>
    match pos, l with
    | O, _ => v ++ skipn (length v) l
    | S p, x :: r => x :: set_at r p v
    | S _, [] => []
    end
  end.

Definition mutate (m : mutation) (l : bytes) : bytes :=
  match m with
  | MNone => l
  | MTrunc n => firstn n l
  | MSetByte pos v => if Nat.ltb pos (length l) then set_at l pos [v] else l
  | MSetU32 pos v => if Nat.leb (pos + 4) (length l) then set_at l pos (le_enc 4 v) else l
  | MAppend t => l ++ t
  end.

(* observed request outcome classes *)
Definition o2xx : N := 0.   Definition o4xx : N := 1.   Definition oPanic500 : N := 2.
Definition o5xx : N := 3.   Definition oDead : N := 4.   Definition oHang : N := 5.
(* the handler did not return within the deadline, the server still answers other requests *)
Definition oNoAnswer : N := 6.
(* the request was answered, but afterwards a well-formed throttled request is refused with 503:
   the request kept the server-wide throttle slot *)
Definition oSlotKept : N := 7.
(* expectation attached to a request by the generator *)
Definition eWellFormed : N := 0.   (* conforms to the documented format *)
Definition eMalformed : N := 1.    (* the oracle decoder / the format definition rejects it *)
Definition eUnknown : N := 2.      (* mutated or hostile; may be accepted or rejected *)

(* request families that carry a dedicated finding code *)
Definition famAnnotationTagSwap : N := 13.

Inductive c20case :=
(* in-process, package level: base payload number, mutation, observed classes of
   UnmarshalBinary, UnmarshalBinary+Validate (= the former while Validate does not exist),
   MakeLabelVolume, CalcNumLabels, GetPointLabels on the sample points *)
| CBlock (base : nat) (m : mutation) (parse ingest vol calc pt : oclass)
(* in-process dvid.ReadRLEs: observed class and number of spans returned *)
| CSparse (base : nat) (m : mutation) (obs : oclass) (spans : N)
(* POST blocks carrying one frame with gzip(mutated base); observed outcome class; sentinel intact *)
| CBlockReq (base : nat) (m : mutation) (indexing : bool) (obs : N) (sentinel : bool)
(* POST elements into one block: posted and previously stored elements, observed outcome *)
| CElements (newE cur : list aelem) (obs : N) (sentinel : bool)
(* any other request: family, expectation, observed outcome, sentinel intact, and (for requests
   answered 4xx) whether the data the request names reads back as before *)
| CReq (fam expect obs : N) (sentinel named : bool).

(* shorthand used by the generated cases file: sentinel and named data intact *)
Definition R (fam expect obs : N) : c20case := CReq fam expect obs true true.

Section Run.
Variable bases : list bytes.
Definition base_of (i : nat) : bytes := match nth_error bases i with Some b => b | None => [] end.

(* the sample points of GetPointLabels: offsets 0, 73, 255, 511 of each of the 8 sub-blocks of a
   16x16x16 block, located with the block's own gx, gy as GetPointLabels does *)
Definition sample_offsets : list N := [0; 73; 255; 511].
Definition sample_points (b : block) : list (N * N) :=
  flat_map (fun s : N * N * N =>
              let '(sx, sy, sz) := s in
              map (fun o => (sz * b_gy b * b_gx b + sy * b_gx b + sx, o)) sample_offsets)
           [(0,0,0);(1,0,0);(0,1,0);(1,1,0);(0,0,1);(1,0,1);(0,1,1);(1,1,1)].
Definition points_class (b : block) : oclass :=
  if existsb (fun p => is_panic (view_point b (fst p) (snd p))) (sample_points b) then OPanic else OOk.

(* (written with nested ifs: vm_compute evaluates both arguments of && and ||) *)
Definition block_obs_ok (fx : bool) (data : bytes) (parse ingest vol calc pt : oclass) : bool :=
  if negb (oclass_eqb parse (class_of (parse_block fx data))) then false else
  let ing := ingest_block fx data in
  if negb (oclass_eqb ingest (class_of ing)) then false else
  match ing with
  | Ok b => if negb (oclass_eqb calc (class_of (view_calc b))) then false
            else if negb (oclass_eqb vol (class_of (view_volume b))) then false
            else oclass_eqb pt (points_class b)
  | _ => true
  end.

Definition outcome_class (o : outcome) : N :=
  match o with Done => o2xx | Rejected => o4xx | Recovered => oPanic500 | Crashed => oDead end.

(* POST blocks with one frame: the gzip oracle maps the frame's compressed bytes back to [raw] *)
Definition stub_frame : bytes := le_enc 4 3 ++ le_enc 4 0 ++ le_enc 4 0 ++ le_enc 4 1 ++ [0].
Definition block_req_pred (fx indexing : bool) (raw : bytes) : N :=
  if indexing then outcome_class (snd (handle (fun _ => Ok raw) fx (RBlocks (2, 2, 2) stub_frame) []))
  else match ingest_block fx raw with
       | Ok b => if fx && negb (dims_ok (2, 2, 2) b) then o4xx else o2xx
       | Err => o4xx | Panic => oPanic500
       end.

Definition elements_pred (fx : bool) (newE cur : list aelem) : N :=
  outcome_class (snd (handle (fun c => Ok c) fx (RElements [(newE, cur)]) [])).

Definition sparse_ok (body : bytes) (obs : oclass) (spans : N) : bool :=
  match read_rles body, obs with
  | Ok l, OOk => len l =? spans
  | Err, OErr => true
  | Panic, OPanic => true
  | _, _ => false
  end.

(* the implementation agrees with the model of the code as it stands or with the model of the
   repaired code *)
Definition model_ok (c : c20case) : bool :=
  match c with
  | CBlock base m parse ingest vol calc pt =>
    let data := mutate m (base_of base) in
    if block_obs_ok true data parse ingest vol calc pt then true else block_obs_ok false data parse ingest vol calc pt
  | CSparse base m obs spans => sparse_ok (mutate m (base_of base)) obs spans
  | CBlockReq base m indexing obs _ =>
    let raw := mutate m (base_of base) in
    (obs =? block_req_pred false indexing raw) || (obs =? block_req_pred true indexing raw)
  | CElements newE cur obs _ =>
    (obs =? elements_pred false newE cur) || (obs =? elements_pred true newE cur)
  | CReq _ _ _ _ _ => true
  end.

(* The property as an oracle on what the implementation did.
   1 = process death / hang            2 = 5xx "Panic detected" on a well-formed request
   3 = malformed payload not answered with a client error (accepted, or 5xx)
   4 = untouched data changed          5 = a rejected request changed the data it names
   6 = (known finding, C13 patch pending) POST elements dropping a tag that another element of
       the same post adds: 500 "assignment to entry in nil map" *)
Definition well_formed_block (data : bytes) : bool := is_ok (ingest_block true data).
(* ... and of the size of the blocks of the instance it is posted to (16^3 voxels = 2x2x2 sub-blocks) *)
Definition well_formed_for_instance (data : bytes) : bool :=
  match ingest_block true data with Ok b => dims_ok (2, 2, 2) b | _ => false end.

Definition req_class (fam expect obs : N) (sentinel named : bool) : nat :=
  if (obs =? oDead) || (obs =? oHang) || (obs =? oSlotKept) then 1%nat
  else if obs =? oNoAnswer then (if expect =? eWellFormed then 1%nat else 3%nat)
  else if (expect =? eWellFormed) && ((obs =? oPanic500) || (obs =? o5xx)) then
    (if fam =? famAnnotationTagSwap then 6%nat else 2%nat)
  else if (expect =? eMalformed) && negb (obs =? o4xx) then 3%nat
  else if (expect =? eUnknown) && ((obs =? oPanic500) || (obs =? o5xx)) then 3%nat
  else if negb sentinel then 4%nat
  else if (obs =? o4xx) && negb named then 5%nat
  else 0%nat.

(* tag swap shape: a stored element loses a tag (against the last posted element at its
   position, which is the one the handler keeps) that some posted element carries *)
Definition tag_swap (newE cur : list aelem) : bool :=
  existsb (fun c =>
    match find (fun e => a_pos e =? a_pos c) (rev newE) with
    | Some e => existsb (fun t => negb (mem t (a_tags e)) && existsb (fun e' => mem t (a_tags e')) newE)
                        (a_tags c)
    | None => false
    end) cur.

Definition is_panic_c (x : oclass) : bool := oclass_eqb x OPanic.

Definition spec_class (c : c20case) : nat :=
  match c with
  | CBlock base m parse ingest vol calc pt =>
    let data := mutate m (base_of base) in
    if is_panic_c parse || is_panic_c ingest then 3%nat
    else match ingest with
         | OOk => if is_panic_c vol || is_panic_c calc then 1%nat
                  else if is_panic_c pt then 2%nat
                  else if negb (well_formed_block data) then 3%nat else 0%nat
         | _ => 0%nat
         end
  | CSparse _ _ obs _ => if is_panic_c obs then 3%nat else 0%nat
  | CBlockReq base m indexing obs sentinel =>
    let raw := mutate m (base_of base) in
    req_class 0 (if well_formed_for_instance raw then eWellFormed else eMalformed) obs sentinel true
  | CElements newE cur obs sentinel =>
    req_class (if tag_swap newE cur then famAnnotationTagSwap else 0) eWellFormed obs sentinel true
  | CReq fam expect obs sentinel named => req_class fam expect obs sentinel named
  end.
End Run.

Fixpoint classify_from (bases : list bytes) (i : nat) (l : list c20case) : list (nat * nat) :=
  match l with
  | [] => []
  | c :: r => let k := spec_class bases c in
              if Nat.eqb k 0 then classify_from bases (S i) r else (i, k) :: classify_from bases (S i) r
  end.
Definition c20_spec_fail (bases : list bytes) (l : list c20case) : list (nat * nat) := classify_from bases 0 l.
Definition c20_model_mismatch (bases : list bytes) (l : list c20case) : list nat :=
  find_idx (fun c => negb (model_ok bases c)) l.
