(* Model.Heads: the branch-head cache of the repaired code (fix 2fa5b78, repo_patches/C03-3-fix.diff)
   and the repaired merge (parents validated before the child exists), definitions only.

   datastore/repo_local.go:
     repoT.branchHeads :2451          [max_heads] (Model.Persist): per branch the largest version id
     repoManager.cacheBranchHeads :2465   [cache_heads]: the repo's entries of branchToUUID are REPLACED
                                      by branchHeads(); called by loadMetadata :781 for every loaded
                                      repo, newRepo :1130, newVersion :1889 (after the child is in the
                                      DAG; no refusal path reaches it), merge :2017 (accepted merges only)
     (makeMaster / hideBranch also call it; they are not operations of this model)
     commit, newData, deleteData, deleteRepo, newMutationID do NOT touch the cache
     "uuid:branch" is answered from the cache :1318 ([cached_head]) after the repo was found by its
     root uuid (so entries of a deleted repo are never read)
     merge :1933: every parent must be present, committed and listed once BEFORE newUUID; a refused
     merge changes nothing ([merge_valid], [op_merge_v]). *)
From DV Require Import Base.Prelude Model.Persist.
Local Open Scope N_scope.

(* repo id -> branch -> head version: repoManager.branchToUUID, keyed by root uuid + branch name *)
Definition hcache := list (N * list (N * N)).

Definition cache_heads (hc : hcache) (rid : N) (m : pmgr) : hcache :=
  match aget rid (m_repos m) with Some r => aset rid (max_heads r) hc | None => hc end.

Definition cached_head (hc : hcache) (rid br : N) : option N :=
  match aget rid hc with Some h => aget br h | None => None end.

(* start-up: cacheBranchHeads for every loaded repo, into an empty map *)
Definition startup_heads (m : pmgr) : hcache := map (fun ib => (fst ib, max_heads (snd ib))) (m_repos m).

Fixpoint nodupb (l : list N) : bool :=
  match l with [] => true | x :: r => negb (existsb (N.eqb x) r) && nodupb r end.

Definition merge_valid (m : pmgr) (rid : N) (parents : list N) : bool :=
  match parents with
  | [] | [_] => false
  | _ =>
    match aget rid (m_repos m) with
    | None => false
    | Some r =>
      forallb (fun p => match aget p (pr_nodes r) with Some pn => pn_locked pn | None => false end) parents
      && nodupb parents
    end
  end.

(* merge as repaired: validation first, then exactly what the accepted path of [op_merge] does *)
Definition op_merge_v (m : pmgr) (rid : N) (parents : list N) (u : N) : pmgr * list pwrite :=
  if merge_valid m rid parents then op_merge m rid parents u else (m, []).

(* one request on the repaired code: manager, head cache, writes *)
Definition hstep (C : pconf) (m : pmgr) (hc : hcache) (o : pop) : pmgr * hcache * list pwrite :=
  match o with
  | PNewRepo u => let '(m', ws) := op_new_repo C m u in (m', cache_heads hc (m_rid m) m', ws)
  | PNewVersion rid p b u =>
    let '(m', ws) := op_new_version m rid p b u in
    match ws with
    | [] => (m', hc, ws)                       (* refused: returns before cacheBranchHeads *)
    | _ => (m', cache_heads hc rid m', ws)
    end
  | PMerge rid ps u =>
    if merge_valid m rid ps
    then let '(m', ws) := op_merge m rid ps u in (m', cache_heads hc rid m', ws)
    else (m, hc, [])
  | _ => let '(m', ws) := pstep C m o in (m', hc, ws)
  end.

(* the manager part alone (what Model.C03Run runs for the repo metadata) *)
Definition pstep_v (C : pconf) (m : pmgr) (o : pop) : pmgr * list pwrite :=
  match o with
  | PMerge rid ps u => op_merge_v m rid ps u
  | _ => pstep C m o
  end.

Fixpoint hrun_img (C : pconf) (m : pmgr) (hc : hcache) (img : image) (ops : list pop) : pmgr * hcache * image :=
  match ops with
  | [] => (m, hc, img)
  | o :: r => let '(m1, hc1, ws) := hstep C m hc o in hrun_img C m1 hc1 (apply_ws img ws) r
  end.

(* a restart: the loaded manager, its start-up cache, the image with the writes start-up issued *)
Definition hrestart (C : pconf) (img : image) : res (pmgr * hcache * image) :=
  match recover C img with
  | Ok (mr, wr) => Ok (mr, startup_heads mr, apply_ws img wr)
  | Err => Err
  | Panic => Panic
  end.

(* histories in segments with a restart after every segment but the last *)
Fixpoint hrun_segs (C : pconf) (m : pmgr) (hc : hcache) (img : image) (segs : list (list pop))
  : res (pmgr * hcache * image) :=
  match segs with
  | [] => Ok (m, hc, img)
  | [ops] => Ok (hrun_img C m hc img ops)
  | ops :: rest =>
    let '(m1, hc1, img1) := hrun_img C m hc img ops in
    match hrestart C img1 with
    | Ok (mr, hcr, imgr) => hrun_segs C mr hcr imgr rest
    | Err => Err
    | Panic => Panic
    end
  end.

(* the cache holds, for every repo there is, what the DAG function gives *)
Definition heads_inv (m : pmgr) (hc : hcache) : Prop :=
  forall rid r, aget rid (m_repos m) = Some r ->
    exists h, aget rid hc = Some h /\ forall br, aget br h = aget br (max_heads r).

(* what a client sees of a running server: the repos, and what every branch name of every repo
   there is resolves to *)
Definition hobs_eq (m1 : pmgr) (hc1 : hcache) (m2 : pmgr) (hc2 : hcache) : Prop :=
  pobserve m1 = pobserve m2 /\
  forall rid br, amem rid (m_repos m1) = true -> cached_head hc1 rid br = cached_head hc2 rid br.

(* memory, cache and store agree: the states to which the restart theorems apply (the initial state
   is one, every request and every restart keeps it) *)
Record hgood (m : pmgr) (hc : hcache) (img : image) : Prop := {
  hg_pinv : pinv m img = true;
  hg_sync : synced m img;
  hg_heads : heads_inv m hc
}.

(* what the next request's effect on the repos depends on: the repos and the three id counters *)
Definition mcore (m : pmgr) : list (N * prepo) * N * N * N := (m_repos m, m_rid m, m_vid m, m_iid m).

(* the server's configured first instance id never exceeds the counter (true at start-up, kept) *)
Definition inst_ok (C : pconf) (m : pmgr) : Prop := c_inst_start C <= m_iid m.
