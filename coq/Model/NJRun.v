(* Model.NJRun: case type and executable checkers for Run/cases_C16.v (no proofs).
   A case is one history of requests with what the server answered, followed by the same read
   requests observed at five points:
     P1 head of master (memory path), then the driver commits and opens a new version,
     P2 the committed parent (store path), P3 the child (memory path), then the datastore is
     closed and reopened, P4 the child (memory reloaded), P5 the parent (store path); then the
     child is modified and P6 reads the committed parent again (store path, must be unchanged). *)
From DV Require Import Base.Prelude Model.NJ Model.NJQuery Model.NJOrd.
Local Open Scope N_scope.

(* short constructor names keep the generated files small *)
Definition jn (z : Z) : json := JNum z.
Definition jf (t : N) : json := JFlt t.
Definition js (s : bytes) : json := JStr s.
Definition ja (l : list json) : json := JArr l.
Definition jo (l : list (bytes * json)) : json := JObj l.
Definition jt : json := JBool true.
Definition jfa : json := JBool false.
Definition j0 : json := JNull.
Definition sh00 := mkShow false false.
Definition sh10 := mkShow true false.
Definition sh01 := mkShow false true.
Definition sh11 := mkShow true true.

(* a request of the history, the class of the response, and GET key/<id>?show=all on the head
   for every key the request addressed, read right after it *)
Record obsop := mkObs { ob_op : op; ob_cls : oclass; ob_back : list (N * option obj) }.

(* a POST query sent after P3 to the child (head: memory path) or to the committed parent (store
   path): the answer, and whether everything the instance's store holds (every key and value, by
   digest) and the instance's own metadata were the same before and after the request *)
Record roprobe := mkRO { ro_head : bool; ro_body : qbody; ro_onlyid : bool; ro_fm : list bytes; ro_sh : shows;
                         ro_ans : rres; ro_same : bool }.
(* one update (user, conditionals, replace, the stored annotation, the posted body) repeated on the
   real code — whose map iteration order differs from run to run — with the time stamp and the
   annotation read back (show=all) of every run *)
Record ordobs := mkOO { oo_user : bytes; oo_conds : list bytes; oo_replace : bool; oo_orig : option obj;
                        oo_body : list (bytes * json); oo_runs : list (bytes * obj) }.

Record c16case := mkCase {
  c_hist : list obsop;
  c_rx : list (bytes * option (list (bytes * bool)));   (* regexp oracle: pattern -> compiled? -> string -> match *)
  c_reads : list (rreq * list rres);                     (* results at P1..P6 *)
  c_tail : list obsop;    (* requests sent to the child after P5; P6 = the parent read once more *)
  (* then phases: requests (configuration changes, restarts, branch requests) followed by reads of
     named versions; every phase lists the same reads, and no phase but the first writes *)
  c_phases : list (list obsop * list ((vref * rreq) * rres));
  (* scheduled section (only in the case named "scheduled"): after pairs of overlapping requests
     on one body id (one held at a yield point of storeAndUpdate while the other runs), the answers
     of the head (memory path) and of its committed copy (store path); not compared with the
     sequential model *)
  c_conc : list (rreq * list rres);
  c_ro : list roprobe;      (* POST query probes (Props/C16_readonly.v) *)
  c_ord : list ordobs;      (* only in the case named "ordering" (Proofs/NJOrd.v) *)
}.

Definition rx_of (tbl : list (bytes * option (list (bytes * bool)))) (pat : bytes) : option (bytes -> bool) :=
  match @aget bytes _ bytes_eqb pat tbl with
  | Some (Some l) => Some (fun s => match @aget bytes bool bytes_eqb s l with Some b => b | None => false end)
  | _ => None
  end.

(* ---- comparisons: Go maps and result lists are unordered ---- *)
Definition obj_eqb (a b : obj) : bool :=
  Nat.eqb (length a) (length b) &&
  forallb (fun p => match oget (fst p) b with Some v => json_eqb (snd p) v | None => false end) a.

Fixpoint remove_first {A} (eqb : A -> A -> bool) (x : A) (l : list A) : option (list A) :=
  match l with
  | [] => None
  | y :: r => if eqb x y then Some r
              else match remove_first eqb x r with Some r' => Some (y :: r') | None => None end
  end.
Fixpoint mset_eqb {A} (eqb : A -> A -> bool) (a b : list A) : bool :=
  match a with
  | [] => match b with [] => true | _ => false end
  | x :: a' => match remove_first eqb x b with Some b' => mset_eqb eqb a' b' | None => false end
  end.
Definition opt_eqb {A} (eqb : A -> A -> bool) (a b : option A) : bool :=
  match a, b with Some x, Some y => eqb x y | None, None => true | _, _ => false end.

Definition rres_eqb (a b : rres) : bool :=
  match a, b with
  | XObj x, XObj y => opt_eqb obj_eqb x y
  | XIds x, XIds y => mset_eqb N.eqb x y
  | XObjs x, XObjs y => mset_eqb obj_eqb x y
  | XNames x, XNames y => mset_eqb bytes_eqb x y
  | XCounts x, XCounts y => mset_eqb (fun p q => bytes_eqb (fst p) (fst q) && Z.eqb (snd p) (snd q)) x y
  | XKVs x, XKVs y => mset_eqb (fun p q => N.eqb (fst p) (fst q) && obj_eqb (snd p) (snd q)) x y
  | XBytes x, XBytes y => opt_eqb bytes_eqb x y
  | XTimes x, XTimes y => mset_eqb (fun p q => bytes_eqb (fst p) (fst q) && bytes_eqb (snd p) (snd q)) x y
  | XKVOs x, XKVOs y => mset_eqb (fun p q => N.eqb (fst p) (fst q) && opt_eqb obj_eqb (snd p) (snd q)) x y
  | XBool x, XBool y => Bool.eqb x y
  | XErr, XErr => true
  | XPanic, XPanic => true
  | _, _ => false
  end.

Definition is_xpanic (r : rres) : bool := match r with XPanic => true | _ => false end.

(* ---- the model on a case ---- *)
Definition cls_of (r : res unit) : oclass := class_of r.

(* replays the history; returns the final state and whether every response class and read-back agreed *)
Fixpoint replay (V : variant) (s : state) (h : list obsop) : option state * bool :=
  match h with
  | [] => (Some s, true)
  | ob :: r =>
      let '(s', c) := step V s (ob_op ob) in
      let okc := oclass_eqb (cls_of c) (ob_cls ob) in
      match c with
      | Panic => (None, okc)
      | _ =>
          let src := match ob_op ob, st_branch s' with
                     | OpOnBranch _, Some b => s_data (b_head b)
                     | _, _ => s_data (st_head s')
                     end in
          let okb := forallb (fun p => opt_eqb obj_eqb (snd p)
                                 (option_map (fun o => selectFields o [] sh11) (nget (fst p) src)))
                             (ob_back ob) in
          let '(fin, ok) := replay V s' r in (fin, okc && okb && ok)
      end
  end.

Definition final_ops (s : state) : list op :=
  if st_locked s then [OpNewVersion] else [OpCommit; OpNewVersion].

(* the states at P1, P3 (= P2), P5 (= P4) and P6 *)
(* the phases: each continues from the state the previous one left *)
Fixpoint phases_ok (V : variant) (rx : bytes -> option (bytes -> bool)) (s : state)
         (ps : list (list obsop * list ((vref * rreq) * rres))) : bool :=
  match ps with
  | [] => true
  | (ops, reads) :: r =>
      match replay V s ops with
      | (Some s', ok) =>
          ok && forallb (fun q => match read_ref rx V s' (fst (fst q)) (snd (fst q)) with
                                  | Some x => rres_eqb x (snd q)
                                  | None => false end) reads
          && phases_ok V rx s' r
      | (None, _) => false
      end
  end.

Definition point_states (V : variant) (s : state) (tail : list obsop) : option (state * state * state * state * bool) :=
  match run V s (final_ops s) with
  | Ok s2 =>
      let s3 := reload V s2 in
      match replay V s3 tail with
      | (Some s4, ok) => Some (s, s2, s3, s4, ok)
      | (None, _) => None
      end
  | _ => None
  end.
Definition points (V : variant) (rx : bytes -> option (bytes -> bool)) (ps : state * state * state * state * bool)
           (r : rreq) : list (option rres) :=
  let '(s, s2, s3, s4, _) := ps in
  [read_version rx V s 0 r; read_version rx V s2 1 r; read_version rx V s2 0 r;
   read_version rx V s3 0 r; read_version rx V s3 1 r; read_version rx V s4 1 r].

Fixpoint points_eqb (m : list (option rres)) (o : list rres) : bool :=
  match m, o with
  | [], [] => true
  | Some x :: m', y :: o' => rres_eqb x y && points_eqb m' o'
  | _, _ => false
  end.

(* POST query probes at the state after commit + newversion: the model's request gives the answer *)
Definition ro_model_ok (V : variant) (rx : bytes -> option (bytes -> bool)) (s2 : state) (p : roprobe) : bool :=
  let n := length (st_parents s2) in
  let ref := VM (if ro_head p then n else Nat.pred n) in
  match snd (post_query rx V s2 (mkQ ref (ro_body p) (ro_onlyid p) (ro_fm p) (ro_sh p))) with
  | Some x => rres_eqb x (ro_ans p)
  | None => false
  end.
(* the order-quantified updateJSON under four fair orders (list order = Model.NJ.updateJSON,
   reversed, rotated, revisiting) gives the annotation every run of the implementation stored *)
Definition ord_orders : list orders := [ord_id; ord_rev; ord_rot; ord_revisit].
Definition ord_model_ok (o : ordobs) : bool :=
  forallb (fun run =>
    forallb (fun sg =>
      obj_eqb (selectFields (snd (updateJSON_ord (oo_user o) (oo_conds o) (oo_replace o) (fst run) sg
                                     (oo_orig o) (obj_of_list (oo_body o)))) [] sh11)
              (snd run)) ord_orders) (oo_runs o).

Definition model_ok_gen (V : variant) (c : c16case) : bool :=
  match replay V init_state (c_hist c) with
  | (Some s, ok) =>
      match point_states V s (c_tail c) with
      | Some ps =>
          ok && (let '(_, _, _, _, okt) := ps in okt)
          && forallb (fun rr => points_eqb (points V (rx_of (c_rx c)) ps (fst rr)) (snd rr)) (c_reads c)
          && (let '(_, _, _, s4, _) := ps in phases_ok V (rx_of (c_rx c)) s4 (c_phases c))
          && (let '(_, s2, _, _, _) := ps in forallb (ro_model_ok V (rx_of (c_rx c)) s2) (c_ro c))
          && forallb ord_model_ok (c_ord c)
      | None => false
      end
  | (None, ok) => ok
  end.

(* ---- the property itself, evaluated on what the implementation returned ----
   0 holds; 1 keys/keyrange differ between read paths; 2 field lists or counters differ;
   3 values differ (key, all, keyvalues, keyrangevalues); 4 query results differ;
   5 schema metadata differ; 6 a field merge rule is violated; 7 a request panicked;
   8 fieldtimes differ; 9 the JSON schema in force differs.  8 and 9 are reported only when
   nothing else fails (they are the two defects repaired by C16-7/8-fix.diff); 10 a version read in
   two phases answers differently in a history with a configuration hazard (repair C16-9); 11 the
   read paths differ in a history where a restart loses the head of master (datastore defect);
   12 after two overlapping requests on one body id the head's memory and its store differ *)
Definition req_class (r : rreq) : nat :=
  match r with
  | RKeys | RKeyRange _ _ | RHeadKey _ => 1
  | RFields | RFieldCounts => 2
  | RKey _ _ _ | RAll _ _ | RKeyValues _ _ _ _ | RKeyRangeValues _ _ _ _ _ => 3
  | RQuery _ _ _ _ => 4
  | RMeta _ | RHeadMeta _ => 5
  | RFieldTimes => 8
  | RSchemaInForce => 9
  end%nat.

Definition all_same (l : list rres) : bool :=
  match l with [] => true | x :: r => forallb (rres_eqb x) r end.
(* fieldtimes has no store path before repair 7 (HTTP 400 on committed versions, as documented):
   only the answers that exist are compared *)
Definition is_xerr (r : rres) : bool := match r with XErr => true | _ => false end.
Definition same_answers (rr : rreq * list rres) : bool :=
  match fst rr with
  | RFieldTimes => all_same (filter (fun x => negb (is_xerr x)) (snd rr))
  | _ => all_same (snd rr)
  end.

Definition mentions (body : obj) (f : bytes) : bool := omem f body.
(* f is the _user/_time companion of a field the request mentions *)
Definition stamp_of_mentioned (body : obj) (f : bytes) : bool :=
  existsb (fun p => bytes_eqb f (fuser (fst p)) || bytes_eqb f (ftime (fst p))) body.

Definition merge_rules_ok (before : option obj) (after : obj) (body0 : list (bytes * json))
           (user : bytes) (conds : list bytes) (replace : bool) (timeStr : bytes) : bool :=
  let body := obj_of_list body0 in
  (* a null removes an ordinary field *)
  forallb (fun p => if is_null (snd p) && negb (is_meta (fst p)) then negb (omem (fst p) after) else true) body
  &&
  (* a partial update keeps what it does not mention *)
  match before with
  | Some b =>
      (if replace then true
       else forallb (fun p => if mentions body (fst p) || stamp_of_mentioned body (fst p) then true
                              else opt_eqb json_eqb (oget (fst p) after) (Some (snd p))) b)
      &&
      (* a conditional field that is already set keeps its value, and its stamps unless the request sets them *)
      forallb (fun p =>
        let f := fst p in
        if negb replace && smem f conds && negb (is_null (snd p)) && negb (is_meta f) then
          match oget f b with
          | Some ov =>
              opt_eqb json_eqb (oget f after) (Some ov)
              && (mentions body (fuser f) || opt_eqb json_eqb (oget (fuser f) after) (oget (fuser f) b))
              && (mentions body (ftime f) || opt_eqb json_eqb (oget (ftime f) after) (oget (ftime f) b))
          | None => true
          end
        else true) body
      &&
      (* stamps move exactly when the value does *)
      forallb (fun p =>
        let f := fst p in
        if is_null (snd p) || is_meta f || bytes_eqb f s_bodyid || bytes_eqb f s_userf
           || mentions body (fuser f) || mentions body (ftime f) || smem f conds then true
        else
          match oget f b with
          | Some ov =>
              if json_eqb (snd p) ov then
                (match oget (fuser f) b with Some u => opt_eqb json_eqb (oget (fuser f) after) (Some u) | None => replace || negb (omem (fuser f) after) end)
                && (match oget (ftime f) b with Some u => opt_eqb json_eqb (oget (ftime f) after) (Some u) | None => replace || negb (omem (ftime f) after) end)
              else opt_eqb json_eqb (oget (fuser f) after) (Some (JStr user))
                   && opt_eqb json_eqb (oget (ftime f) after) (Some (JStr timeStr))
          | None => opt_eqb json_eqb (oget (fuser f) after) (Some (JStr user))
                    && opt_eqb json_eqb (oget (ftime f) after) (Some (JStr timeStr))
          end) body
  | None => true
  end.

(* walks the history keeping the last read-back of every key *)
Fixpoint rules_walk (known : list (N * option obj)) (h : list obsop) : bool :=
  match h with
  | [] => true
  | ob :: r =>
      let known' := match ob_op ob with
                    | OpOnBranch _ => known
                    | _ => fold_left (fun acc p => @aset N _ N.eqb (fst p) (snd p) acc) (ob_back ob) known
                    end in
      let here :=
        match ob_op ob, ob_cls ob with
        | OpPost key body _ user conds replace t, OOk =>
            match @aget N _ N.eqb key (ob_back ob), @aget N _ N.eqb key known with
            | Some (Some after), Some before => merge_rules_ok before after body user conds replace t
            | Some (Some after), None => merge_rules_ok None after body user conds replace t
            | _, _ => false       (* an accepted POST must be readable *)
            end
        | OpDelete key, OOk =>
            match @aget N _ N.eqb key (ob_back ob) with Some None => true | _ => false end
        | _, _ => true
        end in
      here && rules_walk known' r
  end.

(* the same read in two phases must give the same answer (nothing is written in between) *)
Fixpoint zip_same (a b : list ((vref * rreq) * rres)) : option rreq :=
  match a, b with
  | x :: a', y :: b' => if rres_eqb (snd x) (snd y) then zip_same a' b' else Some (snd (fst x))
  | _, _ => None
  end.
Definition phases_differ (c : c16case) : option rreq :=
  match c_phases c with
  | [] => None
  | p0 :: r => fold_left (fun acc p => match acc with Some _ => acc | None => zip_same (snd p0) (snd p) end) r None
  end.

(* the configuration hazards repaired by C16-9: at a restart the "inmemory" setting names the
   second branch before it exists, or a version that is still open *)
Definition all_ops (c : c16case) : list op :=
  map ob_op (c_hist c) ++ [OpCommit; OpNewVersion] ++ map ob_op (c_tail c) ++ flat_map (fun p => map ob_op (fst p)) (c_phases c).
(* [br]: length of the branch chain, whether its head is committed, the master version it left *)
Fixpoint hazard_walk (ops : list op) (cfg : config) (mlen : nat) (mlocked : bool)
         (br : option (nat * bool * nat)) (lost : bool) : bool :=
  match ops with
  | [] => false
  | o :: r =>
      match o with
      | OpSetConfig c => hazard_walk r c mlen mlocked br lost
      | OpReload =>
          (if lost
           then
             (* the committed leaf of master has a child on the branch only: after the restart the
                repo manager no longer finds the head of master (datastore defect, C03/C07);
                neuronjson's Initialize then loads neither the metadata nor the HEAD db of master *)
             match br with Some (_, _, from) => Nat.eqb from mlen | None => false end
           else
             (cfg_branch cfg && match br with None => true | Some _ => false end)
             || existsb (fun ref => match ref with
                                    | VM a => negb (Nat.ltb a mlen || (Nat.eqb a mlen && mlocked))
                                    | VB i => match br with
                                              | Some (bl, bk, _) => negb (Nat.ltb i bl || (Nat.eqb i bl && bk))
                                              | None => false end
                                    end) (cfg_static cfg))
          || hazard_walk r cfg mlen mlocked br lost
      | OpCommit => hazard_walk r cfg mlen true br lost
      | OpNewVersion => if mlocked then hazard_walk r cfg (S mlen) false br lost else hazard_walk r cfg mlen mlocked br lost
      | OpBranch from => hazard_walk r cfg mlen mlocked (match br with None => Some (O, false, from) | b => b end) lost
      | OpOnBranch OpCommit => hazard_walk r cfg mlen mlocked (option_map (fun p : nat * bool * nat => (fst (fst p), true, snd p)) br) lost
      | OpOnBranch OpNewVersion =>
          hazard_walk r cfg mlen mlocked
            (option_map (fun p : nat * bool * nat => if snd (fst p) then (S (fst (fst p)), false, snd p) else p) br) lost
      | _ => hazard_walk r cfg mlen mlocked br lost
      end
  end.
(* (an approximation of the history that is exact for accepted requests; the driver's hazard
   cases contain no rejected commit / newversion / branch) *)
Definition lost_head_hazard (c : c16case) : bool := hazard_walk (all_ops c) no_cfg O false None true.
Definition config_hazard (c : c16case) : bool := hazard_walk (all_ops c) no_cfg O false None false.
Definition init_hazard (c : c16case) : bool := lost_head_hazard c || config_hazard c.
Definition hazard_class (c : c16case) : nat := if lost_head_hazard c then 11%nat else 10%nat.

(* 13: a POST query changed what the store holds.  14: runs of one update differ (time stamps of
   the run itself apart): the map iteration order shows in the stored annotation *)
Definition norm_time (t : bytes) (o : obj) : obj :=
  map (fun p => (fst p, if json_eqb (snd p) (JStr t) then JStr [] else snd p)) o.
Definition ord_spec_ok (o : ordobs) : bool :=
  match oo_runs o with
  | [] => true
  | r0 :: rest => forallb (fun r => obj_eqb (norm_time (fst r0) (snd r0)) (norm_time (fst r) (snd r))) rest
  end.

Definition spec_class (c : c16case) : nat :=
  if existsb (fun ob => match ob_cls ob with OPanic => true | _ => false end)
            (c_hist c ++ c_tail c ++ flat_map fst (c_phases c))
     || existsb (fun p => existsb (fun q => is_xpanic (snd q)) (snd p)) (c_phases c)
     || existsb (fun rr => existsb is_xpanic (snd rr)) (c_reads c)
     || existsb (fun p => is_xpanic (ro_ans p)) (c_ro c) then 7%nat
  else if negb (rules_walk [] (c_hist c)) then 6%nat
  else if negb (forallb ro_same (c_ro c)) then 13%nat
  else if negb (forallb ord_spec_ok (c_ord c)) then 14%nat
  else
    match find (fun rr => negb (same_answers rr) && Nat.ltb (req_class (fst rr)) 8) (c_reads c) with
    | Some rr => if init_hazard c then hazard_class c else req_class (fst rr)
    | None =>
      match phases_differ c with
      | Some r => if init_hazard c then hazard_class c else req_class r
      | None =>
        match find (fun rr => negb (same_answers rr)) (c_reads c) with
        | Some rr => req_class (fst rr)
        | None => if forallb (fun rr => all_same (snd rr)) (c_conc c) then 0%nat else 12%nat
        end
      end
    end.

Fixpoint classify_from (i : nat) (l : list c16case) : list (nat * nat) :=
  match l with
  | [] => []
  | c :: r => let k := spec_class c in
              if Nat.eqb k 0 then classify_from (S i) r else (i, k) :: classify_from (S i) r
  end.
Definition c16_spec_fail (l : list c16case) : list (nat * nat) := classify_from 0 l.
(* the implementation must agree with one of the accepted models (the repaired code, or the code
   with only the first six repairs while C16-7/8 are pending) *)
Definition c16_model_mismatch (Vs : list variant) (l : list c16case) : list nat :=
  find_idx (fun c => negb (existsb (fun V => model_ok_gen V c) Vs)) l.
