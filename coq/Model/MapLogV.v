(* Model.MapLogV: the label mapping over a DAG of versions (definitions only).

   datatype/labelmap/vcache.go: per supervoxel a vmap = list of (version, label) entries;
   setMapping(v, from, to) :101 = vmap.modify(v, to, replace) :493 touches the entry OF VERSION v only;
   mapLabel :78 = vmap.value(distFromRoot) :445 answers the entry of the NEAREST ANCESTOR that has one
   (Proofs.LabelMapVersions: value = nearest ancestor that wrote), else the supervoxel itself;
   splits are kept per version (vc.splits[v]) and GET supervoxel-splits :317 concatenates them along
   the ancestry, the version itself first.  A new version has no entry of its own: it sees its
   ancestors' through the ancestry.
   Log: one mutation log per version (labels.LogMapping / LogSupervoxelSplit ... (d, v, op));
   start-up: initToVersion :283 walks the ancestry of the version first accessed and replays EACH
   ancestor's log into that ancestor's entries (loadVersionMapping :184: setMapping(ancestors[0], ...)).

   So the state is a family, version -> what was written AT that version (Model.MapLog.mapst), and
   only the label lookup of a supervoxel split goes through the ancestry. *)
From DV Require Import Base.Prelude Model.Persist Model.MapLog.
Local Open Scope N_scope.

Definition vst := list (N * mapst).
Definition vlog := list (N * list logrec).

Definition vget (st : vst) (v : N) : mapst := match aget v st with Some s => s | None => mp_empty end.
Definition lget (lg : vlog) (v : N) : list logrec := match aget v lg with Some l => l | None => [] end.

(* mapLabel at a version whose ancestry (itself first, root last) is [anc] *)
Fixpoint vmapped (st : vst) (anc : list N) (sv : N) : N :=
  match anc with
  | [] => sv
  | a :: r => match aget sv (mp_map (vget st a)) with Some l => l | None => vmapped st r sv end
  end.

(* GET supervoxel-splits at that version *)
Definition vsplits (st : vst) (anc : list N) : list (N * N * N * N) :=
  flat_map (fun a => mp_splits (vget st a)) anc.

(* Model.MapLog.live / records with the label of the split supervoxel given (it is looked up
   through the ancestry); every other operation is as in one version *)
Definition live_l (lab : N) (s : mapst) (o : mapop) : mapst :=
  match o with
  | OSvSplit mutid sv remain split =>
    add_split (set_map (set_map (set_map s split lab) remain lab) sv 0) (mutid, sv, remain, split)
  | _ => live s o
  end.
Definition records_l (twice : bool) (lab : N) (s : mapst) (o : mapop) : list logrec :=
  match o with
  | OSvSplit mutid sv remain split =>
    [RSvSplit mutid sv remain split; RMapping 0 [sv]; RMapping lab [split; remain]]
    ++ (if twice then [RSvSplit mutid sv remain split] else [])
  | _ => records twice s o
  end.

Definition sv_of (o : mapop) : N := match o with OSvSplit _ sv _ _ => sv | _ => 0 end.

(* ancestry table: version -> itself :: parent :: ... :: root (parents[0] chain, GetAncestry) *)
Definition anc_of (ancs : list (N * list N)) (v : N) : list N :=
  match aget v ancs with Some a => a | None => [v] end.

(* one mutation at version v: live state and the version's log *)
Definition vstep (twice : bool) (ancs : list (N * list N)) (sl : vst * vlog) (vo : N * mapop) : vst * vlog :=
  let '(st, lg) := sl in
  let '(v, o) := vo in
  let lab := vmapped st (anc_of ancs v) (sv_of o) in
  (aset v (live_l lab (vget st v) o) st,
   aset v (lget lg v ++ records_l twice lab (vget st v) o) lg).

Definition vrun (twice : bool) (ancs : list (N * list N)) (sl : vst * vlog) (ops : list (N * mapop)) : vst * vlog :=
  fold_left (vstep twice ancs) ops sl.

(* start-up: every version's log into that version's entries *)
Definition vreplay (lg : vlog) : vst := map (fun vl => (fst vl, replay mp_empty (snd vl))) lg.

(* segments separated by restarts: each restart replaces the live family by the replayed logs *)
Fixpoint vseg_go (twice : bool) (ancs : list (N * list N)) (sl : vst * vlog) (segs : list (list (N * mapop))) : vst * vlog :=
  match segs with
  | [] => sl
  | [ops] => vrun twice ancs sl ops
  | ops :: rest => let '(st, lg) := vrun twice ancs sl ops in vseg_go twice ancs (vreplay lg, lg) rest
  end.

(* two (family, logs) pairs a client cannot tell apart: the same logs, and version by version the
   same label for every supervoxel and the same split records *)
Definition vsame (a b : vst * vlog) : Prop :=
  snd a = snd b /\
  forall v, (forall k, aget k (mp_map (vget (fst a) v)) = aget k (mp_map (vget (fst b) v))) /\
            mp_splits (vget (fst a) v) = mp_splits (vget (fst b) v).
