(* Model.LabelMap: the proofreading machine of datatype/labelmap (mutate.go, labelidx.go, equiv.go,
   vcache.go, write.go).  Definitions only.

   Two levels:
   * the FLAT machine: what one version looks like once versioned storage has been resolved —
     stored supervoxel blocks, the supervoxel -> body mapping, the label indices — and one
     function per mutation endpoint, transcribed from the Go code;
   * the VERSIONED machine: blocks and indices in a versioned key-value store (nearest
     first-parent ancestor that wrote the key), the mapping as vmap entries resolved by
     vmap.value over getDistFromRoot(GetAncestry(v)) (vcache.go:388-456), operations applied at
     one version.
   Flags in [fixes] select the code as it stood (false) or with repo_patches/C08-{1,2,3,5,6,7}-fix (true). *)
From DV Require Import Base.Prelude Model.Index.
Local Open Scope N_scope.

Record fixes := {
  fx_maplabel : bool;   (* C08-1: mapLabel returns the label itself when only foreign versions mapped it *)
  fx_renumber : bool;   (* C08-2: renumber refuses a new label that is a mapped supervoxel id *)
  fx_members : bool;    (* C08-3: ModifyBlocks accepts supervoxels the mapping assigns to the label *)
  fx_reject : bool;     (* C08-5/6/7: merge with the target among the merged, cleave of [], renumber to 0 are refused *)
}.
Definition all_fixed : fixes := {| fx_maplabel := true; fx_renumber := true; fx_members := true; fx_reject := true |}.
Definition unfixed : fixes := {| fx_maplabel := false; fx_renumber := false; fx_members := false; fx_reject := false |}.

(* ================= flat machine ================= *)
Record fstate := {
  f_vox : list (N * list N);     (* written blocks: block id -> label array, x fastest *)
  f_map : list (N * N);          (* supervoxel -> body (0: the id no longer exists) *)
  f_idx : list (N * index);      (* body -> label index *)
}.
Definition f_empty : fstate := {| f_vox := []; f_map := []; f_idx := [] |}.

(* modifyBlockMapping / MappedLabels: a supervoxel without entry is its own body *)
Definition mapped (m : list (N * N)) (s : N) : N :=
  match aget N.eqb s m with Some l => l | None => s end.
Definition get_idx (st : fstate) (l : N) : option index := aget N.eqb l (f_idx st).
Definition put_idx (ix : list (N * index)) (l : N) (oi : option index) : list (N * index) :=
  match oi with Some i => aset N.eqb l i ix | None => adel N.eqb l ix end.

Inductive op :=
| OIngest (blocks : list (N * list N))            (* POST blocks, POST raw: indexed with CalcNumLabels(nil) *)
| OWrite (blocks : list (N * list N))             (* POST raw?mutate=true: diff against the stored block *)
| OStore (blocks : list (N * list N))             (* POST ingest-supervoxels: no indexing *)
| OPutIndex (l : N) (oi : option index)           (* POST index / indices (empty = delete) *)
| OPutMappings (l : list (N * N))                 (* POST mappings: (supervoxel, body) *)
| OMerge (target : N) (merged : list N)
| OCleave (body : N) (svs : list N) (newl : N)    (* newl: the label newLabel() handed out *)
| OSplitSV (sv split remain : N) (masks : list (N * list bool)) (rl : list (N * N))
      (* masks: per block, which voxels the split RLEs cover; rl: per block, rles.Stats() *)
| ORenumber (old new : N)
| OSplit (body newl : N) (masks : list (N * list bool)) (sm : list (N * (N * N))).
      (* sm: supervoxel -> (split label, remain label) handed out by SplitStats *)

(* ---- voxel writes ---- *)
Definition block_changes (st : fstate) (mutate : bool) (blocks : list (N * list N))
  : list (N * list (N * Z)) :=
  map (fun ba => (fst ba, calc_num_labels (snd ba)
                                          (if mutate then aget N.eqb (fst ba) (f_vox st) else None))) blocks.

(* aggregateBlockChanges, second half: ChangeLabelIndex per touched label; an error is logged and
   that label's index stays as it was (labelidx.go:957-962) *)
Definition apply_label_changes (aggl : N -> N) (members_on : bool) (ix : list (N * index)) (svc : changes)
  : list (N * index) :=
  fold_left (fun ix lm =>
               match change_label_index (fst lm) (aget N.eqb (fst lm) ix) svc
                                        (if members_on && negb (fst lm =? 0) then Some (snd lm) else None) with
               | Ok oi => put_idx ix (fst lm) oi
               | _ => ix
               end) (agg_labels aggl svc) ix.

Definition put_blocks (vx : list (N * list N)) (blocks : list (N * list N)) : list (N * list N) :=
  fold_left (fun vx ba => aset N.eqb (fst ba) (snd ba) vx) blocks vx.

(* [aggl]: the label aggregateBlockChanges resolves a supervoxel to (svmap.mapLabel) *)
Definition f_write (fx : fixes) (aggl : N -> N) (st : fstate) (mutate : bool) (blocks : list (N * list N))
  : fstate :=
  {| f_vox := put_blocks (f_vox st) blocks;
     f_map := f_map st;
     f_idx := apply_label_changes aggl (fx_members fx) (f_idx st)
                                  (agg_changes (block_changes st mutate blocks)) |}.

(* ---- merge (mutate.go:47 MergeLabels) ---- *)
Fixpoint all_idx (st : fstate) (ls : list N) : option (list index) :=
  match ls with
  | [] => Some []
  | l :: r => match get_idx st l with
              | Some i => if num_voxels i =? 0 then None
                          else match all_idx st r with Some is => Some (i :: is) | None => None end
              | None => None
              end
  end.

Definition set_all (m : list (N * N)) (svs : list N) (l : N) : list (N * N) :=
  fold_left (fun m s => aset N.eqb s l m) svs m.

(* Without C08-5 a request with the target among the merged labels is answered with an error
   only after the mapping of the other merged bodies has been rewritten; the model returns Err
   for it in both cases and does not reproduce that partial write. *)
Definition f_merge (fx : fixes) (st : fstate) (target : N) (merged : list N) : res fstate :=
  let ms := nodupN merged in       (* op.Merged is a set *)
  match ms with
  | [] => Err
  | _ =>
    if fx_reject fx && memN target ms then Err else
    match all_idx st ms, get_idx st target with
    | Some midxs, Some tidx =>
      match idx_add_all [] midxs with
      | Ok mergeIdx =>
        if num_voxels mergeIdx =? 0 then Err
        else match idx_add tidx mergeIdx with
             | Ok t' =>
               Ok {| f_vox := f_vox st;
                     f_map := set_all (f_map st) (supervoxels mergeIdx) target;
                     f_idx := fold_left (fun ix l => adel N.eqb l ix) ms (aset N.eqb target t' (f_idx st)) |}
             | _ => Err
             end
      | _ => Err
      end
    | _, _ => Err
    end
  end.

(* ---- cleave (mutate.go:344 CleaveLabel, labelidx.go:646 cleaveIndex) ---- *)
Fixpoint nodupb (l : list N) : bool :=
  match l with [] => true | x :: r => negb (memN x r) && nodupb r end.

Definition f_cleave (fx : fixes) (st : fstate) (body : N) (svs : list N) (newl : N) : res fstate :=
  match get_idx st body with
  | None => Err
  | Some idx =>
    if negb (nodupb svs) || negb (forallb (sv_in idx) svs) then Err
    else if forallb (fun s => memN s svs) (supervoxels idx) then Err       (* nothing would remain *)
    else match svs with
         | [] =>
           (* the code as it stood stores an empty index under the new label and returns 200 *)
           if fx_reject fx then Err
           else Ok {| f_vox := f_vox st; f_map := f_map st; f_idx := aset N.eqb newl [] (f_idx st) |}
         | _ =>
           let '(_, _, c, r) := idx_cleave idx svs in
           Ok {| f_vox := f_vox st;
                 f_map := aset N.eqb newl 0 (set_all (f_map st) svs newl);
                 f_idx := aset N.eqb body r (aset N.eqb newl c (f_idx st)) |}
         end
  end.

(* ---- split-supervoxel (mutate.go:886 SplitSupervoxel, compressed.go:399) ---- *)
Fixpoint relabel_sv (arr : list N) (mask : list bool) (sv split remain : N) : list N :=
  match arr with
  | [] => []
  | l :: r =>
    let m := match mask with b :: _ => b | [] => false end in
    (if l =? sv then (if m then split else remain) else l)
      :: relabel_sv r (match mask with _ :: t => t | [] => [] end) sv split remain
  end.
Definition countN (arr : list N) (s : N) : N :=
  fold_right (fun l acc => if l =? s then 1 + acc else acc) 0 arr.
(* voxels of [sv] that lie under the mask: the splitSize PositionedBlock.SplitSupervoxel returns *)
Fixpoint count_masked (arr : list N) (mask : list bool) (sv : N) : N :=
  match arr with
  | [] => 0
  | l :: r =>
    let m := match mask with b :: _ => b | [] => false end in
    (if (l =? sv) && m then 1 else 0) + count_masked r (match mask with _ :: t => t | [] => [] end) sv
  end.

(* splitSupervoxelThread per block: relabel and compare with the counts the index now holds *)
Fixpoint split_sv_blocks (vx : list (N * list N)) (blks : list N) (sv split remain : N)
         (masks : list (N * list bool)) (idx' : index) : option (list (N * list N)) :=
  match blks with
  | [] => Some vx
  | b :: r =>
    match aget N.eqb b vx with
    | None => split_sv_blocks vx r sv split remain masks idx'     (* "should have been split but was nil": skipped *)
    | Some arr =>
      let arr' := relabel_sv arr (match aget N.eqb b masks with Some m => m | None => [] end) sv split remain in
      let splitn := count_masked arr (match aget N.eqb b masks with Some m => m | None => [] end) sv in
      let svn := countN arr sv in
      if (svn - splitn =? cnt idx' b remain) && (splitn =? cnt idx' b split)
      then split_sv_blocks (aset N.eqb b arr' vx) r sv split remain masks idx'
      else None
    end
  end.

Definition sumN (l : list N) : N := fold_right N.add 0 l.

Definition f_splitsv (st : fstate) (sv split remain : N) (masks : list (N * list bool)) (rl : list (N * N))
  : res fstate :=
  let label := mapped (f_map st) sv in
  match get_idx st label with
  | None => Err
  | Some idx =>
    if sv_count idx sv <? sumN (map snd rl) then Err
    else match split_sv_index idx sv split remain rl with
         | Ok idx' =>
           match split_sv_blocks (f_vox st) (sv_blocks idx sv) sv split remain masks idx' with
           | Some vx' =>
             Ok {| f_vox := vx';
                   f_map := aset N.eqb sv 0 (aset N.eqb remain label (aset N.eqb split label (f_map st)));
                   f_idx := aset N.eqb label idx' (f_idx st) |}
           | None => Err
           end
         | _ => Err
         end
  end.

(* ---- renumber (mutate.go:206 RenumberLabels) ---- *)
Definition f_renumber (fx : fixes) (st : fstate) (old new : N) : res fstate :=
  if fx_reject fx && ((new =? 0) || (old =? 0)) then Err
  else if ahas N.eqb new (f_idx st) then Err
  else if fx_renumber fx && match aget N.eqb new (f_map st) with Some l => negb (l =? 0) | None => false end
  then Err
  else match get_idx st old with
       | None => Err
       | Some idx =>
         Ok {| f_vox := f_vox st;
               f_map := aset N.eqb new 0 (set_all (f_map st) (supervoxels idx) new);
               f_idx := adel N.eqb old (aset N.eqb new idx (f_idx st)) |}
       end.

(* ---- split of a body (mutate.go:705 SplitLabels, labelidx.go:822 splitIndex) ---- *)
Fixpoint relabel_split (arr : list N) (mask : list bool) (sm : list (N * (N * N))) : list N :=
  match arr with
  | [] => []
  | l :: r =>
    let m := match mask with b :: _ => b | [] => false end in
    (match aget N.eqb l sm with
     | Some (spl, rem) => if m then spl else rem
     | None => l
     end) :: relabel_split r (match mask with _ :: t => t | [] => [] end) sm
  end.

(* SplitStats: labels under the mask with their voxel counts *)
Fixpoint under_mask (arr : list N) (mask : list bool) (acc : list (N * Z)) : list (N * Z) :=
  match arr, mask with
  | l :: r, m :: t => under_mask r t (if m && negb (l =? 0) then aset N.eqb l (zget l acc + 1)%Z acc else acc)
  | _, _ => acc
  end.

Definition block_splits (vx : list (N * list N)) (masks : list (N * list bool)) (sm : list (N * (N * N)))
  : option (list (key * (N * N))) :=
  fold_left (fun acc bm =>
     match acc, aget N.eqb (fst bm) vx with
     | Some l, Some arr =>
       Some (l ++ map (fun sz => ((fst bm, fst sz),
                                  (match aget N.eqb (fst sz) sm with Some p => fst p | None => 0 end,
                                   Z.to_N (snd sz)))) (under_mask arr (snd bm) []))
     | _, _ => None      (* "split on block attempted but block doesn't exist" *)
     end) masks (Some []).

Definition countB (l : list bool) : N := fold_right (fun (b : bool) (acc : N) => if b then 1 + acc else acc) 0 l.

Definition f_split (st : fstate) (body newl : N) (masks : list (N * list bool)) (sm : list (N * (N * N)))
  : res fstate :=
  match get_idx st body with
  | None => Err
  | Some idx =>
    let splitSize := sumN (map (fun bm => countB (snd bm)) masks) in
    if (splitSize =? 0) || (num_voxels idx <=? splitSize) then Err
    else match block_splits (f_vox st) masks sm with
         | None => Err
         | Some bs =>
           (* every supervoxel under the split volume belongs to the body and has new labels *)
           if negb (forallb (fun e => sv_in idx (snd (fst e)) && ahas N.eqb (snd (fst e)) sm) bs) then Err
           else match split_index idx bs sm with
                | Ok (ridx, sidx) =>
                  let affected := nodupN (map kblock (filter (fun e => ahas N.eqb (ksv e) sm) idx)) in
                  let vx' := fold_left (fun vx b =>
                                match aget N.eqb b vx with
                                | Some arr => aset N.eqb b (relabel_split arr (match aget N.eqb b masks with Some m => m | None => [] end) sm) vx
                                | None => vx
                                end) affected (f_vox st) in
                  let fm := fold_left (fun m e => aset N.eqb (fst e) 0
                                                   (aset N.eqb (snd (snd e)) body
                                                         (aset N.eqb (fst (snd e)) newl m))) sm (f_map st) in
                  Ok {| f_vox := vx'; f_map := fm;
                        f_idx := put_idx (put_idx (f_idx st) body (match ridx with [] => None | _ => Some ridx end))
                                         newl (Some sidx) |}
                | _ => Err
                end
         end
  end.

(* ---- what a client computing indices offline has to post (ingest-supervoxels + POST indices +
   POST mappings): per body, per block, the voxel count of each supervoxel mapped to the body ---- *)
Definition scan_index (vx : list (N * list N)) (fm : list (N * N)) (l : N) : index :=
  flat_map (fun ba => map (fun s => ((fst ba, s), countN (snd ba) s))
                          (filter (fun s => negb (s =? 0) && (mapped fm s =? l)) (nodupN (snd ba)))) vx.
Definition scan_bodies (vx : list (N * list N)) (fm : list (N * N)) : list N :=
  nodupN (flat_map (fun ba => map (mapped fm) (filter (fun s => negb (s =? 0)) (nodupN (snd ba)))) vx).
Definition offline_state (vx : list (N * list N)) (fm : list (N * N)) : fstate :=
  {| f_vox := vx; f_map := fm; f_idx := map (fun l => (l, scan_index vx fm l)) (scan_bodies vx fm) |}.

(* ---- one step of the flat machine ---- *)
Definition fstep (fx : fixes) (aggl : N -> N) (st : fstate) (o : op) : res fstate :=
  match o with
  | OIngest blocks => Ok (f_write fx aggl st false blocks)
  | OWrite blocks => Ok (f_write fx aggl st true blocks)
  | OStore blocks => Ok {| f_vox := put_blocks (f_vox st) blocks; f_map := f_map st; f_idx := f_idx st |}
  | OPutIndex l oi => Ok {| f_vox := f_vox st; f_map := f_map st; f_idx := put_idx (f_idx st) l oi |}
  | OPutMappings l => Ok {| f_vox := f_vox st;
                            f_map := fold_left (fun m p => aset N.eqb (fst p) (snd p) m) l (f_map st);
                            f_idx := f_idx st |}
  | OMerge t ms => f_merge fx st t ms
  | OCleave b svs n => f_cleave fx st b svs n
  | OSplitSV sv sp re masks rl => f_splitsv st sv sp re masks rl
  | ORenumber a b => f_renumber fx st a b
  | OSplit b n masks sm => f_split st b n masks sm
  end.

(* a run of the flat machine *)
Fixpoint fsteps (fx : fixes) (st : fstate) (ops : list op) : res fstate :=
  match ops with
  | [] => Ok st
  | o :: r => res_bind (fstep fx (mapped (f_map st)) st o) (fun st' => fsteps fx st' r)
  end.

(* the bulk load of an instance: blocks without indexing, the agglomeration, then per body the
   scanned index *)
Definition offline_ops (blocks : list (N * list N)) (pairs : list (N * N)) : list op :=
  let vx := put_blocks [] blocks in
  let fm := fold_left (fun m p => aset N.eqb (fst p) (snd p) m) pairs [] in
  OStore blocks :: OPutMappings pairs ::
  map (fun l => OPutIndex l (Some (scan_index vx fm l))) (scan_bodies vx fm).

(* ================= versioned machine ================= *)
(* entries written at versions; at most one per version (vmap.modify replaces, a key-value
   store overwrites) *)
Definition vcell (V : Type) := list (N * V).

(* nearest ancestor-or-self that wrote: versioned key-value read along the first-parent
   ancestry (the branch/newversion DAGs of this property have no merge nodes) *)
Fixpoint resolve {V} (anc : list N) (c : vcell V) : option V :=
  match anc with
  | [] => None
  | v :: r => match aget N.eqb v c with Some x => Some x | None => resolve r c end
  end.

(* getDistFromRoot (vcache.go:388): root = 1, leaf = len(ancestry) *)
Fixpoint dist_from_root (anc : list N) : list (N * N) :=
  match anc with
  | [] => []
  | v :: r => (v, N.of_nat (length anc)) :: dist_from_root r
  end.

(* vmap.value (vcache.go:440): the entry whose version is farthest from the root among those in
   the ancestry; (0, false) if none *)
Definition vmap_value (dist : list (N * N)) (vm : vcell N) : N * bool :=
  let r := fold_left (fun (best : N * (N * bool)) e =>
                        match aget N.eqb (fst e) dist with
                        | Some d => if fst best <? d then (d, (snd e, true)) else best
                        | None => best
                        end) vm (0, (0, false)) in
  snd r.

Record mstate := {
  m_anc : list (N * list N);                     (* version -> GetAncestry: itself, first parent, ... root *)
  m_blocks : list (N * vcell (list N));
  m_map : list (N * vcell N);                    (* supervoxel -> vmap *)
  m_idx : list (N * vcell (option index));       (* None: deleted at that version *)
}.
Definition m_init : mstate := {| m_anc := []; m_blocks := []; m_map := []; m_idx := [] |}.

(* datastore.GetAncestry: v, parent v, ... root.  The walk over first parents is stored when the
   version is created; a version nobody created yet (the root) is its own ancestry. *)
Definition anc (s : mstate) (v : N) : list N :=
  match aget N.eqb v (m_anc s) with Some a => a | None => [v] end.

(* VCache.mapLabel (vcache.go:78), before and after C08-1 *)
Definition map_label (fx : fixes) (s : mstate) (v : N) (sv : N) : N * bool :=
  match aget N.eqb sv (m_map s) with
  | None => (sv, false)
  | Some vm =>
    let r := vmap_value (dist_from_root (anc s v)) vm in
    if snd r then r else if fx_maplabel fx then (sv, false) else (0, false)
  end.

Fixpoint filter_map {A B} (f : A -> option B) (l : list A) : list B :=
  match l with
  | [] => []
  | a :: r => match f a with Some b => b :: filter_map f r | None => filter_map f r end
  end.

(* the flat state a version sees *)
Definition view (s : mstate) (v : N) : fstate :=
  let a := anc s v in
  {| f_vox := filter_map (fun kc => match resolve a (snd kc) with Some x => Some (fst kc, x) | None => None end)
                         (m_blocks s);
     f_map := filter_map (fun kc => let r := vmap_value (dist_from_root a) (snd kc) in
                                    if snd r then Some (fst kc, fst r) else None) (m_map s);
     f_idx := filter_map (fun kc => match resolve a (snd kc) with
                                    | Some (Some x) => Some (fst kc, x)
                                    | _ => None
                                    end) (m_idx s) |}.

(* write [x] for [k] at version [v] *)
Definition vput {V} (v k : N) (x : V) (m : list (N * vcell V)) : list (N * vcell V) :=
  aset N.eqb k (aset N.eqb v x (match aget N.eqb k m with Some c => c | None => [] end)) m.

(* store the result of a flat step at version v: every key of the new flat state is written at v
   (the first entry of a key is the one that counts, so it is written last), index keys that
   disappeared get a tombstone *)
Definition write_back (s : mstate) (v : N) (old new : fstate) : mstate :=
  {| m_anc := m_anc s;
     m_blocks := fold_right (fun kx m => vput v (fst kx) (snd kx) m) (m_blocks s) (f_vox new);
     m_map := fold_right (fun kx m => vput v (fst kx) (snd kx) m) (m_map s) (f_map new);
     m_idx := fold_right (fun kx m => vput v (fst kx) (Some (snd kx)) m)
                (fold_right (fun kx m => if ahas N.eqb (fst kx) (f_idx new) then m else vput v (fst kx) None m)
                            (m_idx s) (f_idx old))
                (f_idx new) |}.

Inductive mop :=
| MData (v : N) (o : op)
| MNewVersion (parent child : N).     (* newversion / branch: a child whose first parent is [parent] *)

Definition mstep (fx : fixes) (s : mstate) (o : mop) : res mstate :=
  match o with
  | MData v o' =>
    let old := view s v in
    match fstep fx (fun sv => fst (map_label fx s v sv)) old o' with
    | Ok new => Ok (write_back s v old new)
    | Err => Err
    | Panic => Panic
    end
  | MNewVersion p c =>
    if ahas N.eqb c (m_anc s) || memN c (anc s p) then Err
    else Ok {| m_anc := aset N.eqb c (c :: anc s p) (m_anc s);
               m_blocks := m_blocks s; m_map := m_map s; m_idx := m_idx s |}
  end.

(* ================= observations: every read endpoint as a function of the flat state ======= *)
Definition o_index (st : fstate) (l : N) : option index := get_idx st l.
Definition o_size (st : fstate) (l : N) : N := match get_idx st l with Some i => num_voxels i | None => 0 end.
Definition o_supervoxels (st : fstate) (l : N) : list N := match get_idx st l with Some i => supervoxels i | None => [] end.
Definition o_sv_size (st : fstate) (sv : N) : N :=
  match get_idx st (mapped (f_map st) sv) with Some i => sv_count i sv | None => 0 end.
Definition o_blocks (st : fstate) (l : N) : list N := match get_idx st l with Some i => live_blocks i | None => [] end.
(* label/<pt>, labels, raw, blocks: the stored supervoxel pushed through the mapping *)
Definition o_voxel (st : fstate) (b : N) (i : nat) (supervoxels : bool) : N :=
  match aget N.eqb b (f_vox st) with
  | Some arr => match nth_error arr i with
                | Some sv => if supervoxels then sv else if sv =? 0 then 0 else mapped (f_map st) sv
                | None => 0
                end
  | None => 0
  end.
(* sparsevol of a body: the voxels of its blocks whose supervoxel is in the index *)
Definition o_sparse (st : fstate) (l : N) (b : N) (i : nat) : bool :=
  match get_idx st l with
  | Some idx => block_in idx b &&
                match aget N.eqb b (f_vox st) with
                | Some arr => match nth_error arr i with
                              | Some sv => negb (sv =? 0) && sv_in idx sv
                              | None => false
                              end
                | None => false
                end
  | None => false
  end.

(* ================= the contract of a body split, as a boolean =======================
   (Proofs.LabelMapSplit.split_guard_b_sound: it implies split_guard, the hypothesis under which the
   split step is proved to keep the state consistent; Model.LabelMapRun evaluates it on every body
   split the server accepted) *)
Definition fresh_b (st : fstate) (x : N) : bool :=
  negb (x =? 0) && forallb (fun ba => countN (snd ba) x =? 0) (f_vox st).
Definition split_guard_b (st : fstate) (body newl : N) (masks : list (N * list bool)) (sm : list (N * (N * N)))
  : bool :=
  negb (newl =? 0) && match get_idx st newl with None => true | Some _ => false end &&
  nodupb (map fst masks) &&
  nodupb (flat_map (fun e => [fst e; fst (snd e); snd (snd e)]) sm) &&
  forallb (fun e => negb (fst e =? 0) && (mapped (f_map st) (fst e) =? body) &&
                    fresh_b st (fst (snd e)) && fresh_b st (snd (snd e))) sm &&
  existsb (fun e => existsb (fun b => 0 <? match aget N.eqb b (f_vox st) with
                                           | Some arr => count_masked arr (match aget N.eqb b masks with Some m => m | None => [] end) (fst e)
                                           | None => 0
                                           end) (map fst (f_vox st))) sm.
