(* Model.FileLog: the append-only log of storage/filelog/filelog.go (definitions only).

   fileLogs.Append / TopicAppend  (filelog.go:392, 420): writeHeader (6 bytes: EntryType uint16 LE,
     uint32(len(Data)) LE; filelog.go:126) then the payload, as two separate file writes.
   fileLogs.ReadAll   (filelog.go:215)  loop at :246-:262, positions are int64
   fileLogs.StreamAll (filelog.go:283)  loop at :316-:331, positions are uint32 (they wrap)

   Both readers slurp the file with ioutil.ReadAll.  The slice they index has a capacity larger than
   its length (io.ReadAll grows by append); Go's data[lo:hi] is legal up to the CAPACITY, so a payload
   that runs past the end of a torn file is either a panic (hi > cap) or a record padded with the
   bytes lying between len and cap.  The buffer is therefore modelled as data ++ stale. *)
From DV Require Import Base.Prelude Base.Int.
Local Open Scope N_scope.

Notation logmsg := (N * bytes)%type.   (* EntryType, Data *)

Definition hdr_len : nat := 6.

(* writeHeader: le_enc keeps the low bytes, which is exactly Go's uint16 / uint32(len) conversion *)
Definition encode1 (m : logmsg) : bytes :=
  le_enc 2 (fst m) ++ le_enc 4 (N.of_nat (length (snd m))) ++ snd m.

Fixpoint encode (rs : list logmsg) : bytes :=
  match rs with
  | [] => []
  | r :: rs' => encode1 r ++ encode rs'
  end.

(* the two file writes of one Append, in order *)
Definition append_writes (m : logmsg) : list bytes :=
  [le_enc 2 (fst m) ++ le_enc 4 (N.of_nat (length (snd m))); snd m].

(* what a record must satisfy for its header to describe it (Go: EntryType is a uint16, the size
   field is uint32(len(Data)), i.e. payloads of 4 GiB or more are mis-framed by the WRITER) *)
Definition record_ok (m : logmsg) : Prop :=
  fst m < 2 ^ 16 /\ N.of_nat (length (snd m)) < 2 ^ 32 /\ bytes_ok (snd m).

(* ---- Go slice with spare capacity ---- *)
Record buf := { b_data : bytes; b_stale : bytes }.
Definition blen (b : buf) : N := N.of_nat (length (b_data b)).
Definition bcap (b : buf) : N := N.of_nat (length (b_data b) + length (b_stale b)).

(* data[lo:hi]: panics unless lo <= hi <= cap *)
Definition bslice (b : buf) (lo hi : N) : option bytes :=
  if (hi <? lo) || (bcap b <? hi) then None
  else Some (firstn (N.to_nat (hi - lo)) (skipn (N.to_nat lo) (b_data b ++ b_stale b))).

Inductive lres :=
| LOk (msgs : list logmsg)
| LPanic
| LFuel.

(* ---- ReadAll (int64 positions; [guard] = the repaired reader's bounds check on the payload) ---- *)
Fixpoint read_loop (guard : bool) (fuel : nat) (b : buf) (pos : N) (acc : list logmsg) : lres :=
  match fuel with
  | O => LFuel
  | S fuel' =>
    if blen b <? pos + 6 then LOk (rev acc)                 (* "malformed filelog", break *)
    else
      match bslice b pos (pos + 2), bslice b (pos + 2) (pos + 6) with
      | Some t, Some s =>
        let entry := le_dec t in
        let size := le_dec s in
        let pos := pos + 6 in
        if guard && (blen b <? pos + size) then LOk (rev acc)  (* repaired: torn payload, break *)
        else
          match bslice b pos (pos + size) with
          | None => LPanic                                   (* slice bounds out of range *)
          | Some d =>
            let pos := pos + size in
            let acc := (entry, d) :: acc in
            if blen b =? pos then LOk (rev acc) else read_loop guard fuel' b pos acc
          end
      | _, _ => LPanic
      end
  end.

Definition read_all_g (guard : bool) (b : buf) : lres :=
  if blen b =? 0 then LOk [] else read_loop guard (S (length (b_data b))) b 0 [].

Definition read_all := read_all_g false.        (* the code as it stands *)
Definition read_all_fixed := read_all_g true.   (* with repo_patches/C04-1-fix.diff *)

(* ---- StreamAll as it stands: uint32 positions (pos+6 and pos+size wrap), messages sent on ch ---- *)
Definition w32 (x : N) : N := x mod 2 ^ 32.

Fixpoint stream_loop (fuel : nat) (b : buf) (pos : N) (acc : list logmsg) : lres :=
  match fuel with
  | O => LFuel
  | S fuel' =>
    if blen b <? w32 (pos + 6) then LOk (rev acc)
    else
      match bslice b pos (w32 (pos + 2)), bslice b (w32 (pos + 2)) (w32 (pos + 6)) with
      | Some t, Some s =>
        let entry := le_dec t in
        let size := le_dec s in
        let pos := w32 (pos + 6) in
        match bslice b pos (w32 (pos + size)) with
        | None => LPanic
        | Some d =>
          let pos := w32 (pos + size) in
          let acc := (entry, d) :: acc in
          if blen b =? pos then LOk (rev acc) else stream_loop fuel' b pos acc
        end
      | _, _ => LPanic
      end
  end.

(* a wrapped position can revisit the file for ever (size field 2^32-6): fuel makes that LFuel *)
Definition stream_all (b : buf) : lres :=
  if blen b =? 0 then LOk [] else stream_loop (S (length (b_data b))) b 0 [].

(* the repaired StreamAll uses int64 positions and the same bounds check: the ReadAll loop *)
Definition stream_all_fixed := read_all_g true.

(* ---- specification: the records completely contained in the first n bytes ---- *)
Fixpoint complete_prefix (rs : list logmsg) (n : nat) : list logmsg :=
  match rs with
  | [] => []
  | r :: rs' =>
    let l := length (encode1 r) in
    if Nat.leb l n then r :: complete_prefix rs' (n - l) else []
  end.

(* a cut that falls on a record boundary or inside a header (never inside a payload) *)
Definition header_cut (rs : list logmsg) (n : nat) : bool :=
  Nat.ltb (n - length (encode (complete_prefix rs n))) hdr_len.

(* the file left by a crash after n bytes, held in a buffer whose spare capacity holds [stale] *)
Definition torn (rs : list logmsg) (n : nat) (stale : bytes) : buf :=
  {| b_data := firstn n (encode rs); b_stale := stale |}.

(* the cut falls exactly on a record boundary *)
Definition boundary_cut (rs : list logmsg) (n : nat) : bool :=
  Nat.eqb (n - length (encode (complete_prefix rs n))) 0.

(* a torn file onto which a later process appended further records (nothing trims the torn bytes:
   getWriteLog opens with O_APPEND) *)
Definition torn_then_appended (rs : list logmsg) (n : nat) (after : list logmsg) (stale : bytes) : buf :=
  {| b_data := firstn n (encode rs) ++ encode after; b_stale := stale |}.

(* ---- opening a log for appending (repo_patches/C04-4-fix.diff, trimTornTail): walk the record
   headers and cut the file behind the last completely written record ---- *)
Fixpoint trim_len (fuel : nat) (rest : bytes) : nat :=
  match fuel with
  | O => O
  | S fuel' =>
    if Nat.ltb (length rest) 6 then O
    else
      let size := N.to_nat (le_dec (firstn 4 (skipn 2 rest))) in
      if Nat.ltb (length rest) (6 + size) then O
      else (6 + size + trim_len fuel' (skipn (6 + size) rest))%nat
  end.
Definition trim_tail (data : bytes) : bytes := firstn (trim_len (S (length data)) data) data.

(* a torn file, re-opened for appending by the repaired engine, with further records appended *)
Definition trimmed_then_appended (rs : list logmsg) (n : nat) (after : list logmsg) (stale : bytes) : buf :=
  {| b_data := trim_tail (firstn n (encode rs)) ++ encode after; b_stale := stale |}.
