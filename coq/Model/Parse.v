(* Model.Parse: the payload parsers of the ingestion / mutation endpoints as TOTAL functions
   to  Ok value | Err (client error) | Panic  (Base.Prelude.res), with Go slice semantics
   explicit.  Definitions only; proofs are in Proofs/Parse.v.

   Every parser exists in two versions selected by a flag:
     fx = false : the code as it stands in /repo before the fix: patches of repo_patches/C20-*
     fx = true  : the repaired code (the patches applied).
   `make` with a client-controlled count is resource exhaustion, not a panic; the count that
   reaches `make` is exposed by the *_alloc functions so that its bound can be stated.

   Sources (file:function):
     datatype/common/labels/compressed.go : Block.UnmarshalBinary, setExportedVars, Validate,
        MakeLabelVolume / calcNumLabels (same traversal), GetPointLabels, bitsFor, getPackedValue
     dvid/utils.go : New8ByteAlignBytes, AliasByteToUint16/32/64
     datatype/labelmap/read.go : readStreamedBlock;  write.go : storeBlocks
     dvid/volumes.go : ReadRLEs, RLEs.UnmarshalBinaryReader
     datatype/labelmap/handlers.go : handleIndex, handleMappings; labelidx.go : putProtoLabelIndices
     datatype/annotation/annotation.go : addTagDelta (StoreElements)
     datatype/roi/roi.go : PutSpans;  datatype/neuronjson, keyvalue : post-decode checks *)
From DV Require Import Base.Prelude Base.Int Gen.Consts.
Local Open Scope N_scope.

Definition len {A} (l : list A) : N := N.of_nat (length l).
Definition u32 (x : N) : N := x mod 4294967296.   (* 2^32 *)
Definition sub {A} (l : list A) (i n : N) : list A := firstn (N.to_nat n) (skipn (N.to_nat i) l).
(* l[i] with an index that may be any 32- or 64-bit value: None = index out of range *)
Fixpoint nthN_big {A} (l : list A) (i : N) : option A :=
  match l with
  | [] => None
  | x :: r => if i =? 0 then Some x else nthN_big r (i - 1)
  end.
(* same function; small indices take the unary route, which evaluates much faster *)
Definition nthN {A} (l : list A) (i : N) : option A :=
  if i <? 65536 then nth_error l (N.to_nat i) else nthN_big l i.
Fixpoint sumN (l : list N) : N := match l with [] => 0 | x :: r => x + sumN r end.

(* voxels of one sub-block: SubBlockSize^3 = 512 *)
Definition SB3 : N := n_P_SubBlockSize * n_P_SubBlockSize * n_P_SubBlockSize.
Definition SB3n : nat := N.to_nat SB3.

(* ------------------------------------------------------------------------------------ *)
(* Go slices.  New8ByteAlignBytes(n) returns a slice of length n whose capacity is n rounded
   up to a multiple of 8, zero filled.  s[i:j] is legal iff i <= j <= cap(s); s[i:] iff
   i <= len(s).  [buf] below is the whole capacity. *)
Definition cap8 (n : N) : N := 8 * ((n + 7) / 8).
Definition padded (data : bytes) : bytes := data ++ repeat 0 (N.to_nat (cap8 (len data) - len data)).
Definition gslice (buf : bytes) (i j : N) : res bytes :=
  if (i <=? j) && (j <=? len buf) then Ok (sub buf i (j - i)) else Panic.

(* n little-endian words of w bytes *)
Fixpoint words (w n : nat) (s : bytes) : list N :=
  match n with
  | O => []
  | S n' => le_dec (firstn w s) :: words w n' (skipn w s)
  end.

(* dvid.AliasByteToUint{16,32,64}(b): evaluates &b[0] first (index out of range on an empty
   slice), then rejects a length that is not a multiple of the word size or a misaligned
   address (the buffer itself is 8-aligned, [off] is the slice's offset in it). *)
Definition alias (w off : N) (s : bytes) : res (list N) :=
  match s with
  | [] => Panic
  | _ => if (len s mod w =? 0) && (off mod w =? 0)
         then Ok (words (N.to_nat w) (N.to_nat (len s / w)) s) else Err
  end.

(* bitsFor(n uint16): 0 for n < 2, else the number of bits of n-1 *)
Fixpoint bits_loop (fuel : nat) (n : N) : N :=
  match fuel with
  | O => 0
  | S f => if n =? 0 then 0 else 1 + bits_loop f (n / 2)
  end.
Definition bits_for (n : N) : N := if n <? 2 then 0 else bits_loop 17 (n - 1).

(* 2^k, tabulated for the shifts that occur (N.pow is slow to evaluate) *)
Definition pow2 (k : N) : N :=
  match k with
  | 0 => 1 | 1 => 2 | 2 => 4 | 3 => 8 | 4 => 16 | 5 => 32 | 6 => 64 | 7 => 128 | 8 => 256
  | _ => 2 ^ k
  end.

(* getPackedValue(b, bitHead, bits): reads b[bytePos] and, when the value straddles a byte
   boundary, b[bytePos+1]; None = index out of range.  b & leftBitMask[k] = b mod 2^(8-k)
   (checked against the generated table in Proofs/Parse.v). *)
Definition get_packed (vals : bytes) (bithead bits : N) : option N :=
  let bytepos := bithead / 8 in
  let bitpos := bithead mod 8 in
  if bitpos + bits <=? 8 then
    match nthN vals bytepos with
    | Some b0 => Some ((b0 mod pow2 (8 - bitpos)) / pow2 (8 - bitpos - bits))
    | None => None
    end
  else
    match nthN vals bytepos, nthN vals (bytepos + 1) with
    | Some b0, Some b1 =>
      Some (if 16 <? bitpos + bits then 0
            else ((b0 mod pow2 (8 - bitpos)) * 256 + b1) / pow2 (16 - bitpos - bits))
    | _, _ => None
    end.

(* ------------------------------------------------------------------------------------ *)
(* (1) labels.Block *)

Record block := {
  b_gx : N; b_gy : N; b_gz : N;
  b_labels : list N;       (* Labels     *)
  b_nsb : list N;          (* NumSBLabels, one per sub-block *)
  b_idx : list N;          (* SBIndices  *)
  b_vals : bytes;          (* SBValues   *)
}.

Definition solid (gx gy gz : N) (labels : list N) : block :=
  {| b_gx := gx; b_gy := gy; b_gz := gz; b_labels := labels; b_nsb := []; b_idx := []; b_vals := [] |}.

Definition max_labels : N := n_P_MaxBlockSize * n_P_MaxBlockSize * n_P_MaxBlockSize.

(* UnmarshalBinary + setExportedVars as they stand: uint32 arithmetic on the embedded counts,
   slices taken without comparing against the data length *)
Definition parse_block_impl (data : bytes) : res block :=
  if len data <? 24 then Err else
  let buf := padded data in
  let gx := le_dec (sub data 0 4) in
  let gy := le_dec (sub data 4 4) in
  let gz := le_dec (sub data 8 4) in
  let nsub := u32 (gx * gy * gz) in
  let nl := le_dec (sub data 12 4) in
  if nl =? 0 then Err else
  if (n_P_MaxSubBlockSize <? gx) || (n_P_MaxSubBlockSize <? gy) || (n_P_MaxSubBlockSize <? gz) then Err else
  if max_labels <? nl then Err else
  let pos := u32 (16 + u32 (nl * 8)) in
  res_bind (gslice buf 16 pos) (fun s1 =>
  res_bind (alias 8 16 s1) (fun labels =>
  if len labels <=? 1 then Ok (solid gx gy gz labels) else
  let nbytes := u32 (nsub * 2) in
  let pos2 := u32 (pos + nbytes) in
  res_bind (gslice buf pos pos2) (fun s2 =>
  res_bind (alias 2 pos s2) (fun nsb =>
  let nidx := u32 (sumN nsb) in
  let ib := u32 (nidx * 4) in
  let pos3 := u32 (pos2 + ib) in
  res_bind (gslice buf pos2 pos3) (fun s3 =>
  res_bind (alias 4 pos2 s3) (fun idx =>
  if pos3 <=? len data
  then Ok {| b_gx := gx; b_gy := gy; b_gz := gz; b_labels := labels; b_nsb := nsb; b_idx := idx;
             b_vals := skipn (N.to_nat pos3) data |}
  else Panic)))))).

(* bytes of packed values a sub-block with n labels occupies: bits * 512 / 8 *)
Definition value_bytes (n : N) : N := bits_for n * SB3 / 8.

(* the repaired setExportedVars (repo_patches/C20-1): 64-bit arithmetic, every count compared
   with the bytes present, sub-block label counts <= 512, indices inside the label table,
   enough packed values *)
Definition parse_block_fixed (data : bytes) : res block :=
  if len data <? 24 then Err else
  let L := len data in
  let buf := padded data in
  let gx := le_dec (sub data 0 4) in
  let gy := le_dec (sub data 4 4) in
  let gz := le_dec (sub data 8 4) in
  let nl := le_dec (sub data 12 4) in
  if nl =? 0 then Err else
  if (n_P_MaxSubBlockSize <? gx) || (n_P_MaxSubBlockSize <? gy) || (n_P_MaxSubBlockSize <? gz) then Err else
  if max_labels <? nl then Err else
  let nsub := u32 (gx * gy * gz) in
  if nsub =? 0 then Err else
  let lb := nl * 8 in
  if L <? 16 + lb then Err else
  res_bind (gslice buf 16 (16 + lb)) (fun s1 =>
  res_bind (alias 8 16 s1) (fun labels =>
  if len labels <=? 1 then Ok (solid gx gy gz labels) else
  let pos := 16 + lb in
  let nbytes := nsub * 2 in
  if L <? pos + nbytes then Err else
  res_bind (gslice buf pos (pos + nbytes)) (fun s2 =>
  res_bind (alias 2 pos s2) (fun nsb =>
  if existsb (fun n => SB3 <? n) nsb then Err else
  let nidx := sumN nsb in
  let vbytes := sumN (map value_bytes nsb) in
  if nidx =? 0 then Err else
  let pos2 := pos + nbytes in
  let ib := nidx * 4 in
  if L <? pos2 + ib then Err else
  res_bind (gslice buf pos2 (pos2 + ib)) (fun s3 =>
  res_bind (alias 4 pos2 s3) (fun idx =>
  if existsb (fun i => nl <=? i) idx then Err else
  let pos3 := pos2 + ib in
  if L <? pos3 + vbytes then Err else
  Ok {| b_gx := gx; b_gy := gy; b_gz := gz; b_labels := labels; b_nsb := nsb; b_idx := idx;
        b_vals := skipn (N.to_nat pos3) data |})))))).

Definition parse_block (fx : bool) : bytes -> res block :=
  if fx then parse_block_fixed else parse_block_impl.

(* 512 packed values of one sub-block starting at bit position bp (uint32 in the Go code);
   [ok] is what the caller does with each value, [fail] what happens when it is not ok *)
Fixpoint packed_loop (ok : N -> bool) (fail : res N) (vals : bytes) (bits : N) (r : nat) (bp : N) : res N :=
  match r with
  | O => Ok bp
  | S r' =>
    match get_packed vals bp bits with
    | None => Panic
    | Some ix => if ok ix then packed_loop ok fail vals bits r' (u32 (bp + bits)) else fail
    end
  end.

Definition round8 (bp : N) : N := if bp mod 8 =? 0 then bp else u32 (bp + (8 - bp mod 8)).

(* Block.Validate (repo_patches/C20-2): every packed value is below its sub-block's label count *)
Fixpoint validate_go (vals : bytes) (nsb : list N) (bp : N) : res unit :=
  match nsb with
  | [] => Ok tt
  | n :: rest =>
    if n <? 2 then validate_go vals rest bp
    else res_bind (packed_loop (fun ix => ix <? n) Err vals (bits_for n) SB3n bp)
                  (fun bp' => validate_go vals rest (round8 bp'))
  end.
Definition validate (b : block) : res unit :=
  if len (b_labels b) <=? 1 then Ok tt else validate_go (b_vals b) (b_nsb b) 0.

(* what readStreamedBlock does with the uncompressed bytes of one block *)
Definition ingest_block (fx : bool) (data : bytes) : res block :=
  res_bind (parse_block fx data) (fun b =>
    if fx then res_bind (validate b) (fun _ => Ok b) else Ok b).

(* --- views that run on a parsed block --- *)

(* for i < n : sbLabels[i] = b.Labels[b.SBIndices[indexPos]]; indexPos++   (sbLabels has 512 slots) *)
Fixpoint load_loop (labels idx : list N) (n : nat) (i ipos : N) : res N :=
  match n with
  | O => Ok ipos
  | S n' =>
    match nthN idx ipos with
    | None => Panic
    | Some ix =>
      match nthN labels ix with
      | None => Panic
      | Some _ => if i <? SB3 then load_loop labels idx n' (i + 1) (ipos + 1) else Panic
      end
    end
  end.

(* MakeLabelVolume / WriteLabelVolume / calcNumLabels: per sub-block, load its labels, then
   for more than one label read 512 packed values and index sbLabels with each *)
Fixpoint volume_go (labels idx : list N) (vals : bytes) (nsb : list N) (ipos bp : N) : res unit :=
  match nsb with
  | [] => Ok tt
  | n :: rest =>
    res_bind (load_loop labels idx (N.to_nat n) 0 ipos) (fun ipos' =>
      if n <? 2 then volume_go labels idx vals rest ipos' (round8 bp)
      else res_bind (packed_loop (fun ix => ix <? SB3) Panic vals (bits_for n) SB3n bp)
                    (fun bp' => volume_go labels idx vals rest ipos' (round8 bp')))
  end.

Definition num_subblocks (b : block) : N := b_gx b * b_gy b * b_gz b.

(* the loops run over gx*gy*gz sub-blocks and index NumSBLabels with the running number *)
Definition view_calc (b : block) : res unit :=
  if len (b_labels b) <? 2 then Ok tt
  else if len (b_nsb b) <? num_subblocks b then Panic
  else volume_go (b_labels b) (b_idx b) (b_vals b) (sub (b_nsb b) 0 (num_subblocks b)) 0 0.
(* MakeLabelVolume first allocates the voxel array and aliases it as []uint64: with no voxels
   at all (a zero sub-block dimension) AliasByteToUint64 indexes an empty slice *)
Definition view_volume (b : block) : res unit :=
  if num_subblocks b =? 0 then Panic else view_calc b.

(* GetPointLabels for one point: sub-block number k, voxel offset o (< 512) inside it *)
Fixpoint point_go (labels idx : list N) (vals : bytes) (nsb : list N) (k o c ipos bp : N) : res unit :=
  match nsb with
  | [] => Ok tt
  | n :: rest =>
    if n =? 0 then point_go labels idx vals rest k o (c + 1) ipos bp
    else if n =? 1 then
      match nthN idx ipos with
      | None => Panic
      | Some ix => match nthN labels ix with
                   | None => Panic
                   | Some _ => point_go labels idx vals rest k o (c + 1) (ipos + 1) bp
                   end
      end
    else
      let bits := bits_for n in
      let here : res unit :=
        if c =? k then
          match get_packed vals (bp + o * bits) bits with
          | None => Panic
          | Some v => match nthN idx (ipos + v) with
                      | None => Panic
                      | Some ix => match nthN labels ix with
                                   | None => Panic
                                   | Some _ => Ok tt
                                   end
                      end
          end
        else Ok tt in
      res_bind here (fun _ =>
        let bp1 := bp + SB3 * bits in
        let bp2 := if bp1 mod 8 =? 0 then bp1 else bp1 + (8 - bp1 mod 8) in
        point_go labels idx vals rest k o (c + 1) (ipos + n) bp2)
  end.

Definition view_point (b : block) (k o : N) : res unit :=
  if len (b_labels b) <? 2 then Ok tt
  else if num_subblocks b <=? k then Ok tt       (* point outside the block: skipped *)
  else if len (b_nsb b) <? num_subblocks b then Panic
  else point_go (b_labels b) (b_idx b) (b_vals b) (sub (b_nsb b) 0 (num_subblocks b)) k o 0 0 0.

(* ------------------------------------------------------------------------------------ *)
(* outcomes of a request as the outside world sees them *)
Inductive outcome :=
| Done          (* 2xx *)
| Rejected      (* 4xx: client error *)
| Recovered     (* panic in the request goroutine, caught by recoverHandler: 500 "Panic detected" *)
| Crashed.      (* panic in another goroutine: the process terminates *)

Definition outcome_eqb (a b : outcome) : bool :=
  match a, b with
  | Done, Done | Rejected, Rejected | Recovered, Recovered | Crashed, Crashed => true
  | _, _ => false
  end.

(* the store: keys are byte-like lists (block coordinate, label, ...), first match wins *)
Definition key := list N.
Definition key_eqb : key -> key -> bool := list_eqb N.eqb.
Definition store := list (key * option bytes).     (* None = deleted *)
Definition sget (st : store) (k : key) : option bytes :=
  match find (fun e => key_eqb (fst e) k) st with
  | Some (_, v) => v
  | None => None
  end.
Definition sput (st : store) (k : key) (v : bytes) : store := (k, Some v) :: st.
Definition sdel (st : store) (k : key) : store := (k, None) :: st.

(* ------------------------------------------------------------------------------------ *)
(* (2) readStreamedBlock framing + storeBlocks.  gzip is an oracle. *)

Inductive frame :=
| FEOF                                            (* clean end of stream *)
| FErr                                            (* short header, zero length, short body *)
| FOk (coord : key) (comp rest : bytes).

Definition read_frame (s : bytes) : frame :=
  match s with
  | [] => FEOF
  | _ =>
    if len s <? 16 then FErr else
    let n := le_dec (sub s 12 4) in
    if n =? 0 then FErr else
    if len s - 16 <? n then FErr else
    FOk [le_dec (sub s 0 4); le_dec (sub s 4 4); le_dec (sub s 8 4)] (sub s 16 n) (skipn (N.to_nat (16 + n)) s)
  end.

(* bytes handed to make() for the compressed body: the declared count as it stands; after
   repo_patches/C20-4 the buffer grows with the bytes actually received *)
Definition frame_alloc (fx : bool) (s : bytes) : N :=
  if len s <? 16 then 0 else
  let n := le_dec (sub s 12 4) in
  if fx then N.min n (len s - 16) else n.

Section Blocks.
Variable gunzip : bytes -> res bytes.

(* storeBlocks with indexing: each block is parsed in the request goroutine (a panic there is
   recovered: 500), stored, and then CalcNumLabels runs on it in a callback goroutine (a panic
   there ends the process).  fuel = number of bytes (every frame consumes at least 17). *)
(* checkBlockSize (repo_patches/C20-23): the block's dimensions, in sub-blocks, must be those of
   the instance *)
Definition dims_ok (bsz : N * N * N) (b : block) : bool :=
  let '(x, y, z) := bsz in (b_gx b =? x) && (b_gy b =? y) && (b_gz b =? z).

Fixpoint store_blocks (fx : bool) (bsz : N * N * N) (fuel : nat) (s : bytes) (st : store) : store * outcome :=
  match fuel with
  | O => (st, Rejected)
  | S f =>
    match read_frame s with
    | FEOF => (st, Done)
    | FErr => (st, Rejected)
    | FOk coord comp rest =>
      match gunzip comp with
      | Err => (st, Rejected)
      | Panic => (st, Recovered)
      | Ok raw =>
        match ingest_block fx raw with
        | Err => (st, Rejected)
        | Panic => (st, Recovered)
        | Ok b =>
          if fx && negb (dims_ok bsz b) then (st, Rejected) else
          let st' := sput st coord comp in
          match view_calc b with
          | Panic => (st', Crashed)
          | _ => store_blocks fx bsz f rest st'
          end
        end
      end
    end
  end.

Definition handle_blocks (fx : bool) (bsz : N * N * N) (s : bytes) (st : store) : store * outcome :=
  store_blocks fx bsz (S (length s)) s st.

(* block coordinates named by the frames of a stream *)
Fixpoint frame_coords (fuel : nat) (s : bytes) : list key :=
  match fuel with
  | O => []
  | S f => match read_frame s with
           | FOk coord _ rest => coord :: frame_coords f rest
           | _ => []
           end
  end.
Definition named_blocks (s : bytes) : list key := frame_coords (S (length s)) s.
End Blocks.

(* ------------------------------------------------------------------------------------ *)
(* (3) dvid.ReadRLEs: 8 header bytes (first = EncodingBinary), uint32 span count, 16 bytes per span *)

Definition rle := (N * N * N * N)%type.     (* x y z length, raw uint32 *)

Fixpoint read_spans (n : nat) (s : bytes) : res (list rle) :=
  match n with
  | O => Ok []
  | S n' =>
    if len s <? 16 then Err
    else res_bind (read_spans n' (skipn 16 s)) (fun r =>
           Ok ((le_dec (sub s 0 4), le_dec (sub s 4 4), le_dec (sub s 8 4), le_dec (sub s 12 4)) :: r))
  end.

Definition read_rles (s : bytes) : res (list rle) :=
  if len s <? 8 then Err else
  match s with
  | h :: _ =>
    if negb (h =? n_P_EncodingBinary) then Err else
    if len s <? 12 then Err else
    let n := le_dec (sub s 8 4) in
    (* at most (len s - 12) / 16 spans can be read before the body ends *)
    if (len s - 12) / 16 <? n then Err else read_spans (N.to_nat n) (skipn 12 s)
  | [] => Err
  end.

(* number of RLEs passed to make() before a single span has been read *)
Definition rles_alloc (fx : bool) (s : bytes) : N :=
  if len s <? 12 then 0 else
  let n := le_dec (sub s 8 4) in
  if fx then N.min n 65536 else n.

(* ------------------------------------------------------------------------------------ *)
(* (4) protobuf label index / mappings: the decoder is an oracle returning what it decoded so
   far and whether it succeeded (pb.Unmarshal fills the message up to the point of failure). *)

Record pidx := { pi_label : N; pi_blocks : list (N * list (N * N)) }.   (* block key -> sv -> count *)

Definition put_index (st : store) (i : pidx) : store :=
  match pi_blocks i with
  | [] => sdel st [pi_label i]
  | _ => sput st [pi_label i] (pi_label i :: map fst (pi_blocks i))    (* abstract serialisation *)
  end.

(* handleIndex POST <label>.  As it stands a decode error is reported but the handler does
   not return (ret_on_err = false): the partially decoded index is stored or, when it has no
   blocks, the stored index is deleted. *)
Definition handle_index (ret_on_err : bool) (url_label : N) (dec : pidx * bool) (st : store) : store * outcome :=
  let (i, ok) := dec in
  if negb ok && ret_on_err then (st, Rejected)
  else if negb (pi_label i =? url_label) then (st, Rejected)
  else (put_index st i, if ok then Done else Rejected).

(* putProtoLabelIndices: checks and writes are interleaved: an index with label 0 stops the
   loop after the earlier ones were written (the request names them) *)
Fixpoint put_indices (l : list pidx) (st : store) : store * outcome :=
  match l with
  | [] => (st, Done)
  | i :: r => if pi_label i =? 0 then (st, Rejected) else put_indices r (put_index st i)
  end.
Definition handle_indices (dec : option (list pidx)) (st : store) : store * outcome :=
  match dec with
  | None => (st, Rejected)
  | Some l => put_indices l st
  end.

(* handleMappings POST: same missing return; a mapping op maps each original to [mapped] *)
Definition mapop := (N * list N)%type.
Definition put_mappings (ops : list mapop) (st : store) : store :=
  fold_left (fun st op => fold_left (fun st o => sput st [o] [fst op]) (snd op) st) ops st.
Definition handle_mappings (ret_on_err : bool) (dec : list mapop * bool) (st : store) : store * outcome :=
  let (ops, ok) := dec in
  if negb ok && ret_on_err then (st, Rejected)
  else (put_mappings ops st, if ok then Done else Rejected).

(* GET supervoxel-sizes on a stored index: builds "a,b,c," and cuts the last character;
   with no supervoxel counts at all the cut is s[:-1] *)
Definition view_svsizes (guard : bool) (i : pidx) : res unit :=
  match concat (map snd (pi_blocks i)) with
  | [] => if guard then Ok tt else Panic
  | _ => Ok tt
  end.

(* ------------------------------------------------------------------------------------ *)
(* (5) annotation.addTagDelta.  tagDelta : map[Tag]{add []elem; erase map[pos]struct{}} where a
   nil erase map is None.  Positions and tags are numbers here. *)

Record aelem := { a_pos : N; a_tags : list N }.
Record tdelta := { td_add : list N; td_erase : option (list N) }.
Definition tmap := list (N * tdelta).

Definition tm_get (m : tmap) (t : N) : option tdelta :=
  match find (fun e => fst e =? t) m with Some (_, d) => Some d | None => None end.
Definition tm_set (m : tmap) (t : N) (d : tdelta) : tmap :=
  (t, d) :: filter (fun e => negb (fst e =? t)) m.

Definition add_tag (m : tmap) (p t : N) : tmap :=
  match tm_get m t with
  | Some d => tm_set m t {| td_add := td_add d ++ [p]; td_erase := td_erase d |}
  | None => tm_set m t {| td_add := [p]; td_erase := None |}
  end.

(* td.erase[zyx] = struct{}{} on an entry that exists: a nil map panics as the code stands;
   the repair allocates it *)
Definition erase_tag (fx : bool) (m : tmap) (p t : N) : res tmap :=
  match tm_get m t with
  | Some d =>
    match td_erase d with
    | Some e => Ok (tm_set m t {| td_add := td_add d; td_erase := Some (p :: e) |})
    | None => if fx then Ok (tm_set m t {| td_add := td_add d; td_erase := Some [p] |}) else Panic
    end
  | None => Ok (tm_set m t {| td_add := []; td_erase := Some [p] |})
  end.

Fixpoint erase_tags (fx : bool) (m : tmap) (p : N) (ts : list N) : res tmap :=
  match ts with
  | [] => Ok m
  | t :: r => res_bind (erase_tag fx m p t) (fun m' => erase_tags fx m' p r)
  end.

Definition mem (x : N) (l : list N) : bool := existsb (N.eqb x) l.

(* one block: new elements (posted) against current elements (stored) *)
Fixpoint cur_loop (fx : bool) (newE : list aelem) (cur : list aelem) (m : tmap) : res tmap :=
  match cur with
  | [] => Ok m
  | c :: r =>
    match find (fun e => a_pos e =? a_pos c) newE with
    | None => cur_loop fx newE r m
    | Some e =>
      let removed := filter (fun t => negb (mem t (a_tags e))) (a_tags c) in
      res_bind (erase_tags fx m (a_pos c) removed) (fun m' =>
        cur_loop fx (filter (fun x => negb (a_pos x =? a_pos c)) newE) r m')
    end
  end.

Definition add_tag_delta (fx : bool) (newE cur : list aelem) (m : tmap) : res tmap :=
  match newE with
  | [] => Ok m
  | _ =>
    let m1 := fold_left (fun m e => fold_left (fun m t => add_tag m (a_pos e) t) (a_tags e) m) newE m in
    (* elemsByPoint is a map: a later posted element at the same position replaces the earlier *)
    cur_loop fx (rev newE) cur m1
  end.

(* StoreElements over the blocks touched (any order: Go map iteration) *)
Fixpoint store_elements (fx : bool) (blocks : list (list aelem * list aelem)) (m : tmap) : res tmap :=
  match blocks with
  | [] => Ok m
  | (n, c) :: r => res_bind (add_tag_delta fx n c m) (fun m' => store_elements fx r m')
  end.

(* Elements.validate (added to StoreElements / StoreBlocks by the C13 fix cb2a6f1, present when
   fx = true): the posted list, taken as a whole and before any read or write, must not have two
   elements at one position nor an element that repeats a tag; otherwise the request is a
   client error. *)
Fixpoint nodupb (l : list N) : bool :=
  match l with
  | [] => true
  | x :: r => negb (mem x r) && nodupb r
  end.
Definition elements_valid (es : list aelem) : bool :=
  nodupb (map a_pos es) && forallb (fun e => nodupb (a_tags e)) es.
Definition post_elements (fx : bool) (blocks : list (list aelem * list aelem)) : res tmap :=
  if fx && negb (elements_valid (List.concat (map fst blocks))) then Err
  else store_elements fx blocks [].

(* ------------------------------------------------------------------------------------ *)
(* (6) JSON bodies: decoders are oracles; the post-decode checks are modelled. *)

(* roi.PutSpans: a span is [z; y; x0; x1].  As it stands the stored ROI is deleted first and
   the spans are checked while they are written (validate_first = false). *)
Definition span := (N * N * Z * Z)%type.
Definition span_ok (s : span) : bool := let '(_, _, x0, x1) := s in (x0 <=? x1)%Z.
Definition roi_key : key := [0].
Definition put_spans (validate_first : bool) (spans : list span) (st : store) : store * outcome :=
  if forallb span_ok spans then (sput st roi_key (map (fun s => let '(z, _, _, _) := s in z) spans), Done)
  else if validate_first then (st, Rejected)
  else (sdel st roi_key, Rejected).
Definition handle_roi (validate_first : bool) (dec : option (list span)) (st : store) : store * outcome :=
  match dec with
  | None => (st, Rejected)
  | Some spans => put_spans validate_first spans st
  end.

(* keyvalue POST key/<k>: any body is a value.  neuronjson POST key/<k>: the key must be a
   decimal body id and the body a JSON object. *)
Definition handle_kv (k : key) (body : bytes) (st : store) : store * outcome := (sput st k body, Done).
Definition handle_nj (key_is_number : bool) (dec_object : option bytes) (k : key) (st : store) : store * outcome :=
  if negb key_is_number then (st, Rejected)
  else match dec_object with
       | None => (st, Rejected)
       | Some v => (sput st k v, Done)
       end.

(* ------------------------------------------------------------------------------------ *)
(* One ingestion / mutation request, after the oracles (gzip, protobuf, JSON decoders) have
   run, and what the handler does with it. *)
Inductive request :=
| RBlocks (bsz : N * N * N) (stream : bytes)            (* POST blocks to an instance whose blocks have bsz sub-blocks *)
| RSparse (body : bytes)                                (* POST split / split-supervoxel: sparse volume *)
| RIndex (url_label : N) (dec : pidx * bool)            (* POST index/<label> *)
| RIndices (dec : option (list pidx))                   (* POST indices *)
| RMappings (dec : list mapop * bool)                   (* POST mappings *)
| RElements (blocks : list (list aelem * list aelem))   (* POST elements: per block, posted and stored elements *)
| RRoi (dec : option (list span))                       (* POST roi *)
| RKeyValue (k : key) (body : bytes)                    (* POST key/<k> of a keyvalue instance *)
| RNeuron (key_is_number : bool) (dec : option bytes) (k : key).   (* POST key/<k> of a neuronjson instance *)

Definition of_res {A} (st : store) (r : res A) : store * outcome :=
  match r with Ok _ => (st, Done) | Err => (st, Rejected) | Panic => (st, Recovered) end.

(* fx = false: the handlers as they stand; fx = true: with repo_patches/C20-* (and the C13
   patch for addTagDelta) applied.  For RSparse and RElements only the parse / post-processing
   is modelled; the mutation that follows an accepted payload belongs to C08 / C13. *)
Definition handle (gunzip : bytes -> res bytes) (fx : bool) (r : request) (st : store) : store * outcome :=
  match r with
  | RBlocks bsz s => handle_blocks gunzip fx bsz s st
  | RSparse body => of_res st (read_rles body)
  | RIndex l dec => handle_index fx l dec st
  | RIndices dec => handle_indices dec st
  | RMappings dec => handle_mappings fx dec st
  | RElements blocks => of_res st (post_elements fx blocks)
  | RRoi dec => handle_roi fx dec st
  | RKeyValue k body => handle_kv k body st
  | RNeuron isnum dec k => handle_nj isnum dec k st
  end.

(* the keys a request names: only these may differ after it, whatever the answer *)
Definition named (r : request) : list key :=
  match r with
  | RBlocks _ s => named_blocks s
  | RSparse _ => []
  | RIndex l _ => [[l]]
  | RIndices (Some l) => map (fun i => [pi_label i]) l
  | RIndices None => []
  | RMappings (ops, _) => concat (map (fun op => map (fun o => [o]) (snd op)) ops)
  | RElements _ => []
  | RRoi _ => [roi_key]
  | RKeyValue k _ => [k]
  | RNeuron _ _ k => [k]
  end.

(* requests whose handler decodes and checks the whole payload before the first write *)
Definition single_shot (r : request) : bool :=
  match r with
  | RBlocks _ _ | RIndices _ => false
  | _ => true
  end.
