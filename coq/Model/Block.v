(* Model.Block: datatype/common/labels/compressed.go — the compressed label Block:
   encodeBlock / MakeBlock / SubvolumeToBlock / MakeSolidBlock, MakeLabelVolume, Value,
   GetPointLabels, calcNumLabels, MarshalBinary / UnmarshalBinary / setExportedVars.
   Definitions only.

   Conventions.  Label arrays are [list N] in ZYX order (x fastest).  A Go panic (index or
   slice out of range) is [Panic], a returned error is [Err].  Loops over (sz, sy, sx) with a
   running sub-block number are rendered as a map over the sub-block number s with
   (sx, sy, sz) = (s mod gx, (s / gx) mod gy, s / (gx*gy)); the scatter of MakeLabelVolume
   (lblpos arithmetic, every output position written exactly once) as a map over the output
   position.  The block-level label table order comes from Go map iteration: [encode_at]
   takes the table as an argument and the theorems hold for every table that contains the
   labels of the array. *)
From DV Require Import Base.Prelude Base.Int Base.BitPack Gen.Consts.
Local Open Scope N_scope.

Definition opt_res {A} (o : option A) : res A :=
  match o with Some a => Ok a | None => Panic end.

Fixpoint mapR {A B} (f : A -> res B) (l : list A) : res (list B) :=
  match l with
  | [] => Ok []
  | a :: r =>
    match f a with
    | Ok b => match mapR f r with Ok bs => Ok (b :: bs) | Err => Err | Panic => Panic end
    | Err => Err
    | Panic => Panic
    end
  end.

Record block := mkBlock {
  b_gx : N; b_gy : N; b_gz : N;     (* sub-blocks per dimension; Size = 8 * g *)
  b_labels : list N;                (* Labels *)
  b_nsb : list N;                   (* NumSBLabels *)
  b_idx : list N;                   (* SBIndices *)
  b_vals : bytes                    (* SBValues *)
}.

Definition solid_block (l gx gy gz : N) : block :=
  {| b_gx := gx; b_gy := gy; b_gz := gz; b_labels := [l]; b_nsb := []; b_idx := []; b_vals := [] |}.

(* ---------------- encoding ---------------- *)

Fixpoint index_of (x : N) (l : list N) : option N :=
  match l with
  | [] => None
  | y :: r => if x =? y then Some 0 else option_map N.succ (index_of x r)
  end.

(* slabels: label -> position, in order of first occurrence in the sub-block *)
Definition sb_table (vox : list N) : list N :=
  fold_left (fun t l => match index_of l t with Some _ => t | None => t ++ [l] end) vox [].

(* Go map lookup: a missing key yields the zero value *)
Definition idx0 (t : list N) (l : N) : N := match index_of l t with Some i => i | None => 0 end.

Record sbenc := { se_tbl : list N; se_vals : bytes }.

Definition enc_sb (vox : list N) : sbenc :=
  let t := sb_table vox in
  let k := bits_for (N.of_nat (length t)) in
  {| se_tbl := t; se_vals := if k =? 0 then [] else pack k (map (idx0 t) vox) |}.

(* The label array is read through its rows (chunks of the row length wx), built once:
   s.data[upos], upos = uz*dz + uy*dy + ux, is entry ux of row uz*wy + uy.  (Plain list
   indexing costs time linear in upos under vm_compute; Proofs.Block.vol_at_rows shows the
   two readings are the same.) *)
Fixpoint chunks (fuel w : nat) (l : list N) : list (list N) :=
  match fuel with
  | O => []
  | S f => match l with [] => [] | _ => firstn w l :: chunks f w (skipn w l) end
  end.
Definition rows (wx : N) (vol : list N) : list (list N) := chunks (length vol) (N.to_nat wx) vol.
Definition vol_at (rs : list (list N)) (r x : N) : option N :=
  match nth_N rs r with Some row => nth_N row x | None => None end.

(* the 512 voxels of sub-block (sx,sy,sz) of the block at offset (ox,oy,oz) of a volume of
   slice height wy *)
Definition sb_vox (rs : list (list N)) (wy ox oy oz sx sy sz : N) : res (list N) :=
  mapR (fun i =>
          let x := i mod 8 in let y := (i / 8) mod 8 in let z := i / 64 in
          opt_res (vol_at rs ((sz * 8 + oz + z) * wy + (sy * 8 + oy + y)) (sx * 8 + ox + x)))
       (nseq 512).

Definition gather (vol : list N) (wx wy ox oy oz gx gy gz : N) : res (list (list N)) :=
  let rs := rows wx vol in
  mapR (fun s => sb_vox rs wy ox oy oz (s mod gx) ((s / gx) mod gy) (s / (gx * gy)))
       (nseq (gx * gy * gz)).

Fixpoint mapO {A B} (f : A -> option B) (l : list A) : option (list B) :=
  match l with
  | [] => Some []
  | a :: r => match f a, mapO f r with Some b, Some bs => Some (b :: bs) | _, _ => None end
  end.

(* setSubvolume + encodeBlock.  [tbl] is the block-level label table (Go: map iteration order).
   wx wy wz: volume size; ox oy oz: offset of the block in the volume; gx gy gz: sub-blocks. *)
Definition size_checks (wx wy wz ox oy oz gx gy gz : N) : bool :=
  negb (4294967295 <=? wx * wy * wz)                                    (* volsize.Prod() >= MaxUint32 *)
  && negb ((gx <? 2) || (gy <? 2) || (gz <? 2))                         (* at least 16x16x16 *)
  && negb ((wx <? ox + 8 * gx) || (wy <? oy + 8 * gy) || (wz <? oz + 8 * gz))   (* boundsCheck *)
  && negb ((n_MaxSubBlockSize <? gx) || (n_MaxSubBlockSize <? gy) || (n_MaxSubBlockSize <? gz)).

(* [aligned_only] = true: the code as found — SBIndices is viewed through dvid.AliasByteToUint32,
   which refuses the 2-byte aligned offset an odd number of sub-blocks gives.  [aligned_only] = false
   (repo_patches/C09-2-fix.diff): a misaligned index area is read and written through a copy. *)
Definition encode_gen (aligned_only : bool) (tbl : list N) (vol : list N) (wx wy wz ox oy oz gx gy gz : N) : res block :=
  if negb (size_checks wx wy wz ox oy oz gx gy gz) then Err
  else
    match gather vol wx wy ox oy oz gx gy gz with
    | Ok sbs =>
      let encs := map enc_sb sbs in
      match tbl with
      | [l] => Ok (solid_block l gx gy gz)                               (* numLabels == 1 *)
      | _ =>
        (* SBIndices start at 16 + 8*numLabels + 2*numSubBlocks: AliasByteToUint32 refuses an
           address that is not a multiple of 4, i.e. an odd number of sub-blocks *)
        if aligned_only && N.odd (gx * gy * gz) then Err
        else
          match mapO (fun e => mapO (fun l => index_of l tbl) (se_tbl e)) encs with
          | Some idxs =>
            Ok {| b_gx := gx; b_gy := gy; b_gz := gz; b_labels := tbl;
                  b_nsb := map (fun e => N.of_nat (length (se_tbl e))) encs;
                  b_idx := concat idxs;
                  b_vals := concat (map se_vals encs) |}
          | None => Err                                                  (* label not in block-level map *)
          end
      end
    | Err => Err
    | Panic => Panic
    end.

Definition encode_at := encode_gen false.
Definition encode_at_asfound := encode_gen true.

(* MakeBlock(uint64array, bsize) *)
Definition encode (tbl : list N) (a : list N) (gx gy gz : N) : res block :=
  encode_at tbl a (8 * gx) (8 * gy) (8 * gz) 0 0 0 gx gy gz.

(* a canonical table: first occurrence over the sub-blocks in order (one of the orders Go may pick) *)
Definition canon_table (sbs : list (list N)) : list N := sb_table (concat sbs).

Definition encode_canon (vol : list N) (wx wy wz ox oy oz gx gy gz : N) : res block :=
  if negb (size_checks wx wy wz ox oy oz gx gy gz) then Err else
  match gather vol wx wy ox oy oz gx gy gz with
  | Ok sbs => encode_at (canon_table sbs) vol wx wy wz ox oy oz gx gy gz
  | Err => Err
  | Panic => Panic
  end.

(* the part of a volume covered by the block, as an array of the block's size *)
Definition crop (vol : list N) (wx wy ox oy oz gx gy gz : N) : res (list N) :=
  let nx := 8 * gx in let ny := 8 * gy in
  let rs := rows wx vol in
  mapR (fun p => let x := p mod nx in let y := (p / nx) mod ny in let z := p / (nx * ny) in
                 opt_res (vol_at rs ((oz + z) * wy + (oy + y)) (ox + x)))
       (nseq (nx * ny * (8 * gz))).

(* ---------------- decoding: MakeLabelVolume ---------------- *)

(* state carried over the sub-blocks: indexPos, bitpos, the 512-entry sbLabels scratch array *)
Definition dstate := (N * N * list N)%type.
Definition dstate0 : dstate := (0, 0, repeat 0 512%nat).

Definition dec_sb (b : block) (st : dstate) (n : N) : res (list N * dstate) :=
  let '(ip, bp, sbl) := st in
  let k := bits_for n in
  if 512 <? n then Panic                     (* sbLabels[i], i >= 512 *)
  else
    match mapR (fun j => match nth_N (b_idx b) (ip + j) with
                         | Some ix => opt_res (nth_N (b_labels b) ix)
                         | None => Panic
                         end) (nseq n) with
    | Ok ls =>
      let sbl' := ls ++ skipn (N.to_nat n) sbl in
      match (if n =? 0 then Ok (repeat 0 512%nat)
             else if n =? 1 then match sbl' with l :: _ => Ok (repeat l 512%nat) | [] => Panic end
             else mapR (fun i => match get_packed (b_vals b) (bp + i * k) k with
                                 | Ok ix => opt_res (nth_N sbl' ix)
                                 | Err => Err
                                 | Panic => Panic
                                 end) (nseq 512)) with
      | Ok vox => Ok (vox, (ip + n, (if n <? 2 then bp else bp + 512 * k), sbl'))
      | Err => Err
      | Panic => Panic
      end
    | Err => Err
    | Panic => Panic
    end.

Fixpoint dec_sbs (b : block) (st : dstate) (ns : list N) : res (list (list N)) :=
  match ns with
  | [] => Ok []
  | n :: r =>
    match dec_sb b st n with
    | Ok (vox, st') =>
      match dec_sbs b st' r with Ok vs => Ok (vox :: vs) | Err => Err | Panic => Panic end
    | Err => Err
    | Panic => Panic
    end
  end.

(* the sub-blocks of a multi-label block, in order *)
Definition block_sbs (b : block) : res (list (list N)) :=
  let nsbs := b_gx b * b_gy b * b_gz b in
  if N.of_nat (length (b_nsb b)) <? nsbs then Panic      (* NumSBLabels[subBlockNum] *)
  else dec_sbs b dstate0 (firstn (N.to_nat nsbs) (b_nsb b)).

Definition sb_of (gx gy x y z : N) : N := (z / 8) * gy * gx + (y / 8) * gx + x / 8.
Definition loc_of (x y z : N) : N := (z mod 8) * 64 + (y mod 8) * 8 + x mod 8.

Definition assemble (sbs : list (list N)) (gx gy gz : N) : res (list N) :=
  let nx := 8 * gx in let ny := 8 * gy in
  mapR (fun p => let x := p mod nx in let y := (p / nx) mod ny in let z := p / (nx * ny) in
                 match nth_N sbs (sb_of gx gy x y z) with
                 | Some vox => opt_res (nth_N vox (loc_of x y z))
                 | None => Panic
                 end)
       (nseq (nx * ny * (8 * gz))).

Definition decode (b : block) : res (list N) :=
  let nvox := 8 * b_gx b * (8 * b_gy b) * (8 * b_gz b) in
  match b_labels b with
  | [] => Ok (repeat 0 (N.to_nat nvox))
  | [l] => Ok (repeat l (N.to_nat nvox))
  | _ => match block_sbs b with
         | Ok sbs => assemble sbs (b_gx b) (b_gy b) (b_gz b)
         | Err => Err
         | Panic => Panic
         end
  end.

(* ---------------- point views ---------------- *)

(* idxPos and bitPos in front of sub-block sbNum (the loop of Block.Value) *)
Fixpoint prefix_pos (ns : list N) (ip bp : N) : N * N :=
  match ns with
  | [] => (ip, bp)
  | n :: r => prefix_pos r (ip + n) (if n <? 2 then bp else bp + 512 * bits_for n)
  end.

(* Block.Value for a position inside the block *)
Definition value_at (b : block) (x y z : N) : res N :=
  if (8 * b_gx b <=? x) || (8 * b_gy b <=? y) || (8 * b_gz b <=? z) then Ok 0
  else
    match b_labels b with
    | [] => Ok 0
    | [l] => Ok l
    | _ =>
      let sbNum := sb_of (b_gx b) (b_gy b) x y z in
      match nth_N (b_nsb b) sbNum with                 (* also covers NumSBLabels[sb], sb < sbNum *)
      | None => Panic
      | Some n =>
        let '(ip, bp) := prefix_pos (firstn (N.to_nat sbNum) (b_nsb b)) 0 0 in
        let k := bits_for n in
        if k =? 0 then
          match nth_N (b_idx b) ip with
          | Some ix => opt_res (nth_N (b_labels b) ix)
          | None => Panic
          end
        else
          match get_packed (b_vals b) (bp + loc_of x y z * k) k with
          | Ok v => match nth_N (b_idx b) (ip + v) with
                    | Some ix => opt_res (nth_N (b_labels b) ix)
                    | None => Panic
                    end
          | Err => Err
          | Panic => Panic
          end
      end
    end.

(* GetPointLabels for one point inside the block: the same traversal, but a sub-block with
   no labels leaves the result at 0 *)
Definition point_label (b : block) (x y z : N) : res N :=
  match b_labels b with
  | [] => Ok 0
  | [l] => Ok l
  | _ =>
    let sbNum := sb_of (b_gx b) (b_gy b) x y z in
    if b_gx b * b_gy b * b_gz b <=? sbNum then Ok 0
    else
      match nth_N (b_nsb b) sbNum with
      | None => Panic
      | Some n =>
        let '(ip, bp) := prefix_pos (firstn (N.to_nat sbNum) (b_nsb b)) 0 0 in
        let k := bits_for n in
        if n =? 0 then Ok 0
        else if n =? 1 then
          match nth_N (b_idx b) ip with
          | Some ix => opt_res (nth_N (b_labels b) ix)
          | None => Panic
          end
        else
          match get_packed (b_vals b) (bp + loc_of x y z * k) k with
          | Ok v => match nth_N (b_idx b) (ip + v) with
                    | Some ix => opt_res (nth_N (b_labels b) ix)
                    | None => Panic
                    end
          | Err => Err
          | Panic => Panic
          end
      end
  end.

(* ---------------- CalcNumLabels(nil) ---------------- *)

Fixpoint bump (l c : N) (d : list (N * N)) : list (N * N) :=
  match d with
  | [] => [(l, c)]
  | (l', c') :: r => if l =? l' then (l', c' + c) :: r else (l', c') :: bump l c r
  end.

Definition count_labels (vox : list N) (d : list (N * N)) : list (N * N) :=
  fold_left (fun d l => if l =? 0 then d else bump l 1 d) vox d.

(* calcNumLabels walks the sub-blocks exactly as MakeLabelVolume does (same index and bit
   positions, same scratch array) and counts the non-zero labels it meets; a one-label
   sub-block is counted as 512 voxels at once.  The result is a Go map: an association list
   here, compared up to order. *)
Definition calc_num_labels (b : block) : res (list (N * N)) :=
  let nvox := 8 * b_gx b * (8 * b_gy b) * (8 * b_gz b) in
  match b_labels b with
  | [] => Ok []
  | [l] => if l =? 0 then Ok [] else Ok [(l, nvox)]
  | _ => match block_sbs b with
         | Ok sbs => Ok (fold_left (fun d vox => count_labels vox d) sbs [])
         | Err => Err
         | Panic => Panic
         end
  end.

(* ---------------- MarshalBinary / UnmarshalBinary ---------------- *)

Definition marshal (b : block) : bytes :=
  le_enc 4 (b_gx b) ++ le_enc 4 (b_gy b) ++ le_enc 4 (b_gz b) ++
  le_enc 4 (N.of_nat (length (b_labels b))) ++
  flat_map (le_enc 8) (b_labels b) ++
  match b_labels b with
  | [] | [_] => []
  | _ => flat_map (le_enc 2) (b_nsb b) ++ flat_map (le_enc 4) (b_idx b) ++ b_vals b
  end.

(* n little-endian words of w bytes *)
Fixpoint words (w : nat) (n : nat) (l : bytes) : list N :=
  match n with
  | O => []
  | S n' => le_dec (firstn w l) :: words w n' (skipn w l)
  end.

Definition sum_N (l : list N) : N := fold_left N.add l 0.

(* UnmarshalBinary + setExportedVars.  The data are copied into an 8-byte aligned buffer whose
   capacity is the length rounded up to 8 (zero filled); Go slice expressions are checked
   against the capacity, data[pos:] against the length; uint32 products wrap. *)
Definition unmarshal_gen (aligned_only : bool) (data : bytes) : res block :=
  let len := N.of_nat (length data) in
  if len <? 24 then Err
  else
    let cap := (len + 7) / 8 * 8 in
    let buf := data ++ repeat 0 (N.to_nat (cap - len)) in
    let gx := le_dec (firstn 4 buf) in
    let gy := le_dec (firstn 4 (skipn 4 buf)) in
    let gz := le_dec (firstn 4 (skipn 8 buf)) in
    let numLabels := le_dec (firstn 4 (skipn 12 buf)) in
    let nsbs := (gx * gy * gz) mod 2 ^ 32 in
    if numLabels =? 0 then Err
    else if (n_MaxSubBlockSize <? gx) || (n_MaxSubBlockSize <? gy) || (n_MaxSubBlockSize <? gz) then Err
    else if n_MaxBlockSize * n_MaxBlockSize * n_MaxBlockSize <? numLabels then Err
    else
      let hi := (16 + numLabels * 8) mod 2 ^ 32 in
      if (hi <? 16) || (cap <? hi) then Panic                      (* data[16 : 16+numLabels*8] *)
      else if hi =? 16 then Panic                                  (* &b[0] of an empty slice *)
      else
        let nl := (hi - 16) / 8 in
        let labels := words 8 (N.to_nat nl) (skipn 16 buf) in
        if nl <=? 1 then
          Ok {| b_gx := gx; b_gy := gy; b_gz := gz; b_labels := labels; b_nsb := []; b_idx := []; b_vals := [] |}
        else
          let pos := hi in
          let nbytes := (nsbs * 2) mod 2 ^ 32 in
          let hi2 := (pos + nbytes) mod 2 ^ 32 in
          if (hi2 <? pos) || (cap <? hi2) then Panic                (* data[pos : pos+nbytes] *)
          else if nbytes =? 0 then Panic                           (* &b[0] of an empty slice *)
          else
            let nsb := words 2 (N.to_nat (nbytes / 2)) (skipn (N.to_nat pos) buf) in
            let nidx := sum_N nsb mod 2 ^ 32 in
            let ibytes := (nidx * 4) mod 2 ^ 32 in
            let hi3 := (hi2 + ibytes) mod 2 ^ 32 in
            if (hi3 <? hi2) || (cap <? hi3) then Panic              (* data[pos : pos+subBlockIndexBytes] *)
            else if ibytes =? 0 then Panic                         (* &b[0] of an empty slice *)
            else if aligned_only && negb (hi2 mod 4 =? 0) then Err  (* AliasByteToUint32: alignment (as found) *)
            else if len <? hi3 then Panic                          (* data[pos:] *)
            else
              Ok {| b_gx := gx; b_gy := gy; b_gz := gz; b_labels := labels; b_nsb := nsb;
                    b_idx := words 4 (N.to_nat (ibytes / 4)) (skipn (N.to_nat hi2) buf);
                    b_vals := skipn (N.to_nat hi3) data |}.

Definition unmarshal := unmarshal_gen false.
Definition unmarshal_asfound := unmarshal_gen true.
