(* Model.RLE2: RLE.Within :493, RLEs.Within :587, RLEs.Offset :606, RLEs.Stats :959 of
   dvid/volumes.go (C18, round 4).  int32 arithmetic wraps (add32 / sub32), uint64 sums wrap.
   Definitions only. *)
From DV Require Import Base.Prelude Base.Int Base.WrapZ Model.Geometry Model.RLE.
Local Open Scope Z_scope.

(* RLE.Within: `pt[0] >= rle.start[0]+rle.length` is an int32 sum *)
Definition rle_within (r : rle) (p : pt) : bool :=
  if negb (pz p =? rz r) || negb (py p =? ry r) then false else
  if (px p <? rx r) || (add32 (rx r) (rlen r) <=? px p) then false else true.

(* RLEs.Within: the indices of the points lying in some run.  The Go code collects them in a map
   and returns them in map order (any permutation); the driver sorts them, the model returns
   them ascending. *)
Fixpoint within_from (i : nat) (l : list rle) (pts : list pt) : list nat :=
  match pts with
  | [] => []
  | p :: t => if existsb (fun r => rle_within r p) l then i :: within_from (S i) l t
              else within_from (S i) l t
  end.
Definition within (l : list rle) (pts : list pt) : list nat := within_from 0 l pts.

(* RLEs.Offset: every start point minus the offset *)
Definition offset_run (d : pt) (r : rle) : rle :=
  R (sub32 (rx r) (px d)) (sub32 (ry r) (py d)) (sub32 (rz r) (pz d)) (rlen r).
Definition offset (l : list rle) (d : pt) : list rle := map (offset_run d) l.

(* RLEs.Stats: numVoxels += uint64(rle.length) (a negative int32 sign-extends, the sum wraps at
   2^64); numRuns = int32(len(rles)) *)
Definition stats (l : list rle) : Z * Z :=
  match l with
  | [] => (0, 0)
  | _ => (fold_left (fun acc r => wU 64 (acc + wU 64 (rlen r))) l 0, w32 (Z.of_nat (length l)))
  end.

(* the voxel set of a run list written out (specification side of Stats) *)
Definition run_voxels (r : rle) : list pt :=
  map (fun i => (rx r + Z.of_nat i, ry r, rz r)) (seq 0 (Z.to_nat (rlen r))).
Definition voxels_of (l : list rle) : list pt := flat_map run_voxels l.
Definition padd3 (p d : pt) : pt := (px p + px d, py p + py d, pz p + pz d).
