(* Model.BlockViews: the sparse-volume views of datatype/common/labels/compressed.go computed
   directly on the compressed block: WriteRLEs / writeRLEs / writeSolidBlockRLEs and
   WriteBinaryBlocks / WriteBinaryBlock / BinaryBlock.Read, for one positioned block and
   unset bounds.  Definitions only. *)
From DV Require Import Base.Prelude Base.Int Base.BitPack Model.Block Gen.Consts.
Local Open Scope N_scope.

Definition mem (x : N) (l : list N) : bool := existsb (N.eqb x) l.

(* labelIndices: the positions of the label table holding a label of the set *)
Definition label_indices (labels lbls : list N) : list N :=
  map fst (filter (fun p => mem (snd p) lbls) (combine (nseq (N.of_nat (length labels))) labels)).

(* ---------------- run lengths ---------------- *)

(* Go's truncating remainder on int32 *)
Definition rem8 (v : Z) : Z := Z.rem v 8.

(* is voxel (x,y,z) of the block foreground?  Read as writeRLEs reads it: sub-block
   number from the block-local position, bit position from sbValuePos and the position
   inside the sub-block.  [local] = false is the code as found: the position inside the
   sub-block is taken from the DVID-space coordinates (vz % 8, vy % 8), which are negative
   for blocks at negative coordinates; the product is converted to uint32 and wraps.
   [local] = true is the repaired code (block-local coordinates). *)
Definition fg_at (local : bool) (b : block) (inds : list N) (offy offz : Z) (x y z : N) : res bool :=
  let sbNum := sb_of (b_gx b) (b_gy b) x y z in
  match nth_N (b_nsb b) sbNum with
  | None => Panic
  | Some n =>
    let '(ip, bp) := prefix_pos (firstn (N.to_nat sbNum) (b_nsb b)) 0 0 in
    let k := bits_for n in
    if n =? 0 then Err                         (* "Sub-block with 0 labels detected" *)
    else if n =? 1 then
      match nth_N (b_idx b) ip with
      | Some ix => Ok (mem ix inds)
      | None => Panic
      end
    else
      let blockz := if local then Z.of_N (z mod 8) else rem8 (offz + Z.of_N z)%Z in
      let blocky := if local then Z.of_N (y mod 8) else rem8 (offy + Z.of_N y)%Z in
      (* uint32(blockz*64 + blocky*8 + vx%8) * bits, entered at a sub-block boundary and
         advanced by bits per voxel *)
      let rel := Z.to_N ((blockz * 64 + blocky * 8) mod 2 ^ 32)%Z in
      let bitpos := (bp + rel * k + (x mod 8) * k) mod 2 ^ 32 in
      (* a wrapped bit position lies far outside SBValues: index out of range (decided here
         without walking the list to that index) *)
      if 8 * N.of_nat (length (b_vals b)) <=? bitpos then Panic else
      match get_packed (b_vals b) bitpos k with
      | Ok v =>
        if n <=? v then Panic                  (* stale scratch entries are not modelled *)
        else match nth_N (b_idx b) (ip + v) with
             | Some ix => Ok (mem ix inds)
             | None => Panic
             end
      | Err => Err
      | Panic => Panic
      end
  end.

(* maximal runs of [true] in a row: (start, length) *)
Fixpoint runs_from (row : list bool) (x : N) (cur : option (N * N)) : list (N * N) :=
  match row with
  | [] => match cur with Some r => [r] | None => [] end
  | f :: rest =>
    if f then runs_from rest (x + 1) (match cur with Some (s, l) => Some (s, l + 1) | None => Some (x, 1) end)
    else match cur with
         | Some r => r :: runs_from rest (x + 1) None
         | None => runs_from rest (x + 1) None
         end
  end.
Definition runs (row : list bool) : list (N * N) := runs_from row 0 None.

Definition run := (Z * Z * Z * N)%type.   (* start x y z in DVID space, length *)

Definition rows_runs (nx ny nz : N) (offx offy offz : Z) (fg : N -> N -> N -> res bool) : res (list run) :=
  match mapR (fun z => mapR (fun y =>
          match mapR (fun x => fg x y z) (nseq nx) with
          | Ok row => Ok (map (fun r => ((offx + Z.of_N (fst r))%Z, (offy + Z.of_N y)%Z, (offz + Z.of_N z)%Z, snd r)) (runs row))
          | Err => Err
          | Panic => Panic
          end) (nseq ny)) (nseq nz) with
  | Ok l => Ok (concat (concat l))
  | Err => Err
  | Panic => Panic
  end.

(* WriteRLEs for one block at block coordinate (bx,by,bz), runs in (z, y, x) order.
   (The Go code writes a run that reaches the end of its row only when the buffer is
   flushed, in map order: outputs are compared as sorted lists.) *)
Definition write_rles (local : bool) (b : block) (lbls : list N) (bx by_ bz : Z) : res (list run) :=
  let nx := 8 * b_gx b in let ny := 8 * b_gy b in let nz := 8 * b_gz b in
  let offx := (bx * Z.of_N nx)%Z in let offy := (by_ * Z.of_N ny)%Z in let offz := (bz * Z.of_N nz)%Z in
  let inds := label_indices (b_labels b) lbls in
  match inds with
  | [] => Ok []                                 (* block not written *)
  | _ =>
    match b_labels b with
    | [_] => rows_runs nx ny nz offx offy offz (fun _ _ _ => Ok true)       (* writeSolidBlockRLEs *)
    | _ =>
      if N.of_nat (length (b_nsb b)) <? b_gx b * b_gy b * b_gz b then Panic
      else rows_runs nx ny nz offx offy offz (fg_at local b inds offy offz)
    end
  end.

(* the same view of an uncompressed array *)
Definition rles_ref (a : list N) (gx gy gz : N) (lbls : list N) (bx by_ bz : Z) : res (list run) :=
  let nx := 8 * gx in let ny := 8 * gy in let nz := 8 * gz in
  if negb (existsb (fun l => mem l lbls) a) then Ok []
  else rows_runs nx ny nz (bx * Z.of_N nx)%Z (by_ * Z.of_N ny)%Z (bz * Z.of_N nz)%Z
         (fun x y z => match nth_N a ((z * ny + y) * nx + x) with Some l => Ok (mem l lbls) | None => Panic end).

(* ---------------- binary blocks ---------------- *)

Definition i32_bytes (v : Z) : bytes := le_enc 4 (Z.to_N (v mod 2 ^ 32)%Z).

(* labelIndices and hasBackground as WriteBinaryBlocks computes them: the scan of the label
   table stops at the first non-target label met once as many target slots as |lbls| were
   seen (so later slots, e.g. aliases of a target label left by a merge, are not collected) *)
Fixpoint bin_scan (labels lbls : list N) (i : N) (inds : list N) : list N * bool :=
  match labels with
  | [] => (rev inds, false)
  | l :: r =>
    if mem l lbls then bin_scan r lbls (i + 1) (i :: inds)
    else if N.of_nat (length inds) =? N.of_nat (length lbls) then (rev inds, true)
    else (fst (bin_scan r lbls (i + 1) inds), true)
  end.

(* 64 mask bytes, voxel i at bit (i mod 8) of byte i/8 (bitMask = 1 << i) *)
Fixpoint mask_bytes (fg : list bool) : bytes :=
  match fg with
  | b0 :: b1 :: b2 :: b3 :: b4 :: b5 :: b6 :: b7 :: r =>
    let v (b : bool) (w : N) := if b then w else 0 in
    (v b0 1 + v b1 2 + v b2 4 + v b3 8 + v b4 16 + v b5 32 + v b6 64 + v b7 128) :: mask_bytes r
  | _ => []
  end.

(* foreground flags of the 512 voxels of each sub-block, in stream order *)
Definition sb_fg (b : block) (inds : list N) (st : N * N) (n : N) : res (list bool * (N * N)) :=
  let '(ip, bp) := st in
  let k := bits_for n in
  if n =? 0 then Ok ([], (ip, bp))
  else if n =? 1 then
    match nth_N (b_idx b) ip with
    | Some ix => Ok (repeat (mem ix inds) 512%nat, (ip + 1, bp))
    | None => Panic
    end
  else
    match mapR (fun i => match get_packed (b_vals b) (bp + i * k) k with
                         | Ok v => if n <=? v then Panic
                                   else match nth_N (b_idx b) (ip + v) with
                                        | Some ix => Ok (mem ix inds)
                                        | None => Panic
                                        end
                         | Err => Err
                         | Panic => Panic
                         end) (nseq 512) with
    | Ok fg => Ok (fg, (ip + n, bp + 512 * k))
    | Err => Err
    | Panic => Panic
    end.

Fixpoint sbs_stream (b : block) (inds : list N) (st : N * N) (ns : list N) : res bytes :=
  match ns with
  | [] => Ok []
  | n :: r =>
    match sb_fg b inds st n with
    | Ok (fg, st') =>
      let out :=
        match fg with
        | [] => [0]
        | _ => if forallb (fun x => x) fg then [1]
               else if existsb (fun x => x) fg then 2 :: mask_bytes fg else [0]
        end in
      match sbs_stream b inds st' r with Ok rest => Ok (out ++ rest) | Err => Err | Panic => Panic end
    | Err => Err
    | Panic => Panic
    end
  end.

(* WriteBinaryBlocks for one block: 20-byte header, then the block *)
Definition write_binary (b : block) (mainLabel : N) (lbls : list N) (bx by_ bz : Z) : res bytes :=
  let nx := 8 * b_gx b in let ny := 8 * b_gy b in let nz := 8 * b_gz b in
  let '(inds, hasbg) := bin_scan (b_labels b) lbls 0 [] in
  match inds with
  | [] => Ok []
  | _ =>
    let hdr := le_enc 4 (b_gx b) ++ le_enc 4 (b_gy b) ++ le_enc 4 (b_gz b) ++ le_enc 8 mainLabel in
    let off := i32_bytes (bx * Z.of_N nx) ++ i32_bytes (by_ * Z.of_N ny) ++ i32_bytes (bz * Z.of_N nz) in
    if hasbg then
      if N.of_nat (length (b_nsb b)) <? b_gx b * b_gy b * b_gz b then Panic
      else
        match sbs_stream b inds (0, 0) (firstn (N.to_nat (b_gx b * b_gy b * b_gz b)) (b_nsb b)) with
        | Ok s => Ok (hdr ++ off ++ [2] ++ s)
        | Err => Err
        | Panic => Panic
        end
    else Ok (hdr ++ off ++ [1])
  end.

(* BinaryBlock.Read after the 20-byte header: the voxel mask in ZYX order *)
Fixpoint read_sbs (n : nat) (s : bytes) : res (list (list bool)) :=
  match n with
  | O => Ok []
  | S n' =>
    match s with
    | [] => Err
    | f :: r =>
      let cont (m : list bool) (rest : bytes) :=
        match read_sbs n' rest with Ok ms => Ok (m :: ms) | Err => Err | Panic => Panic end in
      if f =? 0 then cont (repeat false 512%nat) r
      else if f =? 1 then cont (repeat true 512%nat) r
      else if f =? 2 then
        if Nat.ltb (length r) 64 then Err
        else cont (flat_map (fun byte => map (fun i => N.testbit byte i) (nseq 8)) (firstn 64 r)) (skipn 64 r)
      else Err
    end
  end.

Definition assemble_b (sbs : list (list bool)) (gx gy gz : N) : res (list bool) :=
  let nx := 8 * gx in let ny := 8 * gy in
  mapR (fun p => let x := p mod nx in let y := (p / nx) mod ny in let z := p / (nx * ny) in
                 match nth_N sbs (sb_of gx gy x y z) with
                 | Some vox => opt_res (nth_N vox (loc_of x y z))
                 | None => Panic
                 end)
       (nseq (nx * ny * (8 * gz))).

Definition read_binary (s : bytes) : res (N * N * N * N * bytes * list bool) :=
  if Nat.ltb (length s) 33 then Err
  else
    let gx := le_dec (firstn 4 s) in let gy := le_dec (firstn 4 (skipn 4 s)) in
    let gz := le_dec (firstn 4 (skipn 8 s)) in let label := le_dec (firstn 8 (skipn 12 s)) in
    let off := firstn 12 (skipn 20 s) in
    let nvox := N.to_nat (8 * gx * (8 * gy) * (8 * gz)) in
    match nth_error s 32 with
    | Some 0 => Ok (gx, gy, gz, label, off, repeat false nvox)
    | Some 1 => Ok (gx, gy, gz, label, off, repeat true nvox)
    | Some 2 =>
      match read_sbs (N.to_nat (gx * gy * gz)) (skipn 33 s) with
      | Ok sbs => match assemble_b sbs gx gy gz with
                  | Ok m => Ok (gx, gy, gz, label, off, m)
                  | Err => Err | Panic => Panic end
      | Err => Err
      | Panic => Panic
      end
    | _ => Err
    end.

(* ---------------- several positioned blocks streamed to one writer ---------------- *)

(* one voxel row continuing a run held in the buffer: runs that end inside the row are written,
   a run reaching the end of the row stays open (rleBuf.rles[yz]) *)
Fixpoint scan_row (row : list bool) (vx : Z) (cur : option (Z * N)) : list (Z * N) * option (Z * N) :=
  match row with
  | [] => ([], cur)
  | f :: rest =>
    if f then scan_row rest (vx + 1)%Z (match cur with Some (s, l) => Some (s, l + 1) | None => Some (vx, 1) end)
    else let '(rs, c) := scan_row rest (vx + 1)%Z None in
         (match cur with Some r => r :: rs | None => rs end, c)
  end.

Definition rbuf := list (Z * Z * (Z * N)).     (* (vy, vz) -> open run (start x, length) *)

Fixpoint rbuf_get (bf : rbuf) (vy vz : Z) : option (Z * N) :=
  match bf with
  | [] => None
  | (y, z, r) :: rest => if Z.eqb y vy && Z.eqb z vz then Some r else rbuf_get rest vy vz
  end.
Definition rbuf_del (bf : rbuf) (vy vz : Z) : rbuf :=
  filter (fun e => let '(y, z, _) := e in negb (Z.eqb y vy && Z.eqb z vz)) bf.
Definition rbuf_runs (bf : rbuf) : list run := map (fun e => let '(y, z, (x, l)) := e in (x, y, z, l)) bf.

(* pb.writeRLEs (repaired coordinates) for every row of the block, threading the buffer *)
Definition block_rows (b : block) (inds : list N) (offx offy offz : Z) (bf : rbuf) : res (list run * rbuf) :=
  let nx := 8 * b_gx b in let ny := 8 * b_gy b in let nz := 8 * b_gz b in
  let fg := match b_labels b with
            | [_] => fun _ _ _ => Ok true
            | _ => fg_at true b inds offy offz
            end in
  if match b_labels b with [_] => false | _ => N.of_nat (length (b_nsb b)) <? b_gx b * b_gy b * b_gz b end then Panic
  else
    fold_left (fun (acc : res (list run * rbuf)) (zy : N * N) =>
      match acc with
      | Ok (out, bf) =>
        let '(z, y) := zy in
        let vy := (offy + Z.of_N y)%Z in let vz := (offz + Z.of_N z)%Z in
        match mapR (fun x => fg x y z) (nseq nx) with
        | Ok row =>
          let '(closed, open) := scan_row row offx (rbuf_get bf vy vz) in
          let bf' := rbuf_del bf vy vz in
          Ok (out ++ map (fun r : Z * N => (fst r, vy, vz, snd r)) closed,
              match open with Some r => (vy, vz, r) :: bf' | None => bf' end)
        | Err => Err | Panic => Panic
        end
      | Err => Err | Panic => Panic
      end)
      (flat_map (fun z => map (fun y => (z, y)) (nseq ny)) (nseq nz)) (Ok ([], bf)).

(* WriteRLEs over a stream of positioned blocks: a block holding none of the labels is skipped
   without touching the buffer; the buffer survives into the next label-holding block only if
   that block is the +X neighbour of the previous label-holding one *)
Fixpoint write_rles_multi (blocks : list (block * (Z * Z * Z))) (lbls : list N)
         (last : option (Z * Z * Z)) (bf : rbuf) (out : list run) : res (list run) :=
  match blocks with
  | [] => Ok (out ++ rbuf_runs bf)
  | (b, (bx, by_, bz)) :: rest =>
    let inds := label_indices (b_labels b) lbls in
    match inds with
    | [] => write_rles_multi rest lbls last bf out
    | _ =>
      let contiguous := match last with
                        | None => true
                        | Some (lx, ly, lz) => Z.eqb (lx + 1) bx && Z.eqb ly by_ && Z.eqb lz bz
                        end in
      let out1 := if contiguous then out else out ++ rbuf_runs bf in
      let bf1 := if contiguous then bf else [] in
      let offx := (bx * Z.of_N (8 * b_gx b))%Z in let offy := (by_ * Z.of_N (8 * b_gy b))%Z in
      let offz := (bz * Z.of_N (8 * b_gz b))%Z in
      match block_rows b inds offx offy offz bf1 with
      | Ok (emitted, bf2) => write_rles_multi rest lbls (Some (bx, by_, bz)) bf2 (out1 ++ emitted)
      | Err => Err | Panic => Panic
      end
    end
  end.

(* WriteBinaryBlocks over a stream: the 20-byte header once, before the first written block *)
Fixpoint write_binary_multi (blocks : list (block * (Z * Z * Z))) (mainLabel : N) (lbls : list N)
         (written : bool) : res bytes :=
  match blocks with
  | [] => Ok []
  | (b, (bx, by_, bz)) :: rest =>
    match write_binary b mainLabel lbls bx by_ bz with
    | Ok o =>
      match write_binary_multi rest mainLabel lbls (written || negb (Nat.eqb (length o) 0)) with
      | Ok r => Ok ((if written then skipn 20 o else o) ++ r)
      | Err => Err | Panic => Panic
      end
    | Err => Err | Panic => Panic
    end
  end.
