(* Model.GeomRun: case type and executable checkers for Run/cases_C18.v (no proofs).
   model_ok  : the implementation's output equals the model's on the same input;
   spec_class: the property itself, decided on the implementation's output alone. *)
From DV Require Import Base.Prelude Base.Int Base.WrapZ Gen.Consts Model.Geometry Model.RLE Model.ROI Model.RLE2 Model.IZYX Model.ROIPart.
Local Open Scope Z_scope.

Definition zb (b : bytes) : list Z := map Z.of_N b.
Definition pt_res_eqb (a b : res pt) : bool :=
  match a, b with Ok p, Ok q => pt_eqb p q | Err, Err => true | Panic, Panic => true | _, _ => false end.
Definition zlist_eqb (a b : list Z) : bool := list_eqb Z.eqb a b.
Definition rles_eqb (a b : list rle) : bool := list_eqb rle_eqb a b.
Definition bools_eqb (a b : list bool) : bool := list_eqb Bool.eqb a b.
Definition span_eqb (a b : span) : bool :=
  (sz a =? sz b) && (sy a =? sy b) && (sx0 a =? sx0 b) && (sx1 a =? sx1 b).
Definition res_eqb {A} (eqb : A -> A -> bool) (a b : res A) : bool :=
  match a, b with Ok x, Ok y => eqb x y | Err, Err => true | Panic, Panic => true | _, _ => false end.
Definition cmp_code (c : comparison) : Z := match c with Lt => -1 | Eq => 0 | Gt => 1 end.

(* ---- decidable preconditions ---- *)
Definition run_okb (r : rle) : bool :=
  (- 536870912 <=? rx r) && (1 <=? rlen r) && (rx r + rlen r <=? 536870912)
  && (- 1073741824 <=? ry r) && (ry r <? 1073741824) && (- 1073741824 <=? rz r) && (rz r <? 1073741824).
Definition overlapb (a b : rle) : bool :=
  (ry a =? ry b) && (rz a =? rz b) && (rx a <? rx b + rlen b) && (rx b <? rx a + rlen a).
Fixpoint disjointb (l : list rle) : bool :=
  match l with [] => true | r :: t => negb (existsb (overlapb r) t) && disjointb t end.
Definition size_okb (s : pt) : bool :=
  (1 <=? px s) && (px s <=? 1073741824) && (1 <=? py s) && (py s <=? 1073741824)
  && (1 <=? pz s) && (pz s <=? 1073741824).
Definition starts_distinct (l : list rle) : bool :=
  let fix go l := match l with
                  | [] => true
                  | r :: t => negb (existsb (fun q => (rx r =? rx q) && (ry r =? ry q) && (rz r =? rz q)) t) && go t
                  end in go l.

(* two unions of runs are equal iff they agree next to every run end *)
Definition probes (l : list rle) : list pt :=
  flat_map (fun r => [(rx r - 1, ry r, rz r); (rx r, ry r, rz r);
                      (rx r + rlen r - 1, ry r, rz r); (rx r + rlen r, ry r, rz r)]) l.
Definition agree_on (ps : list pt) (f g : pt -> bool) : bool := forallb (fun p => Bool.eqb (f p) (g p)) ps.
Definition same_voxels (a b : list rle) : bool :=
  agree_on (probes (a ++ b)) (fun p => inrs p a) (fun p => inrs p b).
Definition subsetb (s l : list rle) : bool :=
  forallb (fun p => implb (inrs p s) (inrs p l)) (probes (s ++ l)).

(* sorted by (z,y,x), runs of one row separated by at least one voxel *)
Fixpoint canonb (l : list rle) : bool :=
  match l with
  | a :: ((b :: _) as t) =>
    ((rz a <? rz b) || ((rz a =? rz b) && ((ry a <? ry b) || ((ry a =? ry b) && (rx a + rlen a <? rx b)))))
    && canonb t
  | _ => true
  end.

Definition floor_chunk (p s : pt) : pt := (px p / px s, py p / py s, pz p / pz s).
Definition pt_safeb (p : pt) : bool :=
  (- 1073741824 <=? px p) && (px p <? 1073741824) && (- 1073741824 <=? py p) && (py p <? 1073741824)
  && (- 1073741824 <=? pz p) && (pz p <? 1073741824).

Definition bounds_probes (b : option obounds) : list pt :=
  match b with
  | None => []
  | Some ob =>
    let xs := match minx ob with Some v => [v - 1; v] | None => [] end ++ match maxx ob with Some v => [v; v + 1] | None => [] end in
    map (fun x => (x, 0, 0)) xs
  end.

Definition span_okb (s : span) : bool :=
  (- 1048576 <? sz s) && (sz s <? 1048576) && (- 1048576 <? sy s) && (sy s <? 1048576)
  && (- 1048576 <? sx0 s) && (sx0 s <=? sx1 s) && (sx1 s <? 1048576).
Definition span_keyle (a b : span) : bool :=   (* strict (z, y, x0, x1) order *)
  (sz a <? sz b) || ((sz a =? sz b) && ((sy a <? sy b) || ((sy a =? sy b) &&
  ((sx0 a <? sx0 b) || ((sx0 a =? sx0 b) && (sx1 a <? sx1 b)))))).
Fixpoint spans_sortedb (l : list span) : bool :=
  match l with a :: ((b :: _) as t) => span_keyle a b && spans_sortedb t | _ => true end.
Fixpoint span_insert (s : span) (l : list span) : list span :=
  match l with
  | [] => [s]
  | h :: t => if span_keyle s h then s :: l else if span_eqb s h then l else h :: span_insert s t
  end.
Definition span_sort_dedup (l : list span) : list span := fold_right span_insert [] l.
Definition small_block_ok (bs : pt) : bool :=
  (1 <=? px bs) && (px bs <=? 1024) && (1 <=? py bs) && (py bs <=? 1024) && (1 <=? pz bs) && (pz bs <=? 1024).

(* ---- cases ---- *)
Inductive c18case :=
(* IndexZYX.Bytes / Point3d.ToZYXBytes / ToIZYXString (agree: the three spellings gave the same bytes)
   and IndexFromBytes / FromZYXBytes / IZYXString.Unpack of those bytes *)
| KZyx (p : pt) (b : bytes) (agree : bool) (dec : res pt)
| KDecode (b : bytes) (dec : res pt)
| KCmp (p q : pt) (c : Z)                       (* bytes.Compare of the two keys *)
| KOrder (sorted_by_key : list pt)              (* points sorted by Go on their IZYXString *)
| KBlk (p : pt) (code : Z) (dec : pt) (izyx : res pt) (via_izyx : Z)
| KBlkCode (w : Z) (dec : pt) (re : Z)
| KChunk (p size : pt) (c : res pt)
| KNorm (l out : list rle)
| KExcise (r s : rle) (out : option (list rle))
| KSplit (l s : list rle) (out : res (list rle))
| KPart (l : list rle) (size : pt) (out : res (list (pt * list rle)))   (* blocks sorted by key *)
| KFit (l : list rle) (b : option obounds) (out : list rle)
| KAdd (l l2 out : list rle) (added : Z)
| KMarshal (l : list rle) (enc : bytes) (dec : res (list rle)) (one : bool)
| KUnmarshal (enc : bytes) (dec : res (list rle))
| KRead (stream : bytes) (dec : res (list rle))
| KRoiGet (posted got : list span)
| KPtq (bs : pt) (spans : list span) (pts : list pt) (ans : res (list bool))
| KMask (bs offset size : pt) (spans : list span) (mask : res (list bool))
| KVbi (vmin vmax bs : pt) (spans : list span) (ans : res bool)
(* a set of n items stored / streamed at a size next to an internal batch or preallocation size
   [bound] (read from the Go source): how many came back, the first one that did not (its
   ordinal), and whether the membership probes on the first and last items answered true *)
| KBoundary (what : nat) (n bound got : Z) (first_missing : option Z) (probes : bool)
(* round 4: RLEs.Within (indices sorted by the driver), Offset, Stats *)
| KWithin (l : list rle) (pts : list pt) (idx : list Z)
| KOffset (l : list rle) (d : pt) (out : list rle)
| KStats (l : list rle) (nvox nruns : Z)
(* IZYXSlice operations on decoded keys; op: 0 Merge, 1 MergeCopy, 2 Delete, 3 Split *)
| KIzyx (op : nat) (a b out : list pt)
| KIFit (l : list pt) (b : option obounds) (out : list pt)
| KIDown (l : list pt) (scale : Z) (out : list pt)
| KIBounds (l : list pt) (mn mx : pt)
(* GET <roi>/partition?batchsize=bsz (SimplePartition) of an instance holding [spans] (as GET roi
   returned them): the reported subvolumes, NumSubvolumes, NumActiveBlocks *)
| KRoiPart (bsz : Z) (spans : list span) (vs : list subvol) (nsub nactive : Z).

Definition pts_eqb (a b : list pt) : bool := list_eqb pt_eqb a b.
Definition memb (p : pt) (l : list pt) : bool := existsb (pt_eqb p) l.
Definition izyx_model (op : nat) (a b : list pt) : list pt :=
  match op with
  | 0%nat => imerge a b
  | 1%nat => merge_copy a b
  | 2%nat => idelete a b
  | _ => isplit a b
  end.
(* set-level oracles, written without the models *)
Definition within_expected (l : list rle) (pts : list pt) : list Z :=
  map (fun ip => Z.of_nat (fst ip)) (filter (fun ip => inrs (snd ip) l) (combine (seq 0 (length pts)) pts)).
Definition set_op_ok (op : nat) (a b out : list pt) : bool :=
  ssorted out
  && forallb (fun p => Bool.eqb (memb p out)
                         (match op with
                          | 0%nat | 1%nat => memb p a || memb p b
                          | _ => memb p a && negb (memb p b)
                          end)) (a ++ b ++ out).
Definition min_list (d : Z) (l : list Z) : Z := fold_right Z.min d l.
Definition max_list (d : Z) (l : list Z) : Z := fold_right Z.max d l.
Definition bbox_ok (l : list pt) (mn mx : pt) : bool :=
  match l with
  | [] => pt_eqb mn (0, 0, 0) && pt_eqb mx (0, 0, 0)
  | p :: _ =>
    pt_eqb mn (min_list (px p) (map px l), min_list (py p) (map py l), min_list (pz p) (map pz l))
    && pt_eqb mx (max_list (px p) (map px l), max_list (py p) (map py l), max_list (pz p) (map pz l))
  end.
Definition coords_from (lo : Z) (p : pt) : bool :=
  pt_is32b p && (lo <=? px p) && (lo <=? py p) && (lo <=? pz p).

Definition bmap_eqb (m : bmap) (go : list (pt * list rle)) : bool :=
  Nat.eqb (length m) (length go)
  && forallb (fun e => match bmap_get m (fst e) with Some rs => rles_eqb rs (snd e) | None => false end) go.

(* which GetMask the implementation corresponds to: the code as it stands or the repaired one *)
Definition mask_model_ok (bs offset size : pt) (spans : list span) (mask : res (list bool)) : bool :=
  res_eqb bools_eqb (get_mask true bs offset size spans) mask
  || res_eqb bools_eqb (get_mask false bs offset size spans) mask.

Definition model_ok (c : c18case) : bool :=
  match c with
  | KZyx p b agree dec =>
    agree && res_eqb zlist_eqb (to_zyx p) (Ok (zb b)) && pt_res_eqb (from_zyx (zb b)) dec
  | KDecode b dec => pt_res_eqb (from_zyx (zb b)) dec
  | KCmp p q c =>
    match to_zyx p, to_zyx q with Ok a, Ok b => cmp_code (bytes_cmp a b) =? c | _, _ => false end
  | KOrder l =>
    let fix go l := match l with
                    | a :: ((b :: _) as t) =>
                      match to_zyx a, to_zyx b with
                      | Ok ka, Ok kb => match bytes_cmp ka kb with Gt => false | _ => go t end
                      | _, _ => false
                      end
                    | _ => true
                    end in go l
  | KBlk p code dec izyx via =>
    (encode_block_index p =? code) && pt_eqb (decode_block_index code) dec
    && block_index_to_izyx_via_ok
    && pt_res_eqb (match block_index_to_izyx code with Ok k => from_zyx k | Err => Err | Panic => Panic end) izyx
    && (via =? code)
  | KBlkCode w dec re => pt_eqb (decode_block_index w) dec && (encode_block_index dec =? re)
  | KChunk p size c => pt_res_eqb (chunk_pt p size) c
  | KNorm l out => if starts_distinct l then rles_eqb (normalize l) out else true
  | KExcise r s out =>
    match excise r s, out with
    | None, None => true
    | Some a, Some b => rles_eqb a b
    | _, _ => false
    end
  | KSplit l s out =>
    if starts_distinct l && starts_distinct s then res_eqb rles_eqb (split l s) out else true
  | KPart l size out => res_eqb bmap_eqb (partition l size) out
  | KFit l b out => rles_eqb (fit_to_bounds l b) out || rles_eqb (fit_to_bounds_orig l b) out
  | KAdd l l2 out added =>
    rles_eqb (fst (add l l2)) out && ((snd (add l l2) =? added) || (snd (add_orig l l2) =? added))
  | KMarshal l enc dec one =>
    bytes_eqb (marshal l) enc && res_eqb rles_eqb (unmarshal enc) dec && one
  | KUnmarshal enc dec => res_eqb rles_eqb (unmarshal enc) dec
  | KRead s dec => res_eqb rles_eqb (read_rles s) dec
  | KRoiGet posted got => list_eqb span_eqb (span_sort_dedup posted) got
  | KPtq bs spans pts ans => res_eqb bools_eqb (point_query bs spans pts) ans
  | KMask bs offset size spans mask => mask_model_ok bs offset size spans mask
  | KVbi vmin vmax bs spans ans => res_eqb Bool.eqb (voxel_bounds_inside vmin vmax bs spans) ans
  | KBoundary _ n _ got fm probes => true
  | KWithin l pts idx => zlist_eqb (map Z.of_nat (within l pts)) idx
  | KOffset l d out => rles_eqb (offset l d) out
  | KStats l nv nr => (fst (stats l) =? nv) && (snd (stats l) =? nr)
  | KIzyx op a b out => pts_eqb (izyx_model op a b) out
  | KIFit l b out => pts_eqb (ifit l b) out
  | KIDown l s out => pts_eqb (downres l s) out
  | KIBounds l mn mx =>
    (pt_eqb (fst (get_bounds l)) mn && pt_eqb (snd (get_bounds l)) mx)
    || (pt_eqb (fst (get_bounds_fixed l)) mn && pt_eqb (snd (get_bounds_fixed l)) mx)
  | KRoiPart _ _ _ _ _ => true
  end.

(* the number of voxels Add really adds: counted voxel by voxel *)
Definition count_new (l : list rle) (r : rle) : Z :=
  Z.of_nat (length (filter (fun i => negb (inrs (rx r + Z.of_nat i, ry r, rz r) l)) (seq 0 (Z.to_nat (rlen r))))).
Fixpoint add_expected (l l2 : list rle) : Z :=
  match l2 with
  | [] => 0
  | r :: t => count_new l r + add_expected (l ++ [r]) t
  end.
Definition cls (b : bool) (k : nat) : nat := if b then 0%nat else k.
Definition pre_runs (l : list rle) : bool := forallb run_okb l && disjointb l.

Definition spec_class (c : c18case) : nat :=
  match c with
  | KZyx p b agree dec =>
    if pt_is32b p then
      if agree && Nat.eqb (length b) 12 && pt_res_eqb dec (Ok p) then 0%nat else 1%nat
    else 0%nat
  | KDecode b dec => if is_panic dec then 17%nat else 0%nat
  | KCmp p q c => if pt_is32b p && pt_is32b q then cls (c =? cmp_code (zyx_cmp p q)) 2%nat else 0%nat
  | KOrder l =>
    let fix go l := match l with
                    | a :: ((b :: _) as t) => match zyx_cmp a b with Gt => false | _ => go t end
                    | _ => true
                    end in if go l then 0%nat else 2%nat
  | KBlk p code dec izyx via =>
    if in_blockindex_rangeb (px p) && in_blockindex_rangeb (py p) && in_blockindex_rangeb (pz p)
    then cls (pt_eqb dec p && pt_res_eqb izyx (Ok p) && (via =? code)) 3%nat
    else 0%nat
  | KBlkCode w dec re => 0%nat
  | KChunk p size c =>
    if pt_safeb p && size_okb size
    then cls (pt_res_eqb c (Ok (floor_chunk p size))) 4%nat
    else 0%nat
  | KNorm l out =>
    if forallb run_okb l then
      if same_voxels l out && (negb (disjointb l) || canonb out) then 0%nat else 5%nat
    else 0%nat
  | KExcise r s out =>
    if run_okb r && run_okb s then
      match out with
      | None => if overlapb r s then 12%nat else 0%nat
      | Some o =>
        if overlapb r s
           && agree_on (probes (r :: s :: o)) (fun p => inrs p o) (fun p => inr p r && negb (inr p s))
        then 0%nat else 12%nat
      end
    else 0%nat
  | KSplit l s out =>
    if pre_runs l && pre_runs s && subsetb s l then
      match out with
      | Ok o => if agree_on (probes (l ++ s ++ o)) (fun p => inrs p o) (fun p => inrs p l && negb (inrs p s))
                then 0%nat else 6%nat
      | Err => 6%nat
      | Panic => 17%nat
      end
    else if is_panic out then 17%nat else 0%nat
  | KPart l size out =>
    if forallb run_okb l && size_okb size then
      match out with
      | Ok m =>
        let all := flat_map snd m in
        if same_voxels l all
           && (num_voxels all =? num_voxels l)
           && forallb (fun e => forallb (fun r => (1 <=? rlen r)
                                  && pt_eqb (floor_chunk (rx r, ry r, rz r) size) (fst e)
                                  && pt_eqb (floor_chunk (rx r + rlen r - 1, ry r, rz r) size) (fst e)) (snd e)) m
           && (let fix nodup (ks : list pt) := match ks with
                                               | [] => true
                                               | k :: t => negb (existsb (pt_eqb k) t) && nodup t
                                               end in nodup (map fst m))
        then 0%nat else 9%nat
      | Err => 9%nat
      | Panic => 17%nat
      end
    else 0%nat
  | KFit l b out =>
    if forallb run_okb l then
      if agree_on (probes (l ++ out) ++ flat_map (fun p => map (fun r => (px p, ry r, rz r)) l) (bounds_probes b))
                  (fun p => inrs p out) (fun p => inrs p l && inside_opt b p)
      then 0%nat
      else match b with None => 7%nat | Some _ => 8%nat end
    else 0%nat
  | KAdd l l2 out added =>
    if forallb run_okb l && forallb run_okb l2 then
      if agree_on (probes (l ++ l2 ++ out)) (fun p => inrs p out) (fun p => inrs p l || inrs p l2)
      then (if added =? add_expected l l2 then 0%nat else 18%nat) else 10%nat
    else 0%nat
  | KMarshal l enc dec one =>
    if forallb (fun r => is32b (rx r) && is32b (ry r) && is32b (rz r) && is32b (rlen r)) l
    then cls (res_eqb rles_eqb dec (Ok l) && one) 11%nat else 0%nat
  | KUnmarshal enc dec => if is_panic dec then 17%nat else 0%nat
  | KRead s dec => if is_panic dec then 17%nat else 0%nat
  | KRoiGet posted got =>
    if forallb span_okb posted then
      if spans_sortedb got
         && forallb (fun s => existsb (span_eqb s) got) posted
         && forallb (fun s => existsb (span_eqb s) posted) got
      then 0%nat else 13%nat
    else 0%nat
  | KPtq bs spans pts ans =>
    if small_block_ok bs && forallb span_okb spans && spans_sortedb spans && forallb pt_safeb pts then
      match ans with
      | Ok a => if bools_eqb a (map (fun p => in_spans (floor_chunk p bs) spans) pts) then 0%nat else 14%nat
      | Err => 14%nat
      | Panic => 17%nat
      end
    else 0%nat
  | KMask bs offset size spans mask =>
    if small_block_ok bs && forallb span_okb spans && spans_sortedb spans && pt_safeb offset
       && (1 <=? px size) && (px size <=? 64) && (1 <=? py size) && (py size <=? 64)
       && (1 <=? pz size) && (pz size <=? 64) then
      match mask with
      | Ok m =>
        if bools_eqb m (map (fun v => in_spans (floor_chunk (px offset + px v, py offset + py v, pz offset + pz v) bs) spans)
                            (mask_voxels size))
        then 0%nat else 15%nat
      | Err => 15%nat
      | Panic => 17%nat
      end
    else 0%nat
  | KVbi vmin vmax bs spans ans =>
    if small_block_ok bs && forallb span_okb spans && spans_sortedb spans && pt_safeb vmin && pt_safeb vmax then
      match ans with
      | Ok a => if Bool.eqb a (existsb (span_intersects_box (floor_chunk vmin bs) (floor_chunk vmax bs)) spans)
                then 0%nat else 16%nat
      | Err => 16%nat
      | Panic => 17%nat
      end
    else 0%nat
  | KBoundary _ n bound got fm probes =>
    if (got =? n) && (match fm with None => true | Some _ => false end) && probes then 0%nat else 19%nat
  | KWithin l pts idx =>
    if forallb run_okb l then cls (zlist_eqb idx (within_expected l pts)) 20%nat else 0%nat
  | KOffset l d out =>
    if forallb run_okb l && pt_safeb d then
      cls (zlist_eqb (map rlen out) (map rlen l)
           && agree_on (probes out ++ map (fun p => (px p - px d, py p - py d, pz p - pz d)) (probes l))
                       (fun p => inrs p out) (fun p => inrs (padd3 p d) l)) 21%nat
    else 0%nat
  | KStats l nv nr =>
    if forallb run_okb l && disjointb l && (num_voxels l <=? 100000)
    then cls ((nv =? add_expected [] l) && (nr =? Z.of_nat (length l))) 22%nat else 0%nat
  | KIzyx op a b out =>
    if ssorted a && ssorted b && forallb pt_is32b (a ++ b)
    then cls (set_op_ok op a b out) (match op with 0%nat | 1%nat => 23%nat | _ => 24%nat end) else 0%nat
  | KIFit l b out =>
    if ssorted l && forallb pt_is32b l
    then cls (ssorted out && forallb (fun p => Bool.eqb (memb p out) (memb p l && inside_opt b p)) (l ++ out)) 25%nat
    else 0%nat
  | KIDown l s out =>
    if forallb pt_is32b l && (0 <=? s) then
      cls (((s =? 0) || ssorted out)
           && forallb (fun p => memb (px p / 2 ^ s, py p / 2 ^ s, pz p / 2 ^ s) out) l
           && forallb (fun q => existsb (fun p => pt_eqb q (px p / 2 ^ s, py p / 2 ^ s, pz p / 2 ^ s)) l) out) 26%nat
    else 0%nat
  | KIBounds l mn mx =>
    if forallb (coords_from (-2147483646)) l then cls (bbox_ok l mn mx) 27%nat else 0%nat
  | KRoiPart bsz spans vs nsub nactive =>
    if forallb span_okb spans && spans_sortedb spans && spans_disjointb spans && (1 <=? bsz) then
      if boxes_disjointb vs && tiles_ok spans vs && counts_ok spans vs
         && forallb (fun v => (px (vmax v) - px (vmin v) + 1 =? bsz) && (py (vmax v) - py (vmin v) + 1 =? bsz)
                              && (pz (vmax v) - pz (vmin v) + 1 =? bsz)) vs
         && (nsub =? Z.of_nat (length vs)) && (nactive =? Z.of_nat (length (roi_blocks spans)))
      then 0%nat
      else if has_z_gap bsz spans then 29%nat else 28%nat
    else 0%nat
  end.

Fixpoint classify_from (i : nat) (l : list c18case) : list (nat * nat) :=
  match l with
  | [] => []
  | c :: r => let k := spec_class c in
              if Nat.eqb k 0 then classify_from (S i) r else (i, k) :: classify_from (S i) r
  end.
Definition c18_spec_fail (l : list c18case) : list (nat * nat) := classify_from 0 l.
Definition c18_model_mismatch (l : list c18case) : list nat := find_idx (fun c => negb (model_ok c)) l.

(* compact constructors for the generated cases file *)
Definition rl (l : list (Z * Z * Z * Z)) : list rle :=
  map (fun q => match q with (x, y, z, n) => R x y z n end) l.
Definition svl (l : list (pt * pt * Z * Z)) : list subvol :=
  map (fun q => match q with (mn, mx, t, a) => SV mn mx t a end) l.
Definition spl (l : list (Z * Z * Z * Z)) : list span :=
  map (fun q => match q with (z, y, x0, x1) => SP z y x0 x1 end) l.
(* a string of '0'/'1' characters as a list of booleans *)
From Coq Require Import String Ascii.
Fixpoint bits (s : string) : list bool :=
  match s with
  | EmptyString => []
  | String a r => (N.eqb (N_of_ascii a) 49) :: bits r
  end.
