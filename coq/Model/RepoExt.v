(* Model.RepoExt: the repo-level operations that Model.Repo left out, as further requests of the
   same state machine (definitions only):

     hide-branch   datastore/repo_local.go hideBranch   (rpc "repo <uuid> hide-branch <name>")
     make-master   datastore/repo_local.go makeMaster   (rpc "repo <uuid> make-master <old-master-name>")
     POST /api/repo/<uuid>/info   server/web.go repoPostInfoHandler -> setRepoAlias / setRepoDescription

   The request type of Model.Repo is wrapped, not extended: [xreq] = a request of Model.Repo or one
   of the three new ones, [xstep] runs [step] on the former.  (Model.RepoCore's simulation theorems
   are stated over [req]; hide-branch removes versions, which the key-value core has no operation
   for, so those theorems stay about [req].)

   [xfixes]: hideBranch as found ([xf_hide_closed] = false) deletes every node that carries the
   branch name and prunes the children lists of the survivors, but not their parents lists: a node
   that was branched off (or merged from) the hidden branch keeps a parent that no longer exists.
   Repaired (repo_patches/C07-8): the request is refused when a node outside the branch has a parent
   on it.  makeMaster is modelled as found only (see the notes: its repair is a pre-validation walk,
   not proved here). *)
From DV Require Import Base.Prelude Gen.RepoFacts Model.Repo Model.RepoInv.
From Coq Require Import String Ascii.
From stdpp Require Import gmap strings.
Local Open Scope string_scope.

Record xfixes := mkX { xf_hide_closed : bool }.
Definition x_found : xfixes := mkX false.
Definition x_repaired : xfixes := mkX true.

(* ---- hideBranch ---- *)
(* v is a node that carries branch name b *)
Definition has_branch (nodes : gmap vid node) (b : string) (v : vid) : bool :=
  match nodes !! v with Some n => String.eqb (n_branch n) b | None => false end.

(* "children = the children not in del_set" (del_set = the versions whose node has the name) *)
Definition prune (nodes : gmap vid node) (b : string) (n : node) : node :=
  mkNode (n_uuid n) (n_parents n) (List.filter (fun c => negb (has_branch nodes b c)) (n_children n))
         (n_branch n) (n_locked n).

Definition hide_nodes (b : string) (nodes : gmap vid node) : gmap vid node :=
  prune nodes b <$> filter (fun kv => n_branch (snd kv) <> b) nodes.

(* del_uuid := m.versionToUUID[v] (the zero value "" when absent); delete versionToUUID[v],
   uuidToVersion[del_uuid], m.repos[del_uuid] *)
Definition drop_id (s : state) (v : vid) : state :=
  let du := match st_v2u s !! v with Some x => x | None => "" end in
  mkState (st_repos s) (delete du (st_repo_of s)) (st_roots s) (delete du (st_u2v s))
          (delete v (st_v2u s)) (st_heads s) (st_next_v s) (st_next_r s) (st_next_i s).
Definition drop_ids (s : state) (vs : list vid) : state := fold_left drop_id vs s.

Definition branch_versions (r : repo) (b : string) : list vid :=
  List.map fst (List.filter (fun x => String.eqb (n_branch (snd x)) b) (nodes_list r)).

(* a node outside the branch has a parent on it (the repaired code refuses then) *)
Definition hide_open (r : repo) (b : string) : bool :=
  existsb (fun x => negb (String.eqb (n_branch (snd x)) b) &&
                    existsb (has_branch (r_nodes r) b) (n_parents (snd x))) (nodes_list r).

Definition do_hide_branch (xf : xfixes) (s : state) (u : uuid) (b : string) : state * outcome uuid :=
  if String.eqb b "" then (s, Fail) else
  match st_repo_of s !! u with
  | None => (s, Fail)
  | Some i =>
    match st_repos s !! i with
    | None => (s, Fail)
    | Some r =>
      if xf_hide_closed xf && hide_open r b then (s, Fail) else
      let s1 := drop_ids s (branch_versions r b) in
      (recache (upd_repo s1 i (upd_nodes (hide_nodes b))) i, Done u)
    end
  end.

(* ---- makeMaster ---- *)
Definition set_branch (b : string) (n : node) : node :=
  mkNode (n_uuid n) (n_parents n) (n_children n) b (n_locked n).

(* repoT.getChildBranchNode: None = ErrInvalidVersion (the parent is no node); Some None = no child
   with that branch name; else the first child, in the order of the children list, that is a node
   carrying the name *)
Definition child_on (nodes : gmap vid node) (pv : vid) (b : string) : option (option vid) :=
  match nodes !! pv with
  | None => None
  | Some p => Some (List.find (has_branch nodes b) (n_children p))
  end.

(* "for { node.branch = newname; child := getChildBranchNode(node.version, follow); if child == nil
   { break }; node = child }" -- every pass renames one node away from [follow], so the Go loop ends
   after at most |nodes| passes; the model's fuel is |nodes| + 1 and running out is Hang *)
Fixpoint rename_chain (fuel : nat) (nodes : gmap vid node) (v : vid) (follow newname : string)
  : gmap vid node * outcome unit :=
  match fuel with
  | O => (nodes, Hang)
  | S f =>
    let nodes1 := alter (set_branch newname) v nodes in
    match child_on nodes1 v follow with
    | None => (nodes1, Fail)
    | Some None => (nodes1, Done tt)
    | Some (Some c) => rename_chain f nodes1 c follow newname
    end
  end.

Definition do_make_master (s : state) (u : uuid) (name : string) : state * outcome uuid :=
  if String.eqb name "" then (s, Fail) else
  match st_repo_of s !! u with
  | None => (s, Fail)
  | Some i =>
    match st_repos s !! i with
    | None => (s, Fail)
    | Some r =>
      match st_u2v s !! u with
      | None => (s, Fail)
      | Some v =>
        match r_nodes r !! v with
        | None => (s, Fail)
        | Some n =>
          if String.eqb (n_branch n) "" then (s, Fail) else
          match n_parents n with
          | [] => (s, Fail)
          | p :: _ =>
            match child_on (r_nodes r) p "" with
            | None | Some None => (s, Fail)
            | Some (Some old) =>
              let fuel := S (size (r_nodes r)) in
              let put m := upd_repo s i (upd_nodes (fun _ => m)) in
              match rename_chain fuel (r_nodes r) old "" name with
              | (m1, Done _) =>
                match rename_chain fuel m1 v (n_branch n) "" with
                | (m2, Done _) => (recache (put m2) i, Done u)
                | (m2, o) => (put m2, recast o)
                end
              | (m1, o) => (put m1, recast o)
              end
            end
          end
        end
      end
    end
  end.

(* ---- requests ---- *)
Inductive xreq :=
| XB (r : req)                                  (* a request of Model.Repo *)
| XRepoInfo (u : uref)                          (* POST /api/repo/u/info {"alias":..,"description":..} *)
| XHideBranch (u : uref) (branch : string)      (* rpc: repo u hide-branch branch *)
| XMakeMaster (u : uref) (name : string).       (* rpc: repo u make-master name *)

Definition xstep (fx : fixes) (xf : xfixes) (s : state) (r : xreq) : state * outcome uuid :=
  match r with
  | XB r0 => step fx s r0
  | XRepoInfo u => h_repo_post s u      (* alias and description are not part of the modelled state *)
  | XHideBranch u b => h_rpc s u (fun uu => do_hide_branch xf s uu b)
  | XMakeMaster u nm => h_rpc s u (fun uu => do_make_master s uu nm)
  end.

Definition xrun (fx : fixes) (xf : xfixes) (s : state) (rs : list xreq) : state :=
  fold_left (fun s r => fst (xstep fx xf s r)) rs s.

Definition xfresh_of (r : xreq) : list string := match r with XB r0 => fresh_of r0 | _ => [] end.
Definition xoracle_ok (s : state) (r : xreq) : Prop :=
  NoDup (xfresh_of r) /\ Forall (fresh_ok s) (xfresh_of r).
Fixpoint xoracles_ok (fx : fixes) (xf : xfixes) (s : state) (rs : list xreq) : Prop :=
  match rs with
  | [] => True
  | r :: rest => xoracle_ok s r /\ xoracles_ok fx xf (fst (xstep fx xf s r)) rest
  end.

Definition is_make_master (r : xreq) : bool := match r with XMakeMaster _ _ => true | _ => false end.
