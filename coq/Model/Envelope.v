(* Model.Envelope: dvid/serialize.go — SerializeData, SerializePrecompressedData,
   DeserializeData.  Third-party compressors are parameters (oracles); everything DVID
   itself does (format byte, checksum, LZ4 size prefix, shortcuts, error paths) is concrete. *)
From DV Require Import Base.Prelude Base.Int Model.CRC Gen.Consts Gen.Funcs.
Local Open Scope N_scope.

(* EncodeSerializationFormat / DecodeSerializationFormat: the definitions are the Gallina
   translations of the Go function bodies, regenerated from the source on every run
   (Gen/Funcs.v), so an edited mask or shift changes these functions and re-opens the proofs. *)
Definition enc_format (comp cks : N) : N :=
  Z.to_N (f_EncodeSerializationFormat (Z.of_N comp) 0%Z (Z.of_N cks)).
Definition dec_comp (f : N) : N := Z.to_N (fst (f_DecodeSerializationFormat (Z.of_N f))).
Definition dec_cks (f : N) : N := Z.to_N (snd (f_DecodeSerializationFormat (Z.of_N f))).

Record codecs := {
  (* compress: format -> level -> data -> compressed bytes (library call; may fail) *)
  c_compress : N -> Z -> bytes -> res bytes;
  (* decompress: format -> (for LZ4: declared original size) -> bytes -> result *)
  c_decompress : N -> N -> bytes -> res bytes;
}.

Section Envelope.
Variable C : codecs.

(* SerializePrecompressedData *)
Definition serialize_pre (data : bytes) (comp cks : N) : res bytes :=
  match data with
  | [] => Ok []
  | _ =>
    let cks' := if comp =? n_Gzip then n_NoChecksum else cks in
    let f := enc_format comp cks' in
    if cks' =? n_NoChecksum then Ok (f :: data)
    else if cks' =? n_CRC32 then Ok (f :: le_enc 4 (crc32 data) ++ data)
    else Err
  end.

(* SerializeData for the lossless formats (JPEG is lossy and outside the property) *)
Definition serialize (data : bytes) (comp : N) (level : Z) (cks : N) : res bytes :=
  match data with
  | [] => Ok []
  | _ =>
    if comp =? n_Uncompressed then serialize_pre data comp cks
    else if comp =? n_Snappy then
      res_bind (c_compress C comp level data) (fun c => serialize_pre c comp cks)
    else if comp =? n_LZ4 then
      res_bind (c_compress C comp level data) (fun c =>
        serialize_pre (le_enc 4 (N.of_nat (length data) mod 2^32) ++ c) comp cks)
    else if comp =? n_Gzip then
      res_bind (c_compress C comp level data) (fun c => serialize_pre c comp cks)
    else Err
  end.

(* DeserializeData.  [lz4_guard] selects the code as it stood before the repair
   (false: cdata[0:4] slices without a length check and panics) or after it (true). *)
Definition deserialize_gen (lz4_guard : bool) (s : bytes) (uncompress : bool) : res (bytes * N) :=
  match s with
  | [] => Ok ([], n_Uncompressed)
  | f :: rest =>
    let comp := dec_comp f in
    let cks := dec_cks f in
    let after_cks : res bytes :=
      if cks =? n_NoChecksum then Ok rest
      else if cks =? n_CRC32 then
        if Nat.ltb (length rest) 4 then Err
        else
          let stored := le_dec (firstn 4 rest) in
          let cdata := skipn 4 rest in
          if crc32 cdata =? stored then Ok cdata else Err
      else Err in
    res_bind after_cks (fun cdata =>
      if negb uncompress || (comp =? n_Uncompressed) then Ok (cdata, comp)
      else if comp =? n_Snappy then
        res_bind (c_decompress C comp 0 cdata) (fun d => Ok (d, comp))
      else if comp =? n_LZ4 then
        if Nat.ltb (length cdata) 4 then (if lz4_guard then Err else Panic)
        else
          let orig := le_dec (firstn 4 cdata) in
          if orig =? 0 then Ok (skipn 4 cdata, comp)
          else res_bind (c_decompress C comp orig (skipn 4 cdata)) (fun d => Ok (d, comp))
      else if comp =? n_JPEG then
        res_bind (c_decompress C comp 0 cdata) (fun d => Ok (d, comp))
      else if comp =? n_Gzip then
        res_bind (c_decompress C comp 0 cdata) (fun d => Ok (d, comp))
      else Err)
  end.

Definition deserialize := deserialize_gen true.
Definition deserialize_unguarded := deserialize_gen false.

End Envelope.

(* What a compressed payload looks like to DeserializeData once the envelope is removed. *)
Definition stored_payload (comp : N) (data c : bytes) : bytes :=
  if comp =? n_LZ4 then le_enc 4 (N.of_nat (length data) mod 2^32) ++ c else c.
