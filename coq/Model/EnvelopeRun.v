(* Model.EnvelopeRun: executable checkers used by Run/cases_C15.v (no proofs). *)
From DV Require Import Base.Prelude Base.Int Model.CRC Model.Envelope Gen.Consts.
Local Open Scope N_scope.

Inductive c15case :=
| CSer (data : bytes) (comp : N) (lvl : Z) (cks : N)
       (c dres go_s : res bytes) (go_dt go_df : res (bytes * N))
| CRaw (s : bytes) (u : bool) (dres : res bytes) (go : res (bytes * N))
| CCorrupt (s0 : bytes) (pos : nat) (b' : N) (u : bool) (dres : res bytes) (go : res (bytes * N))
(* payloads too large to be written into a Coq file (32 KiB .. several MiB): the driver compares
   bytes itself and reports only the facts the property speaks about; judged by the oracle only *)
| CBigSer (len comp cks : N) (ser_ok rt_equal raw_ok : bool)
| CBigCorrupt (len comp cks : N) (pos : N) (lib_detects : bool) (go : oclass)
(* the envelope as datatype/keyvalue uses it: POST key then GET key on an instance created with the given
   compression and checksum; [got] is what the GET answered *)
| CKV (comp cks : N) (data : bytes) (put_ok : bool) (got : res bytes)
(* a metadata value as found in the store (datastore/repo_local.go saveToStore): key class, its format byte, its
   length, and whether every sampled single-bit alteration of its payload was reported as an error on reading *)
| CMeta (class fmtbyte len : N) (all_detected : bool)
(* round 4: burst alterations.  [s0] is a value produced by the real SerializeData; every element of
   [alts] is (position, xor mask of 1..5 bytes, class the Go DeserializeData returned with
   uncompress = true, the same with uncompress = false) for s0 with the mask xor-ed in at the position *)
| CBurst (s0 : bytes) (alts : list (N * bytes * oclass * oclass))
(* hash/crc32.ChecksumIEEE of a byte string and of the string with each mask xor-ed in *)
| CCrc (data : bytes) (go0 : N) (alts : list (N * bytes * N))
(* a burst in a large stored value (payload regenerated from its size; judged by the oracle only) *)
| CBigBurst (len comp cks : N) (pos : N) (mask : bytes) (go : oclass).

Definition res_eqb {A} (eqb : A -> A -> bool) (a b : res A) : bool :=
  match a, b with
  | Ok x, Ok y => eqb x y
  | Err, Err => true
  | Panic, Panic => true
  | _, _ => false
  end.
Definition pair_eqb (a b : bytes * N) : bool := bytes_eqb (fst a) (fst b) && (snd a =? snd b).

Definition oracle (c dres : res bytes) : codecs :=
  {| c_compress := fun _ _ _ => c; c_decompress := fun _ _ _ => dres |}.

Fixpoint set_nth (l : bytes) (n : nat) (b : N) : bytes :=
  match l, n with
  | [], _ => []
  | _ :: r, O => b :: r
  | x :: r, S n' => x :: set_nth r n' b
  end.

Fixpoint xor_at (l : bytes) (n : nat) (mask : bytes) : bytes :=
  match l, n with
  | [], _ => []
  | x :: r, O => match mask with [] => l | m :: mr => N.lxor x m :: xor_at r O mr end
  | x :: r, S n' => x :: xor_at r n' mask
  end.

(* the shape the burst theorems speak about: not all zero, and either at most 4 bytes, or 5 bytes
   whose altered bits fit a window of 32 bits (low j bits of the first untouched, only the low j
   bits of the last touched) *)
Definition burst_ok (mask : bytes) : bool :=
  existsb (fun x => negb (x =? 0)) mask && forallb (fun x => x <? 256) mask &&
  (Nat.leb (length mask) 4 ||
   match mask with
   | [a; _; _; _; z] =>
     existsb (fun j => (a mod 2 ^ j =? 0) && (z <? 2 ^ j)) [0;1;2;3;4;5;6;7;8]
   | _ => false
   end).

Definition model_ok (c : c15case) : bool :=
  match c with
  | CSer data comp lvl cks c dres go_s go_dt go_df =>
    let C := oracle c dres in
    res_eqb bytes_eqb (serialize C data comp lvl cks) go_s &&
    match go_s with
    | Ok s => res_eqb pair_eqb (deserialize C s true) go_dt && res_eqb pair_eqb (deserialize C s false) go_df
    | _ => true
    end
  | CRaw s u dres go => res_eqb pair_eqb (deserialize (oracle Err dres) s u) go
  | CCorrupt s0 pos b' u dres go => res_eqb pair_eqb (deserialize (oracle Err dres) (set_nth s0 pos b') u) go
  | CBigSer _ _ _ _ _ _ => true
  | CBigCorrupt _ _ _ _ _ _ => true
  | CKV _ _ data put_ok got => put_ok && res_eqb bytes_eqb got (Ok data)
  | CMeta class f _ det => if class =? n_repoKey then (dec_cks f =? n_CRC32) && det else true
  | CBurst s0 alts =>
    forallb (fun '(pos, mask, go_t, go_f) =>
      let r := deserialize (oracle Err Err) (xor_at s0 (N.to_nat pos) mask) false in
      oclass_eqb (class_of r) go_f && (if is_err r then oclass_eqb go_t OErr else true)) alts
  | CCrc data go0 alts =>
    (crc32 data =? go0) && forallb (fun '(pos, mask, g) => crc32 (xor_at data (N.to_nat pos) mask) =? g) alts
  | CBigBurst _ _ _ _ _ _ => true
  end.

(* property-level oracle evaluated on what the implementation returned.
   0 = holds; 1 = panic; 2 = round trip lost data; 3 = corruption returned as data;
   4 = a codec law assumed of a third-party library failed *)
Definition lossless_b (comp : N) : bool :=
  (comp =? n_Uncompressed) || (comp =? n_Snappy) || (comp =? n_Gzip) || (comp =? n_LZ4).

Definition spec_class (c : c15case) : nat :=
  match c with
  | CSer data comp lvl cks c dres go_s go_dt go_df =>
    if is_panic go_s || is_panic go_dt || is_panic go_df then 1%nat
    else if lossless_b comp && ((cks =? n_NoChecksum) || (cks =? n_CRC32)) then
      match go_s with
      | Ok s =>
        if negb (res_eqb pair_eqb go_dt
                  (Ok (data, match data with [] => n_Uncompressed | _ => comp end))) then 2%nat
        else match c, data with
             | Ok _, _ :: _ => if res_eqb bytes_eqb dres (Ok data) then 0%nat else 4%nat
             | _, _ => 0%nat
             end
      | _ => match c with Ok _ => 2%nat | _ => 0%nat end
      end
    else 0%nat
  | CRaw s u dres go => if is_panic go then 1%nat else 0%nat
  | CCorrupt s0 pos b' u dres go =>
    if is_panic go then 1%nat
    else match s0 with
         | f :: _ =>
           if (dec_cks f =? n_CRC32) && Nat.ltb 0 pos && Nat.ltb pos (length s0)
              && negb (nth pos s0 0 =? b')
              && is_ok (deserialize (oracle Err Err) s0 false)
           then (if is_err go then 0%nat else 3%nat)
           else 0%nat
         | [] => 0%nat
         end
  | CBigSer len comp cks ser_ok rt_equal raw_ok =>
    if lossless_b comp && ((cks =? n_NoChecksum) || (cks =? n_CRC32))
    then (if ser_ok && rt_equal && raw_ok then 0%nat else 2%nat)
    else 0%nat
  | CBigCorrupt len comp cks pos lib_detects go =>
    match go with
    | OPanic => 1%nat
    | OErr => 0%nat
    | OOk =>
      (* DVID's own CRC covers every payload and checksum byte when it is stored (not for Gzip,
         which carries its own); an error reported by the decoder must never be turned into data *)
      if ((cks =? n_CRC32) && negb (comp =? n_Gzip) && (1 <=? pos)) || lib_detects
      then 3%nat else 0%nat
    end
  | CKV comp cks data put_ok got =>
    if is_panic got then 1%nat
    else if put_ok && negb (res_eqb bytes_eqb got (Ok data)) then 2%nat else 0%nat
  | CMeta class f _ det =>
    (* stored repos are saved with a checksum, so an altered stored repo is reported, not loaded *)
    if (class =? n_repoKey) && negb ((dec_cks f =? n_CRC32) && det) then 3%nat else 0%nat
  | CBurst s0 alts =>
    if existsb (fun '(_, _, go_t, go_f) => oclass_eqb go_t OPanic || oclass_eqb go_f OPanic) alts then 1%nat
    else match s0 with
         | f :: _ =>
           if (dec_cks f =? n_CRC32) && is_ok (deserialize (oracle Err Err) s0 false)
              && existsb (fun '(pos, mask, go_t, go_f) =>
                   (5 <=? pos) && Nat.leb (N.to_nat pos + length mask) (length s0) && burst_ok mask
                   && negb (oclass_eqb go_t OErr && oclass_eqb go_f OErr)) alts
           then 3%nat else 0%nat
         | [] => 0%nat
         end
  | CCrc data go0 alts =>
    (* C15_crc32_burst_changes_checksum, evaluated on what hash/crc32 returned *)
    if existsb (fun '(pos, mask, g) =>
         Nat.leb (N.to_nat pos + length mask) (length data) && burst_ok mask && (g =? go0)) alts
    then 5%nat else 0%nat
  | CBigBurst len comp cks pos mask go =>
    match go with
    | OPanic => 1%nat
    | OErr => 0%nat
    | OOk => if (cks =? n_CRC32) && negb (comp =? n_Gzip) && (5 <=? pos) && burst_ok mask
             then 3%nat else 0%nat
    end
  end.

Fixpoint classify_from (i : nat) (l : list c15case) : list (nat * nat) :=
  match l with
  | [] => []
  | c :: r => let k := spec_class c in
              if Nat.eqb k 0 then classify_from (S i) r else (i, k) :: classify_from (S i) r
  end.
Definition c15_spec_fail (l : list c15case) : list (nat * nat) := classify_from 0 l.
Definition c15_model_mismatch (l : list c15case) : list nat := find_idx (fun c => negb (model_ok c)) l.
