(* Model.Keys: storage key layout of DVID (storage/context.go, storage/keyvalue.go, dvid/data.go)
   and the datatypes' TKey constructors.  Definitions only; constants come from Gen/.

   Full data key =  dataKeyPrefix | instance id (4, BE) | TKey | version id (4, BE) | client id (4, BE) | marker

   Go slices are modelled as byte lists whose capacity equals their length (a slice
   expression beyond len panics).  A nil Key is [None] where a function tests for nil. *)
From DV Require Import Base.Prelude Base.Int Base.Lex Base.KeyShape Gen.Consts Gen.KeyLits Gen.KeyClasses.
Local Open Scope N_scope.

Definition iid_size : nat := N.to_nat n_InstanceIDSize.
Definition vid_size : nat := N.to_nat n_VersionIDSize.
Definition cid_size : nat := N.to_nat n_ClientIDSize.
(* version + client + marker: what follows the TKey *)
Definition suffix_size : nat := (vid_size + cid_size + 1)%nat.

(* dvid.InstanceID.Bytes etc.: binary.BigEndian.PutUint32 of a uint32 (values are taken mod 2^32) *)
Definition iid_bytes (i : N) : bytes := be_enc iid_size i.
Definition vid_bytes (v : N) : bytes := be_enc vid_size v.
Definition cid_bytes (c : N) : bytes := be_enc cid_size c.

Definition id_ok (x : N) : Prop := x < 2 ^ 32.
Definition id_okb (x : N) : bool := x <? 2 ^ 32.
(* uint32 increment *)
Definition id_succ (x : N) : N := (x + 1) mod 2 ^ 32.

(* ---- construction ---- *)

(* the common shape of constructDataKey / TombstoneKey / MinVersionKey / MaxVersionKey *)
Definition data_key (i : N) (tk : bytes) (v c marker : N) : bytes :=
  n_dataKeyPrefix :: iid_bytes i ++ tk ++ vid_bytes v ++ cid_bytes c ++ [marker].

(* constructDataKey (DataContext.ConstructKey / ConstructKeyVersion) *)
Definition construct_data_key (i v c : N) (tk : bytes) : bytes := data_key i tk v c n_MarkData.
(* DataContext.TombstoneKey / TombstoneKeyVersion *)
Definition tombstone_key (i v c : N) (tk : bytes) : bytes := data_key i tk v c n_MarkTombstone.
(* DataContext.UnversionedKeyPrefix / UnversionedKey / SplitKey's first component *)
Definition unversioned_prefix (i : N) (tk : bytes) : bytes := n_dataKeyPrefix :: iid_bytes i ++ tk.
(* MetadataContext.ConstructKey *)
Definition metadata_key (tk : bytes) : bytes := n_metadataKeyPrefix :: tk.
(* ConstructBlobKey *)
Definition blob_key (k : bytes) : bytes := n_blobKeyPrefix :: k.

(* DataContext.MinVersionKey / MaxVersionKey *)
Definition min_version_key (i : N) (tk : bytes) : bytes :=
  n_dataKeyPrefix :: iid_bytes i ++ tk ++ vid_bytes 0 ++ cid_bytes 0 ++ t_MinVersionKey_tail.
Definition max_version_key (i : N) (tk : bytes) : bytes :=
  n_dataKeyPrefix :: iid_bytes i ++ tk ++ vid_bytes n_MaxVersionID ++ cid_bytes n_MaxClientID ++ t_MaxVersionKey_tail.

(* DataContext.KeyRange and DataInstanceKeyRange: id++ / d+1 on a uint32 *)
Definition key_range (i : N) : bytes * bytes :=
  (n_dataKeyPrefix :: iid_bytes i, n_dataKeyPrefix :: iid_bytes (id_succ i)).
Definition data_instance_key_range (i : N) : bytes * bytes := key_range i.
(* the same two functions with repo_patches/C06-3-fix: at MaxInstanceID the range ends at the
   first key after the data key space, []byte{dataKeyPrefix + 1} *)
Definition key_range_fixed (i : N) : bytes * bytes :=
  if i =? n_MaxInstanceID then (n_dataKeyPrefix :: iid_bytes i, [n_dataKeyPrefix + 1]) else key_range i.
(* DataKeyRange, MinDataKey, MaxDataKey *)
Definition data_key_range : bytes * bytes :=
  (n_dataKeyPrefix :: iid_bytes 0, n_dataKeyPrefix :: iid_bytes n_MaxInstanceID).
(* MetadataContext.KeyRange *)
Definition metadata_key_range : bytes * bytes := ([n_metadataKeyPrefix], [n_dataKeyPrefix]).

(* DataContext.TKeyClassRange *)
Definition tkey_class_range (i cls : N) : bytes * bytes :=
  (n_dataKeyPrefix :: iid_bytes i ++ cls :: t_TKeyClassRange_min_tail,
   n_dataKeyPrefix :: iid_bytes i ++ cls :: t_TKeyClassRange_max_tail).

(* storage.MinTKey / MaxTKey / NewTKey *)
Definition min_tkey (cls : N) : bytes := [cls; n_tkeyMinByte].
Definition max_tkey (cls : N) : bytes := [cls; n_tkeyMaxByte].
Definition new_tkey (cls : N) (body : bytes) : bytes := cls :: n_tkeyStandardByte :: body.
(* package vars minTKey / maxTKey (DataContext.TKeyRange) *)
Definition ctx_min_tkey : bytes := t_minTKey.
Definition ctx_max_tkey : bytes := repeat n_maxTKey_fill (N.to_nat n_maxTKey_len).

(* BadgerDB.DeleteAll: the interval scanned for a context that implements VersionedCtx ... *)
Definition delete_all_range_versioned (i : N) : bytes * bytes :=
  (min_version_key i (min_tkey n_TKeyMinClass), max_version_key i (max_tkey n_TKeyMaxClass)).
(* ... and for any other context (storage.DeleteDataInstance passes a bare *DataContext) *)
Definition delete_all_range_unversioned (i : N) : bytes * bytes := key_range i.
Definition delete_all_range_unversioned_fixed (i : N) : bytes * bytes := key_range_fixed i.

(* getNextInstance / getInstanceSizes / getKeyUsage: [constructDataKey(cur, 0, 0, minTKey), constructDataKey(cur+1, 0, 0, minTKey)) *)
Definition instance_size_range (i : N) : bytes * bytes :=
  (construct_data_key i 0 0 ctx_min_tkey, construct_data_key (id_succ i) 0 0 ctx_min_tkey).

(* ---- parsing ---- *)

(* k[a:b] with Go's bounds check (capacity = length) *)
Definition slice (k : bytes) (a b : nat) : res bytes :=
  if (Nat.leb a b && Nat.leb b (length k))%bool then Ok (firstn (b - a) (skipn a k)) else Panic.

(* len(k) - VersionIDSize - ClientIDSize - 1 as a Go int: may be negative *)
Definition suffix_start (k : bytes) : Z := Z.of_nat (length k) - Z.of_nat suffix_size.

(* Key.IsTombstone (the dvid.Criticalf branch only logs) *)
Definition is_tombstone (k : bytes) : bool :=
  match rev k with
  | [] => false
  | m :: _ => m =? n_MarkTombstone
  end.

(* Key.IsDataKey *)
Definition is_data_key (k : bytes) : bool :=
  match k with
  | [] => false
  | p :: _ => negb (N.of_nat (length k) <? n_IsDataKey_minlen) && (p =? n_dataKeyPrefix)
  end.

(* TKeyFromKey: None is a nil Key *)
Definition tkey_from_key (key : option bytes) : res bytes :=
  match key with
  | None => Err
  | Some [] => Panic                              (* key[0] on an empty slice *)
  | Some (p :: rest) =>
    if p =? n_metadataKeyPrefix then Ok rest
    else if p =? n_dataKeyPrefix then
      let k := p :: rest in
      let e := suffix_start k in
      if (e <? Z.of_nat (1 + iid_size))%Z then Panic   (* key[start:end] with end < start (or negative) *)
      else slice k (1 + iid_size) (Z.to_nat e)
    else Err
  end.

(* DataKeyToLocalIDs *)
Definition data_key_to_local_ids (k : bytes) : res (N * N * N) :=
  match k with
  | [] => Panic
  | p :: _ =>
    if negb (p =? n_dataKeyPrefix) then Err
    else
      res_bind (slice k 1 (1 + iid_size)) (fun ib =>
      let s := suffix_start k in
      if (s <? 0)%Z then Panic
      else
        let s := Z.to_nat s in
        res_bind (slice k s (s + vid_size)) (fun vb =>
        res_bind (slice k (s + vid_size) (s + vid_size + cid_size)) (fun cb =>
        Ok (be_dec ib, be_dec vb, be_dec cb))))
  end.

(* DataContext.VersionFromKey / VersionFromDataKey *)
Definition version_from_key (key : option bytes) : res N :=
  match key with
  | None => Err
  | Some [] => Panic
  | Some (p :: rest) =>
    let k := p :: rest in
    if negb (p =? n_dataKeyPrefix) then Err
    else if Nat.ltb (length k) (iid_size + vid_size + cid_size + 2) then Err
    else
      let s := Z.to_nat (suffix_start k) in
      res_bind (slice k s (s + vid_size)) (fun vb => Ok (be_dec vb))
  end.

(* DataContext.ClientFromKey *)
Definition client_from_key (key : option bytes) : res N :=
  match key with
  | None => Err
  | Some [] => Panic
  | Some (p :: rest) =>
    let k := p :: rest in
    if negb (p =? n_dataKeyPrefix) then Err
    else if Nat.ltb (length k) (iid_size + vid_size + cid_size + 2) then Err
    else
      let s := (length k - cid_size - 1)%nat in
      res_bind (slice k s (s + cid_size)) (fun cb => Ok (be_dec cb))
  end.

(* copy(k[a:a+len src], src) *)
Definition overwrite (k : bytes) (a : nat) (src : bytes) : res bytes :=
  if Nat.leb (a + length src) (length k)
  then Ok (firstn a k ++ src ++ skipn (a + length src) k)
  else Panic.

(* UpdateDataKey: three in-place copies, in this order *)
Definition update_data_key (k : bytes) (i v c : N) : res bytes :=
  match k with
  | [] => Panic
  | p :: _ =>
    if negb (p =? n_dataKeyPrefix) then Err
    else
      res_bind (overwrite k 1 (iid_bytes i)) (fun k1 =>
      let s := suffix_start k in
      if (s <? 0)%Z then Panic
      else
        let s := Z.to_nat s in
        res_bind (overwrite k1 s (vid_bytes v)) (fun k2 =>
        overwrite k2 (s + vid_size) (cid_bytes c)))
  end.

(* ---- datatype TKey constructors (datatype/*/keys.go), by shape from Gen/KeyClasses.v ---- *)

(* copy(buf, src) into a zeroed buffer of n bytes: truncates or pads *)
Definition fit (n : nat) (src : bytes) : bytes :=
  firstn n src ++ repeat 0 (n - length src).

(* strconv.FormatUint(n, 10): most significant digit first.  The fuel (number of bits + 1) always suffices:
   every step divides by 10. *)
Fixpoint dec_aux (fuel : nat) (n : N) (acc : bytes) : bytes :=
  match fuel with
  | O => acc
  | S f => let acc' := (48 + n mod 10) :: acc in
           if n <? 10 then acc' else dec_aux f (n / 10) acc'
  end.
Definition dec_digits (n : N) : bytes := dec_aux (S (N.to_nat (N.size n))) n [].

(* a TKey of class kc for caller data d:  fixed shape: the n body bytes;  terminated: d ++ [t];  raw: d itself;
   decimal: d = the 8 big-endian bytes of the uint64;  legacy: the n bytes without header *)
Definition tkey_of (kc : kclass) (d : bytes) : bytes :=
  match kc_shape kc with
  | KFixed n => new_tkey (kc_class kc) (fit (N.to_nat n) d)
  | KTerm t => new_tkey (kc_class kc) (d ++ [t])
  | KRaw _ => new_tkey (kc_class kc) d
  | KDecSep sep ext => new_tkey (kc_class kc) (dec_digits (be_dec d) ++ sep :: ext)
  | KLegacy n => fit (N.to_nat n) d
  end.

(* what a caller may put into the body so that the class stays prefix free *)
Definition body_ok (kc : kclass) (d : bytes) : Prop :=
  match kc_shape kc with
  | KFixed _ => True
  | KTerm t => ~ In t d
  | KRaw n => length d = N.to_nat n              (* what NewTKey(idx) passes; NewTKeyByCoord does not check *)
  | KDecSep sep _ => sep < 48 \/ 57 < sep        (* the separator is not a decimal digit *)
  | KLegacy n => 0 < n /\ hd_error d = Some (kc_class kc)   (* a 3d plane: DataShape bytes start with dims = class *)
  end.
Definition body_okb (kc : kclass) (d : bytes) : bool :=
  match kc_shape kc with
  | KFixed _ => true
  | KTerm t => negb (existsb (N.eqb t) d)
  | KRaw n => Nat.eqb (length d) (N.to_nat n)
  | KDecSep sep _ => (sep <? 48) || (57 <? sep)
  | KLegacy n => (0 <? n) && match d with x :: _ => x =? kc_class kc | [] => false end
  end.

(* keyvalue.NewTKey / neuronjson.NewTKey / annotation.NewTagTKey on a string *)
Definition kv_tkey (s : bytes) : bytes := tkey_of kc_keyvalue_NewTKey s.
Definition nj_tkey (s : bytes) : bytes := tkey_of kc_neuronjson_NewTKey s.
Definition tag_tkey (s : bytes) : bytes := tkey_of kc_annotation_NewTagTKey s.

(* TKey.ClassBytes *)
Definition class_bytes (tk : bytes) (cls : N) : res bytes :=
  match tk with
  | [] => Panic
  | c :: _ => if negb (c =? cls) then Err else slice tk 2 (length tk)
  end.

(* keyvalue.DecodeTKey / neuronjson.DecodeTKey / annotation.DecodeTagTKey *)
Definition decode_term_tkey (kc : kclass) (tk : bytes) : res bytes :=
  res_bind (class_bytes tk (kc_class kc)) (fun ib =>
    match rev ib with
    | [] => Err                                   (* sz = -1 *)
    | [_] => Err                                  (* sz = 0: "empty key" *)
    | last :: _ =>
      match kc_shape kc with
      | KTerm t => if last =? t then Ok (removelast ib) else Err
      | _ => Err
      end
    end).

(* ---- storage.SplitKey / storage.MergeKey (storage/context.go:221, :638) ---- *)

(* SplitKey: k[0] panics on an empty key; a metadata key is all "unversioned"; a data key is cut
   len(k) - VersionIDSize - ClientIDSize - 1 bytes from its start (a negative cut panics: slice bounds);
   any other prefix (blob keys) is an error *)
Definition split_key (k : bytes) : res (bytes * bytes) :=
  match k with
  | [] => Panic
  | p :: _ =>
    if p =? n_metadataKeyPrefix then Ok (k, [])
    else if p =? n_dataKeyPrefix then
      let s := suffix_start k in
      if (s <? 0)%Z then Panic else Ok (firstn (Z.to_nat s) k, skipn (Z.to_nat s) k)
    else Err
  end.

(* MergeKey: append([]byte(unvKey), verKey...) *)
Definition merge_key (unv ver : bytes) : bytes := unv ++ ver.

(* MetadataContext.SplitKey *)
Definition metadata_split_key (tk : bytes) : bytes * bytes := (n_metadataKeyPrefix :: tk, []).
