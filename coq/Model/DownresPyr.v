(* Model.DownresPyr: the pyramid update at BLOCK level, as datatype/labelmap/downres.go and
   datatype/common/downres/downres.go perform it.
     Data.getHiresChanges   hires_changes: for each changed block of the scale below, the parent
                            coordinate and the octant slot come from the GENERATED arithmetic
                            (Gen/DownresArith.v: g_hires_parent = c >> 1 per axis, g_hires_octidx =
                            ((z&1)<<2)+((y&1)<<1)+(x&1)); `oct[octidx] = block` on a [8]*Block
                            (index out of range = Panic), slots nil where nothing changed;
     Data.downresOctant     downres_octant: count the given octants; fewer than
                            g_downres_stored_below (8) => the stored parent block is the receiver,
                            else a solid-0 block; receiver.Downres(octants); the result goes into
                            the returned BlockMap and into the store (put_all);
     Data.StoreDownres      store_downres_blocks (one scale);
     Mutation.Execute       bexec: scale after scale, the returned BlockMap is the next input.
   Blocks are label arrays (x fastest) of a cubic block of edge B; Block.Downres enters as a
   function DR on such arrays (Proofs/DownresPyr.v states what is required of it: the conclusion of
   C14_block_downres; dr_arr below is the executable instance compared with the Go code).
   A block missing from the store reads as zeros (labelmap.getSupervoxelBlock returns a solid-0
   block for a missing key): the store is a total function.  Definitions only. *)
From DV Require Import Base.Prelude Base.Int Base.BitPack Model.Block Model.Downres Gen.DownresArith.
Local Open Scope N_scope.

Definition coord := (Z * Z * Z)%type.
Definition coord_eqb (a b : coord) : bool :=
  let '(x, y, z) := a in let '(x', y', z') := b in ((x =? x') && (y =? y') && (z =? z'))%Z.

Definition arr := list N.
Definition bmap := list (coord * arr).          (* downres.BlockMap: changed block -> its new content *)
Definition octs := N -> option arr.             (* [8]*labels.Block, read at 0..7 *)
Definition octmap := list (coord * octs).       (* octantMap *)

Definition no_octs : octs := fun _ => None.
Definition oct_put (o : octs) (i : N) (a : arr) : octs := fun j => if j =? i then Some a else o j.

(* oct, found := octants[lores]; if !found { oct = [8]*Block{} }; oct[i] = block; octants[lores] = oct *)
Fixpoint oct_set (k : coord) (i : N) (a : arr) (m : octmap) : octmap :=
  match m with
  | [] => [(k, oct_put no_octs i a)]
  | (k', o) :: r => if coord_eqb k k' then (k', oct_put o i a) :: r else (k', o) :: oct_set k i a r
  end.

Definition hires_step (acc : res octmap) (e : coord * arr) : res octmap :=
  match acc with
  | Ok m =>
    let '((x, y, z), a) := e in
    let i := g_hires_octidx x y z in
    if ((i <? 0) || (8 <=? i))%Z then Panic
    else Ok (oct_set (g_hires_parent x y z) (Z.to_N i) a m)
  | e' => e'
  end.

(* `for hiresZYX, value := range hires`: the list is the map in the order it was ranged over *)
Definition hires_changes (chg : bmap) : res octmap := fold_left hires_step chg (Ok []).

Definition oget (m : octmap) (p : coord) : octs :=
  match find (fun e => coord_eqb p (fst e)) m with Some e => snd e | None => no_octs end.

(* numBlocks *)
Definition num_blocks (o : octs) : Z :=
  Z.of_nat (length (filter (fun i => match o i with Some _ => true | None => false end) (nseq 8))).

Definition bstore := coord -> arr.
Definition bfind (m : bmap) (p : coord) : option arr :=
  match find (fun e => coord_eqb p (fst e)) m with Some e => Some (snd e) | None => None end.
Definition put_all (S : bstore) (m : bmap) : bstore :=
  fun p => match bfind m p with Some a => a | None => S p end.

Section Step.
  Variable nvox : N.                      (* voxels of a block *)
  Variable DR : arr -> octs -> arr.       (* receiver.Downres(octants) on label arrays *)

  Definition lores_start (stored : arr) (o : octs) : arr :=
    if (num_blocks o <? g_downres_stored_below)%Z then stored else repeat 0 (N.to_nat nvox).

  Definition downres_octant (S : bstore) (e : coord * octs) : coord * arr :=
    let '(p, o) := e in (p, DR (lores_start (S p) o) o).

  (* StoreDownres(v, scale, hires): (the returned BlockMap, the store of scale+1 afterwards) *)
  Definition store_downres_blocks (S : bstore) (chg : bmap) : res (bmap * bstore) :=
    match hires_changes chg with
    | Ok om => let out := map (downres_octant S) om in Ok (out, put_all S out)
    | Err => Err
    | Panic => Panic
    end.

  (* Mutation.Execute up to scale n: chg0 = hiresCache (already stored at scale 0 by the writer),
     St k = the stored scale k before the update *)
  Fixpoint bexec (chg0 : bmap) (St : nat -> bstore) (n : nat) : res (bmap * bstore) :=
    match n with
    | O => Ok (chg0, put_all (St O) chg0)
    | S n' =>
      match bexec chg0 St n' with
      | Ok (chg, _) => store_downres_blocks (St (S n')) chg
      | e' => e'
      end
    end.
End Step.

(* ---------------- the voxel view of a block store ---------------- *)

(* voxel (x,y,z), 0 <= x,y,z < B, of a block array *)
Definition vox (B : Z) (a : arr) (x y z : Z) : N :=
  match nth_error a (Z.to_nat ((z * B + y) * B + x)) with Some v => v | None => 0 end.

(* the level a store holds: voxel (x,y,z) in Z^3 lies in block (x/B, y/B, z/B) (floor) *)
Definition view (B : Z) (S : bstore) : Z -> Z -> Z -> N :=
  fun x y z => vox B (S ((x / B)%Z, (y / B)%Z, (z / B)%Z)) (x mod B) (y mod B) (z mod B).

(* the keys of a BlockMap as a predicate on block coordinates *)
Definition touched (chg : bmap) : Z -> Z -> Z -> bool :=
  fun x y z => existsb (fun e => coord_eqb (x, y, z) (fst e)) chg.

(* ---------------- Block.Downres on label arrays (executable instance of DR) ---------------- *)

(* DownresSlow read voxel-wise: inside the eighth of a given octant the vote of the eight octant
   voxels above, elsewhere the receiver's voxel *)
Definition dr_arr (B : Z) (start : arr) (o : octs) : arr :=
  let h := (B / 2)%Z in
  map (fun p => let p := Z.of_N p in
                let x := (p mod B)%Z in let y := ((p / B) mod B)%Z in let z := (p / (B * B))%Z in
                match o (Z.to_N (4 * (z / h) + 2 * (y / h) + x / h)) with
                | Some ha =>
                  let lx := (x mod h)%Z in let ly := (y mod h)%Z in let lz := (z mod h)%Z in
                  vote [vox B ha (2 * lx) (2 * ly) (2 * lz); vox B ha (2 * lx + 1) (2 * ly) (2 * lz);
                        vox B ha (2 * lx) (2 * ly + 1) (2 * lz); vox B ha (2 * lx + 1) (2 * ly + 1) (2 * lz);
                        vox B ha (2 * lx) (2 * ly) (2 * lz + 1); vox B ha (2 * lx + 1) (2 * ly) (2 * lz + 1);
                        vox B ha (2 * lx) (2 * ly + 1) (2 * lz + 1); vox B ha (2 * lx + 1) (2 * ly + 1) (2 * lz + 1)]
                | None => vox B start x y z
                end)
      (nseq (Z.to_N (B * B * B))).

(* the same function with every array cut into its rows first (a voxel is then reached in about
   B*B/2 + B/2 list steps instead of B*B*B/2): used when the driver's histories are evaluated;
   Proofs/DownresPyr.v dr_arr_fast_eq: equal to dr_arr for every B >= 2 *)
Definition vox_rows (B : Z) (rs : list (list N)) (x y z : Z) : N :=
  match vol_at rs (Z.to_N (z * B + y)) (Z.to_N x) with Some v => v | None => 0 end.

Definition oct_rows (nB : N) (o : octs) (i : N) : option (list (list N)) :=
  match o i with Some ha => Some (rows nB ha) | None => None end.

Definition dr_arr_fast (B : Z) (start : arr) (o : octs) : arr :=
  let h := (B / 2)%Z in
  let nB := Z.to_N B in
  let srs := rows nB start in
  let os := map (oct_rows nB o) (nseq 8) in
  map (fun p => let p := Z.of_N p in
                let x := (p mod B)%Z in let y := ((p / B) mod B)%Z in let z := (p / (B * B))%Z in
                let r := Z.to_N (4 * (z / h) + 2 * (y / h) + x / h) in
                match (match nth_N os r with Some v => v | None => oct_rows nB o r end) with
                | Some ha =>
                  let lx := (x mod h)%Z in let ly := (y mod h)%Z in let lz := (z mod h)%Z in
                  vote [vox_rows B ha (2 * lx) (2 * ly) (2 * lz); vox_rows B ha (2 * lx + 1) (2 * ly) (2 * lz);
                        vox_rows B ha (2 * lx) (2 * ly + 1) (2 * lz); vox_rows B ha (2 * lx + 1) (2 * ly + 1) (2 * lz);
                        vox_rows B ha (2 * lx) (2 * ly) (2 * lz + 1); vox_rows B ha (2 * lx + 1) (2 * ly) (2 * lz + 1);
                        vox_rows B ha (2 * lx) (2 * ly + 1) (2 * lz + 1); vox_rows B ha (2 * lx + 1) (2 * ly + 1) (2 * lz + 1)]
                | None => vox_rows B srs x y z
                end)
      (nseq (Z.to_N (B * B * B))).
