(* Model.AnnotRun — case type and executable checkers for Run/cases_C13.v (no proofs).
   A case is one history on a fresh repo: a tiny label volume made of x-slabs (y,z in [0,ext)),
   then requests; after each request the driver records the response class and whatever GET
   answers changed since the last time the same query was asked (all lists sorted).
     model_ok   : the repaired model ([Annot.fixed]) gives the same class and the same answers
     spec_class : the property itself evaluated on the answers alone: every view is recomputed
                  from the element set returned by all-elements and the observed label volume *)
From DV Require Import Base.Prelude Model.Annot Gen.Consts.
Local Open Scope Z_scope.

Definition E := mkE.
Definition iv := (Z * Z)%type.                      (* inclusive x-interval; y, z range over [0, ext) *)

Inductive rop :=
| RPost (es : list elem)
| RDelete (p : pos)
| RMove (f t : pos)
| RReload (bl : list (pos * list elem))
| RLabels (ls : list (N * list elem))
| RMerge (t : N) (m : list N)
| RCleave (t c : N) (reg : list iv)
| RSplit (o n : N) (blocks : list pos) (reg : list iv)
| RMutate (b : pos) (paint : list (iv * N))
| RIngest (b : pos) (paint : list (iv * N)).

Inductive obsitem :=
| OBody (x0 : Z) (ls : list N)                      (* label of column x0, x0+1, ... (inside y,z) *)
| OAll (bl : list (pos * list elem))
| OTag (t : N) (rel : bool) (es : list elem)
| OLabel (l : N) (rel : bool) (es : list elem)
| OCount (l : N) (cs : list Z)                      (* PostSyn, PreSyn, Gap, Note, AllSyn *)
| OCounts (i : N) (ls : list N) (cs : list Z)
| ORegion (off size : pos) (es : list elem)
| OBlocks (off size : pos) (bl : list (pos * list elem))
| ORoi (spans : list (Z * Z * Z * Z)) (es : list elem)   (* roi/<name>: spans (z, y, x0, x1) in block coordinates *)
| OTop (i : N) (n : Z) (r : list (N * Z))
| OThr (i : N) (thr off n : Z) (r : list (N * Z)).

Inductive c13case :=
| Case (bs ext : Z) (paint0 : list (iv * N)) (obs0 : list obsitem) (steps : list (rop * N * list obsitem))
(* a history too big to print (thousands of elements, sized from the flush thresholds of the reload
   code): the driver compares every view with the element set returned by all-elements and prints
   only the projected facts (class code of the view, key, expected size, observed size, number of
   expected members missing, number of members not expected) *)
| Big (facts : list (Z * Z * Z * Z * Z * Z)).
Definition case_parts (c : c13case) :=
  match c with
  | Case a b p o s => (a, b, p, o, s)
  | Big _ => (1, 1, [], [], [])
  end.
Definition fact_ok (f : Z * Z * Z * Z * Z * Z) : bool :=
  let '(_, _, ex, ob, mi, xt) := f in (ex =? ob) && (mi =? 0) && (xt =? 0).
Definition big_class (facts : list (Z * Z * Z * Z * Z * Z)) : nat :=
  match find (fun f => negb (fact_ok f)) facts with
  | Some (c, _, _, _, _, _) => Z.to_nat c
  | None => O
  end.

(* ---------- geometry of the slab volume ---------- *)
Definition in_yz (ext : Z) (p : pos) : bool := (0 <=? pY p) && (pY p <? ext) && (0 <=? pZ p) && (pZ p <? ext).
Definition in_ivs (x : Z) (r : list iv) : bool := existsb (fun i => (fst i <=? x) && (x <=? snd i)) r.
Definition in_reg (ext : Z) (r : list iv) (p : pos) : bool := in_yz ext p && in_ivs (pX p) r.
Fixpoint paint_at (pt : list (iv * N)) (x : Z) : N :=      (* later entries override *)
  match pt with
  | [] => 0%N
  | (i, l) :: r => match paint_at r x with
                   | 0%N => if (fst i <=? x) && (x <=? snd i) then l else 0%N
                   | l' => l'
                   end
  end.
Definition paint_body (ext : Z) (pt : list (iv * N)) (p : pos) : N := if in_yz ext p then paint_at pt (pX p) else 0%N.

Definition bs3 (bs : Z) : pos := (bs, bs, bs).
Definition ord_of (bs : Z) (es : list elem) : list pos := nodupb pos_eqb (map (fun e => blockOf (bs3 bs) (e_pos e)) es).
(* absolute position of in-block coordinate q of block b *)
Definition abs_pos (bs : Z) (b q : pos) : pos := (pX b * bs + pX q, pY b * bs + pY q, pZ b * bs + pZ q).

Definition to_op (bs ext : Z) (bd : pos -> N) (r : rop) : op :=
  match r with
  | RPost es => OPost (ord_of bs es) es
  | RDelete p => ODelete p
  | RMove f t => OMove f t
  | RReload bl => OReload bl
  | RLabels ls => OLabels ls
  | RMerge t m => LMerge t m
  | RCleave t c reg => LCleave t c (in_reg ext reg)
  | RSplit o n bl reg => LSplit o n bl (in_reg ext reg)
  | RMutate b pt => LMutate b (fun q => bd (abs_pos bs b q)) (fun q => paint_body ext pt (abs_pos bs b q))
  | RIngest b pt => LIngest b (fun q => paint_body ext pt (abs_pos bs b q))
  end.

(* ---------- canonical forms ---------- *)
Definition pos_ltb (a b : pos) : bool :=
  (pX a <? pX b) || ((pX a =? pX b) && ((pY a <? pY b) || ((pY a =? pY b) && (pZ a <? pZ b)))).
Fixpoint insert_by {A} (key : A -> pos) (x : A) (l : list A) : list A :=
  match l with
  | [] => [x]
  | y :: r => if pos_ltb (key x) (key y) then x :: l else y :: insert_by key x r
  end.
Definition sort_by {A} (key : A -> pos) (l : list A) : list A := fold_right (insert_by key) [] l.
Definition canon (l : list elem) : list elem := sort_by e_pos l.
Definition canon_blocks (bl : list (pos * list elem)) : list (pos * list elem) :=
  sort_by fst (map (fun be => (fst be, canon (snd be))) (filter (fun be => match snd be with [] => false | _ => true end) bl)).
Definition elems_eqb := list_eqb elem_eqb.
Definition blocks_eqb := list_eqb (fun a b : pos * list elem => pos_eqb (fst a) (fst b) && elems_eqb (snd a) (snd b)).
Definition lz_eqb := list_eqb (fun a b : N * Z => (fst a =? fst b)%N && (snd a =? snd b)).

(* ---------- answers, computed from an element set + body + count function ---------- *)
Definition in_box (off size : pos) (p : pos) : bool :=
  (pX off <=? pX p) && (pX p <? pX off + pX size) && (pY off <=? pY p) && (pY p <? pY off + pY size)
  && (pZ off <=? pZ p) && (pZ p <? pZ off + pZ size).
Definition box_blocks (bs : Z) (off size : pos) (b : pos) : bool :=
  let lo := blockOf (bs3 bs) off in
  let hi := blockOf (bs3 bs) (pX off + pX size - 1, pY off + pY size - 1, pZ off + pZ size - 1) in
  (pX lo <=? pX b) && (pX b <=? pX hi) && (pY lo <=? pY b) && (pY b <=? pY hi) && (pZ lo <=? pZ b) && (pZ b <=? pZ hi).
Definition group_blocks (bs : Z) (G : list elem) : list (pos * list elem) :=
  map (fun b => (b, filter (in_block (bs3 bs) b) G)) (nodupb pos_eqb (map (fun e => blockOf (bs3 bs) (e_pos e)) G)).
Definition in_span (bs : Z) (sp : Z * Z * Z * Z) (e : elem) : bool :=
  let b := blockOf (bs3 bs) (e_pos e) in
  let '(z, y, x0, x1) := sp in (pZ b =? z) && (pY b =? y) && (x0 <=? pX b) && (pX b <=? x1).
(* An ROI is stored as one key per span (z, y, x0, length): posting the same span twice stores it once.
   GetROISynapses appends the elements of every stored span's blocks (no screening by voxel), so spans
   that overlap without being identical list the elements of the overlap once per span. *)
Definition span_eqb (a b : Z * Z * Z * Z) : bool :=
  let '(z, y, x0, x1) := a in let '(z', y', x0', x1') := b in (z =? z') && (y =? y') && (x0 =? x0') && (x1 =? x1').
Definition roi_elems (bs : Z) (spans : list (Z * Z * Z * Z)) (G : list elem) : list elem :=
  canon (flat_map (fun sp => filter (in_span bs sp) G) (nodupb span_eqb spans)).
(* what the property asks of the query: the SET of elements lying in the region *)
Fixpoint dedup_adj (l : list elem) : list elem :=
  match l with
  | x :: ((y :: _) as r) => if elem_eqb x y then dedup_adj r else x :: dedup_adj r
  | _ => l
  end.
Definition roi_set (bs : Z) (spans : list (Z * Z * Z * Z)) (G : list elem) : list elem :=
  canon (filter (fun e => existsb (fun sp => in_span bs sp e) spans) G).
Definition idxs : list N := [n_sz_PostSyn; n_sz_PreSyn; n_sz_Gap; n_sz_Note; n_sz_AllSyn].
(* ranking used by top / threshold: size descending, then label ascending; zero counts are absent *)
Fixpoint insert_rank (x : N * Z) (l : list (N * Z)) : list (N * Z) :=
  match l with
  | [] => [x]
  | y :: r => if (snd y <? snd x) || ((snd y =? snd x) && (fst x <? fst y)%N) then x :: l else y :: insert_rank x r
  end.
Definition rank (cf : N -> Z) (labels : list N) : list (N * Z) :=
  fold_right insert_rank [] (filter (fun lc => 0 <? snd lc) (map (fun l => (l, cf l)) (nodupb N.eqb labels))).
Definition top_of (r : list (N * Z)) (n : Z) : list (N * Z) := firstn (Z.to_nat n) r.
Definition thr_of (r : list (N * Z)) (thr off n : Z) : list (N * Z) :=
  firstn (Z.to_nat (if n =? 0 then 10000 else n)) (skipn (Z.to_nat off) (filter (fun lc => thr <=? snd lc) r)).

(* the model's answers *)
Definition m_all (s : state) : list (pos * list elem) :=
  canon_blocks (map (fun b => (b, bget (blk s) b)) (akeys pos_eqb (blk s))).
Definition expand (bs : Z) (s : state) (l : list elem) : list elem :=
  flat_map (fun e => match last_at (e_pos e) (bget (blk s) (blockOf (bs3 bs) (e_pos e))) with Some f => [f] | None => [] end) l.
Definition m_view (bs : Z) (s : state) (rel : bool) (l : list elem) : list elem :=
  canon (if rel then expand bs s l else l).
Definition m_counts (s : state) (l : N) : list Z := map (fun i => cget (cnt s) (i, l)) idxs.
Definition m_labels (s : state) : list N := map snd (map fst (cnt s)).
Definition answer_ok (bs : Z) (s : state) (o : obsitem) : bool :=
  match o with
  | OBody x0 ls => list_eqb N.eqb ls (map (fun i => body s (x0 + Z.of_nat i, 0, 0)) (seq 0 (length ls)))
  | OAll bl => blocks_eqb bl (m_all s)
  | OTag t rel es => elems_eqb es (m_view bs s rel (nget (tgs s) t))
  | OLabel l rel es => elems_eqb es (m_view bs s rel (nget (lbl s) l))
  | OCount l cs => list_eqb Z.eqb cs (m_counts s l)
  | OCounts i ls cs => list_eqb Z.eqb cs (map (fun l => cget (cnt s) (i, l)) ls)
  | ORegion off size es => elems_eqb es (canon (filter (fun e => in_box off size (e_pos e)) (all_elems (blk s))))
  | OBlocks off size bl => blocks_eqb bl (filter (fun be => box_blocks bs off size (fst be)) (m_all s))
  | ORoi spans es => elems_eqb es (roi_elems bs spans (all_elems (blk s)))
  | OTop i n r => lz_eqb r (top_of (rank (fun l => cget (cnt s) (i, l)) (m_labels s)) n)
  | OThr i thr off n r => lz_eqb r (thr_of (rank (fun l => cget (cnt s) (i, l)) (m_labels s)) thr off n)
  end.

(* ---------- the table of current answers ---------- *)
Definition same_query (a b : obsitem) : bool :=
  match a, b with
  | OBody _ _, OBody _ _ => true
  | OAll _, OAll _ => true
  | OTag t r _, OTag t' r' _ => (t =? t')%N && Bool.eqb r r'
  | OLabel l r _, OLabel l' r' _ => (l =? l')%N && Bool.eqb r r'
  | OCount l _, OCount l' _ => (l =? l')%N
  | _, _ => false
  end.
Definition persistent (o : obsitem) : bool :=
  match o with OBody _ _ | OAll _ | OTag _ _ _ | OLabel _ _ _ | OCount _ _ => true | _ => false end.
Definition upd_table (tb : list obsitem) (o : obsitem) : list obsitem :=
  if persistent o then o :: filter (fun x => negb (same_query o x)) tb else tb.
Definition upd_all (tb : list obsitem) (os : list obsitem) : list obsitem := fold_left upd_table os tb.

(* ---------- model_ok ---------- *)
Definition class_code {A} (r : res A) : N := match r with Ok _ => 0%N | Err => 1%N | Panic => 2%N end.
Fixpoint model_steps (bs ext : Z) (s : state) (tb : list obsitem) (steps : list (rop * N * list obsitem)) : bool :=
  match steps with
  | [] => true
  | (r, cls, os) :: rest =>
    let o := to_op bs ext (body s) r in
    let res := step fixed (bs3 bs) o s in
    let s' := step_or_stay fixed (bs3 bs) o s in
    let tb' := upd_all tb os in
    (class_code res =? cls)%N && forallb (answer_ok bs s') os && forallb (answer_ok bs s') tb'
    && model_steps bs ext s' tb' rest
  end.
Definition model_ok (c : c13case) : bool :=
  match c with Big facts => forallb fact_ok facts | _ => true end &&
  let '(bs, ext, paint0, obs0, steps) := case_parts c in
  let s0 := init (paint_body ext paint0) in
  let tb := upd_all [] obs0 in
  forallb (answer_ok bs s0) obs0 && model_steps bs ext s0 tb steps.

(* ---------- spec_class: the property on the observed answers ---------- *)
(* classes: 1 panic / server error on a well-formed request; 2 block store not a partition of one
   element set; 3 tag view; 4 label view; 5 count; 6 top/threshold/counts; 7 spatial query;
   8 partner's relationship not updated / removed; 9 element set is not what the requests say *)
Definition tb_all (tb : list obsitem) : list (pos * list elem) :=
  match find (fun o => match o with OAll _ => true | _ => false end) tb with Some (OAll bl) => bl | _ => [] end.
Definition tb_body (ext : Z) (tb : list obsitem) (p : pos) : N :=
  match find (fun o => match o with OBody _ _ => true | _ => false end) tb with
  | Some (OBody x0 ls) => if in_yz ext p && (x0 <=? pX p) then
                            match nth_error ls (Z.to_nat (pX p - x0)) with Some l => l | None => 0%N end
                          else 0%N
  | _ => 0%N
  end.
Definition first_bad (l : list (bool * nat)) : nat :=
  match find (fun x => negb (fst x)) l with Some x => snd x | None => O end.

Definition spec_item (bs ext : Z) (tb : list obsitem) (o : obsitem) : nat :=
  let G := flat_map snd (tb_all tb) in
  let bd := tb_body ext tb in
  let cf := fun i l => count_idx i (filter (on_body bd l) G) in
  let labels := map (fun e => bd (e_pos e)) G in
  match o with
  | OBody _ _ => O
  | OAll bl =>
    if forallb (fun be => forallb (in_block (bs3 bs) (fst be)) (snd be)) bl
       && nodup_posb (map e_pos (flat_map snd bl)) && nodup_posb (map fst bl) then O else 2%nat
  | OTag t rel es =>
    if elems_eqb es (canon (map (if rel then (fun e => e) else nr) (filter (has_tag t) G))) then O else 3%nat
  | OLabel l rel es =>
    if elems_eqb es (canon (map (if rel then (fun e => e) else nr) (filter (on_body bd l) G))) then O else 4%nat
  | OCount l cs => if list_eqb Z.eqb cs (map (fun i => cf i l) idxs) then O else 5%nat
  | OCounts i ls cs => if list_eqb Z.eqb cs (map (cf i) ls) then O else 6%nat
  | ORegion off size es => if elems_eqb es (canon (filter (fun e => in_box off size (e_pos e)) G)) then O else 7%nat
  | OBlocks off size bl =>
    if blocks_eqb bl (filter (fun be => box_blocks bs off size (fst be)) (canon_blocks (group_blocks bs G))) then O else 7%nat
  | ORoi spans es => if elems_eqb (dedup_adj (canon es)) (roi_set bs spans G) then O else 7%nat
  | OTop i n r => if lz_eqb r (top_of (rank (cf i) (filter (fun l => negb (l =? 0)%N) labels)) n) then O else 6%nat
  | OThr i thr off n r => if lz_eqb r (thr_of (rank (cf i) (filter (fun l => negb (l =? 0)%N) labels)) thr off n) then O else 6%nat
  end.
Definition first_nonzero (l : list nat) : nat := match find (fun x => negb (Nat.eqb x 0)) l with Some x => x | None => O end.

(* what the request means for the element set (Annot.gstep), compared as sets of elements *)
Definition set_eqb (a b : list elem) : bool := elems_eqb (canon a) (canon b).
(* relationship maintenance, stated directly: partners that referenced each other *)
Definition mutual (G : list elem) (p : pos) (q : elem) : bool :=
  refs p q && existsb (fun e => has_pos p e && refs (e_pos q) e) G.
Definition rel_ok (Gb Ga : list elem) (r : rop) (cls : N) : bool :=
  if negb (cls =? 0)%N then true else
  match r with
  | RDelete p => forallb (fun q => negb (mutual Gb p q && negb (has_pos p q))
                                   || existsb (fun q' => has_pos (e_pos q) q' && negb (refs p q')) Ga) Gb
  | RMove f t => pos_eqb f t ||   (* source = destination: accepted, nothing to maintain *)
                 forallb (fun q => negb (mutual Gb f q && negb (has_pos f q))
                                   || existsb (fun q' => has_pos (e_pos q) q' && negb (refs f q') && refs t q') Ga) Gb
  | _ => true
  end.

Fixpoint spec_steps (bs ext : Z) (tb : list obsitem) (steps : list (rop * N * list obsitem)) : nat :=
  match steps with
  | [] => O
  | (r, cls, os) :: rest =>
    let Gb := flat_map snd (tb_all tb) in
    let tb' := upd_all tb os in
    let Ga := flat_map snd (tb_all tb') in
    let o := to_op bs ext (tb_body ext tb) r in
    let k :=
        if (cls =? 2)%N then 1%nat
        else if negb (rel_ok Gb Ga r cls) then 8%nat
        else if negb (set_eqb Ga (if (cls =? 0)%N then gstep (bs3 bs) o Gb else Gb)) then 9%nat
        else first_nonzero (map (spec_item bs ext tb') os ++ map (spec_item bs ext tb') tb') in
    match k with O => spec_steps bs ext tb' rest | _ => k end
  end.
Definition spec_plain (c : c13case) : nat :=
  let '(bs, ext, paint0, obs0, steps) := case_parts c in
  let tb := upd_all [] obs0 in
  match first_nonzero (map (spec_item bs ext tb) obs0) with
  | O => spec_steps bs ext tb steps
  | k => k
  end.
Definition spec_class (c : c13case) : nat :=
  match c with Big facts => big_class facts | _ => spec_plain c end.

Fixpoint classify_from (i : nat) (l : list c13case) : list (nat * nat) :=
  match l with
  | [] => []
  | c :: r => let k := spec_class c in
              if Nat.eqb k 0 then classify_from (S i) r else (i, k) :: classify_from (S i) r
  end.
Definition c13_spec_fail (l : list c13case) : list (nat * nat) := classify_from 0 l.
Definition c13_model_mismatch (l : list c13case) : list nat := find_idx (fun c => negb (model_ok c)) l.

(* ---------- constructors over Z literals only (what the driver prints) ---------- *)
Definition zE (x y z k : Z) (tags : list Z) (rels : list (Z * Z * Z * Z)) (p : Z) : elem :=
  mkE (x, y, z) (Z.to_N k) (map Z.to_N tags)
      (map (fun r => (Z.to_N (fst (fst (fst r))), (snd (fst (fst r)), snd (fst r), snd r))) rels) (Z.to_N p).
Definition zpaint (pt : list (iv * Z)) : list (iv * N) := map (fun x => (fst x, Z.to_N (snd x))) pt.
Definition zlz (r : list (Z * Z)) : list (N * Z) := map (fun x => (Z.to_N (fst x), snd x)) r.
Definition zPost := RPost.
Definition zDelete (x y z : Z) := RDelete (x, y, z).
Definition zMove (x y z x' y' z' : Z) := RMove (x, y, z) (x', y', z').
Definition zReload := RReload.
Definition zLabels (ls : list (Z * list elem)) := RLabels (map (fun x => (Z.to_N (fst x), snd x)) ls).
Definition zMerge (t : Z) (m : list Z) := RMerge (Z.to_N t) (map Z.to_N m).
Definition zCleave (t c : Z) (reg : list iv) := RCleave (Z.to_N t) (Z.to_N c) reg.
Definition zSplit (o n : Z) (blocks : list pos) (reg : list iv) := RSplit (Z.to_N o) (Z.to_N n) blocks reg.
Definition zMutate (b : pos) (pt : list (iv * Z)) := RMutate b (zpaint pt).
Definition zIngest (b : pos) (pt : list (iv * Z)) := RIngest b (zpaint pt).
Definition zBody (x0 : Z) (ls : list Z) := OBody x0 (map Z.to_N ls).
Definition zAll := OAll.
Definition zTag (t : Z) := OTag (Z.to_N t).
Definition zLabel (l : Z) := OLabel (Z.to_N l).
Definition zCount (l : Z) := OCount (Z.to_N l).
Definition zCounts (i : Z) (ls : list Z) := OCounts (Z.to_N i) (map Z.to_N ls).
Definition zRegion := ORegion.
Definition zBlocks := OBlocks.
Definition zRoi := ORoi.
Definition zTop (i n : Z) (r : list (Z * Z)) := OTop (Z.to_N i) n (zlz r).
Definition zThr (i thr off n : Z) (r : list (Z * Z)) := OThr (Z.to_N i) thr off n (zlz r).
Definition zStep (r : rop) (cls : Z) (os : list obsitem) : rop * N * list obsitem := (r, Z.to_N cls, os).
Definition zCase (bs ext : Z) (paint0 : list (iv * Z)) := Case bs ext (zpaint paint0).
Definition zBig := Big.
