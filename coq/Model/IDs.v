(* Model.IDs: the counters DVID issues identifiers from, as event machines (definitions only).

   1. Mutation ids per repo: repoT.newMutationID (datastore/repo_local.go:2757), initMutationID (:2724):
      (cur, saved) in memory, the persisted bound [pers] is written ahead by a stride.
   2. Repo / version / instance ids: Model.Persist (newUUID, newRepoID, newInstanceID with putCaches /
      putNewIDs order and the load-time correction); the C12 statements about them are in Props/C12.v.
   3. Labels of a labelmap instance (datatype/labelmap/labelmap.go): newLabel :2240, newLabels :2264,
      updateMaxLabel :2139, updateBlockMaxLabel :2169 (fired as goroutines by the ingest paths,
      write.go:193/:347/:467/:506, and not waited for), persistMaxLabel / persistMaxRepoLabel /
      persistNextLabel, loadLabelIDs :2350.

   A crash drops the volatile part of a state; what a killed allocation had already persisted stays. *)
From DV Require Import Base.Prelude Model.Persist Gen.Consts.
Local Open Scope N_scope.

(* ================= mutation ids ================= *)
Record mstate := { ms_cur : N; ms_saved : N; ms_pers : option N; ms_up : bool }.

Inductive mevent :=
| MAlloc                          (* newMutationID runs to completion and returns an id *)
| MAllocCrash (after : bool)      (* the process dies inside newMutationID, before / after its stride write;
                                     nothing is returned *)
| MCrash                          (* the process dies while idle *)
| MRestart (start : N)            (* initMutationID with the configured minimum start *)
| MRestartCrash (start : N) (after : bool).   (* the restart dies before / after its own write *)

(* a repo right after newRepo: initMutationID on an absent key *)
Definition m_fresh (start stride : N) : mstate :=
  {| ms_cur := start; ms_saved := start + stride; ms_pers := Some (start + stride); ms_up := true |}.

Definition m_down (s : mstate) : mstate :=
  {| ms_cur := 0; ms_saved := 0; ms_pers := ms_pers s; ms_up := false |}.

Definition m_load (stride : N) (s : mstate) (start : N) (write : bool) : mstate :=
  let cur0 := match ms_pers s with Some p => p | None => 0 end in
  let cur := if cur0 <? start then start else cur0 in
  {| ms_cur := cur; ms_saved := cur + stride;
     ms_pers := if write then Some (cur + stride) else ms_pers s; ms_up := true |}.

Definition mstep (stride : N) (s : mstate) (e : mevent) : mstate * option N :=
  match e with
  | MAlloc =>
    if ms_up s then
      let cur' := ms_cur s + 1 in
      if ms_saved s <=? cur'
      then ({| ms_cur := cur'; ms_saved := ms_saved s + stride; ms_pers := Some (ms_saved s + stride); ms_up := true |},
            Some (ms_cur s))
      else ({| ms_cur := cur'; ms_saved := ms_saved s; ms_pers := ms_pers s; ms_up := true |}, Some (ms_cur s))
    else (s, None)
  | MAllocCrash after =>
    if ms_up s then
      let cur' := ms_cur s + 1 in
      if (ms_saved s <=? cur') && after
      then (m_down {| ms_cur := cur'; ms_saved := ms_saved s; ms_pers := Some (ms_saved s + stride); ms_up := true |}, None)
      else (m_down s, None)
    else (s, None)
  | MCrash => (m_down s, None)
  | MRestart start => if ms_up s then (s, None) else (m_load stride s start true, None)
  | MRestartCrash start after =>
    if ms_up s then (s, None) else (m_down (m_load stride s start after), None)
  end.

Fixpoint mrun (stride : N) (s : mstate) (evs : list mevent) : mstate * list N :=
  match evs with
  | [] => (s, [])
  | e :: r =>
    let '(s1, o) := mstep stride s e in
    let '(s2, ids) := mrun stride s1 r in
    (s2, match o with Some i => i :: ids | None => ids end)
  end.

Fixpoint increasing (l : list N) : Prop :=
  match l with
  | [] => True
  | a :: r => (match r with [] => True | b :: _ => a < b end) /\ increasing r
  end.

Fixpoint increasingb (l : list N) : bool :=
  match l with
  | [] => true
  | a :: r => (match r with [] => true | b :: _ => a <? b end) && increasingb r
  end.

(* ================= labels of one labelmap instance ================= *)
Record lstate := {
  l_maxv : list (N * N);            (* MaxLabel[v] *)
  l_maxrepo : N;                    (* MaxRepoLabel *)
  l_next : N;                       (* NextLabel, 0 = not set *)
  l_pmaxv : list (N * N);           (* persisted max label per version *)
  l_pmaxrepo : option N;            (* persisted repo-wide max *)
  l_pnext : option N;               (* persisted next label *)
  l_present : list N;               (* every label stored in the volume at any version, or handed out *)
  l_pending : list (N * N * option N);  (* goroutines fired by acknowledged ingests: version, largest label of
                                           the block, the MaxLabel[v] they read (None: not read yet) *)
  l_lost : bool;                    (* a crash dropped such goroutines before they ran *)
  l_up : bool
}.

(* a new instance: NewData persists its repo-wide maximum 0 (repo_patches/C03-2-fix.diff) *)
Definition l_fresh : lstate :=
  {| l_maxv := []; l_maxrepo := 0; l_next := 0; l_pmaxv := []; l_pmaxrepo := Some 0; l_pnext := None;
     l_present := []; l_pending := []; l_lost := false; l_up := true |}.

(* ... as the code stood, nothing was persisted until the first label *)
Definition l_fresh_unrepaired : lstate :=
  {| l_maxv := []; l_maxrepo := 0; l_next := 0; l_pmaxv := []; l_pmaxrepo := None; l_pnext := None;
     l_present := []; l_pending := []; l_lost := false; l_up := true |}.

Inductive levent :=
| LAlloc (v n : N)                       (* newLabels v n (newLabel = n = 1): returns (begin, end) *)
| LAllocCrash (v n : N) (k : nat)        (* killed after k of its persistence writes; nothing returned *)
| LIngest (v : N) (blockmax : list N)    (* blocks stored and acknowledged, given by the largest label of each
                                            (which becomes present); one goroutine per block *)
| LBgRead (i : nat)                      (* goroutine i: first critical section (RLock) *)
| LBgWrite (i : nat)                     (* goroutine i: second critical section (Lock), completes it *)
| LSetMax (v l : N)                      (* updateMaxLabel from a synchronous caller (POST maxlabel, index ingest,
                                            split with client-chosen labels); its label becomes present *)
| LSetNext (n : N)                       (* SetNextLabelStart: administrator repositions the counter *)
| LCrash
| LRestart.

Definition vget (v : N) (m : list (N * N)) : N := match aget v m with Some x => x | None => 0 end.

Fixpoint seqN (start : N) (n : nat) : list N :=
  match n with O => [] | S n' => start :: seqN (start + 1) n' end.

Fixpoint nth_remove {A} (i : nat) (l : list A) : option (A * list A) :=
  match l, i with
  | [], _ => None
  | x :: r, O => Some (x, r)
  | x :: r, S i' => match nth_remove i' r with Some (y, r') => Some (y, x :: r') | None => None end
  end.

Fixpoint nth_update {A} (i : nat) (f : A -> A) (l : list A) : list A :=
  match l, i with
  | [], _ => []
  | x :: r, O => f x :: r
  | x :: r, S i' => x :: nth_update i' f r
  end.

Definition l_down (s : lstate) : lstate :=
  {| l_maxv := []; l_maxrepo := 0; l_next := 0; l_pmaxv := l_pmaxv s; l_pmaxrepo := l_pmaxrepo s;
     l_pnext := l_pnext s; l_present := l_present s; l_pending := [];
     l_lost := l_lost s || negb (match l_pending s with [] => true | _ => false end); l_up := false |}.

Definition very_large_label : N := n_ids_veryLargeLabel.   (* labelmap.go veryLargeLabel *)

(* loadLabelIDs *)
Definition l_load (s : lstate) : lstate :=
  let vmax := fold_left (fun a kv => N.max a (snd kv)) (l_pmaxv s) 0 in
  let repo := match l_pmaxrepo s with
              | None => if vmax =? 0 then very_large_label else vmax
              | Some p => if p <? vmax then vmax else p
              end in
  {| l_maxv := l_pmaxv s; l_maxrepo := repo; l_next := match l_pnext s with Some n => n | None => 0 end;
     l_pmaxv := l_pmaxv s; l_pmaxrepo := l_pmaxrepo s; l_pnext := l_pnext s;
     l_present := l_present s; l_pending := []; l_lost := l_lost s; l_up := true |}.

(* the allocation proper; k = number of persistence writes performed (2 = all) *)
Definition l_alloc (s : lstate) (v n : N) (k : nat) : lstate * (N * N) :=
  if negb (l_next s =? 0) then
    let b := l_next s + 1 in let e := l_next s + n in
    ({| l_maxv := l_maxv s; l_maxrepo := l_maxrepo s; l_next := e;
        l_pmaxv := l_pmaxv s; l_pmaxrepo := l_pmaxrepo s;
        l_pnext := match k with O => l_pnext s | _ => Some e end;
        l_present := l_present s; l_pending := l_pending s; l_lost := l_lost s; l_up := true |}, (b, e))
  else
    let b := l_maxrepo s + 1 in let e := l_maxrepo s + n in
    ({| l_maxv := aset v e (l_maxv s); l_maxrepo := e; l_next := 0;
        l_pmaxv := match k with O => l_pmaxv s | _ => aset v e (l_pmaxv s) end;
        l_pmaxrepo := match k with O | S O => l_pmaxrepo s | _ => Some e end;
        l_pnext := l_pnext s;
        l_present := l_present s; l_pending := l_pending s; l_lost := l_lost s; l_up := true |}, (b, e)).

(* labels are uint64: newLabel / newLabels refuse a request that does not fit below 2^64
   (labelmap.go: "numLabels > ^uint64(0)-d.MaxRepoLabel"; only on the max-label path, the
   administrator's NextLabel path has no such guard) *)
Definition max_label : N := 18446744073709551615.
Definition alloc_refused (s : lstate) (n : N) : bool := (l_next s =? 0) && (max_label - l_maxrepo s <? n).

Definition add_present (s : lstate) (ls : list N) : lstate :=
  {| l_maxv := l_maxv s; l_maxrepo := l_maxrepo s; l_next := l_next s; l_pmaxv := l_pmaxv s;
     l_pmaxrepo := l_pmaxrepo s; l_pnext := l_pnext s; l_present := ls ++ l_present s;
     l_pending := l_pending s; l_lost := l_lost s; l_up := l_up s |}.

(* raise MaxLabel[v] to x (as written: assignment, not max) and the repo-wide max if exceeded *)
Definition l_raise (s : lstate) (v x : N) (pending : list (N * N * option N)) : lstate :=
  let over := l_maxrepo s <? x in
  {| l_maxv := aset v x (l_maxv s); l_maxrepo := if over then x else l_maxrepo s; l_next := l_next s;
     l_pmaxv := aset v x (l_pmaxv s); l_pmaxrepo := if over then Some x else l_pmaxrepo s;
     l_pnext := l_pnext s; l_present := l_present s; l_pending := pending; l_lost := l_lost s; l_up := true |}.

Definition set_pending (s : lstate) (p : list (N * N * option N)) : lstate :=
  {| l_maxv := l_maxv s; l_maxrepo := l_maxrepo s; l_next := l_next s; l_pmaxv := l_pmaxv s;
     l_pmaxrepo := l_pmaxrepo s; l_pnext := l_pnext s; l_present := l_present s;
     l_pending := p; l_lost := l_lost s; l_up := l_up s |}.

Definition lstep (s : lstate) (e : levent) : lstate * option (N * N) :=
  if negb (l_up s) then
    match e with
    | LRestart => (l_load s, None)
    | _ => (s, None)
    end
  else
  match e with
  | LAlloc v n =>
    if n =? 0 then (s, None) else
    if alloc_refused s n then (s, None) else            (* error returned, nothing changed *)
    let '(s1, (b, e)) := l_alloc s v n 2 in
    (add_present s1 (seqN b (N.to_nat n)), Some (b, e))
  | LAllocCrash v n k =>
    if (n =? 0) || alloc_refused s n then (l_down s, None) else (l_down (fst (l_alloc s v n k)), None)
  | LIngest v bms =>
    (set_pending (add_present s bms) (l_pending s ++ map (fun bm => (v, bm, None)) bms), None)
  | LBgRead i =>
    (set_pending s (nth_update i (fun p => let '(v, bm, _) := p in (v, bm, Some (vget v (l_maxv s)))) (l_pending s)), None)
  | LBgWrite i =>
    match nth_remove i (l_pending s) with
    | Some ((v, bm, Some c), rest) =>
      if c <? bm then (l_raise s v bm rest, None) else (set_pending s rest, None)
    | _ => (s, None)                         (* not read yet / no such goroutine *)
    end
  | LSetMax v l =>
    let s1 := add_present s [l] in
    if vget v (l_maxv s) <? l then (l_raise s1 v l (l_pending s1), None)
    else match aget v (l_maxv s) with
         | None => (l_raise s1 v l (l_pending s1), None)        (* "!found" *)
         | Some _ => (s1, None)
         end
  | LSetNext n =>
    ({| l_maxv := l_maxv s; l_maxrepo := l_maxrepo s; l_next := n; l_pmaxv := l_pmaxv s;
        l_pmaxrepo := l_pmaxrepo s; l_pnext := Some n; l_present := l_present s;
        l_pending := l_pending s; l_lost := l_lost s; l_up := true |}, None)
  | LCrash => (l_down s, None)
  | LRestart => (s, None)
  end.

Fixpoint lrun (s : lstate) (evs : list levent) : lstate * list (N * N) :=
  match evs with
  | [] => (s, [])
  | e :: r =>
    let '(s1, o) := lstep s e in
    let '(s2, out) := lrun s1 r in
    (s2, match o with Some x => x :: out | None => out end)
  end.

Definition no_reposition (evs : list levent) : bool :=
  forallb (fun e => match e with LSetNext _ => false | _ => true end) evs.

(* ranges handed out one after the other: each starts above the end of the previous one *)
Fixpoint ranges_increasing (prev : N) (l : list (N * N)) : Prop :=
  match l with
  | [] => True
  | (b, e) :: r => prev < b /\ b <= e /\ ranges_increasing e r
  end.
Fixpoint ranges_increasingb (prev : N) (l : list (N * N)) : bool :=
  match l with
  | [] => true
  | (b, e) :: r => (prev <? b) && (b <=? e) && ranges_increasingb e r
  end.

(* nothing fired by an acknowledged ingest is still outstanding, and none was lost in a crash *)
Definition settled (s : lstate) : bool :=
  l_up s && negb (l_lost s) && match l_pending s with [] => true | _ => false end.

(* one process lifetime: no crash, no restart *)
Definition live_event (e : levent) : bool :=
  match e with LAllocCrash _ _ _ | LCrash | LRestart | LSetNext _ => false | _ => true end.

(* ---- ingests that update the maximum label before they are acknowledged (repo_patches/C12-1-fix.diff):
   a history is a list of acknowledged requests; an ingest runs its per-block updates to completion
   before anything else of the history happens ---- *)
Inductive lreq :=
| QAlloc (v n : N)
| QIngest (v : N) (blockmax : list N)
| QSetMax (v l : N).

Definition expand_req (q : lreq) : list levent :=
  match q with
  | QAlloc v n => [LAlloc v n]
  | QIngest v bms => LIngest v bms :: concat (map (fun _ => [LBgRead 0; LBgWrite 0]) bms)
  | QSetMax v l => [LSetMax v l]
  end.
Definition expand_reqs (qs : list lreq) : list levent := concat (map expand_req qs).
