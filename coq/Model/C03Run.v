(* Model.C03Run: executable checkers used by Run/cases_C03.v (no proofs). *)
From DV Require Import Base.Prelude Model.Persist Model.Heads Model.MapLog Model.MapLogV Model.C04Run.
Local Open Scope N_scope.

Inductive c03case :=
(* per endpoint kind: (number of reads compared, number that differ after the restart) *)
| CGen (kinds : list (nat * nat))
(* the same for GET branch-versions in a repo that contains a merge node (branch "" nodes make
   getAncestryByBranch depend on Go's map iteration order, also without a restart) *)
| CGenMerge (kinds : list (nat * nat))
(* repo metadata: operations so far, canonical repos before and after, raw JSON (timestamps and
   mutation ids erased) identical? *)
| CRepos (segs : list (list pop)) (before after : list snap_repo) (json_same : bool)
(* branch -> version whose data "uuid:branch" reads, before and after; the operations come in
   segments separated by the restarts so far (a restart replaces the live head map) *)
| CHeads (segs : list (list pop)) (heads : list (N * option N * option N))
(* block-index extents of the labelmap instance present in the repo info before / after *)
| CExtents (before after : bool)
(* labelmap mutations of one version, in segments separated by the restarts so far; the split
   records shown before and after the latest restart *)
| CMapLog (segs : list (list mapop)) (before after : list (N * N * N * N))
(* labelmap mutations at ANY versions, in the order they were made, in segments separated by the
   restarts so far; the ancestry (itself first) of every version of the DAG; per version the split
   records GET supervoxel-splits shows (its whole ancestry) before and after the latest restart *)
| CMapLogV (ancs : list (N * list N)) (segs : list (list (N * mapop)))
           (obs : list (N * list (N * N * N * N) * list (N * N * N * N)))
(* GET nextlabel before and after *)
| CNext (before after : N)
(* records appended to a log by one engine instance, read by a re-opened one: how many were
   appended / returned by ReadAll / by StreamAll, and whether each returned exactly the appended ones *)
| CLogRT (written readall streamall : nat) (readall_same stream_same : bool).

Fixpoint run_img (m : pmgr) (img : image) (ops : list pop) : pmgr * image :=
  match ops with
  | [] => (m, img)
  | o :: r => run_img (fst (pstep conf m o)) (apply_ws img (snd (pstep conf m o))) r
  end.
Definition start_state : pmgr * image := (init_mgr conf, apply_ws empty_image (init_writes conf)).

(* run the segments; between two segments the server is restarted: the manager is the loaded one *)
Fixpoint run_segs (m : pmgr) (img : image) (segs : list (list pop)) : pmgr * image :=
  match segs with
  | [] => (m, img)
  | [ops] => run_img m img ops
  | ops :: rest =>
    let '(m1, img1) := run_img m img ops in
    match recover conf img1 with
    | Ok (mr, wr) => run_segs mr (apply_ws img1 wr) rest
    | _ => (m1, img1)
    end
  end.

(* the repaired code (Model.Heads): merges validated before anything is created, the branch-head
   cache refreshed from the DAG by newRepo / newVersion / accepted merge and rebuilt at start-up;
   segments are separated by restarts ([hrun_segs]: the loaded manager and its start-up cache) *)
Definition run_h (segs : list (list pop)) : res (pmgr * hcache * image) :=
  hrun_segs conf (fst start_state) [] (snd start_state) segs.

(* the same requests without any restart (the right-hand side of C03_restarts_interleaved) *)
Definition run_flat (segs : list (list pop)) : pmgr * hcache * image :=
  hrun_img conf (fst start_state) [] (snd start_state) (concat segs).

Definition optN_eqb (a b : option N) : bool :=
  match a, b with Some x, Some y => x =? y | None, None => true | _, _ => false end.
Definition quad_eqb (a b : N * N * N * N) : bool :=
  let '(a1, a2, a3, a4) := a in let '(b1, b2, b3, b4) := b in (a1 =? b1) && (a2 =? b2) && (a3 =? b3) && (a4 =? b4).

(* live state and log after the segments: each restart replaces the live state by the replayed log *)
Fixpoint seg_go (tw : bool) (s : mapst) (lg : list logrec) (segs : list (list mapop)) : mapst * list logrec :=
  match segs with
  | [] => (s, lg)
  | [ops] => let '(s', l') := run_ops tw s ops in (s', lg ++ l')
  | ops :: rest => let '(s', l') := run_ops tw s ops in seg_go tw (replay mp_empty (lg ++ l')) (lg ++ l') rest
  end.
Definition seg_run (tw : bool) (segs : list (list mapop)) : mapst * list logrec := seg_go tw mp_empty [] segs.

Definition has_merge (ops : list pop) : bool :=
  existsb (fun o => match o with PMerge _ _ _ => true | _ => false end) ops.

Definition model_ok (c : c03case) : bool :=
  match c with
  | CGen _ => true
  | CGenMerge _ => true
  | CRepos segs before after _ =>
    match run_h segs with
    | Ok (m, _, img) =>
      repos_eqb (canon m) before &&
      (let '(mflat, _, _) := run_flat segs in repos_eqb (canon mflat) before) &&
      match recover conf img with Ok (mr, _) => repos_eqb (canon mr) after | _ => false end
    | _ => false
    end
  | CExtents _ _ => true
  | CHeads segs heads =>
    let '(m, img) := run_segs (fst start_state) (snd start_state) segs in
    (* repaired: the running server answers from the cache kept by [hstep] (which must also be the
       DAG function), the restarted one from the cache start-up builds; as the code stood: cached
       map vs leaves *)
    match run_h segs with
    | Ok (mh, hc, imgh) =>
      forallb (fun h : N * option N * option N => let '(br, b, a) := h in
               optN_eqb (cached_head hc 1 br) b && optN_eqb (branch_head mh 1 br) b &&
               (let '(_, hcflat, _) := run_flat segs in optN_eqb (cached_head hcflat 1 br) b) &&
               match hrestart conf imgh with
               | Ok (mr, hcr, _) => optN_eqb (cached_head hcr 1 br) a && optN_eqb (branch_head mr 1 br) a
               | _ => false
               end) heads
    | _ => false
    end
    || forallb (fun h : N * option N * option N => let '(br, b, a) := h in
               optN_eqb (live_head m 1 br) b &&
               match recover conf img with Ok (mr, _) => optN_eqb (live_head mr 1 br) a | _ => false end) heads
  | CMapLog segs before after =>
    (* the log as the code stands (twice) or repaired (once) *)
    let check := fun tw =>
      let '(s, lg) := seg_run tw segs in
      list_eqb quad_eqb (mp_splits s) before && list_eqb quad_eqb (mp_splits (replay mp_empty lg)) after in
    check true || check false
  | CMapLogV ancs segs obs =>
    let check := fun tw =>
      let '(st, lg) := vseg_go tw ancs ([], []) segs in
      (* the same mutations without any restart (right-hand side of C03_maplog_restarts_interleaved) *)
      let stflat := fst (vrun tw ancs ([], []) (concat segs)) in
      forallb (fun x : N * list (N * N * N * N) * list (N * N * N * N) => let '(v, b, a) := x in
                 list_eqb quad_eqb (vsplits st (anc_of ancs v)) b &&
                 (tw || list_eqb quad_eqb (vsplits stflat (anc_of ancs v)) b) &&
                 list_eqb quad_eqb (vsplits (vreplay lg) (anc_of ancs v)) a) obs in
    check true || check false
  | CNext _ _ => true
  | CLogRT _ _ _ _ _ => true
  end.

(* 0 holds; 1 an endpoint (incl. branch-name resolution, next label, instance info) answers
   differently after the restart; 2 repo metadata differs; 3 split records differ, or a
   re-opened mutation log does not return exactly the records appended *)
Definition spec_class (c : c03case) : nat :=
  match c with
  | CGen kinds => if forallb (fun k : nat * nat => Nat.eqb (snd k) 0) kinds then 0%nat else 1%nat
  | CGenMerge kinds => if forallb (fun k : nat * nat => Nat.eqb (snd k) 0) kinds then 0%nat else 1%nat
  | CRepos _ before after json_same => if repos_eqb before after && json_same then 0%nat else 2%nat
  | CHeads _ heads =>
    if forallb (fun h : N * option N * option N => let '(_, b, a) := h in optN_eqb b a) heads then 0%nat
    else 1%nat
  | CExtents before after => if Bool.eqb before after then 0%nat else 1%nat
  | CMapLog _ before after => if list_eqb quad_eqb before after then 0%nat else 3%nat
  | CMapLogV _ _ obs =>
    if forallb (fun x : N * list (N * N * N * N) * list (N * N * N * N) => let '(_, b, a) := x in list_eqb quad_eqb b a) obs
    then 0%nat else 3%nat
  | CNext before after =>
    if before =? after then 0%nat else 1%nat
  | CLogRT w ra sa rs ss => if rs && ss && Nat.eqb w ra && Nat.eqb w sa then 0%nat else 3%nat
  end.

Fixpoint classify_from (i : nat) (l : list c03case) : list (nat * nat) :=
  match l with
  | [] => []
  | c :: r => let k := spec_class c in
              if Nat.eqb k 0 then classify_from (S i) r else (i, k) :: classify_from (S i) r
  end.
Definition c03_spec_fail (l : list c03case) : list (nat * nat) := classify_from 0 l.
Definition c03_model_mismatch (l : list c03case) : list nat := find_idx (fun c => negb (model_ok c)) l.
