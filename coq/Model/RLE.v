(* Model.RLE: run-length encoded sparse volumes, dvid/volumes.go (C18).
     RLE.Excise :520   RLE.Less :543   RLEs.Normalize :632   RLEs.Split :667   RLEs.Partition :742
     RLEs.FitToBounds :773   RLEs.MarshalBinary :817   RLEs.UnmarshalBinary :839   ReadRLEs :563
     RLEs.Add :891   BlockRLEs.appendBlockRLE :945   RLE.MarshalBinary :442  RLE.UnmarshalBinary :452
   Coordinates and lengths are int32 in Go: every + and - below is followed by w32 (two's
   complement wrap), so the model is faithful outside the no-overflow range too.
   Definitions only. *)
From DV Require Import Base.Prelude Base.Int Base.WrapZ Model.Geometry Gen.Consts.
Local Open Scope Z_scope.

Record rle : Type := R { rx : Z; ry : Z; rz : Z; rlen : Z }.

Definition add32 (a b : Z) : Z := w32 (a + b).
Definition sub32 (a b : Z) : Z := w32 (a - b).

Definition rle_eqb (a b : rle) : bool :=
  (rx a =? rx b) && (ry a =? ry b) && (rz a =? rz b) && (rlen a =? rlen b).

(* voxel membership: the meaning of a run and of a run list *)
Definition inr (p : pt) (r : rle) : bool :=
  (py p =? ry r) && (pz p =? rz r) && (rx r <=? px p) && (px p <? rx r + rlen r).
Definition inrs (p : pt) (l : list rle) : bool := existsb (inr p) l.

(* RLE.Less: by start point z, y, x; the length is not compared *)
Definition rle_less (a b : rle) : bool :=
  if rz a <? rz b then true else if rz b <? rz a then false else
  if ry a <? ry b then true else if ry b <? ry a then false else
  rx a <? rx b.

(* sort.Sort(norm): any sorting algorithm gives the same list when start points are distinct
   (which disjoint non-empty runs have); modelled by a stable insertion sort *)
Fixpoint rle_insert (r : rle) (l : list rle) : list rle :=
  match l with
  | [] => [r]
  | h :: t => if rle_less r h then r :: l else h :: rle_insert r t
  end.
Definition rle_sort (l : list rle) : list rle := fold_right rle_insert [] l.

(* the merge loop of Normalize: [old] is the run being grown *)
Fixpoint merge_loop (old : rle) (rest : list rle) : list rle :=
  match rest with
  | [] => [old]
  | r :: rest' =>
    if negb (ry r =? ry old) || negb (rz r =? rz old) || negb (rx r =? add32 (rx old) (rlen old))
    then old :: merge_loop r rest'
    else merge_loop (R (rx old) (ry old) (rz old) (add32 (rlen old) (rlen r))) rest'
  end.

Definition normalize (l : list rle) : list rle :=
  match rle_sort l with
  | [] => []
  | h :: t => merge_loop h t
  end.

(* RLE.Excise: None is Go's nil (no intersection); Some [] means fully covered *)
Definition excise (r s : rle) : option (list rle) :=
  if negb (rz r =? rz s) || negb (ry r =? ry s) then None else
  let x0 := rx r in
  let x1 := sub32 (add32 x0 (rlen r)) 1 in
  let sx0 := rx s in
  let sx1 := sub32 (add32 sx0 (rlen s)) 1 in
  if (sx1 <? x0) || (x1 <? sx0) then None else
  Some ((if x0 <? sx0 then [R x0 (ry r) (rz r) (sub32 sx0 x0)] else [])
        ++ (if sx1 <? x1 then [R (add32 sx1 1) (ry r) (rz r) (sub32 x1 sx1)] else [])).

(* one split run against the container/list cursor of Split: [before] is the reversed part of
   the list in front of the cursor e, [after] starts at e.  None: e ran off the end (error) *)
Fixpoint split_one (s : rle) (before after : list rle) : option (list rle * list rle) :=
  match after with
  | [] => None
  | o :: tl =>
    match excise o s with
    | None => split_one s (o :: before) tl
    | Some [] => Some (before, tl)
    | Some [f] => Some (before, f :: tl)
    | Some [f0; f1] => Some (f0 :: before, f1 :: tl)
    | Some _ => None
    end
  end.

Fixpoint split_all (ss : list rle) (before after : list rle) : option (list rle) :=
  match ss with
  | [] => Some (rev before ++ after)
  | s :: ss' => match split_one s before after with
                | None => None
                | Some (b', a') => split_all ss' b' a'
                end
  end.

Definition split (rles splits : list rle) : res (list rle) :=
  match splits with
  | [] => Ok rles
  | _ => match split_all (normalize splits) [] (normalize rles) with
         | Some out => Ok out
         | None => Err
         end
  end.

(* ---- Partition ---- *)
Definition bpiece : Type := (pt * rle)%type.

(* the inner loop `for remain >= 1`; Err = the loop did not finish within the fuel (it always
   does when the block size is positive, see Proofs) *)
Fixpoint part_loop (fuel : nat) (bx by_ bz bBegX x y z remain sx : Z) : res (list bpiece) :=
  if remain <? 1 then Ok [] else
  match fuel with
  | O => Err
  | S f =>
    let dx := sub32 (add32 bBegX sx) x in
    let n := if remain <? dx then remain else dx in
    match part_loop f (add32 bx 1) by_ bz (add32 bBegX sx) (add32 x dx) y z (sub32 remain dx) sx with
    | Ok rest => Ok (((bx, by_, bz), R x y z n) :: rest)
    | e => e
    end
  end.

Definition run_pieces (size : pt) (r : rle) : res (list bpiece) :=
  match chunk_pt (rx r, ry r, rz r) size with
  | Ok b => part_loop (Z.to_nat (rlen r)) (px b) (py b) (pz b) (w32 (px b * px size))
                      (rx r) (ry r) (rz r) (rlen r) (px size)
  | Err => Err
  | Panic => Panic
  end.

Fixpoint all_pieces (size : pt) (l : list rle) : res (list bpiece) :=
  match l with
  | [] => Ok []
  | r :: t => match run_pieces size r with
              | Ok a => match all_pieces size t with Ok b => Ok (a ++ b) | e => e end
              | e => e
              end
  end.

(* BlockRLEs (a Go map) as an association list in order of first insertion *)
Definition bmap : Type := list (pt * list rle).
Fixpoint append_block (m : bmap) (b : pt) (r : rle) : bmap :=
  match m with
  | [] => [(b, [r])]
  | (k, rs) :: t => if pt_eqb k b then (k, rs ++ [r]) :: t else (k, rs) :: append_block t b r
  end.
Definition group_pieces (ps : list bpiece) : bmap :=
  fold_left (fun m (q : bpiece) => append_block m (fst q) (snd q)) ps [].
Fixpoint bmap_get (m : bmap) (b : pt) : option (list rle) :=
  match m with
  | [] => None
  | (k, rs) :: t => if pt_eqb k b then Some rs else bmap_get t b
  end.

Definition partition (rles : list rle) (size : pt) : res bmap :=
  match all_pieces size rles with
  | Ok ps => Ok (group_pieces ps)
  | Err => Err
  | Panic => Panic
  end.

(* ---- FitToBounds ---- *)
Record obounds : Type := OB { minx : option Z; maxx : option Z; miny : option Z; maxy : option Z;
                              minz : option Z; maxz : option Z }.
Definition ltb_opt (a : Z) (b : option Z) : bool := match b with Some v => a <? v | None => false end.
Definition gtb_opt (a : Z) (b : option Z) : bool := match b with Some v => v <? a | None => false end.

Definition fit_run (b : obounds) (r : rle) : option rle :=
  if ltb_opt (rz r) (minz b) then None else
  if gtb_opt (rz r) (maxz b) then None else
  if ltb_opt (ry r) (miny b) then None else
  if gtb_opt (ry r) (maxy b) then None else
  let after_min : option rle :=
    match minx b with
    | Some mn =>
      if sub32 (add32 (rx r) (rlen r)) 1 <? mn then None
      else if rx r <? mn then Some (R mn (ry r) (rz r) (sub32 (rlen r) (sub32 mn (rx r))))
      else Some r
    | None => Some r
    end in
  match after_min with
  | None => None
  | Some r1 =>
    match maxx b with
    | Some mx =>
      if mx <? rx r1 then None
      else if mx <? sub32 (add32 (rx r1) (rlen r1)) 1
           then Some (R (rx r1) (ry r1) (rz r1) (add32 (sub32 mx (rx r1)) 1))
           else Some r1
    | None => Some r1
    end
  end.

Fixpoint filter_map {A B} (f : A -> option B) (l : list A) : list B :=
  match l with
  | [] => []
  | a :: t => match f a with Some b => b :: filter_map f t | None => filter_map f t end
  end.

(* the code as it stands: `copy` into a slice of length 0 copies nothing, so nil bounds
   ("no clipping") return no runs at all *)
Definition fit_to_bounds_orig (rles : list rle) (b : option obounds) : list rle :=
  match b with
  | None => []
  | Some ob => filter_map (fit_run ob) rles
  end.
(* the repaired code (repo_patches/C18-1-fix.diff): nil bounds return a copy of the runs *)
Definition fit_to_bounds (rles : list rle) (b : option obounds) : list rle :=
  match b with
  | None => rles
  | Some ob => filter_map (fit_run ob) rles
  end.

Definition inside (b : obounds) (p : pt) : bool :=
  negb (ltb_opt (px p) (minx b)) && negb (gtb_opt (px p) (maxx b)) &&
  negb (ltb_opt (py p) (miny b)) && negb (gtb_opt (py p) (maxy b)) &&
  negb (ltb_opt (pz p) (minz b)) && negb (gtb_opt (pz p) (maxz b)).
Definition inside_opt (b : option obounds) (p : pt) : bool :=
  match b with None => true | Some ob => inside ob p end.

(* ---- Add ---- *)
(* scan the receiver for the first run of the same row that overlaps r2; Some = found *)
Fixpoint add_scan (l : list rle) (r2 : rle) : option (list rle * Z) :=
  match l with
  | [] => None
  | r :: tl =>
    let continue_ := match add_scan tl r2 with Some (tl', n) => Some (r :: tl', n) | None => None end in
    if (ry r =? ry r2) && (rz r =? rz r2) then
      let x0 := rx r in
      let x1 := sub32 (add32 x0 (rlen r)) 1 in
      let c0 := rx r2 in
      let c1 := sub32 (add32 c0 (rlen r2)) 1 in
      if x1 <? c0 then continue_ else
      if c1 <? x0 then continue_ else
      let '(n1, x0') := if c0 <? x0 then (sub32 x0 c0, c0) else (0, x0) in
      let '(n2, x1') := if x1 <? c1 then (sub32 c1 x1, c1) else (0, x1) in
      Some (R x0' (ry r) (rz r) (add32 (sub32 x1' x0') 1) :: tl, n1 + n2)
    else continue_
  end.

(* the code before repo_patches/C18-3-fix.diff: the count is taken from the one run that is
   extended, so a run bridging two existing runs is counted as if only the first existed *)
Fixpoint add_runs_orig (l rles2 : list rle) (added : Z) : list rle * Z :=
  match rles2 with
  | [] => (l, added)
  | r2 :: t => match add_scan l r2 with
               | Some (l', n) => add_runs_orig l' t (wS 64 (added + n))
               | None => add_runs_orig (l ++ [r2]) t (wS 64 (added + rlen r2))
               end
  end.
Definition add_orig (l rles2 : list rle) : list rle * Z := add_runs_orig l rles2 0.

Definition num_voxels (l : list rle) : Z := fold_right (fun r a => rlen r + a) 0 l.

(* uncoveredVoxels (repaired code): cut every run of the receiver out of the new run; what is left
   are the voxels no run holds.  (The uint64/int64 sums of int32 lengths are not wrapped.) *)
Definition cut_frags (frags : list rle) (r : rle) : list rle :=
  flat_map (fun f => match excise f r with None => [f] | Some cut => cut end) frags.
Definition uncovered (l : list rle) (r2 : rle) : list rle := fold_left cut_frags l [r2].

Fixpoint add_runs (l rles2 : list rle) (added : Z) : list rle * Z :=
  match rles2 with
  | [] => (l, added)
  | r2 :: t =>
    let n := num_voxels (uncovered l r2) in
    match add_scan l r2 with
    | Some (l', _) => add_runs l' t (added + n)
    | None => add_runs (l ++ [r2]) t (added + n)
    end
  end.
Definition add (l rles2 : list rle) : list rle * Z := add_runs l rles2 0.

(* ---- binary encoding: x, y, z, length as little-endian int32 ---- *)
Definition le32 (v : Z) : bytes := le_enc 4 (Z.to_N (u32 v)).
Definition rd32 (b : bytes) : Z := w32 (Z.of_N (le_dec b)).

Definition marshal_run (r : rle) : bytes := le32 (rx r) ++ le32 (ry r) ++ le32 (rz r) ++ le32 (rlen r).
Definition marshal (l : list rle) : bytes := concat (map marshal_run l).

Definition unmarshal_run (b : bytes) : res rle :=
  if negb (Nat.eqb (length b) 16) then Err else
  Ok (R (rd32 (firstn 4 b)) (rd32 (firstn 4 (skipn 4 b))) (rd32 (firstn 4 (skipn 8 b)))
        (rd32 (firstn 4 (skipn 12 b)))).

(* read n runs from the front of b; Err on a short read *)
Fixpoint read_runs (n : nat) (b : bytes) : res (list rle) :=
  match n with
  | O => Ok []
  | S n' =>
    if Nat.ltb (length b) 16 then Err else
    match unmarshal_run (firstn 16 b), read_runs n' (skipn 16 b) with
    | Ok r, Ok t => Ok (r :: t)
    | _, _ => Err
    end
  end.

Definition unmarshal (b : bytes) : res (list rle) :=
  if negb (Nat.eqb (Nat.modulo (length b) 16) 0) then Err else read_runs (Nat.div (length b) 16) b.

(* ReadRLEs: 8 header bytes (byte 0 = EncodingBinary), uint32 span count, then the runs;
   bytes after the last run stay unread *)
Definition read_rles (s : bytes) : res (list rle) :=
  if Nat.ltb (length s) 8 then Err else
  match s with
  | h0 :: _ =>
    if negb (N.eqb h0 n_EncodingBinary) then Err else
    let s1 := skipn 8 s in
    if Nat.ltb (length s1) 4 then Err else
    let n := le_dec (firstn 4 s1) in
    (* fewer than 16*n bytes left: some read hits the end of the stream *)
    if (N.of_nat (length (skipn 4 s1)) <? 16 * n)%N then Err else
    read_runs (N.to_nat n) (skipn 4 s1)
  | [] => Err
  end.
