(* Model.ConcRun: the generated lock table (Gen/Locks.v) turned into requests of Model.Conc,
   the forced two-request schedule the driver replays through the yield points, and the
   checkers used by Run/cases_C11.v (no proofs).

   Abstraction.  A value is the list of request ids whose effect it reflects.  Every Write of a
   request with id [me] stores (the value it last read from that location) ++ [me]: what a
   read-modify-write does when it puts back what it read plus its own contribution.  At the site
   [datastore.newVersion] the write is guarded by the uniqueness check made on the first read:
   when that read was non-empty the request refuses and changes nothing. *)
From DV Require Import Base.Prelude Model.Conc Gen.Locks.
From Coq Require Import String.
Import List ListNotations.
Local Open Scope string_scope.
Local Open Scope list_scope.

Definition val := list N.
Definition empty_store : store val := fun _ => [].

Fixpoint assoc (k : string) (l : list (string * nat)) : option nat :=
  match l with
  | [] => None
  | (k', v) :: r => if String.eqb k k' then Some v else assoc k r
  end.

Definition guarded (name : string) : bool := String.eqb name "datastore.newVersion".

Definition write_fun (g : bool) (me : N) (k : option nat) : locals val -> val :=
  fun regs =>
    let latest := match k with
                  | Some i => match nth_error regs i with Some v => v | None => [] end
                  | None => []   (* blind write *)
                  end in
    if g then match regs with
              | (_ :: _) :: _ => latest              (* the check saw an entry: refuse *)
              | _ => latest ++ [me]
              end
    else latest ++ [me].

Fixpoint to_actions (g : bool) (me : N) (evs : list gev) (nreads : nat) (last : list (string * nat))
  : list (action val) :=
  match evs with
  | [] => [Ack]
  | e :: r =>
    match e with
    | GLock m => Lock m :: to_actions g me r nreads last
    | GUnlock m => Unlock m :: to_actions g me r nreads last
    | GRLock m => RLock m :: to_actions g me r nreads last
    | GRUnlock m => RUnlock m :: to_actions g me r nreads last
    | GRead l => Read l :: to_actions g me r (S nreads) ((l, nreads) :: last)
    | GWrite l =>
      (* the value written derives from what the request last read from this location or, when it
         never read it (the memory copy of neuronjson is computed from the stored annotation),
         from its most recent read of any location; with no read at all it is a blind write *)
      let k := match assoc l last with
               | Some i => Some i
               | None => match nreads with O => None | S n => Some n end
               end in
      Write l (write_fun g me k) :: to_actions g me r nreads last
    | GYield _ => to_actions g me r nreads last
    end
  end.

Definition site_request (me : N) (s : gsite) : request val :=
  to_actions (guarded (gs_name s)) me (gs_events s) 0 [].

(* number of actions that precede the yield point named y *)
Fixpoint yield_pos (y : string) (evs : list gev) (k : nat) : option nat :=
  match evs with
  | [] => None
  | GYield n :: r => if String.eqb n y then Some k else yield_pos y r k
  | _ :: r => yield_pos y r (S k)
  end.

Fixpoint add_str (x : string) (l : list string) : list string :=
  match l with
  | [] => [x]
  | y :: r => if String.eqb x y then l else y :: add_str x r
  end.

Definition site_locs (s : gsite) : list string :=
  fold_left (fun acc e => match e with GRead l => add_str l acc | GWrite l => add_str l acc | _ => acc end)
            (gs_events s) [].
Definition site_mutexes (s : gsite) : list string :=
  fold_left (fun acc e => match e with GLock m => add_str m acc | _ => acc end) (gs_events s) [].

(* the verdict recomputed from the events: the exclusive mutex under which the site is covered *)
Definition site_cover (s : gsite) : option string :=
  find (fun mu => covered mu (site_request 1 s)) (site_mutexes s).
Definition site_covered (s : gsite) : bool := match site_cover s with Some _ => true | None => false end.
Definition verdicts_agree (s : gsite) : bool :=
  String.eqb (gs_cover s) (match site_cover s with Some mu => mu | None => "" end).

(* all users of one array of mutexes select the element by the same function of the guarded id *)
Definition shard_keys_agree (l : list (string * string * string)) : bool :=
  forallb (fun a => forallb (fun b => negb (String.eqb (snd (fst a)) (snd (fst b))) || String.eqb (snd a) (snd b)) l) l.

(* each versioned single-key mutation of the storage engine is exactly one write transaction
   (and no separate read transaction): the hypothesis under which it is modelled as one critical
   section of the mutex "badger.txn" *)
Definition single_txn (l : list (string * nat * nat)) : bool :=
  forallb (fun t => Nat.eqb (snd (fst t)) 1 && Nat.eqb (snd t) 0) l.

(* the order in which a request writes its data, for the sites whose serialisability argument
   uses it.  A merge makes supervoxels cleavable from the target by putting them into the target's
   index: the mapping must say "target" BEFORE that, or a cleave that already sees them there is
   overwritten by the merge's late mapping write.  A cleave takes supervoxels out of the index
   first and re-maps them afterwards. *)
Definition required_write_order : list (string * list string) :=
  [("labelmap.MergeLabels", ["mapping"; "target"; "merged"]);
   ("labelmap.CleaveLabel", ["cleaved"; "target"; "mapping"])].
Definition str_list_eqb (a b : list string) : bool := list_eqb String.eqb a b.
Definition write_order_ok (tbl : list (string * list string)) : bool :=
  forallb (fun req => match find (fun e => String.eqb (fst e) (fst req)) tbl with
                      | Some e => str_list_eqb (snd e) (snd req)
                      | None => false
                      end) required_write_order.

(* a request must be refused by a check made in the same critical section as the write it guards:
   a check under another acquisition of the lock can be stale when the write happens.  Exceptions
   (recorded, open): MergeLabels validates target and merged bodies when it starts; the target's
   existence is checked again inside addToLabelIndex, the merged bodies are not (two merges naming
   the same merged body). *)
Definition allowed_outside_checks : list (string * string * nat) :=
  [("labelmap.MergeLabels", "target", 3%nat); ("labelmap.MergeLabels", "merged", 3%nat)].
Definition checks_ok (tbl : list (string * string * nat * nat)) : bool :=
  forallb (fun e =>
             let site := fst (fst (fst e)) in
             let l := snd (fst (fst e)) in
             let outside := snd (fst e) in
             let allowed := match find (fun a => String.eqb (fst (fst a)) site && String.eqb (snd (fst a)) l)
                                       allowed_outside_checks with
                            | Some a => snd a
                            | None => 0%nat
                            end in
             Nat.leb outside allowed) tbl.

Definition find_site (name : string) : option gsite :=
  find (fun s => String.eqb (gs_name s) name) lock_table.

(* ---- sets of request ids ---- *)
Definition subset (a b : list N) : bool := forallb (fun x => existsb (N.eqb x) b) a.
Definition set_eqb (a b : list N) : bool := subset a b && subset b a.

Definition same_on (locs : list string) (a b : store val) : bool :=
  forallb (fun l => set_eqb (a l) (b l)) locs.

(* ---- the forced schedule: request 1 runs k actions and is held at the yield point; request 2
   runs as far as the mutexes let it; request 1 is released and finishes; request 2 finishes ---- *)
Fixpoint run_n (i : nat) (n : nat) (s : state val) : option (state val) :=
  match n with
  | O => Some s
  | S n' => match step s i with Some s' => run_n i n' s' | None => None end
  end.

Fixpoint run_while (i : nat) (fuel : nat) (s : state val) : state val :=
  match fuel with
  | O => s
  | S f => match step s i with Some s' => run_while i f s' | None => s end
  end.

Definition thread_done (i : nat) (s : state val) : bool :=
  match nth_error (thr s) i with Some t => finished t | None => false end.

(* (second request was blocked while the first was held, final store); None: not a complete run.
   The two requests may be of different sites (a merge and a cleave of one body). *)
Definition forced2 (s s' : gsite) (k : nat) : option (bool * store val) :=
  let r0 := site_request 1 s in
  let r1 := site_request 2 s' in
  let fuel := S (List.length r0 + List.length r1) in
  match run_n 0 k (init [r0; r1] empty_store) with
  | None => None
  | Some s1 =>
    let s2 := run_while 1 fuel s1 in
    let blocked := negb (thread_done 1 s2) in
    let s3 := run_while 0 fuel s2 in
    let s4 := run_while 1 fuel s3 in
    if all_done s4 then Some (blocked, st s4) else None
  end.
Definition forced (s : gsite) (k : nat) : option (bool * store val) := forced2 s s k.

(* the same schedule as an explicit list of thread indices (used by the refutation theorem) *)
Definition canon (k : nat) (r0 r1 : request val) : list nat :=
  repeat 0%nat k ++ repeat 1%nat (List.length r1) ++ repeat 0%nat (List.length r0 - k).

Definition lost_at (s : gsite) (k : nat) : bool :=
  let r0 := site_request 1 s in
  let r1 := site_request 2 s in
  match run_schedule (canon k r0 r1) (init [r0; r1] empty_store) with
  | Some fin =>
    all_done fin &&
    negb (same_on (site_locs s) (st fin) (run_sequential [r0; r1] empty_store)) &&
    negb (same_on (site_locs s) (st fin) (run_sequential [r1; r0] empty_store))
  | None => false
  end.

Definition find_witness (s : gsite) : option nat :=
  find (lost_at s) (seq 0 (S (List.length (site_request 1 s)))).

(* ---- all interleavings of yield-delimited segments ----
   A request of the driver's scheduler is (site, variant, yield points it stops at).  Variant 1
   (2) gives the request its own copies of every location except "tag" (an element edit in another
   block of the same tag, a branch of another name, the child of a merge, which is on no branch of
   the parent): the mutexes stay shared. *)
Definition rename_loc (v : nat) (l : string) : string :=
  match v with
  | O => l
  | 1%nat => if String.eqb l "tag" then l else l ++ "2"
  | _ => if String.eqb l "tag" then l else l ++ "3"
  end.
Definition rename_events (v : nat) (evs : list gev) : list gev :=
  map (fun e => match e with GRead l => GRead (rename_loc v l) | GWrite l => GWrite (rename_loc v l) | _ => e end) evs.
(* requests that do not put back what they read: a delete stores the empty value, a replacing post
   stores only its own contribution *)
Definition clears (name : string) : bool :=
  String.eqb name "neuronjson.DeleteData".
Definition override_writes (f : locals val -> val) (r : request val) : request val :=
  map (fun a => match a with Write l _ => Write l f | _ => a end) r.
Definition site_request_k (me : N) (v : nat) (replace : bool) (s : gsite) : request val :=
  let r := to_actions (guarded (gs_name s)) me (rename_events v (gs_events s)) 0 [] in
  if clears (gs_name s) then override_writes (fun _ => []) r
  else if replace then override_writes (fun _ => [me]) r
  else r.
Definition site_request_v (me : N) (v : nat) (s : gsite) : request val := site_request_k me v false s.
Definition site_locs_v (v : nat) (s : gsite) : list string := map (rename_loc v) (site_locs s).

Record sreq := mkSreq { sr_site : string; sr_variant : nat; sr_replace : bool; sr_yields : list string }.

(* scheduler state: machine state, per thread the number of segments it has completed *)
Definition executed (len_i i : nat) (s : state val) : nat :=
  match nth_error (thr s) i with Some t => len_i - List.length (t_rem t) | None => 0%nat end.

(* a request at a guarded site that saw an entry in its check returns at once: it does not stop at
   the yield points that lie behind the check *)
Definition refused (g : bool) (i : nat) (s : state val) : bool :=
  g && match nth_error (thr s) i with
       | Some t => match t_regs t with (_ :: _) :: _ => true | _ => false end
       | None => false
       end.

Fixpoint run_to (g : bool) (i tgt len_i fuel : nat) (s : state val) : state val * bool :=
  match fuel with
  | O => (s, false)
  | S f => if Nat.leb (if refused g i s then len_i else tgt) (executed len_i i s) then (s, true)
           else match step s i with
                | Some s' => run_to g i tgt len_i f s'
                | None => (s, false)          (* waits on a mutex *)
                end
  end.

(* the action-level schedule a run has executed, oldest first: the thread indices of the log *)
Definition trace_of (s : state val) : list nat := rev (map fst (log s)).

Fixpoint set_nat (l : list nat) (i x : nat) : list nat :=
  match l, i with
  | [], _ => []
  | _ :: r, O => x :: r
  | y :: r, S i' => y :: set_nat r i' x
  end.
(* scheduler state: machine state, segments completed per thread, threads that were granted a
   segment and wait on a mutex inside it *)
Record sst := mkSst { ss : state val; sk : list nat; sp : list nat (* waiting threads, longest wait first *) }.
Definition remove_nat (i : nat) (l : list nat) : list nat := filter (fun j => negb (Nat.eqb i j)) l.
Definition enqueue (i : nat) (l : list nat) : list nat := if existsb (Nat.eqb i) l then l else l ++ [i].

Section Sched.
Variable lens : list nat.            (* length of each request *)
Variable marks : list (list nat).    (* per request: executed-action counts at which it stops *)
Variable guards : list bool.         (* per request: is its site guarded *)
Variable fuel : nat.

(* let thread i run its next segment (or go on with the one it is blocked in):
   (new state, reached the end of the segment, moved at all) *)
Definition grant (i : nat) (x : sst) : sst * bool * bool :=
  match nth_error (sk x) i, nth_error lens i, nth_error marks i, nth_error guards i with
  | Some k, Some len, Some ms, Some g =>
    let tgt := match nth_error ms k with Some m => m | None => len end in
    let '(s', ok) := run_to g i tgt len fuel (ss x) in
    let moved := negb (Nat.eqb (executed len i (ss x)) (executed len i s')) in
    (mkSst s' (if ok then set_nat (sk x) i (S k) else sk x)
           (if ok then remove_nat i (sp x) else enqueue i (sp x)), ok, moved || ok)
  | _, _, _, _ => (x, false, false)
  end.

(* a request that waits on a mutex goes on by itself as soon as the mutex is free: after every
   segment the waiting requests (other than the one just run) are tried again: waiting readers
   first, then the others, each group longest wait first (the hand-over order of sync.RWMutex) *)
Fixpoint retry_pending (js : list nat) (skip : nat) (x : sst) (progress : bool) : sst * bool :=
  match js with
  | [] => (x, progress)
  | j :: r =>
    if negb (Nat.eqb j skip) && existsb (Nat.eqb j) (sp x)
    then let '(x', _, moved) := grant j x in retry_pending r skip x' (progress || moved)
    else retry_pending r skip x progress
  end.

(* sync.RWMutex.Unlock first releases the readers that were waiting, then lets writers in *)
Definition waits_to_read (x : sst) (j : nat) : bool :=
  match nth_error (thr (ss x)) j with
  | Some t => match t_rem t with RLock _ :: _ => true | _ => false end
  | None => false
  end.
Definition handoff_order (x : sst) : list nat :=
  filter (waits_to_read x) (sp x) ++ filter (fun j => negb (waits_to_read x j)) (sp x).

Definition all_threads : list nat := seq 0 (List.length lens).

(* follow the word until a granted thread cannot finish its segment *)
Fixpoint follow (w : list nat) (pos : nat) (x : sst) : sst * option (nat * nat) :=
  match w with
  | [] => (x, None)
  | i :: r =>
    if thread_done i (ss x) then follow r (S pos) x
    else let '(x', ok, _) := grant i x in
         if ok then follow r (S pos) x' else (x', Some (pos, i))
  end.

(* afterwards: threads in index order, one segment each per pass, until all have finished;
   a pass without any movement is a deadlock *)
Fixpoint drain_pass (is : list nat) (x : sst) (progress : bool) : sst * bool :=
  match is with
  | [] => (x, progress)
  | i :: r =>
    if thread_done i (ss x) then drain_pass r x progress
    else let '(x1, _, moved) := grant i x in
         let '(x2, p2) := retry_pending (handoff_order x1) i x1 false in
         drain_pass r x2 (progress || moved || p2)
  end.

Fixpoint drain (n : nat) (x : sst) : sst * bool :=
  match n with
  | O => (x, negb (all_done (ss x)))
  | S n' =>
    if all_done (ss x) then (x, false)
    else let '(x', progress) := drain_pass all_threads x false in
         if progress then drain n' x' else (x', true)
  end.
End Sched.

Record sched_out := mkOut {
  so_blocked : option (nat * nat); so_hang : bool; so_final : store val;
  so_reqs : list (request val);   (* the requests that ran *)
  so_trace : list nat;            (* the interleaving of their actions that the scheduler produced *)
}.

Fixpoint opt_all {A} (l : list (option A)) : option (list A) :=
  match l with
  | [] => Some []
  | Some x :: r => match opt_all r with Some r' => Some (x :: r') | None => None end
  | None :: _ => None
  end.

Fixpoint number_from {A} (n : N) (l : list A) : list (N * A) :=
  match l with [] => [] | x :: r => (n, x) :: number_from (n + 1)%N r end.

(* None: a site or a yield point of the case is not in the generated table *)
Definition store_of (ini : list (string * list N)) : store val :=
  fun l => match find (fun e => String.eqb (fst e) l) ini with Some e => snd e | None => [] end.

Definition sched_run (ini : list (string * list N)) (rs : list sreq) (w : list nat) : option sched_out :=
  match opt_all (map (fun r => find_site (sr_site r)) rs) with
  | None => None
  | Some sites =>
    let reqs := map (fun p => site_request_k (fst p) (sr_variant (fst (snd p))) (sr_replace (fst (snd p))) (snd (snd p)))
                    (number_from 1%N (combine rs sites)) in
    match opt_all (map (fun p => opt_all (map (fun y => yield_pos y (gs_events (snd p)) 0) (sr_yields (fst p))))
                       (combine rs sites)) with
    | None => None
    | Some marks =>
      let lens := map (@List.length _) reqs in
      let guards := map (fun x => guarded (gs_name x)) sites in
      let fuel := S (fold_left Nat.add lens 0%nat) in
      let x0 := mkSst (init reqs (store_of ini)) (map (fun _ => 0%nat) reqs) [] in
      let '(x1, blocked) := follow lens marks guards fuel w 0 x0 in
      let '(x2, hang) := drain lens marks guards fuel (S (fuel * 2)) x1 in
      let s2 := ss x2 in
      Some (mkOut blocked hang (st s2) reqs (trace_of s2))
    end
  end.

Definition sched_locs (rs : list sreq) : list string :=
  fold_left (fun acc r => match find_site (sr_site r) with
                          | Some s => fold_left (fun a l => add_str l a) (site_locs_v (sr_variant r) s) acc
                          | None => acc
                          end) rs [].

(* ---- cases written by the driver ---- *)
Inductive mode :=
| Forced (yield : string) (blocked : bool)   (* request 1 held at the yield point, request 2 run, 1 released *)
| Forced2 (site2 : string) (yield : string) (blocked : bool)  (* as Forced, request 2 is of another site *)
| Sched (rs : list sreq) (word : list nat) (blocked : option (nat * nat))
    (* requests 1..n stop at their yield points; word: which request runs its next segment;
       blocked = (position in the word, request index) of the first grant that ended in a mutex wait *)
| Fine (word : list nat) (blocked : option (nat * nat))
    (* as Sched, but the requests also stop before every read-write transaction of the storage engine
       (yield points the model does not have): judged by the oracle only *)
| Stress (n : nat)                           (* n concurrent requests, ids 1..n *)
| Live (yield : string) (blocked : bool)     (* as Forced, at a yield point that is not part of the site's model *)
| Hang (n : nat) (yield : string).           (* the requests never finished (deadlock): n requests, held at yield ("" = stress) *)

Record c11case := mkCase {
  c_site : string;
  c_mode : mode;
  c_acked : list N;                  (* requests answered with success *)
  c_obs : list (string * list N);    (* per view of the quiescent state: ids of the requests whose effect it shows *)
  c_extra : N;                       (* 0, or a site-specific consistency check of the quiescent state that failed *)
  c_rel : list (string * bool * list N);  (* Sched cases: per view, is it primary data, and the requests whose
                                             effect a sequential run shows in it ([] = every view shows every request) *)
  c_init : list (string * list N);   (* Sched cases: what the locations held before the requests *)
  c_serial : list (list (string * list N));
     (* Sched cases whose requests do not commute (post / replacing post / delete of one annotation):
        the quiescent states of the sequential orders of the acknowledged requests, computed by the
        driver from the documented meaning of the requests; [] = the requests commute *)
}.

Definition rel_of (c : c11case) (view : string) : option (bool * list N) :=
  match find (fun e => String.eqb (fst (fst e)) view) (c_rel c) with
  | Some e => Some (snd (fst e), snd e)
  | None => None
  end.
Definition restrict (rel : list N) (l : list N) : list N := filter (fun x => existsb (N.eqb x) rel) l.


Definition model_ok (c : c11case) : bool :=
  match c_mode c with
  | Stress _ => true
  | Sched rs w blocked =>
    match sched_run (c_init c) rs w with
    | None => false
    | Some o =>
      let blocked_eq := match blocked, so_blocked o with
                        | None, None => true
                        | Some (p, i), Some (p', i') => Nat.eqb p p' && Nat.eqb i i'
                        | _, _ => false
                        end in
      (* the scheduler's run is an ordinary schedule of Model.Conc: replaying its action-level
         interleaving with run_schedule is accepted, complete, and ends in the same store *)
      let replay_ok := match run_schedule (so_trace o) (init (so_reqs o) (store_of (c_init c))) with
                       | Some s => all_done s && same_on (sched_locs rs) (st s) (so_final o)
                       | None => false
                       end in
      blocked_eq && negb (so_hang o) && replay_ok &&
      forallb (fun lo =>
                 negb (existsb (String.eqb (fst lo)) (sched_locs rs)) ||
                 match rel_of c (fst lo) with
                 | Some (_, rel) => set_eqb (snd lo) (restrict rel (so_final o (fst lo)))
                 | None => set_eqb (snd lo) (so_final o (fst lo))
                 end) (c_obs c)
    end
  | Live _ _ => true
  | Fine _ _ => true
  | Hang _ _ => true      (* liveness is outside the model: judged by the oracle only *)
  | Forced2 site2 y blocked =>
    match find_site (c_site c), find_site site2 with
    | Some s, Some s' =>
      match yield_pos y (gs_events s) 0 with
      | None => false
      | Some k =>
        match forced2 s s' k with
        | None => false
        | Some (b, final) =>
          Bool.eqb b blocked &&
          forallb (fun lo => negb (existsb (String.eqb (fst lo)) (site_locs s)) || set_eqb (snd lo) (final (fst lo)))
                  (c_obs c)
        end
      end
    | _, _ => false
    end
  | Forced y blocked =>
    match find_site (c_site c) with
    | None => false
    | Some s =>
      match yield_pos y (gs_events s) 0 with
      | None => false
      | Some k =>
        match forced s k with
        | None => false
        | Some (b, final) =>
          (* views that are not locations of the site's model (all-elements, the label mapping) are
             judged by the oracle only *)
          Bool.eqb b blocked &&
          forallb (fun lo => negb (existsb (String.eqb (fst lo)) (site_locs s)) || set_eqb (snd lo) (final (fst lo)))
                  (c_obs c)
        end
      end
    end
  end.

(* ---- the property as an oracle on what the implementation showed ----
   kinds: 1 acknowledged write lost, 2 derived index disagrees with primary data,
          3 two children on one branch, 4 other non-serialisable outcome,
          5 requests never complete (deadlock) *)
Definition overwrite_site (name : string) : bool :=
  String.eqb name "keyvalue.PutData" || String.eqb name "keyvalue.DeleteData".

Definition is_hang (m : mode) : bool := match m with Hang _ _ => true | _ => false end.

(* Sched cases: a view of the quiescent state must show exactly the requests that were
   acknowledged among those a sequential run shows in it (the effects of the driver's requests
   commute: any sequential order gives that state); a "children" view is the set of children on one
   branch of the parent, of which a sequential run creates at most one *)
Definition is_prefix_children (v : string) : bool := String.prefix "children" v.
Definition matches_alt (c : c11case) (alt : list (string * list N)) : bool :=
  forallb (fun lo => match find (fun e => String.eqb (fst e) (fst lo)) alt with
                     | Some e => set_eqb (snd e) (snd lo)
                     | None => false
                     end) (c_obs c).
Definition kind_serial (c : c11case) : nat :=
  if existsb (matches_alt c) (c_serial c) then (if N.eqb (c_extra c) 0 then 0%nat else 4%nat)
  else
    (* which part is wrong: the primary (first) view matches no sequential order, or only a derived one *)
    match c_obs c with
    | first :: _ =>
      if existsb (fun alt => match find (fun e => String.eqb (fst e) (fst first)) alt with
                             | Some e => set_eqb (snd e) (snd first)
                             | None => false
                             end) (c_serial c)
      then 2%nat else 1%nat
    | [] => 4%nat
    end.

Definition kind_sched (c : c11case) : nat :=
  match c_serial c with _ :: _ => kind_serial c | [] =>
  let missing (primary : bool) :=
    existsb (fun lo => match rel_of c (fst lo) with
                       | Some (p, rel) => Bool.eqb p primary && negb (subset (restrict (c_acked c) rel) (snd lo))
                       | None => false
                       end) (c_obs c) in
  let extra :=
    existsb (fun lo => match rel_of c (fst lo) with
                       | Some (_, rel) => negb (subset (snd lo) (restrict (c_acked c) rel))
                       | None => true
                       end) (c_obs c) in
  if existsb (fun lo => is_prefix_children (fst lo) && Nat.ltb 1 (List.length (snd lo))) (c_obs c) then 3%nat
  else if missing true then 1%nat
  else if missing false then 2%nat
  else if extra then 4%nat
  else if negb (N.eqb (c_extra c) 0) then 4%nat
  else 0%nat
  end.

Definition is_sched (m : mode) : bool := match m with Sched _ _ _ => true | Fine _ _ => true | _ => false end.

Definition kind_of (c : c11case) : nat :=
  if is_hang (c_mode c) then 5%nat
  else if is_sched (c_mode c) then kind_sched c
  else if String.eqb (c_site c) "datastore.newVersion" then
    (* views: per branch, the requests whose child exists on it *)
    if existsb (fun lo => Nat.ltb 1 (List.length (snd lo))) (c_obs c) then 3%nat
    else if negb (N.eqb (c_extra c) 0) then 4%nat else 0%nat
  else if overwrite_site (c_site c) then
    (* last writer wins: every key holds exactly one of the acknowledged values *)
    if forallb (fun lo => match snd lo with [x] => existsb (N.eqb x) (c_acked c) | _ => false end) (c_obs c)
    then (if N.eqb (c_extra c) 0 then 0%nat else 4%nat) else 1%nat
  else
    match c_obs c with
    | [] => 4%nat
    | (_, primary) :: others =>
      if negb (subset (c_acked c) primary) then 1%nat
      else if negb (forallb (fun lo => set_eqb (snd lo) primary) others) then 2%nat
      else if negb (subset primary (c_acked c)) then 4%nat
      else if negb (N.eqb (c_extra c) 0) then 4%nat
      else 0%nat
    end.

(* recorded findings (findings/C11.json): a dedicated code per site and kind; anything else keeps
   its raw kind 1..4, which is not listed as known and raises the alarm *)
Definition known_code (site : string) (kind : nat) : option nat :=
  if String.eqb site "annotation.StoreElements" then
    match kind with 1 => Some 11 | 2 => Some 12 | _ => None end%nat
  else if String.eqb site "annotation.DeleteElement" then
    match kind with 1 => Some 21 | 2 => Some 22 | _ => None end%nat
  else if String.eqb site "annotation.MoveElement" then
    match kind with 1 => Some 31 | 2 => Some 32 | _ => None end%nat
  else if String.eqb site "labelmap.MergeLabels" then
    match kind with 1 => Some 41 | 2 => Some 42 | _ => None end%nat
  else if String.eqb site "neuronjson.storeAndUpdate" then
    match kind with 1 => Some 51 | 2 => Some 52 | _ => None end%nat
  else if String.eqb site "datastore.newVersion" then
    match kind with 3 => Some 63 | 5 => Some 65 | _ => None end%nat
  else None.

Definition case_sites (c : c11case) : list string :=
  match c_mode c with
  | Sched rs _ _ => map sr_site rs
  | Forced2 s2 _ _ => [c_site c; s2]
  | _ => [c_site c]
  end.

Definition spec_class (c : c11case) : nat :=
  let k := kind_of c in
  if Nat.eqb k 0 then 0%nat
  else match find (fun o => match o with Some _ => true | None => false end)
                  (map (fun s => known_code s k) (case_sites c)) with
       | Some (Some code) => code
       | _ => k
       end.

Fixpoint classify_from (i : nat) (l : list c11case) : list (nat * nat) :=
  match l with
  | [] => []
  | c :: r => let k := spec_class c in
              if Nat.eqb k 0 then classify_from (S i) r else (i, k) :: classify_from (S i) r
  end.
Definition c11_spec_fail (l : list c11case) : list (nat * nat) := classify_from 0 l.
Definition c11_model_mismatch (l : list c11case) : list nat := find_idx (fun c => negb (model_ok c)) l.
